#!/bin/sh
# Build the framework from files on disk only (offline).
set -e
cd "$(dirname "$0")"
export GOFLAGS=-mod=mod GOPROXY=off GOSUMDB=off GOTOOLCHAIN=local
mkdir -p tools/extract/bin harness/bin evidence
(cd tools/extract && go build -o bin/extract .)
cp /repo/go.sum harness/go.sum
(cd harness && go build -tags verif -o bin/harness .)
(cd /repo && go build -o /verif/harness/bin/jpgo ./cmd/jpgo)
(cd lean && lake build Jmes Spec Proofs Props driver)
echo "setup ok"
