#!/bin/sh
# Build the framework from files on disk only (offline).
set -e
cd "$(dirname "$0")"
export GOFLAGS=-mod=mod GOPROXY=off GOSUMDB=off GOTOOLCHAIN=local
mkdir -p tools/extract/bin tools/writesites/bin tools/gotolean/bin tools/errflow/bin harness/bin evidence
(cd tools/extract && go build -o bin/extract .)
(cd tools/writesites && go build -o bin/writesites . && bin/writesites /repo /verif/lean/Jmes/GeneratedWrites.lean)
(cd tools/gotolean && go build -o bin/gotolean . && (bin/gotolean /repo /verif/lean/Jmes/GeneratedSlice.lean || cp fallback.lean /verif/lean/Jmes/GeneratedSlice.lean))
(cd tools/errflow && go build -o bin/errflow . && bin/errflow /repo /verif/lean/Jmes/GeneratedErrFlow.lean)
cp /repo/go.sum harness/go.sum
(cd harness && go build -tags verif -o bin/harness .)
(cd /repo && go build -o /verif/harness/bin/jpgo ./cmd/jpgo)
(cd lean && lake build Jmes Spec Proofs Props driver)
echo "setup ok"
