import Spec.Tables
