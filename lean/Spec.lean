import Spec.Tables
import Spec.Slice
