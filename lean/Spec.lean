import Spec.Tables
import Spec.Slice
import Spec.Semantics
