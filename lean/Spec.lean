import Spec.Tables
import Spec.Slice
import Spec.Semantics
import Spec.Printer
import Spec.Threads
import Spec.Grammar
