/-
  Spec.Grammar — the JMESPath grammar (the ABNF of the specification) as an
  inductive predicate over token lists.  It is the ambiguous, precedence-free
  grammar exactly as published: which of its parse trees an expression denotes
  is the business of Spec/Printer.lean (C03); here only membership matters (C04).

      expression        = sub-expression / index-expression / comparator-expression
                        / or-expression / identifier / and-expression / not-expression
                        / paren-expression / "*" / multi-select-list / multi-select-hash
                        / literal / function-expression / pipe-expression / raw-string
                        / current-node
      sub-expression    = expression "." ( identifier / multi-select-list /
                                           multi-select-hash / function-expression / "*" )
      index-expression  = expression bracket-specifier / bracket-specifier
      bracket-specifier = "[" (number / "*" / slice-expression) "]" / "[]" / "[?" expression "]"
      slice-expression  = [number] ":" [number] [ ":" [number] ]
      multi-select-list = "[" expression *( "," expression ) "]"
      multi-select-hash = "{" keyval-expr *( "," keyval-expr ) "}"
      keyval-expr       = identifier ":" expression
      function-expression = unquoted-string "(" [ function-arg *( "," function-arg ) ] ")"
      function-arg      = expression / "&" expression

  Tokens are those of the lexer (`[]` and `[?` are single tokens).  A literal
  token must hold valid JSON (`Json.decode` succeeds); every other side
  condition is on token types only.

  `G false` is the published grammar.  `G true` is the language Compile ACCEPTS; it differs in two
  marked places, both recorded findings:

  * (D24) one more production,
        open-projection "[" expression *( "," expression ) "]"
    where an open-projection is an expression that ENDS in a projection with nothing after it
    yet — `e[*]`, `e[]`, `e[a:b:c]`, `e[?c]` (with or without `e`), `e.*`, `*` — e.g. `a[*][b, c]`:
    the parser reads the list as the projection's right-hand side;
  * (D22) the numbers inside `[n]` and slices must be in the int64 range (`NumOK`: the parser
    converts them with `strconv.Atoi`); the published grammar has no bound.

  Soundness and completeness are both proved for `G true`
  (`Props.C04_accepts_iff`), and `G false` with in-range numbers is contained in it
  (`Props.C04_grammatical_is_accepted`).
-/
import Jmes.Ast
import Jmes.Json
import Jmes.Parser
namespace Jmes.Spec
open Jmes

inductive Cat where
  | expr | dotRhs | bracket | msList | msHash | call | elems | kvs | args | arg | openExpr
  deriving DecidableEq

def isIdent (t : Token) : Prop := t.ty = .uident ∨ t.ty = .qident

def isBinOp (ty : TokType) : Prop :=
  ty = .pipe ∨ ty = .or ∨ ty = .and ∨ (Cmp.ofTok ty).isSome

def OptNum (l : List Token) : Prop := l = [] ∨ ∃ n, l = [n] ∧ n.ty = .number

/-- slice-expression = [number] ":" [number] [ ":" [number] ] -/
def SliceG (s : List Token) : Prop :=
  ∃ a c1 b, OptNum a ∧ c1.ty = .colon ∧ OptNum b ∧
    (s = a ++ c1 :: b ∨ ∃ c2 c, c2.ty = .colon ∧ OptNum c ∧ s = a ++ c1 :: (b ++ c2 :: c))

/-- every number token is in the int64 range (`strconv.Atoi` in the parser; finding D22) -/
def NumOK (s : List Token) : Prop := ∀ t ∈ s, t.ty = .number → (Parser.atoi t.value).isSome

theorem NumOK.left {a b : List Token} (h : NumOK (a ++ b)) : NumOK a := fun t ht => h t (List.mem_append_left _ ht)
theorem NumOK.right {a b : List Token} (h : NumOK (a ++ b)) : NumOK b := fun t ht => h t (List.mem_append_right _ ht)
theorem NumOK.tail {a : Token} {b : List Token} (h : NumOK (a :: b)) : NumOK b := fun t ht => h t (List.mem_cons_of_mem _ ht)
theorem NumOK.head {a : Token} {b : List Token} (h : NumOK (a :: b)) (hn : a.ty = .number) : (Parser.atoi a.value).isSome :=
  h a (List.mem_cons_self ..) hn
theorem NumOK.nil : NumOK [] := fun _ h => by cases h
theorem NumOK.cons {a : Token} {b : List Token} (ha : a.ty = .number → (Parser.atoi a.value).isSome) (hb : NumOK b) : NumOK (a :: b) := by
  intro t ht hn
  rcases List.mem_cons.mp ht with rfl | h
  · exact ha hn
  · exact hb t h hn
theorem NumOK.cons_ne {a : Token} {b : List Token} (ha : a.ty ≠ .number) (hb : NumOK b) : NumOK (a :: b) :=
  NumOK.cons (fun h => absurd h ha) hb
theorem NumOK.append {a b : List Token} (ha : NumOK a) (hb : NumOK b) : NumOK (a ++ b) := by
  intro t ht hn
  rcases List.mem_append.mp ht with h | h
  · exact ha t h hn
  · exact hb t h hn

/-- a bracket specifier other than `[number]`: it starts a projection -/
def ProjBr (b : List Token) : Prop := ∀ l n r, b = [l, n, r] → n.ty ≠ .number

variable (N : Type) [NumOps N]

inductive G (lenient : Bool) : Cat → List Token → Prop
  -- expression
  | ident {t} : isIdent t → G lenient .expr [t]
  | star {t} : t.ty = .star → G lenient .expr [t]
  | current {t} : t.ty = .current → G lenient .expr [t]
  | raw {t} : t.ty = .stringLiteral → G lenient .expr [t]
  | literal {t} : t.ty = .jsonLiteral → (Json.decode t.value : Option (Val N)).isSome → G lenient .expr [t]
  | sub {a d b} : G lenient .expr a → d.ty = .dot → G lenient .dotRhs b → G lenient .expr (a ++ d :: b)
  | bin {a o b} : G lenient .expr a → isBinOp o.ty → G lenient .expr b → G lenient .expr (a ++ o :: b)
  | not {t a} : t.ty = .not → G lenient .expr a → G lenient .expr (t :: a)
  | paren {l a r} : l.ty = .lparen → G lenient .expr a → r.ty = .rparen → G lenient .expr (l :: a ++ [r])
  | index {a b} : G lenient .expr a → G lenient .bracket b → G lenient .expr (a ++ b)
  | index0 {b} : G lenient .bracket b → G lenient .expr b
  | list {b} : G lenient .msList b → G lenient .expr b
  | hash {b} : G lenient .msHash b → G lenient .expr b
  | fn {b} : G lenient .call b → G lenient .expr b
  | lenientList {a b} : lenient = true → G lenient .openExpr a → G lenient .msList b → G lenient .expr (a ++ b)
  -- an expression whose last construct is a projection with nothing after it yet: `e[*]`, `e[]`,
  -- `e[a:b]`, `e[?c]`, the same without `e`, `e.*`, `*`  (only the lenient production consumes it)
  | openIdx {a b} : G lenient .expr a → G lenient .bracket b → ProjBr b → G lenient .openExpr (a ++ b)
  | openIdx0 {b} : G lenient .bracket b → ProjBr b → G lenient .openExpr b
  | openDotStar {a d s} : G lenient .expr a → d.ty = .dot → s.ty = .star → G lenient .openExpr (a ++ [d, s])
  | openStar {s} : s.ty = .star → G lenient .openExpr [s]
  -- the right-hand side of a dot
  | dotIdent {t} : isIdent t → G lenient .dotRhs [t]
  | dotStar {t} : t.ty = .star → G lenient .dotRhs [t]
  | dotList {b} : G lenient .msList b → G lenient .dotRhs b
  | dotHash {b} : G lenient .msHash b → G lenient .dotRhs b
  | dotFn {b} : G lenient .call b → G lenient .dotRhs b
  -- bracket-specifier
  | brNumber {l n r} : l.ty = .lbracket → n.ty = .number → r.ty = .rbracket → (lenient = true → NumOK [n]) →
      G lenient .bracket [l, n, r]
  | brStar {l s r} : l.ty = .lbracket → s.ty = .star → r.ty = .rbracket → G lenient .bracket [l, s, r]
  | brSlice {l s r} : l.ty = .lbracket → SliceG s → r.ty = .rbracket → (lenient = true → NumOK s) →
      G lenient .bracket (l :: s ++ [r])
  | brFlatten {t} : t.ty = .flatten → G lenient .bracket [t]
  | brFilter {l e r} : l.ty = .filter → G lenient .expr e → r.ty = .rbracket → G lenient .bracket (l :: e ++ [r])
  -- multi-select list / hash, function call
  | msList {l e r} : l.ty = .lbracket → G lenient .elems e → r.ty = .rbracket → G lenient .msList (l :: e ++ [r])
  | elemsOne {a} : G lenient .expr a → G lenient .elems a
  | elemsMore {a c b} : G lenient .expr a → c.ty = .comma → G lenient .elems b → G lenient .elems (a ++ c :: b)
  | msHash {l e r} : l.ty = .lbrace → G lenient .kvs e → r.ty = .rbrace → G lenient .msHash (l :: e ++ [r])
  | kvsOne {k c a} : isIdent k → c.ty = .colon → G lenient .expr a → G lenient .kvs (k :: c :: a)
  | kvsMore {k c a m b} : isIdent k → c.ty = .colon → G lenient .expr a → m.ty = .comma → G lenient .kvs b →
      G lenient .kvs (k :: c :: a ++ m :: b)
  | call0 {f l r} : f.ty = .uident → l.ty = .lparen → r.ty = .rparen → G lenient .call [f, l, r]
  | callArgs {f l a r} : f.ty = .uident → l.ty = .lparen → G lenient .args a → r.ty = .rparen → G lenient .call (f :: l :: a ++ [r])
  | argsOne {a} : G lenient .arg a → G lenient .args a
  | argsMore {a c b} : G lenient .arg a → c.ty = .comma → G lenient .args b → G lenient .args (a ++ c :: b)
  | argExpr {a} : G lenient .expr a → G lenient .arg a
  | argRef {t a} : t.ty = .expref → G lenient .expr a → G lenient .arg (t :: a)

/-- A sentence: an expression followed by the end-of-input token. -/
def Sentence (lenient : Bool) (toks : List Token) : Prop :=
  ∃ s e, toks = s ++ [e] ∧ e.ty = .eof ∧ G N lenient .expr s

end Jmes.Spec
