/-
  Spec.Grammar — the JMESPath grammar (the ABNF of the specification) as an
  inductive predicate over token lists.  It is the ambiguous, precedence-free
  grammar exactly as published: which of its parse trees an expression denotes
  is the business of Spec/Printer.lean (C03); here only membership matters (C04).

      expression        = sub-expression / index-expression / comparator-expression
                        / or-expression / identifier / and-expression / not-expression
                        / paren-expression / "*" / multi-select-list / multi-select-hash
                        / literal / function-expression / pipe-expression / raw-string
                        / current-node
      sub-expression    = expression "." ( identifier / multi-select-list /
                                           multi-select-hash / function-expression / "*" )
      index-expression  = expression bracket-specifier / bracket-specifier
      bracket-specifier = "[" (number / "*" / slice-expression) "]" / "[]" / "[?" expression "]"
      slice-expression  = [number] ":" [number] [ ":" [number] ]
      multi-select-list = "[" expression *( "," expression ) "]"
      multi-select-hash = "{" keyval-expr *( "," keyval-expr ) "}"
      keyval-expr       = identifier ":" expression
      function-expression = unquoted-string "(" [ function-arg *( "," function-arg ) ] ")"
      function-arg      = expression / "&" expression

  Tokens are those of the lexer (`[]` and `[?` are single tokens).  A literal
  token must hold valid JSON (`Json.decode` succeeds); every other side
  condition is on token types only.

  `lenient = true` adds ONE production that is not in the ABNF:
      expression "[" expression *( "," expression ) "]"
  (a multi-select list directly after an expression, e.g. `a[*][b, c]`).  The
  parser in /repo accepts it after projections (finding D24); the soundness
  theorem `Props.C04_accepted_is_grammatical` is stated for `G true`, and
  `G false` is the published grammar.
-/
import Jmes.Ast
import Jmes.Json
namespace Jmes.Spec
open Jmes

inductive Cat where
  | expr | dotRhs | bracket | msList | msHash | call | elems | kvs | args | arg
  deriving DecidableEq

def isIdent (t : Token) : Prop := t.ty = .uident ∨ t.ty = .qident

def isBinOp (ty : TokType) : Prop :=
  ty = .pipe ∨ ty = .or ∨ ty = .and ∨ (Cmp.ofTok ty).isSome

def OptNum (l : List Token) : Prop := l = [] ∨ ∃ n, l = [n] ∧ n.ty = .number

/-- slice-expression = [number] ":" [number] [ ":" [number] ] -/
def SliceG (s : List Token) : Prop :=
  ∃ a c1 b, OptNum a ∧ c1.ty = .colon ∧ OptNum b ∧
    (s = a ++ c1 :: b ∨ ∃ c2 c, c2.ty = .colon ∧ OptNum c ∧ s = a ++ c1 :: (b ++ c2 :: c))

variable (N : Type) [NumOps N]

inductive G (lenient : Bool) : Cat → List Token → Prop
  -- expression
  | ident {t} : isIdent t → G lenient .expr [t]
  | star {t} : t.ty = .star → G lenient .expr [t]
  | current {t} : t.ty = .current → G lenient .expr [t]
  | raw {t} : t.ty = .stringLiteral → G lenient .expr [t]
  | literal {t} : t.ty = .jsonLiteral → (Json.decode t.value : Option (Val N)).isSome → G lenient .expr [t]
  | sub {a d b} : G lenient .expr a → d.ty = .dot → G lenient .dotRhs b → G lenient .expr (a ++ d :: b)
  | bin {a o b} : G lenient .expr a → isBinOp o.ty → G lenient .expr b → G lenient .expr (a ++ o :: b)
  | not {t a} : t.ty = .not → G lenient .expr a → G lenient .expr (t :: a)
  | paren {l a r} : l.ty = .lparen → G lenient .expr a → r.ty = .rparen → G lenient .expr (l :: a ++ [r])
  | index {a b} : G lenient .expr a → G lenient .bracket b → G lenient .expr (a ++ b)
  | index0 {b} : G lenient .bracket b → G lenient .expr b
  | list {b} : G lenient .msList b → G lenient .expr b
  | hash {b} : G lenient .msHash b → G lenient .expr b
  | fn {b} : G lenient .call b → G lenient .expr b
  | lenientList {a b} : lenient = true → G lenient .expr a → G lenient .msList b → G lenient .expr (a ++ b)
  -- the right-hand side of a dot
  | dotIdent {t} : isIdent t → G lenient .dotRhs [t]
  | dotStar {t} : t.ty = .star → G lenient .dotRhs [t]
  | dotList {b} : G lenient .msList b → G lenient .dotRhs b
  | dotHash {b} : G lenient .msHash b → G lenient .dotRhs b
  | dotFn {b} : G lenient .call b → G lenient .dotRhs b
  -- bracket-specifier
  | brNumber {l n r} : l.ty = .lbracket → n.ty = .number → r.ty = .rbracket → G lenient .bracket [l, n, r]
  | brStar {l s r} : l.ty = .lbracket → s.ty = .star → r.ty = .rbracket → G lenient .bracket [l, s, r]
  | brSlice {l s r} : l.ty = .lbracket → SliceG s → r.ty = .rbracket → G lenient .bracket (l :: s ++ [r])
  | brFlatten {t} : t.ty = .flatten → G lenient .bracket [t]
  | brFilter {l e r} : l.ty = .filter → G lenient .expr e → r.ty = .rbracket → G lenient .bracket (l :: e ++ [r])
  -- multi-select list / hash, function call
  | msList {l e r} : l.ty = .lbracket → G lenient .elems e → r.ty = .rbracket → G lenient .msList (l :: e ++ [r])
  | elemsOne {a} : G lenient .expr a → G lenient .elems a
  | elemsMore {a c b} : G lenient .expr a → c.ty = .comma → G lenient .elems b → G lenient .elems (a ++ c :: b)
  | msHash {l e r} : l.ty = .lbrace → G lenient .kvs e → r.ty = .rbrace → G lenient .msHash (l :: e ++ [r])
  | kvsOne {k c a} : isIdent k → c.ty = .colon → G lenient .expr a → G lenient .kvs (k :: c :: a)
  | kvsMore {k c a m b} : isIdent k → c.ty = .colon → G lenient .expr a → m.ty = .comma → G lenient .kvs b →
      G lenient .kvs (k :: c :: a ++ m :: b)
  | call0 {f l r} : f.ty = .uident → l.ty = .lparen → r.ty = .rparen → G lenient .call [f, l, r]
  | callArgs {f l a r} : f.ty = .uident → l.ty = .lparen → G lenient .args a → r.ty = .rparen → G lenient .call (f :: l :: a ++ [r])
  | argsOne {a} : G lenient .arg a → G lenient .args a
  | argsMore {a c b} : G lenient .arg a → c.ty = .comma → G lenient .args b → G lenient .args (a ++ c :: b)
  | argExpr {a} : G lenient .expr a → G lenient .arg a
  | argRef {t a} : t.ty = .expref → G lenient .expr a → G lenient .arg (t :: a)

/-- A sentence: an expression followed by the end-of-input token. -/
def Sentence (lenient : Bool) (toks : List Token) : Prop :=
  ∃ s e, toks = s ++ [e] ∧ e.ty = .eof ∧ G N lenient .expr s

end Jmes.Spec
