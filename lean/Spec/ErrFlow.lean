/-
  Spec.ErrFlow — what may become of an error inside the package (DESIGN.md, C11).

  `Jmes/GeneratedErrFlow.lean` (regenerated from /repo's SSA by tools/errflow on every run) lists every
  call in the package whose callee returns an error, with the fate of that error.  `ErrFlowOK` is the
  rule the list has to satisfy: an error is handed on to the caller (`propagated`, or `replaced` by
  another error) at every site, with the exceptions spelled out in `allowed`.  It is the static
  counterpart, on the code, of the model's `Res` monad: in `Jmes/Interp.lean` every recursive
  evaluation is bound with `>>=`, which is what `C11_errors_propagate` is proved from.
-/
import Jmes.GeneratedErrFlow
namespace Jmes.Spec
open Jmes.GeneratedErrFlow

def isSuffix (suf s : String) : Bool := suf.toList.isSuffixOf s.toList
def isPrefix (pre s : String) : Bool := pre.toList.isPrefixOf s.toList

/-- The sites where an error may end otherwise than in the caller's hands. -/
def allowed (s : Site) : Bool :=
  -- sort.Interface's Less cannot return an error: the sorters (types with Len, Less, Swap) record it in a field (`hasError`) and
  -- sort_by returns an error when the field is set
  (s.status == .flagged && (isSuffix ").Less" s.fn || s.sorter)) ||
  -- to_number of a string that is not a number is null (the function specification)
  (s.fn == "jpfToNumber" && s.callee == "strconv.ParseFloat" && s.status == .swallowed) ||
  -- writes into in-memory buffers never fail
  (s.status == .ignored && (isPrefix "(*bytes.Buffer)." s.callee || isPrefix "(*strings.Builder)." s.callee)) ||
  -- MustCompile turns the error into a panic (C17)
  (s.fn == "MustCompile" && s.callee == "Compile") ||
  -- the parser tries one token kind, then another
  (s.status == .other && s.callee == "(*Parser).match")

def siteOK (s : Site) : Bool := s.status == .propagated || s.status == .replaced || allowed s

def ErrFlowOK (l : List Site) : Bool := l.all siteOK

end Jmes.Spec
