/-
  Spec.Slice — Python's extended slicing, as the language reference defines
  it: "the slice of s from i to j with step k is the sequence of items with
  index x = i + n*k such that 0 <= n < (j-i)/k", after the bounds have been
  adjusted (PySlice_AdjustIndices).  No loop, no machine integers.
-/
namespace Jmes.Spec

/-- Adjusted bound.  `n` = length, `isStart` selects the default. -/
def adjust (n step : Int) (v : Option Int) (isStart : Bool) : Int :=
  match v with
  | none =>
    if step < 0 then (if isStart then n - 1 else -1) else (if isStart then 0 else n)
  | some x =>
    if step < 0 then (if x < 0 then max (x + n) (-1) else min x (n - 1))
    else (if x < 0 then max (x + n) 0 else min x n)

/-- Number of selected indices: ⌈(stop − start) / step⌉, never negative. -/
def count (start stop step : Int) : Nat :=
  if step > 0 then (if start < stop then ((stop - start - 1) / step + 1).toNat else 0)
  else (if stop < start then ((start - stop - 1) / (-step) + 1).toNat else 0)

/-- The indices `[start:stop:step]` selects on a sequence of length `n`, in order. -/
def pySlice (n : Nat) (a b : Option Int) (step : Int) : List Int :=
  let start := adjust n step a true
  let stop := adjust n step b false
  (List.range (count start stop step)).map (fun (k : Nat) => start + (k : Int) * step)

end Jmes.Spec
