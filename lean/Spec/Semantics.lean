/-
  Spec.Semantics — the JMESPath specification's meaning of the core fragment
  (identifiers, sub-expressions, index expressions, literals, raw strings,
  the current node, pipes, multi-select lists and hashes), as a total
  function: the fragment never fails.  Parentheses do not appear: they only
  group.
-/
import Jmes.Value
namespace Jmes.Spec
variable {N : Type}

inductive Core (N : Type) where
  | field (k : Bytes)                         -- identifier, quoted or not
  | index (i : Int)                           -- [i]
  | sub (a b : Core N)                        -- a.b
  | idx (a : Core N) (i : Int)                -- a[i]
  | literal (v : Val N)                       -- `json` or 'raw'
  | current                                   -- @
  | pipe (a b : Core N)                       -- a | b
  | list (xs : List (Core N))                 -- [a, b, …]
  | hash (kvs : List (Bytes × Core N))        -- {k: a, …}

/-- "negative indices count from the end; out of range is null". -/
def elemAt (xs : List (Val N)) (i : Int) : Val N :=
  if 0 ≤ i then xs.getD i.toNat .null
  else if -(xs.length : Int) ≤ i then xs.getD (i + xs.length).toNat .null
  else .null

def fieldOf (k : Bytes) : Val N → Val N
  | .obj kvs => (Val.lookup k kvs).getD .null
  | _ => .null

def indexOf (i : Int) : Val N → Val N
  | .arr xs => elemAt xs i
  | _ => .null

mutual
def den : Core N → Val N → Val N
  | .field k, d => fieldOf k d
  | .index i, d => indexOf i d
  | .sub a b, d => den b (den a d)
  | .idx a i, d => indexOf i (den a d)
  | .literal v, _ => v
  | .current, d => d
  | .pipe a b, d => den b (den a d)
  | .list xs, d => match d with
    | .null => .null
    | _ => .arr (denList xs d)
  | .hash kvs, d => match d with
    | .null => .null
    | _ => .obj ((denKVs kvs d).foldl (fun m kv => Val.insert kv.1 kv.2 m) [])
/-- every member is evaluated against the same current node -/
def denList : List (Core N) → Val N → List (Val N)
  | [], _ => []
  | x :: xs, d => den x d :: denList xs d
def denKVs : List (Bytes × Core N) → Val N → List (Bytes × Val N)
  | [], _ => []
  | (k, x) :: xs, d => (k, den x d) :: denKVs xs d
end

end Jmes.Spec
