/-
  Spec.Threads — an abstract shared-memory machine for C06 / C12 / C13.

  Locations are either shared (`owner l = none`: the caller's document, the
  compiled expression with its interpreter and function table, package-level
  state) or private to one call (`owner l = some t`: what the call allocates
  itself and its per-call objects — Parser, Lexer, the sort adapters).  A call
  `t` is a deterministic program: one step reads the heap, moves its program
  counter and emits a list of writes.  The two hypotheses are

    * `WritesPrivate`: every write of call `t` goes to a location owned by `t`
      — the fact regenerated from /repo's SSA on every run
      (`Jmes.GeneratedWrites.writeSites`, obligation `WritesOK`);
    * `ReadsOwn`: a step depends only on shared locations and on `t`'s own.

  `Proofs/Threads.lean` proves that under them every interleaving gives every
  call exactly the run it has alone, and leaves shared memory untouched.
  The interpretation "origin fresh/callLocal ⇒ owned by the call" and
  sequentially consistent steps (Go's DRF-SC guarantee: a program whose
  sequentially consistent executions are race free has only those) are the
  trusted part; the race detector run of the C12 check validates it.
-/
namespace Jmes.Threads

structure Sys (T L V PC : Type) where
  owner : L → Option T
  step : T → (L → V) → PC → PC × List (L × V)

variable {T L V PC : Type} [DecidableEq T] [DecidableEq L]

def write (h : L → V) : List (L × V) → (L → V)
  | [] => h
  | (l, v) :: ws => write (fun x => if x = l then v else h x) ws

structure Conf (T L V PC : Type) where
  heap : L → V
  pcs : T → PC

def Sys.exec (S : Sys T L V PC) (c : Conf T L V PC) (t : T) : Conf T L V PC :=
  let r := S.step t c.heap (c.pcs t)
  ⟨write c.heap r.2, fun u => if u = t then r.1 else c.pcs u⟩

/-- Run a schedule: the list says which call takes the next step. -/
def Sys.run (S : Sys T L V PC) (c : Conf T L V PC) (sched : List T) : Conf T L V PC :=
  sched.foldl S.exec c

def WritesPrivate (S : Sys T L V PC) : Prop :=
  ∀ t h pc, ∀ lv ∈ (S.step t h pc).2, S.owner lv.1 = some t

def ReadsOwn (S : Sys T L V PC) : Prop :=
  ∀ t h h' pc, (∀ l, (S.owner l = none ∨ S.owner l = some t) → h l = h' l) → S.step t h pc = S.step t h' pc

/-- What call `t` can observe of a configuration. -/
def Agree (S : Sys T L V PC) (t : T) (c c' : Conf T L V PC) : Prop :=
  c.pcs t = c'.pcs t ∧ ∀ l, (S.owner l = none ∨ S.owner l = some t) → c.heap l = c'.heap l

end Jmes.Threads
