/-
  Spec.Printer — the JMESPath precedence rules written as a printer.

  `PE` is the abstract syntax of the fragment without projections
  (identifiers, literals, @, index and sub-expressions, !, the binary
  operators |, ||, &&, comparators, function calls with expression
  references, multi-select lists and hashes).  `ppE full e` prints it as
  tokens, inserting parentheses exactly where the rules require them
  (`full = false`) or around every operand (`full = true`; the one place where
  the grammar allows no parentheses, the identifier heading the right-hand side
  of a dot, is left bare):

    * binary operators associate to the left: the left operand needs
      parentheses when its level is lower, the right one when it is not higher;
    * levels: pipe 1 < or 2 < and 3 < comparators 5 < dot 40 < not 45 < index 55 < call 60 < atoms.

  `node e` is the AST the expression denotes.  The theorem
  `Props.C03_printer_round_trip` says the parser inverts the printer.
-/
import Jmes.Ast
namespace Jmes.Spec
variable {N : Type}

inductive BinOp where
  | pipe | or | and | cmp (c : Cmp)
  deriving DecidableEq

def BinOp.pow : BinOp → Nat
  | .pipe => 1 | .or => 2 | .and => 3 | .cmp _ => 5

def cmpTok : Cmp → TokType
  | .eq => .eq | .ne => .ne | .lt => .lt | .lte => .lte | .gt => .gt | .gte => .gte

def BinOp.tok : BinOp → TokType
  | .pipe => .pipe | .or => .or | .and => .and | .cmp c => cmpTok c

inductive PE (N : Type) where
  | ident (name : Bytes)                                   -- unquoted identifier
  | quoted (name : Bytes)                                  -- "quoted identifier"
  | raw (s : Bytes)                                        -- 'raw string'
  | lit (text : Bytes) (v : Val N)                         -- `json` (text decodes to v)
  | current                                                -- @
  | idx0 (txt : Bytes) (i : Int)                           -- [i]
  | idx (l : PE N) (txt : Bytes) (i : Int)                 -- l[i]
  | sub (l r : PE N)                                       -- l.r
  | not (e : PE N)                                         -- !e
  | bin (op : BinOp) (l r : PE N)                          -- l op r
  | call (name : Bytes) (args : List (Bool × PE N))        -- name(arg, &arg, …)
  | list (x : PE N) (xs : List (PE N))                     -- [x, …]
  | hash (q : Bool) (k : Bytes) (v : PE N) (kvs : List (Bool × Bytes × PE N))   -- {k: v, …}

def PE.level : PE N → Nat
  | .idx _ _ _ => 55
  | .sub _ _ => 40
  | .not _ => 45
  | .bin op _ _ => op.pow
  | .call _ _ => 60
  | _ => 100

def tk (ty : TokType) (value : Bytes := []) : Token := ⟨ty, value, 0⟩

def keyTok (q : Bool) (k : Bytes) : Token := if q then tk .qident k else tk .uident k

def BinOp.node (op : BinOp) (l r : Node N) : Node N :=
  match op with
  | .pipe => .pipe l r
  | .or => .or l r
  | .and => .and l r
  | .cmp c => .cmp c l r

mutual
/-- The AST denoted by an expression. -/
def node : PE N → Node N
  | .ident n => .field n
  | .quoted n => .field n
  | .raw s => .literal (.str s)
  | .lit _ v => .literal v
  | .current => .current
  | .idx0 _ i => .indexExpr .identity (.index i)
  | .idx l _ i => .indexExpr (node l) (.index i)
  | .sub l r => .sub (node l) (node r)
  | .not e => .not (node e)
  | .bin op l r => op.node (node l) (node r)
  | .call n args => .call n (nodeArgs args)
  | .list x xs => .msList (node x :: nodeList xs)
  | .hash _ k v kvs => .msHash ((k, node v) :: nodeKVs kvs)
def nodeList : List (PE N) → List (Node N)
  | [] => []
  | x :: xs => node x :: nodeList xs
def nodeKVs : List (Bool × Bytes × PE N) → List (Bytes × Node N)
  | [] => []
  | (_, k, v) :: rest => (k, node v) :: nodeKVs rest
def nodeArgs : List (Bool × PE N) → List (Bool × Node N)
  | [] => []
  | (b, e) :: rest => (b, node e) :: nodeArgs rest
end

/-- The head of a dot right-hand side that is an identifier (possibly indexed / called). -/
def dotHead : PE N → Bool
  | .ident _ => true
  | .quoted _ => true
  | .call _ _ => true
  | .idx l _ _ => dotHead l
  | _ => false

def dotOK : PE N → Bool
  | .list _ _ => true
  | .hash _ _ _ _ => true
  | e => dotHead e

def parens (ts : List Token) : List Token := tk .lparen :: ts ++ [tk .rparen]

mutual
/-- The precedence-aware printer (`full`: parenthesise every operand). -/
def ppE (full : Bool) : PE N → List Token
  | .ident n => [tk .uident n]
  | .quoted n => [tk .qident n]
  | .raw s => [tk .stringLiteral s]
  | .lit t _ => [tk .jsonLiteral t]
  | .current => [tk .current]
  | .idx0 txt _ => [tk .lbracket, tk .number txt, tk .rbracket]
  | .idx l txt _ =>
    (if (full && !dotHead l) || decide (PE.level l < 55) then parens (ppE full l) else ppE full l) ++ [tk .lbracket, tk .number txt, tk .rbracket]
  | .sub l r =>
    (if full || decide (PE.level l < 40) then parens (ppE full l) else ppE full l) ++ tk .dot :: ppE full r
  | .not e =>
    tk .not :: (if full || decide (PE.level e ≤ 45) then parens (ppE full e) else ppE full e)
  | .bin op l r =>
    (if full || decide (PE.level l < op.pow) then parens (ppE full l) else ppE full l) ++ tk op.tok ::
      (if full || decide (PE.level r ≤ op.pow) then parens (ppE full r) else ppE full r)
  | .call n args => tk .uident n :: tk .lparen :: ppArgs full args ++ [tk .rparen]
  | .list x xs => tk .lbracket :: ppE full x ++ ppTail full xs ++ [tk .rbracket]
  | .hash q k v kvs => tk .lbrace :: keyTok q k :: tk .colon :: ppE full v ++ ppKVs full kvs ++ [tk .rbrace]
def ppTail (full : Bool) : List (PE N) → List Token
  | [] => []
  | x :: xs => tk .comma :: ppE full x ++ ppTail full xs
def ppKVs (full : Bool) : List (Bool × Bytes × PE N) → List Token
  | [] => []
  | (q, k, v) :: rest => tk .comma :: keyTok q k :: tk .colon :: ppE full v ++ ppKVs full rest
def ppArgs (full : Bool) : List (Bool × PE N) → List Token
  | [] => []
  | [(b, e)] => (if b then [tk .expref] else []) ++ ppE full e
  | (b, e) :: rest => (if b then [tk .expref] else []) ++ ppE full e ++ tk .comma :: ppArgs full rest
end

end Jmes.Spec
