/-
  Spec.Printer — the JMESPath precedence and projection-scope rules written as a printer.

  `PE` is the concrete syntax tree of an expression: identifiers, literals,
  `@`, index and sub-expressions, `!`, the binary operators `|`, `||`, `&&`
  and the comparators, function calls with expression references, multi-select
  lists and hashes, explicit parentheses (`paren`, anywhere an expression may
  stand), and the five projection forms — `*`, `[*]`, `[]`, slices and filters,
  each with or without a left operand — together with the right-hand side the
  projection applies to every element (`Rhs`: nothing, `.e`, or a bracketed `e`).

  `ppE e` prints `e` as tokens and inserts parentheses exactly where the rules
  require them:

    * every construct has a level (`PE.level`): pipe 1 < or 2 < and 3 <
      comparators 5 < flatten 9 < filter 21 < dot 40 < not 45 < index / `[*]` /
      slice 55 < call 60 < atoms; a construct can stand where level `k` is
      being read only if its own level is higher;
    * binary operators associate to the left: the right operand needs
      parentheses when its level is not higher than the operator's;
    * a projection's right-hand side extends as far as it can: it is read at
      level 20 (9 after `[]`, 21 after a filter), so everything that binds
      tighter — dots, brackets, filters — belongs to it, and it ends in front
      of a pipe, a flatten or any looser operator.  `PE.rp e` is the largest
      power a following token may have without being pulled into `e`; a left
      operand is parenthesised when that is too small for the operator that
      follows (`(a[*]).b` versus `a[*].b`).

  `node e` is the AST the expression denotes; parentheses leave no trace in it.
  `Props.C03_printer_round_trip`: the parser inverts the printer.
-/
import Jmes.Ast
import Jmes.Parser
namespace Jmes.Spec
variable {N : Type}

inductive BinOp where
  | pipe | or | and | cmp (c : Cmp)
  deriving DecidableEq

def BinOp.pow : BinOp → Nat
  | .pipe => 1 | .or => 2 | .and => 3 | .cmp _ => 5

def cmpTok : Cmp → TokType
  | .eq => .eq | .ne => .ne | .lt => .lt | .lte => .lte | .gt => .gt | .gte => .gte

def BinOp.tok : BinOp → TokType
  | .pipe => .pipe | .or => .or | .and => .and | .cmp c => cmpTok c

/-- The three parts of a slice: digits as written and the integer they denote. -/
structure SliceTxt where
  a : Option (Bytes × Int) := none
  b : Option (Bytes × Int) := none
  c : Option (Bytes × Int) := none

mutual
inductive PE (N : Type) where
  | ident (name : Bytes)                                   -- unquoted identifier
  | quoted (name : Bytes)                                  -- "quoted identifier"
  | raw (s : Bytes)                                        -- 'raw string'
  | lit (text : Bytes) (v : Val N)                         -- `json` (text decodes to v)
  | current                                                -- @
  | idx0 (txt : Bytes) (i : Int)                           -- [i]
  | idx (l : PE N) (txt : Bytes) (i : Int)                 -- l[i]
  | sub (l r : PE N)                                       -- l.r
  | not (e : PE N)                                         -- !e
  | bin (op : BinOp) (l r : PE N)                          -- l op r
  | call (name : Bytes) (args : List (Bool × PE N))        -- name(arg, &arg, …)
  | list (x : PE N) (xs : List (PE N))                     -- [x, …]
  | hash (q : Bool) (k : Bytes) (v : PE N) (kvs : List (Bool × Bytes × PE N))   -- {k: v, …}
  | paren (e : PE N)                                       -- (e)
  | star0 (r : Rhs N)                                      -- * rhs
  | dstar (l : PE N) (r : Rhs N)                           -- l.* rhs
  | bstar0 (r : Rhs N)                                     -- [*] rhs
  | bstar (l : PE N) (r : Rhs N)                           -- l[*] rhs
  | flat0 (r : Rhs N)                                      -- [] rhs
  | flat (l : PE N) (r : Rhs N)                            -- l[] rhs
  | slice0 (s : SliceTxt) (r : Rhs N)                      -- [a:b:c] rhs
  | slice (l : PE N) (s : SliceTxt) (r : Rhs N)            -- l[a:b:c] rhs
  | filt0 (c : PE N) (r : Rhs N)                           -- [?c] rhs
  | filt (l : PE N) (c : PE N) (r : Rhs N)                 -- l[?c] rhs
/-- What a projection applies to each element. -/
inductive Rhs (N : Type) where
  | none                                                   -- the element itself
  | dot (e : PE N)                                         -- .e
  | br (e : PE N)                                          -- e, which starts with `[` or `[?`
end

def PE.level : PE N → Nat
  | .idx _ _ _ => 55
  | .sub _ _ => 40
  | .not _ => 45
  | .bin op _ _ => op.pow
  | .call _ _ => 60
  | .dstar _ _ => 40
  | .bstar _ _ => 55
  | .flat _ _ => 9
  | .slice _ _ _ => 55
  | .filt _ _ _ => 21
  | _ => 100

def PE.isListOrHash : PE N → Bool
  | .list _ _ => true
  | .hash _ _ _ _ => true
  | _ => false

mutual
/-- The largest power a token following `e` may have without being read as part of `e`. -/
def PE.rp : PE N → Nat
  | .idx _ _ _ => 55
  | .sub _ r => if r.isListOrHash then 40 else min 40 r.rp
  | .not e => if e.level ≤ 45 then 45 else min 45 e.rp
  | .bin op _ r => if r.level ≤ op.pow then op.pow else min op.pow r.rp
  | .dstar _ r => min 40 (r.rp 20)
  | .bstar _ r => min 55 (r.rp 20)
  | .flat _ r => min 9 (r.rp 9)
  | .slice _ _ r => min 55 (r.rp 20)
  | .filt _ _ r => min 21 (r.rp 21)
  | .star0 r => min 59 (r.rp 20)
  | .bstar0 r => min 59 (r.rp 20)
  | .flat0 r => min 59 (r.rp 9)
  | .slice0 _ r => min 59 (r.rp 20)
  | .filt0 _ r => min 59 (r.rp 21)
  | _ => 59
def Rhs.rp : Rhs N → Nat → Nat
  | .none, _ => 9
  | .dot e, bp => if e.isListOrHash then 59 else min bp e.rp
  | .br e, bp => min bp e.rp
end

def tk (ty : TokType) (value : Bytes := []) : Token := ⟨ty, value, 0⟩

def keyTok (q : Bool) (k : Bytes) : Token := if q then tk .qident k else tk .uident k

def BinOp.node (op : BinOp) (l r : Node N) : Node N :=
  match op with
  | .pipe => .pipe l r
  | .or => .or l r
  | .and => .and l r
  | .cmp c => .cmp c l r

def SliceTxt.node (s : SliceTxt) : Node N := .slice (s.a.map (·.2)) (s.b.map (·.2)) (s.c.map (·.2))

mutual
/-- The AST denoted by an expression. -/
def node : PE N → Node N
  | .ident n => .field n
  | .quoted n => .field n
  | .raw s => .literal (.str s)
  | .lit _ v => .literal v
  | .current => .current
  | .idx0 _ i => .indexExpr .identity (.index i)
  | .idx l _ i => .indexExpr (node l) (.index i)
  | .sub l r => .sub (node l) (node r)
  | .not e => .not (node e)
  | .bin op l r => op.node (node l) (node r)
  | .call n args => .call n (nodeArgs args)
  | .list x xs => .msList (node x :: nodeList xs)
  | .hash _ k v kvs => .msHash ((k, node v) :: nodeKVs kvs)
  | .paren e => node e
  | .star0 r => .valueProj .identity (nodeRhs r)
  | .dstar l r => .valueProj (node l) (nodeRhs r)
  | .bstar0 r => .proj .identity (nodeRhs r)
  | .bstar l r => .proj (node l) (nodeRhs r)
  | .flat0 r => .proj (.flatten .identity) (nodeRhs r)
  | .flat l r => .proj (.flatten (node l)) (nodeRhs r)
  | .slice0 s r => .proj (.indexExpr .identity s.node) (nodeRhs r)
  | .slice l s r => .proj (.indexExpr (node l) s.node) (nodeRhs r)
  | .filt0 c r => .filterProj .identity (nodeRhs r) (node c)
  | .filt l c r => .filterProj (node l) (nodeRhs r) (node c)
def nodeRhs : Rhs N → Node N
  | .none => .identity
  | .dot e => node e
  | .br e => node e
def nodeList : List (PE N) → List (Node N)
  | [] => []
  | x :: xs => node x :: nodeList xs
def nodeKVs : List (Bool × Bytes × PE N) → List (Bytes × Node N)
  | [] => []
  | (_, k, v) :: rest => (k, node v) :: nodeKVs rest
def nodeArgs : List (Bool × PE N) → List (Bool × Node N)
  | [] => []
  | (b, e) :: rest => (b, node e) :: nodeArgs rest
end

def parens (ts : List Token) : List Token := tk .lparen :: ts ++ [tk .rparen]

def numTok (o : Option (Bytes × Int)) : List Token :=
  match o with
  | some (t, _) => [tk .number t]
  | none => []

/-- `a:b` or `a:b:c` (the second colon only when a step is written). -/
def SliceTxt.toks (s : SliceTxt) : List Token :=
  numTok s.a ++ tk .colon :: numTok s.b ++ (match s.c with
    | some (t, _) => [tk .colon, tk .number t]
    | none => [])

mutual
/-- The precedence-aware printer. -/
def ppE : PE N → List Token
  | .ident n => [tk .uident n]
  | .quoted n => [tk .qident n]
  | .raw s => [tk .stringLiteral s]
  | .lit t _ => [tk .jsonLiteral t]
  | .current => [tk .current]
  | .idx0 txt _ => [tk .lbracket, tk .number txt, tk .rbracket]
  | .idx l txt _ => (if l.rp < 55 then parens (ppE l) else ppE l) ++ [tk .lbracket, tk .number txt, tk .rbracket]
  | .sub l r => (if l.rp < 40 then parens (ppE l) else ppE l) ++ tk .dot :: ppE r
  | .not e => tk .not :: (if e.level ≤ 45 then parens (ppE e) else ppE e)
  | .bin op l r =>
    (if l.rp < op.pow then parens (ppE l) else ppE l) ++ tk op.tok ::
      (if r.level ≤ op.pow then parens (ppE r) else ppE r)
  | .call n args => tk .uident n :: tk .lparen :: ppArgs args ++ [tk .rparen]
  | .list x xs => tk .lbracket :: ppE x ++ ppTail xs ++ [tk .rbracket]
  | .hash q k v kvs => tk .lbrace :: keyTok q k :: tk .colon :: ppE v ++ ppKVs kvs ++ [tk .rbrace]
  | .paren e => parens (ppE e)
  | .star0 r => tk .star :: ppRhs r
  | .dstar l r => (if l.rp < 40 then parens (ppE l) else ppE l) ++ tk .dot :: tk .star :: ppRhs r
  | .bstar0 r => tk .lbracket :: tk .star :: tk .rbracket :: ppRhs r
  | .bstar l r => (if l.rp < 55 then parens (ppE l) else ppE l) ++ tk .lbracket :: tk .star :: tk .rbracket :: ppRhs r
  | .flat0 r => tk .flatten :: ppRhs r
  | .flat l r => (if l.rp < 9 then parens (ppE l) else ppE l) ++ tk .flatten :: ppRhs r
  | .slice0 s r => tk .lbracket :: s.toks ++ tk .rbracket :: ppRhs r
  | .slice l s r => (if l.rp < 55 then parens (ppE l) else ppE l) ++ tk .lbracket :: s.toks ++ tk .rbracket :: ppRhs r
  | .filt0 c r => tk .filter :: ppE c ++ tk .rbracket :: ppRhs r
  | .filt l c r => (if l.rp < 21 then parens (ppE l) else ppE l) ++ tk .filter :: ppE c ++ tk .rbracket :: ppRhs r
def ppRhs : Rhs N → List Token
  | .none => []
  | .dot e => tk .dot :: ppE e
  | .br e => ppE e
def ppTail : List (PE N) → List Token
  | [] => []
  | x :: xs => tk .comma :: ppE x ++ ppTail xs
def ppKVs : List (Bool × Bytes × PE N) → List Token
  | [] => []
  | (q, k, v) :: rest => tk .comma :: keyTok q k :: tk .colon :: ppE v ++ ppKVs rest
def ppArgs : List (Bool × PE N) → List Token
  | [] => []
  | [(b, e)] => (if b then [tk .expref] else []) ++ ppE e
  | (b, e) :: rest => (if b then [tk .expref] else []) ++ ppE e ++ tk .comma :: ppArgs rest
end

/-- The type of the first token `ppE e` writes. -/
def first : PE N → TokType
  | .ident _ => .uident
  | .quoted _ => .qident
  | .raw _ => .stringLiteral
  | .lit _ _ => .jsonLiteral
  | .current => .current
  | .idx0 _ _ => .lbracket
  | .idx l _ _ => if l.rp < 55 then .lparen else first l
  | .sub l _ => if l.rp < 40 then .lparen else first l
  | .not _ => .not
  | .bin op l _ => if l.rp < op.pow then .lparen else first l
  | .call _ _ => .uident
  | .list _ _ => .lbracket
  | .hash _ _ _ _ => .lbrace
  | .paren _ => .lparen
  | .star0 _ => .star
  | .dstar l _ => if l.rp < 40 then .lparen else first l
  | .bstar0 _ => .lbracket
  | .bstar l _ => if l.rp < 55 then .lparen else first l
  | .flat0 _ => .flatten
  | .flat l _ => if l.rp < 9 then .lparen else first l
  | .slice0 _ _ => .lbracket
  | .slice l _ _ => if l.rp < 55 then .lparen else first l
  | .filt0 _ _ => .filter
  | .filt l _ _ => if l.rp < 21 then .lparen else first l

/-- What may follow a dot: a multi-select list or hash (and nothing more), or an
    expression that starts with an identifier (or `*`, on a projection's
    right-hand side) and binds tighter than level `bp`. -/
def dotOK (bp : Nat) (allowStar : Bool) (e : PE N) : Bool :=
  e.isListOrHash ||
    ((first e == .uident || first e == .qident || (allowStar && first e == .star)) && decide (bp < e.level))

/-- A bracketed right-hand side starts with `[` or `[?` and binds tighter than `bp`. -/
def brOK (bp : Nat) (e : PE N) : Bool :=
  (first e == .lbracket || first e == .filter) && decide (bp < e.level)

mutual
/-- Remove every explicit pair of parentheses (the printer re-inserts the necessary ones). -/
def erase : PE N → PE N
  | .idx l t i => .idx (erase l) t i
  | .sub l r => .sub (erase l) (erase r)
  | .not e => .not (erase e)
  | .bin op l r => .bin op (erase l) (erase r)
  | .call n args => .call n (eraseArgs args)
  | .list x xs => .list (erase x) (eraseList xs)
  | .hash q k v kvs => .hash q k (erase v) (eraseKVs kvs)
  | .paren e => erase e
  | .star0 r => .star0 (eraseRhs r)
  | .dstar l r => .dstar (erase l) (eraseRhs r)
  | .bstar0 r => .bstar0 (eraseRhs r)
  | .bstar l r => .bstar (erase l) (eraseRhs r)
  | .flat0 r => .flat0 (eraseRhs r)
  | .flat l r => .flat (erase l) (eraseRhs r)
  | .slice0 s r => .slice0 s (eraseRhs r)
  | .slice l s r => .slice (erase l) s (eraseRhs r)
  | .filt0 c r => .filt0 (erase c) (eraseRhs r)
  | .filt l c r => .filt (erase l) (erase c) (eraseRhs r)
  | e => e
def eraseRhs : Rhs N → Rhs N
  | .none => .none
  | .dot e => .dot (erase e)
  | .br e => .br (erase e)
def eraseList : List (PE N) → List (PE N)
  | [] => []
  | x :: xs => erase x :: eraseList xs
def eraseKVs : List (Bool × Bytes × PE N) → List (Bool × Bytes × PE N)
  | [] => []
  | (q, k, v) :: rest => (q, k, erase v) :: eraseKVs rest
def eraseArgs : List (Bool × PE N) → List (Bool × PE N)
  | [] => []
  | (b, e) :: rest => (b, erase e) :: eraseArgs rest
end

end Jmes.Spec
