/-
  Spec.Tables — the specification's own constants, written by hand from the
  JMESPath grammar and function specification.  They do NOT come from /repo:
  the regenerated `Jmes.Generated` is compared against them by the proof
  obligations in Props/ (`TableOK`, `SigsOK`, `LexTablesOK`), and the driver can
  run the model with either set (`--spec`), which is how a failing input is
  searched for after a regenerated fact breaks an obligation.
-/
import Jmes.Token
import Jmes.Lexer
namespace Jmes.Spec
open Jmes TokType JpType

/-- Precedence levels, loosest to tightest (JMESPath: pipe, or, and,
    comparators, flatten, [projection stop], star, filter, dot, not, brace,
    bracket, call). -/
def table : ParserTable := {
  bp := [(pipe, 1), (or, 2), (and, 3), (eq, 5), (lt, 5), (lte, 5), (gt, 5), (gte, 5), (ne, 5),
         (flatten, 9), (star, 20), (filter, 21), (dot, 40), (not, 45), (lbrace, 50), (lbracket, 55), (lparen, 60)],
  projStop := 10,
  ledDotSub := 40, ledDotStar := 20, ledPipe := 1, ledOr := 2, ledAnd := 3,
  ledArg := 0, ledArgExpref := 0, ledFlatten := 9,
  ledCmp := [(eq, 5), (ne, 5), (gt, 5), (gte, 5), (lt, 5), (lte, 5)],
  ledBracketStar := 20, nudStar := 20, nudFlatten := 9, nudBracketStar := 20, nudNot := 45,
  nudParen := 0, msList := 0, msHash := 0, sliceProj := 20, filterCond := 0, filterRhs := 21, top := 0 }

/-- `[A-Za-z_]` as a bit set over code points 64..127 (bit k ↔ code point 64+k). -/
def identStartBits : Nat := 0x07FFFFFE87FFFFFE
/-- `[A-Za-z0-9_]` as two 64-bit words over code points 0..127. -/
def identTrailBits : List Nat := [0x03FF000000000000, 0x07FFFFFE87FFFFFE]

def lexTables : Lexer.Tables := {
  startBits := identStartBits,
  trailBits := identTrailBits,
  basic := [(46, dot), (42, star), (44, comma), (58, colon), (123, lbrace), (125, rbrace), (93, rbracket),
            (40, lparen), (41, rparen), (64, current)],
  white := [32, 9, 10, 13] }

private def one (ts : List JpType) : ArgSpec := { types := ts, variadic := false }
private def many (ts : List JpType) : ArgSpec := { types := ts, variadic := true }

/-- The 26 signatures of the JMESPath function specification. -/
def functionTable : List FnEntry := [
  ⟨"abs", [one [number]], .abs, false⟩,
  ⟨"avg", [one [arrayNumber]], .avg, false⟩,
  ⟨"ceil", [one [number]], .ceil, false⟩,
  ⟨"contains", [one [array, string], one [any]], .contains, false⟩,
  ⟨"ends_with", [one [string], one [string]], .endsWith, false⟩,
  ⟨"floor", [one [number]], .floor, false⟩,
  ⟨"join", [one [string], one [arrayString]], .join, false⟩,
  ⟨"keys", [one [object]], .keys, false⟩,
  ⟨"length", [one [string, array, object]], .length, false⟩,
  ⟨"map", [one [expref], one [array]], .map, true⟩,
  ⟨"max", [one [arrayNumber, arrayString]], .max, false⟩,
  ⟨"max_by", [one [array], one [expref]], .maxBy, true⟩,
  ⟨"merge", [many [object]], .merge, false⟩,
  ⟨"min", [one [arrayNumber, arrayString]], .min, false⟩,
  ⟨"min_by", [one [array], one [expref]], .minBy, true⟩,
  ⟨"not_null", [many [any]], .notNull, false⟩,
  ⟨"reverse", [one [array, string]], .reverse, false⟩,
  ⟨"sort", [one [arrayNumber, arrayString]], .sort, false⟩,
  ⟨"sort_by", [one [array], one [expref]], .sortBy, true⟩,
  ⟨"starts_with", [one [string], one [string]], .startsWith, false⟩,
  ⟨"sum", [one [arrayNumber]], .sum, false⟩,
  ⟨"to_array", [one [any]], .toArray, false⟩,
  ⟨"to_number", [one [any]], .toNumber, false⟩,
  ⟨"to_string", [one [any]], .toString, false⟩,
  ⟨"type", [one [any]], .type, false⟩,
  ⟨"values", [one [object]], .values, false⟩ ]

end Jmes.Spec
