/-
  Jmes.Token — token and AST vocabulary shared by the model and by the
  regenerated facts (Jmes/Generated.lean).
-/
import Jmes.Value
namespace Jmes

inductive TokType where
  | unknown | star | dot | filter | flatten | lparen | rparen | lbracket | rbracket
  | lbrace | rbrace | or | pipe | number | uident | qident | comma | colon
  | lt | lte | gt | gte | eq | ne | jsonLiteral | stringLiteral | current | expref
  | and | not | eof
  deriving DecidableEq, Repr, Inhabited

structure Token where
  ty : TokType
  value : Bytes
  pos : Nat
  deriving DecidableEq, Repr, Inhabited

/-- Declared parameter types of built-in functions (`jpType`). -/
inductive JpType where
  | number | string | array | object | arrayNumber | arrayString | expref | any
  deriving DecidableEq, Repr, Inhabited

/-- The 26 handlers of functions.go, by identity. -/
inductive Handler where
  | length | startsWith | abs | avg | ceil | contains | endsWith | floor | map | max
  | merge | maxBy | sum | min | minBy | type | keys | values | sort | sortBy | join
  | reverse | toArray | toString | toNumber | notNull
  deriving DecidableEq, Repr, Inhabited

structure ArgSpec where
  types : List JpType
  variadic : Bool
  deriving DecidableEq, Repr, Inhabited

structure FnEntry where
  key : String            -- key in functionTable (the name a call is looked up by)
  args : List ArgSpec
  handler : Handler
  hasExpRef : Bool
  deriving DecidableEq, Repr, Inhabited

/-- Everything the parser reads from `bindingPowers` and the constants it
    passes down, as found in the source. -/
structure ParserTable where
  bp : List (TokType × Nat)       -- bindingPowers (missing key ↦ 0)
  projStop : Nat                  -- `bindingPowers[current] < 10` in parseProjectionRHS
  ledDotSub : Nat                 -- led tDot, not star: parseDotRHS(_)
  ledDotStar : Nat                -- led tDot, star: parseProjectionRHS(_)
  ledPipe : Nat
  ledOr : Nat
  ledAnd : Nat
  ledArg : Nat                    -- parseFunctionArg: plain argument
  ledArgExpref : Nat              -- parseFunctionArg: after '&'
  ledFlatten : Nat
  ledCmp : List (TokType × Nat)   -- bindingPowers[tokenType] per comparator
  ledBracketStar : Nat            -- led tLbracket, `[*]`
  nudStar : Nat
  nudFlatten : Nat
  nudBracketStar : Nat
  nudNot : Nat
  nudParen : Nat
  msList : Nat                    -- parseMultiSelectList element
  msHash : Nat                    -- parseMultiSelectHash value
  sliceProj : Nat                 -- projectIfSlice
  filterCond : Nat                -- parseFilter condition
  filterRhs : Nat                 -- parseFilter right-hand side
  top : Nat                       -- Parse: parseExpression(0)
  deriving Repr, DecidableEq

def ParserTable.power (t : ParserTable) (ty : TokType) : Nat :=
  match t.bp.lookup ty with
  | some n => n
  | none => 0

end Jmes
