/-
  Jmes.Lexer — model of lexer.go.  The cursor `(currentPos, expression)` is
  the pair `(pos, rest)` with `rest = expression[pos:]`; `next()` decodes one
  rune of `rest` (Go's utf8 semantics), `back()`/`peek()` are expressed by not
  consuming.  Character classes come from the regenerated tables with Go's
  shift semantics.
-/
import Jmes.Utf8
import Jmes.Json
import Jmes.Token
namespace Jmes
namespace Lexer

/-- Go: `1 << k` on uint64 is 0 for `k ≥ 64`. -/
def shl1 (k : Nat) : Nat := if k < 64 then 2 ^ k else 0

/-- Go: `uint64(r) - 64` (wraps around below 64). -/
def subWrap64 (r : Nat) : Nat := (r + 2 ^ 64 - 64) % 2 ^ 64

/-- `identifierStartBits&(1<<(uint64(r)-64)) > 0`. -/
def identStart (startBits : Nat) (r : Nat) : Bool :=
  (startBits &&& shl1 (subWrap64 r)) > 0

/-- The loop test of consumeUnquotedIdentifier for a rune `r ≥ 0`:
    `r >= 128 || identifierTrailingBits[r/64]&(1<<(r%64)) == 0` ⇒ stop.
    Indexing the table out of range is a panic. -/
def identTrail (trailBits : List Nat) (r : Nat) : Res Bool :=
  if r ≥ 128 then .ok false
  else match trailBits[r / 64]? with
    | none => .panic "lexer.go: identifierTrailingBits index out of range"
    | some w => .ok ((w &&& shl1 (r % 64)) != 0)

structure Tables where
  startBits : Nat
  trailBits : List Nat
  basic : List (Nat × TokType)
  white : List Nat

/-- Scan the rest of an unquoted identifier; returns (consumed, rest). -/
def scanIdent (tb : Tables) : Nat → Bytes → Res (Bytes × Bytes)
  | 0, s => .ok ([], s)
  | _, [] => .ok ([], [])
  | fuel + 1, s =>
    let (r, w) := Utf8.decodeRune s
    match identTrail tb.trailBits r with
    | .ok true =>
      match scanIdent tb fuel (s.drop w) with
      | .ok (v, rest) => .ok (s.take w ++ v, rest)
      | e => e
    | .ok false => .ok ([], s)
    | .err e => .err e
    | .panic p => .panic p

/-- consumeNumber: the digits after the first rune. -/
def scanDigits : Bytes → Bytes × Bytes
  | c :: rest => if 0x30 ≤ c && c ≤ 0x39 then let (d, r) := scanDigits rest; (c :: d, r) else ([], c :: rest)
  | [] => ([], [])

/-- consumeUntil(end): from `s` (just after the opening delimiter) return the
    text before the closing delimiter and the input after it; `none` when the
    end of input is reached first.  A backslash skips the following rune. -/
def consumeUntil (endc : Nat) : Nat → Bytes → Option (Bytes × Bytes)
  | 0, _ => none
  | _, [] => none
  | fuel + 1, s =>
    let (r, w) := Utf8.decodeRune s
    if r = endc then some ([], s.drop w)
    else if r = 0x5C then
      match s.drop w with
      | [] => none                       -- peek() == eof: nothing skipped, then eof
      | s' =>
        let (_, w') := Utf8.decodeRune s'
        (consumeUntil endc fuel (s'.drop w')).map (fun (v, rest) => (s.take w ++ s'.take w' ++ v, rest))
    else
      (consumeUntil endc fuel (s.drop w)).map (fun (v, rest) => (s.take w ++ v, rest))

/-- strings.Replace(value, "\\`", "`", -1). -/
def unescapeBacktick : Bytes → Bytes
  | [] => []
  | [c] => [c]
  | c :: d :: rest =>
    if c = 0x5C ∧ d = 0x60 then 0x60 :: unescapeBacktick rest
    else c :: unescapeBacktick (d :: rest)

/-- consumeRawStringLiteral after the opening quote: the loop
    `for current != '\'' && peek() != eof` with the `\'` escape. -/
def rawBody : Nat → Bytes → Option (Bytes × Bytes)
  | 0, _ => none
  | _, [] => none
  | fuel + 1, s =>
    let (r, w) := Utf8.decodeRune s
    if r = 0x27 then some ([], s.drop w)
    else
      match s.drop w with
      | [] => none                       -- current is the last rune and not a quote
      | s' =>
        if r = 0x5C && (Utf8.decodeRune s').1 = 0x27 then
          (rawBody fuel (s'.drop 1)).map (fun (v, rest) => (0x27 :: v, rest))
        else
          (rawBody fuel s').map (fun (v, rest) => (s.take w ++ v, rest))

def lookupNat {α} (k : Nat) : List (Nat × α) → Option α
  | [] => none
  | (k', v) :: rest => if k' = k then some v else lookupNat k rest

/-- Outcome of one iteration of the main loop of `tokenize`. -/
inductive Step where
  | tok (t : Token) (rest : Bytes)     -- a token was appended; continue with `rest`
  | skip (rest : Bytes)                -- white space
  | fail (e : Err)                     -- return tokens, err
  | crash (site : String)              -- a run-time panic

/-- matchOrElse: a two-character token if the next rune is `second`, else the one-character one. -/
def two (r : Nat) (rest : Bytes) (start : Nat) (second : Nat) (matched single : TokType) : Step :=
  match rest with
  | c :: rest' =>
    if (Utf8.decodeRune rest).1 = second then .tok ⟨matched, [r.toUInt8, c], start⟩ rest'
    else .tok ⟨single, [r.toUInt8], start⟩ rest
  | [] => .tok ⟨single, [r.toUInt8], start⟩ rest

/-- One iteration, given the rune `r` just read (`cur` = its bytes), the input
    `rest` after it and the position `start` of the rune
    (currentPos after next() = total − len(rest)). -/
def stepAt (tb : Tables) (total : Nat) (r : Nat) (cur rest : Bytes) (start : Nat) : Step :=
  if identStart tb.startBits r then
    match scanIdent tb rest.length rest with
    | .ok (v, rest') => .tok ⟨.uident, cur ++ v, start⟩ rest'
    | .err e => .fail e
    | .panic p => .crash p
  else match lookupNat r tb.basic with
  | some ty => .tok ⟨ty, Utf8.encodeRune r, start⟩ rest
  | none =>
    if r = 0x2D || (0x30 ≤ r && r ≤ 0x39) then
      .tok ⟨.number, r.toUInt8 :: (scanDigits rest).1, start⟩ (scanDigits rest).2
    else if r = 0x5B then
      match rest with
      | 0x3F :: rest' => .tok ⟨.filter, [0x5B, 0x3F], start⟩ rest'
      | 0x5D :: rest' => .tok ⟨.flatten, [0x5B, 0x5D], start⟩ rest'
      | _ => .tok ⟨.lbracket, [0x5B], start⟩ rest
    else if r = 0x22 then
      match consumeUntil 0x22 rest.length rest with
      | none => .fail (.syntax total)
      | some (v, rest') =>
        match Json.unquoteString v with
        | none => .fail (.other "json: quoted identifier")
        | some decoded => .tok ⟨.qident, decoded, total - rest.length - 1⟩ rest'
    else if r = 0x27 then
      match rawBody rest.length rest with
      | none => .fail (.syntax total)
      | some (v, rest') => .tok ⟨.stringLiteral, v, total - rest.length⟩ rest'
    else if r = 0x60 then
      match consumeUntil 0x60 rest.length rest with
      | none => .fail (.syntax total)
      | some (v, rest') => .tok ⟨.jsonLiteral, unescapeBacktick v, total - rest.length⟩ rest'
    else if r = 0x7C then two r rest start 0x7C .or .pipe
    else if r = 0x3C then two r rest start 0x3D .lte .lt
    else if r = 0x3E then two r rest start 0x3D .gte .gt
    else if r = 0x21 then two r rest start 0x3D .ne .not
    else if r = 0x3D then two r rest start 0x3D .eq .unknown
    else if r = 0x26 then two r rest start 0x26 .and .expref
    else if tb.white.contains r then .skip rest
    else .fail (.syntax (((total - rest.length : Nat) : Int) - 1))

/-- One iteration of the `for` loop of `tokenize` on the non-empty remaining
    input `s` (`total` = len(expression); currentPos = total − len(remaining)). -/
def step (tb : Tables) (total : Nat) (s : Bytes) : Step :=
  stepAt tb total (Utf8.decodeRune s).1 (s.take (Utf8.decodeRune s).2) (s.drop (Utf8.decodeRune s).2) (total - s.length)

/-- The main loop of `tokenize`. -/
def loop (tb : Tables) (total : Nat) : Nat → Bytes → Res (List Token)
  | 0, _ => .panic "lexer model: out of fuel"
  | _, [] => .ok [⟨.eof, [], total⟩]
  | fuel + 1, c :: cs =>
    match step tb total (c :: cs) with
    | .tok t rest =>
      (match loop tb total fuel rest with
       | .ok ts => .ok (t :: ts)
       | e => e)
    | .skip rest => loop tb total fuel rest
    | .fail e => .err e
    | .crash p => .panic p

/-- `(*Lexer).tokenize` on a fresh lexer. -/
def tokenize (tb : Tables) (expr : Bytes) : Res (List Token) :=
  loop tb expr.length (expr.length + 1) expr

end Lexer
end Jmes
