/-
  Jmes.Lexer — model of lexer.go.  The cursor `(currentPos, expression)` is
  the pair `(pos, rest)` with `rest = expression[pos:]`; `next()` decodes one
  rune of `rest` (Go's utf8 semantics), `back()`/`peek()` are expressed by not
  consuming.  Character classes come from the regenerated tables with Go's
  shift semantics.
-/
import Jmes.Utf8
import Jmes.Json
import Jmes.Token
namespace Jmes
namespace Lexer

/-- Go: `1 << k` on uint64 is 0 for `k ≥ 64`. -/
def shl1 (k : Nat) : Nat := if k < 64 then 2 ^ k else 0

/-- Go: `uint64(r) - 64` (wraps around below 64). -/
def subWrap64 (r : Nat) : Nat := (r + 2 ^ 64 - 64) % 2 ^ 64

/-- `identifierStartBits&(1<<(uint64(r)-64)) > 0`. -/
def identStart (startBits : Nat) (r : Nat) : Bool :=
  (startBits &&& shl1 (subWrap64 r)) > 0

/-- The loop test of consumeUnquotedIdentifier for a rune `r ≥ 0`:
    `r >= 128 || identifierTrailingBits[r/64]&(1<<(r%64)) == 0` ⇒ stop.
    Indexing the table out of range is a panic. -/
def identTrail (trailBits : List Nat) (r : Nat) : Res Bool :=
  if r ≥ 128 then .ok false
  else match trailBits[r / 64]? with
    | none => .panic "lexer.go: identifierTrailingBits index out of range"
    | some w => .ok ((w &&& shl1 (r % 64)) != 0)

structure Tables where
  startBits : Nat
  trailBits : List Nat
  basic : List (Nat × TokType)
  white : List Nat

/-- Scan the rest of an unquoted identifier; returns (consumed, rest). -/
def scanIdent (tb : Tables) : Nat → Bytes → Res (Bytes × Bytes)
  | 0, s => .ok ([], s)
  | _, [] => .ok ([], [])
  | fuel + 1, s =>
    let (r, w) := Utf8.decodeRune s
    match identTrail tb.trailBits r with
    | .ok true =>
      match scanIdent tb fuel (s.drop w) with
      | .ok (v, rest) => .ok (s.take w ++ v, rest)
      | e => e
    | .ok false => .ok ([], s)
    | .err e => .err e
    | .panic p => .panic p

/-- consumeNumber: the digits after the first rune. -/
def scanDigits : Bytes → Bytes × Bytes
  | c :: rest => if 0x30 ≤ c && c ≤ 0x39 then let (d, r) := scanDigits rest; (c :: d, r) else ([], c :: rest)
  | [] => ([], [])

/-- consumeUntil(end): from `s` (just after the opening delimiter) return the
    text before the closing delimiter and the input after it; `none` when the
    end of input is reached first.  A backslash skips the following rune. -/
def consumeUntil (endc : Nat) : Nat → Bytes → Option (Bytes × Bytes)
  | 0, _ => none
  | _, [] => none
  | fuel + 1, s =>
    let (r, w) := Utf8.decodeRune s
    if r = endc then some ([], s.drop w)
    else if r = 0x5C then
      match s.drop w with
      | [] => none                       -- peek() == eof: nothing skipped, then eof
      | s' =>
        let (_, w') := Utf8.decodeRune s'
        (consumeUntil endc fuel (s'.drop w')).map (fun (v, rest) => (s.take w ++ s'.take w' ++ v, rest))
    else
      (consumeUntil endc fuel (s.drop w)).map (fun (v, rest) => (s.take w ++ v, rest))

/-- strings.Replace(value, "\\`", "`", -1). -/
def unescapeBacktick : Bytes → Bytes
  | 0x5C :: 0x60 :: rest => 0x60 :: unescapeBacktick rest
  | c :: rest => c :: unescapeBacktick rest
  | [] => []

/-- consumeRawStringLiteral after the opening quote: the loop
    `for current != '\'' && peek() != eof` with the `\'` escape. -/
def rawBody : Nat → Bytes → Option (Bytes × Bytes)
  | 0, _ => none
  | _, [] => none
  | fuel + 1, s =>
    let (r, w) := Utf8.decodeRune s
    if r = 0x27 then some ([], s.drop w)
    else
      match s.drop w with
      | [] => none                       -- current is the last rune and not a quote
      | s' =>
        if r = 0x5C && (Utf8.decodeRune s').1 = 0x27 then
          (rawBody fuel (s'.drop 1)).map (fun (v, rest) => (0x27 :: v, rest))
        else
          (rawBody fuel s').map (fun (v, rest) => (s.take w ++ v, rest))

def lookupNat {α} (k : Nat) : List (Nat × α) → Option α
  | [] => none
  | (k', v) :: rest => if k' = k then some v else lookupNat k rest

/-- The main loop of `tokenize`.  `total` = len(expression), `pos` = currentPos. -/
def loop (tb : Tables) (total : Nat) : Nat → Nat → Bytes → Res (List Token)
  | 0, _, _ => .panic "lexer model: out of fuel"
  | _, _, [] => .ok [⟨.eof, [], total⟩]
  | fuel + 1, pos, s =>
    let (r, w) := Utf8.decodeRune s
    let rest := s.drop w
    let pos' := pos + w            -- currentPos after next()
    let start := pos               -- currentPos - lastWidth
    let cons (t : Token) (p : Nat) (s' : Bytes) : Res (List Token) :=
      match loop tb total fuel p s' with
      | .ok ts => .ok (t :: ts)
      | e => e
    let two (second : Nat) (matched single : TokType) : Res (List Token) :=
      match rest with
      | c :: rest' =>
        if (Utf8.decodeRune rest).1 = second then
          cons ⟨matched, [r.toUInt8, c], start⟩ (pos' + 1) rest'
        else cons ⟨single, [r.toUInt8], start⟩ pos' rest
      | [] => cons ⟨single, [r.toUInt8], start⟩ pos' rest
    if identStart tb.startBits r then
      match scanIdent tb rest.length rest with
      | .ok (v, rest') => cons ⟨.uident, s.take w ++ v, start⟩ (pos' + v.length) rest'
      | .err e => .err e
      | .panic p => .panic p
    else match lookupNat r tb.basic with
    | some ty => cons ⟨ty, Utf8.encodeRune r, start⟩ pos' rest
    | none =>
      if r = 0x2D || (0x30 ≤ r && r ≤ 0x39) then
        let (d, rest') := scanDigits rest
        cons ⟨.number, r.toUInt8 :: d, start⟩ (pos' + d.length) rest'
      else if r = 0x5B then
        match rest with
        | 0x3F :: rest' => cons ⟨.filter, b "[?", start⟩ (pos' + 1) rest'
        | 0x5D :: rest' => cons ⟨.flatten, b "[]", start⟩ (pos' + 1) rest'
        | _ => cons ⟨.lbracket, b "[", start⟩ pos' rest
      else if r = 0x22 then
        match consumeUntil 0x22 rest.length rest with
        | none => .err (.syntax total)
        | some (v, rest') =>
          match Json.unquoteString v with
          | none => .err (.other "json: quoted identifier")
          | some decoded => cons ⟨.qident, decoded, pos' - 1⟩ (pos' + v.length + 1) rest'
      else if r = 0x27 then
        match rawBody rest.length rest with
        | none => .err (.syntax total)
        | some (v, rest') => cons ⟨.stringLiteral, v, pos'⟩ (total - rest'.length) rest'
      else if r = 0x60 then
        match consumeUntil 0x60 rest.length rest with
        | none => .err (.syntax total)
        | some (v, rest') => cons ⟨.jsonLiteral, unescapeBacktick v, pos'⟩ (pos' + v.length + 1) rest'
      else if r = 0x7C then two 0x7C .or .pipe
      else if r = 0x3C then two 0x3D .lte .lt
      else if r = 0x3E then two 0x3D .gte .gt
      else if r = 0x21 then two 0x3D .ne .not
      else if r = 0x3D then two 0x3D .eq .unknown
      else if r = 0x26 then two 0x26 .and .expref
      else if tb.white.contains r then loop tb total fuel pos' rest
      else .err (.syntax ((pos' : Int) - 1))

/-- `(*Lexer).tokenize` on a fresh lexer. -/
def tokenize (tb : Tables) (expr : Bytes) : Res (List Token) :=
  loop tb expr.length (expr.length + 1) 0 expr

end Lexer
end Jmes
