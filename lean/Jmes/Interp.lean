/-
  Jmes.Interp — model of interpreter.go: `treeInterpreter.Execute` on decoded
  JSON (the `[]interface{}` / `map[string]interface{}` paths; the reflection
  paths for Go structs and typed slices are modelled in Jmes/Typed.lean).

  `eval` is a total function by structural recursion on the AST.  An
  expression reference is evaluated to the closure `fun v => eval body v`,
  where `body` is a sub-term of the calling node — possible precisely because
  references occur only as function arguments (DESIGN.md, D20).
-/
import Jmes.Ast
import Jmes.Slice
import Jmes.Functions
namespace Jmes
namespace Interp
variable {N : Type}

def dropNulls : List (Val N) → List (Val N)
  | [] => []
  | .null :: rest => dropNulls rest
  | v :: rest => v :: dropNulls rest

/-- `for _, element := range xs { current, err := f(element); …; if current != nil { append } }` -/
def projectLoop (f : Val N → Res (Val N)) : List (Val N) → Res (List (Val N))
  | [] => .ok []
  | x :: xs =>
    match f x with
    | .ok y =>
      (match projectLoop f xs with
       | .ok ys => .ok (match y with | .null => ys | _ => y :: ys)
       | e => e)
    | .err e => .err e
    | .panic p => .panic p

/-- The loop of ASTFilterProjection. -/
def filterLoop (cond rhs : Val N → Res (Val N)) : List (Val N) → Res (List (Val N))
  | [] => .ok []
  | x :: xs =>
    match cond x with
    | .ok c =>
      if !c.isFalse then
        match rhs x with
        | .ok y =>
          (match filterLoop cond rhs xs with
           | .ok ys => .ok (match y with | .null => ys | _ => y :: ys)
           | e => e)
        | .err e => .err e
        | .panic p => .panic p
      else filterLoop cond rhs xs
    | .err e => .err e
    | .panic p => .panic p

/-- The loop of ASTFlatten: splice one level. -/
def flattenOnce : List (Val N) → List (Val N)
  | [] => []
  | .arr ys :: rest => ys ++ flattenOnce rest
  | v :: rest => v :: flattenOnce rest

/-- ASTIndex on an array of length n.  `index += len(slice)` cannot overflow:
    it is only executed for a negative index, and 0 ≤ len ≤ MaxInt64. -/
def indexArr (xs : List (Val N)) (i : Int) : Val N :=
  let idx := if i < 0 then i + xs.length else i
  if idx < (xs.length : Int) ∧ idx ≥ 0 then xs.getD idx.toNat .null else .null

variable [NumOps N]

def compareVals (op : Cmp) (l r : Val N) : Val N :=
  match op with
  | .eq => .bool (Val.deepEq l r)
  | .ne => .bool (!Val.deepEq l r)
  | _ =>
    match l, r with
    | .num a, .num b =>
      (match op with
       | .gt => .bool (NumOps.lt b a)
       | .gte => .bool (NumOps.le b a)
       | .lt => .bool (NumOps.lt a b)
       | .lte => .bool (NumOps.le a b)
       | _ => .null)
    | _, _ => .null

mutual

/-- `treeInterpreter.Execute(node, value)`. -/
def eval (ft : List FnEntry) : Node N → Val N → Res (Val N)
  | .empty, _ => .err (.other "Unknown AST node")
  | .cmp op l r, d =>
    match eval ft l d with
    | .ok lv =>
      (match eval ft r d with
       | .ok rv => .ok (compareVals op lv rv)
       | e => e)
    | e => e
  | .current, d => .ok d
  | .identity, d => .ok d
  | .call name args, d =>
    match evalArgs ft args d with
    | .ok as => Fn.callFunction ft name as
    | .err e => .err e
    | .panic p => .panic p
  | .field name, d =>
    match d with
    | .obj kvs => .ok ((Val.lookup name kvs).getD .null)
    | _ => .ok .null
  | .filterProj l r c, d =>
    match eval ft l d with
    | .ok (.arr xs) =>
      (match filterLoop (eval ft c) (eval ft r) xs with
       | .ok ys => .ok (.arr ys)
       | .err e => .err e
       | .panic p => .panic p)
    | .ok _ => .ok .null
    | e => e
  | .flatten e, d =>
    match eval ft e d with
    | .ok (.arr xs) => .ok (.arr (flattenOnce xs))
    | .ok _ => .ok .null
    | e => e
  | .index i, d =>
    match d with
    | .arr xs => .ok (indexArr xs i)
    | _ => .ok .null
  | .indexExpr l r, d =>
    match eval ft l d with
    | .ok v => eval ft r v
    | e => e
  | .literal v, _ => .ok v
  | .msHash kvs, d =>
    match d with
    | .null => .ok .null
    | _ =>
      (match evalKVs ft kvs d with
       | .ok ps => .ok (.obj (ps.foldl (fun m kv => Val.insert kv.1 kv.2 m) []))
       | .err e => .err e
       | .panic p => .panic p)
  | .msList xs, d =>
    match d with
    | .null => .ok .null
    | _ =>
      (match evalList ft xs d with
       | .ok vs => .ok (.arr vs)
       | .err e => .err e
       | .panic p => .panic p)
  | .or l r, d =>
    match eval ft l d with
    | .ok m => if m.isFalse then eval ft r d else .ok m
    | e => e
  | .and l r, d =>
    match eval ft l d with
    | .ok m => if m.isFalse then .ok m else eval ft r d
    | e => e
  | .not e, d =>
    match eval ft e d with
    | .ok m => .ok (.bool m.isFalse)
    | e => e
  | .pipe l r, d =>
    match eval ft l d with
    | .ok v => eval ft r v
    | e => e
  | .proj l r, d =>
    match eval ft l d with
    | .ok (.arr xs) =>
      (match projectLoop (eval ft r) xs with
       | .ok ys => .ok (.arr ys)
       | .err e => .err e
       | .panic p => .panic p)
    | .ok _ => .ok .null
    | e => e
  | .sub l r, d =>
    match eval ft l d with
    | .ok v => eval ft r v
    | e => e
  | .slice a b c, d =>
    match d with
    | .arr xs =>
      (match Slice.slice xs a b c with
       | .ok ys => .ok (.arr ys)
       | .err e => .err e
       | .panic p => .panic p)
    | _ => .ok .null
  | .valueProj l r, d =>
    match eval ft l d with
    | .ok (.obj kvs) =>
      (match projectLoop (eval ft r) (kvs.map (·.2)) with
       | .ok ys => .ok (.arr ys)
       | .err e => .err e
       | .panic p => .panic p)
    | .ok _ => .ok .null
    | e => e

/-- ASTMultiSelectList children, left to right, first error wins. -/
def evalList (ft : List FnEntry) : List (Node N) → Val N → Res (List (Val N))
  | [], _ => .ok []
  | x :: xs, d =>
    match eval ft x d with
    | .ok v => (match evalList ft xs d with | .ok vs => .ok (v :: vs) | e => e)
    | .err e => .err e
    | .panic p => .panic p

/-- ASTMultiSelectHash children (KeyValPair nodes). -/
def evalKVs (ft : List FnEntry) : List (Bytes × Node N) → Val N → Res (List (Bytes × Val N))
  | [], _ => .ok []
  | (k, x) :: xs, d =>
    match eval ft x d with
    | .ok v => (match evalKVs ft xs d with | .ok vs => .ok ((k, v) :: vs) | e => e)
    | .err e => .err e
    | .panic p => .panic p

/-- Function arguments: an ASTExpRef child evaluates to a reference to its body. -/
def evalArgs (ft : List FnEntry) : List (Bool × Node N) → Val N → Res (List (Fn.Arg N))
  | [], _ => .ok []
  | (true, x) :: xs, d =>
    (match evalArgs ft xs d with
     | .ok as => .ok (.ref (fun v => eval ft x v) :: as)
     | e => e)
  | (false, x) :: xs, d =>
    match eval ft x d with
    | .ok v => (match evalArgs ft xs d with | .ok as => .ok (.val v :: as) | e => e)
    | .err e => .err e
    | .panic p => .panic p

end

end Interp
end Jmes
