/-
  Jmes.Slice — model of util.go: computeSliceParams, capSlice, slice.
  `int` is 64-bit; every arithmetic operation of the Go code wraps
  (`wrap64`), every `slice[i]` outside `[0, len)` is a panic, and the loops
  carry a fuel of `len + 1` iterations whose exhaustion models a hang.
-/
import Jmes.Basic
namespace Jmes
namespace Slice

def wrap64 (x : Int) : Int := (x + 9223372036854775808) % 18446744073709551616 - 9223372036854775808

def capSlice (length actual step : Int) : Int :=
  if actual < 0 then
    let actual := wrap64 (actual + length)
    if actual < 0 then (if step < 0 then -1 else 0) else actual
  else if actual ≥ length then (if step < 0 then wrap64 (length - 1) else length)
  else actual

/-- The step: 1 when absent; `none` for the "step cannot be 0" error. -/
def stepOf (c : Option Int) : Option Int :=
  match c with
  | none => some 1
  | some n => if n = 0 then none else some n

/-- `(start, stop, step)`, or `none` for the "step cannot be 0" error. -/
def computeSliceParams (length : Int) (a b c : Option Int) : Option (Int × Int × Int) :=
  match stepOf c with
  | none => none
  | some step =>
    let neg := decide (step < 0)
    let start := match a with
      | none => if neg then wrap64 (length - 1) else 0
      | some n => capSlice length n step
    let stop := match b with
      | none => if neg then -1 else length
      | some n => capSlice length n step
    some (start, stop, step)

def getIdx {α} (xs : List α) (i : Int) : Option α :=
  if i < 0 then none else xs[i.toNat]?

def idxPanic {α} : Res α := .panic "util.go: slice index out of range"
def hang {α} : Res α := .panic "util.go: slice loop does not terminate"

def loopUp {α} (xs : List α) (stop step : Int) : Nat → Int → Res (List α)
  | 0, i => if i < stop then hang else .ok []
  | fuel + 1, i =>
    if i < stop then
      match getIdx xs i with
      | none => idxPanic
      | some x =>
        if step ≥ wrap64 (stop - i) then .ok [x]
        else match loopUp xs stop step fuel (wrap64 (i + step)) with
          | .ok r => .ok (x :: r)
          | e => e
    else .ok []

def loopDown {α} (xs : List α) (stop step : Int) : Nat → Int → Res (List α)
  | 0, i => if i > stop then hang else .ok []
  | fuel + 1, i =>
    if i > stop then
      match getIdx xs i with
      | none => idxPanic
      | some x =>
        if step ≤ wrap64 (stop - i) then .ok [x]
        else match loopDown xs stop step fuel (wrap64 (i + step)) with
          | .ok r => .ok (x :: r)
          | e => e
    else .ok []

/-- `slice(slice, parts)`. -/
def slice {α} (xs : List α) (a b c : Option Int) : Res (List α) :=
  -- a Go slice never has more than MaxInt64 elements (runtime invariant); the
  -- model makes the impossible case explicit instead of computing with a wrapped length
  if (xs.length : Int) > 9223372036854775807 then .err (.other "unreachable: len(slice) exceeds MaxInt64") else
  match computeSliceParams xs.length a b c with
  | none => .err (.other "Invalid slice, step cannot be 0")
  | some (start, stop, step) =>
    if step > 0 then loopUp xs stop step (xs.length + 1) start
    else loopDown xs stop step (xs.length + 1) start

end Slice
end Jmes
