/-
  Jmes.Num — the number type of the model is a parameter.

  go-jmespath computes with float64.  Lean's `Float` is opaque to the kernel,
  so the model is parametric in a type `N` with the operations the library
  uses (`NumOps`), theorems assume the laws they need (`NumLaws`), the laws are
  proved for the instance `Int` (non-vacuity), and the executable driver uses
  an IEEE-754 instance on `UInt64` bit patterns (`Driver/F64.lean`) whose laws
  are *not* proved: floating point is modelled and differentially validated,
  not verified.
-/
import Jmes.Basic
namespace Jmes

class NumOps (N : Type) where
  lt : N → N → Bool            -- Go `<`
  le : N → N → Bool            -- Go `<=`
  eq : N → N → Bool            -- Go `==` (and reflect.DeepEqual on float64)
  add : N → N → N
  div : N → N → N              -- avg: numerator / float64(len)
  ofNat : Nat → N              -- float64(len(..)), float64(RuneCount)
  abs : N → N
  floor : N → N
  ceil : N → N
  isFinite : N → Bool          -- !IsInf && !IsNaN
  parse : Bytes → Option N     -- strconv.ParseFloat(s, 64); any error ↦ none
  format : N → Bytes           -- encoding/json's float text

/-- What the proofs need of numbers.  Stated for all values satisfying
    `isFinite` where that matters. -/
class NumLaws (N : Type) [NumOps N] : Prop where
  eq_iff : ∀ a b : N, NumOps.eq a b = true ↔ a = b
  lt_irrefl : ∀ a : N, NumOps.lt a a = false
  lt_trans : ∀ a b c : N, NumOps.lt a b = true → NumOps.lt b c = true → NumOps.lt a c = true
  lt_total : ∀ a b : N, NumOps.lt a b = true ∨ a = b ∨ NumOps.lt b a = true
  le_iff : ∀ a b : N, NumOps.le a b = true ↔ (NumOps.lt a b = true ∨ a = b)
  finite_ofNat : ∀ n, NumOps.isFinite (NumOps.ofNat n : N) = true
  finite_abs : ∀ a : N, NumOps.isFinite a = true → NumOps.isFinite (NumOps.abs a) = true
  finite_floor : ∀ a : N, NumOps.isFinite a = true → NumOps.isFinite (NumOps.floor a) = true
  finite_ceil : ∀ a : N, NumOps.isFinite a = true → NumOps.isFinite (NumOps.ceil a) = true
  /-- "numbers of moderate magnitude": sums and averages stay finite. -/
  finite_add : ∀ a b : N, NumOps.isFinite a = true → NumOps.isFinite b = true → NumOps.isFinite (NumOps.add a b) = true
  finite_div : ∀ a b : N, NumOps.isFinite a = true → NumOps.isFinite b = true → NumOps.isFinite (NumOps.div a b) = true

/-! The integer instance: all laws hold. -/

/-- decimal digits of a natural number, most significant first (fuel: n + 1 suffices) -/
def decAux : Nat → Nat → Bytes
  | 0, _ => []
  | fuel + 1, n => if n < 10 then [(48 + n).toUInt8] else decAux fuel (n / 10) ++ [(48 + n % 10).toUInt8]

def natToDec (n : Nat) : Bytes := decAux (n + 1) n

def intFormat (i : Int) : Bytes :=
  if i < 0 then 45 :: natToDec i.natAbs else natToDec i.natAbs

def digitsToNat? : Bytes → Option Nat
  | [] => none
  | ds => ds.foldl (fun (acc : Option Nat) (d : UInt8) => match acc with
      | none => none
      | some a => if 48 ≤ d ∧ d ≤ 57 then some (a * 10 + (d.toNat - 48)) else none) (some 0)

def intParse : Bytes → Option Int
  | 45 :: ds => (digitsToNat? ds).map (fun n => - (n : Int))
  | 43 :: ds => (digitsToNat? ds).map (fun n => (n : Int))
  | ds => (digitsToNat? ds).map (fun n => (n : Int))

instance : NumOps Int where
  lt a b := decide (a < b)
  le a b := decide (a ≤ b)
  eq a b := decide (a = b)
  add := (· + ·)
  div a b := a / b
  ofNat n := (n : Int)
  abs a := (a.natAbs : Int)
  floor a := a
  ceil a := a
  isFinite _ := true
  parse := intParse
  format := intFormat

instance : NumLaws Int where
  eq_iff a b := by simp [NumOps.eq]
  lt_irrefl a := by simp [NumOps.lt]
  lt_trans a b c := by simp [NumOps.lt]; omega
  lt_total a b := by simp [NumOps.lt]; omega
  le_iff a b := by simp [NumOps.le, NumOps.lt]; omega
  finite_ofNat _ := rfl
  finite_abs _ _ := rfl
  finite_floor _ _ := rfl
  finite_ceil _ _ := rfl
  finite_add _ _ _ _ := rfl
  finite_div _ _ _ _ := rfl

end Jmes
