/-
  Jmes.Basic — bytes, outcomes.

  Every Go string (expressions, identifiers, string values) is a `Bytes`:
  the properties quantify over arbitrary byte strings, and raw-string
  literals can carry invalid UTF-8 into values.
-/
namespace Jmes

abbrev Bytes := List UInt8

/-- ASCII string literal as bytes (for tables and messages inside the model). -/
def b (s : String) : Bytes := s.toUTF8.toList

/-- The error kinds Go code can return.  Only `syntax` carries data that the
    API exposes (`SyntaxError.Offset`); every other error is an opaque tag
    (texts are not compared with the implementation). -/
inductive Err where
  | syntax (off : Int)      -- jmespath.SyntaxError{Offset: off}
  | other (tag : String)    -- any other non-nil error
  deriving Repr, DecidableEq, Inhabited

/-- Outcome of a Go call: a value, a returned error, or a run-time panic
    (failed type assertion, index out of range, …).  `panic` is explicit so
    that "never panics" is a statement one can prove. -/
inductive Res (α : Type) where
  | ok (a : α)
  | err (e : Err)
  | panic (site : String)
  deriving Repr, Inhabited

namespace Res

@[inline] def bind {α β} (r : Res α) (f : α → Res β) : Res β :=
  match r with
  | .ok a => f a
  | .err e => .err e
  | .panic s => .panic s

instance : Monad Res where
  pure := .ok
  bind := Res.bind

def isOk {α} : Res α → Bool | .ok _ => true | _ => false
def isErr {α} : Res α → Bool | .err _ => true | _ => false
def isPanic {α} : Res α → Bool | .panic _ => true | _ => false

@[simp] theorem bind_ok {α β} (a : α) (f : α → Res β) : (Res.ok a >>= f) = f a := rfl
@[simp] theorem bind_err {α β} (e : Err) (f : α → Res β) : ((Res.err e : Res α) >>= f) = .err e := rfl
@[simp] theorem bind_panic {α β} (s : String) (f : α → Res β) : ((Res.panic s : Res α) >>= f) = .panic s := rfl
@[simp] theorem pure_eq {α} (a : α) : (pure a : Res α) = .ok a := rfl

/-- Left-to-right evaluation with the first non-ok outcome winning
    (`for … { v, err := f(x); if err != nil { return nil, err } … }`). -/
def mapM' {α β} (f : α → Res β) : List α → Res (List β)
  | [] => .ok []
  | x :: xs =>
    match f x with
    | .ok y => match mapM' f xs with
      | .ok ys => .ok (y :: ys)
      | .err e => .err e
      | .panic s => .panic s
    | .err e => .err e
    | .panic s => .panic s

end Res

end Jmes
