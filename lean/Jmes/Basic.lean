def hello := "world"
