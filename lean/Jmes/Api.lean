/-
  Jmes.Api — model of api.go and of the Parser object: the public operations
  as a state machine.  Go objects that persist between calls are explicit:
  a `Parser` holds `(expression, tokens, index)`, a compiled `JMESPath` holds
  its AST (its interpreter holds only the read-only function table), documents
  are shared values.  `Parser.Parse` writes the fields exactly where the Go
  code does; nothing else persists.
-/
import Jmes.Parser
import Jmes.Interp
namespace Jmes
namespace Api
variable {N : Type}

/-- The tables a build of the library fixes. -/
structure Config where
  lex : Lexer.Tables
  tbl : ParserTable
  fns : List FnEntry

/-- Fields of a Go `Parser`. -/
structure ParserObj where
  expression : Bytes := []
  tokens : List Token := []
  index : Nat := 0

/-- `(*Parser).Parse`: `p.expression = expression; p.index = 0;` tokenize with a
    NEW lexer; on a lexing error return (tokens stay those of the previous
    call); else `p.tokens = tokens` and parse.  The index after the call is
    wherever the cursor stopped. -/
def ParserObj.parse [NumOps N] (cfg : Config) (p : ParserObj) (expr : Bytes) : ParserObj × Res (Node N) :=
  let p1 : ParserObj := { p with expression := expr, index := 0 }
  match Lexer.tokenize cfg.lex expr with
  | .ok toks =>
    let p2 : ParserObj := { p1 with tokens := toks }
    match Parser.parseExpression cfg.tbl (Parser.fuelFor toks.length) cfg.tbl.top ⟨[], toks⟩ with
    | .ok (e, st) =>
      let p3 : ParserObj := { p2 with index := st.before.length }
      (match st.cur with
       | .ok ty => if ty ≠ .eof then (p3, st.syntaxError) else (p3, .ok e)
       | .err er => (p3, .err er)
       | .panic s => (p3, .panic s))
    | .err er => (p2, .err er)
    | .panic s => (p2, .panic s)
  | .err er => (p1, .err er)
  | .panic s => (p1, .panic s)

/-- `Compile`: a fresh Parser, Parse, wrap. -/
def compile [NumOps N] (cfg : Config) (expr : Bytes) : Res (Node N) :=
  (ParserObj.parse cfg {} expr).2

/-- `(*JMESPath).Search`. -/
def searchCompiled [NumOps N] (cfg : Config) (ast : Node N) (doc : Val N) : Res (Val N) :=
  Interp.eval cfg.fns ast doc

/-- The one-shot `Search(expression, data)`. -/
def search [NumOps N] (cfg : Config) (expr : Bytes) (doc : Val N) : Res (Val N) :=
  match (compile cfg expr : Res (Node N)) with
  | .ok ast => Interp.eval cfg.fns ast doc
  | .err e => .err e
  | .panic s => .panic s

/-- `MustCompile`: panics exactly when `Compile` fails. -/
def mustCompile [NumOps N] (cfg : Config) (expr : Bytes) : Res (Node N) :=
  match (compile cfg expr : Res (Node N)) with
  | .ok ast => .ok ast
  | .err _ => .panic "jmespath: Compile(<quoted expression>): <error>"
  | .panic s => .panic s

/-- `SyntaxError.HighlightLocation`. -/
def highlight (expr : Bytes) (off : Nat) : Bytes :=
  expr ++ [0x0A] ++ List.replicate off 0x20 ++ [0x5E]

/-! ### The API as a state machine (C13) -/

inductive Op (N : Type) where
  | doc (id : Nat) (v : Val N)               -- the caller creates a document
  | compile (h : Nat) (expr : Bytes)         -- h := Compile(expr)
  | searchC (h : Nat) (d : Nat)              -- handle h .Search(doc d)
  | search (expr : Bytes) (d : Nat)          -- Search(expr, doc d)
  | parse (k : Nat) (expr : Bytes)           -- parser k .Parse(expr)

inductive Out (N : Type) where
  | unit
  | missing                                  -- unknown handle / document
  | compiled (r : Res Unit)
  | value (r : Res (Val N))
  | ast (r : Res (Node N))

structure State (N : Type) where
  docs : List (Nat × Val N) := []
  handles : List (Nat × Node N) := []
  parsers : List (Nat × ParserObj) := []

def setKey {α} (k : Nat) (v : α) : List (Nat × α) → List (Nat × α)
  | [] => [(k, v)]
  | (k', v') :: rest => if k' = k then (k, v) :: rest else (k', v') :: setKey k v rest

def delKey {α} (k : Nat) : List (Nat × α) → List (Nat × α)
  | [] => []
  | (k', v') :: rest => if k' = k then rest else (k', v') :: delKey k rest

def step [NumOps N] (cfg : Config) (s : State N) : Op N → State N × Out N
  | .doc id v => ({ s with docs := setKey id v s.docs }, .unit)
  | .compile h expr =>
    match (compile cfg expr : Res (Node N)) with
    | .ok ast => ({ s with handles := setKey h ast s.handles }, .compiled (.ok ()))
    | .err e => ({ s with handles := delKey h s.handles }, .compiled (.err e))
    | .panic p => (s, .compiled (.panic p))
  | .searchC h d =>
    match s.handles.lookup h, s.docs.lookup d with
    | some ast, some doc => (s, .value (searchCompiled cfg ast doc))
    | _, _ => (s, .missing)
  | .search expr d =>
    match s.docs.lookup d with
    | some doc => (s, .value (search cfg expr doc))
    | none => (s, .missing)
  | .parse k expr =>
    let p := (s.parsers.lookup k).getD {}
    let (p', r) := p.parse cfg expr
    ({ s with parsers := setKey k p' s.parsers }, .ast r)

def run [NumOps N] (cfg : Config) : State N → List (Op N) → State N × List (Out N)
  | s, [] => (s, [])
  | s, op :: ops =>
    let (s', o) := step cfg s op
    let (s'', os) := run cfg s' ops
    (s'', o :: os)

end Api
end Jmes
