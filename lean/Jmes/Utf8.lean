/-
  Jmes.Utf8 — model of Go's unicode/utf8: DecodeRuneInString, []rune(s),
  string([]rune), RuneCountInString.  Invalid input decodes to
  (RuneError, width 1), exactly as in Go.
-/
import Jmes.Basic
namespace Jmes
namespace Utf8

def runeError : Nat := 0xFFFD

@[inline] def isCont (c : UInt8) : Bool := 0x80 ≤ c && c ≤ 0xBF

/-- `utf8.DecodeRuneInString`: `(rune, width)`.  Empty input gives `(RuneError, 0)`. -/
def decodeRune : Bytes → Nat × Nat
  | [] => (runeError, 0)
  | s0 :: rest =>
    if s0 < 0x80 then (s0.toNat, 1)
    else if s0 < 0xC2 then (runeError, 1)
    else if s0 < 0xE0 then
      match rest with
      | s1 :: _ => if isCont s1 then ((s0.toNat &&& 0x1F) <<< 6 ||| (s1.toNat &&& 0x3F), 2) else (runeError, 1)
      | _ => (runeError, 1)
    else if s0 < 0xF0 then
      match rest with
      | s1 :: s2 :: _ =>
        let lo : UInt8 := if s0 = 0xE0 then 0xA0 else 0x80
        let hi : UInt8 := if s0 = 0xED then 0x9F else 0xBF
        if lo ≤ s1 && s1 ≤ hi && isCont s2 then
          ((s0.toNat &&& 0x0F) <<< 12 ||| (s1.toNat &&& 0x3F) <<< 6 ||| (s2.toNat &&& 0x3F), 3)
        else (runeError, 1)
      | _ => (runeError, 1)
    else if s0 < 0xF5 then
      match rest with
      | s1 :: s2 :: s3 :: _ =>
        let lo : UInt8 := if s0 = 0xF0 then 0x90 else 0x80
        let hi : UInt8 := if s0 = 0xF4 then 0x8F else 0xBF
        if lo ≤ s1 && s1 ≤ hi && isCont s2 && isCont s3 then
          ((s0.toNat &&& 0x07) <<< 18 ||| (s1.toNat &&& 0x3F) <<< 12 ||| (s2.toNat &&& 0x3F) <<< 6 ||| (s3.toNat &&& 0x3F), 4)
        else (runeError, 1)
      | _ => (runeError, 1)
    else (runeError, 1)

/-- `utf8.EncodeRune` / `string(rune)`: surrogates and out-of-range become U+FFFD. -/
def encodeRune (r : Nat) : Bytes :=
  if r < 0x80 then [r.toUInt8]
  else if r < 0x800 then [(0xC0 ||| (r >>> 6)).toUInt8, (0x80 ||| (r &&& 0x3F)).toUInt8]
  else if (0xD800 ≤ r && r ≤ 0xDFFF) || r > 0x10FFFF then [0xEF, 0xBF, 0xBD]
  else if r < 0x10000 then
    [(0xE0 ||| (r >>> 12)).toUInt8, (0x80 ||| ((r >>> 6) &&& 0x3F)).toUInt8, (0x80 ||| (r &&& 0x3F)).toUInt8]
  else
    [(0xF0 ||| (r >>> 18)).toUInt8, (0x80 ||| ((r >>> 12) &&& 0x3F)).toUInt8,
     (0x80 ||| ((r >>> 6) &&& 0x3F)).toUInt8, (0x80 ||| (r &&& 0x3F)).toUInt8]

/-- `[]rune(s)`.  Fuel = length (each step consumes ≥ 1 byte). -/
def runesAux : Nat → Bytes → List Nat
  | 0, _ => []
  | _, [] => []
  | fuel + 1, s =>
    let (r, w) := decodeRune s
    r :: runesAux fuel (s.drop (if w = 0 then 1 else w))

def runes (s : Bytes) : List Nat := runesAux s.length s

/-- `string([]rune)`. -/
def encodeRunes (rs : List Nat) : Bytes := (rs.map encodeRune).flatten

/-- `utf8.RuneCountInString`. -/
def runeCount (s : Bytes) : Nat := (runes s).length

end Utf8
end Jmes
