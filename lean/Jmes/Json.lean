/-
  Jmes.Json — executable model of encoding/json as go-jmespath uses it:
  `json.Unmarshal(bytes, &interface{})`, `json.Unmarshal(bytes, &string)` for
  quoted identifiers, `json.Marshal` (to_string) and `json.MarshalIndent`
  (jpgo).  Numbers go through `NumOps.parse` / `NumOps.format`.
  Modelled, differentially validated against Go; the string codec round trip
  is proved in Proofs/.
-/
import Jmes.Value
import Jmes.Utf8
namespace Jmes
namespace Json
variable {N : Type}

@[inline] def isWs (c : UInt8) : Bool := c = 0x20 || c = 0x09 || c = 0x0A || c = 0x0D
@[inline] def isDigit (c : UInt8) : Bool := 0x30 ≤ c && c ≤ 0x39

def skipWs : Bytes → Bytes
  | c :: rest => if isWs c then skipWs rest else c :: rest
  | [] => []

def hexVal (c : UInt8) : Option Nat :=
  if 0x30 ≤ c && c ≤ 0x39 then some (c.toNat - 0x30)
  else if 0x61 ≤ c && c ≤ 0x66 then some (c.toNat - 0x61 + 10)
  else if 0x41 ≤ c && c ≤ 0x46 then some (c.toNat - 0x41 + 10)
  else none

/-- `getu4`: the code unit of a leading `\uXXXX`, if the input starts with one. -/
def getu4 : Bytes → Option Nat
  | 0x5C :: 0x75 :: a :: b :: c :: d :: _ =>
    match hexVal a, hexVal b, hexVal c, hexVal d with
    | some a, some b, some c, some d => some (a * 4096 + b * 256 + c * 16 + d)
    | _, _, _, _ => none
  | _ => none

/-- Body of a JSON string after the opening quote: returns the decoded bytes
    and the input after the closing quote (`unquote` + scanner validity).
    Fuel: the input length (every step consumes at least one byte). -/
def parseStringBody : Nat → Bytes → Option (Bytes × Bytes)
  | 0, _ => none
  | _, [] => none
  | fuel + 1, c :: rest =>
    if c = 0x22 then some ([], rest)
    else if c < 0x20 then none
    else if c = 0x5C then
      match rest with
      | [] => none
      | e :: rest' =>
        let simple (x : UInt8) := (parseStringBody fuel rest').map (fun (s, r) => (x :: s, r))
        if e = 0x22 then simple 0x22
        else if e = 0x5C then simple 0x5C
        else if e = 0x2F then simple 0x2F
        else if e = 0x62 then simple 0x08
        else if e = 0x66 then simple 0x0C
        else if e = 0x6E then simple 0x0A
        else if e = 0x72 then simple 0x0D
        else if e = 0x74 then simple 0x09
        else if e = 0x75 then
          match getu4 (c :: rest) with
          | none => none
          | some rr =>
            let after := rest'.drop 4
            if 0xD800 ≤ rr && rr < 0xE000 then
              -- surrogate: pair up with a following \uXXXX low surrogate
              match getu4 after with
              | some rr1 =>
                if rr < 0xDC00 && 0xDC00 ≤ rr1 && rr1 < 0xE000 then
                  let dec := ((rr - 0xD800) <<< 10 ||| (rr1 - 0xDC00)) + 0x10000
                  (parseStringBody fuel (after.drop 6)).map (fun (s, r) => (Utf8.encodeRune dec ++ s, r))
                else
                  (parseStringBody fuel after).map (fun (s, r) => (Utf8.encodeRune Utf8.runeError ++ s, r))
              | none =>
                (parseStringBody fuel after).map (fun (s, r) => (Utf8.encodeRune Utf8.runeError ++ s, r))
            else
              (parseStringBody fuel after).map (fun (s, r) => (Utf8.encodeRune rr ++ s, r))
        else none
    else if c < 0x80 then
      (parseStringBody fuel rest).map (fun (s, r) => (c :: s, r))
    else
      -- non-ASCII: re-encode the decoded rune (invalid bytes become U+FFFD)
      let (r, w) := Utf8.decodeRune (c :: rest)
      (parseStringBody fuel ((c :: rest).drop w)).map (fun (s, r') => (Utf8.encodeRune r ++ s, r'))

/-- `json.Unmarshal([]byte("\"" + value + "\""), &decoded)` as used for quoted identifiers. -/
def unquoteString (value : Bytes) : Option Bytes :=
  match parseStringBody (value.length + 1) (value ++ [0x22]) with
  | some (s, []) => some s
  | _ => none

def takeDigits : Bytes → Bytes × Bytes
  | c :: rest => if isDigit c then let (d, r) := takeDigits rest; (c :: d, r) else ([], c :: rest)
  | [] => ([], [])

/-- Longest prefix matching the JSON number grammar; `none` if there is none. -/
def scanNumber (s : Bytes) : Option (Bytes × Bytes) :=
  let (sign, s1) := match s with | 0x2D :: r => ([0x2D], r) | _ => (([] : Bytes), s)
  let intPart : Option (Bytes × Bytes) :=
    match s1 with
    | 0x30 :: r => some ([0x30], r)
    | c :: _ => if isDigit c then some (takeDigits s1) else none
    | [] => none
  match intPart with
  | none => none
  | some (ip, s2) =>
    let (frac, s3) : Bytes × Bytes :=
      match s2 with
      | 0x2E :: r =>
        let (d, r') := takeDigits r
        if d.isEmpty then ([0xFF], r) else (0x2E :: d, r')
      | _ => ([], s2)
    if frac = [0xFF] then none else
    let (ex, s4) : Bytes × Bytes :=
      match s3 with
      | e :: r =>
        if e = 0x65 || e = 0x45 then
          let (sg, r1) : Bytes × Bytes := match r with
            | 0x2B :: r1 => ([0x2B], r1)
            | 0x2D :: r1 => ([0x2D], r1)
            | _ => ([], r)
          let (d, r2) := takeDigits r1
          if d.isEmpty then ([0xFF], r) else (e :: sg ++ d, r2)
        else ([], s3)
      | [] => ([], s3)
    if ex = [0xFF] then none else
    some (sign ++ ip ++ frac ++ ex, s4)

def maxDepth : Nat := 10000

mutual
/-- One JSON value (leading white space allowed); returns the rest.
    `depth` = number of enclosing arrays/objects. -/
def parseValue [NumOps N] : Nat → Nat → Bytes → Option (Val N × Bytes)
  | 0, _, _ => none
  | fuel + 1, depth, s =>
    match skipWs s with
    | [] => none
    | c :: rest =>
      if c = 0x7B then
        if depth ≥ maxDepth then none else
        match skipWs rest with
        | 0x7D :: r => some (.obj [], r)
        | _ => (parseMembers fuel (depth + 1) rest []).map (fun (kvs, r) => (.obj kvs, r))
      else if c = 0x5B then
        if depth ≥ maxDepth then none else
        match skipWs rest with
        | 0x5D :: r => some (.arr [], r)
        | _ => (parseElems fuel (depth + 1) rest).map (fun (xs, r) => (.arr xs, r))
      else if c = 0x22 then
        (parseStringBody (rest.length + 1) rest).map (fun (str, r) => (.str str, r))
      else if c = 0x74 then
        match rest with | 0x72 :: 0x75 :: 0x65 :: r => some (.bool true, r) | _ => none
      else if c = 0x66 then
        match rest with | 0x61 :: 0x6C :: 0x73 :: 0x65 :: r => some (.bool false, r) | _ => none
      else if c = 0x6E then
        match rest with | 0x75 :: 0x6C :: 0x6C :: r => some (.null, r) | _ => none
      else
        match scanNumber (c :: rest) with
        | none => none
        | some (tok, r) =>
          match NumOps.parse tok with
          | some n => some (.num n, r)
          | none => none
/-- Array elements after `[` (non-empty array). -/
def parseElems [NumOps N] : Nat → Nat → Bytes → Option (List (Val N) × Bytes)
  | 0, _, _ => none
  | fuel + 1, depth, s =>
    match parseValue fuel depth s with
    | none => none
    | some (v, r) =>
      match skipWs r with
      | 0x2C :: r' => (parseElems fuel depth r').map (fun (vs, r'') => (v :: vs, r''))
      | 0x5D :: r' => some ([v], r')
      | _ => none
/-- Object members after `{` (non-empty object); later duplicates win. -/
def parseMembers [NumOps N] : Nat → Nat → Bytes → List (Bytes × Val N) → Option (List (Bytes × Val N) × Bytes)
  | 0, _, _, _ => none
  | fuel + 1, depth, s, acc =>
    match skipWs s with
    | 0x22 :: r =>
      match parseStringBody (r.length + 1) r with
      | none => none
      | some (k, r1) =>
        match skipWs r1 with
        | 0x3A :: r2 =>
          match parseValue fuel depth r2 with
          | none => none
          | some (v, r3) =>
            let acc' := Val.insert k v acc
            match skipWs r3 with
            | 0x2C :: r4 => parseMembers fuel depth r4 acc'
            | 0x7D :: r4 => some (acc', r4)
            | _ => none
        | _ => none
    | _ => none
end

/-- `json.Unmarshal(bytes, &v)` with `v interface{}`; any error ↦ `none`. -/
def decode [NumOps N] (s : Bytes) : Option (Val N) :=
  match parseValue (s.length + 1) 0 s with
  | some (v, rest) => if (skipWs rest).isEmpty then some v else none
  | none => none

/-! ### Encoding -/

def hexDigit (n : Nat) : UInt8 := if n < 10 then (0x30 + n).toUInt8 else (0x61 + n - 10).toUInt8

/-- The body of a JSON string as `json.Marshal` writes it (HTML escaping on). -/
def escapeAux : Nat → Bytes → Bytes
  | 0, _ => []
  | _, [] => []
  | fuel + 1, c :: rest =>
    if c < 0x80 then
      let out : Bytes :=
        if c = 0x5C || c = 0x22 then [0x5C, c]
        else if c = 0x08 then [0x5C, 0x62]
        else if c = 0x0C then [0x5C, 0x66]
        else if c = 0x0A then [0x5C, 0x6E]
        else if c = 0x0D then [0x5C, 0x72]
        else if c = 0x09 then [0x5C, 0x74]
        else if c < 0x20 || c = 0x3C || c = 0x3E || c = 0x26 then
          [0x5C, 0x75, 0x30, 0x30, hexDigit (c.toNat >>> 4), hexDigit (c.toNat &&& 0xF)]
        else [c]
      out ++ escapeAux fuel rest
    else
      let (r, w) := Utf8.decodeRune (c :: rest)
      if r = Utf8.runeError && w = 1 then
        [0x5C, 0x75, 0x66, 0x66, 0x66, 0x64] ++ escapeAux fuel rest
      else if r = 0x2028 then [0x5C, 0x75, 0x32, 0x30, 0x32, 0x38] ++ escapeAux fuel ((c :: rest).drop w)
      else if r = 0x2029 then [0x5C, 0x75, 0x32, 0x30, 0x32, 0x39] ++ escapeAux fuel ((c :: rest).drop w)
      else (c :: rest).take w ++ escapeAux fuel ((c :: rest).drop w)

def escape (s : Bytes) : Bytes := escapeAux s.length s

def encodeString (s : Bytes) : Bytes := 0x22 :: escape s ++ [0x22]

def intercalate (sep : Bytes) : List Bytes → Bytes
  | [] => []
  | [x] => x
  | x :: xs => x ++ sep ++ intercalate sep xs

mutual
/-- `json.Marshal`. -/
def encode [NumOps N] : Val N → Bytes
  | .null => [0x6E, 0x75, 0x6C, 0x6C]
  | .bool true => [0x74, 0x72, 0x75, 0x65]
  | .bool false => [0x66, 0x61, 0x6C, 0x73, 0x65]
  | .num n => NumOps.format n
  | .str s => encodeString s
  | .arr xs => 0x5B :: intercalate [0x2C] (encodeList xs) ++ [0x5D]
  | .obj kvs => 0x7B :: intercalate [0x2C] (encodeKVs kvs) ++ [0x7D]
def encodeList [NumOps N] : List (Val N) → List Bytes
  | [] => []
  | x :: xs => encode x :: encodeList xs
def encodeKVs [NumOps N] : List (Bytes × Val N) → List Bytes
  | [] => []
  | (k, x) :: xs => (encodeString k ++ 0x3A :: encode x) :: encodeKVs xs
end

def indentBytes (n : Nat) : Bytes := List.replicate (2 * n) 0x20

mutual
/-- `json.MarshalIndent(v, "", "  ")`. -/
def encodeIndent [NumOps N] : Nat → Val N → Bytes
  | _, .null => b "null"
  | _, .bool true => b "true"
  | _, .bool false => b "false"
  | _, .num n => NumOps.format n
  | _, .str s => encodeString s
  | _, .arr [] => b "[]"
  | _, .obj [] => b "{}"
  | lvl, .arr (x :: xs) =>
    0x5B :: 0x0A :: intercalate (0x2C :: [0x0A]) (encodeIndentList (lvl + 1) (x :: xs))
      ++ 0x0A :: indentBytes lvl ++ [0x5D]
  | lvl, .obj (kv :: kvs) =>
    0x7B :: 0x0A :: intercalate (0x2C :: [0x0A]) (encodeIndentKVs (lvl + 1) (kv :: kvs))
      ++ 0x0A :: indentBytes lvl ++ [0x7D]
def encodeIndentList [NumOps N] : Nat → List (Val N) → List Bytes
  | _, [] => []
  | lvl, x :: xs => (indentBytes lvl ++ encodeIndent lvl x) :: encodeIndentList lvl xs
def encodeIndentKVs [NumOps N] : Nat → List (Bytes × Val N) → List Bytes
  | _, [] => []
  | lvl, (k, x) :: xs =>
    (indentBytes lvl ++ encodeString k ++ 0x3A :: 0x20 :: encodeIndent lvl x) :: encodeIndentKVs lvl xs
end

end Json
end Jmes
