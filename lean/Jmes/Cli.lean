/-
  Jmes.Cli — model of cmd/jpgo `run()`: what is written to standard output
  and the exit status, as a function of the (non-flag) arguments, the -input
  file (if any) and standard input.  `flag`, the file system and process
  start-up are the operating system and standard library: modelled only as
  "the file is readable with these bytes, or not".
-/
import Jmes.Api
import Jmes.Json
namespace Jmes
namespace Cli
variable {N : Type}

inductive Input where
  | stdin (bytes : Bytes)
  | file (content : Option Bytes)     -- `none`: ioutil.ReadFile fails

/-- The bytes `run()` reads: standard input, or the file's content if it can be read. -/
def Input.data : Input → Option Bytes
  | .stdin bs => some bs
  | .file c => c

structure Result where
  stdout : Bytes
  exit : Nat
  deriving DecidableEq, Repr

def fail : Result := ⟨[], 1⟩

/-- `run()` without `-ast`. -/
def run [NumOps N] (cfg : Api.Config) (args : List Bytes) (input : Input) : Result :=
  match args with
  | [expression] =>
    match (Api.compile cfg expression : Res (Node N)) with
    | .ok _ =>
      (match input.data with
       | none => fail
       | some inputData =>
        match (Json.decode inputData : Option (Val N)) with
        | none => fail
        | some doc =>
          match Api.search cfg expression doc with
          | .ok result =>
            if result.finite then ⟨Json.encodeIndent 0 result ++ [0x0A], 0⟩ else fail
          | .err _ => fail
          | .panic _ => ⟨[], 2⟩)        -- a Go panic: exit status 2, nothing printed
    | .err _ => fail
    | .panic _ => ⟨[], 2⟩
  | _ => fail

end Cli
end Jmes
