/-
  Jmes.Model — the model instantiated with the facts regenerated from /repo.
-/
import Jmes.Api
import Jmes.Generated
namespace Jmes
namespace Model

def lexTables : Lexer.Tables :=
  { startBits := Generated.identifierStartBits, trailBits := Generated.identifierTrailingBits,
    basic := Generated.basicTokens, white := Generated.whiteSpace }

/-- The library as built from the current source. -/
def cfg : Api.Config := { lex := lexTables, tbl := Generated.table, fns := Generated.functionTable }

end Model
end Jmes
