/-
  Jmes.Typed — model of the reflection paths of interpreter.go / util.go:
  `Execute` on documents made of Go structs, pointers to structs and typed
  slices (C18).

  `TVal` is what an `interface{}` can hold in such a document: the decoded-JSON
  shapes (nil, bool, float64, string, `[]interface{}`, `map[string]interface{}`)
  plus a struct value (its exported fields in declaration order), a pointer to
  a struct (nil or not) and a typed slice.  `interfaceOf` is the helper of the
  same name in interpreter.go: what comes out of a struct field or a typed
  slice element (a nil pointer becomes nil).  `view` is the document's JSON
  form: what `encoding/json` writes for it.

  `evalT` covers the navigational nodes (field, index, slice, flatten, the
  projections, multi-select, boolean operators, pipe, literals), comparators and
  `length()`; any other function call is outside this model (the "no built-in
  panics on typed slices" half of C18 is decided on the implementation).

  `cap` is `fieldFromStruct`'s capitalisation of the first rune
  (`unicode.ToUpper`), a parameter: the theorems hold for every such function.
-/
import Jmes.Interp
namespace Jmes
namespace Typed
variable {N : Type}

inductive TVal (N : Type) where
  | null
  | bool (b : Bool)
  | num (n : N)
  | str (s : Bytes)
  | arr (xs : List (TVal N))                      -- []interface{}
  | obj (kvs : List (Bytes × TVal N))             -- map[string]interface{}, keys ascending
  | struct (fields : List (Bytes × TVal N))       -- struct value: exported fields
  | nilptr                                        -- (*T)(nil)
  | ptr (target : TVal N)                         -- &T{…}
  | slice (xs : List (TVal N))                    -- []T

/-- interpreter.go `interfaceOf`: a nil pointer is null. -/
def interfaceOf : TVal N → TVal N
  | .nilptr => .null
  | v => v

mutual
/-- decoded JSON as a (generic) typed value -/
def ofVal : Val N → TVal N
  | .null => .null
  | .bool b => .bool b
  | .num n => .num n
  | .str s => .str s
  | .arr xs => .arr (ofVals xs)
  | .obj kvs => .obj (ofKVs kvs)
def ofVals : List (Val N) → List (TVal N)
  | [] => []
  | x :: xs => ofVal x :: ofVals xs
def ofKVs : List (Bytes × Val N) → List (Bytes × TVal N)
  | [] => []
  | (k, v) :: rest => (k, ofVal v) :: ofKVs rest
end

mutual
/-- The JSON form of a typed value. -/
def view : TVal N → Val N
  | .null => .null
  | .bool b => .bool b
  | .num n => .num n
  | .str s => .str s
  | .arr xs => .arr (viewList xs)
  | .obj kvs => .obj (viewKVs kvs)
  | .struct fs => .obj ((viewKVs fs).foldl (fun m kv => Val.insert kv.1 kv.2 m) [])
  | .nilptr => .null
  | .ptr t => view t
  | .slice xs => .arr (viewList xs)
def viewList : List (TVal N) → List (Val N)
  | [] => []
  | x :: xs => view x :: viewList xs
def viewKVs : List (Bytes × TVal N) → List (Bytes × Val N)
  | [] => []
  | (k, v) :: rest => (k, view v) :: viewKVs rest
end

def lookupT (k : Bytes) : List (Bytes × TVal N) → Option (TVal N)
  | [] => none
  | (k', v) :: rest => if k' = k then some v else lookupT k rest

/-- `FieldByName`: the first field with that name (Go forbids duplicates). -/
def fieldOfStruct (name : Bytes) (fs : List (Bytes × TVal N)) : TVal N :=
  match lookupT name fs with
  | some v => interfaceOf v
  | none => .null

/-- ASTField on any value: a generic map by its key, a struct or a pointer to
    a struct through `fieldFromStruct`. -/
def fieldT (cap : Bytes → Bytes) (k : Bytes) : TVal N → TVal N
  | .obj kvs => (lookupT k kvs).getD .null
  | .struct fs => fieldOfStruct (cap k) fs
  | .ptr (.struct fs) => fieldOfStruct (cap k) fs
  | _ => .null

/-- util.go `isFalse` including its reflection cases. -/
def isFalseT : TVal N → Bool
  | .null => true
  | .bool b => !b
  | .str s => s.isEmpty
  | .arr xs => xs.isEmpty
  | .obj kvs => kvs.isEmpty
  | .num _ => false
  | .struct _ => false
  | .nilptr => true
  | .ptr t => isFalseT t
  | .slice xs => xs.isEmpty

/-- ASTIndex, generic and reflection path. -/
def indexT (i : Int) : TVal N → TVal N
  | .arr xs =>
    let idx := if i < 0 then i + xs.length else i
    if idx < (xs.length : Int) ∧ idx ≥ 0 then xs.getD idx.toNat .null else .null
  | .slice xs =>
    let idx := if i < 0 then i + xs.length else i
    if idx < (xs.length : Int) ∧ idx ≥ 0 then interfaceOf (xs.getD idx.toNat .null) else .null
  | _ => .null

/-- The element loop of ASTFlatten on `[]interface{}`. -/
def flattenArr : List (TVal N) → List (TVal N)
  | [] => []
  | .arr ys :: rest => ys ++ flattenArr rest
  | .slice ys :: rest => ys.map interfaceOf ++ flattenArr rest
  | v :: rest => v :: flattenArr rest

/-- `flattenWithReflection`: elements come through `interfaceOf`. -/
def flattenSlice : List (TVal N) → List (TVal N)
  | [] => []
  | x :: rest =>
    match interfaceOf x with
    | .arr ys => ys.map interfaceOf ++ flattenSlice rest
    | .slice ys => ys.map interfaceOf ++ flattenSlice rest
    | v => v :: flattenSlice rest

/-- `if current != nil { collected = append(collected, current) }` -/
def keepNonNull (y : TVal N) (ys : List (TVal N)) : List (TVal N) :=
  match y with
  | .null => ys
  | _ => y :: ys

def projectLoopT (f : TVal N → Res (TVal N)) : List (TVal N) → Res (List (TVal N))
  | [] => .ok []
  | x :: xs =>
    match f x with
    | .ok y =>
      (match projectLoopT f xs with
       | .ok ys => .ok (keepNonNull y ys)
       | e => e)
    | .err e => .err e
    | .panic p => .panic p

def filterLoopT (cond rhs : TVal N → Res (TVal N)) : List (TVal N) → Res (List (TVal N))
  | [] => .ok []
  | x :: xs =>
    match cond x with
    | .ok c =>
      if !isFalseT c then
        match rhs x with
        | .ok y =>
          (match filterLoopT cond rhs xs with
           | .ok ys => .ok (keepNonNull y ys)
           | e => e)
        | .err e => .err e
        | .panic p => .panic p
      else filterLoopT cond rhs xs
    | .err e => .err e
    | .panic p => .panic p

/-- The elements a projection / filter / slice iterates over: `[]interface{}` as
    it is, a typed slice through `interfaceOf`. -/
def elemsOf : TVal N → Option (List (TVal N))
  | .arr xs => some xs
  | .slice xs => some (xs.map interfaceOf)
  | _ => none

mutual
/-- `reflect.DeepEqual` on the values of this model. -/
def deepEqT [NumOps N] : TVal N → TVal N → Bool
  | .null, .null => true
  | .bool a, .bool b => a == b
  | .num a, .num b => NumOps.eq a b
  | .str a, .str b => a == b
  | .arr xs, .arr ys => deepEqTList xs ys
  | .obj xs, .obj ys => deepEqTKVs xs ys
  | .struct xs, .struct ys => deepEqTKVs xs ys
  | .nilptr, .nilptr => true
  | .ptr a, .ptr b => deepEqT a b
  | .slice xs, .slice ys => deepEqTList xs ys
  | _, _ => false
def deepEqTList [NumOps N] : List (TVal N) → List (TVal N) → Bool
  | [], [] => true
  | x :: xs, y :: ys => deepEqT x y && deepEqTList xs ys
  | _, _ => false
def deepEqTKVs [NumOps N] : List (Bytes × TVal N) → List (Bytes × TVal N) → Bool
  | [], [] => true
  | (k, x) :: xs, (l, y) :: ys => k == l && deepEqT x y && deepEqTKVs xs ys
  | _, _ => false
end

variable [NumOps N]

def compareT (op : Cmp) (l r : TVal N) : TVal N :=
  match op with
  | .eq => .bool (deepEqT l r)
  | .ne => .bool (!deepEqT l r)
  | _ =>
    match l, r with
    | .num a, .num b =>
      (match op with
       | .gt => .bool (NumOps.lt b a)
       | .gte => .bool (NumOps.le b a)
       | .lt => .bool (NumOps.lt a b)
       | .lte => .bool (NumOps.le a b)
       | _ => .null)
    | _, _ => .null

def insertT (k : Bytes) (v : TVal N) : List (Bytes × TVal N) → List (Bytes × TVal N)
  | [] => [(k, v)]
  | (k', v') :: rest =>
    if k' = k then (k, v) :: rest
    else if Val.bytesLt k k' then (k, v) :: (k', v') :: rest
    else (k', v') :: insertT k v rest

/-- `length(x)` after `resolveArgs` has turned a typed slice into `[]interface{}`. -/
def lengthT : TVal N → Res (TVal N)
  | .str s => .ok (.num (NumOps.ofNat (Utf8.runeCount s)))
  | .arr xs => .ok (.num (NumOps.ofNat xs.length))
  | .slice xs => .ok (.num (NumOps.ofNat xs.length))
  | .obj kvs => .ok (.num (NumOps.ofNat kvs.length))
  | _ => .err (.other "invalid type")

def unsupported {α} : Res α := .err (.other "typed model: node outside the navigational fragment")

mutual
/-- `treeInterpreter.Execute(node, value)` on a typed document. -/
def evalT (cap : Bytes → Bytes) : Node N → TVal N → Res (TVal N)
  | .current, d => .ok d
  | .identity, d => .ok d
  | .field name, d => .ok (fieldT cap name d)
  | .literal v, _ => .ok (ofVal v)
  | .index i, d => .ok (indexT i d)
  | .indexExpr l r, d =>
    match evalT cap l d with
    | .ok v => evalT cap r v
    | e => e
  | .sub l r, d =>
    match evalT cap l d with
    | .ok v => evalT cap r v
    | e => e
  | .pipe l r, d =>
    match evalT cap l d with
    | .ok v => evalT cap r v
    | e => e
  | .slice a b c, d =>
    match elemsOf d with
    | some xs =>
      (match Slice.slice xs a b c with
       | .ok ys => .ok (.arr ys)
       | .err e => .err e
       | .panic p => .panic p)
    | none => .ok .null
  | .flatten e, d =>
    match evalT cap e d with
    | .ok (.arr xs) => .ok (.arr (flattenArr xs))
    | .ok (.slice xs) => .ok (.arr (flattenSlice xs))
    | .ok _ => .ok .null
    | e => e
  | .proj l r, d =>
    match evalT cap l d with
    | .ok v =>
      (match elemsOf v with
       | some xs =>
         (match projectLoopT (evalT cap r) xs with
          | .ok ys => .ok (.arr ys)
          | .err e => .err e
          | .panic p => .panic p)
       | none => .ok .null)
    | e => e
  | .filterProj l r c, d =>
    match evalT cap l d with
    | .ok v =>
      (match elemsOf v with
       | some xs =>
         (match filterLoopT (evalT cap c) (evalT cap r) xs with
          | .ok ys => .ok (.arr ys)
          | .err e => .err e
          | .panic p => .panic p)
       | none => .ok .null)
    | e => e
  | .msList xs, d =>
    match d with
    | .null => .ok .null
    | _ =>
      (match evalTList cap xs d with
       | .ok vs => .ok (.arr vs)
       | .err e => .err e
       | .panic p => .panic p)
  | .msHash kvs, d =>
    match d with
    | .null => .ok .null
    | _ =>
      (match evalTKVs cap kvs d with
       | .ok ps => .ok (.obj (ps.foldl (fun m kv => insertT kv.1 kv.2 m) []))
       | .err e => .err e
       | .panic p => .panic p)
  | .or l r, d =>
    match evalT cap l d with
    | .ok m => if isFalseT m then evalT cap r d else .ok m
    | e => e
  | .and l r, d =>
    match evalT cap l d with
    | .ok m => if isFalseT m then .ok m else evalT cap r d
    | e => e
  | .not e, d =>
    match evalT cap e d with
    | .ok m => .ok (.bool (isFalseT m))
    | e => e
  | .cmp op l r, d =>
    match evalT cap l d with
    | .ok lv =>
      (match evalT cap r d with
       | .ok rv => .ok (compareT op lv rv)
       | e => e)
    | e => e
  | .call name args, d =>
    match args with
    | [(false, a)] =>
      if name = b "length" then
        match evalT cap a d with
        | .ok v => lengthT v
        | e => e
      else unsupported
    | _ => unsupported
  | .valueProj _ _, _ => unsupported
  | .empty, _ => .err (.other "Unknown AST node")
def evalTList (cap : Bytes → Bytes) : List (Node N) → TVal N → Res (List (TVal N))
  | [], _ => .ok []
  | x :: xs, d =>
    match evalT cap x d with
    | .ok v => (match evalTList cap xs d with | .ok vs => .ok (v :: vs) | e => e)
    | .err e => .err e
    | .panic p => .panic p
def evalTKVs (cap : Bytes → Bytes) : List (Bytes × Node N) → TVal N → Res (List (Bytes × TVal N))
  | [], _ => .ok []
  | (k, x) :: xs, d =>
    match evalT cap x d with
    | .ok v => (match evalTKVs cap xs d with | .ok vs => .ok ((k, v) :: vs) | e => e)
    | .err e => .err e
    | .panic p => .panic p
end

end Typed
end Jmes
