/-
  Jmes.Parser — model of parser.go (Pratt parser).  The cursor
  `(tokens, index)` is a zipper: `before` = consumed tokens, most recent first;
  `after` = tokens[index:].  Reading `tokens[index+k]` beyond the end is a
  panic (Go: index out of range).  The mutually recursive functions carry an
  explicit fuel; `Proofs/ParserFuel.lean` shows the fuel given by `parse`
  always suffices.
-/
import Jmes.Ast
import Jmes.Lexer
import Jmes.Json
namespace Jmes
namespace Parser
variable {N : Type}

structure PState where
  before : List Token
  after : List Token
  deriving Repr

def oob {α} : Res α := .panic "parser.go: token index out of range"

def PState.curTok (p : PState) : Res Token :=
  match p.after with
  | t :: _ => .ok t
  | [] => oob

def PState.cur (p : PState) : Res TokType :=
  match p.after with
  | t :: _ => .ok t.ty
  | [] => oob

def PState.look1 (p : PState) : Res TokType :=
  match p.after with
  | _ :: t :: _ => .ok t.ty
  | _ => oob

def PState.advance (p : PState) : PState :=
  match p.after with
  | t :: r => ⟨t :: p.before, r⟩
  | [] => p

/-- `p.syntaxError(..)`: offset of the current token. -/
def PState.syntaxError {α} (p : PState) : Res α :=
  match p.after with
  | t :: _ => .err (.syntax t.pos)
  | [] => oob

/-- `p.match(tokenType)`. -/
def PState.expect (p : PState) (ty : TokType) : Res PState :=
  match p.after with
  | t :: _ => if t.ty = ty then .ok p.advance else .err (.syntax t.pos)
  | [] => oob

def minInt64 : Int := -9223372036854775808
def maxInt64 : Int := 9223372036854775807

/-- Sign and digits of an integer literal, unbounded. -/
def signedDigits (s : Bytes) : Option Int :=
  match s with
  | 0x2D :: r => (digitsToNat? r).map (fun n => - (n : Int))
  | 0x2B :: r => (digitsToNat? r).map (fun n => (n : Int))
  | _ => (digitsToNat? s).map (fun n => (n : Int))

/-- The int64 range check (`strconv.ErrRange`). -/
def clampInt64 (v : Int) : Option Int :=
  if minInt64 ≤ v ∧ v ≤ maxInt64 then some v else none

/-- `strconv.Atoi` on a 64-bit platform. -/
def atoi (s : Bytes) : Option Int := (signedDigits s).bind clampInt64

def atoiErr {α} : Res α := .err (.other "strconv.Atoi")

/-- The slice loop of parseSliceExpression. `parts` has 3 entries, `idx < 3`. -/
def sliceLoop : Nat → List (Option Int) → Nat → PState → Res (List (Option Int) × PState)
  | 0, _, _, _ => .panic "parser model: out of fuel"
  | fuel + 1, parts, idx, p => do
    let cur ← p.cur
    if cur ≠ .rbracket ∧ idx < 3 then
      if cur = .colon then
        if idx + 1 = 3 then p.syntaxError
        else sliceLoop fuel parts (idx + 1) p.advance
      else if cur = .number then
        if (parts.getD idx none).isSome then p.syntaxError
        else
          let t ← p.curTok
          match atoi t.value with
          | none => atoiErr
          | some n => sliceLoop fuel (parts.set idx (some n)) idx p.advance
      else p.syntaxError
    else .ok (parts, p)

def parseSliceExpression (p : PState) : Res (Node N × PState) := do
  let (parts, p) ← sliceLoop (p.after.length + 1) [none, none, none] 0 p
  let p ← p.expect .rbracket
  .ok (.slice (parts.getD 0 none) (parts.getD 1 none) (parts.getD 2 none), p)

def parseIndexExpression (p : PState) : Res (Node N × PState) := do
  let c0 ← p.cur
  let isSlice ← (if c0 = .colon then .ok true else do
    let c1 ← p.look1
    .ok (decide (c1 = .colon)) : Res Bool)
  if isSlice then parseSliceExpression p
  else
    let t ← p.curTok
    match atoi t.value with
    | none => atoiErr
    | some n =>
      let p ← p.advance.expect .rbracket
      .ok (.index n, p)

def isSliceNode : Node N → Bool
  | .slice _ _ _ => true
  | _ => false

def isFieldNode : Node N → Bool
  | .field _ => true
  | _ => false

def outOfFuel {α} : Res α := .panic "parser model: out of fuel"

mutual

def parseExpression [NumOps N] (tbl : ParserTable) : Nat → Nat → PState → Res (Node N × PState)
  | 0, _, _ => outOfFuel
  | fuel + 1, rbp, p => do
    let leftToken ← p.curTok
    let (left, p) ← nud tbl fuel leftToken p.advance
    ledLoop tbl fuel rbp left p

def ledLoop [NumOps N] (tbl : ParserTable) : Nat → Nat → Node N → PState → Res (Node N × PState)
  | 0, _, _, _ => outOfFuel
  | fuel + 1, rbp, left, p => do
    let cur ← p.cur
    if rbp < tbl.power cur then
      let (left', p) ← led tbl fuel cur left p.advance
      ledLoop tbl fuel rbp left' p
    else .ok (left, p)

def nud [NumOps N] (tbl : ParserTable) : Nat → Token → PState → Res (Node N × PState)
  | 0, _, _ => outOfFuel
  | fuel + 1, token, p =>
    match token.ty with
    | .jsonLiteral =>
      match (Json.decode token.value : Option (Val N)) with
      | none => .err (.other "json: literal")
      | some v => .ok (.literal v, p)
    | .stringLiteral => .ok (.literal (.str token.value), p)
    | .uident => .ok (.field token.value, p)
    | .qident => do
      let cur ← p.cur
      if cur = .lparen then .err (.syntax token.pos) else .ok (.field token.value, p)
    | .star => do
      let cur ← p.cur
      if cur = .rbracket then .ok (.valueProj .identity .identity, p)
      else
        let (right, p) ← parseProjectionRHS tbl fuel tbl.nudStar p
        .ok (.valueProj .identity right, p)
    | .filter => parseFilter tbl fuel .identity p
    | .lbrace => parseMultiSelectHash tbl fuel p []
    | .flatten => do
      let (right, p) ← parseProjectionRHS tbl fuel tbl.nudFlatten p
      .ok (.proj (.flatten .identity) right, p)
    | .lbracket => do
      let cur ← p.cur
      if cur = .number ∨ cur = .colon then
        let (right, p) ← parseIndexExpression p
        projectIfSlice tbl fuel .identity right p
      else
        let isStar ← (if cur = .star then do
          let c1 ← p.look1
          .ok (decide (c1 = .rbracket)) else .ok false : Res Bool)
        if isStar then
          let (right, p) ← parseProjectionRHS tbl fuel tbl.nudBracketStar p.advance.advance
          .ok (.proj .identity right, p)
        else parseMultiSelectList tbl fuel p []
    | .current => .ok (.current, p)
    | .not => do
      let (e, p) ← parseExpression tbl fuel tbl.nudNot p
      .ok (.not e, p)
    | .lparen => do
      let (e, p) ← parseExpression tbl fuel tbl.nudParen p
      let p ← p.expect .rparen
      .ok (e, p)
    | _ => .err (.syntax token.pos)     -- tEOF: "Incomplete expression"; others: "Invalid token"

def led [NumOps N] (tbl : ParserTable) : Nat → TokType → Node N → PState → Res (Node N × PState)
  | 0, _, _, _ => outOfFuel
  | fuel + 1, tokenType, node, p =>
    match tokenType with
    | .dot => do
      let cur ← p.cur
      if cur ≠ .star then
        let (right, p) ← parseDotRHS tbl fuel tbl.ledDotSub p
        .ok (.sub node right, p)
      else
        let (right, p) ← parseProjectionRHS tbl fuel tbl.ledDotStar p.advance
        .ok (.valueProj node right, p)
    | .pipe => do
      let (right, p) ← parseExpression tbl fuel tbl.ledPipe p
      .ok (.pipe node right, p)
    | .or => do
      let (right, p) ← parseExpression tbl fuel tbl.ledOr p
      .ok (.or node right, p)
    | .and => do
      let (right, p) ← parseExpression tbl fuel tbl.ledAnd p
      .ok (.and node right, p)
    | .lparen =>
      -- p.tokens[p.index-1] is the '(' itself, p.tokens[p.index-2] the token before it
      match node, p.before with
      | .field name, lp :: prev :: _ =>
        if prev.ty = .uident then do
          let cur ← p.cur
          let (args, p) ← (if cur = .rparen then .ok ([], p) else parseArgs tbl fuel p : Res (List (Bool × Node N) × PState))
          let p ← p.expect .rparen
          .ok (.call name args, p)
        else .err (.syntax lp.pos)
      | _, lp :: _ :: _ => .err (.syntax lp.pos)
      | _, _ => oob
    | .filter => parseFilter tbl fuel node p
    | .flatten => do
      let (right, p) ← parseProjectionRHS tbl fuel tbl.ledFlatten p
      .ok (.proj (.flatten node) right, p)
    | .lbracket => do
      let cur ← p.cur
      if cur = .number ∨ cur = .colon then
        let (right, p) ← parseIndexExpression p
        projectIfSlice tbl fuel node right p
      else
        let p ← p.expect .star
        let p ← p.expect .rbracket
        let (right, p) ← parseProjectionRHS tbl fuel tbl.ledBracketStar p
        .ok (.proj node right, p)
    | ty =>
      match Cmp.ofTok ty with
      | some op => do
        let (right, p) ← parseExpression tbl fuel ((tbl.ledCmp.lookup ty).getD 0) p
        .ok (.cmp op node right, p)
      | none => p.syntaxError          -- "Unexpected token"

/-- The argument loop of led(tLparen); entered with current ≠ ')'. -/
def parseArgs [NumOps N] (tbl : ParserTable) : Nat → PState → Res (List (Bool × Node N) × PState)
  | 0, _ => outOfFuel
  | fuel + 1, p => do
    let cur ← p.cur
    let (arg, p) ← (if cur ≠ .expref then do
        let (e, p) ← parseExpression tbl fuel tbl.ledArg p
        .ok ((false, e), p)
      else do
        let (e, p) ← parseExpression tbl fuel tbl.ledArgExpref p.advance
        .ok ((true, e), p) : Res ((Bool × Node N) × PState))
    let cur ← p.cur
    if cur = .rparen then .ok ([arg], p)
    else
      let p ← p.expect .comma
      let cur ← p.cur
      if cur = .rparen then p.syntaxError
      else
        let (rest, p) ← parseArgs tbl fuel p
        .ok (arg :: rest, p)

def projectIfSlice [NumOps N] (tbl : ParserTable) : Nat → Node N → Node N → PState → Res (Node N × PState)
  | 0, _, _, _ => outOfFuel
  | fuel + 1, left, right, p =>
    if isSliceNode right then do
      let (r, p) ← parseProjectionRHS tbl fuel tbl.sliceProj p
      .ok (.proj (.indexExpr left right) r, p)
    else .ok (.indexExpr left right, p)

def parseFilter [NumOps N] (tbl : ParserTable) : Nat → Node N → PState → Res (Node N × PState)
  | 0, _, _ => outOfFuel
  | fuel + 1, node, p => do
    let (cond, p) ← parseExpression tbl fuel tbl.filterCond p
    let p ← p.expect .rbracket
    let cur ← p.cur
    if cur = .flatten then .ok (.filterProj node .identity cond, p)
    else
      let (right, p) ← parseProjectionRHS tbl fuel tbl.filterRhs p
      .ok (.filterProj node right cond, p)

def parseDotRHS [NumOps N] (tbl : ParserTable) : Nat → Nat → PState → Res (Node N × PState)
  | 0, _, _ => outOfFuel
  | fuel + 1, bp, p => do
    let la ← p.cur
    if la = .qident ∨ la = .uident ∨ la = .star then parseExpression tbl fuel bp p
    else if la = .lbracket then parseMultiSelectList tbl fuel p.advance []
    else if la = .lbrace then parseMultiSelectHash tbl fuel p.advance []
    else p.syntaxError

def parseProjectionRHS [NumOps N] (tbl : ParserTable) : Nat → Nat → PState → Res (Node N × PState)
  | 0, _, _ => outOfFuel
  | fuel + 1, bp, p => do
    let cur ← p.cur
    if tbl.power cur < tbl.projStop then .ok (.identity, p)
    else if cur = .lbracket then parseExpression tbl fuel bp p
    else if cur = .filter then parseExpression tbl fuel bp p
    else if cur = .dot then parseDotRHS tbl fuel bp p.advance
    else p.syntaxError

/-- parseMultiSelectList; `acc` = expressions so far, in reverse. -/
def parseMultiSelectList [NumOps N] (tbl : ParserTable) : Nat → PState → List (Node N) → Res (Node N × PState)
  | 0, _, _ => outOfFuel
  | fuel + 1, p, acc => do
    let (e, p) ← parseExpression tbl fuel tbl.msList p
    let cur ← p.cur
    if cur = .rbracket then
      let p ← p.expect .rbracket
      .ok (.msList (e :: acc).reverse, p)
    else
      let p ← p.expect .comma
      parseMultiSelectList tbl fuel p (e :: acc)

/-- parseMultiSelectHash; `acc` = key-value pairs so far, in reverse. -/
def parseMultiSelectHash [NumOps N] (tbl : ParserTable) : Nat → PState → List (Bytes × Node N) → Res (Node N × PState)
  | 0, _, _ => outOfFuel
  | fuel + 1, p, acc => do
    let keyToken ← p.curTok
    if keyToken.ty = .uident ∨ keyToken.ty = .qident then
      let p ← p.advance.expect .colon
      let (v, p) ← parseExpression tbl fuel tbl.msHash p
      let cur ← p.cur
      if cur = .comma then parseMultiSelectHash tbl fuel p.advance ((keyToken.value, v) :: acc)
      else if cur = .rbrace then .ok (.msHash ((keyToken.value, v) :: acc).reverse, p.advance)
      else p.syntaxError
    else p.syntaxError

end

/-- Fuel that always suffices for `n` tokens (see Proofs/ParserFuel). -/
def fuelFor (n : Nat) : Nat := 8 * n + 8

/-- `(*Parser).Parse` after tokenizing: parseExpression(0), then require tEOF. -/
def parseTokens [NumOps N] (tbl : ParserTable) (toks : List Token) : Res (Node N) := do
  let (e, p) ← parseExpression tbl (fuelFor toks.length) tbl.top ⟨[], toks⟩
  let cur ← p.cur
  if cur ≠ .eof then p.syntaxError else .ok e

/-- `(*Parser).Parse(expression)` / `Compile`, for given tables. -/
def parseWith [NumOps N] (lt : Lexer.Tables) (tbl : ParserTable) (expr : Bytes) : Res (Node N) := do
  let toks ← Lexer.tokenize lt expr
  parseTokens tbl toks

end Parser
end Jmes
