/-
  Jmes.Value — a Go `interface{}` holding decoded JSON, as the library sees it.

  `obj` is a `map[string]interface{}`: an association list with strictly
  ascending (bytewise) keys (`Val.WF`), so that structural equality is
  `reflect.DeepEqual` on JSON trees.  Go iterates maps in random order; the
  model iterates in ascending key order and every statement about iteration
  is up to permutation.
-/
import Jmes.Num
namespace Jmes

inductive Val (N : Type) where
  | null
  | bool (b : Bool)
  | num (n : N)
  | str (s : Bytes)
  | arr (xs : List (Val N))
  | obj (kvs : List (Bytes × Val N))
  deriving Inhabited

namespace Val
variable {N : Type}

/-- Bytewise lexicographic `<` on Go strings. -/
def bytesLt : Bytes → Bytes → Bool
  | [], [] => false
  | [], _ :: _ => true
  | _ :: _, [] => false
  | a :: as, b :: bs => if a < b then true else if b < a then false else bytesLt as bs

/-- `m[key]` on a map: the zero interface (nil) for a missing key. -/
def lookup (k : Bytes) : List (Bytes × Val N) → Option (Val N)
  | [] => none
  | (k', v) :: rest => if k' = k then some v else lookup k rest

/-- `m[key] = v` on a map held as a key-sorted association list. -/
def insert (k : Bytes) (v : Val N) : List (Bytes × Val N) → List (Bytes × Val N)
  | [] => [(k, v)]
  | (k', v') :: rest =>
    if k' = k then (k, v) :: rest
    else if bytesLt k k' then (k, v) :: (k', v') :: rest
    else (k', v') :: insert k v rest

/-- `util.go: isFalse` on JSON values. -/
def isFalse : Val N → Bool
  | .null => true
  | .bool b => !b
  | .str s => s.isEmpty
  | .arr xs => xs.isEmpty
  | .obj kvs => kvs.isEmpty
  | .num _ => false

mutual
/-- `reflect.DeepEqual` on decoded JSON (`util.go: objsEqual`). -/
def deepEq [NumOps N] : Val N → Val N → Bool
  | .null, .null => true
  | .bool a, .bool b => a == b
  | .num a, .num b => NumOps.eq a b
  | .str a, .str b => a == b
  | .arr xs, .arr ys => deepEqList xs ys
  | .obj xs, .obj ys => deepEqKVs xs ys
  | _, _ => false
def deepEqList [NumOps N] : List (Val N) → List (Val N) → Bool
  | [], [] => true
  | x :: xs, y :: ys => deepEq x y && deepEqList xs ys
  | _, _ => false
def deepEqKVs [NumOps N] : List (Bytes × Val N) → List (Bytes × Val N) → Bool
  | [], [] => true
  | (k, x) :: xs, (l, y) :: ys => k == l && deepEq x y && deepEqKVs xs ys
  | _, _ => false
end

/-- Keys strictly ascending. -/
def keysSorted : List (Bytes × Val N) → Bool
  | [] => true
  | [_] => true
  | (k, _) :: (k', v') :: rest => bytesLt k k' && keysSorted ((k', v') :: rest)

mutual
/-- Well-formed: every object has strictly ascending keys. -/
def wf : Val N → Bool
  | .arr xs => wfList xs
  | .obj kvs => keysSorted kvs && wfKVs kvs
  | _ => true
def wfList : List (Val N) → Bool
  | [] => true
  | x :: xs => wf x && wfList xs
def wfKVs : List (Bytes × Val N) → Bool
  | [] => true
  | (_, x) :: xs => wf x && wfKVs xs
end

mutual
/-- All numbers finite (with `wf`: the value is JSON data). -/
def finite [NumOps N] : Val N → Bool
  | .num n => NumOps.isFinite n
  | .arr xs => finiteList xs
  | .obj kvs => finiteKVs kvs
  | _ => true
def finiteList [NumOps N] : List (Val N) → Bool
  | [] => true
  | x :: xs => finite x && finiteList xs
def finiteKVs [NumOps N] : List (Bytes × Val N) → Bool
  | [] => true
  | (_, x) :: xs => finite x && finiteKVs xs
end

/-- JSON data: well-formed and all numbers finite. -/
def isJSON [NumOps N] (v : Val N) : Bool := v.wf && v.finite

end Val
end Jmes
