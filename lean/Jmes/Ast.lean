/-
  Jmes.Ast — the AST (`ASTNode`) as a Lean inductive.  One constructor per
  `astNodeType` that the parser can produce, plus `empty` (ASTEmpty, the zero
  node).  Expression references occur only as function arguments (flag `true`
  in `call`'s argument list), which is what the parser produces.
-/
import Jmes.Token
namespace Jmes

inductive Cmp where
  | eq | ne | lt | lte | gt | gte
  deriving DecidableEq, Repr, Inhabited

def Cmp.ofTok : TokType → Option Cmp
  | .eq => some .eq | .ne => some .ne | .lt => some .lt
  | .lte => some .lte | .gt => some .gt | .gte => some .gte
  | _ => none

inductive Node (N : Type) where
  | empty
  | cmp (op : Cmp) (l r : Node N)
  | current
  | identity
  | call (name : Bytes) (args : List (Bool × Node N))   -- (isExpRef, argument)
  | field (name : Bytes)
  | filterProj (l r c : Node N)
  | flatten (e : Node N)
  | index (i : Int)
  | indexExpr (l r : Node N)
  | literal (v : Val N)
  | msHash (kvs : List (Bytes × Node N))
  | msList (xs : List (Node N))
  | or (l r : Node N)
  | and (l r : Node N)
  | not (e : Node N)
  | pipe (l r : Node N)
  | proj (l r : Node N)
  | sub (l r : Node N)
  | slice (a b c : Option Int)
  | valueProj (l r : Node N)
  deriving Inhabited

end Jmes
