/-
  Jmes.Functions — model of functions.go: resolveArgs, typeCheck,
  CallFunction and the 26 handlers.  Handlers keep the unchecked type
  assertions of the Go code as explicit `panic` outcomes, so that it is
  `typeCheck` (through the regenerated signature table) that makes them safe.
-/
import Jmes.Value
import Jmes.Utf8
import Jmes.Json
import Jmes.Token
namespace Jmes
namespace Fn
variable {N : Type}

/-- A resolved argument: a value, or an expression reference (the closure
    `fun v => Execute(ref, v)`). -/
inductive Arg (N : Type) where
  | val (v : Val N)
  | ref (f : Val N → Res (Val N))

def allNums : List (Val N) → Option (List N)
  | [] => some []
  | .num n :: rest => (allNums rest).map (n :: ·)
  | _ :: _ => none

def allStrs : List (Val N) → Option (List Bytes)
  | [] => some []
  | .str s :: rest => (allStrs rest).map (s :: ·)
  | _ :: _ => none

/-- util.go: toArrayNum / toArrayStr on an argument. -/
def toArrayNum : Arg N → Option (List N)
  | .val (.arr xs) => allNums xs
  | _ => none
def toArrayStr : Arg N → Option (List Bytes)
  | .val (.arr xs) => allStrs xs
  | _ => none

def typeOk (t : JpType) (a : Arg N) : Bool :=
  match t, a with
  | .number, .val (.num _) => true
  | .string, .val (.str _) => true
  | .array, .val (.arr _) => true
  | .object, .val (.obj _) => true
  | .arrayNumber, a => (toArrayNum a).isSome
  | .arrayString, a => (toArrayStr a).isSome
  | .any, .val _ => true
  | .expref, .ref _ => true
  | _, _ => false

/-- `argSpec.typeCheck`. -/
def typeCheck (spec : ArgSpec) (a : Arg N) : Bool := spec.types.any (fun t => typeOk t a)

def invalidType {α} : Res α := .err (.other "invalid type")
def invalidArity {α} : Res α := .err (.other "invalid arity")

def checkFixed : List ArgSpec → List (Arg N) → Bool
  | [], [] => true
  | s :: ss, a :: as => typeCheck s a && checkFixed ss as
  | _, _ => false

/-- The variadic path: position `i` is checked against `specs[i]`, positions
    past the declared ones against the last (variadic) spec. -/
def checkVariadic (last : ArgSpec) : List ArgSpec → List (Arg N) → Bool
  | _, [] => true
  | s :: ss, a :: as => typeCheck s a && checkVariadic last ss as
  | [], a :: as => typeCheck last a && checkVariadic last [] as

/-- `functionEntry.resolveArgs`. -/
def resolveArgs (e : FnEntry) (args : List (Arg N)) : Res Unit :=
  match e.args.getLast? with
  | none => .ok ()
  | some last =>
    if !last.variadic then
      if e.args.length ≠ args.length then invalidArity
      else if checkFixed e.args args then .ok () else invalidType
    else
      if args.length < e.args.length then invalidArity
      else if checkVariadic last e.args args then .ok () else invalidType

def assertPanic {α} (site : String) : Res α := .panic ("functions.go: type assertion failed in " ++ site)

def isInfix (needle : Bytes) : Bytes → Bool
  | [] => needle.isEmpty
  | c :: rest => needle.isPrefixOf (c :: rest) || isInfix needle rest

def str (s : String) : Val N := .str (b s)

section handlers
variable [NumOps N]

def sumNums (xs : List N) : N := xs.foldl NumOps.add (NumOps.ofNat 0)

/-- `for _, item := range items[1:] { if item > best { best = item } }` -/
def maxNum : N → List N → N
  | best, [] => best
  | best, x :: xs => maxNum (if NumOps.lt best x then x else best) xs
def minNum : N → List N → N
  | best, [] => best
  | best, x :: xs => minNum (if NumOps.lt x best then x else best) xs
def maxStr : Bytes → List Bytes → Bytes
  | best, [] => best
  | best, x :: xs => maxStr (if Val.bytesLt best x then x else best) xs
def minStr : Bytes → List Bytes → Bytes
  | best, [] => best
  | best, x :: xs => minStr (if Val.bytesLt x best then x else best) xs

/-- The loop of max_by / min_by for number keys: `better cur best` decides. -/
def byLoopNum (f : Val N → Res (Val N)) (better : N → N → Bool) : N → Val N → List (Val N) → Res (Val N)
  | _, bestItem, [] => .ok bestItem
  | bestVal, bestItem, item :: rest =>
    match f item with
    | .ok (.num cur) =>
      if better cur bestVal then byLoopNum f better cur item rest
      else byLoopNum f better bestVal bestItem rest
    | .ok _ => .err (.other "invalid type, must be number")
    | .err e => .err e
    | .panic p => .panic p
def byLoopStr (f : Val N → Res (Val N)) (better : Bytes → Bytes → Bool) : Bytes → Val N → List (Val N) → Res (Val N)
  | _, bestItem, [] => .ok bestItem
  | bestVal, bestItem, item :: rest =>
    match f item with
    | .ok (.str cur) =>
      if better cur bestVal then byLoopStr f better cur item rest
      else byLoopStr f better bestVal bestItem rest
    | .ok _ => .err (.other "invalid type, must be string")
    | .err e => .err e
    | .panic p => .panic p

def extremeBy (f : Val N → Res (Val N)) (isMax : Bool) (arr : List (Val N)) : Res (Val N) :=
  match arr with
  | [] => .ok .null
  | first :: rest =>
    match f first with
    | .ok (.num t) =>
      byLoopNum f (fun cur best => if isMax then NumOps.lt best cur else NumOps.lt cur best) t first rest
    | .ok (.str t) =>
      byLoopStr f (fun cur best => if isMax then Val.bytesLt best cur else Val.bytesLt cur best) t first rest
    | .ok _ => .err (.other "invalid type, must be number of string")
    | .err e => .err e
    | .panic p => .panic p

/-- Keys of all elements, evaluated left to right. -/
def keysNum (f : Val N → Res (Val N)) : List (Val N) → Res (Option (List (N × Val N)))
  | [] => .ok (some [])
  | x :: xs =>
    match f x with
    | .ok (.num k) =>
      (match keysNum f xs with
       | .ok (some r) => .ok (some ((k, x) :: r))
       | o => o)
    | .ok _ => (match keysNum f xs with | .ok _ => .ok none | o => o)
    | .err _ => (match keysNum f xs with | .ok _ => .ok none | o => o)
    | .panic p => .panic p
def keysStr (f : Val N → Res (Val N)) : List (Val N) → Res (Option (List (Bytes × Val N)))
  | [] => .ok (some [])
  | x :: xs =>
    match f x with
    | .ok (.str k) =>
      (match keysStr f xs with
       | .ok (some r) => .ok (some ((k, x) :: r))
       | o => o)
    | .ok _ => (match keysStr f xs with | .ok _ => .ok none | o => o)
    | .err _ => (match keysStr f xs with | .ok _ => .ok none | o => o)
    | .panic p => .panic p

/-- sort_by.  `sort.Stable` with the by-expression `Less`: every element's key
    is evaluated (each element takes part in at least one comparison when
    there are two or more), any key error or key of the wrong type sets the
    `hasError` latch; otherwise the result is the stable ascending order. -/
def sortBy (f : Val N → Res (Val N)) (arr : List (Val N)) : Res (Val N) :=
  match arr with
  | [] => .ok (.arr [])
  | first :: rest =>
    match f first with
    | .ok (.num k0) =>
      (match rest with
       | [] => .ok (.arr [first])
       | _ =>
        match keysNum f rest with
        | .ok (some ks) =>
          .ok (.arr ((List.mergeSort ((k0, first) :: ks) (fun a b => !NumOps.lt b.1 a.1)).map (·.2)))
        | .ok none => .err (.other "error in sort_by comparison")
        | .err e => .err e
        | .panic p => .panic p)
    | .ok (.str k0) =>
      (match rest with
       | [] => .ok (.arr [first])
       | _ =>
        match keysStr f rest with
        | .ok (some ks) =>
          .ok (.arr ((List.mergeSort ((k0, first) :: ks) (fun a b => !Val.bytesLt b.1 a.1)).map (·.2)))
        | .ok none => .err (.other "error in sort_by comparison")
        | .err e => .err e
        | .panic p => .panic p)
    | .ok _ => .err (.other "invalid type, must be number of string")
    | .err e => .err e
    | .panic p => .panic p

def mapLoop (f : Val N → Res (Val N)) : List (Val N) → Res (List (Val N))
  | [] => .ok []
  | x :: xs =>
    match f x with
    | .ok y => (match mapLoop f xs with | .ok ys => .ok (y :: ys) | e => e)
    | .err e => .err e
    | .panic p => .panic p

def mergeLoop : List (Bytes × Val N) → List (Arg N) → Res (Val N)
  | acc, [] => .ok (.obj acc)
  | acc, .val (.obj kvs) :: rest => mergeLoop (kvs.foldl (fun m kv => Val.insert kv.1 kv.2 m) acc) rest
  | _, _ :: _ => assertPanic "jpfMerge"

def joinLoop (sep : Bytes) : List (Val N) → Res (List Bytes)
  | [] => .ok []
  | .str s :: rest => (match joinLoop sep rest with | .ok r => .ok (s :: r) | e => e)
  | _ :: _ => assertPanic "jpfJoin"

def avgLoop : N → List (Val N) → Res N
  | acc, [] => .ok acc
  | acc, .num n :: rest => avgLoop (NumOps.add acc n) rest
  | _, _ :: _ => assertPanic "jpfAvg"

/-- The handlers, by identity.  `args` are the arguments *after* the
    interpreter has been prepended for `hasExpRef` entries, i.e. the user
    arguments; `intr` says whether the interpreter was prepended. -/
def handle (h : Handler) (intr : Bool) (args : List (Arg N)) : Res (Val N) :=
  match h with
  | .abs => if intr then assertPanic "jpfAbs" else
    match args with
    | .val (.num n) :: _ => .ok (.num (NumOps.abs n))
    | _ => assertPanic "jpfAbs"
  | .length => if intr then .err (.other "could not compute length()") else
    match args with
    | .val (.str s) :: _ => .ok (.num (NumOps.ofNat (Utf8.runeCount s)))
    | .val (.arr xs) :: _ => .ok (.num (NumOps.ofNat xs.length))
    | .val (.obj kvs) :: _ => .ok (.num (NumOps.ofNat kvs.length))
    | [] => assertPanic "jpfLength"
    | _ => .err (.other "could not compute length()")
  | .startsWith => if intr then assertPanic "jpfStartsWith" else
    match args with
    | .val (.str s) :: .val (.str p) :: _ => .ok (.bool (p.isPrefixOf s))
    | _ => assertPanic "jpfStartsWith"
  | .endsWith => if intr then assertPanic "jpfEndsWith" else
    match args with
    | .val (.str s) :: .val (.str p) :: _ => .ok (.bool (p.reverse.isPrefixOf s.reverse))
    | _ => assertPanic "jpfEndsWith"
  | .avg => if intr then assertPanic "jpfAvg" else
    match args with
    | .val (.arr xs) :: _ =>
      if xs.isEmpty then .ok .null
      else match avgLoop (NumOps.ofNat 0) xs with
        | .ok s => .ok (.num (NumOps.div s (NumOps.ofNat xs.length)))
        | .err e => .err e
        | .panic p => .panic p
    | _ => assertPanic "jpfAvg"
  | .ceil => if intr then assertPanic "jpfCeil" else
    match args with
    | .val (.num n) :: _ => .ok (.num (NumOps.ceil n))
    | _ => assertPanic "jpfCeil"
  | .floor => if intr then assertPanic "jpfFloor" else
    match args with
    | .val (.num n) :: _ => .ok (.num (NumOps.floor n))
    | _ => assertPanic "jpfFloor"
  | .contains => if intr then assertPanic "jpfContains" else
    match args with
    | .val (.str s) :: .val (.str e) :: _ => .ok (.bool (isInfix e s))
    | .val (.str _) :: _ :: _ => .ok (.bool false)
    | .val (.arr xs) :: .val el :: _ => .ok (.bool (xs.any (fun x => Val.deepEq x el)))
    | .val (.arr _) :: .ref _ :: _ => .ok (.bool false)
    | _ => assertPanic "jpfContains"
  | .map => if !intr then assertPanic "jpfMap" else
    match args with
    | .ref f :: .val (.arr xs) :: _ =>
      (match mapLoop f xs with | .ok ys => .ok (.arr ys) | .err e => .err e | .panic p => .panic p)
    | _ => assertPanic "jpfMap"
  | .max => if intr then .ok .null else
    match args with
    | a :: _ =>
      (match toArrayNum a with
       | some [] => .ok .null
       | some (x :: xs) => .ok (.num (maxNum x xs))
       | none =>
        match toArrayStr a with
        | some (x :: xs) => .ok (.str (maxStr x xs))
        | _ => .ok .null)
    | [] => assertPanic "jpfMax"
  | .min => if intr then .ok .null else
    match args with
    | a :: _ =>
      (match toArrayNum a with
       | some [] => .ok .null
       | some (x :: xs) => .ok (.num (minNum x xs))
       | none =>
        match toArrayStr a with
        | some (x :: xs) => .ok (.str (minStr x xs))
        | _ => .ok .null)
    | [] => assertPanic "jpfMin"
  | .merge => if intr then assertPanic "jpfMerge" else mergeLoop [] args
  | .maxBy => if !intr then assertPanic "jpfMaxBy" else
    match args with
    | .val (.arr xs) :: .ref f :: _ => extremeBy f true xs
    | _ => assertPanic "jpfMaxBy"
  | .minBy => if !intr then assertPanic "jpfMinBy" else
    match args with
    | .val (.arr xs) :: .ref f :: _ => extremeBy f false xs
    | _ => assertPanic "jpfMinBy"
  | .sum => if intr then .ok (.num (NumOps.ofNat 0)) else
    match args with
    | a :: _ => .ok (.num (sumNums ((toArrayNum a).getD [])))
    | [] => assertPanic "jpfSum"
  | .type => if intr then .err (.other "unknown type") else
    match args with
    | .val (.num _) :: _ => .ok (str "number")
    | .val (.str _) :: _ => .ok (str "string")
    | .val (.arr _) :: _ => .ok (str "array")
    | .val (.obj _) :: _ => .ok (str "object")
    | .val .null :: _ => .ok (str "null")
    | .val (.bool _) :: _ => .ok (str "boolean")
    | .ref _ :: _ => .err (.other "unknown type")
    | [] => assertPanic "jpfType"
  | .keys => if intr then assertPanic "jpfKeys" else
    match args with
    | .val (.obj kvs) :: _ => .ok (.arr (kvs.map (fun kv => .str kv.1)))
    | _ => assertPanic "jpfKeys"
  | .values => if intr then assertPanic "jpfValues" else
    match args with
    | .val (.obj kvs) :: _ => .ok (.arr (kvs.map (·.2)))
    | _ => assertPanic "jpfValues"
  | .sort => if intr then .ok (.arr []) else
    match args with
    | a :: _ =>
      (match toArrayNum a with
       | some xs => .ok (.arr ((List.mergeSort xs (fun x y => !NumOps.lt y x)).map .num))
       | none =>
        .ok (.arr ((List.mergeSort ((toArrayStr a).getD []) (fun x y => !Val.bytesLt y x)).map .str)))
    | [] => assertPanic "jpfSort"
  | .sortBy => if !intr then assertPanic "jpfSortBy" else
    match args with
    | .val (.arr xs) :: .ref f :: _ => sortBy f xs
    | _ => assertPanic "jpfSortBy"
  | .join => if intr then assertPanic "jpfJoin" else
    match args with
    | .val (.str sep) :: .val (.arr xs) :: _ =>
      (match joinLoop sep xs with
       | .ok ss => .ok (.str (Json.intercalate sep ss))
       | .err e => .err e
       | .panic p => .panic p)
    | _ => assertPanic "jpfJoin"
  | .reverse => if intr then assertPanic "jpfReverse" else
    match args with
    | .val (.str s) :: _ => .ok (.str (Utf8.encodeRunes (Utf8.runes s).reverse))
    | .val (.arr xs) :: _ => .ok (.arr xs.reverse)
    | _ => assertPanic "jpfReverse"
  | .toArray => if intr then assertPanic "jpfToArray (non-JSON result)" else
    match args with
    | .val (.arr xs) :: _ => .ok (.arr xs)
    | .val v :: _ => .ok (.arr [v])
    | _ => assertPanic "jpfToArray (non-JSON result)"
  | .toString => if intr then assertPanic "jpfToString (non-JSON argument)" else
    match args with
    | .val (.str s) :: _ => .ok (.str s)
    | .val v :: _ => if v.finite then .ok (.str (Json.encode v)) else .err (.other "json: unsupported value")
    | _ => assertPanic "jpfToString (non-JSON argument)"
  | .toNumber => if intr then .err (.other "unknown type") else
    match args with
    | .val (.num n) :: _ => .ok (.num n)
    | .val (.str s) :: _ =>
      (match (NumOps.parse s : Option N) with
       | some n => if NumOps.isFinite n then .ok (.num n) else .ok .null
       | none => .ok .null)
    | .val _ :: _ => .ok .null
    | .ref _ :: _ => .err (.other "unknown type")
    | [] => assertPanic "jpfToNumber"
  | .notNull => if intr then assertPanic "jpfNotNull (non-JSON result)" else
    match args.find? (fun a => match a with | .val .null => false | _ => true) with
    | some (.val v) => .ok v
    | some (.ref _) => assertPanic "jpfNotNull (non-JSON result)"
    | none => .ok .null

/-- The bytes of a (plain ASCII) function-table key. -/
def keyBytes (s : String) : Bytes := s.toList.map (fun c => c.toNat.toUInt8)

/-- `functionCaller.CallFunction`. -/
def callFunction (table : List FnEntry) (name : Bytes) (args : List (Arg N)) : Res (Val N) :=
  match table.find? (fun e => keyBytes e.key = name) with
  | none => .err (.other "unknown function")
  | some e =>
    match resolveArgs e args with
    | .ok () => handle e.handler e.hasExpRef args
    | .err er => .err er
    | .panic p => .panic p

end handlers
end Fn
end Jmes
