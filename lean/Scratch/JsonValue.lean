import Proofs.JsonString
import Proofs.Json
namespace Jmes.Json
open Jmes.Utf8 Jmes.Val
variable {N : Type} [NumOps N]

/-- what may follow a value inside a JSON text -/
def Delim (rest : Bytes) : Prop := rest = [] ∨ ∃ d r, rest = d :: r ∧ (d = 0x2C ∨ d = 0x5D ∨ d = 0x7D)

/-- The assumed contract of the number text codec (`strconv` / `encoding/json`
    float formatting and parsing: ported in Driver/F64.lean, validated by
    differential testing, not verified): the text of a finite number is a JSON
    number token that parses back to the number. -/
structure NumCodec (N : Type) [NumOps N] : Prop where
  head : ∀ n : N, NumOps.isFinite n = true → ∃ c cs, NumOps.format n = c :: cs ∧ (c = 0x2D ∨ isDigit c = true)
  scan : ∀ n : N, NumOps.isFinite n = true → ∀ rest, Delim rest → scanNumber (NumOps.format n ++ rest) = some (NumOps.format n, rest)
  parse : ∀ n : N, NumOps.isFinite n = true → NumOps.parse (NumOps.format n) = some n

mutual
/-- every string in the value (keys included) is well-formed UTF-8 -/
def utf8OK : Val N → Prop
  | .str s => ValidUtf8 s
  | .arr xs => utf8OKList xs
  | .obj kvs => utf8OKKVs kvs
  | _ => True
def utf8OKList : List (Val N) → Prop
  | [] => True
  | x :: xs => utf8OK x ∧ utf8OKList xs
def utf8OKKVs : List (Bytes × Val N) → Prop
  | [] => True
  | (k, v) :: rest => ValidUtf8 k ∧ utf8OK v ∧ utf8OKKVs rest
end

mutual
def depthV : Val N → Nat
  | .arr xs => depthList xs + 1
  | .obj kvs => depthKVs kvs + 1
  | _ => 0
def depthList : List (Val N) → Nat
  | [] => 0
  | x :: xs => max (depthV x) (depthList xs)
def depthKVs : List (Bytes × Val N) → Nat
  | [] => 0
  | (_, v) :: rest => max (depthV v) (depthKVs rest)
end

theorem skipWs_cons (c : UInt8) (rest : Bytes) (h : isWs c = false) : skipWs (c :: rest) = c :: rest := by
  simp [skipWs, h]

theorem delim_skip {rest : Bytes} (h : Delim rest) : skipWs rest = rest := by
  rcases h with rfl | ⟨d, r, rfl, hd⟩
  · rfl
  · rcases hd with rfl | rfl | rfl <;> exact skipWs_cons _ _ (by decide)

/-- the first byte of an encoded value tells which kind it is; it is never white space, `]` or `}` -/
inductive HeadKind : UInt8 → Prop
  | obj : HeadKind 0x7B | arr : HeadKind 0x5B | str : HeadKind 0x22 | t : HeadKind 0x74 | f : HeadKind 0x66 | n : HeadKind 0x6E
  | minus : HeadKind 0x2D | digit (c : UInt8) : isDigit c = true → HeadKind c

theorem digit_facts' : ∀ c : UInt8, isDigit c = true →
    isWs c = false ∧ c ≠ 0x5D ∧ c ≠ 0x7D ∧ c ≠ 0x7B ∧ c ≠ 0x5B ∧ c ≠ 0x22 ∧ c ≠ 0x74 ∧ c ≠ 0x66 ∧ c ≠ 0x6E := by
  apply forall_uint8'; decide +kernel

theorem headKind_facts {c : UInt8} (h : HeadKind c) : isWs c = false ∧ c ≠ 0x5D ∧ c ≠ 0x7D := by
  cases h with
  | digit c hd => exact ⟨(digit_facts' c hd).1, (digit_facts' c hd).2.1, (digit_facts' c hd).2.2.1⟩
  | _ => exact ⟨by decide, by decide, by decide⟩

theorem encode_head (hN : NumCodec N) (v : Val N) (hf : v.isJSON = true) : ∃ c cs, encode v = c :: cs ∧ HeadKind c := by
  cases v with
  | null => exact ⟨_, _, rfl, .n⟩
  | bool b => cases b; exact ⟨_, _, rfl, .f⟩; exact ⟨_, _, rfl, .t⟩
  | num n =>
    obtain ⟨c, cs, h, hc⟩ := hN.head n ((isJSON_num n).mp hf)
    refine ⟨c, cs, by simp [encode, h], ?_⟩
    rcases hc with rfl | hd
    · exact .minus
    · exact .digit c hd
  | str s => exact ⟨_, _, rfl, .str⟩
  | arr xs => exact ⟨0x5B, intercalate [0x2C] (encodeList xs) ++ [0x5D], by simp [encode], .arr⟩
  | obj kvs => exact ⟨0x7B, intercalate [0x2C] (encodeKVs kvs) ++ [0x7D], by simp [encode], .obj⟩

/-- scalars -/
theorem parse_null (fuel depth : Nat) (rest : Bytes) :
    parseValue (N := N) (fuel + 1) depth (encode (.null : Val N) ++ rest) = some (.null, rest) := by
  simp [encode, parseValue, skipWs, isWs]

theorem parse_bool (bv : Bool) (fuel depth : Nat) (rest : Bytes) :
    parseValue (N := N) (fuel + 1) depth (encode (.bool bv : Val N) ++ rest) = some (.bool bv, rest) := by
  cases bv <;> simp [encode, parseValue, skipWs, isWs]

theorem parse_str (s : Bytes) (hv : ValidUtf8 s) (fuel depth : Nat) (rest : Bytes) :
    parseValue (N := N) (fuel + 1) depth (encode (.str s : Val N) ++ rest) = some (.str s, rest) := by
  have hp := parse_escape hv s.length ((escape s ++ 0x22 :: rest).length + 1) rest (Nat.le_refl _)
    (by unfold escape; simp only [List.length_append, List.length_cons]; omega)
  simp only [encode, encodeString, List.cons_append, List.append_assoc, List.singleton_append, parseValue]
  rw [skipWs_cons _ _ (by decide)]
  simp only [show ((0x22 : UInt8) = 0x7B) = False by decide, show ((0x22 : UInt8) = 0x5B) = False by decide, if_false, if_true]
  unfold escape at hp ⊢
  simp only [List.nil_append]
  rw [hp]
  rfl

theorem parse_num (hN : NumCodec N) (n : N) (hf : NumOps.isFinite n = true) (fuel depth : Nat) (rest : Bytes) (hd : Delim rest) :
    parseValue (N := N) (fuel + 1) depth (encode (.num n : Val N) ++ rest) = some (.num n, rest) := by
  obtain ⟨c, cs, h, hc⟩ := hN.head n hf
  have hk : HeadKind c := by
    rcases hc with rfl | hdg
    · exact .minus
    · exact .digit c hdg
  have hfacts : isWs c = false ∧ c ≠ 0x7B ∧ c ≠ 0x5B ∧ c ≠ 0x22 ∧ c ≠ 0x74 ∧ c ≠ 0x66 ∧ c ≠ 0x6E := by
    rcases hc with rfl | hdg
    · exact ⟨by decide, by decide, by decide, by decide, by decide, by decide, by decide⟩
    · have := digit_facts' c hdg
      exact ⟨this.1, this.2.2.2.1, this.2.2.2.2.1, this.2.2.2.2.2.1, this.2.2.2.2.2.2.1, this.2.2.2.2.2.2.2.1, this.2.2.2.2.2.2.2.2⟩
  have hs := hN.scan n hf rest hd
  have hp := hN.parse n hf
  simp only [encode]
  rw [h] at hs ⊢
  simp only [List.cons_append, parseValue]
  rw [skipWs_cons _ _ hfacts.1]
  simp only [hfacts.2.1, hfacts.2.2.1, hfacts.2.2.2.1, hfacts.2.2.2.2.1, hfacts.2.2.2.2.2.1, hfacts.2.2.2.2.2.2, if_false]
  simp only [List.cons_append] at hs
  rw [hs]
  simp only [← h, hp]

/-! ### order of keys -/

theorem bytesLt_irrefl : ∀ a : Bytes, bytesLt a a = false
  | [] => rfl
  | x :: xs => by simp [bytesLt, bytesLt_irrefl xs]

theorem bytesLt_trans : ∀ a b c : Bytes, bytesLt a b = true → bytesLt b c = true → bytesLt a c = true
  | [], [], _, h, _ => by simp [bytesLt] at h
  | [], _ :: _, [], _, h => by simp [bytesLt] at h
  | [], _ :: _, _ :: _, _, _ => by simp [bytesLt]
  | _ :: _, [], _, h, _ => by simp [bytesLt] at h
  | _ :: _, _ :: _, [], _, h => by simp [bytesLt] at h
  | x :: xs, y :: ys, z :: zs, h1, h2 => by
    simp only [bytesLt] at h1 h2 ⊢
    by_cases hxy : x < y
    · by_cases hyz : y < z
      · have : x < z := by rw [UInt8.lt_iff_toNat_lt] at *; omega
        simp [this]
      · by_cases hzy : z < y
        · simp [hyz, hzy] at h2
        · have hyz' : y = z := by
            apply UInt8.toNat_inj.mp; rw [UInt8.lt_iff_toNat_lt] at hyz hzy; omega
          subst hyz'; simp [hxy]
    · by_cases hyx : y < x
      · simp [hxy, hyx] at h1
      · have hxy' : x = y := by
          apply UInt8.toNat_inj.mp; rw [UInt8.lt_iff_toNat_lt] at hxy hyx; omega
        subst hxy'
        simp only [hxy, if_false] at h1
        by_cases hxz : x < z
        · simp [hxz]
        · by_cases hzx : z < x
          · simp [hxz, hzx] at h2
          · simp only [hxz, hzx, if_false] at h2 ⊢
            exact bytesLt_trans xs ys zs h1 h2

/-- every key of `l` is below `k` -/
def allBelow (k : Bytes) : List (Bytes × Val N) → Prop
  | [] => True
  | (k', _) :: rest => bytesLt k' k = true ∧ allBelow k rest

theorem insert_above (k : Bytes) (v : Val N) : ∀ (l : List (Bytes × Val N)), allBelow k l → Val.insert k v l = l ++ [(k, v)]
  | [], _ => rfl
  | (k', v') :: rest, h => by
    have hne : k' ≠ k := by
      intro e; have h1 := h.1; rw [e, bytesLt_irrefl] at h1; cases h1
    have hnl : bytesLt k k' = false := by
      cases hh : bytesLt k k' with
      | false => rfl
      | true => have := bytesLt_trans k k' k hh h.1; rw [bytesLt_irrefl] at this; cases this
    simp only [Val.insert, hne, if_false, hnl, Bool.false_eq_true, insert_above k v rest h.2, List.cons_append]

theorem allBelow_append (k : Bytes) (a : List (Bytes × Val N)) (k' : Bytes) (v' : Val N) (h : allBelow k' a) (hk : bytesLt k' k = true) :
    allBelow k (a ++ [(k', v')]) := by
  induction a with
  | nil => exact ⟨hk, trivial⟩
  | cons kv rest ih =>
    obtain ⟨k0, v0⟩ := kv
    exact ⟨bytesLt_trans k0 k' k h.1 hk, ih h.2⟩

theorem sorted_allBelow (k : Bytes) (v : Val N) (rest : List (Bytes × Val N)) :
    ∀ acc : List (Bytes × Val N), keysSorted (acc ++ (k, v) :: rest) = true → allBelow k acc
  | [], _ => trivial
  | [(k0, v0)], h => by
    simp only [List.cons_append, List.nil_append, keysSorted, Bool.and_eq_true] at h
    exact ⟨h.1, trivial⟩
  | (k0, v0) :: (k1, v1) :: acc', h => by
    simp only [List.cons_append, keysSorted, Bool.and_eq_true] at h
    have ih := sorted_allBelow k v rest ((k1, v1) :: acc') (by simpa using h.2)
    exact ⟨bytesLt_trans k0 k1 k h.1 ih.1, ih⟩

/-- decoding re-inserts the members in the order written: ascending keys come out as written -/
theorem foldl_insert_sorted : ∀ (kvs acc : List (Bytes × Val N)), keysSorted (acc ++ kvs) = true →
    kvs.foldl (fun m kv => Val.insert kv.1 kv.2 m) acc = acc ++ kvs
  | [], acc, _ => by simp
  | (k, v) :: rest, acc, h => by
    have hb := sorted_allBelow k v rest acc h
    simp only [List.foldl_cons, insert_above k v acc hb]
    rw [foldl_insert_sorted rest (acc ++ [(k, v)]) (by simpa [List.append_assoc] using h)]
    simp [List.append_assoc]

/-! ### the value codec -/

mutual
/-- what the round trip needs of a value: finite numbers, well-formed UTF-8 in every string and key,
    strictly ascending keys (what `Unmarshal` itself produces) -/
def okV : Val N → Prop
  | .num n => NumOps.isFinite n = true
  | .str s => ValidUtf8 s
  | .arr xs => okList xs
  | .obj kvs => keysSorted kvs = true ∧ okKVs kvs
  | _ => True
def okList : List (Val N) → Prop
  | [] => True
  | x :: xs => okV x ∧ okList xs
def okKVs : List (Bytes × Val N) → Prop
  | [] => True
  | (k, v) :: rest => ValidUtf8 k ∧ okV v ∧ okKVs rest
end

theorem encode_head' (hN : NumCodec N) (v : Val N) (hv : okV v) : ∃ c cs, encode v = c :: cs ∧ HeadKind c := by
  cases v with
  | null => exact ⟨_, _, rfl, .n⟩
  | bool b => cases b; exact ⟨_, _, rfl, .f⟩; exact ⟨_, _, rfl, .t⟩
  | num n =>
    obtain ⟨c, cs, h, hc⟩ := hN.head n hv
    refine ⟨c, cs, by simp [encode, h], ?_⟩
    rcases hc with rfl | hd
    · exact .minus
    · exact .digit c hd
  | str s => exact ⟨_, _, rfl, .str⟩
  | arr xs => exact ⟨0x5B, intercalate [0x2C] (encodeList xs) ++ [0x5D], by simp [encode], .arr⟩
  | obj kvs => exact ⟨0x7B, intercalate [0x2C] (encodeKVs kvs) ++ [0x7D], by simp [encode], .obj⟩

theorem encode_len_pos (hN : NumCodec N) (v : Val N) (hv : okV v) : 1 ≤ (encode v).length := by
  obtain ⟨c, cs, h, _⟩ := encode_head' hN v hv; rw [h]; simp

theorem delim_comma (r : Bytes) : Delim (0x2C :: r) := Or.inr ⟨_, _, rfl, Or.inl rfl⟩
theorem delim_rbracket (r : Bytes) : Delim (0x5D :: r) := Or.inr ⟨_, _, rfl, Or.inr (Or.inl rfl)⟩
theorem delim_rbrace (r : Bytes) : Delim (0x7D :: r) := Or.inr ⟨_, _, rfl, Or.inr (Or.inr rfl)⟩

theorem parse_key (k : Bytes) (hk : ValidUtf8 k) (tail : Bytes) :
    parseStringBody ((escape k ++ 0x22 :: tail).length + 1) (escape k ++ 0x22 :: tail) = some (k, tail) := by
  unfold escape
  exact parse_escape hk k.length _ tail (Nat.le_refl _) (by simp only [List.length_append, List.length_cons]; omega)

@[simp] theorem skipWs_comma (r : Bytes) : skipWs (0x2C :: r) = 0x2C :: r := skipWs_cons _ _ (by decide)
@[simp] theorem skipWs_rbracket (r : Bytes) : skipWs (0x5D :: r) = 0x5D :: r := skipWs_cons _ _ (by decide)
@[simp] theorem skipWs_rbrace (r : Bytes) : skipWs (0x7D :: r) = 0x7D :: r := skipWs_cons _ _ (by decide)
@[simp] theorem skipWs_colon (r : Bytes) : skipWs (0x3A :: r) = 0x3A :: r := skipWs_cons _ _ (by decide)
@[simp] theorem skipWs_quote (r : Bytes) : skipWs (0x22 :: r) = 0x22 :: r := skipWs_cons _ _ (by decide)

mutual
/-- **`Unmarshal` inverts `Marshal`**, value level. -/
theorem parse_value (hN : NumCodec N) : (v : Val N) → okV v → ∀ (fuel depth : Nat) (rest : Bytes), Delim rest →
    depth + depthV v ≤ maxDepth → (encode v).length ≤ fuel → parseValue fuel depth (encode v ++ rest) = some (v, rest)
  | .null, _, fuel, depth, rest, _, _, hf => by
    cases fuel with
    | zero => simp [encode] at hf
    | succ f => exact parse_null f depth rest
  | .bool bv, _, fuel, depth, rest, _, _, hf => by
    cases fuel with
    | zero => cases bv <;> simp [encode] at hf
    | succ f => exact parse_bool bv f depth rest
  | .num n, hv, fuel, depth, rest, hd, _, hf => by
    cases fuel with
    | zero => have := encode_len_pos hN (.num n) hv; omega
    | succ f => exact parse_num hN n hv f depth rest hd
  | .str s, hv, fuel, depth, rest, _, _, hf => by
    cases fuel with
    | zero => simp [encode, encodeString] at hf
    | succ f => exact parse_str s hv f depth rest
  | .arr [], _, fuel, depth, rest, _, hdep, hf => by
    cases fuel with
    | zero => simp [encode] at hf
    | succ f =>
      have hd1 : ¬ depth ≥ maxDepth := by simp only [depthV, depthList] at hdep; omega
      simp [encode, intercalate, encodeList, parseValue, skipWs, isWs, hd1]
  | .arr (x :: xs), hv, fuel, depth, rest, _, hdep, hf => by
    cases fuel with
    | zero => simp [encode] at hf
    | succ f =>
      have hd1 : ¬ depth ≥ maxDepth := by simp only [depthV] at hdep; omega
      obtain ⟨c, cs, hc, hk⟩ := encode_head' hN x hv.1
      obtain ⟨hws, hnb, _⟩ := headKind_facts hk
      have hel := parse_elems hN (x :: xs) (by simp) hv f (depth + 1) rest (by simp only [depthV] at hdep; omega)
        (by simp only [encode, List.length_cons, List.length_append, List.length_singleton] at hf; omega)
      -- the text after `[` starts with the first element, which is neither white space nor `]`
      have htext : ∃ t, intercalate [0x2C] (encodeList (x :: xs)) = c :: t := by
        cases xs with
        | nil => exact ⟨cs, by simp [encodeList, intercalate, hc]⟩
        | cons y ys => exact ⟨cs ++ [0x2C] ++ intercalate [0x2C] (encodeList (y :: ys)), by simp [encodeList, intercalate, hc]⟩
      obtain ⟨t, ht⟩ := htext
      simp only [encode, List.cons_append, List.append_assoc, List.singleton_append, parseValue]
      rw [skipWs_cons _ _ (by decide)]
      simp only [show ((0x5B : UInt8) = 0x7B) = False by decide, if_false, if_true, hd1]
      rw [ht] at hel ⊢
      simp only [List.cons_append] at hel ⊢
      rw [skipWs_cons _ _ hws]
      simp only [List.nil_append]
      split
      · rename_i r heq; simp only [List.cons.injEq] at heq; exact absurd heq.1 hnb
      · rw [hel]; rfl
  | .obj [], _, fuel, depth, rest, _, hdep, hf => by
    cases fuel with
    | zero => simp [encode] at hf
    | succ f =>
      have hd1 : ¬ depth ≥ maxDepth := by simp only [depthV, depthKVs] at hdep; omega
      simp [encode, intercalate, encodeKVs, parseValue, skipWs, isWs, hd1]
  | .obj ((k, v) :: kvs), hv, fuel, depth, rest, _, hdep, hf => by
    cases fuel with
    | zero => simp [encode] at hf
    | succ f =>
      have hd1 : ¬ depth ≥ maxDepth := by simp only [depthV] at hdep; omega
      have hmem := parse_members hN ((k, v) :: kvs) (by simp) hv.2 f (depth + 1) rest [] (by simp only [depthV] at hdep; omega)
        (by simp only [encode, List.length_cons, List.length_append, List.length_singleton] at hf; omega)
      have htext : ∃ t, intercalate [0x2C] (encodeKVs ((k, v) :: kvs)) = 0x22 :: t := by
        cases kvs with
        | nil => exact ⟨_, by simp [encodeKVs, intercalate, encodeString]; rfl⟩
        | cons y ys => obtain ⟨ky, vy⟩ := y; exact ⟨_, by simp [encodeKVs, intercalate, encodeString]; rfl⟩
      obtain ⟨t, ht⟩ := htext
      simp only [encode, List.cons_append, List.append_assoc, List.singleton_append, parseValue]
      rw [skipWs_cons _ _ (by decide)]
      simp only [if_true, hd1, if_false]
      rw [ht] at hmem ⊢
      simp only [List.cons_append] at hmem ⊢
      rw [skipWs_cons _ _ (by decide)]
      simp only [List.nil_append]
      split
      · rename_i r heq; simp only [List.cons.injEq] at heq; exact absurd heq.1 (by decide)
      · rw [hmem, foldl_insert_sorted ((k, v) :: kvs) [] (by simpa using hv.1)]
        rfl
theorem parse_elems (hN : NumCodec N) : (l : List (Val N)) → l ≠ [] → okList l → ∀ (fuel depth : Nat) (rest : Bytes),
    depth + depthList l ≤ maxDepth → (intercalate [0x2C] (encodeList l)).length + 1 ≤ fuel →
    parseElems fuel depth (intercalate [0x2C] (encodeList l) ++ 0x5D :: rest) = some (l, rest)
  | [], hne, _, _, _, _, _, _ => absurd rfl hne
  | [x], _, hv, fuel, depth, rest, hdep, hf => by
    cases fuel with
    | zero => simp at hf
    | succ f =>
      simp only [encodeList, intercalate] at hf ⊢
      have := parse_value hN x hv.1 f depth (0x5D :: rest) (delim_rbracket rest)
        (by simp only [depthList] at hdep; omega) (by omega)
      simp only [parseElems, this, skipWs_rbracket]
  | x :: y :: ys, _, hv, fuel, depth, rest, hdep, hf => by
    cases fuel with
    | zero => simp at hf
    | succ f =>
      have e1 : intercalate [0x2C] (encodeList (x :: y :: ys)) = encode x ++ [0x2C] ++ intercalate [0x2C] (encodeList (y :: ys)) := by
        simp [encodeList, intercalate]
      rw [e1] at hf ⊢
      simp only [List.length_append, List.length_singleton] at hf
      have h1 := encode_len_pos hN x hv.1
      have hx := parse_value hN x hv.1 f depth (0x2C :: (intercalate [0x2C] (encodeList (y :: ys)) ++ 0x5D :: rest)) (delim_comma _)
        (by simp only [depthList] at hdep ⊢; omega) (by omega)
      have ih := parse_elems hN (y :: ys) (by simp) hv.2 f depth rest (by simp only [depthList] at hdep ⊢; omega) (by omega)
      have e2 : (encode x ++ [0x2C] ++ intercalate [0x2C] (encodeList (y :: ys))) ++ 0x5D :: rest =
          encode x ++ 0x2C :: (intercalate [0x2C] (encodeList (y :: ys)) ++ 0x5D :: rest) := by simp
      rw [e2]
      simp only [parseElems, hx, skipWs_comma, ih, Option.map]
theorem parse_members (hN : NumCodec N) : (l : List (Bytes × Val N)) → l ≠ [] → okKVs l →
    ∀ (fuel depth : Nat) (rest : Bytes) (acc : List (Bytes × Val N)),
    depth + depthKVs l ≤ maxDepth → (intercalate [0x2C] (encodeKVs l)).length + 1 ≤ fuel →
    parseMembers fuel depth (intercalate [0x2C] (encodeKVs l) ++ 0x7D :: rest) acc =
      some (l.foldl (fun m kv => Val.insert kv.1 kv.2 m) acc, rest)
  | [], hne, _, _, _, _, _, _, _ => absurd rfl hne
  | [(k, v)], _, hv, fuel, depth, rest, acc, hdep, hf => by
    cases fuel with
    | zero => simp at hf
    | succ f =>
      simp only [encodeKVs, intercalate, encodeString, List.length_append, List.length_cons] at hf
      have hk := parse_key k hv.1 (0x3A :: (encode v ++ 0x7D :: rest))
      have hvv := parse_value hN v hv.2.1 f depth (0x7D :: rest) (delim_rbrace rest)
        (by simp only [depthKVs] at hdep; omega) (by omega)
      simp only [encodeKVs, intercalate, encodeString, List.append_assoc, List.cons_append, List.singleton_append, List.nil_append]
      simp only [parseMembers, skipWs_quote, hk, skipWs_colon, hvv, skipWs_rbrace]
      rfl
  | (k, v) :: (k2, v2) :: more, _, hv, fuel, depth, rest, acc, hdep, hf => by
    cases fuel with
    | zero => simp at hf
    | succ f =>
      have e1 : intercalate [0x2C] (encodeKVs ((k, v) :: (k2, v2) :: more)) =
          (encodeString k ++ 0x3A :: encode v) ++ [0x2C] ++ intercalate [0x2C] (encodeKVs ((k2, v2) :: more)) := by
        simp [encodeKVs, intercalate]
      rw [e1] at hf ⊢
      simp only [encodeString, List.length_append, List.length_cons, List.length_singleton] at hf
      generalize hT : intercalate [0x2C] (encodeKVs ((k2, v2) :: more)) = T at hf ⊢
      have hk := parse_key k hv.1 (0x3A :: (encode v ++ 0x2C :: (T ++ 0x7D :: rest)))
      have hvv := parse_value hN v hv.2.1 f depth (0x2C :: (T ++ 0x7D :: rest)) (delim_comma _)
        (by simp only [depthKVs] at hdep ⊢; omega) (by omega)
      have ih := parse_members hN ((k2, v2) :: more) (by simp) hv.2.2 f depth rest (Val.insert k v acc)
        (by simp only [depthKVs] at hdep ⊢; omega) (by rw [hT]; omega)
      rw [hT] at ih
      simp only [encodeString, List.append_assoc, List.cons_append, List.singleton_append, List.nil_append]
      simp only [parseMembers, skipWs_quote, hk, skipWs_colon, hvv, skipWs_comma, ih, List.foldl_cons]
end

/-- **`json.Unmarshal(json.Marshal(v)) = v`** for every JSON value with finite numbers, well-formed UTF-8
    strings and keys, ascending keys and depth within `encoding/json`'s limit. -/
theorem decode_encode (hN : NumCodec N) (v : Val N) (hv : okV v) (hd : depthV v ≤ maxDepth) : decode (encode v) = some v := by
  unfold decode
  have := parse_value hN v hv ((encode v).length + 1) 0 [] (Or.inl rfl) (by omega) (by omega)
  simp only [List.append_nil] at this
  rw [this]
  rfl

end Jmes.Json
