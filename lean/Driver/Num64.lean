/-
  Driver.Num64 — the IEEE-754 instance of `NumOps` used by the executable
  driver: float64 values as `UInt64` bit patterns, arithmetic through Lean's
  native `Float` (the same IEEE double operations Go compiles to on amd64),
  text conversions through the exact ports in Driver/F64.lean.  Its laws are
  not proved: floating point is modelled and differentially validated.
-/
import Jmes.Num
import Driver.F64
namespace Jmes

structure F64v where
  bits : UInt64
  deriving DecidableEq, Inhabited

@[inline] def F64v.f (x : F64v) : Float := Float.ofBits x.bits
@[inline] def F64v.of (f : Float) : F64v := ⟨f.toBits⟩

instance : NumOps F64v where
  lt a b := a.f < b.f
  le a b := a.f ≤ b.f
  eq a b := a.f == b.f
  add a b := .of (a.f + b.f)
  div a b := .of (a.f / b.f)
  ofNat n := .of (Float.ofNat n)
  abs a := .of a.f.abs
  floor a := .of a.f.floor
  ceil a := .of a.f.ceil
  isFinite a := F64.isFinite a.bits
  parse s := (F64.parse s).map F64v.mk
  format a := F64.format a.bits

end Jmes
