/-
  Driver.Main — one request per line on stdin, one answer per line on stdout.
  Compiled core-only (`lake build driver`).  See harness/PROTOCOL.md.
-/
import Jmes.Model
import Jmes.Cli
import Spec.Tables
import Driver.Codec
open Jmes Jmes.Codec

def showErr : Err → String
  | .syntax off => "errsyn " ++ toString off
  | .other _ => "err"

def showRes {α} (f : α → String) : Res α → String
  | .ok a => "ok " ++ f a
  | .err e => showErr e
  | .panic site => "panic " ++ site

def specCfg : Api.Config := { lex := Spec.lexTables, tbl := Spec.table, fns := Spec.functionTable }

def compile (cfg : Api.Config) (expr : Bytes) : Res (Node F64v) := Api.compile cfg expr
def search (cfg : Api.Config) (expr : Bytes) (doc : Val F64v) : Res (Val F64v) := Api.search cfg expr doc

def showVal : Res (Val F64v) → String := showRes canon

/-- One API operation of an `A` request. -/
def apiOp (cfg : Api.Config) (st : Api.State F64v) (op : String) : Api.State F64v × String :=
  match op.splitOn "." with
  | [h, x] =>
    if h.startsWith "d" then
      match (h.drop 1).toNat?, readCanon x with
      | some id, some v => ((Api.step cfg st (.doc id v)).1, "ok")
      | _, _ => (st, "bad-op")
    else if h.startsWith "c" then
      match (h.drop 1).toNat?, unhex x with
      | some id, some e =>
        let (st', o) := Api.step cfg st (.compile id e)
        (st', match o with | .compiled r => showRes (fun _ => "") r |>.trimAscii.toString | _ => "bad-op")
      | _, _ => (st, "bad-op")
    else if h.startsWith "s" then
      match (h.drop 1).toNat?, x.toNat? with
      | some id, some d =>
        let (st', o) := Api.step cfg st (.searchC id d)
        (st', match o with | .value r => showVal r | .missing => "nohandle" | _ => "bad-op")
      | _, _ => (st, "bad-op")
    else if h.startsWith "p" then
      match (h.drop 1).toNat?, unhex x with
      | some id, some e =>
        let (st', o) := Api.step cfg st (.parse id e)
        (st', match o with | .ast r => showRes dump r | _ => "bad-op")
      | _, _ => (st, "bad-op")
    else (st, "bad-op")
  | ["o", e, d] =>
    match unhex e, d.toNat? with
    | some e, some d =>
      let (st', o) := Api.step cfg st (.search e d)
      (st', match o with | .value r => showVal r | .missing => "bad-op" | _ => "bad-op")
    | _, _ => (st, "bad-op")
  | _ => (st, "bad-op")

def apiSeq (cfg : Api.Config) (seq : String) : String :=
  let (_, outs) := (seq.splitOn ";").foldl (fun (acc : Api.State F64v × List String) op =>
    let (st, o) := apiOp cfg acc.1 op
    (st, o :: acc.2)) ({}, [])
  ";".intercalate outs.reverse

def handle (cfg : Api.Config) (line : String) : String :=
  match (line.splitOn " ").filter (· ≠ "") with
  | ["SU", e, d] | ["S", e, d] =>
    (match unhex e, readCanon d with
     | some expr, some doc => showVal (search cfg expr doc)
     | _, _ => "bad-request")
  | ["ST", _, _, _, e, d] =>
    -- C18: the typed model on a typed document, shown through its JSON form
    (match unhex e, readTyped d with
     | some expr, some doc =>
       (match (compile cfg expr : Res (Node F64v)) with
        | .ok ast =>
          (match Typed.evalT capFirst ast doc with
           | .ok r => showVal (.ok (Typed.view r))
           | .err x => showVal (.err x)
           | .panic s => showVal (.panic s))
        | .err x => showVal (.err x)
        | .panic s => showVal (.panic s))
     | _, _ => "bad-request")
  | ["C", e] =>
    (match unhex e with
     | some expr => showRes dump (compile cfg expr)
     | none => "bad-request")
  | ["J", t] =>
    (match unhex t with
     | some txt => (match (Json.decode txt : Option (Val F64v)) with | some v => "ok " ++ canon v | none => "err")
     | none => "bad-request")
  | ["E", v] =>
    (match readCanon v with
     | some v => "ok " ++ hexField (Json.encode v)
     | none => "bad-request")
  | ["I", v] =>
    (match readCanon v with
     | some v => "ok " ++ hexField (Json.encodeIndent 0 v)
     | none => "bad-request")
  | ["A", seq] => apiSeq cfg seq
  | ["P", a, bb, d] =>
    -- pipe law: Search(A | B, d) against Search(B, Search(A, d))
    (match unhex a, unhex bb, readCanon d with
     | some ea, some eb, some doc =>
       let whole := showVal (search cfg (ea ++ b " | " ++ eb) doc)
       let split := match search cfg ea doc with
         | .ok v => showVal (search cfg eb v)
         | r => showVal r
       whole ++ " // " ++ split
     | _, _, _ => "bad-request")
  | ["R", pre, e, suf, d] =>
    -- substitution: C[e] against C[`literal of e's value`]
    (match unhex pre, unhex e, unhex suf, readCanon d with
     | some pre, some e, some suf, some doc =>
       (match search cfg e doc with
        | .ok v =>
          let lit := 0x60 :: (Json.encode v).flatMap (fun c => if c = 0x60 then [0x5C, 0x60] else [c]) ++ [0x60]
          showVal (search cfg (pre ++ e ++ suf) doc) ++ " // " ++ showVal (search cfg (pre ++ lit ++ suf) doc)
        | r => "hole " ++ showVal r)
     | _, _, _, _ => "bad-request")
  | ["W", e1, e2] =>
    (match unhex e1, unhex e2 with
     | some a, some c => showRes dump (compile cfg a) ++ " // " ++ showRes dump (compile cfg c)
     | _, _ => "bad-request")
  | ["Y", n, a, bb, c] =>
    (match n.toNat? with
     | some n =>
       let part (x : String) : Bytes := if x = "_" then [] else x.toUTF8.toList
       let expr : Bytes := [0x5B] ++ part a ++ [0x3A] ++ part bb ++ (if c = "_" then [] else 0x3A :: part c) ++ [0x5D]
       let doc : Val F64v := .arr ((List.range n).map (fun i => .num (NumOps.ofNat i)))
       showVal (search cfg expr doc)
     | none => "bad-request")
  | ["X", mode, e, inp] =>
    (match unhex e, unhex inp with
     | some e, some inp =>
       let r : Cli.Result :=
         if mode = "s" then Cli.run (N := F64v) cfg [e] (.stdin inp)
         else if mode = "f" then Cli.run (N := F64v) cfg [e] (.file (some inp))
         else if mode = "m" then Cli.run (N := F64v) cfg [e] (.file none)
         else if mode = "a0" then Cli.run (N := F64v) cfg [] (.stdin inp)
         else Cli.run (N := F64v) cfg [e, e] (.stdin inp)
       "exit " ++ toString r.exit ++ " " ++ hexField r.stdout
     | _, _ => "bad-request")
  | _ => "bad-request"

partial def loop (cfg : Api.Config) (h : IO.FS.Stream) (out : IO.FS.Stream) : IO Unit := do
  let line ← h.getLine
  if line.isEmpty then return ()
  out.putStrLn (handle cfg (line.trimAscii.toString))
  out.flush
  loop cfg h out

/-- `driver` runs the model with the regenerated facts; `driver --spec` with
    the specification's own tables. -/
def main (args : List String) : IO Unit := do
  let out ← IO.getStdout
  let cfg := if args.contains "--spec" then specCfg else Model.cfg
  loop cfg (← IO.getStdin) out
  out.flush
