/-
  Driver.Main — one request per line on stdin, one answer per line on stdout.
  Compiled core-only (`lake build driver`).  See harness/PROTOCOL.md.
-/
import Jmes.Parser
import Jmes.Interp
import Driver.Codec
open Jmes Jmes.Codec

def showErr : Err → String
  | .syntax off => "errsyn " ++ toString off
  | .other _ => "err"

def showRes {α} (f : α → String) : Res α → String
  | .ok a => "ok " ++ f a
  | .err e => showErr e
  | .panic site => "panic " ++ site

def search (expr : Bytes) (doc : Val F64v) : Res (Val F64v) := do
  let ast ← (Parser.parse expr : Res (Node F64v))
  Interp.eval Generated.functionTable ast doc

def handle (line : String) : String :=
  match (line.splitOn " ").filter (· ≠ "") with
  | ["SU", e, d] | ["S", e, d] =>
    (match unhex e, readCanon d with
     | some expr, some doc => showRes canon (search expr doc)
     | _, _ => "bad-request")
  | ["C", e] =>
    (match unhex e with
     | some expr => showRes dump (Parser.parse expr : Res (Node F64v))
     | none => "bad-request")
  | ["J", t] =>
    (match unhex t with
     | some txt => (match (Json.decode txt : Option (Val F64v)) with | some v => "ok " ++ canon v | none => "err")
     | none => "bad-request")
  | ["E", v] =>
    (match readCanon v with
     | some v => "ok " ++ hexField (Json.encode v)
     | none => "bad-request")
  | ["I", v] =>
    (match readCanon v with
     | some v => "ok " ++ hexField (Json.encodeIndent 0 v)
     | none => "bad-request")
  | _ => "bad-request"

partial def loop (h : IO.FS.Stream) (out : IO.FS.Stream) : IO Unit := do
  let line ← h.getLine
  if line.isEmpty then return ()
  out.putStrLn (handle (line.trimAscii.toString))
  out.flush
  loop h out

def main : IO Unit := do
  let out ← IO.getStdout
  loop (← IO.getStdin) out
  out.flush
