/-
  Driver.Codec — the line protocol's text forms: hex bytes, canonical values
  (same rendering as VerifCanon in /repo/verif_hooks.go), AST s-expressions
  (same rendering as VerifDumpAST).
-/
import Jmes.Ast
import Jmes.Typed
import Driver.Num64
namespace Jmes.Codec

def hexDigit (n : Nat) : Char := if n < 10 then Char.ofNat (48 + n) else Char.ofNat (87 + n)

def hexOf (bs : Bytes) : String :=
  String.ofList (bs.flatMap (fun c => [hexDigit (c.toNat / 16), hexDigit (c.toNat % 16)]))

def hexVal (c : Char) : Option Nat :=
  if '0' ≤ c ∧ c ≤ '9' then some (c.toNat - 48)
  else if 'a' ≤ c ∧ c ≤ 'f' then some (c.toNat - 87)
  else if 'A' ≤ c ∧ c ≤ 'F' then some (c.toNat - 55)
  else none

def unhexChars : List Char → Option Bytes
  | [] => some []
  | a :: c :: rest =>
    match hexVal a, hexVal c, unhexChars rest with
    | some x, some y, some r => some ((x * 16 + y).toUInt8 :: r)
    | _, _, _ => none
  | _ => none

/-- "-" encodes the empty byte string (so that fields are never empty). -/
def unhex (s : String) : Option Bytes := if s = "-" then some [] else unhexChars s.toList
def hexField (bs : Bytes) : String := if bs.isEmpty then "-" else hexOf bs

def natToHex (n : Nat) : String :=
  if n = 0 then "0" else
  let rec go (fuel n : Nat) (acc : List Char) : List Char :=
    match fuel with
    | 0 => acc
    | fuel + 1 => if n = 0 then acc else go fuel (n / 16) (hexDigit (n % 16) :: acc)
  String.ofList (go 17 n [])

mutual
def canon : Val F64v → String
  | .null => "null"
  | .bool true => "true"
  | .bool false => "false"
  | .num n => "n" ++ natToHex n.bits.toNat
  | .str s => "s" ++ hexOf s
  | .arr xs => "[" ++ ",".intercalate (canonList xs) ++ "]"
  | .obj kvs => "{" ++ ",".intercalate (canonKVs kvs) ++ "}"
def canonList : List (Val F64v) → List String
  | [] => []
  | x :: xs => canon x :: canonList xs
def canonKVs : List (Bytes × Val F64v) → List String
  | [] => []
  | (k, x) :: xs => ("s" ++ hexOf k ++ ":" ++ canon x) :: canonKVs xs
end

/-! Parsing the canonical form (documents are sent in it). -/

def takeHex : List Char → List Char × List Char
  | c :: rest => if (hexVal c).isSome then let (h, r) := takeHex rest; (c :: h, r) else ([], c :: rest)
  | [] => ([], [])

def hexToNat (cs : List Char) : Nat := cs.foldl (fun a c => a * 16 + (hexVal c).getD 0) 0

mutual
def parseCanon : Nat → List Char → Option (Val F64v × List Char)
  | 0, _ => none
  | fuel + 1, cs =>
    match cs with
    | 'n' :: 'u' :: 'l' :: 'l' :: r => some (.null, r)
    | 't' :: 'r' :: 'u' :: 'e' :: r => some (.bool true, r)
    | 'f' :: 'a' :: 'l' :: 's' :: 'e' :: r => some (.bool false, r)
    | 'n' :: r => let (h, r') := takeHex r; some (.num ⟨(hexToNat h).toUInt64⟩, r')
    | 's' :: r => let (h, r') := takeHex r; (unhexChars h).map (fun bs => (.str bs, r'))
    | '[' :: ']' :: r => some (.arr [], r)
    | '[' :: r => (parseCanonList fuel r).map (fun (xs, r') => (.arr xs, r'))
    | '{' :: '}' :: r => some (.obj [], r)
    | '{' :: r => (parseCanonKVs fuel r).map (fun (kvs, r') => (.obj kvs, r'))
    | _ => none
def parseCanonList : Nat → List Char → Option (List (Val F64v) × List Char)
  | 0, _ => none
  | fuel + 1, cs =>
    match parseCanon fuel cs with
    | some (v, ',' :: r) => (parseCanonList fuel r).map (fun (vs, r') => (v :: vs, r'))
    | some (v, ']' :: r) => some ([v], r)
    | _ => none
def parseCanonKVs : Nat → List Char → Option (List (Bytes × Val F64v) × List Char)
  | 0, _ => none
  | fuel + 1, cs =>
    match cs with
    | 's' :: r =>
      let (h, r1) := takeHex r
      match unhexChars h, r1 with
      | some k, ':' :: r2 =>
        (match parseCanon fuel r2 with
         | some (v, ',' :: r3) => (parseCanonKVs fuel r3).map (fun (kvs, r') => (Val.insert k v kvs, r'))
         | some (v, '}' :: r3) => some ([(k, v)], r3)
         | _ => none)
      | _, _ => none
    | _ => none
end

/-! Typed documents (C18): the canonical form extended with `S{name:v,…}` (struct,
    fields in declaration order), `P0` (nil pointer), `P<v>` (pointer), `L[…]` (typed slice). -/

open Jmes.Typed in
mutual
def parseTyped : Nat → List Char → Option (TVal F64v × List Char)
  | 0, _ => none
  | fuel + 1, cs =>
    match cs with
    | 'n' :: 'u' :: 'l' :: 'l' :: r => some (.null, r)
    | 't' :: 'r' :: 'u' :: 'e' :: r => some (.bool true, r)
    | 'f' :: 'a' :: 'l' :: 's' :: 'e' :: r => some (.bool false, r)
    | 'n' :: r => let (h, r') := takeHex r; some (.num ⟨(hexToNat h).toUInt64⟩, r')
    | 's' :: r => let (h, r') := takeHex r; (unhexChars h).map (fun bs => (.str bs, r'))
    | '[' :: ']' :: r => some (.arr [], r)
    | '[' :: r => (parseTypedList fuel r).map (fun (xs, r') => (.arr xs, r'))
    | 'L' :: '[' :: ']' :: r => some (.slice [], r)
    | 'L' :: '[' :: r => (parseTypedList fuel r).map (fun (xs, r') => (.slice xs, r'))
    | '{' :: '}' :: r => some (.obj [], r)
    | '{' :: r => (parseTypedKVs fuel true r).map (fun (kvs, r') => (.obj kvs, r'))
    | 'S' :: '{' :: '}' :: r => some (.struct [], r)
    | 'S' :: '{' :: r => (parseTypedKVs fuel false r).map (fun (kvs, r') => (.struct kvs, r'))
    | 'P' :: '0' :: r => some (.nilptr, r)
    | 'P' :: r => (parseTyped fuel r).map (fun (v, r') => (.ptr v, r'))
    | _ => none
def parseTypedList : Nat → List Char → Option (List (TVal F64v) × List Char)
  | 0, _ => none
  | fuel + 1, cs =>
    match parseTyped fuel cs with
    | some (v, ',' :: r) => (parseTypedList fuel r).map (fun (vs, r') => (v :: vs, r'))
    | some (v, ']' :: r) => some ([v], r)
    | _ => none
def parseTypedKVs : Nat → Bool → List Char → Option (List (Bytes × TVal F64v) × List Char)
  | 0, _, _ => none
  | fuel + 1, sorted, cs =>
    match cs with
    | 's' :: r =>
      let (h, r1) := takeHex r
      match unhexChars h, r1 with
      | some k, ':' :: r2 =>
        (match parseTyped fuel r2 with
         | some (v, ',' :: r3) =>
           (parseTypedKVs fuel sorted r3).map (fun (kvs, r') => ((if sorted then insertT k v kvs else (k, v) :: kvs), r'))
         | some (v, '}' :: r3) => some ([(k, v)], r3)
         | _ => none)
      | _, _ => none
    | _ => none
end

def readTyped (s : String) : Option (Typed.TVal F64v) :=
  match parseTyped (s.length + 1) s.toList with
  | some (v, []) => some v
  | _ => none

/-- `unicode.ToUpper` on the first rune, for ASCII, the Latin-1 supplement and the four Latin digraphs
    (what the typed stream's field names need; the library function itself is
    not modelled). -/
def capFirst : Bytes → Bytes
  | c :: rest =>
    if 0x61 ≤ c ∧ c ≤ 0x7A then (c - 0x20) :: rest
    else match c, rest with
      | 0xC3, d :: rest' => if 0xA0 ≤ d ∧ d ≤ 0xBE ∧ d ≠ 0xB7 then 0xC3 :: (d - 0x20) :: rest' else c :: rest
      -- the Latin digraphs ǆ ǉ ǌ ǳ and their title-case forms ǅ ǈ ǋ ǲ: upper case Ǆ Ǉ Ǌ Ǳ (≠ title case)
      | 0xC7, d :: rest' =>
        if d = 0x86 ∨ d = 0x85 then 0xC7 :: 0x84 :: rest'
        else if d = 0x89 ∨ d = 0x88 then 0xC7 :: 0x87 :: rest'
        else if d = 0x8C ∨ d = 0x8B then 0xC7 :: 0x8A :: rest'
        else if d = 0xB3 ∨ d = 0xB2 then 0xC7 :: 0xB1 :: rest'
        else c :: rest
      | _, _ => c :: rest
  | [] => []

def readCanon (s : String) : Option (Val F64v) :=
  match parseCanon (s.length + 1) s.toList with
  | some (v, []) => some v
  | _ => none

def cmpName : Cmp → String
  | .eq => "EQ" | .ne => "NE" | .lt => "LT" | .lte => "LTE" | .gt => "GT" | .gte => "GTE"

def optInt : Option Int → String
  | none => "_"
  | some i => toString i

mutual
def dump : Node F64v → String
  | .empty => "(Empty)"
  | .cmp op l r => "(Comparator " ++ cmpName op ++ " " ++ dump l ++ " " ++ dump r ++ ")"
  | .current => "(CurrentNode)"
  | .identity => "(Identity)"
  | .call name args => "(FunctionExpression s" ++ hexOf name ++ dumpArgs args ++ ")"
  | .field name => "(Field s" ++ hexOf name ++ ")"
  | .filterProj l r c => "(FilterProjection " ++ dump l ++ " " ++ dump r ++ " " ++ dump c ++ ")"
  | .flatten e => "(Flatten " ++ dump e ++ ")"
  | .index i => "(Index " ++ toString i ++ ")"
  | .indexExpr l r => "(IndexExpression " ++ dump l ++ " " ++ dump r ++ ")"
  | .literal v => "(Literal " ++ canon v ++ ")"
  | .msHash kvs => "(MultiSelectHash" ++ dumpKVs kvs ++ ")"
  | .msList xs => "(MultiSelectList" ++ dumpList xs ++ ")"
  | .or l r => "(OrExpression " ++ dump l ++ " " ++ dump r ++ ")"
  | .and l r => "(AndExpression " ++ dump l ++ " " ++ dump r ++ ")"
  | .not e => "(NotExpression " ++ dump e ++ ")"
  | .pipe l r => "(Pipe " ++ dump l ++ " " ++ dump r ++ ")"
  | .proj l r => "(Projection " ++ dump l ++ " " ++ dump r ++ ")"
  | .sub l r => "(Subexpression " ++ dump l ++ " " ++ dump r ++ ")"
  | .slice a b c => "(Slice " ++ optInt a ++ " " ++ optInt b ++ " " ++ optInt c ++ ")"
  | .valueProj l r => "(ValueProjection " ++ dump l ++ " " ++ dump r ++ ")"
def dumpList : List (Node F64v) → String
  | [] => ""
  | x :: xs => " " ++ dump x ++ dumpList xs
def dumpKVs : List (Bytes × Node F64v) → String
  | [] => ""
  | (k, x) :: xs => " (KeyValPair s" ++ hexOf k ++ " " ++ dump x ++ ")" ++ dumpKVs xs
def dumpArgs : List (Bool × Node F64v) → String
  | [] => ""
  | (true, x) :: xs => " (ExpRef " ++ dump x ++ ")" ++ dumpArgs xs
  | (false, x) :: xs => " " ++ dump x ++ dumpArgs xs
end

end Jmes.Codec
