/-
  Jmes.F64 -- exact, core-only (no Mathlib, no `Float`) ports of two Go
  standard-library behaviours on IEEE-754 binary64 values, represented by
  their bit patterns (`UInt64`):

  * `parse  : List UInt8 → Option UInt64`  ==  `strconv.ParseFloat(string(s), 64)`
      (`some (math.Float64bits f)` when `err == nil`, `none` on any error).
  * `format : UInt64 → List UInt8`         ==  the text `encoding/json` writes
      for a finite float64 (ES6-style: `'f'` shortest, `'e'` shortest when
      `abs < 1e-6 || abs >= 1e21`, exponent clean-up `e-09 → e-9`); for
      NaN / ±Inf the bytes of "NaN", "+Inf", "-Inf".

  Everything is computed with exact `Nat`/`Int` arithmetic.  The file was
  validated differentially against go1.23 (see tools/f64test).

  Faithfulness notes (all deliberately reproduce Go 1.23 behaviour):
  * underscores are accepted wherever `strconv.underscoreOK` accepts them
    (so "1_000" parses, "1__0" / "_1" / "1_" do not);
  * "nan" takes no sign ("+nan"/"-nan" are syntax errors), "inf"/"infinity"
    take an optional sign; all case-insensitive;
  * a decimal exponent is accumulated with Go's saturation (`if e < 10000`);
  * only the first 800 significant decimal digits are kept, later non-zero
    digits act as a sticky marker (this never changes the correctly rounded
    result);
  * Go bug compatibility: when more than 800 significant digits precede the
    decimal point, Go's slow path (`decimal.set`) misplaces the decimal point
    (it records `dp = 800`).  Go only reaches the slow path when the
    Eisel-Lemire fast path fails, so for such inputs we run a bit-exact port
    of `eiselLemire64` and fall back to the (mis-scaled) slow-path value
    exactly as Go does.
  * hexadecimal mantissas keep 16 hex digits plus a sticky bit and are rounded
    by a direct port of `atofHex`.
-/

namespace Jmes.F64

/-! ## Bit-level helpers -/

def signMask : UInt64 := 0x8000000000000000
def expMask  : UInt64 := 0x7FF0000000000000
def fracMask : UInt64 := 0x000FFFFFFFFFFFFF

def posInfBits : UInt64 := 0x7FF0000000000000
def negInfBits : UInt64 := 0xFFF0000000000000
/-- `math.Float64bits(math.NaN())` in Go. -/
def nanBits    : UInt64 := 0x7FF8000000000001

def isFinite (bits : UInt64) : Bool := (bits &&& expMask) != expMask
def isNaN (bits : UInt64) : Bool := (bits &&& expMask) == expMask && (bits &&& fracMask) != 0
def isInf (bits : UInt64) : Bool := (bits &&& expMask) == expMask && (bits &&& fracMask) == 0
def isNeg (bits : UInt64) : Bool := (bits &&& signMask) != 0

def two52 : Nat := 4503599627370496
def two53 : Nat := 9007199254740992
def two64 : Nat := 18446744073709551616

/-! ## Correct rounding of a positive rational to binary64 -/

/-- Correctly rounded (round-half-even) binary64 bit pattern, without sign, of
the positive rational `num / den` (`num > 0`, `den > 0`).  `none` means the
rounded value overflows to infinity. -/
def roundRat (num den : Nat) : Option Nat :=
  let ln : Int := Int.ofNat num.log2
  let ld : Int := Int.ofNat den.log2
  let e0 : Int := ln - ld
  -- 2^(e0-1) < num/den < 2^(e0+1); decide which binade
  let ge : Bool :=
    if e0 ≥ 0 then decide (num ≥ den <<< e0.toNat) else decide (num <<< (-e0).toNat ≥ den)
  let ex : Int := if ge then e0 else e0 - 1
  -- exponent of the unit in the last place, clamped for subnormals
  let qe : Int := if ex - 52 < -1074 then -1074 else ex - 52
  let n' : Nat := if qe ≥ 0 then num else num <<< (-qe).toNat
  let d' : Nat := if qe ≥ 0 then den <<< qe.toNat else den
  let q0 := n' / d'
  let r := n' % d'
  let q1 := if 2 * r > d' || (2 * r == d' && q0 % 2 == 1) then q0 + 1 else q0
  let q := if q1 == two53 then two52 else q1
  let qe := if q1 == two53 then qe + 1 else qe
  if q < two52 then some q            -- subnormal (or zero)
  else
    let biased : Int := qe + 1075
    if biased ≥ 2047 then none
    else some (biased.toNat <<< 52 + (q - two52))

/-- `sign | magnitude` assembly. -/
def withSign (neg : Bool) (mag : Nat) : UInt64 :=
  let b := mag.toUInt64
  if neg then b ||| signMask else b

/-! ## Lexical helpers (ports of `lower`, `underscoreOK`, `special`) -/

/-- Go's `lower(c) = c | ('x' - 'X')`. -/
@[inline] def lower (c : UInt8) : UInt8 := c ||| 0x20
@[inline] def isDigit (c : UInt8) : Bool := decide (0x30 ≤ c) && decide (c ≤ 0x39)
@[inline] def isHexLetter (c : UInt8) : Bool := decide (0x61 ≤ lower c) && decide (lower c ≤ 0x66)
/-- ASCII lower-casing of 'A'..'Z' only (as in `commonPrefixLenIgnoreCase`). -/
@[inline] def lowerAZ (c : UInt8) : UInt8 :=
  if decide (0x41 ≤ c) && decide (c ≤ 0x5A) then c + 0x20 else c

/-- `s`, case-folded, equals the (lower-case) `pat`. -/
def eqIgnoreCase : List UInt8 → List UInt8 → Bool
  | [], [] => true
  | c :: cs, p :: ps => lowerAZ c == p && eqIgnoreCase cs ps
  | _, _ => false

def strInf : List UInt8 := [0x69, 0x6E, 0x66]
def strInfinity : List UInt8 := [0x69, 0x6E, 0x66, 0x69, 0x6E, 0x69, 0x74, 0x79]
def strNan : List UInt8 := [0x6E, 0x61, 0x6E]

/-- State of `underscoreOK`: last character class seen. -/
inductive Saw where
  | start | digit | underscore | other
  deriving BEq

def underscoreLoop (hex : Bool) : Saw → List UInt8 → Bool
  | saw, [] => saw != Saw.underscore
  | saw, c :: cs =>
    if isDigit c || (hex && isHexLetter c) then underscoreLoop hex Saw.digit cs
    else if c == 0x5F then
      if saw != Saw.digit then false else underscoreLoop hex Saw.underscore cs
    else if saw == Saw.underscore then false
    else underscoreLoop hex Saw.other cs

/-- Port of `strconv.underscoreOK`. -/
def underscoreOK (s : List UInt8) : Bool :=
  let s := match s with
    | 0x2D :: r => r
    | 0x2B :: r => r
    | _ => s
  match s with
  | 0x30 :: c :: r =>
    let l := lower c
    if l == 0x62 || l == 0x6F || l == 0x78 then underscoreLoop (l == 0x78) Saw.digit r
    else underscoreLoop false Saw.start s
  | _ => underscoreLoop false Saw.start s

/-! ## Port of `readFloat` (and, in parallel, of `decimal.set`) -/

/-- Number of decimal digits Go's `decimal` keeps. -/
def maxBigDigits : Nat := 800

structure Mant where
  sawdot : Bool := false
  sawdigits : Bool := false
  underscores : Bool := false
  /-- `readFloat`: number of significant digits seen (leading zeros skipped) -/
  nd : Nat := 0
  /-- `readFloat`: digits accumulated into `mant` (≤ 19 decimal / 16 hex) -/
  ndMant : Nat := 0
  mant : Nat := 0
  trunc : Bool := false
  /-- `readFloat`: decimal point position -/
  dp : Int := 0
  /-- `decimal.set`: first ≤ 800 significant digits as a number -/
  big : Nat := 0
  bnd : Nat := 0
  btrunc : Bool := false
  /-- `decimal.set`: decimal point position (wrong in Go when > 800 digits precede the point) -/
  bdp : Int := 0

/-- The mantissa loop of `readFloat`; stops at the first byte that is not part
of the mantissa and returns the remaining input. -/
def scanMant (hex : Bool) : Mant → List UInt8 → Mant × List UInt8
  | st, [] => (st, [])
  | st, c :: cs =>
    if c == 0x5F then scanMant hex { st with underscores := true } cs
    else if c == 0x2E then
      if st.sawdot then (st, c :: cs)
      else scanMant hex { st with sawdot := true, dp := Int.ofNat st.nd, bdp := Int.ofNat st.bnd } cs
    else if isDigit c then
      if c == 0x30 && st.nd == 0 then
        scanMant hex { st with sawdigits := true, dp := st.dp - 1, bdp := st.bdp - 1 } cs
      else
        let d := (c - 0x30).toNat
        let st := { st with sawdigits := true, nd := st.nd + 1 }
        let st :=
          if hex then
            if st.ndMant < 16 then { st with mant := st.mant * 16 + d, ndMant := st.ndMant + 1 }
            else if c != 0x30 then { st with trunc := true } else st
          else
            let st :=
              if st.ndMant < 19 then { st with mant := st.mant * 10 + d, ndMant := st.ndMant + 1 }
              else if c != 0x30 then { st with trunc := true } else st
            if st.bnd < maxBigDigits then { st with big := st.big * 10 + d, bnd := st.bnd + 1 }
            else if c != 0x30 then { st with btrunc := true } else st
        scanMant hex st cs
    else if hex && isHexLetter c then
      let d := (lower c - 0x61).toNat + 10
      let st := { st with sawdigits := true, nd := st.nd + 1 }
      let st :=
        if st.ndMant < 16 then { st with mant := st.mant * 16 + d, ndMant := st.ndMant + 1 }
        else { st with trunc := true }
      scanMant hex st cs
    else (st, c :: cs)

/-- Exponent digit loop: digits and underscores; the value saturates as in Go
(`if e < 10000 { e = e*10 + digit }`). -/
def scanExp : Nat → Bool → List UInt8 → Nat × Bool × List UInt8
  | e, us, [] => (e, us, [])
  | e, us, c :: cs =>
    if c == 0x5F then scanExp e true cs
    else if isDigit c then
      scanExp (if e < 10000 then e * 10 + (c - 0x30).toNat else e) us cs
    else (e, us, c :: cs)

/-! ## Port of `eiselLemire64` -/

/-- `detailedPowersOfTen[q + 348]` as one 128-bit number: the 128-bit mantissa
of `10^q`, rounded down. -/
def pow10Mant128 (q : Int) : Nat :=
  if q ≥ 0 then
    let p := 10 ^ q.toNat
    let bl := p.log2 + 1
    if bl ≤ 128 then p <<< (128 - bl) else p >>> (bl - 128)
  else
    let p := 10 ^ (-q).toNat
    let bl := p.log2 + 1
    (1 <<< (127 + bl)) / p

/-- Bit-exact port of `eiselLemire64` (without the sign); `none` = "not ok".
`man` must be non-zero and `< 2^64`. -/
def eiselLemire64 (man : Nat) (exp10 : Int) : Option Nat :=
  if exp10 < -348 || 347 < exp10 then none else
  let clz := 63 - man.log2
  let man := man <<< clz
  let retExp2 : Int := ((217706 * exp10) >>> 16) + 64 + 1023 - Int.ofNat clz
  let pw := pow10Mant128 exp10
  let pwHi := pw >>> 64
  let pwLo := pw % two64
  let x := man * pwHi
  let xHi := x >>> 64
  let xLo := x % two64
  -- Wider approximation.
  let wide : Option (Nat × Nat) :=
    if xHi % 512 == 511 && xLo + man ≥ two64 then
      let y := man * pwLo
      let yHi := y >>> 64
      let yLo := y % two64
      let mergedLo := (xLo + yHi) % two64
      let mergedHi := if mergedLo < xLo then (xHi + 1) % two64 else xHi
      if mergedHi % 512 == 511 && mergedLo + 1 == two64 && yLo + man ≥ two64 then none
      else some (mergedHi, mergedLo)
    else some (xHi, xLo)
  match wide with
  | none => none
  | some (xHi, xLo) =>
    let msb := xHi >>> 63
    let retMantissa := xHi >>> (msb + 9)
    let retExp2 := retExp2 - (if msb == 0 then 1 else 0)
    if xLo == 0 && xHi % 512 == 0 && retMantissa % 4 == 1 then none else
    let retMantissa := (retMantissa + retMantissa % 2) >>> 1
    let carry := retMantissa >>> 53 > 0
    let retMantissa := if carry then retMantissa >>> 1 else retMantissa
    let retExp2 := if carry then retExp2 + 1 else retExp2
    if retExp2 ≤ 0 || retExp2 ≥ 0x7FF then none
    else some (retExp2.toNat <<< 52 + retMantissa % two52)

/-! ## Port of `atofHex` -/

/-- `for mantissa != 0 && mantissa>>54 == 0 { mantissa <<= 1; exp-- }` -/
def hexNormUp : Nat → Nat → Int → Nat × Int
  | 0, m, e => (m, e)
  | f + 1, m, e => if m != 0 && m >>> 54 == 0 then hexNormUp f (m <<< 1) (e - 1) else (m, e)

/-- `for mantissa>>55 != 0 { mantissa = mantissa>>1 | mantissa&1; exp++ }` -/
def hexNormDown : Nat → Nat → Int → Nat × Int
  | 0, m, e => (m, e)
  | f + 1, m, e =>
    if m >>> 55 != 0 then hexNormDown f ((m >>> 1) ||| (m % 2)) (e + 1) else (m, e)

/-- `for mantissa > 1 && exp < minExp-2 { mantissa = mantissa>>1 | mantissa&1; exp++ }` -/
def hexDenorm : Nat → Nat → Int → Nat × Int
  | 0, m, e => (m, e)
  | f + 1, m, e =>
    if m > 1 && e < -1022 - 2 then hexDenorm f ((m >>> 1) ||| (m % 2)) (e + 1) else (m, e)

/-- Port of `atofHex` for float64 (without the sign); `none` = range error. -/
def atofHex (mantissa : Nat) (exp : Int) (trunc : Bool) : Option Nat :=
  let maxExp : Int := 1023
  let exp := exp + 52
  let (mantissa, exp) := hexNormUp 64 mantissa exp
  let mantissa := if trunc then mantissa ||| 1 else mantissa
  let (mantissa, exp) := hexNormDown 64 mantissa exp
  let (mantissa, exp) := hexDenorm 64 mantissa exp
  let round := mantissa % 4
  let mantissa := mantissa >>> 2
  let round := round ||| (mantissa % 2)
  let exp := exp + 2
  let up := round == 3
  let mantissa1 := if up then mantissa + 1 else mantissa
  let wrapped := up && mantissa1 == two53
  let mantissa := if wrapped then mantissa1 >>> 1 else mantissa1
  let exp := if wrapped then exp + 1 else exp
  let exp := if mantissa >>> 52 == 0 then -1023 else exp
  if exp > maxExp then none
  else some (mantissa % two52 + ((exp + 1023).toNat % 2048) <<< 52)

/-! ## Decimal slow path (`decimal.floatBits`) -/

/-- Correctly rounded value of `0.d₁d₂…dₙ × 10^dp` (plus a sticky marker when
`trunc`), where `big = d₁…dₙ` and `n = bnd`; includes Go's early range
checks.  `none` = overflow (range error). -/
def decimalToBits (big bnd : Nat) (btrunc : Bool) (dp : Int) : Option Nat :=
  if big == 0 then some 0
  else if dp > 310 then none
  else if dp < -330 then some 0
  else
    let d := if btrunc then big * 10 + 1 else big
    let n := if btrunc then bnd + 1 else bnd
    let e10 : Int := dp - Int.ofNat n
    if e10 ≥ 0 then roundRat (d * 10 ^ e10.toNat) 1
    else roundRat d (10 ^ (-e10).toNat)

/-! ## `parse` -/

/-- The part of `ParseFloat` after `special` failed: `readFloat` + conversion. -/
def parseNumber (s : List UInt8) : Option UInt64 :=
  -- optional sign
  let (neg, r0) := match s with
    | 0x2B :: r => (false, r)
    | 0x2D :: r => (true, r)
    | _ => (false, s)
  -- base prefix: needs at least one more byte after "0x"
  let (hex, r1) := match r0 with
    | 0x30 :: x :: c :: r => if lower x == 0x78 then (true, c :: r) else (false, r0)
    | _ => (false, r0)
  let (st, r2) := scanMant hex {} r1
  if !st.sawdigits then none else
  let st := if st.sawdot then st else { st with dp := Int.ofNat st.nd, bdp := Int.ofNat st.bnd }
  let st := if hex then { st with dp := st.dp * 4, ndMant := st.ndMant * 4 } else st
  let expChar : UInt8 := if hex then 0x70 else 0x65
  -- optional (mandatory for hex) exponent
  let expRes : Option (Int × Bool × List UInt8) :=
    match r2 with
    | c :: r3 =>
      if lower c == expChar then
        match r3 with
        | [] => none
        | _ =>
          let (esign, r4) : Int × List UInt8 := match r3 with
            | 0x2B :: r => (1, r)
            | 0x2D :: r => (-1, r)
            | _ => (1, r3)
          match r4 with
          | d :: _ =>
            if isDigit d then
              let (e, us, r5) := scanExp 0 false r4
              some (Int.ofNat e * esign, us, r5)
            else none
          | [] => none
      else if hex then none else some (0, false, r2)
    | [] => if hex then none else some (0, false, [])
  match expRes with
  | none => none
  | some (e, us, rest) =>
    -- the whole input must have been consumed
    if !rest.isEmpty then none else
    if (st.underscores || us) && !underscoreOK s then none else
    let dp := st.dp + e
    let bdp := st.bdp + e
    let exp : Int := if st.mant != 0 then dp - Int.ofNat st.ndMant else 0
    if hex then
      (atofHex st.mant exp st.trunc).map (withSign neg)
    else if st.mant == 0 then
      some (withSign neg 0)
    else if dp == bdp then
      -- Every path Go can take yields the correctly rounded value.
      (decimalToBits st.big st.bnd st.btrunc bdp).map (withSign neg)
    else
      -- More than 800 digits before the decimal point: Go's slow path is
      -- mis-scaled, so which path Go takes matters.  (atof64exact never
      -- applies: the 19-digit mantissa exceeds 2^53.)
      let fast : Option Nat :=
        match eiselLemire64 st.mant exp with
        | none => none
        | some f =>
          if !st.trunc then some f
          else
            match eiselLemire64 (st.mant + 1) exp with
            | some fUp => if f == fUp then some f else none
            | none => none
      match fast with
      | some f => some (withSign neg f)
      | none => (decimalToBits st.big st.bnd st.btrunc bdp).map (withSign neg)

/-- `strconv.ParseFloat(string(s), 64)`: `some (math.Float64bits f)` when
`err == nil`, `none` when Go reports a syntax or range error. -/
def parse (s : List UInt8) : Option UInt64 :=
  let (neg, rest) := match s with
    | 0x2B :: r => (false, r)
    | 0x2D :: r => (true, r)
    | _ => (false, s)
  if eqIgnoreCase rest strInf || eqIgnoreCase rest strInfinity then
    some (if neg then negInfBits else posInfBits)
  else if eqIgnoreCase s strNan then some nanBits
  else parseNumber s

/-! ## Shortest round-trip digits -/

/-- Repeatedly divide the admissible interval `[l, u]` by ten (`l` rounded up,
`u` rounded down) while it still contains an integer. Returns the final
`(l, u, k)` with `k` the number of divisions performed. -/
def trimLoop : Nat → Nat → Nat → Nat → Nat × Nat × Nat
  | 0, l, u, k => (l, u, k)
  | f + 1, l, u, k =>
    let l' := (l + 9) / 10
    let u' := u / 10
    if l' > u' then (l, u, k) else trimLoop f l' u' (k + 1)

/-- Strip trailing decimal zeros from `n`, counting them. -/
def stripZeros : Nat → Nat → Nat → Nat × Nat
  | 0, n, t => (n, t)
  | f + 1, n, t => if n != 0 && n % 10 == 0 then stripZeros f (n / 10) (t + 1) else (n, t)

/-- Shortest decimal `n × 10^e10` (with `n` not divisible by ten) that rounds
to the double `m × 2^e`, where `m ≠ 0` is the integer significand (including
the implicit bit) and `irregular` says that the lower neighbour is only half
as far away as the upper one (`m = 2^52` and not the minimum exponent).
Among the shortest candidates the one closest to the exact value is chosen,
ties to even -- exactly the choice made by Go's `ryuFtoaShortest`. -/
def shortest (m : Nat) (e : Int) (irregular : Bool) : Nat × Int :=
  let lo0 := if irregular then 4 * m - 1 else 2 * m - 1
  let c0 := if irregular then 4 * m else 2 * m
  let hi0 := if irregular then 4 * m + 2 else 2 * m + 1
  let e2 : Int := if irregular then e - 2 else e - 1
  -- scale by 10^q so that all three bounds are integers
  let q : Nat := if e2 ≥ 0 then 0 else (-e2).toNat
  let scale : Nat := if e2 ≥ 0 then 1 <<< e2.toNat else 5 ^ q
  let lo := lo0 * scale
  let c := c0 * scale
  let hi := hi0 * scale
  -- bounds are admissible only for even significands
  let inclusive := m % 2 == 0
  let lo := if inclusive then lo else lo + 1
  let hi := if inclusive then hi else hi - 1
  -- skip ahead: the answer has at most 17 digits, `hi` has about log10 digits
  let approxDigits := (hi.log2 * 30103) / 100000
  let k0 := approxDigits - 19
  let p0 := 10 ^ k0
  let l0 := (lo + p0 - 1) / p0
  let u0 := hi / p0
  let (l, u, k) :=
    if l0 ≤ u0 then trimLoop 1200 l0 u0 k0 else trimLoop 1200 lo hi 0
  -- round the centre to a multiple of 10^k, half-even, then clamp into [l, u]
  let p := 10 ^ k
  let cq := c / p
  let cr := c % p
  let cn := if 2 * cr > p || (2 * cr == p && cq % 2 == 1) then cq + 1 else cq
  let cn := if cn < l then l else if cn > u then u else cn
  let (n, t) := stripZeros 400 cn 0
  (n, Int.ofNat k + Int.ofNat t - Int.ofNat q)

/-- Decimal digits (ASCII) of a natural number. -/
def natDigits (n : Nat) : List UInt8 :=
  (Nat.repr n).toList.map (fun ch => ch.toNat.toUInt8)

/-- The shortest digits of a finite non-zero double: `(digits, dp)` such that
the value is `0.d₁d₂… × 10^dp` (Go's `decimalSlice`). For zero: `([], 0)`. -/
def shortestDigits (bits : UInt64) : List UInt8 × Int :=
  let expField := ((bits &&& expMask) >>> 52).toNat
  let frac := (bits &&& fracMask).toNat
  if expField == 0 && frac == 0 then ([], 0) else
  let m := if expField == 0 then frac else frac + two52
  let ef := if expField == 0 then 1 else expField
  let e : Int := Int.ofNat ef - 1075
  let irregular := frac == 0 && expField > 1
  let (n, e10) := shortest m e irregular
  let ds := natDigits n
  (ds, Int.ofNat ds.length + e10)

/-! ## `format` -/

/-- `%e` with shortest digits, as produced by `strconv` followed by the
`encoding/json` exponent clean-up (`e-09` → `e-9`). -/
def fmtE (ds : List UInt8) (dp : Int) : List UInt8 :=
  let first : UInt8 := match ds with
    | [] => 0x30
    | d :: _ => d
  let more := ds.drop 1
  let mant := if more.isEmpty then [first] else first :: 0x2E :: more
  let exp : Int := if ds.isEmpty then 0 else dp - 1
  let expDigits : List UInt8 :=
    if exp < 0 then
      -- json strips the padding zero of a negative two-digit exponent
      0x2D :: natDigits (-exp).toNat
    else
      let a := exp.toNat
      0x2B :: (if a < 10 then 0x30 :: natDigits a else natDigits a)
  mant ++ 0x65 :: expDigits

/-- `%f` with shortest digits (`prec = max(nd - dp, 0)`). -/
def fmtF (ds : List UInt8) (dp : Int) : List UInt8 :=
  let nd := ds.length
  let intPart : List UInt8 :=
    if dp > 0 then
      let dpn := dp.toNat
      ds.take dpn ++ List.replicate (dpn - nd) 0x30
    else [0x30]
  let prec : Nat := (Int.ofNat nd - dp).toNat
  if prec == 0 then intPart
  else
    let fracPart : List UInt8 :=
      if dp ≥ 0 then ds.drop dp.toNat
      else List.replicate (-dp).toNat 0x30 ++ ds
    intPart ++ 0x2E :: fracPart

/-- `math.Float64bits(1e-6)` -/
def bits1eM6 : UInt64 := 0x3EB0C6F7A0B5ED8D
/-- `math.Float64bits(1e21)` -/
def bits1e21 : UInt64 := 0x444B1AE4D6E2EF50

/-- The text `encoding/json` writes for the float64 with the given bits when it
is finite; "NaN", "+Inf", "-Inf" otherwise. -/
def format (bits : UInt64) : List UInt8 :=
  if !isFinite bits then
    if isNaN bits then [0x4E, 0x61, 0x4E]
    else if isNeg bits then [0x2D, 0x49, 0x6E, 0x66]
    else [0x2B, 0x49, 0x6E, 0x66]
  else
    let abs := bits &&& ~~~signMask
    let useE := abs != 0 && (abs < bits1eM6 || abs ≥ bits1e21)
    let (ds, dp) := shortestDigits bits
    let body := if useE then fmtE ds dp else fmtF ds dp
    if isNeg bits then 0x2D :: body else body

end Jmes.F64
