/-
  Proofs.Json — JSON-ness (`Val.isJSON`: object keys strictly ascending, all
  numbers finite) is preserved by the value operations the interpreter and the
  built-in functions use.
-/
import Jmes.Value
import Jmes.Interp
namespace Jmes.Val
variable {N : Type}

theorem bytesLt_trichotomy : ∀ a b : Bytes, bytesLt a b = false → a ≠ b → bytesLt b a = true
  | [], [], _, h => absurd rfl h
  | [], _ :: _, h, _ => by simp [bytesLt] at h
  | _ :: _, [], _, _ => by simp [bytesLt]
  | x :: xs, y :: ys, h, hne => by
    simp only [bytesLt] at h ⊢
    by_cases hxy : x < y
    · simp [hxy] at h
    · by_cases hyx : y < x
      · simp [hyx]
      · have hxe : x = y := by
          have h1 : ¬ x.toNat < y.toNat := by simpa [UInt8.lt_iff_toNat_lt] using hxy
          have h2 : ¬ y.toNat < x.toNat := by simpa [UInt8.lt_iff_toNat_lt] using hyx
          exact UInt8.toNat_inj.mp (by omega)
        subst hxe
        simp only [hxy, if_false] at h ⊢
        exact bytesLt_trichotomy xs ys h (fun e => hne (by rw [e]))

/-- head key of a (non-empty) association list is `> k'`, or the list is empty -/
def headGt (k' : Bytes) : List (Bytes × Val N) → Prop
  | [] => True
  | (k, _) :: _ => bytesLt k' k = true

theorem keysSorted_cons (k : Bytes) (v : Val N) (rest : List (Bytes × Val N)) :
    keysSorted ((k, v) :: rest) = true ↔ headGt k rest ∧ keysSorted rest = true := by
  cases rest with
  | nil => simp [keysSorted, headGt]
  | cons kv r => obtain ⟨k2, v2⟩ := kv; simp [keysSorted, headGt]

theorem insert_headGt (k' k : Bytes) (v : Val N) (l : List (Bytes × Val N)) (h1 : headGt k' l) (h2 : bytesLt k' k = true) :
    headGt k' (insert k v l) := by
  cases l with
  | nil => simpa [insert, headGt] using h2
  | cons kv r =>
    obtain ⟨k2, v2⟩ := kv
    simp only [insert]
    split
    · simpa [headGt] using h2
    · split
      · simpa [headGt] using h2
      · simpa [headGt] using h1

theorem insert_sorted (k : Bytes) (v : Val N) : ∀ l : List (Bytes × Val N), keysSorted l = true → keysSorted (insert k v l) = true
  | [], _ => by simp [insert, keysSorted]
  | (k', v') :: rest, h => by
    rw [keysSorted_cons] at h
    simp only [insert]
    split
    · rename_i hk; subst hk
      rw [keysSorted_cons]; exact h
    · rename_i hne
      split
      · rename_i hlt
        rw [keysSorted_cons]
        exact ⟨by simpa [headGt] using hlt, by rw [keysSorted_cons]; exact h⟩
      · rename_i hnlt
        have hgt : bytesLt k' k = true :=
          bytesLt_trichotomy k k' (by simpa using hnlt) (fun e => hne e.symm)
        rw [keysSorted_cons]
        exact ⟨insert_headGt k' k v rest h.1 hgt, insert_sorted k v rest h.2⟩

/-- Every value in the list satisfies a Bool predicate. -/
def allKV (p : Val N → Bool) : List (Bytes × Val N) → Bool
  | [] => true
  | (_, x) :: xs => p x && allKV p xs

theorem insert_allKV (p : Val N → Bool) (k : Bytes) (v : Val N) (hv : p v = true) :
    ∀ l : List (Bytes × Val N), allKV p l = true → allKV p (insert k v l) = true
  | [], _ => by simp [insert, allKV, hv]
  | (k', v') :: rest, h => by
    simp only [allKV, Bool.and_eq_true] at h
    simp only [insert]
    split
    · simp [allKV, hv, h.2]
    · split
      · simp [allKV, hv, h.1, h.2]
      · simp [allKV, h.1, insert_allKV p k v hv rest h.2]

theorem wfKVs_eq_allKV (l : List (Bytes × Val N)) : wfKVs l = allKV wf l := by
  induction l with
  | nil => rfl
  | cons kv r ih => obtain ⟨k, v⟩ := kv; simp [wfKVs, allKV, ih]

theorem finiteKVs_eq_allKV [NumOps N] (l : List (Bytes × Val N)) : finiteKVs l = allKV finite l := by
  induction l with
  | nil => rfl
  | cons kv r ih => obtain ⟨k, v⟩ := kv; simp [finiteKVs, allKV, ih]

theorem wfList_iff (l : List (Val N)) : wfList l = true ↔ ∀ x ∈ l, wf x = true := by
  induction l with
  | nil => simp [wfList]
  | cons x xs ih => simp [wfList, ih]

theorem finiteList_iff [NumOps N] (l : List (Val N)) : finiteList l = true ↔ ∀ x ∈ l, finite x = true := by
  induction l with
  | nil => simp [finiteList]
  | cons x xs ih => simp [finiteList, ih]

theorem allKV_iff (p : Val N → Bool) (l : List (Bytes × Val N)) : allKV p l = true ↔ ∀ kv ∈ l, p kv.2 = true := by
  induction l with
  | nil => simp [allKV]
  | cons kv r ih => obtain ⟨k, v⟩ := kv; simp [allKV, ih]

variable [NumOps N]

/-- The elements of a JSON array are JSON; a list of JSON values is a JSON array. -/
theorem isJSON_arr (xs : List (Val N)) : (Val.arr xs).isJSON = true ↔ ∀ x ∈ xs, x.isJSON = true := by
  simp only [isJSON, wf, finite, Bool.and_eq_true, wfList_iff, finiteList_iff]
  constructor
  · rintro ⟨h1, h2⟩ x hx; exact ⟨h1 x hx, h2 x hx⟩
  · intro h; exact ⟨fun x hx => (h x hx).1, fun x hx => (h x hx).2⟩

theorem isJSON_obj (kvs : List (Bytes × Val N)) :
    (Val.obj kvs).isJSON = true ↔ keysSorted kvs = true ∧ ∀ kv ∈ kvs, kv.2.isJSON = true := by
  simp only [isJSON, wf, finite, Bool.and_eq_true, wfKVs_eq_allKV, finiteKVs_eq_allKV, allKV_iff]
  constructor
  · rintro ⟨⟨h0, h1⟩, h2⟩; exact ⟨h0, fun kv hkv => ⟨h1 kv hkv, h2 kv hkv⟩⟩
  · rintro ⟨h0, h⟩; exact ⟨⟨h0, fun kv hkv => (h kv hkv).1⟩, fun kv hkv => (h kv hkv).2⟩

theorem isJSON_insert (k : Bytes) (v : Val N) (hv : v.isJSON = true) (kvs : List (Bytes × Val N))
    (h : (Val.obj kvs).isJSON = true) : (Val.obj (insert k v kvs)).isJSON = true := by
  simp only [isJSON, wf, finite, Bool.and_eq_true, wfKVs_eq_allKV, finiteKVs_eq_allKV] at h hv ⊢
  exact ⟨⟨insert_sorted k v kvs h.1.1, insert_allKV wf k v hv.1 kvs h.1.2⟩, insert_allKV finite k v hv.2 kvs h.2⟩

theorem isJSON_foldl_insert (ps : List (Bytes × Val N)) (hps : ∀ kv ∈ ps, kv.2.isJSON = true)
    (acc : List (Bytes × Val N)) (hacc : (Val.obj acc).isJSON = true) :
    (Val.obj (ps.foldl (fun m kv => insert kv.1 kv.2 m) acc)).isJSON = true := by
  induction ps generalizing acc with
  | nil => exact hacc
  | cons kv rest ih =>
    simp only [List.foldl_cons]
    exact ih (fun x hx => hps x (by simp [hx])) _ (isJSON_insert kv.1 kv.2 (hps kv (by simp)) acc hacc)

theorem isJSON_lookup (k : Bytes) (kvs : List (Bytes × Val N)) (h : (Val.obj kvs).isJSON = true) :
    ((lookup k kvs).getD .null).isJSON = true := by
  have := ((isJSON_obj kvs).mp h).2
  induction kvs with
  | nil => rfl
  | cons kv rest ih =>
    obtain ⟨k', v⟩ := kv
    simp only [lookup]
    split
    · exact this (k', v) (by simp)
    · exact ih (by
        rw [isJSON_obj] at h ⊢
        rw [keysSorted_cons] at h
        exact ⟨h.1.2, fun x hx => h.2 x (by simp [hx])⟩) (fun x hx => this x (by simp [hx]))

theorem isJSON_null : (Val.null : Val N).isJSON = true := rfl
theorem isJSON_bool (b : Bool) : (Val.bool b : Val N).isJSON = true := rfl
theorem isJSON_str (s : Bytes) : (Val.str s : Val N).isJSON = true := rfl
theorem isJSON_num (n : N) : (Val.num n).isJSON = true ↔ NumOps.isFinite n = true := by
  simp [isJSON, wf, finite]

end Jmes.Val
