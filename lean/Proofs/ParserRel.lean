/-
  Proofs.ParserRel — a fuel-free, relational description of the parser's
  success paths (`R call out`), and its soundness: whenever `R call out` is
  derivable, the fuel-based function returns `out`, or runs out of fuel —
  nothing else.  Combined with `Proofs.ParserSafe` (the fuel given by `Parse`
  always suffices) this turns a derivation into the parser's actual result.
-/
import Jmes.Parser
namespace Jmes.Parser
variable {N : Type} [NumOps N]

/-- An invocation of one of the mutually recursive parse functions. -/
inductive Call (N : Type) where
  | expr (rbp : Nat) (p : PState)
  | loop (rbp : Nat) (left : Node N) (p : PState)
  | nud (tok : Token) (p : PState)
  | led (ty : TokType) (n : Node N) (p : PState)
  | dot (bp : Nat) (p : PState)
  | msl (p : PState) (acc : List (Node N))
  | msh (p : PState) (acc : List (Bytes × Node N))
  | args (p : PState)
  | prhs (bp : Nat) (p : PState)
  | filter (n : Node N) (p : PState)
  | pis (left right : Node N) (p : PState)

/-- Its result. -/
inductive Out (N : Type) where
  | node (n : Node N) (p : PState)
  | args (as : List (Bool × Node N)) (p : PState)

def toOutN : Res (Node N × PState) → Res (Out N)
  | .ok (n, p) => .ok (.node n p)
  | .err e => .err e
  | .panic s => .panic s

def toOutA : Res (List (Bool × Node N) × PState) → Res (Out N)
  | .ok (a, p) => .ok (.args a p)
  | .err e => .err e
  | .panic s => .panic s

def run (tbl : ParserTable) (fuel : Nat) : Call N → Res (Out N)
  | .expr rbp p => toOutN (parseExpression tbl fuel rbp p)
  | .loop rbp l p => toOutN (ledLoop tbl fuel rbp l p)
  | .nud tok p => toOutN (nud tbl fuel tok p)
  | .led ty n p => toOutN (led tbl fuel ty n p)
  | .dot bp p => toOutN (parseDotRHS tbl fuel bp p)
  | .msl p acc => toOutN (parseMultiSelectList tbl fuel p acc)
  | .msh p acc => toOutN (parseMultiSelectHash tbl fuel p acc)
  | .args p => toOutA (parseArgs tbl fuel p)
  | .prhs bp p => toOutN (parseProjectionRHS tbl fuel bp p)
  | .filter n p => toOutN (parseFilter tbl fuel n p)
  | .pis l r p => toOutN (projectIfSlice tbl fuel l r p)

/-- The success paths of the parser that precedence-aware printing exercises. -/
inductive R (tbl : ParserTable) : Call N → Out N → Prop where
  -- parseExpression: nud on the first token, then the Pratt loop
  | expr {rbp p tok rest left p1 o} : p.after = tok :: rest → R tbl (.nud tok p.advance) (.node left p1) →
      R tbl (.loop rbp left p1) o → R tbl (.expr rbp p) o
  -- the loop
  | stop {rbp left p t rest} : p.after = t :: rest → ¬ rbp < tbl.power t.ty → R tbl (.loop rbp left p) (.node left p)
  | step {rbp left p t rest left' p1 o} : p.after = t :: rest → rbp < tbl.power t.ty →
      R tbl (.led t.ty left p.advance) (.node left' p1) → R tbl (.loop rbp left' p1) o → R tbl (.loop rbp left p) o
  -- prefix forms
  | nudJson {tok p v} : tok.ty = .jsonLiteral → (Json.decode tok.value : Option (Val N)) = some v →
      R tbl (.nud tok p) (.node (.literal v) p)
  | nudRaw {tok p} : tok.ty = .stringLiteral → R tbl (.nud tok p) (.node (.literal (.str tok.value)) p)
  | nudIdent {tok p} : tok.ty = .uident → R tbl (.nud tok p) (.node (.field tok.value) p)
  | nudQuoted {tok p t rest} : tok.ty = .qident → p.after = t :: rest → t.ty ≠ .lparen →
      R tbl (.nud tok p) (.node (.field tok.value) p)
  | nudCurrent {tok p} : tok.ty = .current → R tbl (.nud tok p) (.node .current p)
  | nudNot {tok p e p1} : tok.ty = .not → R tbl (.expr tbl.nudNot p) (.node e p1) → R tbl (.nud tok p) (.node (.not e) p1)
  | nudParen {tok p e p1 t rest} : tok.ty = .lparen → R tbl (.expr tbl.nudParen p) (.node e p1) →
      p1.after = t :: rest → t.ty = .rparen → R tbl (.nud tok p) (.node e p1.advance)
  | nudIndex {tok p n rb rest i} : tok.ty = .lbracket → p.after = n :: rb :: rest → n.ty = .number → rb.ty = .rbracket →
      atoi n.value = some i → R tbl (.nud tok p) (.node (.indexExpr .identity (.index i)) p.advance.advance)
  | nudList {tok p t rest o} : tok.ty = .lbracket → p.after = t :: rest → t.ty ≠ .number → t.ty ≠ .colon → t.ty ≠ .star →
      R tbl (.msl p []) o → R tbl (.nud tok p) o
  | nudHash {tok p o} : tok.ty = .lbrace → R tbl (.msh p []) o → R tbl (.nud tok p) o
  -- infix / postfix forms
  | ledDot {n p t rest r p1} : p.after = t :: rest → t.ty ≠ .star → R tbl (.dot tbl.ledDotSub p) (.node r p1) →
      R tbl (.led .dot n p) (.node (.sub n r) p1)
  | ledPipe {n p r p1} : R tbl (.expr tbl.ledPipe p) (.node r p1) → R tbl (.led .pipe n p) (.node (.pipe n r) p1)
  | ledOr {n p r p1} : R tbl (.expr tbl.ledOr p) (.node r p1) → R tbl (.led .or n p) (.node (.or n r) p1)
  | ledAnd {n p r p1} : R tbl (.expr tbl.ledAnd p) (.node r p1) → R tbl (.led .and n p) (.node (.and n r) p1)
  | ledCmp {ty op n p r p1} : Cmp.ofTok ty = some op → R tbl (.expr ((tbl.ledCmp.lookup ty).getD 0) p) (.node r p1) →
      R tbl (.led ty n p) (.node (.cmp op n r) p1)
  | ledCall0 {name p lp prev more t rest} : p.before = lp :: prev :: more → prev.ty = .uident →
      p.after = t :: rest → t.ty = .rparen → R tbl (.led .lparen (.field name) p) (.node (.call name []) p.advance)
  | ledCall {name p lp prev more t0 rest0 as p1 t rest} : p.before = lp :: prev :: more → prev.ty = .uident →
      p.after = t0 :: rest0 → t0.ty ≠ .rparen → R tbl (.args p) (.args as p1) →
      p1.after = t :: rest → t.ty = .rparen → R tbl (.led .lparen (.field name) p) (.node (.call name as) p1.advance)
  | ledIndex {node p n rb rest i} : p.after = n :: rb :: rest → n.ty = .number → rb.ty = .rbracket →
      atoi n.value = some i → R tbl (.led .lbracket node p) (.node (.indexExpr node (.index i)) p.advance.advance)
  -- the right-hand side of a dot
  | dotIdent {bp p t rest o} : p.after = t :: rest → (t.ty = .qident ∨ t.ty = .uident) → R tbl (.expr bp p) o →
      R tbl (.dot bp p) o
  | dotList {bp p t rest o} : p.after = t :: rest → t.ty = .lbracket → R tbl (.msl p.advance []) o → R tbl (.dot bp p) o
  | dotHash {bp p t rest o} : p.after = t :: rest → t.ty = .lbrace → R tbl (.msh p.advance []) o → R tbl (.dot bp p) o
  -- multi-select list / hash, function arguments
  | mslLast {p acc e p1 t rest} : R tbl (.expr tbl.msList p) (.node e p1) → p1.after = t :: rest → t.ty = .rbracket →
      R tbl (.msl p acc) (.node (.msList (e :: acc).reverse) p1.advance)
  | mslMore {p acc e p1 t rest o} : R tbl (.expr tbl.msList p) (.node e p1) → p1.after = t :: rest → t.ty = .comma →
      R tbl (.msl p1.advance (e :: acc)) o → R tbl (.msl p acc) o
  | mshLast {p acc k c rest0 v p2 t rest} : p.after = k :: c :: rest0 → (k.ty = .uident ∨ k.ty = .qident) → c.ty = .colon →
      R tbl (.expr tbl.msHash p.advance.advance) (.node v p2) → p2.after = t :: rest → t.ty = .rbrace →
      R tbl (.msh p acc) (.node (.msHash ((k.value, v) :: acc).reverse) p2.advance)
  | mshMore {p acc k c rest0 v p2 t rest o} : p.after = k :: c :: rest0 → (k.ty = .uident ∨ k.ty = .qident) → c.ty = .colon →
      R tbl (.expr tbl.msHash p.advance.advance) (.node v p2) → p2.after = t :: rest → t.ty = .comma →
      R tbl (.msh p2.advance ((k.value, v) :: acc)) o → R tbl (.msh p acc) o
  | argPlainLast {p t0 rest0 e p1 t rest} : p.after = t0 :: rest0 → t0.ty ≠ .expref →
      R tbl (.expr tbl.ledArg p) (.node e p1) → p1.after = t :: rest → t.ty = .rparen →
      R tbl (.args p) (.args [(false, e)] p1)
  | argRefLast {p t0 rest0 e p1 t rest} : p.after = t0 :: rest0 → t0.ty = .expref →
      R tbl (.expr tbl.ledArgExpref p.advance) (.node e p1) → p1.after = t :: rest → t.ty = .rparen →
      R tbl (.args p) (.args [(true, e)] p1)
  | argPlainMore {p t0 rest0 e p1 t rest t2 rest2 as p3} : p.after = t0 :: rest0 → t0.ty ≠ .expref →
      R tbl (.expr tbl.ledArg p) (.node e p1) → p1.after = t :: rest → t.ty = .comma →
      p1.advance.after = t2 :: rest2 → t2.ty ≠ .rparen → R tbl (.args p1.advance) (.args as p3) →
      R tbl (.args p) (.args ((false, e) :: as) p3)
  | argRefMore {p t0 rest0 e p1 t rest t2 rest2 as p3} : p.after = t0 :: rest0 → t0.ty = .expref →
      R tbl (.expr tbl.ledArgExpref p.advance) (.node e p1) → p1.after = t :: rest → t.ty = .comma →
      p1.advance.after = t2 :: rest2 → t2.ty ≠ .rparen → R tbl (.args p1.advance) (.args as p3) →
      R tbl (.args p) (.args ((true, e) :: as) p3)
  -- projections, slices, filters
  | nudStarR {tok p t rest} : tok.ty = .star → p.after = t :: rest → t.ty = .rbracket →
      R tbl (.nud tok p) (.node (.valueProj .identity .identity) p)
  | nudStar {tok p t rest r p1} : tok.ty = .star → p.after = t :: rest → t.ty ≠ .rbracket →
      R tbl (.prhs tbl.nudStar p) (.node r p1) → R tbl (.nud tok p) (.node (.valueProj .identity r) p1)
  | nudFilter {tok p o} : tok.ty = .filter → R tbl (.filter .identity p) o → R tbl (.nud tok p) o
  | nudFlatten {tok p r p1} : tok.ty = .flatten → R tbl (.prhs tbl.nudFlatten p) (.node r p1) →
      R tbl (.nud tok p) (.node (.proj (.flatten .identity) r) p1)
  | nudBracketIdx {tok p t rest right p1 o} : tok.ty = .lbracket → p.after = t :: rest → (t.ty = .number ∨ t.ty = .colon) →
      parseIndexExpression (N := N) p = .ok (right, p1) → R tbl (.pis .identity right p1) o → R tbl (.nud tok p) o
  | nudBracketStar {tok p s rb rest r p1} : tok.ty = .lbracket → p.after = s :: rb :: rest → s.ty = .star → rb.ty = .rbracket →
      R tbl (.prhs tbl.nudBracketStar p.advance.advance) (.node r p1) → R tbl (.nud tok p) (.node (.proj .identity r) p1)
  | nudListStar {tok p t u rest o} : tok.ty = .lbracket → p.after = t :: u :: rest → t.ty = .star → u.ty ≠ .rbracket →
      R tbl (.msl p []) o → R tbl (.nud tok p) o
  | ledDotStar {n p t rest r p1} : p.after = t :: rest → t.ty = .star → R tbl (.prhs tbl.ledDotStar p.advance) (.node r p1) →
      R tbl (.led .dot n p) (.node (.valueProj n r) p1)
  | ledFilter {n p o} : R tbl (.filter n p) o → R tbl (.led .filter n p) o
  | ledFlatten {n p r p1} : R tbl (.prhs tbl.ledFlatten p) (.node r p1) → R tbl (.led .flatten n p) (.node (.proj (.flatten n) r) p1)
  | ledBracketIdx {n p t rest right p1 o} : p.after = t :: rest → (t.ty = .number ∨ t.ty = .colon) →
      parseIndexExpression (N := N) p = .ok (right, p1) → R tbl (.pis n right p1) o → R tbl (.led .lbracket n p) o
  | ledBracketStar {n p s rb rest r p1} : p.after = s :: rb :: rest → s.ty = .star → rb.ty = .rbracket →
      R tbl (.prhs tbl.ledBracketStar p.advance.advance) (.node r p1) → R tbl (.led .lbracket n p) (.node (.proj n r) p1)
  | pisSlice {l r p rhs p1} : isSliceNode r = true → R tbl (.prhs tbl.sliceProj p) (.node rhs p1) →
      R tbl (.pis l r p) (.node (.proj (.indexExpr l r) rhs) p1)
  | pisIndex {l r p} : isSliceNode r = false → R tbl (.pis l r p) (.node (.indexExpr l r) p)
  | filterFlat {n p cond p1 rb t rest} : R tbl (.expr tbl.filterCond p) (.node cond p1) → p1.after = rb :: t :: rest →
      rb.ty = .rbracket → t.ty = .flatten → R tbl (.filter n p) (.node (.filterProj n .identity cond) p1.advance)
  | filterRhs {n p cond p1 rb t rest r p2} : R tbl (.expr tbl.filterCond p) (.node cond p1) → p1.after = rb :: t :: rest →
      rb.ty = .rbracket → t.ty ≠ .flatten → R tbl (.prhs tbl.filterRhs p1.advance) (.node r p2) →
      R tbl (.filter n p) (.node (.filterProj n r cond) p2)
  | prhsId {bp p t rest} : p.after = t :: rest → tbl.power t.ty < tbl.projStop → R tbl (.prhs bp p) (.node .identity p)
  | prhsBracket {bp p t rest o} : p.after = t :: rest → ¬ tbl.power t.ty < tbl.projStop → (t.ty = .lbracket ∨ t.ty = .filter) →
      R tbl (.expr bp p) o → R tbl (.prhs bp p) o
  | prhsDot {bp p t rest o} : p.after = t :: rest → ¬ tbl.power t.ty < tbl.projStop → t.ty = .dot →
      R tbl (.dot bp p.advance) o → R tbl (.prhs bp p) o
  | dotStar {bp p t rest o} : p.after = t :: rest → t.ty = .star → R tbl (.expr bp p) o → R tbl (.dot bp p) o

end Jmes.Parser

namespace Jmes.Parser
variable {N : Type} [NumOps N]

def oofMsg : String := "parser model: out of fuel"

theorem toOutN_ok {r : Res (Node N × PState)} {n p} : toOutN r = .ok (.node n p) ↔ r = .ok (n, p) := by
  cases r with
  | ok x => obtain ⟨a, c⟩ := x; simp [toOutN]
  | err e => simp [toOutN]
  | panic s => simp [toOutN]

theorem toOutN_panic {r : Res (Node N × PState)} {s} : toOutN r = .panic s ↔ r = .panic s := by
  cases r with
  | ok x => obtain ⟨a, c⟩ := x; simp [toOutN]
  | err e => simp [toOutN]
  | panic s' => simp [toOutN]

theorem toOutA_ok {r : Res (List (Bool × Node N) × PState)} {a p} : toOutA r = .ok (.args a p) ↔ r = .ok (a, p) := by
  cases r with
  | ok x => obtain ⟨a', c⟩ := x; simp [toOutA]
  | err e => simp [toOutA]
  | panic s => simp [toOutA]

theorem toOutA_panic {r : Res (List (Bool × Node N) × PState)} {s} : toOutA r = .panic s ↔ r = .panic s := by
  cases r with
  | ok x => obtain ⟨a, c⟩ := x; simp [toOutA]
  | err e => simp [toOutA]
  | panic s' => simp [toOutA]

/-- "returns `o`, or runs out of fuel" -/
def Yields (tbl : ParserTable) (c : Call N) (o : Out N) : Prop :=
  ∀ fuel, run tbl fuel c = .ok o ∨ run tbl fuel c = .panic oofMsg

theorem cur_of_after {p : PState} {t rest} (h : p.after = t :: rest) : p.cur = .ok t.ty ∧ p.curTok = .ok t := by
  simp [PState.cur, PState.curTok, h]

theorem look1_of_after {p : PState} {t u rest} (h : p.after = t :: u :: rest) : p.look1 = .ok u.ty := by
  simp [PState.look1, h]

theorem expect_ok {p : PState} {t rest} (h : p.after = t :: rest) : p.expect t.ty = .ok p.advance := by
  simp [PState.expect, h]

end Jmes.Parser

namespace Jmes.Parser
variable {N : Type} [NumOps N]

macro "fuel0" : tactic =>
  `(tactic| (right; simp [run, parseExpression, ledLoop, nud, led, parseDotRHS, parseMultiSelectList,
      parseMultiSelectHash, parseArgs, parseProjectionRHS, parseFilter, projectIfSlice, toOutN, toOutA, outOfFuel, oofMsg]))

/-- Soundness of the relational description. -/
theorem R_sound (tbl : ParserTable) {c : Call N} {o : Out N} (h : R tbl c o) : Yields tbl c o := by
  induction h with
  | expr hafter _ _ ih1 ih2 =>
    intro fuel
    cases fuel with
    | zero => fuel0
    | succ f =>
      have hct := (cur_of_after hafter).2
      simp only [run, parseExpression, hct, bind, Res.bind]
      rcases ih1 f with e1 | e1
      · simp only [run] at e1; rw [toOutN_ok] at e1
        simp only [e1]
        exact ih2 f
      · simp only [run] at e1; rw [toOutN_panic] at e1
        simp only [e1]; right; rfl
  | stop hafter hnot =>
    intro fuel
    cases fuel with
    | zero => fuel0
    | succ f =>
      have hc := (cur_of_after hafter).1
      left
      simp only [run, ledLoop, hc, bind, Res.bind, hnot, if_false, toOutN]
  | step hafter hlt _ _ ih1 ih2 =>
    intro fuel
    cases fuel with
    | zero => fuel0
    | succ f =>
      have hc := (cur_of_after hafter).1
      simp only [run, ledLoop, hc, bind, Res.bind, hlt, if_true]
      rcases ih1 f with e1 | e1
      · simp only [run] at e1; rw [toOutN_ok] at e1
        simp only [e1]
        exact ih2 f
      · simp only [run] at e1; rw [toOutN_panic] at e1
        simp only [e1]; right; rfl
  | nudJson hty hdec =>
    intro fuel
    cases fuel with
    | zero => fuel0
    | succ f => left; simp only [run, nud, hty, hdec, toOutN]
  | nudRaw hty =>
    intro fuel
    cases fuel with
    | zero => fuel0
    | succ f => left; simp only [run, nud, hty, toOutN]
  | nudIdent hty =>
    intro fuel
    cases fuel with
    | zero => fuel0
    | succ f => left; simp only [run, nud, hty, toOutN]
  | nudQuoted hty hafter hne =>
    intro fuel
    cases fuel with
    | zero => fuel0
    | succ f =>
      left
      simp only [run, nud, hty, (cur_of_after hafter).1, bind, Res.bind, hne, if_false, toOutN]
  | nudCurrent hty =>
    intro fuel
    cases fuel with
    | zero => fuel0
    | succ f => left; simp only [run, nud, hty, toOutN]
  | nudNot hty _ ih =>
    intro fuel
    cases fuel with
    | zero => fuel0
    | succ f =>
      simp only [run, nud, hty, bind, Res.bind]
      rcases ih f with e1 | e1
      · simp only [run] at e1; rw [toOutN_ok] at e1
        simp only [e1, toOutN]; left; trivial
      · simp only [run] at e1; rw [toOutN_panic] at e1
        simp only [e1]; right; rfl
  | nudParen hty _ hafter hrp ih =>
    intro fuel
    cases fuel with
    | zero => fuel0
    | succ f =>
      simp only [run, nud, hty, bind, Res.bind]
      rcases ih f with e1 | e1
      · simp only [run] at e1; rw [toOutN_ok] at e1
        have := expect_ok hafter
        rw [hrp] at this
        simp only [e1, this, toOutN]; left; trivial
      · simp only [run] at e1; rw [toOutN_panic] at e1
        simp only [e1]; right; rfl
  | @nudIndex tok p n rb rest i hty hafter hnum hrb hat =>
    intro fuel
    have hc := (cur_of_after hafter).1
    have hct := (cur_of_after hafter).2
    have hl1 := look1_of_after hafter
    have hadv : p.advance.after = rb :: rest := by simp [PState.advance, hafter]
    have hexp := expect_ok hadv
    rw [hrb] at hexp
    cases fuel with
    | zero => fuel0
    | succ f =>
      cases f with
      | zero =>
        right
        simp [run, nud, hty, hc, hnum, bind, Res.bind, parseIndexExpression, hl1, hrb, hct, hat, hexp,
          projectIfSlice, toOutN, outOfFuel, oofMsg]
      | succ f' =>
        left
        simp [run, nud, hty, hc, hnum, bind, Res.bind, parseIndexExpression, hl1, hrb, hct, hat, hexp,
          projectIfSlice, isSliceNode, toOutN]
  | nudList hty hafter h1 h2 h3 _ ih =>
    intro fuel
    cases fuel with
    | zero => fuel0
    | succ f =>
      have hc := (cur_of_after hafter).1
      have := ih f
      simp only [run] at this ⊢
      simp only [nud, hty, hc, bind, Res.bind, h1, h2, h3, or_self, if_false]
      exact this
  | nudHash hty _ ih =>
    intro fuel
    cases fuel with
    | zero => fuel0
    | succ f =>
      have := ih f
      simp only [run] at this ⊢
      simp only [nud, hty]
      exact this
  | ledDot hafter hns _ ih =>
    intro fuel
    cases fuel with
    | zero => fuel0
    | succ f =>
      have hc := (cur_of_after hafter).1
      unfold run led
      simp only [hc, bind, Res.bind, hns, ne_eq, not_false_eq_true, if_true]
      rcases ih f with e1 | e1
      · simp only [run] at e1; rw [toOutN_ok] at e1
        simp only [e1, toOutN]; left; trivial
      · simp only [run] at e1; rw [toOutN_panic] at e1
        simp only [e1]; right; rfl
  | ledPipe _ ih =>
    intro fuel
    cases fuel with
    | zero => fuel0
    | succ f =>
      unfold run led
      simp only [bind, Res.bind]
      rcases ih f with e1 | e1
      · simp only [run] at e1; rw [toOutN_ok] at e1
        simp only [e1, toOutN]; left; trivial
      · simp only [run] at e1; rw [toOutN_panic] at e1
        simp only [e1]; right; rfl
  | ledOr _ ih =>
    intro fuel
    cases fuel with
    | zero => fuel0
    | succ f =>
      unfold run led
      simp only [bind, Res.bind]
      rcases ih f with e1 | e1
      · simp only [run] at e1; rw [toOutN_ok] at e1
        simp only [e1, toOutN]; left; trivial
      · simp only [run] at e1; rw [toOutN_panic] at e1
        simp only [e1]; right; rfl
  | ledAnd _ ih =>
    intro fuel
    cases fuel with
    | zero => fuel0
    | succ f =>
      unfold run led
      simp only [bind, Res.bind]
      rcases ih f with e1 | e1
      · simp only [run] at e1; rw [toOutN_ok] at e1
        simp only [e1, toOutN]; left; trivial
      · simp only [run] at e1; rw [toOutN_panic] at e1
        simp only [e1]; right; rfl
  | @ledCmp ty op n p r p1 hop _ ih =>
    intro fuel
    cases fuel with
    | zero => fuel0
    | succ f =>
      have hshape : led tbl (f + 1) ty n p =
          (match parseExpression tbl f ((tbl.ledCmp.lookup ty).getD 0) p with
           | .ok a => .ok (.cmp op n a.1, a.2)
           | .err e => .err e
           | .panic s => .panic s) := by
        cases ty <;> simp [Cmp.ofTok] at hop <;> subst hop <;> simp [led, Cmp.ofTok, bind, Res.bind] <;> (cases parseExpression (N := N) tbl f _ p <;> rfl)
      simp only [run]
      rw [hshape]
      rcases ih f with e1 | e1
      · simp only [run] at e1; rw [toOutN_ok] at e1
        simp only [e1, toOutN]; left; trivial
      · simp only [run] at e1; rw [toOutN_panic] at e1
        simp only [e1]; right; rfl
  | ledCall0 hbef hprev hafter hrp =>
    intro fuel
    cases fuel with
    | zero => fuel0
    | succ f =>
      left
      have hc := (cur_of_after hafter).1
      have hexp := expect_ok hafter
      rw [hrp] at hexp
      unfold run led
      simp only [hbef, hprev, if_true, hc, hrp, bind, Res.bind, hexp, toOutN]
  | ledCall hbef hprev hafter hnr _ hafter1 hrp ih =>
    intro fuel
    cases fuel with
    | zero => fuel0
    | succ f =>
      have hc := (cur_of_after hafter).1
      have hexp := expect_ok hafter1
      rw [hrp] at hexp
      unfold run led
      simp only [hbef, hprev, if_true, hc, hnr, if_false, bind, Res.bind]
      rcases ih f with e1 | e1
      · simp only [run] at e1; rw [toOutA_ok] at e1
        simp only [e1, hexp, toOutN]; left; trivial
      · simp only [run] at e1; rw [toOutA_panic] at e1
        simp only [e1]; right; rfl
  | @ledIndex node p n rb rest i hafter hnum hrb hat =>
    intro fuel
    have hc := (cur_of_after hafter).1
    have hct := (cur_of_after hafter).2
    have hl1 := look1_of_after hafter
    have hadv : p.advance.after = rb :: rest := by simp [PState.advance, hafter]
    have hexp := expect_ok hadv
    rw [hrb] at hexp
    cases fuel with
    | zero => fuel0
    | succ f =>
      cases f with
      | zero =>
        right
        unfold run led
        simp [hc, hnum, bind, Res.bind, parseIndexExpression, hl1, hrb, hct, hat, hexp,
          projectIfSlice, toOutN, outOfFuel, oofMsg]
      | succ f' =>
        left
        unfold run led
        simp [hc, hnum, bind, Res.bind, parseIndexExpression, hl1, hrb, hct, hat, hexp,
          projectIfSlice, isSliceNode, toOutN]
  | dotIdent hafter hty _ ih =>
    intro fuel
    cases fuel with
    | zero => fuel0
    | succ f =>
      have hc := (cur_of_after hafter).1
      have := ih f
      simp only [run] at this ⊢
      simp only [parseDotRHS, hc, bind, Res.bind]
      rcases hty with h | h <;> simp only [h, true_or, or_true, if_true] <;> exact this
  | dotList hafter hty _ ih =>
    intro fuel
    cases fuel with
    | zero => fuel0
    | succ f =>
      have hc := (cur_of_after hafter).1
      have := ih f
      simp only [run] at this ⊢
      simp [parseDotRHS, hc, bind, Res.bind, hty]
      exact this
  | dotHash hafter hty _ ih =>
    intro fuel
    cases fuel with
    | zero => fuel0
    | succ f =>
      have hc := (cur_of_after hafter).1
      have := ih f
      simp only [run] at this ⊢
      simp [parseDotRHS, hc, bind, Res.bind, hty]
      exact this
  | mslLast _ hafter hrb ih =>
    intro fuel
    cases fuel with
    | zero => fuel0
    | succ f =>
      simp only [run, parseMultiSelectList, bind, Res.bind]
      rcases ih f with e1 | e1
      · simp only [run] at e1; rw [toOutN_ok] at e1
        have hc := (cur_of_after hafter).1
        have hexp := expect_ok hafter
        rw [hrb] at hexp
        simp only [e1, hc, hrb, if_true, hexp, toOutN]; left; trivial
      · simp only [run] at e1; rw [toOutN_panic] at e1
        simp only [e1]; right; rfl
  | mslMore _ hafter hcm _ ih1 ih2 =>
    intro fuel
    cases fuel with
    | zero => fuel0
    | succ f =>
      simp only [run, parseMultiSelectList, bind, Res.bind]
      rcases ih1 f with e1 | e1
      · simp only [run] at e1; rw [toOutN_ok] at e1
        have hc := (cur_of_after hafter).1
        have hexp := expect_ok hafter
        rw [hcm] at hexp
        simp only [e1, hc, hcm, reduceCtorEq, if_false, hexp]
        exact ih2 f
      · simp only [run] at e1; rw [toOutN_panic] at e1
        simp only [e1]; right; rfl
  | @mshLast p acc k c rest0 v p2 t rest hafter hk hcol _ hafter2 hrb ih =>
    intro fuel
    cases fuel with
    | zero => fuel0
    | succ f =>
      have hct := (cur_of_after hafter).2
      have hadv : p.advance.after = c :: rest0 := by simp [PState.advance, hafter]
      have hexp := expect_ok hadv
      rw [hcol] at hexp
      simp only [run, parseMultiSelectHash, hct, bind, Res.bind, hk, if_true, hexp]
      rcases ih f with e1 | e1
      · simp only [run] at e1; rw [toOutN_ok] at e1
        have hc2 := (cur_of_after hafter2).1
        simp only [e1, hc2, hrb, reduceCtorEq, if_false, if_true, toOutN]; left; trivial
      · simp only [run] at e1; rw [toOutN_panic] at e1
        simp only [e1]; right; rfl
  | @mshMore p acc k c rest0 v p2 t rest o hafter hk hcol _ hafter2 hcm _ ih1 ih2 =>
    intro fuel
    cases fuel with
    | zero => fuel0
    | succ f =>
      have hct := (cur_of_after hafter).2
      have hadv : p.advance.after = c :: rest0 := by simp [PState.advance, hafter]
      have hexp := expect_ok hadv
      rw [hcol] at hexp
      simp only [run, parseMultiSelectHash, hct, bind, Res.bind, hk, if_true, hexp]
      rcases ih1 f with e1 | e1
      · simp only [run] at e1; rw [toOutN_ok] at e1
        have hc2 := (cur_of_after hafter2).1
        simp only [e1, hc2, hcm, if_true]
        exact ih2 f
      · simp only [run] at e1; rw [toOutN_panic] at e1
        simp only [e1]; right; rfl
  | argPlainLast hafter hne _ hafter1 hrp ih =>
    intro fuel
    cases fuel with
    | zero => fuel0
    | succ f =>
      have hc := (cur_of_after hafter).1
      simp only [run, parseArgs, hc, bind, Res.bind, hne, ne_eq, not_false_eq_true, if_true]
      rcases ih f with e1 | e1
      · simp only [run] at e1; rw [toOutN_ok] at e1
        have hc1 := (cur_of_after hafter1).1
        simp only [e1, hc1, hrp, if_true, toOutA]; left; trivial
      · simp only [run] at e1; rw [toOutN_panic] at e1
        simp only [e1]; right; rfl
  | argRefLast hafter heq _ hafter1 hrp ih =>
    intro fuel
    cases fuel with
    | zero => fuel0
    | succ f =>
      have hc := (cur_of_after hafter).1
      simp only [run, parseArgs, hc, bind, Res.bind, heq, ne_eq, not_true_eq_false, if_false]
      rcases ih f with e1 | e1
      · simp only [run] at e1; rw [toOutN_ok] at e1
        have hc1 := (cur_of_after hafter1).1
        simp only [e1, hc1, hrp, if_true, toOutA]; left; trivial
      · simp only [run] at e1; rw [toOutN_panic] at e1
        simp only [e1]; right; rfl
  | argPlainMore hafter hne _ hafter1 hcm hafter2 hnr _ ih1 ih2 =>
    intro fuel
    cases fuel with
    | zero => fuel0
    | succ f =>
      have hc := (cur_of_after hafter).1
      simp only [run, parseArgs, hc, bind, Res.bind, hne, ne_eq, not_false_eq_true, if_true]
      rcases ih1 f with e1 | e1
      · simp only [run] at e1; rw [toOutN_ok] at e1
        have hc1 := (cur_of_after hafter1).1
        have hexp := expect_ok hafter1
        rw [hcm] at hexp
        have hc2 := (cur_of_after hafter2).1
        simp only [e1, hc1, hcm, reduceCtorEq, if_false, hexp, hc2, hnr]
        rcases ih2 f with e2 | e2
        · simp only [run] at e2; rw [toOutA_ok] at e2
          simp only [e2, toOutA]; left; trivial
        · simp only [run] at e2; rw [toOutA_panic] at e2
          simp only [e2]; right; rfl
      · simp only [run] at e1; rw [toOutN_panic] at e1
        simp only [e1]; right; rfl
  | argRefMore hafter heq _ hafter1 hcm hafter2 hnr _ ih1 ih2 =>
    intro fuel
    cases fuel with
    | zero => fuel0
    | succ f =>
      have hc := (cur_of_after hafter).1
      simp only [run, parseArgs, hc, bind, Res.bind, heq, ne_eq, not_true_eq_false, if_false]
      rcases ih1 f with e1 | e1
      · simp only [run] at e1; rw [toOutN_ok] at e1
        have hc1 := (cur_of_after hafter1).1
        have hexp := expect_ok hafter1
        rw [hcm] at hexp
        have hc2 := (cur_of_after hafter2).1
        simp only [e1, hc1, hcm, reduceCtorEq, if_false, hexp, hc2, hnr]
        rcases ih2 f with e2 | e2
        · simp only [run] at e2; rw [toOutA_ok] at e2
          simp only [e2, toOutA]; left; trivial
        · simp only [run] at e2; rw [toOutA_panic] at e2
          simp only [e2]; right; rfl
      · simp only [run] at e1; rw [toOutN_panic] at e1
        simp only [e1]; right; rfl

  | nudStarR hty hafter hrb =>
    intro fuel
    cases fuel with
    | zero => fuel0
    | succ f =>
      left
      simp only [run, nud, hty, (cur_of_after hafter).1, bind, Res.bind, hrb, if_true, toOutN]
  | nudStar hty hafter hnrb _ ih =>
    intro fuel
    cases fuel with
    | zero => fuel0
    | succ f =>
      simp only [run, nud, hty, (cur_of_after hafter).1, bind, Res.bind, hnrb, if_false]
      rcases ih f with e1 | e1
      · simp only [run] at e1; rw [toOutN_ok] at e1
        simp only [e1, toOutN]; left; trivial
      · simp only [run] at e1; rw [toOutN_panic] at e1
        simp only [e1]; right; rfl
  | nudFilter hty _ ih =>
    intro fuel
    cases fuel with
    | zero => fuel0
    | succ f =>
      have := ih f
      simp only [run] at this ⊢
      simp only [nud, hty]
      exact this
  | nudFlatten hty _ ih =>
    intro fuel
    cases fuel with
    | zero => fuel0
    | succ f =>
      simp only [run, nud, hty, bind, Res.bind]
      rcases ih f with e1 | e1
      · simp only [run] at e1; rw [toOutN_ok] at e1
        simp only [e1, toOutN]; left; trivial
      · simp only [run] at e1; rw [toOutN_panic] at e1
        simp only [e1]; right; rfl
  | nudBracketIdx hty hafter hnc hidx _ ih =>
    intro fuel
    cases fuel with
    | zero => fuel0
    | succ f =>
      have := ih f
      simp only [run] at this ⊢
      simp only [nud, hty, (cur_of_after hafter).1, bind, Res.bind, hnc, if_true, hidx]
      exact this
  | nudBracketStar hty hafter hs hrb _ ih =>
    intro fuel
    cases fuel with
    | zero => fuel0
    | succ f =>
      have hl1 := look1_of_after hafter
      simp only [run, nud, hty, (cur_of_after hafter).1, hs, bind, Res.bind, reduceCtorEq, or_self, if_false, if_true, hl1, hrb,
        decide_true]
      rcases ih f with e1 | e1
      · simp only [run] at e1; rw [toOutN_ok] at e1
        simp only [e1, toOutN]; left; trivial
      · simp only [run] at e1; rw [toOutN_panic] at e1
        simp only [e1]; right; rfl
  | nudListStar hty hafter hs hnrb _ ih =>
    intro fuel
    cases fuel with
    | zero => fuel0
    | succ f =>
      have hl1 := look1_of_after hafter
      have := ih f
      simp only [run] at this ⊢
      simp only [nud, hty, (cur_of_after hafter).1, hs, bind, Res.bind, reduceCtorEq, or_self, if_false, if_true, hl1, hnrb,
        decide_false, Bool.false_eq_true]
      exact this
  | ledDotStar hafter hs _ ih =>
    intro fuel
    cases fuel with
    | zero => fuel0
    | succ f =>
      unfold run led
      simp only [(cur_of_after hafter).1, hs, bind, Res.bind, ne_eq, not_true_eq_false, if_false]
      rcases ih f with e1 | e1
      · simp only [run] at e1; rw [toOutN_ok] at e1
        simp only [e1, toOutN]; left; trivial
      · simp only [run] at e1; rw [toOutN_panic] at e1
        simp only [e1]; right; rfl
  | ledFilter _ ih =>
    intro fuel
    cases fuel with
    | zero => fuel0
    | succ f =>
      have := ih f
      unfold run at this ⊢
      unfold led
      exact this
  | ledFlatten _ ih =>
    intro fuel
    cases fuel with
    | zero => fuel0
    | succ f =>
      unfold run led
      simp only [bind, Res.bind]
      rcases ih f with e1 | e1
      · simp only [run] at e1; rw [toOutN_ok] at e1
        simp only [e1, toOutN]; left; trivial
      · simp only [run] at e1; rw [toOutN_panic] at e1
        simp only [e1]; right; rfl
  | ledBracketIdx hafter hnc hidx _ ih =>
    intro fuel
    cases fuel with
    | zero => fuel0
    | succ f =>
      have := ih f
      unfold run at this ⊢
      unfold led
      simp only [(cur_of_after hafter).1, bind, Res.bind, hnc, if_true, hidx]
      exact this
  | @ledBracketStar n p s rb rest r p1 hafter hs hrb _ ih =>
    intro fuel
    cases fuel with
    | zero => fuel0
    | succ f =>
      have hexp1 := expect_ok hafter
      rw [hs] at hexp1
      have hadv : p.advance.after = rb :: rest := by simp [PState.advance, hafter]
      have hexp2 := expect_ok hadv
      rw [hrb] at hexp2
      unfold run led
      simp only [(cur_of_after hafter).1, hs, bind, Res.bind, reduceCtorEq, or_self, if_false, hexp1, hexp2]
      rcases ih f with e1 | e1
      · simp only [run] at e1; rw [toOutN_ok] at e1
        simp only [e1, toOutN]; left; trivial
      · simp only [run] at e1; rw [toOutN_panic] at e1
        simp only [e1]; right; rfl
  | pisSlice hsl _ ih =>
    intro fuel
    cases fuel with
    | zero => fuel0
    | succ f =>
      simp only [run, projectIfSlice, hsl, if_true, bind, Res.bind]
      rcases ih f with e1 | e1
      · simp only [run] at e1; rw [toOutN_ok] at e1
        simp only [e1, toOutN]; left; trivial
      · simp only [run] at e1; rw [toOutN_panic] at e1
        simp only [e1]; right; rfl
  | pisIndex hsl =>
    intro fuel
    cases fuel with
    | zero => fuel0
    | succ f => left; simp only [run, projectIfSlice, hsl, Bool.false_eq_true, if_false, toOutN]
  | @filterFlat n p cond p1 rb t rest _ hafter hrb hfl ih =>
    intro fuel
    cases fuel with
    | zero => fuel0
    | succ f =>
      have hexp := expect_ok hafter
      rw [hrb] at hexp
      have hadv : p1.advance.after = t :: rest := by simp [PState.advance, hafter]
      simp only [run, parseFilter, bind, Res.bind]
      rcases ih f with e1 | e1
      · simp only [run] at e1; rw [toOutN_ok] at e1
        simp only [e1, hexp, (cur_of_after hadv).1, hfl, if_true, toOutN]; left; trivial
      · simp only [run] at e1; rw [toOutN_panic] at e1
        simp only [e1]; right; rfl
  | @filterRhs n p cond p1 rb t rest r p2 _ hafter hrb hnfl _ ih1 ih2 =>
    intro fuel
    cases fuel with
    | zero => fuel0
    | succ f =>
      have hexp := expect_ok hafter
      rw [hrb] at hexp
      have hadv : p1.advance.after = t :: rest := by simp [PState.advance, hafter]
      simp only [run, parseFilter, bind, Res.bind]
      rcases ih1 f with e1 | e1
      · simp only [run] at e1; rw [toOutN_ok] at e1
        simp only [e1, hexp, (cur_of_after hadv).1, hnfl, if_false]
        rcases ih2 f with e2 | e2
        · simp only [run] at e2; rw [toOutN_ok] at e2
          simp only [e2, toOutN]; left; trivial
        · simp only [run] at e2; rw [toOutN_panic] at e2
          simp only [e2]; right; rfl
      · simp only [run] at e1; rw [toOutN_panic] at e1
        simp only [e1]; right; rfl
  | prhsId hafter hlt =>
    intro fuel
    cases fuel with
    | zero => fuel0
    | succ f => left; simp only [run, parseProjectionRHS, (cur_of_after hafter).1, bind, Res.bind, hlt, if_true, toOutN]
  | prhsBracket hafter hnlt hty _ ih =>
    intro fuel
    cases fuel with
    | zero => fuel0
    | succ f =>
      have := ih f
      simp only [run] at this ⊢
      simp only [parseProjectionRHS, (cur_of_after hafter).1, bind, Res.bind, hnlt, if_false]
      rcases hty with h | h <;> simp only [h, if_true, reduceCtorEq, if_false] <;> exact this
  | prhsDot hafter hnlt hty _ ih =>
    intro fuel
    cases fuel with
    | zero => fuel0
    | succ f =>
      have := ih f
      simp only [run] at this ⊢
      rw [hty] at hnlt
      simp only [parseProjectionRHS, (cur_of_after hafter).1, bind, Res.bind, hty, hnlt, if_false, reduceCtorEq, if_true]
      exact this
  | dotStar hafter hty _ ih =>
    intro fuel
    cases fuel with
    | zero => fuel0
    | succ f =>
      have := ih f
      simp only [run] at this ⊢
      simp only [parseDotRHS, (cur_of_after hafter).1, bind, Res.bind, hty, reduceCtorEq, or_true, or_false, if_true]
      exact this

end Jmes.Parser
