/-
  Proofs.ApiGlue — the API-level `compile` (a fresh Parser object's Parse) is
  the pure `Parser.parseWith`, so the lexer/parser theorems apply to it.
-/
import Jmes.Api
import Proofs.ParserSafe
namespace Jmes.Api
variable {N : Type} [NumOps N]

theorem parse_eq_parseWith (cfg : Config) (p : ParserObj) (expr : Bytes) :
    ((p.parse cfg expr).2 : Res (Node N)) = Parser.parseWith cfg.lex cfg.tbl expr := by
  unfold ParserObj.parse Parser.parseWith Parser.parseTokens
  simp only [bind, Res.bind]
  cases Lexer.tokenize cfg.lex expr with
  | ok toks =>
    dsimp only []
    generalize (Parser.parseExpression cfg.tbl (Parser.fuelFor toks.length) cfg.tbl.top ⟨[], toks⟩ : Res (Node N × Parser.PState)) = r
    cases r with
    | ok r =>
      obtain ⟨e, st⟩ := r
      dsimp only []
      cases st.cur with
      | ok ty => by_cases hty : ty = .eof <;> simp [hty]
      | err e => rfl
      | panic s => rfl
    | err e => rfl
    | panic s => rfl
  | err e => rfl
  | panic s => rfl

theorem compile_eq_parseWith (cfg : Config) (expr : Bytes) :
    (compile cfg expr : Res (Node N)) = Parser.parseWith cfg.lex cfg.tbl expr :=
  parse_eq_parseWith cfg {} expr

end Jmes.Api
