/-
  Proofs.Compose — consequences of context independence (Proofs/Context.lean) for ARBITRARY expressions:
  an expression that parses on its own is read the same way, to the same AST, wherever the parser
  reads an expression at level 0 up to a closing token or separator (inside parentheses, as a member
  of a multi-select list or hash, as a function argument, as a filter condition); in particular
  putting parentheses around a whole expression does not change its AST.
-/
import Proofs.Context
namespace Jmes.Parser
open Jmes Jmes.Spec
variable {N : Type} [NumOps N]

/-- An expression that parses on its own (to `a`) is read to `a` at level 0 in any surroundings whose
    next token is a closing token, a separator or the end of input. -/
theorem expr0_in_context {As : List Token} {eA : Token} {a : Node N} (heA : eA.ty = .eof)
    (hPA : R T (.expr 0 ⟨[], As ++ [eA]⟩) (.node a ⟨As.reverse, [eA]⟩))
    (bef : List Token) (f : Token) (rest : List Token) (hf : followerOK f.ty = true) (hpow : specPow f.ty = 0) :
    R T (.expr 0 ⟨bef, As ++ f :: rest⟩) (.node a ⟨As.reverse ++ bef, f :: rest⟩) := by
  let SA : Around := ⟨[], eA, []⟩
  let SB : Around := ⟨bef, f, rest⟩
  have hrel : CRel SA SB 0 ⟨[], As ++ [eA]⟩ ⟨bef, As ++ f :: rest⟩ := ⟨[], As, Nat.le_refl _, rfl, rfl, rfl, rfl⟩
  obtain ⟨p1', hp1, hR⟩ := R_moves (A := SA) (B := SB) heA hf rfl hPA 0 _ (Nat.le_refl _) hrel (Or.inl (by show specPow f.ty ≤ 0; omega))
  obtain ⟨Y, X0, _, hb1, hb2, ha1, ha2⟩ := hp1
  have hX0 : X0 = [] := by
    have : ([eA] : List Token) = X0 ++ eA :: [] := ha1
    cases X0 with
    | nil => rfl
    | cons x xs => simp at this
  subst hX0
  have hb1' : As.reverse = Y ++ [] := hb1
  have hY : Y = As.reverse := by simpa using hb1'.symm
  subst hY
  have : p1' = ⟨As.reverse ++ bef, f :: rest⟩ := by
    cases p1' with
    | mk b' a' => simp only at hb2 ha2; rw [hb2, ha2]; rfl
  rw [this] at hR
  exact hR

/-- **Redundant parentheses around a whole expression**: `( A )` parses to the AST of `A`. -/
theorem paren_of_parse {As : List Token} {eA eB l r : Token} {a : Node N} (heA : eA.ty = .eof) (heB : eB.ty = .eof)
    (hl : l.ty = .lparen) (hr : r.ty = .rparen)
    (hPA : R T (.expr 0 ⟨[], As ++ [eA]⟩) (.node a ⟨As.reverse, [eA]⟩)) :
    R T (.expr 0 ⟨[], l :: (As ++ [r, eB])⟩) (.node a ⟨(l :: (As ++ [r])).reverse, [eB]⟩) := by
  have h1 := expr0_in_context heA hPA [l] r [eB] (by rw [hr]; rfl) (by rw [hr]; rfl)
  have h2 : R T (.nud l ⟨[l], As ++ [r, eB]⟩) (.node a ⟨r :: (As.reverse ++ [l]), [eB]⟩) :=
    R.nudParen (p := ⟨[l], As ++ r :: [eB]⟩) hl h1 rfl hr
  have h3 : R T (.loop 0 a ⟨r :: (As.reverse ++ [l]), [eB]⟩) (.node a ⟨r :: (As.reverse ++ [l]), [eB]⟩) :=
    R.stop (p := ⟨r :: (As.reverse ++ [l]), [eB]⟩) rfl (by rw [T_power, heB]; decide)
  have := R.expr (p := ⟨[], l :: (As ++ [r, eB])⟩) (rbp := 0) rfl h2 h3
  simpa [List.reverse_append] using this

end Jmes.Parser
