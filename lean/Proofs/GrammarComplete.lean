/-
  Proofs.GrammarComplete — the parser accepts every sentence of the published
  grammar (`Spec.G false`), for the specification's table.

  The ABNF is ambiguous and precedence-free; the parser is a Pratt parser.  The
  proof does not build parse trees.  It describes a moment of the parse as a
  STACK of pending Pratt loops (`Stk`: each frame = level, how to wrap the node
  it is handed, what is below; the bottom frame runs at level 0 because every
  bracketed context is entered with `parseExpression(0)`), and shows by
  induction on the derivation of a phrase `s` that

      reading `s ++ rest` in any stack succeeds, provided EVERY stack succeeds
      on `rest` once `s` has been consumed                        (`MotE`)

  ("every stack" is what makes the statement compositional: how much of `s` a
  nested loop consumes before handing over to an outer one depends on the
  levels, which of the pending loops picks up the next operator is `dispatch`).
  Closing tokens unwind the whole stack to the bracket's own continuation
  (`allRun_closer`).  All steps are constructors of the relational description
  `R` (Proofs/ParserRel.lean), which is sound for the parser function.

  Side condition: number tokens must be in the int64 range (`NumOK`; finding
  D22 — the grammar has no such bound).
-/
import Proofs.Printer
import Proofs.Grammar
import Spec.Grammar
namespace Jmes.Parser
open Jmes Jmes.Spec
variable {N : Type} [NumOps N]

/-- continuations: what happens to a node and the parser state it was returned with -/
abbrev Kont (N : Type) := Node N → PState → Prop

/-- the call returns a node, and the continuation accepts it -/
def CallK (c : Call N) (κ : Kont N) : Prop := ∃ r st', R T c (.node r st') ∧ κ r st'
def CallA (c : Call N) (κ : List (Bool × Node N) → PState → Prop) : Prop := ∃ as st', R T c (.args as st') ∧ κ as st'

/-- a pending Pratt loop: wrap the node, run the loop at level `k`, pass the result on -/
def pushK (k : Nat) (w : Node N → Node N) (κ : Kont N) : Kont N := fun r st => CallK (.loop k (w r) st) κ

/-- a stack of pending loops whose bottom loop runs at level 0 -/
inductive Stk (κ0 : Kont N) : Kont N → Prop
  | base (w : Node N → Node N) : Stk κ0 (pushK 0 w κ0)
  | push (k : Nat) (w : Node N → Node N) {κ : Kont N} : Stk κ0 κ → Stk κ0 (pushK k w κ)

/-- `κ` may sit under a loop at level `k` -/
def Frame (κ0 : Kont N) (k : Nat) (κ : Kont N) : Prop := ∀ w, Stk κ0 (pushK k w κ)

theorem Frame.base (κ0 : Kont N) : Frame κ0 0 κ0 := fun w => Stk.base w
theorem Frame.of_stk {κ0 κ : Kont N} (h : Stk κ0 κ) (k : Nat) : Frame κ0 k κ := fun w => Stk.push k w h
theorem Frame.push {κ0 κ : Kont N} {k : Nat} (h : Frame κ0 k κ) (w : Node N → Node N) (k' : Nat) : Frame κ0 k' (pushK k w κ) :=
  Frame.of_stk (h w) k'

/-- every stack accepts whatever it is handed at `st`, and a projection's right-hand side may start at `st` -/
def AllRun (κ0 : Kont N) (st : PState) : Prop :=
  (∀ κ, Stk κ0 κ → ∀ r, κ r st) ∧ (∀ κ, Stk κ0 κ → ∀ bp, bp ≤ 45 → CallK (.prhs bp st) κ)

theorem expr_of_nudK {k : Nat} {κ : Kont N} {bef : List Token} {t : Token} {tl : List Token}
    (h : CallK (.nud t ⟨t :: bef, tl⟩) (pushK k id κ)) : CallK (.expr k ⟨bef, t :: tl⟩) κ := by
  obtain ⟨left, p1, hn, r, st', hl, hk⟩ := h
  exact ⟨r, st', R.expr (p := ⟨bef, t :: tl⟩) rfl (by simpa [PState.advance] using hn) hl, hk⟩

theorem loop_of_ledK {k : Nat} {κ : Kont N} {left : Node N} {bef : List Token} {t : Token} {tl : List Token}
    (hk : k < specPow t.ty) (h : CallK (.led t.ty left ⟨t :: bef, tl⟩) (pushK k id κ)) : CallK (.loop k left ⟨bef, t :: tl⟩) κ := by
  obtain ⟨left', p1, hn, r, st', hl, hκ⟩ := h
  exact ⟨r, st', R.step (p := ⟨bef, t :: tl⟩) rfl (by simpa using hk) (by simpa [PState.advance] using hn) hl, hκ⟩

theorem loop_stop {k : Nat} {κ : Kont N} {left : Node N} {bef : List Token} {t : Token} {tl : List Token}
    (hk : ¬ k < specPow t.ty) (h : κ left ⟨bef, t :: tl⟩) : CallK (.loop k left ⟨bef, t :: tl⟩) κ :=
  ⟨left, _, R.stop (p := ⟨bef, t :: tl⟩) rfl (by simpa using hk), h⟩

/-- a token that some led accepts reaches the first pending loop whose level is below its power -/
theorem dispatch {κ0 : Kont N} {bef : List Token} {t : Token} {tl : List Token} (hp : 0 < specPow t.ty)
    (L : ∀ k left κ, k < specPow t.ty → Frame κ0 k κ → CallK (.led t.ty left ⟨t :: bef, tl⟩) (pushK k id κ)) :
    ∀ κ, Stk κ0 κ → ∀ r, κ r ⟨bef, t :: tl⟩ := by
  intro κ h
  induction h with
  | base w => intro r; exact loop_of_ledK hp (L 0 (w r) κ0 hp (Frame.base κ0))
  | push k w hκ ih =>
    intro r
    by_cases hk : k < specPow t.ty
    · exact loop_of_ledK hk (L k (w r) _ hk (Frame.of_stk hκ k))
    · exact loop_stop hk (ih (w r))

/-- at a closing token every pending loop stops and the base continuation gets the node -/
theorem unwind_closer {κ0 : Kont N} {bef : List Token} {t : Token} {tl : List Token} (hp : specPow t.ty = 0)
    (h0 : ∀ r, κ0 r ⟨bef, t :: tl⟩) : ∀ κ, Stk κ0 κ → ∀ r, κ r ⟨bef, t :: tl⟩ := by
  intro κ h
  induction h with
  | base w => intro r; exact loop_stop (by omega) (h0 _)
  | push k w hκ ih => intro r; exact loop_stop (by omega) (ih _)

theorem prhs_id {κ : Kont N} {bp : Nat} {bef : List Token} {t : Token} {tl : List Token} (hp : specPow t.ty < 10)
    (h : κ .identity ⟨bef, t :: tl⟩) : CallK (.prhs bp ⟨bef, t :: tl⟩) κ :=
  ⟨_, _, R.prhsId (p := ⟨bef, t :: tl⟩) rfl (by rw [T_power]; exact hp), h⟩

theorem allRun_closer {κ0 : Kont N} {bef : List Token} {t : Token} {tl : List Token} (hp : specPow t.ty = 0)
    (h0 : ∀ r, κ0 r ⟨bef, t :: tl⟩) : AllRun κ0 ⟨bef, t :: tl⟩ :=
  ⟨unwind_closer hp h0, fun κ hκ bp _ => prhs_id (by omega) (unwind_closer hp h0 κ hκ _)⟩


/-! ### what may follow an expression, and the side condition on number tokens -/

def followTy : TokType → Bool
  | .pipe | .or | .and | .eq | .ne | .lt | .lte | .gt | .gte | .dot | .lbracket | .flatten | .filter
  | .rparen | .rbracket | .rbrace | .comma | .eof => true
  | _ => false

def FollowOK (rest : List Token) : Prop := ∃ t tl, rest = t :: tl ∧ followTy t.ty = true

theorem binop_pow {ty : TokType} (h : isBinOp ty) : 0 < specPow ty ∧ specPow ty < 10 ∧ followTy ty = true := by
  rcases h with h | h | h | h
  · subst h; decide
  · subst h; decide
  · subst h; decide
  · cases ty <;> simp [Cmp.ofTok] at h <;> decide

theorem cmp_level {ty : TokType} {op : Cmp} (h : Cmp.ofTok ty = some op) : (T.ledCmp.lookup ty).getD 0 = 5 := by
  cases ty <;> simp [Cmp.ofTok] at h <;> rfl

/-- the expression statement: reading `s` at any level inside any stack of pending loops succeeds,
    provided everything succeeds once `s` has been consumed -/
def MotE (N : Type) [NumOps N] (s : List Token) : Prop :=
  ∀ (κ0 : Kont N) (k : Nat) (κ1 : Kont N) (bef rest : List Token), k ≤ 45 → Frame κ0 k κ1 → FollowOK rest →
    AllRun κ0 ⟨s.reverse ++ bef, rest⟩ → CallK (.expr k ⟨bef, s ++ rest⟩) κ1

theorem led_binop {κ0 : Kont N} {k : Nat} {κ : Kont N} {left : Node N} {o : Token} {bef tl : List Token}
    (ho : isBinOp o.ty) (hf : Frame κ0 k κ)
    (E : ∀ p κ', p ≤ 45 → Frame κ0 p κ' → CallK (.expr p ⟨o :: bef, tl⟩) κ') :
    CallK (.led o.ty left ⟨o :: bef, tl⟩) (pushK k id κ) := by
  rcases ho with h | h | h | h
  · obtain ⟨r, p1, hR, hκ⟩ := E 1 (pushK k (fun r => .pipe left r) κ) (by omega) (hf.push _ 1)
    exact ⟨.pipe left r, p1, by rw [h]; exact R.ledPipe hR, hκ⟩
  · obtain ⟨r, p1, hR, hκ⟩ := E 2 (pushK k (fun r => .or left r) κ) (by omega) (hf.push _ 2)
    exact ⟨.or left r, p1, by rw [h]; exact R.ledOr hR, hκ⟩
  · obtain ⟨r, p1, hR, hκ⟩ := E 3 (pushK k (fun r => .and left r) κ) (by omega) (hf.push _ 3)
    exact ⟨.and left r, p1, by rw [h]; exact R.ledAnd hR, hκ⟩
  · obtain ⟨op, hop⟩ := Option.isSome_iff_exists.mp h
    obtain ⟨r, p1, hR, hκ⟩ := E 5 (pushK k (fun r => .cmp op left r) κ) (by omega) (hf.push _ 5)
    exact ⟨.cmp op left r, p1, R.ledCmp hop (by rw [cmp_level hop]; exact hR), hκ⟩

theorem allRun_of_led {κ0 : Kont N} {bef : List Token} {t : Token} {tl : List Token} (hp : 0 < specPow t.ty)
    (L : ∀ k left κ, k < specPow t.ty → Frame κ0 k κ → CallK (.led t.ty left ⟨t :: bef, tl⟩) (pushK k id κ))
    (P : ∀ κ, Stk κ0 κ → ∀ bp, bp ≤ 45 → CallK (.prhs bp ⟨bef, t :: tl⟩) κ) : AllRun κ0 ⟨bef, t :: tl⟩ :=
  ⟨dispatch hp L, P⟩

theorem pe_bin {a b : List Token} {o : Token} (iha : MotE N a) (ihb : MotE N b) (ho : isBinOp o.ty) : MotE N (a ++ o :: b) := by
  intro κ0 k κ1 bef rest hk hf hfo hall
  have hall' : AllRun κ0 ⟨b.reverse ++ (o :: (a.reverse ++ bef)), rest⟩ := by
    simpa [List.reverse_append, List.append_assoc] using hall
  obtain ⟨hp0, hp10, hft⟩ := binop_pow ho
  have L : ∀ k' left κ, k' < specPow o.ty → Frame κ0 k' κ →
      CallK (.led o.ty left ⟨o :: (a.reverse ++ bef), b ++ rest⟩) (pushK k' id κ) :=
    fun k' left κ _ hf' => led_binop ho hf' (fun p κ' hp hf'' => ihb κ0 p κ' _ rest hp hf'' hfo hall')
  have := iha κ0 k κ1 bef (o :: (b ++ rest)) hk hf ⟨o, _, rfl, hft⟩
    (allRun_of_led hp0 L (fun κ hκ bp _ => prhs_id hp10 (dispatch hp0 L κ hκ _)))
  simpa [List.append_assoc] using this

/-! ### atoms -/

theorem followOK_not_lparen {rest : List Token} (h : FollowOK rest) : ∃ t tl, rest = t :: tl ∧ t.ty ≠ .lparen := by
  obtain ⟨t, tl, rfl, ht⟩ := h
  refine ⟨t, tl, rfl, ?_⟩
  intro e; rw [e] at ht; simp [followTy] at ht

theorem pe_atom {t : Token} (n : Node N) (hn : ∀ p, R T (.nud t p) (.node n p)) : MotE N [t] := by
  intro κ0 k κ1 bef rest hk hf hfo hall
  refine expr_of_nudK ⟨n, _, hn _, ?_⟩
  exact hall.1 _ (hf id) n

theorem pe_ident {t : Token} (h : isIdent t) : MotE N [t] := by
  rcases h with h | h
  · exact pe_atom (.field t.value) (fun p => R.nudIdent h)
  · intro κ0 k κ1 bef rest hk hf hfo hall
    obtain ⟨u, tl, rfl, hu⟩ := followOK_not_lparen hfo
    refine expr_of_nudK ⟨.field t.value, _, R.nudQuoted (p := ⟨t :: bef, u :: tl⟩) h rfl hu, ?_⟩
    exact hall.1 _ (hf id) _

theorem pe_current {t : Token} (h : t.ty = .current) : MotE N [t] := pe_atom .current (fun _ => R.nudCurrent h)
theorem pe_raw {t : Token} (h : t.ty = .stringLiteral) : MotE N [t] := pe_atom _ (fun _ => R.nudRaw h)
theorem pe_literal {t : Token} (h : t.ty = .jsonLiteral) (hd : (Json.decode t.value : Option (Val N)).isSome) : MotE N [t] := by
  obtain ⟨v, hv⟩ := Option.isSome_iff_exists.mp hd
  exact pe_atom _ (fun _ => R.nudJson h hv)


theorem pe_star {t : Token} (h : t.ty = .star) : MotE N [t] := by
  intro κ0 k κ1 bef rest hk hf hfo hall
  obtain ⟨u, tl, rfl, hu⟩ := hfo
  by_cases hrb : u.ty = .rbracket
  · refine expr_of_nudK ⟨_, _, R.nudStarR (p := ⟨t :: bef, u :: tl⟩) h rfl hrb, ?_⟩
    exact hall.1 _ (hf id) _
  · obtain ⟨r, p1, hR, hκ⟩ := hall.2 _ (hf (fun r => .valueProj .identity r)) 20 (by omega)
    exact expr_of_nudK ⟨_, _, R.nudStar (p := ⟨t :: bef, u :: tl⟩) h rfl hrb hR, hκ⟩

theorem pe_not {t : Token} {a : List Token} (h : t.ty = .not) (iha : MotE N a) : MotE N (t :: a) := by
  intro κ0 k κ1 bef rest hk hf hfo hall
  have hall' : AllRun κ0 ⟨a.reverse ++ (t :: bef), rest⟩ := by simpa [List.append_assoc] using hall
  obtain ⟨e, p1, hR, hκ⟩ := iha κ0 45 (pushK k (fun e => .not e) κ1) (t :: bef) rest (by omega) (hf.push _ 45) hfo hall'
  exact expr_of_nudK ⟨.not e, p1, R.nudNot h hR, hκ⟩

theorem pe_paren {l r : Token} {a : List Token} (hl : l.ty = .lparen) (hr : r.ty = .rparen) (iha : MotE N a) :
    MotE N (l :: a ++ [r]) := by
  intro κ0 k κ1 bef rest hk hf hfo hall
  have hall' : AllRun κ0 ⟨r :: (a.reverse ++ (l :: bef)), rest⟩ := by
    simpa [List.reverse_append, List.append_assoc] using hall
  let κp : Kont N := fun e p1 => ∃ t tl, p1.after = t :: tl ∧ t.ty = .rparen ∧ pushK k id κ1 e p1.advance
  have h0 : ∀ x, κp x ⟨a.reverse ++ (l :: bef), r :: rest⟩ := fun x => ⟨r, rest, rfl, hr, by
    simpa [PState.advance] using hall'.1 _ (hf id) x⟩
  obtain ⟨e, p1, hR, t, tl, hafter, hty, hκ⟩ := iha κp 0 κp (l :: bef) (r :: rest) (by omega) (Frame.base κp)
    ⟨r, rest, rfl, by rw [hr]; rfl⟩ (allRun_closer (by rw [hr]; rfl) h0)
  have := expr_of_nudK (k := k) (κ := κ1) (bef := bef) (t := l) (tl := a ++ r :: rest)
    ⟨e, p1.advance, R.nudParen hl hR hafter hty, hκ⟩
  simpa [List.append_assoc] using this

/-! ### the right-hand side of a dot -/

def MotDotA (N : Type) [NumOps N] (s : List Token) : Prop :=
  ∀ (κ0 : Kont N) (κ : Kont N) (bp : Nat) (bef rest : List Token), bp ≤ 45 → Stk κ0 κ → FollowOK rest →
    AllRun κ0 ⟨s.reverse ++ bef, rest⟩ → CallK (.dot bp ⟨bef, s ++ rest⟩) κ

def MotDotB (N : Type) [NumOps N] (s : List Token) : Prop :=
  ∀ (κ0 : Kont N) (k : Nat) (κ1 : Kont N) (left : Node N) (bef rest : List Token), Frame κ0 k κ1 → FollowOK rest →
    AllRun κ0 ⟨s.reverse ++ bef, rest⟩ → CallK (.led .dot left ⟨bef, s ++ rest⟩) (pushK k id κ1)

/-- after a dot that is not followed by `*`, the led is a sub-expression -/
theorem dotB_of_dotA {t : Token} {tl : List Token} (hns : t.ty ≠ .star) (h : MotDotA N (t :: tl)) : MotDotB N (t :: tl) := by
  intro κ0 k κ1 left bef rest hf hfo hall
  obtain ⟨r, p1, hR, hκ⟩ := h κ0 (pushK k (fun r => .sub left r) κ1) 40 bef rest (by omega) (hf _) hfo hall
  exact ⟨.sub left r, p1, R.ledDot (p := ⟨bef, t :: tl ++ rest⟩) rfl hns hR, hκ⟩

theorem dotA_of_expr {t : Token} {tl : List Token} (ht : t.ty = .qident ∨ t.ty = .uident) (h : MotE N (t :: tl)) : MotDotA N (t :: tl) := by
  intro κ0 κ bp bef rest hbp hκ hfo hall
  obtain ⟨r, p1, hR, hk⟩ := h κ0 bp κ bef rest hbp (Frame.of_stk hκ bp) hfo hall
  exact ⟨r, p1, R.dotIdent (p := ⟨bef, t :: tl ++ rest⟩) rfl ht hR, hk⟩

theorem dotrhs_ident {t : Token} (h : isIdent t) : MotDotA N [t] ∧ MotDotB N [t] := by
  have hA : MotDotA N [t] := dotA_of_expr (by rcases h with h | h; exact Or.inr h; exact Or.inl h) (pe_ident h)
  refine ⟨hA, dotB_of_dotA ?_ hA⟩
  rcases h with h | h <;> rw [h] <;> decide

theorem dotrhs_star {t : Token} (h : t.ty = .star) : MotDotA N [t] ∧ MotDotB N [t] := by
  constructor
  · intro κ0 κ bp bef rest hbp hκ hfo hall
    obtain ⟨r, p1, hR, hk⟩ := pe_star (N := N) h κ0 bp κ bef rest hbp (Frame.of_stk hκ bp) hfo hall
    exact ⟨r, p1, R.dotStar (p := ⟨bef, [t] ++ rest⟩) rfl h hR, hk⟩
  · intro κ0 k κ1 left bef rest hf hfo hall
    obtain ⟨r, p1, hR, hκ⟩ := hall.2 _ (hf (fun r => .valueProj left r)) 20 (by omega)
    exact ⟨.valueProj left r, p1, R.ledDotStar (p := ⟨bef, [t] ++ rest⟩) rfl h hR, hκ⟩

theorem pe_sub {a b : List Token} {d : Token} (hd : d.ty = .dot) (iha : MotE N a) (ihA : MotDotA N b) (ihB : MotDotB N b) :
    MotE N (a ++ d :: b) := by
  intro κ0 k κ1 bef rest hk hf hfo hall
  have hall' : AllRun κ0 ⟨b.reverse ++ (d :: (a.reverse ++ bef)), rest⟩ := by
    simpa [List.reverse_append, List.append_assoc] using hall
  have hp0 : 0 < specPow d.ty := by rw [hd]; decide
  have L : ∀ k' left κ, k' < specPow d.ty → Frame κ0 k' κ →
      CallK (.led d.ty left ⟨d :: (a.reverse ++ bef), b ++ rest⟩) (pushK k' id κ) :=
    fun k' left κ _ hf' => by rw [hd]; exact ihB κ0 k' κ left _ rest hf' hfo hall'
  have P : ∀ κ, Stk κ0 κ → ∀ bp, bp ≤ 45 → CallK (.prhs bp ⟨a.reverse ++ bef, d :: (b ++ rest)⟩) κ := by
    intro κ hκ bp hbp
    obtain ⟨r, p1, hR, hk'⟩ := ihA κ0 κ bp (d :: (a.reverse ++ bef)) rest hbp hκ hfo hall'
    exact ⟨r, p1, R.prhsDot (p := ⟨a.reverse ++ bef, d :: (b ++ rest)⟩) rfl (by rw [T_power, hd]; decide) hd
      hR, hk'⟩
  have := iha κ0 k κ1 bef (d :: (b ++ rest)) hk hf ⟨d, _, rfl, by rw [hd]; rfl⟩ (allRun_of_led hp0 L P)
  simpa [List.append_assoc] using this


/-! ### bracket specifiers: after an expression (led) and on their own (nud) -/

def MotBr (N : Type) [NumOps N] (s : List Token) : Prop :=
  ∃ t tl, s = t :: tl ∧ (t.ty = .lbracket ∨ t.ty = .flatten ∨ t.ty = .filter) ∧
    (∀ (κ0 : Kont N) (k : Nat) (κ1 : Kont N) (left : Node N) (bef rest : List Token), Frame κ0 k κ1 → FollowOK rest →
      AllRun κ0 ⟨s.reverse ++ bef, rest⟩ → CallK (.led t.ty left ⟨t :: bef, tl ++ rest⟩) (pushK k id κ1)) ∧
    (∀ (κ0 : Kont N) (k : Nat) (κ1 : Kont N) (bef rest : List Token), Frame κ0 k κ1 → FollowOK rest →
      AllRun κ0 ⟨s.reverse ++ bef, rest⟩ → CallK (.nud t ⟨t :: bef, tl ++ rest⟩) (pushK k id κ1))

theorem br_number {l n r : Token} (hl : l.ty = .lbracket) (hn : n.ty = .number) (hr : r.ty = .rbracket)
    (hok : NumOK [l, n, r]) : MotBr N [l, n, r] := by
  obtain ⟨i, hi⟩ := Option.isSome_iff_exists.mp (hok n (by simp) hn)
  refine ⟨l, [n, r], rfl, Or.inl hl, ?_, ?_⟩
  · intro κ0 k κ1 left bef rest hf hfo hall
    rw [hl]
    exact ⟨_, _, R.ledIndex (p := ⟨l :: bef, n :: r :: rest⟩) rfl hn hr hi, by
      simpa [PState.advance] using hall.1 _ (hf id) (.indexExpr left (.index i))⟩
  · intro κ0 k κ1 bef rest hf hfo hall
    exact ⟨_, _, R.nudIndex (p := ⟨l :: bef, n :: r :: rest⟩) hl rfl hn hr hi, by
      simpa [PState.advance] using hall.1 _ (hf id) (.indexExpr .identity (.index i))⟩

/-- what a projection bracket needs of the state after it: a projection's right-hand side may start
    there; and, only if a flatten follows (a filter then takes no right-hand side), every stack accepts -/
def PrhsRun (κ0 : Kont N) (st : PState) : Prop := ∀ κ, Stk κ0 κ → ∀ bp, bp ≤ 45 → CallK (.prhs bp st) κ

def EndOK (κ0 : Kont N) (st : PState) (rest : List Token) : Prop :=
  PrhsRun κ0 st ∧ ((∃ t tl, rest = t :: tl ∧ t.ty = .flatten) → ∀ κ, Stk κ0 κ → ∀ r, κ r st)

theorem EndOK.of_allRun {κ0 : Kont N} {st : PState} {rest : List Token} (h : AllRun κ0 st) : EndOK κ0 st rest :=
  ⟨h.2, fun _ => h.1⟩

def HeadLB (rest : List Token) : Prop := ∃ t tl, rest = t :: tl ∧ t.ty = .lbracket

theorem EndOK.of_prhs {κ0 : Kont N} {st : PState} {rest : List Token} (hl : HeadLB rest) (h : PrhsRun κ0 st) : EndOK κ0 st rest := by
  refine ⟨h, ?_⟩
  rintro ⟨t, tl, e, ht⟩
  obtain ⟨t', tl', e', ht'⟩ := hl
  rw [e] at e'; simp only [List.cons.injEq] at e'; rw [← e'.1, ht] at ht'; cases ht'

/-- projection brackets (`[*]`, `[]`, slices, filters): led and nud, needing only `EndOK` afterwards -/
def MotBrP (N : Type) [NumOps N] (s : List Token) : Prop :=
  ∃ t tl, s = t :: tl ∧ (t.ty = .lbracket ∨ t.ty = .flatten ∨ t.ty = .filter) ∧
    (∀ (κ0 : Kont N) (k : Nat) (κ1 : Kont N) (left : Node N) (bef rest : List Token), Frame κ0 k κ1 → rest ≠ [] →
      EndOK κ0 ⟨s.reverse ++ bef, rest⟩ rest → CallK (.led t.ty left ⟨t :: bef, tl ++ rest⟩) (pushK k id κ1)) ∧
    (∀ (κ0 : Kont N) (k : Nat) (κ1 : Kont N) (bef rest : List Token), Frame κ0 k κ1 → rest ≠ [] →
      EndOK κ0 ⟨s.reverse ++ bef, rest⟩ rest → CallK (.nud t ⟨t :: bef, tl ++ rest⟩) (pushK k id κ1))

theorem followOK_ne {rest : List Token} (h : FollowOK rest) : rest ≠ [] := by
  obtain ⟨t, tl, rfl, _⟩ := h; simp

theorem motBr_of_P {s : List Token} (h : MotBrP N s) : MotBr N s := by
  obtain ⟨t, tl, rfl, hty, hled, hnud⟩ := h
  exact ⟨t, tl, rfl, hty, fun κ0 k κ1 left bef rest hf hfo hall => hled κ0 k κ1 left bef rest hf (followOK_ne hfo) (.of_allRun hall),
    fun κ0 k κ1 bef rest hf hfo hall => hnud κ0 k κ1 bef rest hf (followOK_ne hfo) (.of_allRun hall)⟩

theorem br_star {l s r : Token} (hl : l.ty = .lbracket) (hs : s.ty = .star) (hr : r.ty = .rbracket) : MotBrP N [l, s, r] := by
  refine ⟨l, [s, r], rfl, Or.inl hl, ?_, ?_⟩
  · intro κ0 k κ1 left bef rest hf _ hall
    obtain ⟨x, p1, hR, hκ⟩ := hall.1 _ (hf (fun x => .proj left x)) 20 (by omega)
    rw [hl]
    exact ⟨_, p1, R.ledBracketStar (p := ⟨l :: bef, s :: r :: rest⟩) rfl hs hr hR, hκ⟩
  · intro κ0 k κ1 bef rest hf _ hall
    obtain ⟨x, p1, hR, hκ⟩ := hall.1 _ (hf (fun x => .proj .identity x)) 20 (by omega)
    exact ⟨_, p1, R.nudBracketStar (p := ⟨l :: bef, s :: r :: rest⟩) hl rfl hs hr hR, hκ⟩

theorem br_flatten {t : Token} (h : t.ty = .flatten) : MotBrP N [t] := by
  refine ⟨t, [], rfl, Or.inr (Or.inl h), ?_, ?_⟩
  · intro κ0 k κ1 left bef rest hf _ hall
    obtain ⟨x, p1, hR, hκ⟩ := hall.1 _ (hf (fun x => .proj (.flatten left) x)) 9 (by omega)
    rw [h]
    exact ⟨_, p1, R.ledFlatten hR, hκ⟩
  · intro κ0 k κ1 bef rest hf _ hall
    obtain ⟨x, p1, hR, hκ⟩ := hall.1 _ (hf (fun x => .proj (.flatten .identity) x)) 9 (by omega)
    exact ⟨_, p1, R.nudFlatten h hR, hκ⟩

theorem filter_ok {e : List Token} (ihe : MotE N e) {r : Token} (hr : r.ty = .rbracket) {κ0 : Kont N} {k : Nat} {κ1 : Kont N}
    (n : Node N) (bef rest : List Token) (hf : Frame κ0 k κ1) (hne : rest ≠ [])
    (hall : EndOK κ0 ⟨r :: (e.reverse ++ bef), rest⟩ rest) : CallK (.filter n ⟨bef, e ++ r :: rest⟩) (pushK k id κ1) := by
  obtain ⟨u, tl, rfl⟩ : ∃ u tl, rest = u :: tl := by
    cases rest with
    | nil => exact absurd rfl hne
    | cons u tl => exact ⟨u, tl, rfl⟩
  let κf : Kont N := fun cond p1 =>
    (∃ rb t rest', p1.after = rb :: t :: rest' ∧ rb.ty = .rbracket ∧ t.ty = .flatten ∧
      pushK k id κ1 (.filterProj n .identity cond) p1.advance) ∨
    (∃ rb t rest', p1.after = rb :: t :: rest' ∧ rb.ty = .rbracket ∧ t.ty ≠ .flatten ∧
      CallK (.prhs 21 p1.advance) (fun x p2 => pushK k id κ1 (.filterProj n x cond) p2))
  have h0 : ∀ x, κf x ⟨e.reverse ++ bef, r :: u :: tl⟩ := by
    intro x
    by_cases hfl : u.ty = .flatten
    · exact Or.inl ⟨r, u, tl, rfl, hr, hfl, by simpa [PState.advance] using hall.2 ⟨u, tl, rfl, hfl⟩ _ (hf id) _⟩
    · exact Or.inr ⟨r, u, tl, rfl, hr, hfl,
        hall.1 _ (hf (fun y => .filterProj n y x)) 21 (by omega)⟩
  obtain ⟨cond, p1, hR, hc⟩ := ihe κf 0 κf bef (r :: u :: tl) (by omega) (Frame.base κf) ⟨r, _, rfl, by rw [hr]; rfl⟩
    (allRun_closer (by rw [hr]; rfl) h0)
  rcases hc with ⟨rb, t, rest', hafter, hrb, ht, hκ⟩ | ⟨rb, t, rest', hafter, hrb, ht, x, p2, hR2, hκ⟩
  · exact ⟨_, _, R.filterFlat hR hafter hrb ht, hκ⟩
  · exact ⟨_, p2, R.filterRhs hR hafter hrb ht hR2, hκ⟩

theorem br_filter {l r : Token} {e : List Token} (hl : l.ty = .filter) (hr : r.ty = .rbracket) (ihe : MotE N e) :
    MotBrP N (l :: e ++ [r]) := by
  refine ⟨l, e ++ [r], rfl, Or.inr (Or.inr hl), ?_, ?_⟩
  · intro κ0 k κ1 left bef rest hf hne hall
    have hall' : EndOK κ0 ⟨r :: (e.reverse ++ (l :: bef)), rest⟩ rest := by
      simpa [List.reverse_append, List.append_assoc] using hall
    obtain ⟨x, p1, hR, hκ⟩ := filter_ok ihe hr left (l :: bef) rest hf hne hall'
    rw [hl]
    exact ⟨x, p1, R.ledFilter (by simpa [List.append_assoc] using hR), hκ⟩
  · intro κ0 k κ1 bef rest hf hne hall
    have hall' : EndOK κ0 ⟨r :: (e.reverse ++ (l :: bef)), rest⟩ rest := by
      simpa [List.reverse_append, List.append_assoc] using hall
    obtain ⟨x, p1, hR, hκ⟩ := filter_ok ihe hr .identity (l :: bef) rest hf hne hall'
    exact ⟨x, p1, R.nudFilter hl (by simpa [List.append_assoc] using hR), hκ⟩

/-! ### slices -/

macro "slice_simp" : tactic =>
  `(tactic| simp [parseIndexExpression, parseSliceExpression, sliceLoop, PState.cur, PState.look1, PState.curTok,
      PState.advance, PState.expect, bind, Res.bind, *])

theorem optNum_cases {l : List Token} (h : OptNum l) (hok : NumOK l) :
    l = [] ∨ ∃ n i, l = [n] ∧ n.ty = .number ∧ atoi n.value = some i := by
  rcases h with rfl | ⟨n, rfl, hn⟩
  · exact Or.inl rfl
  · obtain ⟨i, hi⟩ := Option.isSome_iff_exists.mp (hok n (by simp) hn)
    exact Or.inr ⟨n, i, rfl, hn, hi⟩

omit [NumOps N] in
theorem slice_parse {s : List Token} (hs : SliceG s) (hok : NumOK s) :
    ∃ nd : Node N, isSliceNode nd = true ∧ (∃ t tl, s = t :: tl ∧ (t.ty = .number ∨ t.ty = .colon)) ∧
      ∀ (bef rest : List Token) (r : Token), r.ty = .rbracket →
        parseIndexExpression (N := N) ⟨bef, s ++ r :: rest⟩ = .ok (nd, ⟨r :: (s.reverse ++ bef), rest⟩) := by
  obtain ⟨a, c1, b, ha, hc1, hb, hs⟩ := hs
  rcases hs with rfl | ⟨c2, c, hc2, hc, rfl⟩
  · have ha' := optNum_cases ha hok.left
    have hb' := optNum_cases hb hok.right.tail
    rcases ha' with rfl | ⟨na, ia, rfl, hna, hia⟩ <;> rcases hb' with rfl | ⟨nb, ib, rfl, hnb, hib⟩
    · exact ⟨.slice none none none, rfl, ⟨_, _, rfl, Or.inr hc1⟩, fun bef rest r hr => by slice_simp⟩
    · exact ⟨.slice none (some ib) none, rfl, ⟨_, _, rfl, Or.inr hc1⟩, fun bef rest r hr => by slice_simp⟩
    · exact ⟨.slice (some ia) none none, rfl, ⟨_, _, rfl, Or.inl hna⟩, fun bef rest r hr => by slice_simp⟩
    · exact ⟨.slice (some ia) (some ib) none, rfl, ⟨_, _, rfl, Or.inl hna⟩, fun bef rest r hr => by
        slice_simp⟩
  · have ha' := optNum_cases ha hok.left
    have hb' := optNum_cases hb hok.right.tail.left
    have hc' := optNum_cases hc hok.right.tail.right.tail
    rcases ha' with rfl | ⟨na, ia, rfl, hna, hia⟩ <;> rcases hb' with rfl | ⟨nb, ib, rfl, hnb, hib⟩ <;>
      rcases hc' with rfl | ⟨nc, ic, rfl, hnc, hic⟩
    · exact ⟨.slice none none none, rfl, ⟨_, _, rfl, Or.inr hc1⟩, fun bef rest r hr => by slice_simp⟩
    · exact ⟨.slice none none (some ic), rfl, ⟨_, _, rfl, Or.inr hc1⟩, fun bef rest r hr => by slice_simp⟩
    · exact ⟨.slice none (some ib) none, rfl, ⟨_, _, rfl, Or.inr hc1⟩, fun bef rest r hr => by slice_simp⟩
    · exact ⟨.slice none (some ib) (some ic), rfl, ⟨_, _, rfl, Or.inr hc1⟩, fun bef rest r hr => by
        slice_simp⟩
    · exact ⟨.slice (some ia) none none, rfl, ⟨_, _, rfl, Or.inl hna⟩, fun bef rest r hr => by slice_simp⟩
    · exact ⟨.slice (some ia) none (some ic), rfl, ⟨_, _, rfl, Or.inl hna⟩, fun bef rest r hr => by
        slice_simp⟩
    · exact ⟨.slice (some ia) (some ib) none, rfl, ⟨_, _, rfl, Or.inl hna⟩, fun bef rest r hr => by
        slice_simp⟩
    · exact ⟨.slice (some ia) (some ib) (some ic), rfl, ⟨_, _, rfl, Or.inl hna⟩, fun bef rest r hr => by
        slice_simp⟩


theorem br_slice {l r : Token} {s : List Token} (hl : l.ty = .lbracket) (hs : SliceG s) (hr : r.ty = .rbracket)
    (hok : NumOK (l :: s ++ [r])) : MotBrP N (l :: s ++ [r]) := by
  obtain ⟨nd, hnd, ⟨t, tl, hst, htt⟩, hparse⟩ := slice_parse (N := N) hs hok.tail.left
  refine ⟨l, s ++ [r], rfl, Or.inl hl, ?_, ?_⟩
  · intro κ0 k κ1 left bef rest hf _ hall
    have hall' : EndOK κ0 ⟨r :: (s.reverse ++ (l :: bef)), rest⟩ rest := by
      simpa [List.reverse_append, List.append_assoc] using hall
    obtain ⟨x, p1, hR, hκ⟩ := hall'.1 _ (hf (fun x => .proj (.indexExpr left nd) x)) 20 (by omega)
    rw [hl]
    refine ⟨_, p1, R.ledBracketIdx (p := ⟨l :: bef, (s ++ [r]) ++ rest⟩) (t := t) (rest := tl ++ [r] ++ rest)
      (by simp [hst]) htt (by simpa [List.append_assoc] using hparse (l :: bef) rest r hr) (R.pisSlice hnd hR), hκ⟩
  · intro κ0 k κ1 bef rest hf _ hall
    have hall' : EndOK κ0 ⟨r :: (s.reverse ++ (l :: bef)), rest⟩ rest := by
      simpa [List.reverse_append, List.append_assoc] using hall
    obtain ⟨x, p1, hR, hκ⟩ := hall'.1 _ (hf (fun x => .proj (.indexExpr .identity nd) x)) 20 (by omega)
    refine ⟨_, p1, R.nudBracketIdx (p := ⟨l :: bef, (s ++ [r]) ++ rest⟩) (t := t) (rest := tl ++ [r] ++ rest) hl
      (by simp [hst]) htt (by simpa [List.append_assoc] using hparse (l :: bef) rest r hr) (R.pisSlice hnd hR), hκ⟩

theorem br_pow {t : Token} (h : t.ty = .lbracket ∨ t.ty = .flatten ∨ t.ty = .filter) : 0 < specPow t.ty ∧ followTy t.ty = true := by
  rcases h with h | h | h <;> rw [h] <;> decide

theorem allRun_bracket {b : List Token} (ihb : MotBr N b) {κ0 : Kont N} {bef rest : List Token} (hfo : FollowOK rest)
    (hall : AllRun κ0 ⟨b.reverse ++ bef, rest⟩) : AllRun κ0 ⟨bef, b ++ rest⟩ ∧ FollowOK (b ++ rest) := by
  obtain ⟨t, tl, rfl, hty, hled, hnud⟩ := ihb
  obtain ⟨hp0, hft⟩ := br_pow hty
  have L : ∀ k' left κ, k' < specPow t.ty → Frame κ0 k' κ → CallK (.led t.ty left ⟨t :: bef, tl ++ rest⟩) (pushK k' id κ) :=
    fun k' left κ _ hf' => hled κ0 k' κ left bef rest hf' hfo hall
  refine ⟨allRun_of_led hp0 L ?_, ⟨t, _, rfl, hft⟩⟩
  intro κ hκ bp hbp
  rcases hty with h | h | h
  · obtain ⟨x, p1, hR, hk⟩ := expr_of_nudK (hnud κ0 bp κ bef rest (Frame.of_stk hκ bp) hfo hall)
    exact ⟨x, p1, R.prhsBracket (p := ⟨bef, t :: tl ++ rest⟩) rfl (by rw [T_power, h]; decide) (Or.inl h) hR, hk⟩
  · exact prhs_id (by rw [h]; decide) (dispatch hp0 L κ hκ _)
  · obtain ⟨x, p1, hR, hk⟩ := expr_of_nudK (hnud κ0 bp κ bef rest (Frame.of_stk hκ bp) hfo hall)
    exact ⟨x, p1, R.prhsBracket (p := ⟨bef, t :: tl ++ rest⟩) rfl (by rw [T_power, h]; decide) (Or.inr h) hR, hk⟩

theorem pe_index {a b : List Token} (iha : MotE N a) (ihb : MotBr N b) : MotE N (a ++ b) := by
  intro κ0 k κ1 bef rest hk hf hfo hall
  have hall' : AllRun κ0 ⟨b.reverse ++ (a.reverse ++ bef), rest⟩ := by
    simpa [List.reverse_append, List.append_assoc] using hall
  obtain ⟨h1, h2⟩ := allRun_bracket ihb hfo hall'
  have := iha κ0 k κ1 bef (b ++ rest) hk hf h2 h1
  simpa [List.append_assoc] using this

theorem pe_index0 {b : List Token} (ihb : MotBr N b) : MotE N b := by
  intro κ0 k κ1 bef rest hk hf hfo hall
  obtain ⟨t, tl, rfl, hty, hled, hnud⟩ := ihb
  exact expr_of_nudK (hnud κ0 k κ1 bef rest hf hfo hall)


/-! ### first and second tokens of grammatical phrases -/

def headOK : Cat → TokType → Prop
  | .expr, ty | .elems, ty | .openExpr, ty => startTy ty = true
  | .args, ty | .arg, ty => startTy ty = true ∨ ty = .expref
  | .bracket, ty => ty = .lbracket ∨ ty = .flatten ∨ ty = .filter
  | .msList, ty => ty = .lbracket
  | .msHash, ty => ty = .lbrace
  | .call, ty => ty = .uident
  | _, _ => True

theorem G_head {l : Bool} {c : Cat} {s : List Token} (h : G N l c s) : ∃ t tl, s = t :: tl ∧ headOK c t.ty := by
  induction h with
  | ident h => exact ⟨_, _, rfl, by rcases h with h | h <;> simp [headOK, startTy, h]⟩
  | star h | current h | raw h | literal h _ => exact ⟨_, _, rfl, by simp [headOK, startTy, h]⟩
  | sub _ _ _ ih _ | bin _ _ _ ih _ | index _ _ ih _ | lenientList _ _ _ ih _ | elemsMore _ _ _ ih _ | openIdx _ _ _ ih _ | openDotStar _ _ _ ih =>
    obtain ⟨t, tl, rfl, ht⟩ := ih; exact ⟨t, _, rfl, ht⟩
  | openIdx0 _ _ ih => obtain ⟨t, tl, rfl, ht⟩ := ih; exact ⟨t, _, rfl, by rcases ht with h | h | h <;> simp [headOK, startTy, h]⟩
  | openStar h => exact ⟨_, _, rfl, by simp [headOK, startTy, h]⟩
  | argsMore _ _ _ ih _ => obtain ⟨t, tl, rfl, ht⟩ := ih; exact ⟨t, _, rfl, ht⟩
  | not h _ _ | paren h _ _ _ => exact ⟨_, _, rfl, by simp [headOK, startTy, h]⟩
  | index0 _ ih => obtain ⟨t, tl, rfl, ht⟩ := ih; exact ⟨t, _, rfl, by rcases ht with h | h | h <;> simp [headOK, startTy, h]⟩
  | list _ ih | hash _ ih | fn _ ih =>
    obtain ⟨t, tl, rfl, ht⟩ := ih; exact ⟨t, _, rfl, by simp only [headOK] at ht; simp [headOK, startTy, ht]⟩
  | elemsOne _ ih | argsOne _ ih => exact ih
  | argExpr _ ih => obtain ⟨t, tl, rfl, ht⟩ := ih; exact ⟨t, _, rfl, Or.inl ht⟩
  | argRef h _ _ => exact ⟨_, _, rfl, Or.inr h⟩
  | brNumber h _ _ _ | brStar h _ _ | brSlice h _ _ _ => exact ⟨_, _, rfl, Or.inl h⟩
  | brFlatten h => exact ⟨_, _, rfl, Or.inr (Or.inl h)⟩
  | brFilter h _ _ _ => exact ⟨_, _, rfl, Or.inr (Or.inr h)⟩
  | msList h _ _ _ | msHash h _ _ _ | call0 h _ _ | callArgs h _ _ _ _ => exact ⟨_, _, rfl, h⟩
  | dotIdent _ | dotStar _ => exact ⟨_, _, rfl, trivial⟩
  | dotList _ ih | dotHash _ ih | dotFn _ ih => obtain ⟨t, tl, rfl, _⟩ := ih; exact ⟨t, _, rfl, trivial⟩
  | kvsOne _ _ _ _ | kvsMore _ _ _ _ _ _ _ => exact ⟨_, _, rfl, trivial⟩

/-- a phrase that starts with `*` does not continue with `]` -/
def StarSnd (s : List Token) : Prop := ∀ x y ys, s = x :: y :: ys → x.ty = .star → y.ty ≠ .rbracket

theorem starSnd_append {a b : List Token} (ha : a ≠ []) (iha : StarSnd a) (hb : ∀ t tl, b = t :: tl → t.ty ≠ .rbracket) :
    StarSnd (a ++ b) := by
  intro x y ys h hx
  cases a with
  | nil => exact absurd rfl ha
  | cons x' a' =>
    cases a' with
    | nil =>
      simp only [List.cons_append, List.nil_append, List.cons.injEq] at h
      exact hb y ys h.2
    | cons y' a'' =>
      simp only [List.cons_append, List.cons.injEq] at h
      obtain ⟨rfl, rfl, _⟩ := h
      exact iha _ _ _ rfl hx

theorem starSnd_of_head {s : List Token} (h : ∀ t tl, s = t :: tl → t.ty ≠ .star) : StarSnd s :=
  fun x y ys hs hx => absurd hx (h x _ hs)

theorem G_starSnd {l : Bool} {c : Cat} {s : List Token} (h : G N l c s) : (c = .expr ∨ c = .elems ∨ c = .openExpr) → StarSnd s := by
  induction h with
  | ident _ | star _ | current _ | raw _ | literal _ _ => intro _ x y ys h; simp at h
  | sub ha hd _ ih _ =>
    intro _; exact starSnd_append (G_ne ha) (ih (Or.inl rfl)) (fun t tl h => by
      simp only [List.cons.injEq] at h; rw [← h.1, hd]; decide)
  | bin ha ho _ ih _ =>
    intro _; exact starSnd_append (G_ne ha) (ih (Or.inl rfl)) (fun t tl h => by
      simp only [List.cons.injEq] at h; rw [← h.1]; intro e; rw [e] at ho; simp [isBinOp, Cmp.ofTok] at ho)
  | elemsMore ha hc _ ih _ =>
    intro _; exact starSnd_append (G_ne ha) (ih (Or.inl rfl)) (fun t tl h => by
      simp only [List.cons.injEq] at h; rw [← h.1, hc]; decide)
  | index ha hb ih _ =>
    intro _; exact starSnd_append (G_ne ha) (ih (Or.inl rfl)) (fun t tl h => by
      obtain ⟨t', tl', h', ht'⟩ := G_head hb
      rw [h'] at h; simp only [List.cons.injEq] at h; rw [← h.1]
      rcases ht' with e | e | e <;> rw [e] <;> decide)
  | lenientList _ ha hb ih _ =>
    intro _; exact starSnd_append (G_ne ha) (ih (Or.inr (Or.inr rfl))) (fun t tl h => by
      obtain ⟨t', tl', h', ht'⟩ := G_head hb
      rw [h'] at h; simp only [List.cons.injEq] at h; rw [← h.1]
      simp only [headOK] at ht'; rw [ht']; decide)
  | not h _ _ | paren h _ _ _ =>
    intro _; exact starSnd_of_head (fun t tl e => by simp only [List.cons_append, List.cons.injEq] at e; rw [← e.1, h]; decide)
  | index0 hb _ | list hb _ | hash hb _ | fn hb _ =>
    intro _; exact starSnd_of_head (fun t tl e => by
      obtain ⟨t', tl', h', ht'⟩ := G_head hb
      rw [h'] at e; simp only [List.cons.injEq] at e; rw [← e.1]
      first | (have e' : t'.ty = _ := ht'; rw [e']; decide) | (rcases ht' with e' | e' | e' <;> rw [e'] <;> decide))
  | elemsOne _ ih => intro _; exact ih (Or.inl rfl)
  | openIdx ha hb _ ih _ =>
    intro _; exact starSnd_append (G_ne ha) (ih (Or.inl rfl)) (fun t tl h => by
      obtain ⟨t', tl', h', ht'⟩ := G_head hb
      rw [h'] at h; simp only [List.cons.injEq] at h; rw [← h.1]
      rcases ht' with e | e | e <;> rw [e] <;> decide)
  | openIdx0 hb _ _ =>
    intro _; exact starSnd_of_head (fun t tl e => by
      obtain ⟨t', tl', h', ht'⟩ := G_head hb
      rw [h'] at e; simp only [List.cons.injEq] at e; rw [← e.1]
      rcases ht' with e' | e' | e' <;> rw [e'] <;> decide)
  | openDotStar ha hd _ ih =>
    intro _; exact starSnd_append (G_ne ha) (ih (Or.inl rfl)) (fun t tl h => by
      simp only [List.cons.injEq] at h; rw [← h.1, hd]; decide)
  | openStar _ => intro _ x y ys h; simp at h
  | _ => intro h; rcases h with h | h | h <;> cases h


/-! ### multi-select lists -/

def MotElems (N : Type) [NumOps N] (s : List Token) : Prop :=
  ∀ (acc : List (Node N)) (bef : List Token) (r : Token) (rest' : List Token) (κ : Kont N), r.ty = .rbracket →
    (∀ n, κ n ⟨r :: (s.reverse ++ bef), rest'⟩) → CallK (.msl ⟨bef, s ++ r :: rest'⟩ acc) κ

theorem elems_one {a : List Token} (iha : MotE N a) : MotElems N a := by
  intro acc bef r rest' κ hr hκ
  let κm : Kont N := fun e p1 => ∃ t tl, p1.after = t :: tl ∧ t.ty = .rbracket ∧ κ (.msList (e :: acc).reverse) p1.advance
  have h0 : ∀ x, κm x ⟨a.reverse ++ bef, r :: rest'⟩ := fun x => ⟨r, rest', rfl, hr, hκ _⟩
  obtain ⟨e, p1, hR, t, tl, hafter, hty, hk⟩ := iha κm 0 κm bef (r :: rest') (by omega) (Frame.base κm)
    ⟨r, _, rfl, by rw [hr]; rfl⟩ (allRun_closer (by rw [hr]; rfl) h0)
  exact ⟨_, _, R.mslLast hR hafter hty, hk⟩

theorem elems_more {a b : List Token} {c : Token} (iha : MotE N a) (hc : c.ty = .comma) (ihb : MotElems N b) :
    MotElems N (a ++ c :: b) := by
  intro acc bef r rest' κ hr hκ
  let κm : Kont N := fun e p1 => ∃ t tl, p1.after = t :: tl ∧ t.ty = .comma ∧ CallK (.msl p1.advance (e :: acc)) κ
  have h0 : ∀ x, κm x ⟨a.reverse ++ bef, c :: (b ++ r :: rest')⟩ := fun x => ⟨c, _, rfl, hc,
    ihb (x :: acc) (c :: (a.reverse ++ bef)) r rest' κ hr (fun n => by
      simpa [List.reverse_append, List.append_assoc] using hκ n)⟩
  obtain ⟨e, p1, hR, t, tl, hafter, hty, x, st', hR2, hk⟩ := iha κm 0 κm bef (c :: (b ++ r :: rest')) (by omega) (Frame.base κm)
    ⟨c, _, rfl, by rw [hc]; rfl⟩ (allRun_closer (by rw [hc]; rfl) h0)
  exact ⟨x, st', by simpa [List.append_assoc] using R.mslMore hR hafter hty hR2, hk⟩

def ListShape (tl : List Token) : Prop :=
  (∃ x r, tl = [x, r] ∧ x.ty = .star ∧ r.ty = .rbracket) ∨
  (∃ x y ys, tl = x :: y :: ys ∧ startTy x.ty = true ∧ ¬ (x.ty = .star ∧ y.ty = .rbracket))

def MotList (N : Type) [NumOps N] (s : List Token) : Prop :=
  ∃ l tl, s = l :: tl ∧ l.ty = .lbracket ∧ ListShape tl ∧
    ∀ (κ : Kont N) (bef rest : List Token), (∀ x, κ x ⟨s.reverse ++ bef, rest⟩) → CallK (.msl ⟨l :: bef, tl ++ rest⟩ []) κ

theorem ms_list {lz : Bool} {l r : Token} {e : List Token} (hl : l.ty = .lbracket) (he : G N lz .elems e) (ihe : MotElems N e)
    (hr : r.ty = .rbracket) : MotList N (l :: e ++ [r]) := by
  refine ⟨l, e ++ [r], rfl, hl, ?_, ?_⟩
  · obtain ⟨x, xs, rfl, hx⟩ := G_head he
    cases xs with
    | nil =>
      by_cases hs : x.ty = .star
      · exact Or.inl ⟨x, r, rfl, hs, hr⟩
      · exact Or.inr ⟨x, r, [], rfl, hx, fun h => hs h.1⟩
    | cons y ys => exact Or.inr ⟨x, y, ys ++ [r], rfl, hx, fun h => G_starSnd he (Or.inr (Or.inl rfl)) x y ys rfl h.1 h.2⟩
  · intro κ bef rest hκ
    have := ihe [] (l :: bef) r rest κ hr (fun n => by simpa [List.reverse_append, List.append_assoc] using hκ n)
    simpa [List.append_assoc] using this

theorem pe_list {b : List Token} (ih : MotList N b) : MotE N b := by
  obtain ⟨l, tl, rfl, hl, shape, hmsl⟩ := ih
  intro κ0 k κ1 bef rest hk hf hfo hall
  rcases shape with ⟨x, r, rfl, hx, hr⟩ | ⟨x, y, ys, rfl, hx, hns⟩
  · exact pe_index0 (motBr_of_P (br_star hl hx hr)) κ0 k κ1 bef rest hk hf hfo hall
  · obtain ⟨n, p1, hR, hκ⟩ := hmsl (pushK k id κ1) bef rest (fun x => hall.1 _ (hf id) x)
    obtain ⟨h1, h2, h3, h4, h5, h6⟩ := start_ne hx
    by_cases hs : x.ty = .star
    · exact expr_of_nudK ⟨n, p1, R.nudListStar (p := ⟨l :: bef, x :: y :: ys ++ rest⟩) hl rfl hs (fun h => hns ⟨hs, h⟩) hR, hκ⟩
    · exact expr_of_nudK ⟨n, p1, R.nudList (p := ⟨l :: bef, x :: y :: ys ++ rest⟩) hl rfl h3 h4 hs hR, hκ⟩

theorem dotrhs_list {b : List Token} (ih : MotList N b) : MotDotA N b ∧ MotDotB N b := by
  obtain ⟨l, tl, rfl, hl, shape, hmsl⟩ := ih
  have hA : MotDotA N (l :: tl) := by
    intro κ0 κ bp bef rest hbp hκ hfo hall
    obtain ⟨n, p1, hR, hk⟩ := hmsl κ bef rest (fun x => hall.1 κ hκ x)
    exact ⟨n, p1, R.dotList (p := ⟨bef, l :: tl ++ rest⟩) rfl hl hR, hk⟩
  exact ⟨hA, dotB_of_dotA (by rw [hl]; decide) hA⟩

/-! ### multi-select hashes -/

def MotKvs (N : Type) [NumOps N] (s : List Token) : Prop :=
  ∀ (acc : List (Bytes × Node N)) (bef : List Token) (r : Token) (rest' : List Token) (κ : Kont N), r.ty = .rbrace →
    (∀ n, κ n ⟨r :: (s.reverse ++ bef), rest'⟩) → CallK (.msh ⟨bef, s ++ r :: rest'⟩ acc) κ

theorem kvs_one {k c : Token} {a : List Token} (hk : isIdent k) (hc : c.ty = .colon) (iha : MotE N a) : MotKvs N (k :: c :: a) := by
  intro acc bef r rest' κ hr hκ
  let κm : Kont N := fun v p2 => ∃ t tl, p2.after = t :: tl ∧ t.ty = .rbrace ∧ κ (.msHash ((k.value, v) :: acc).reverse) p2.advance
  have h0 : ∀ x, κm x ⟨a.reverse ++ (c :: k :: bef), r :: rest'⟩ := fun x => ⟨r, rest', rfl, hr, by
    simpa [PState.advance, List.append_assoc] using hκ _⟩
  obtain ⟨v, p2, hR, t, tl, hafter, hty, hk'⟩ := iha κm 0 κm (c :: k :: bef) (r :: rest') (by omega) (Frame.base κm)
    ⟨r, _, rfl, by rw [hr]; rfl⟩ (allRun_closer (by rw [hr]; rfl) h0)
  exact ⟨_, _, R.mshLast (p := ⟨bef, k :: c :: a ++ r :: rest'⟩) rfl hk hc hR hafter hty, hk'⟩

theorem kvs_more {k c m : Token} {a b : List Token} (hk : isIdent k) (hc : c.ty = .colon) (iha : MotE N a) (hm : m.ty = .comma)
    (ihb : MotKvs N b) : MotKvs N (k :: c :: a ++ m :: b) := by
  intro acc bef r rest' κ hr hκ
  let κm : Kont N := fun v p2 => ∃ t tl, p2.after = t :: tl ∧ t.ty = .comma ∧ CallK (.msh p2.advance ((k.value, v) :: acc)) κ
  have h0 : ∀ x, κm x ⟨a.reverse ++ (c :: k :: bef), m :: (b ++ r :: rest')⟩ := fun x => ⟨m, _, rfl, hm,
    ihb ((k.value, x) :: acc) (m :: (a.reverse ++ (c :: k :: bef))) r rest' κ hr (fun n => by
      simpa [List.reverse_append, List.append_assoc] using hκ n)⟩
  obtain ⟨v, p2, hR, t, tl, hafter, hty, x, st', hR2, hk'⟩ := iha κm 0 κm (c :: k :: bef) (m :: (b ++ r :: rest')) (by omega)
    (Frame.base κm) ⟨m, _, rfl, by rw [hm]; rfl⟩ (allRun_closer (by rw [hm]; rfl) h0)
  exact ⟨x, st', by
    simpa [List.append_assoc] using
      R.mshMore (p := ⟨bef, k :: c :: (a ++ m :: (b ++ r :: rest'))⟩) rfl hk hc hR hafter hty hR2, hk'⟩

def MotHash (N : Type) [NumOps N] (s : List Token) : Prop :=
  ∃ l tl, s = l :: tl ∧ l.ty = .lbrace ∧
    ∀ (κ : Kont N) (bef rest : List Token), (∀ x, κ x ⟨s.reverse ++ bef, rest⟩) → CallK (.msh ⟨l :: bef, tl ++ rest⟩ []) κ

theorem ms_hash {l r : Token} {e : List Token} (hl : l.ty = .lbrace) (ihe : MotKvs N e) (hr : r.ty = .rbrace) :
    MotHash N (l :: e ++ [r]) := by
  refine ⟨l, e ++ [r], rfl, hl, ?_⟩
  intro κ bef rest hκ
  have := ihe [] (l :: bef) r rest κ hr (fun n => by simpa [List.reverse_append, List.append_assoc] using hκ n)
  simpa [List.append_assoc] using this

theorem pe_hash {b : List Token} (ih : MotHash N b) : MotE N b := by
  obtain ⟨l, tl, rfl, hl, hmsh⟩ := ih
  intro κ0 k κ1 bef rest hk hf hfo hall
  obtain ⟨n, p1, hR, hκ⟩ := hmsh (pushK k id κ1) bef rest (fun x => hall.1 _ (hf id) x)
  exact expr_of_nudK ⟨n, p1, R.nudHash hl hR, hκ⟩

theorem dotrhs_hash {b : List Token} (ih : MotHash N b) : MotDotA N b ∧ MotDotB N b := by
  obtain ⟨l, tl, rfl, hl, hmsh⟩ := ih
  have hA : MotDotA N (l :: tl) := by
    intro κ0 κ bp bef rest hbp hκ hfo hall
    obtain ⟨n, p1, hR, hk⟩ := hmsh κ bef rest (fun x => hall.1 κ hκ x)
    exact ⟨n, p1, R.dotHash (p := ⟨bef, l :: tl ++ rest⟩) rfl hl hR, hk⟩
  exact ⟨hA, dotB_of_dotA (by rw [hl]; decide) hA⟩


/-! ### function calls -/

def MotArg (N : Type) [NumOps N] (s : List Token) : Prop :=
  ∀ (bef rest : List Token) (κf κt : Kont N), (∃ t tl, rest = t :: tl ∧ (t.ty = .comma ∨ t.ty = .rparen)) →
    (∀ e, κf e ⟨s.reverse ++ bef, rest⟩) → (∀ e, κt e ⟨s.reverse ++ bef, rest⟩) →
    ∃ t0 s', s = t0 :: s' ∧ ((t0.ty ≠ .expref ∧ CallK (.expr 0 ⟨bef, s ++ rest⟩) κf) ∨
      (t0.ty = .expref ∧ CallK (.expr 0 ⟨t0 :: bef, s' ++ rest⟩) κt))

theorem closer_pow {t : Token} (h : t.ty = .comma ∨ t.ty = .rparen) : specPow t.ty = 0 ∧ followTy t.ty = true := by
  rcases h with h | h <;> rw [h] <;> decide

theorem margs_expr {lz : Bool} {a : List Token} (ha : G N lz .expr a) (iha : MotE N a) : MotArg N a := by
  intro bef rest κf κt hrest hf ht
  obtain ⟨t, tl, rfl, hty⟩ := hrest
  obtain ⟨hp, hft⟩ := closer_pow hty
  obtain ⟨t0, s', rfl, h0⟩ := G_head ha
  refine ⟨t0, s', rfl, Or.inl ⟨(start_ne h0).1, ?_⟩⟩
  exact iha κf 0 κf bef (t :: tl) (by omega) (Frame.base κf) ⟨t, tl, rfl, hft⟩ (allRun_closer hp hf)

theorem margs_ref {t0 : Token} {a : List Token} (h0 : t0.ty = .expref) (iha : MotE N a) : MotArg N (t0 :: a) := by
  intro bef rest κf κt hrest hf ht
  obtain ⟨t, tl, rfl, hty⟩ := hrest
  obtain ⟨hp, hft⟩ := closer_pow hty
  refine ⟨t0, a, rfl, Or.inr ⟨h0, ?_⟩⟩
  exact iha κt 0 κt (t0 :: bef) (t :: tl) (by omega) (Frame.base κt) ⟨t, tl, rfl, hft⟩
    (allRun_closer hp (fun e => by simpa [List.append_assoc] using ht e))

def MotArgs (N : Type) [NumOps N] (s : List Token) : Prop :=
  (∃ t0 tl, s = t0 :: tl ∧ t0.ty ≠ .rparen) ∧
  ∀ (bef : List Token) (r : Token) (rest' : List Token) (κa : List (Bool × Node N) → PState → Prop), r.ty = .rparen →
    (∀ as, κa as ⟨s.reverse ++ bef, r :: rest'⟩) → CallA (.args ⟨bef, s ++ r :: rest'⟩) κa

theorem arg_head {lz : Bool} {c : Cat} {s : List Token} (h : G N lz c s) (hc : c = .arg ∨ c = .args) :
    ∃ t0 tl, s = t0 :: tl ∧ t0.ty ≠ .rparen := by
  obtain ⟨t, tl, rfl, ht⟩ := G_head h
  refine ⟨t, tl, rfl, ?_⟩
  rcases hc with rfl | rfl <;> (rcases ht with ht | ht; exact (start_ne ht).2.1; rw [ht]; decide)

theorem args_one {lz : Bool} {a : List Token} (ha : G N lz .arg a) (iha : MotArg N a) : MotArgs N a := by
  refine ⟨arg_head ha (Or.inl rfl), ?_⟩
  intro bef r rest' κa hr hκ
  let κf : Kont N := fun e p1 => ∃ t tl, p1.after = t :: tl ∧ t.ty = .rparen ∧ κa [(false, e)] p1
  let κt : Kont N := fun e p1 => ∃ t tl, p1.after = t :: tl ∧ t.ty = .rparen ∧ κa [(true, e)] p1
  obtain ⟨t0, s', rfl, h⟩ := iha bef (r :: rest') κf κt ⟨r, rest', rfl, Or.inr hr⟩
    (fun e => ⟨r, rest', rfl, hr, hκ _⟩) (fun e => ⟨r, rest', rfl, hr, hκ _⟩)
  rcases h with ⟨hne, e, p1, hR, t, tl, hafter, hty, hk⟩ | ⟨heq, e, p1, hR, t, tl, hafter, hty, hk⟩
  · exact ⟨_, p1, R.argPlainLast (p := ⟨bef, t0 :: s' ++ r :: rest'⟩) rfl hne hR hafter hty, hk⟩
  · exact ⟨_, p1, R.argRefLast (p := ⟨bef, t0 :: s' ++ r :: rest'⟩) rfl heq hR hafter hty, hk⟩

theorem args_more {lz : Bool} {a b : List Token} {c : Token} (ha : G N lz .arg a) (iha : MotArg N a) (hc : c.ty = .comma)
    (ihb : MotArgs N b) : MotArgs N (a ++ c :: b) := by
  obtain ⟨⟨b0, btl, rfl, hb0⟩, ihb⟩ := ihb
  refine ⟨?_, ?_⟩
  · obtain ⟨t0, tl, rfl, h0⟩ := arg_head ha (Or.inl rfl)
    exact ⟨t0, _, rfl, h0⟩
  intro bef r rest' κa hr hκ
  let κf : Kont N := fun e p1 => ∃ t tl t2 tl2, p1.after = t :: tl ∧ t.ty = .comma ∧ p1.advance.after = t2 :: tl2 ∧
    t2.ty ≠ .rparen ∧ CallA (.args p1.advance) (fun as p3 => κa ((false, e) :: as) p3)
  let κt : Kont N := fun e p1 => ∃ t tl t2 tl2, p1.after = t :: tl ∧ t.ty = .comma ∧ p1.advance.after = t2 :: tl2 ∧
    t2.ty ≠ .rparen ∧ CallA (.args p1.advance) (fun as p3 => κa ((true, e) :: as) p3)
  have hf : ∀ e, κf e ⟨a.reverse ++ bef, c :: ((b0 :: btl) ++ r :: rest')⟩ := fun e =>
    ⟨c, _, b0, btl ++ r :: rest', rfl, hc, rfl, hb0,
      ihb (c :: (a.reverse ++ bef)) r rest' _ hr (fun as => by
        simpa [List.reverse_append, List.append_assoc] using hκ ((false, e) :: as))⟩
  have ht : ∀ e, κt e ⟨a.reverse ++ bef, c :: ((b0 :: btl) ++ r :: rest')⟩ := fun e =>
    ⟨c, _, b0, btl ++ r :: rest', rfl, hc, rfl, hb0,
      ihb (c :: (a.reverse ++ bef)) r rest' _ hr (fun as => by
        simpa [List.reverse_append, List.append_assoc] using hκ ((true, e) :: as))⟩
  obtain ⟨t0, s', rfl, h⟩ := iha bef (c :: ((b0 :: btl) ++ r :: rest')) κf κt ⟨c, _, rfl, Or.inl hc⟩ hf ht
  rcases h with ⟨hne, e, p1, hR, t, tl, t2, tl2, hafter, hty, hafter2, hty2, as, p3, hR2, hk⟩ |
      ⟨heq, e, p1, hR, t, tl, t2, tl2, hafter, hty, hafter2, hty2, as, p3, hR2, hk⟩
  · exact ⟨_, p3, by
      simpa [List.append_assoc] using
        R.argPlainMore (p := ⟨bef, t0 :: s' ++ c :: ((b0 :: btl) ++ r :: rest')⟩) rfl hne hR hafter hty hafter2 hty2 hR2, hk⟩
  · exact ⟨_, p3, by
      simpa [List.append_assoc] using
        R.argRefMore (p := ⟨bef, t0 :: s' ++ c :: ((b0 :: btl) ++ r :: rest')⟩) rfl heq hR hafter hty hafter2 hty2 hR2, hk⟩

theorem pe_call0 {f l r : Token} (hf : f.ty = .uident) (hl : l.ty = .lparen) (hr : r.ty = .rparen) : MotE N [f, l, r] := by
  intro κ0 k κ1 bef rest hk hfr hfo hall
  refine expr_of_nudK ⟨.field f.value, _, R.nudIdent hf, ?_⟩
  refine loop_of_ledK (by rw [hl]; show k < 60; omega) ⟨.call f.value [], ⟨r :: l :: f :: bef, rest⟩, ?_, ?_⟩
  · rw [hl]; exact R.ledCall0 (p := ⟨l :: f :: bef, r :: rest⟩) rfl hf rfl hr
  · simpa [PState.advance] using hall.1 _ (hfr id) (.call f.value [])

theorem pe_callArgs {f l r : Token} {a : List Token} (hf : f.ty = .uident) (hl : l.ty = .lparen) (iha : MotArgs N a)
    (hr : r.ty = .rparen) : MotE N (f :: l :: a ++ [r]) := by
  intro κ0 k κ1 bef rest hk hfr hfo hall
  obtain ⟨⟨a0, atl, rfl, ha0⟩, iha⟩ := iha
  have hall' : AllRun κ0 ⟨r :: ((a0 :: atl).reverse ++ (l :: f :: bef)), rest⟩ := by
    simpa [List.reverse_append, List.append_assoc] using hall
  obtain ⟨as, p1, hR, t, tl, hafter, hty, hκ⟩ := iha (l :: f :: bef) r rest
    (fun as p1 => ∃ t tl, p1.after = t :: tl ∧ t.ty = .rparen ∧ pushK k id κ1 (.call f.value as) p1.advance) hr
    (fun as => ⟨r, rest, rfl, hr, by simpa [PState.advance] using hall'.1 _ (hfr id) _⟩)
  have hgoal : CallK (.expr k ⟨bef, f :: l :: ((a0 :: atl) ++ r :: rest)⟩) κ1 := by
    refine expr_of_nudK ⟨.field f.value, _, R.nudIdent hf, ?_⟩
    refine loop_of_ledK (by rw [hl]; show k < 60; omega) ⟨.call f.value as, p1.advance, ?_, hκ⟩
    rw [hl]
    exact R.ledCall (p := ⟨l :: f :: bef, (a0 :: atl) ++ r :: rest⟩) rfl hf rfl ha0 hR hafter hty
  simpa [List.append_assoc] using hgoal

theorem dotrhs_call {b : List Token} (hb : ∃ t tl, b = t :: tl ∧ t.ty = .uident) (ih : MotE N b) : MotDotA N b ∧ MotDotB N b := by
  obtain ⟨t, tl, rfl, ht⟩ := hb
  have hA := dotA_of_expr (Or.inr ht) ih
  exact ⟨hA, dotB_of_dotA (by rw [ht]; decide) hA⟩


/-! ### expressions that end in an open projection, and the list that may follow them (finding D24) -/

/-- as `MotE`, for a phrase followed by `[`: only a projection right-hand side has to be possible afterwards -/
def MotOpen (N : Type) [NumOps N] (s : List Token) : Prop :=
  ∀ (κ0 : Kont N) (k : Nat) (κ1 : Kont N) (bef rest : List Token), k ≤ 45 → Frame κ0 k κ1 → HeadLB rest →
    PrhsRun κ0 ⟨s.reverse ++ bef, rest⟩ → CallK (.expr k ⟨bef, s ++ rest⟩) κ1

theorem headLB_ne {rest : List Token} (h : HeadLB rest) : rest ≠ [] := by
  obtain ⟨t, tl, rfl, _⟩ := h; simp

theorem allRun_bracketP {b : List Token} (ihb : MotBrP N b) {κ0 : Kont N} {bef rest : List Token} (hne : rest ≠ [])
    (hall : EndOK κ0 ⟨b.reverse ++ bef, rest⟩ rest) : AllRun κ0 ⟨bef, b ++ rest⟩ ∧ FollowOK (b ++ rest) := by
  obtain ⟨t, tl, rfl, hty, hled, hnud⟩ := ihb
  obtain ⟨hp0, hft⟩ := br_pow hty
  have L : ∀ k' left κ, k' < specPow t.ty → Frame κ0 k' κ → CallK (.led t.ty left ⟨t :: bef, tl ++ rest⟩) (pushK k' id κ) :=
    fun k' left κ _ hf' => hled κ0 k' κ left bef rest hf' hne hall
  refine ⟨allRun_of_led hp0 L ?_, ⟨t, _, rfl, hft⟩⟩
  intro κ hκ bp hbp
  rcases hty with h | h | h
  · obtain ⟨x, p1, hR, hk⟩ := expr_of_nudK (hnud κ0 bp κ bef rest (Frame.of_stk hκ bp) hne hall)
    exact ⟨x, p1, R.prhsBracket (p := ⟨bef, t :: tl ++ rest⟩) rfl (by rw [T_power, h]; decide) (Or.inl h) hR, hk⟩
  · exact prhs_id (by rw [h]; decide) (dispatch hp0 L κ hκ _)
  · obtain ⟨x, p1, hR, hk⟩ := expr_of_nudK (hnud κ0 bp κ bef rest (Frame.of_stk hκ bp) hne hall)
    exact ⟨x, p1, R.prhsBracket (p := ⟨bef, t :: tl ++ rest⟩) rfl (by rw [T_power, h]; decide) (Or.inr h) hR, hk⟩

theorem open_idx {a b : List Token} (iha : MotE N a) (ihb : MotBrP N b) : MotOpen N (a ++ b) := by
  intro κ0 k κ1 bef rest hk hf hlb hp
  have hp' : PrhsRun κ0 ⟨b.reverse ++ (a.reverse ++ bef), rest⟩ := by
    simpa [List.reverse_append, List.append_assoc] using hp
  obtain ⟨h1, h2⟩ := allRun_bracketP ihb (headLB_ne hlb) (.of_prhs hlb hp')
  have := iha κ0 k κ1 bef (b ++ rest) hk hf h2 h1
  simpa [List.append_assoc] using this

theorem open_idx0 {b : List Token} (ihb : MotBrP N b) : MotOpen N b := by
  intro κ0 k κ1 bef rest hk hf hlb hp
  obtain ⟨t, tl, rfl, hty, hled, hnud⟩ := ihb
  exact expr_of_nudK (hnud κ0 k κ1 bef rest hf (headLB_ne hlb) (.of_prhs hlb hp))

theorem open_star {t : Token} (h : t.ty = .star) : MotOpen N [t] := by
  intro κ0 k κ1 bef rest hk hf hlb hp
  obtain ⟨u, tl, rfl, hu⟩ := hlb
  obtain ⟨r, p1, hR, hκ⟩ := hp _ (hf (fun r => .valueProj .identity r)) 20 (by omega)
  exact expr_of_nudK ⟨_, _, R.nudStar (p := ⟨t :: bef, u :: tl⟩) h rfl (by rw [hu]; decide) hR, hκ⟩

theorem open_dotstar {a : List Token} {d s : Token} (iha : MotE N a) (hd : d.ty = .dot) (hs : s.ty = .star) :
    MotOpen N (a ++ [d, s]) := by
  intro κ0 k κ1 bef rest hk hf hlb hp
  have hp' : PrhsRun κ0 ⟨s :: d :: (a.reverse ++ bef), rest⟩ := by
    simpa [List.reverse_append, List.append_assoc] using hp
  have hp0 : 0 < specPow d.ty := by rw [hd]; decide
  have L : ∀ k' left κ, k' < specPow d.ty → Frame κ0 k' κ →
      CallK (.led d.ty left ⟨d :: (a.reverse ++ bef), s :: rest⟩) (pushK k' id κ) := by
    intro k' left κ _ hf'
    obtain ⟨r, p1, hR, hκ⟩ := hp' _ (hf' (fun r => .valueProj left r)) 20 (by omega)
    rw [hd]
    exact ⟨.valueProj left r, p1, R.ledDotStar (p := ⟨d :: (a.reverse ++ bef), s :: rest⟩) rfl hs hR, hκ⟩
  have P : ∀ κ, Stk κ0 κ → ∀ bp, bp ≤ 45 → CallK (.prhs bp ⟨a.reverse ++ bef, d :: s :: rest⟩) κ := by
    intro κ hκ bp hbp
    obtain ⟨r, p1, hR, hk'⟩ := open_star (N := N) hs κ0 bp κ (d :: (a.reverse ++ bef)) rest hbp (Frame.of_stk hκ bp) hlb hp'
    exact ⟨r, p1, R.prhsDot (p := ⟨a.reverse ++ bef, d :: s :: rest⟩) rfl (by rw [T_power, hd]; decide) hd
      (R.dotStar (p := ⟨d :: (a.reverse ++ bef), s :: rest⟩) rfl hs hR), hk'⟩
  have := iha κ0 k κ1 bef (d :: s :: rest) hk hf ⟨d, _, rfl, by rw [hd]; rfl⟩ (allRun_of_led hp0 L P)
  simpa [List.append_assoc] using this

/-- the lenient production: a multi-select list directly after an open projection is read as the
    projection's right-hand side -/
theorem pe_lenient {a b : List Token} (iha : MotOpen N a) (ihb : MotList N b) : MotE N (a ++ b) := by
  intro κ0 k κ1 bef rest hk hf hfo hall
  have hE : MotE N b := pe_list ihb
  obtain ⟨l, tl, rfl, hl, _, _⟩ := ihb
  have hall' : AllRun κ0 ⟨(l :: tl).reverse ++ (a.reverse ++ bef), rest⟩ := by
    simpa [List.reverse_append, List.append_assoc] using hall
  have hp : PrhsRun κ0 ⟨a.reverse ++ bef, (l :: tl) ++ rest⟩ := by
    intro κ hκ bp hbp
    obtain ⟨r, p1, hR, hk'⟩ := hE κ0 bp κ (a.reverse ++ bef) rest hbp (Frame.of_stk hκ bp) hfo hall'
    exact ⟨r, p1, R.prhsBracket (p := ⟨a.reverse ++ bef, l :: tl ++ rest⟩) rfl (by rw [T_power, hl]; decide) (Or.inl hl) hR, hk'⟩
  have := iha κ0 k κ1 bef ((l :: tl) ++ rest) hk hf ⟨l, _, rfl, hl⟩ hp
  simpa [List.append_assoc] using this

/-! ### every phrase of the published grammar is read by the parser -/

def Mot (N : Type) [NumOps N] : Cat → List Token → Prop
  | .expr, s => MotE N s
  | .dotRhs, s => MotDotA N s ∧ MotDotB N s
  | .bracket, s => MotBr N s ∧ (ProjBr s → MotBrP N s)
  | .msList, s => MotList N s
  | .msHash, s => MotHash N s
  | .call, s => MotE N s
  | .elems, s => MotElems N s
  | .kvs, s => MotKvs N s
  | .args, s => MotArgs N s
  | .arg, s => MotArg N s
  | .openExpr, s => MotOpen N s

theorem G_complete {lz : Bool} {c : Cat} {s : List Token} (h : G N lz c s) : NumOK s → Mot N c s := by
  induction h with
  | ident h => intro _; exact pe_ident h
  | star h => intro _; exact pe_star h
  | current h => intro _; exact pe_current h
  | raw h => intro _; exact pe_raw h
  | literal h hd => intro _; exact pe_literal h hd
  | sub _ hd _ iha ihb => intro hok; exact pe_sub hd (iha hok.left) (ihb hok.right.tail).1 (ihb hok.right.tail).2
  | bin _ ho _ iha ihb => intro hok; exact pe_bin (iha hok.left) (ihb hok.right.tail) ho
  | not h _ iha => intro hok; exact pe_not h (iha hok.tail)
  | paren hl _ hr iha => intro hok; exact pe_paren hl hr (iha hok.tail.left)
  | index _ _ iha ihb => intro hok; exact pe_index (iha hok.left) (ihb hok.right).1
  | index0 _ ihb => intro hok; exact pe_index0 (ihb hok).1
  | list _ ih => intro hok; exact pe_list (ih hok)
  | hash _ ih => intro hok; exact pe_hash (ih hok)
  | fn _ ih => intro hok; exact ih hok
  | lenientList _ _ _ iha ihb => intro hok; exact pe_lenient (iha hok.left) (ihb hok.right)
  | openIdx _ _ hpb iha ihb => intro hok; exact open_idx (iha hok.left) ((ihb hok.right).2 hpb)
  | openIdx0 _ hpb ihb => intro hok; exact open_idx0 ((ihb hok).2 hpb)
  | openDotStar _ hd hs iha => intro hok; exact open_dotstar (iha hok.left) hd hs
  | openStar hs => intro _; exact open_star hs
  | dotIdent h => intro _; exact dotrhs_ident h
  | dotStar h => intro _; exact dotrhs_star h
  | dotList _ ih => intro hok; exact dotrhs_list (ih hok)
  | dotHash _ ih => intro hok; exact dotrhs_hash (ih hok)
  | dotFn hb ih => intro hok; exact dotrhs_call (head_call hb) (ih hok)
  | brNumber hl hn hr _ => intro hok; exact ⟨br_number hl hn hr hok, fun hp => absurd hn (hp _ _ _ rfl)⟩
  | brStar hl hs hr => intro _; exact ⟨motBr_of_P (br_star hl hs hr), fun _ => br_star hl hs hr⟩
  | brSlice hl hs hr _ => intro hok; exact ⟨motBr_of_P (br_slice hl hs hr hok), fun _ => br_slice hl hs hr hok⟩
  | brFlatten h => intro _; exact ⟨motBr_of_P (br_flatten h), fun _ => br_flatten h⟩
  | brFilter hl _ hr ihe =>
    intro hok; exact ⟨motBr_of_P (br_filter hl hr (ihe hok.tail.left)), fun _ => br_filter hl hr (ihe hok.tail.left)⟩
  | msList hl he hr ihe => intro hok; exact ms_list hl he (ihe hok.tail.left) hr
  | elemsOne _ iha => intro hok; exact elems_one (iha hok)
  | elemsMore _ hc _ iha ihb => intro hok; exact elems_more (iha hok.left) hc (ihb hok.right.tail)
  | msHash hl _ hr ihe => intro hok; exact ms_hash hl (ihe hok.tail.left) hr
  | kvsOne hk hc _ iha => intro hok; exact kvs_one hk hc (iha hok.tail.tail)
  | kvsMore hk hc _ hm _ iha ihb =>
    intro hok; exact kvs_more hk hc (iha hok.tail.tail.left) hm (ihb hok.tail.tail.right.tail)
  | call0 hf hl hr => intro _; exact pe_call0 hf hl hr
  | callArgs hf hl _ hr iha => intro hok; exact pe_callArgs hf hl (iha hok.tail.tail.left) hr
  | argsOne ha iha => intro hok; exact args_one ha (iha hok)
  | argsMore ha hc _ iha ihb => intro hok; exact args_more ha (iha hok.left) hc (ihb hok.right.tail)
  | argExpr ha iha => intro hok; exact margs_expr ha (iha hok)
  | argRef h _ iha => intro hok; exact margs_ref h (iha hok.tail)

theorem ne_number_of {t : Token} {ty : TokType} (h : t.ty = ty) (hne : ty ≠ .number) : t.ty ≠ .number := by rw [h]; exact hne

theorem isIdent_ne_number {t : Token} (h : isIdent t) : t.ty ≠ .number := by
  rcases h with h | h <;> rw [h] <;> decide

theorem isBinOp_ne_number {t : Token} (h : isBinOp t.ty) : t.ty ≠ .number := by
  intro e; rw [e] at h; simp [isBinOp, Cmp.ofTok] at h

/-- in the accepted-language grammar every number token is in range: numbers occur only in `[n]` and
    in slices, where the grammar says so -/
theorem numOK_of_G {c : Cat} {s : List Token} (h : G N true c s) : NumOK s := by
  induction h with
  | ident hi => exact .cons_ne (isIdent_ne_number hi) .nil
  | star h | current h | raw h | literal h _ | dotStar h | brFlatten h | openStar h =>
    exact .cons_ne (ne_number_of h (by decide)) .nil
  | dotIdent hi => exact .cons_ne (isIdent_ne_number hi) .nil
  | sub _ hd _ iha ihb => exact .append iha (.cons_ne (ne_number_of hd (by decide)) ihb)
  | bin _ ho _ iha ihb => exact .append iha (.cons_ne (isBinOp_ne_number ho) ihb)
  | not h _ iha => exact .cons_ne (ne_number_of h (by decide)) iha
  | paren hl _ hr iha =>
    exact .cons_ne (ne_number_of hl (by decide)) (.append iha (.cons_ne (ne_number_of hr (by decide)) .nil))
  | index _ _ iha ihb | lenientList _ _ _ iha ihb => exact .append iha ihb
  | openIdx _ _ _ iha ihb => exact .append iha ihb
  | index0 _ ih | list _ ih | hash _ ih | fn _ ih | dotList _ ih | dotHash _ ih | dotFn _ ih | elemsOne _ ih | argsOne _ ih
  | argExpr _ ih => exact ih
  | openIdx0 _ _ ih => exact ih
  | openDotStar _ hd hs iha =>
    exact .append iha (.cons_ne (ne_number_of hd (by decide)) (.cons_ne (ne_number_of hs (by decide)) .nil))
  | brNumber hl _ hr hno => exact .cons_ne (ne_number_of hl (by decide)) (.append (hno rfl) (.cons_ne (ne_number_of hr (by decide)) .nil))
  | brStar hl hs hr =>
    exact .cons_ne (ne_number_of hl (by decide)) (.cons_ne (ne_number_of hs (by decide)) (.cons_ne (ne_number_of hr (by decide)) .nil))
  | brSlice hl _ hr hno => exact .cons_ne (ne_number_of hl (by decide)) (.append (hno rfl) (.cons_ne (ne_number_of hr (by decide)) .nil))
  | brFilter hl _ hr ih | msList hl _ hr ih | msHash hl _ hr ih =>
    exact .cons_ne (ne_number_of hl (by decide)) (.append ih (.cons_ne (ne_number_of hr (by decide)) .nil))
  | elemsMore _ hc _ iha ihb | argsMore _ hc _ iha ihb => exact .append iha (.cons_ne (ne_number_of hc (by decide)) ihb)
  | kvsOne hk hc _ iha => exact .cons_ne (isIdent_ne_number hk) (.cons_ne (ne_number_of hc (by decide)) iha)
  | kvsMore hk hc _ hm _ iha ihb =>
    exact .cons_ne (isIdent_ne_number hk) (.cons_ne (ne_number_of hc (by decide))
      (.append iha (.cons_ne (ne_number_of hm (by decide)) ihb)))
  | call0 hf hl hr =>
    exact .cons_ne (ne_number_of hf (by decide)) (.cons_ne (ne_number_of hl (by decide)) (.cons_ne (ne_number_of hr (by decide)) .nil))
  | callArgs hf hl _ hr iha =>
    exact .cons_ne (ne_number_of hf (by decide)) (.cons_ne (ne_number_of hl (by decide))
      (.append iha (.cons_ne (ne_number_of hr (by decide)) .nil)))
  | argRef h _ iha => exact .cons_ne (ne_number_of h (by decide)) iha

/-- **Completeness of the parser**: a sentence of the grammar — the published one (`lz = false`) or the
    one extended by the lenient production (`lz = true`) — whose number tokens are in the int64 range
    is accepted (specification table). -/
theorem sentence_parses {lz : Bool} {toks : List Token} {total : Nat} (hs : Sentence N lz toks) (hnum : NumOK toks)
    (htoks : Lexer.TokensOK total toks) : ∃ ast : Node N, parseTokens T toks = .ok ast := by
  obtain ⟨s, e, rfl, he, hg⟩ := hs
  let κ0 : Kont N := fun _ st => st.after = [e]
  have hall : AllRun κ0 ⟨s.reverse ++ [], [e]⟩ := allRun_closer (by rw [he]; rfl) (fun _ => rfl)
  obtain ⟨ast, p1, hR, hp1⟩ := G_complete hg hnum.left κ0 0 κ0 [] [e] (by omega) (Frame.base κ0) ⟨e, [], rfl, by rw [he]; rfl⟩ hall
  exact ⟨ast, parseTokens_of_R hR ⟨e, [], hp1, he⟩ htoks⟩

/-- … and for the accepted-language grammar the range condition is part of the grammar. -/
theorem sentence_parses_exact {toks : List Token} {total : Nat} (hs : Sentence N true toks)
    (htoks : Lexer.TokensOK total toks) : ∃ ast : Node N, parseTokens T toks = .ok ast := by
  refine sentence_parses hs ?_ htoks
  obtain ⟨s, e, rfl, he, hg⟩ := hs
  exact .append (numOK_of_G hg) (.cons_ne (ne_number_of he (by decide)) .nil)

/-- The published grammar, with numbers in range, is contained in the accepted-language grammar. -/
theorem G_mono {c : Cat} {s : List Token} (h : G N false c s) : NumOK s → G N true c s := by
  induction h with
  | ident h => intro _; exact .ident h
  | star h => intro _; exact .star h
  | current h => intro _; exact .current h
  | raw h => intro _; exact .raw h
  | literal h hd => intro _; exact .literal h hd
  | sub _ hd _ iha ihb => intro hok; exact .sub (iha hok.left) hd (ihb hok.right.tail)
  | bin _ ho _ iha ihb => intro hok; exact .bin (iha hok.left) ho (ihb hok.right.tail)
  | not h _ iha => intro hok; exact .not h (iha hok.tail)
  | paren hl _ hr iha => intro hok; exact .paren hl (iha hok.tail.left) hr
  | index _ _ iha ihb => intro hok; exact .index (iha hok.left) (ihb hok.right)
  | index0 _ ih => intro hok; exact .index0 (ih hok)
  | list _ ih => intro hok; exact .list (ih hok)
  | hash _ ih => intro hok; exact .hash (ih hok)
  | fn _ ih => intro hok; exact .fn (ih hok)
  | lenientList hl _ _ _ _ => cases hl
  | openIdx _ _ hp iha ihb => intro hok; exact .openIdx (iha hok.left) (ihb hok.right) hp
  | openIdx0 _ hp ih => intro hok; exact .openIdx0 (ih hok) hp
  | openDotStar _ hd hs iha => intro hok; exact .openDotStar (iha hok.left) hd hs
  | openStar h => intro _; exact .openStar h
  | dotIdent h => intro _; exact .dotIdent h
  | dotStar h => intro _; exact .dotStar h
  | dotList _ ih => intro hok; exact .dotList (ih hok)
  | dotHash _ ih => intro hok; exact .dotHash (ih hok)
  | dotFn _ ih => intro hok; exact .dotFn (ih hok)
  | brNumber hl hn hr _ => intro hok; exact .brNumber hl hn hr (fun _ => hok.tail.left (b := [_]))
  | brStar hl hs hr => intro _; exact .brStar hl hs hr
  | brSlice hl hs hr _ => intro hok; exact .brSlice hl hs hr (fun _ => hok.tail.left)
  | brFlatten h => intro _; exact .brFlatten h
  | brFilter hl _ hr ih => intro hok; exact .brFilter hl (ih hok.tail.left) hr
  | msList hl _ hr ih => intro hok; exact .msList hl (ih hok.tail.left) hr
  | elemsOne _ ih => intro hok; exact .elemsOne (ih hok)
  | elemsMore _ hc _ iha ihb => intro hok; exact .elemsMore (iha hok.left) hc (ihb hok.right.tail)
  | msHash hl _ hr ih => intro hok; exact .msHash hl (ih hok.tail.left) hr
  | kvsOne hk hc _ ih => intro hok; exact .kvsOne hk hc (ih hok.tail.tail)
  | kvsMore hk hc _ hm _ iha ihb => intro hok; exact .kvsMore hk hc (iha hok.tail.tail.left) hm (ihb hok.tail.tail.right.tail)
  | call0 hf hl hr => intro _; exact .call0 hf hl hr
  | callArgs hf hl _ hr ih => intro hok; exact .callArgs hf hl (ih hok.tail.tail.left) hr
  | argsOne _ ih => intro hok; exact .argsOne (ih hok)
  | argsMore _ hc _ iha ihb => intro hok; exact .argsMore (iha hok.left) hc (ihb hok.right.tail)
  | argExpr _ ih => intro hok; exact .argExpr (ih hok)
  | argRef h _ ih => intro hok; exact .argRef h (ih hok.tail)

end Jmes.Parser
