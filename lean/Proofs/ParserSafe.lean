/-
  Proofs.ParserSafe — the Pratt parser is safe on every token list the lexer
  can produce: the cursor is never read out of range (no panic), the fuel given
  by `parseTokens` always suffices (termination), every syntax error carries
  the position of a token of the expression (0 ≤ offset ≤ len), and every AST
  it returns has 64-bit slice literals.
  The only fact needed about the binding-power table is that tEOF has power 0.
-/
import Jmes.Parser
import Proofs.Lexer
import Proofs.EvalSafe
namespace Jmes.Parser
variable {N : Type} [NumOps N]
open Jmes.Interp (slicesOK slicesOKList slicesOKKVs slicesOKArgs optOK)

def eofTok (total : Nat) : Token := ⟨.eof, [], total⟩

/-- The cursor invariant: the remaining tokens end with the only tEOF, and
    every token (consumed or not) lies inside the expression. -/
structure WF (total : Nat) (p : PState) : Prop where
  shape : ∃ pre, p.after = pre ++ [eofTok total] ∧ ∀ t ∈ pre, t.ty ≠ .eof
  posA : ∀ t ∈ p.after, t.pos ≤ total
  posB : ∀ t ∈ p.before, t.pos ≤ total

/-- Outcome predicate: a value satisfying `Q`, or an error whose syntax offset
    is inside the expression; never a panic. -/
def ROK {α} (total : Nat) (Q : α → Prop) : Res α → Prop
  | .ok a => Q a
  | .err (.syntax off) => 0 ≤ off ∧ off ≤ (total : Int)
  | .err (.other _) => True
  | .panic _ => False

theorem ROK_bind {α β} {total : Nat} {Q : α → Prop} {Q' : β → Prop} {r : Res α} {k : α → Res β}
    (hr : ROK total Q r) (hk : ∀ a, Q a → ROK total Q' (k a)) : ROK total Q' (r >>= k) := by
  cases r with
  | ok a => exact hk a hr
  | err e => cases e <;> exact hr
  | panic s => exact hr.elim

theorem ROK_mono {α} {total : Nat} {Q Q' : α → Prop} {r : Res α} (hr : ROK total Q r) (h : ∀ a, Q a → Q' a) :
    ROK total Q' r := by
  cases r with
  | ok a => exact h a hr
  | err e => cases e <;> exact hr
  | panic s => exact hr.elim

theorem WF.ne_nil {total p} (h : WF total p) : ∃ t rest, p.after = t :: rest := by
  obtain ⟨pre, hp, _⟩ := h.shape
  cases pre with
  | nil => exact ⟨_, [], hp⟩
  | cons t r => exact ⟨t, r ++ [eofTok total], by simp [hp]⟩

theorem WF.cur {total p} (h : WF total p) : ∃ t rest, p.after = t :: rest ∧ p.cur = .ok t.ty ∧ p.curTok = .ok t ∧ t.pos ≤ total := by
  obtain ⟨t, rest, ht⟩ := h.ne_nil
  exact ⟨t, rest, ht, by simp [PState.cur, ht], by simp [PState.curTok, ht], h.posA t (by simp [ht])⟩

theorem WF.syntaxError {total p} {α} {Q : α → Prop} (h : WF total p) : ROK total Q (p.syntaxError : Res α) := by
  obtain ⟨t, rest, ht, _, _, hpos⟩ := h.cur
  simp only [PState.syntaxError, ht]
  exact ⟨by omega, by omega⟩

/-- Advancing over a token that is not tEOF keeps the invariant. -/
theorem WF.advance {total p} (h : WF total p) {t rest} (ht : p.after = t :: rest) (hne : t.ty ≠ .eof) :
    WF total p.advance ∧ p.advance.after = rest ∧ p.advance.before = t :: p.before := by
  obtain ⟨pre, hp, hpre⟩ := h.shape
  have hadv : p.advance = ⟨t :: p.before, rest⟩ := by simp [PState.advance, ht]
  refine ⟨⟨?_, ?_, ?_⟩, by rw [hadv], by rw [hadv]⟩
  · cases pre with
    | nil =>
      rw [ht] at hp
      simp at hp
      exact absurd (by rw [hp.1]; rfl) hne
    | cons u us =>
      rw [ht] at hp
      simp at hp
      exact ⟨us, by rw [hadv]; exact hp.2, fun x hx => hpre x (by simp [hx])⟩
  · rw [hadv]; intro x hx; exact h.posA x (by rw [ht]; simp [hx])
  · rw [hadv]; intro x hx
    rcases List.mem_cons.mp hx with rfl | hx'
    · exact h.posA _ (by rw [ht]; simp)
    · exact h.posB x hx'

theorem WF.look1 {total p} (h : WF total p) {t rest} (ht : p.after = t :: rest) (hne : t.ty ≠ .eof) :
    ∃ u rest', rest = u :: rest' ∧ p.look1 = .ok u.ty := by
  have := (h.advance ht hne).1.ne_nil
  rw [(h.advance ht hne).2.1] at this
  obtain ⟨u, rest', hu⟩ := this
  exact ⟨u, rest', hu, by simp [PState.look1, ht, hu]⟩

/-- `p.match(ty)` for a token type other than tEOF. -/
theorem WF.expect {total p} (h : WF total p) (ty : TokType) (hty : ty ≠ .eof) :
    ROK total (fun p' => WF total p' ∧ p'.after.length + 1 = p.after.length ∧ p'.before.length = p.before.length + 1)
      (p.expect ty) := by
  obtain ⟨t, rest, ht, _, _, hpos⟩ := h.cur
  simp only [PState.expect, ht]
  split
  · rename_i heq
    have hne : t.ty ≠ .eof := by rw [heq]; exact hty
    obtain ⟨hw, ha, hb⟩ := h.advance ht hne
    exact ⟨hw, by rw [ha]; simp, by rw [hb]; simp⟩
  · exact ⟨by omega, by omega⟩

end Jmes.Parser

namespace Jmes.Parser
variable {N : Type} [NumOps N]
open Jmes.Interp (slicesOK slicesOKList slicesOKKVs slicesOKArgs optOK)

theorem atoi_optOK (s : Bytes) (n : Int) (h : atoi s = some n) : optOK (some n) := by
  intro x hx
  cases hx
  unfold atoi at h
  obtain ⟨w, _, hw⟩ := Option.bind_eq_some_iff.mp h
  unfold clampInt64 at hw
  split at hw
  · rename_i hr
    cases hw
    unfold Slice.InRange; unfold minInt64 maxInt64 at hr
    omega
  · exact absurd hw (by simp)

theorem optOK_none : optOK none := by intro x hx; cases hx

theorem optOK_getD (parts : List (Option Int)) (h : ∀ v ∈ parts, optOK v) (i : Nat) : optOK (parts.getD i none) := by
  rw [List.getD_eq_getElem?_getD]
  cases hg : parts[i]? with
  | none => exact optOK_none
  | some v => exact h v (List.mem_of_getElem? hg)

/-- What a parse function guarantees about the cursor it returns. -/
def Cursor (total : Nat) (p : PState) (n : Nat) (p' : PState) : Prop :=
  WF total p' ∧ p'.after.length ≤ n ∧ p.before.length ≤ p'.before.length

theorem Cursor.weaken {total : Nat} {p q p' : PState} {n m : Nat} (h : Cursor total q n p') (hn : n ≤ m)
    (hb : p.before.length ≤ q.before.length) : Cursor total p m p' :=
  ⟨h.1, Nat.le_trans h.2.1 hn, Nat.le_trans hb h.2.2⟩

theorem sliceLoop_ok (total : Nat) : ∀ (fuel : Nat) (parts : List (Option Int)) (idx : Nat) (p : PState),
    WF total p → p.after.length < fuel → (∀ v ∈ parts, optOK v) →
    ROK total (fun r => Cursor total p p.after.length r.2 ∧ ∀ v ∈ r.1, optOK v) (sliceLoop fuel parts idx p)
  | 0, _, _, _, _, hf, _ => by omega
  | fuel + 1, parts, idx, p, hw, hf, hp => by
    obtain ⟨t, rest, ht, hcur, hcurTok, hpos⟩ := hw.cur
    simp only [sliceLoop, hcur, bind, Res.bind]
    split
    · rename_i hcond
      split
      · rename_i hcolon
        have hne : t.ty ≠ .eof := by rw [hcolon]; simp
        obtain ⟨hw', ha, hb⟩ := hw.advance ht hne
        split
        · exact hw.syntaxError
        · have := sliceLoop_ok total fuel parts (idx + 1) p.advance hw' (by rw [ha]; rw [ht] at hf; simp at hf; omega) hp
          refine ROK_mono this ?_
          rintro ⟨ps, p'⟩ ⟨hc, h4⟩
          exact ⟨hc.weaken (by rw [ha, ht]; simp) (by rw [hb]; simp), h4⟩
      · split
        · rename_i hnum
          have hne : t.ty ≠ .eof := by rw [hnum]; simp
          obtain ⟨hw', ha, hb⟩ := hw.advance ht hne
          split
          · exact hw.syntaxError
          · simp only [hcurTok]
            cases hat : atoi t.value with
            | none => trivial
            | some n =>
              simp only []
              have hp' : ∀ v ∈ parts.set idx (some n), optOK v := by
                intro v hv
                rcases List.mem_or_eq_of_mem_set hv with h | h
                · exact hp v h
                · rw [h]; exact atoi_optOK _ _ hat
              have := sliceLoop_ok total fuel (parts.set idx (some n)) idx p.advance hw'
                (by rw [ha]; rw [ht] at hf; simp at hf; omega) hp'
              refine ROK_mono this ?_
              rintro ⟨ps, p'⟩ ⟨hc, h4⟩
              exact ⟨hc.weaken (by rw [ha, ht]; simp) (by rw [hb]; simp), h4⟩
        · exact hw.syntaxError
    · exact ⟨⟨hw, Nat.le_refl _, Nat.le_refl _⟩, hp⟩

/-- A slice expression: consumes at least the closing bracket; the slice node's integers are 64-bit. -/
theorem parseSliceExpression_ok (total : Nat) (p : PState) (hw : WF total p) :
    ROK total (fun r => Cursor total p (p.after.length - 1) r.2 ∧ slicesOK r.1 ∧ isSliceNode r.1 = true)
      (parseSliceExpression (N := N) p) := by
  unfold parseSliceExpression
  have hparts : ∀ v ∈ [(none : Option Int), none, none], optOK v := by
    intro v hv; simp at hv; subst hv; exact optOK_none
  refine ROK_bind (sliceLoop_ok total _ _ 0 p hw (Nat.lt_succ_self _) hparts) ?_
  rintro ⟨parts, p1⟩ ⟨⟨h1, h2, h3⟩, h4⟩
  dsimp only at h1 h2 h3 h4
  refine ROK_bind (h1.expect .rbracket (by simp)) ?_
  rintro p2 ⟨g1, g2, g3⟩
  exact ⟨⟨g1, by dsimp only; omega, by dsimp only; omega⟩, ⟨optOK_getD parts h4 0, optOK_getD parts h4 1, optOK_getD parts h4 2⟩, rfl⟩

/-- An index or slice expression after `[` when the current token is a number or a colon. -/
theorem parseIndexExpression_ok (total : Nat) (p : PState) (hw : WF total p) {t rest} (ht : p.after = t :: rest)
    (hty : t.ty = .number ∨ t.ty = .colon) :
    ROK total (fun r => Cursor total p (p.after.length - 1) r.2 ∧ slicesOK r.1) (parseIndexExpression (N := N) p) := by
  have hne : t.ty ≠ .eof := by rcases hty with h | h <;> rw [h] <;> simp
  obtain ⟨u, rest', hu, hl1⟩ := hw.look1 ht hne
  have hcur : p.cur = .ok t.ty := by simp [PState.cur, ht]
  have hcurTok : p.curTok = .ok t := by simp [PState.curTok, ht]
  unfold parseIndexExpression
  simp only [hcur, bind, Res.bind]
  have slice_case : ROK total (fun r => Cursor total p (p.after.length - 1) r.2 ∧ slicesOK r.1) (parseSliceExpression (N := N) p) :=
    ROK_mono (parseSliceExpression_ok total p hw) (fun r hr => ⟨hr.1, hr.2.1⟩)
  by_cases hc : t.ty = .colon
  · simp only [hc, if_true]
    exact slice_case
  · simp only [hc, if_false, hl1]
    by_cases hc1 : u.ty = .colon
    · simp only [hc1, decide_true, if_true]
      exact slice_case
    · simp only [hc1, decide_false, Bool.false_eq_true, if_false, hcurTok]
      cases hat : atoi t.value with
      | none => trivial
      | some n =>
        simp only []
        obtain ⟨hw', ha, hb⟩ := hw.advance ht hne
        refine ROK_bind (hw'.expect .rbracket (by simp)) ?_
        rintro p2 ⟨g1, g2, g3⟩
        rw [ha] at g2; rw [hb] at g3
        exact ⟨⟨g1, by dsimp only; rw [ht]; simp; omega, by dsimp only; simp at g3; omega⟩, trivial⟩

end Jmes.Parser

namespace Jmes.Parser
variable {N : Type} [NumOps N]
open Jmes.Interp (slicesOK slicesOKList slicesOKKVs slicesOKArgs optOK)

/-- A parse function's guarantee: the returned cursor and the returned node. -/
def Post (total : Nat) (p : PState) (n : Nat) (r : Node N × PState) : Prop :=
  Cursor total p n r.2 ∧ slicesOK r.1

section claims
variable (N) (tbl : ParserTable) (total : Nat)

def ClaimExpr (fuel : Nat) : Prop := ∀ (rbp : Nat) (p : PState), WF total p → 8 * p.after.length ≤ fuel →
  ROK total (Post (N := N) total p (p.after.length - 1)) (parseExpression tbl fuel rbp p)
def ClaimLoop (fuel : Nat) : Prop := ∀ (rbp : Nat) (left : Node N) (p : PState), WF total p → slicesOK left →
  1 ≤ p.before.length → 8 * p.after.length + 5 ≤ fuel →
  ROK total (Post total p p.after.length) (ledLoop tbl fuel rbp left p)
def ClaimNud (fuel : Nat) : Prop := ∀ (token : Token) (p : PState), token.pos ≤ total → (token.ty ≠ .eof → WF total p) →
  8 * p.after.length + 4 ≤ fuel → ROK total (Post (N := N) total p p.after.length) (nud tbl fuel token p)
def ClaimLed (fuel : Nat) : Prop := ∀ (ty : TokType) (node : Node N) (p : PState), WF total p → slicesOK node →
  2 ≤ p.before.length → 8 * p.after.length + 4 ≤ fuel → ROK total (Post total p p.after.length) (led tbl fuel ty node p)
def ClaimArgs (fuel : Nat) : Prop := ∀ (p : PState), WF total p → 8 * p.after.length + 1 ≤ fuel →
  ROK total (fun r => Cursor total p (p.after.length - 1) r.2 ∧ slicesOKArgs r.1) (parseArgs (N := N) tbl fuel p)
def ClaimPIS (fuel : Nat) : Prop := ∀ (left right : Node N) (p : PState), WF total p → slicesOK left → slicesOK right →
  8 * p.after.length + 3 ≤ fuel → ROK total (Post total p p.after.length) (projectIfSlice tbl fuel left right p)
def ClaimFilter (fuel : Nat) : Prop := ∀ (node : Node N) (p : PState), WF total p → slicesOK node →
  8 * p.after.length + 1 ≤ fuel → ROK total (Post total p p.after.length) (parseFilter tbl fuel node p)
def ClaimDot (fuel : Nat) : Prop := ∀ (bp : Nat) (p : PState), WF total p → 8 * p.after.length + 1 ≤ fuel →
  ROK total (Post (N := N) total p p.after.length) (parseDotRHS tbl fuel bp p)
def ClaimProj (fuel : Nat) : Prop := ∀ (bp : Nat) (p : PState), WF total p → 8 * p.after.length + 2 ≤ fuel →
  ROK total (Post (N := N) total p p.after.length) (parseProjectionRHS tbl fuel bp p)
def ClaimMSL (fuel : Nat) : Prop := ∀ (p : PState) (acc : List (Node N)), WF total p → slicesOKList acc →
  8 * p.after.length + 1 ≤ fuel → ROK total (Post total p p.after.length) (parseMultiSelectList tbl fuel p acc)
def ClaimMSH (fuel : Nat) : Prop := ∀ (p : PState) (acc : List (Bytes × Node N)), WF total p → slicesOKKVs acc →
  8 * p.after.length + 1 ≤ fuel → ROK total (Post total p p.after.length) (parseMultiSelectHash tbl fuel p acc)

structure AllClaims (fuel : Nat) : Prop where
  expr : ClaimExpr N tbl total fuel
  loop : ClaimLoop N tbl total fuel
  nud : ClaimNud N tbl total fuel
  led : ClaimLed N tbl total fuel
  args : ClaimArgs N tbl total fuel
  pis : ClaimPIS N tbl total fuel
  filter : ClaimFilter N tbl total fuel
  dot : ClaimDot N tbl total fuel
  proj : ClaimProj N tbl total fuel
  msl : ClaimMSL N tbl total fuel
  msh : ClaimMSH N tbl total fuel

end claims

theorem Post.intro {total : Nat} {p p' : PState} {n : Nat} {e : Node N} (hw : WF total p') (ha : p'.after.length ≤ n)
    (hb : p.before.length ≤ p'.before.length) (he : slicesOK e) : Post total p n (e, p') :=
  ⟨⟨hw, ha, hb⟩, he⟩

theorem Post.weaken {total : Nat} {p q : PState} {n m : Nat} {r : Node N × PState} (h : Post total q n r) (hn : n ≤ m)
    (hb : p.before.length ≤ q.before.length) : Post total p m r :=
  ⟨h.1.weaken hn hb, h.2⟩

variable {tbl : ParserTable} {total : Nat}

theorem step_proj {fuel : Nat} (ih : AllClaims N tbl total fuel) : ClaimProj N tbl total (fuel + 1) := by
  intro bp p hw hf
  obtain ⟨t, rest, ht, hcur, _, _⟩ := hw.cur
  simp only [parseProjectionRHS, hcur, bind, Res.bind]
  split
  · exact ⟨⟨hw, Nat.le_refl _, Nat.le_refl _⟩, trivial⟩
  · split
    · exact ROK_mono (ih.expr bp p hw (by omega)) (fun r hr => hr.weaken (by omega) (Nat.le_refl _))
    · split
      · exact ROK_mono (ih.expr bp p hw (by omega)) (fun r hr => hr.weaken (by omega) (Nat.le_refl _))
      · split
        · rename_i hdot
          have hne : t.ty ≠ .eof := by rw [hdot]; simp
          obtain ⟨hw', ha, hb⟩ := hw.advance ht hne
          refine ROK_mono (ih.dot bp p.advance hw' (by rw [ha]; rw [ht] at hf; simp at hf; omega)) ?_
          intro r hr
          exact hr.weaken (by rw [ha, ht]; simp) (by rw [hb]; simp)
        · exact hw.syntaxError

end Jmes.Parser

namespace Jmes.Parser
variable {N : Type} [NumOps N]
open Jmes.Interp (slicesOK slicesOKList slicesOKKVs slicesOKArgs optOK)
variable {tbl : ParserTable} {total : Nat}

theorem slicesOKList_append : ∀ (xs ys : List (Node N)), slicesOKList xs → slicesOKList ys → slicesOKList (xs ++ ys)
  | [], _, _, h => h
  | x :: xs, ys, h1, h2 => ⟨h1.1, slicesOKList_append xs ys h1.2 h2⟩

theorem slicesOKList_reverse : ∀ (xs : List (Node N)), slicesOKList xs → slicesOKList xs.reverse
  | [], _ => trivial
  | x :: xs, h => by
    rw [List.reverse_cons]
    exact slicesOKList_append _ _ (slicesOKList_reverse xs h.2) ⟨h.1, trivial⟩

theorem slicesOKKVs_append : ∀ (xs ys : List (Bytes × Node N)), slicesOKKVs xs → slicesOKKVs ys → slicesOKKVs (xs ++ ys)
  | [], _, _, h => h
  | (k, x) :: xs, ys, h1, h2 => ⟨h1.1, slicesOKKVs_append xs ys h1.2 h2⟩

theorem slicesOKKVs_reverse : ∀ (xs : List (Bytes × Node N)), slicesOKKVs xs → slicesOKKVs xs.reverse
  | [], _ => trivial
  | (k, x) :: xs, h => by
    rw [List.reverse_cons]
    exact slicesOKKVs_append _ _ (slicesOKKVs_reverse xs h.2) ⟨h.1, trivial⟩

theorem step_dot {fuel : Nat} (ih : AllClaims N tbl total fuel) : ClaimDot N tbl total (fuel + 1) := by
  intro bp p hw hf
  obtain ⟨t, rest, ht, hcur, _, _⟩ := hw.cur
  simp only [parseDotRHS, hcur, bind, Res.bind]
  split
  · exact ROK_mono (ih.expr bp p hw (by omega)) (fun r hr => hr.weaken (by omega) (Nat.le_refl _))
  · split
    · rename_i hlb
      have hne : t.ty ≠ .eof := by rw [hlb]; simp
      obtain ⟨hw', ha, hb⟩ := hw.advance ht hne
      refine ROK_mono (ih.msl p.advance [] hw' trivial (by rw [ha]; rw [ht] at hf; simp at hf; omega)) ?_
      intro r hr
      exact hr.weaken (by rw [ha, ht]; simp) (by rw [hb]; simp)
    · split
      · rename_i hlb
        have hne : t.ty ≠ .eof := by rw [hlb]; simp
        obtain ⟨hw', ha, hb⟩ := hw.advance ht hne
        refine ROK_mono (ih.msh p.advance [] hw' trivial (by rw [ha]; rw [ht] at hf; simp at hf; omega)) ?_
        intro r hr
        exact hr.weaken (by rw [ha, ht]; simp) (by rw [hb]; simp)
      · exact hw.syntaxError

theorem step_msl {fuel : Nat} (ih : AllClaims N tbl total fuel) : ClaimMSL N tbl total (fuel + 1) := by
  intro p acc hw hacc hf
  simp only [parseMultiSelectList, bind, Res.bind]
  refine ROK_bind (ih.expr tbl.msList p hw (by omega)) ?_
  rintro ⟨e, p1⟩ ⟨⟨h1, h2, h3⟩, he⟩
  dsimp only at h1 h2 h3 he ⊢
  obtain ⟨t, rest, ht, hcur, _, _⟩ := h1.cur
  simp only [hcur]
  split
  · refine ROK_bind (h1.expect .rbracket (by simp)) ?_
    rintro p2 ⟨g1, g2, g3⟩
    exact Post.intro g1 (by omega) (by omega) (slicesOKList_reverse (e :: acc) ⟨he, hacc⟩)
  · refine ROK_bind (h1.expect .comma (by simp)) ?_
    rintro p2 ⟨g1, g2, g3⟩
    refine ROK_mono (ih.msl p2 (e :: acc) g1 ⟨he, hacc⟩ (by omega)) ?_
    intro r hr
    exact hr.weaken (by omega) (by omega)

theorem step_msh {fuel : Nat} (ih : AllClaims N tbl total fuel) : ClaimMSH N tbl total (fuel + 1) := by
  intro p acc hw hacc hf
  obtain ⟨t, rest, ht, hcur, hcurTok, _⟩ := hw.cur
  simp only [parseMultiSelectHash, hcurTok, bind, Res.bind]
  split
  · rename_i hkey
    have hne : t.ty ≠ .eof := by rcases hkey with h | h <;> rw [h] <;> simp
    obtain ⟨hw', ha, hb⟩ := hw.advance ht hne
    refine ROK_bind (hw'.expect .colon (by simp)) ?_
    rintro p2 ⟨g1, g2, g3⟩
    rw [ha] at g2; rw [hb] at g3
    have hlen : p.after.length = rest.length + 1 := by rw [ht]; simp
    refine ROK_bind (ih.expr tbl.msHash p2 g1 (by omega)) ?_
    rintro ⟨v, p3⟩ ⟨⟨k1, k2, k3⟩, hv⟩
    dsimp only at k1 k2 k3 hv ⊢
    obtain ⟨u, rest3, hu, hcur3, _, _⟩ := k1.cur
    simp only [hcur3]
    split
    · rename_i hcomma
      have hne3 : u.ty ≠ .eof := by rw [hcomma]; simp
      obtain ⟨hw3, ha3, hb3⟩ := k1.advance hu hne3
      refine ROK_mono (ih.msh p3.advance ((t.value, v) :: acc) hw3 ⟨hv, hacc⟩ (by rw [ha3]; rw [hu] at k2; simp at k2 g3; omega)) ?_
      intro r hr
      refine hr.weaken (by rw [ha3]; rw [hu] at k2; simp at k2; omega) (by rw [hb3]; simp at g3 ⊢; omega)
    · split
      · rename_i hrb
        have hne3 : u.ty ≠ .eof := by rw [hrb]; simp
        obtain ⟨hw3, ha3, hb3⟩ := k1.advance hu hne3
        exact Post.intro hw3 (by rw [ha3]; rw [hu] at k2; simp at k2; omega) (by rw [hb3]; simp at g3 ⊢; omega)
          (slicesOKKVs_reverse ((t.value, v) :: acc) ⟨hv, hacc⟩)
      · exact k1.syntaxError
  · exact hw.syntaxError

theorem step_pis {fuel : Nat} (ih : AllClaims N tbl total fuel) : ClaimPIS N tbl total (fuel + 1) := by
  intro left right p hw hl hr hf
  simp only [projectIfSlice]
  split
  · simp only [bind, Res.bind]
    refine ROK_bind (ih.proj tbl.sliceProj p hw (by omega)) ?_
    rintro ⟨r, p1⟩ ⟨hc, hrr⟩
    exact ⟨hc, ⟨⟨hl, hr⟩, hrr⟩⟩
  · exact ⟨⟨hw, Nat.le_refl _, Nat.le_refl _⟩, ⟨hl, hr⟩⟩

theorem step_filter {fuel : Nat} (ih : AllClaims N tbl total fuel) : ClaimFilter N tbl total (fuel + 1) := by
  intro node p hw hn hf
  simp only [parseFilter, bind, Res.bind]
  refine ROK_bind (ih.expr tbl.filterCond p hw (by omega)) ?_
  rintro ⟨cond, p1⟩ ⟨⟨h1, h2, h3⟩, hc⟩
  dsimp only at h1 h2 h3 hc ⊢
  refine ROK_bind (h1.expect .rbracket (by simp)) ?_
  rintro p2 ⟨g1, g2, g3⟩
  obtain ⟨t, rest, ht, hcur, _, _⟩ := g1.cur
  simp only [hcur]
  split
  · exact Post.intro g1 (by omega) (by omega) ⟨hn, trivial, hc⟩
  · refine ROK_bind (ih.proj tbl.filterRhs p2 g1 (by omega)) ?_
    rintro ⟨r, p3⟩ ⟨⟨k1, k2, k3⟩, hr⟩
    dsimp only at k1 k2 k3 hr ⊢
    exact Post.intro k1 (by omega) (by omega) ⟨hn, hr, hc⟩

theorem step_args {fuel : Nat} (ih : AllClaims N tbl total fuel) : ClaimArgs N tbl total (fuel + 1) := by
  intro p hw hf
  obtain ⟨t, rest, ht, hcur, _, _⟩ := hw.cur
  simp only [parseArgs, hcur, bind, Res.bind]
  refine ROK_bind (Q := fun (r : (Bool × Node N) × PState) => Cursor total p (p.after.length - 1) r.2 ∧ slicesOK r.1.2) ?_ ?_
  · split
    · have := ih.expr tbl.ledArg p hw (by omega)
      cases hpe : parseExpression (N := N) tbl fuel tbl.ledArg p with
      | ok r => obtain ⟨e, p1⟩ := r; rw [hpe] at this; exact ⟨this.1, this.2⟩
      | err e => rw [hpe] at this; cases e <;> exact this
      | panic s => rw [hpe] at this; exact this.elim
    · rename_i hex
      have hty : t.ty = .expref := by simpa using hex
      have hne : t.ty ≠ .eof := by rw [hty]; simp
      obtain ⟨hw', ha, hb⟩ := hw.advance ht hne
      have := ih.expr tbl.ledArgExpref p.advance hw' (by rw [ha]; rw [ht] at hf; simp at hf; omega)
      cases hpe : parseExpression (N := N) tbl fuel tbl.ledArgExpref p.advance with
      | ok r =>
        obtain ⟨e, p1⟩ := r
        rw [hpe] at this
        exact ⟨this.1.weaken (by rw [ha, ht]; simp) (by rw [hb]; simp), this.2⟩
      | err e => rw [hpe] at this; cases e <;> exact this
      | panic s => rw [hpe] at this; exact this.elim
  rintro ⟨arg, p1⟩ ⟨⟨h1, h2, h3⟩, ha⟩
  dsimp only at h1 h2 h3 ha ⊢
  obtain ⟨u, rest1, hu, hcur1, _, _⟩ := h1.cur
  simp only [hcur1]
  split
  · exact ⟨⟨h1, h2, h3⟩, ⟨ha, trivial⟩⟩
  · refine ROK_bind (h1.expect .comma (by simp)) ?_
    rintro p2 ⟨g1, g2, g3⟩
    obtain ⟨w, rest2, hw2, hcur2, _, _⟩ := g1.cur
    simp only [hcur2]
    split
    · exact g1.syntaxError
    · refine ROK_bind (ih.args p2 g1 (by omega)) ?_
      rintro ⟨restArgs, p3⟩ ⟨⟨k1, k2, k3⟩, hra⟩
      dsimp only at k1 k2 k3 hra ⊢
      exact ⟨⟨k1, by show p3.after.length ≤ _; omega, by show _ ≤ p3.before.length; omega⟩, ⟨ha, hra⟩⟩

end Jmes.Parser

namespace Jmes.Parser
variable {N : Type} [NumOps N]
open Jmes.Interp (slicesOK slicesOKList slicesOKKVs slicesOKArgs optOK)
variable {tbl : ParserTable} {total : Nat}

theorem step_nud {fuel : Nat} (ih : AllClaims N tbl total fuel) : ClaimNud N tbl total (fuel + 1) := by
  intro token p hpos hwf hf
  simp only [nud]
  split
  · -- JSON literal
    split
    · trivial
    · exact Post.intro (hwf (by simp [*])) (Nat.le_refl _) (Nat.le_refl _) trivial
  · exact Post.intro (hwf (by simp [*])) (Nat.le_refl _) (Nat.le_refl _) trivial
  · exact Post.intro (hwf (by simp [*])) (Nat.le_refl _) (Nat.le_refl _) trivial
  · -- quoted identifier
    have hw := hwf (by simp [*])
    obtain ⟨t, rest, ht, hcur, _, _⟩ := hw.cur
    simp only [hcur, bind, Res.bind]
    split
    · exact ⟨by omega, by omega⟩
    · exact Post.intro hw (Nat.le_refl _) (Nat.le_refl _) trivial
  · -- star
    have hw := hwf (by simp [*])
    obtain ⟨t, rest, ht, hcur, _, _⟩ := hw.cur
    simp only [hcur, bind, Res.bind]
    split
    · exact Post.intro hw (Nat.le_refl _) (Nat.le_refl _) ⟨trivial, trivial⟩
    · refine ROK_bind (ih.proj tbl.nudStar p hw (by omega)) ?_
      rintro ⟨r, p1⟩ ⟨hc, hr⟩
      exact ⟨hc, ⟨trivial, hr⟩⟩
  · exact ih.filter .identity p (hwf (by simp [*])) trivial (by omega)
  · exact ih.msh p [] (hwf (by simp [*])) trivial (by omega)
  · -- flatten
    have hw := hwf (by simp [*])
    simp only [bind, Res.bind]
    refine ROK_bind (ih.proj tbl.nudFlatten p hw (by omega)) ?_
    rintro ⟨r, p1⟩ ⟨hc, hr⟩
    exact ⟨hc, ⟨trivial, hr⟩⟩
  · -- lbracket
    have hw := hwf (by simp [*])
    obtain ⟨t, rest, ht, hcur, _, _⟩ := hw.cur
    simp only [hcur, bind, Res.bind]
    split
    · rename_i hty
      refine ROK_bind (parseIndexExpression_ok total p hw ht hty) ?_
      rintro ⟨right, p1⟩ ⟨⟨h1, h2, h3⟩, hr⟩
      dsimp only at h1 h2 h3 hr ⊢
      refine ROK_mono (ih.pis .identity right p1 h1 trivial hr (by omega)) ?_
      intro r hrr
      exact hrr.weaken (by omega) h3
    · by_cases hstar : t.ty = .star
      · have hne : t.ty ≠ .eof := by rw [hstar]; simp
        obtain ⟨u, rest', hu, hl1⟩ := hw.look1 ht hne
        simp only [hstar, if_true, hl1]
        by_cases hrb : u.ty = .rbracket
        · simp only [hrb, decide_true, if_true]
          obtain ⟨hw1, ha1, hb1⟩ := hw.advance ht hne
          have hne2 : u.ty ≠ .eof := by rw [hrb]; simp
          obtain ⟨hw2, ha2, hb2⟩ := hw1.advance (by rw [ha1]; exact hu) hne2
          refine ROK_bind (ih.proj tbl.nudBracketStar p.advance.advance hw2 (by rw [ha2]; rw [ht, hu] at hf; simp at hf; omega)) ?_
          rintro ⟨r, p1⟩ ⟨hc, hr⟩
          exact ⟨hc.weaken (by rw [ha2, ht, hu]; simp; omega) (by rw [hb2, hb1]; simp; omega), ⟨trivial, hr⟩⟩
        · simp only [hrb, decide_false, Bool.false_eq_true, if_false]
          exact ih.msl p [] hw trivial (by omega)
      · simp only [hstar, if_false, Bool.false_eq_true]
        exact ih.msl p [] hw trivial (by omega)
  · exact Post.intro (hwf (by simp [*])) (Nat.le_refl _) (Nat.le_refl _) trivial
  · -- not
    have hw := hwf (by simp [*])
    simp only [bind, Res.bind]
    refine ROK_bind (ih.expr tbl.nudNot p hw (by omega)) ?_
    rintro ⟨e, p1⟩ ⟨hc, he⟩
    exact ⟨hc.weaken (by omega) (Nat.le_refl _), he⟩
  · -- parenthesis
    have hw := hwf (by simp [*])
    simp only [bind, Res.bind]
    refine ROK_bind (ih.expr tbl.nudParen p hw (by omega)) ?_
    rintro ⟨e, p1⟩ ⟨⟨h1, h2, h3⟩, he⟩
    dsimp only at h1 h2 h3 he ⊢
    refine ROK_bind (h1.expect .rparen (by simp)) ?_
    rintro p2 ⟨g1, g2, g3⟩
    exact Post.intro g1 (by omega) (by omega) he
  · exact ⟨by omega, by omega⟩

theorem step_led {fuel : Nat} (ih : AllClaims N tbl total fuel) : ClaimLed N tbl total (fuel + 1) := by
  intro ty node p hw hn hb2 hf
  obtain ⟨t, rest, ht, hcur, _, _⟩ := hw.cur
  unfold led
  split
  · -- dot
    simp only [hcur, bind, Res.bind]
    split
    · refine ROK_bind (ih.dot tbl.ledDotSub p hw (by omega)) ?_
      rintro ⟨r, p1⟩ ⟨hc, hr⟩
      exact ⟨hc, ⟨hn, hr⟩⟩
    · rename_i hstar
      have hty : t.ty = .star := by simpa using hstar
      have hne : t.ty ≠ .eof := by rw [hty]; simp
      obtain ⟨hw', ha, hb⟩ := hw.advance ht hne
      refine ROK_bind (ih.proj tbl.ledDotStar p.advance hw' (by rw [ha]; rw [ht] at hf; simp at hf; omega)) ?_
      rintro ⟨r, p1⟩ ⟨hc, hr⟩
      exact ⟨hc.weaken (by rw [ha, ht]; simp) (by rw [hb]; simp), ⟨hn, hr⟩⟩
  · simp only [bind, Res.bind]
    refine ROK_bind (ih.expr tbl.ledPipe p hw (by omega)) ?_
    rintro ⟨r, p1⟩ ⟨hc, hr⟩
    exact ⟨hc.weaken (by omega) (Nat.le_refl _), ⟨hn, hr⟩⟩
  · simp only [bind, Res.bind]
    refine ROK_bind (ih.expr tbl.ledOr p hw (by omega)) ?_
    rintro ⟨r, p1⟩ ⟨hc, hr⟩
    exact ⟨hc.weaken (by omega) (Nat.le_refl _), ⟨hn, hr⟩⟩
  · simp only [bind, Res.bind]
    refine ROK_bind (ih.expr tbl.ledAnd p hw (by omega)) ?_
    rintro ⟨r, p1⟩ ⟨hc, hr⟩
    exact ⟨hc.weaken (by omega) (Nat.le_refl _), ⟨hn, hr⟩⟩
  · -- call
    match hbf : p.before, hb2 with
    | lp :: prev :: more, _ =>
      have hlp : lp.pos ≤ total := hw.posB lp (by rw [hbf]; simp)
      cases node <;> simp only [] <;> try exact ⟨by omega, by omega⟩
      rename_i name
      split
      · simp only [hcur, bind, Res.bind]
        refine ROK_bind (Q := fun (r : List (Bool × Node N) × PState) => Cursor total p p.after.length r.2 ∧ slicesOKArgs r.1) ?_ ?_
        · split
          · exact ⟨⟨hw, Nat.le_refl _, Nat.le_refl _⟩, trivial⟩
          · exact ROK_mono (ih.args p hw (by omega)) (fun r hr => ⟨hr.1.weaken (by omega) (Nat.le_refl _), hr.2⟩)
        · rintro ⟨args, p1⟩ ⟨⟨h1, h2, h3⟩, hargs⟩
          dsimp only at h1 h2 h3 hargs ⊢
          refine ROK_bind (h1.expect .rparen (by simp)) ?_
          rintro p2 ⟨g1, g2, g3⟩
          exact Post.intro g1 (by omega) (by omega) hargs
      · exact ⟨by omega, by omega⟩
    | [], h => simp at h
    | [_], h => simp at h
  · exact ih.filter node p hw hn (by omega)
  · simp only [bind, Res.bind]
    refine ROK_bind (ih.proj tbl.ledFlatten p hw (by omega)) ?_
    rintro ⟨r, p1⟩ ⟨hc, hr⟩
    exact ⟨hc, ⟨hn, hr⟩⟩
  · -- lbracket
    simp only [hcur, bind, Res.bind]
    split
    · rename_i hty
      refine ROK_bind (parseIndexExpression_ok total p hw ht hty) ?_
      rintro ⟨right, p1⟩ ⟨⟨h1, h2, h3⟩, hr⟩
      dsimp only at h1 h2 h3 hr ⊢
      refine ROK_mono (ih.pis node right p1 h1 hn hr (by omega)) ?_
      intro r hrr
      exact hrr.weaken (by omega) h3
    · refine ROK_bind (hw.expect .star (by simp)) ?_
      rintro p1 ⟨g1, g2, g3⟩
      refine ROK_bind (g1.expect .rbracket (by simp)) ?_
      rintro p2 ⟨k1, k2, k3⟩
      refine ROK_bind (ih.proj tbl.ledBracketStar p2 k1 (by omega)) ?_
      rintro ⟨r, p3⟩ ⟨⟨m1, m2, m3⟩, hr⟩
      dsimp only at m1 m2 m3 hr ⊢
      exact Post.intro m1 (by omega) (by omega) ⟨hn, hr⟩
  · -- comparators / default
    split
    · simp only [bind, Res.bind]
      refine ROK_bind (ih.expr _ p hw (by omega)) ?_
      rintro ⟨r, p1⟩ ⟨hc, hr⟩
      exact ⟨hc.weaken (by omega) (Nat.le_refl _), ⟨hn, hr⟩⟩
    · exact hw.syntaxError

end Jmes.Parser

namespace Jmes.Parser
variable {N : Type} [NumOps N]
open Jmes.Interp (slicesOK slicesOKList slicesOKKVs slicesOKArgs optOK)
variable {tbl : ParserTable} {total : Nat}

theorem step_loop (hT : tbl.power .eof = 0) {fuel : Nat} (ih : AllClaims N tbl total fuel) :
    ClaimLoop N tbl total (fuel + 1) := by
  intro rbp left p hw hl hb1 hf
  obtain ⟨t, rest, ht, hcur, _, _⟩ := hw.cur
  simp only [ledLoop, hcur, bind, Res.bind]
  split
  · rename_i hlt
    have hne : t.ty ≠ .eof := by intro h; rw [h, hT] at hlt; omega
    obtain ⟨hw', ha, hb⟩ := hw.advance ht hne
    have hlen : p.after.length = rest.length + 1 := by rw [ht]; simp
    refine ROK_bind (ih.led t.ty left p.advance hw' hl (by rw [hb]; simp; omega) (by rw [ha]; omega)) ?_
    rintro ⟨left', p1⟩ ⟨⟨h1, h2, h3⟩, hl'⟩
    dsimp only at h1 h2 h3 hl' ⊢
    rw [ha] at h2; rw [hb] at h3; simp at h3
    refine ROK_mono (ih.loop rbp left' p1 h1 hl' (by omega) (by omega)) ?_
    intro r hr
    exact hr.weaken (by omega) (by omega)
  · exact Post.intro hw (Nat.le_refl _) (Nat.le_refl _) hl

theorem step_expr {fuel : Nat} (ih : AllClaims N tbl total fuel) : ClaimExpr N tbl total (fuel + 1) := by
  intro rbp p hw hf
  obtain ⟨t, rest, ht, hcur, hcurTok, hpos⟩ := hw.cur
  simp only [parseExpression, hcurTok, bind, Res.bind]
  have hadvA : p.advance.after = rest := by simp [PState.advance, ht]
  have hadvB : p.advance.before = t :: p.before := by simp [PState.advance, ht]
  have hlen : p.after.length = rest.length + 1 := by rw [ht]; simp
  refine ROK_bind (ih.nud t p.advance hpos (fun hne => (hw.advance ht hne).1) (by rw [hadvA]; omega)) ?_
  rintro ⟨left, p1⟩ ⟨⟨h1, h2, h3⟩, hl⟩
  dsimp only at h1 h2 h3 hl ⊢
  rw [hadvA] at h2; rw [hadvB] at h3; simp at h3
  refine ROK_mono (ih.loop rbp left p1 h1 hl (by omega) (by omega)) ?_
  intro r hr
  exact hr.weaken (by omega) (by omega)

/-- All eleven parse functions are safe, for every amount of fuel that covers the remaining tokens. -/
theorem all_claims (hT : tbl.power .eof = 0) : ∀ fuel : Nat, AllClaims N tbl total fuel
  | 0 => by
    have nonempty : ∀ {p : PState}, WF total p → 1 ≤ p.after.length := by
      intro p hw; obtain ⟨t, rest, ht⟩ := hw.ne_nil; rw [ht]; simp
    constructor
    · intro rbp p hw hf; have := nonempty hw; omega
    · intro rbp left p hw _ _ hf; omega
    · intro token p _ _ hf; omega
    · intro ty node p hw _ _ hf; omega
    · intro p hw hf; omega
    · intro l r p hw _ _ hf; omega
    · intro node p hw _ hf; omega
    · intro bp p hw hf; omega
    · intro bp p hw hf; omega
    · intro p acc hw _ hf; omega
    · intro p acc hw _ hf; omega
  | fuel + 1 =>
    have ih := all_claims hT fuel
    ⟨step_expr ih, step_loop hT ih, step_nud ih, step_led ih, step_args ih, step_pis ih, step_filter ih,
     step_dot ih, step_proj ih, step_msl ih, step_msh ih⟩

/-- `(*Parser).Parse` after lexing: on every token list of the shape the lexer
    produces, no panic, enough fuel, syntax offsets inside the expression,
    64-bit slice literals in the AST. -/
theorem parseTokens_ok (hT : tbl.power .eof = 0) (toks : List Token) (h : Lexer.TokensOK total toks) :
    ROK total (fun e => slicesOK e) (parseTokens (N := N) tbl toks) := by
  obtain ⟨⟨pre, hp, hne⟩, hpos⟩ := h
  have hw : WF total ⟨[], toks⟩ := ⟨⟨pre, hp, hne⟩, hpos, by intro t ht; cases ht⟩
  unfold parseTokens
  simp only [bind, Res.bind]
  refine ROK_bind ((all_claims (N := N) hT (fuelFor toks.length)).expr tbl.top ⟨[], toks⟩ hw (by unfold fuelFor; simp)) ?_
  rintro ⟨e, p⟩ ⟨⟨h1, _, _⟩, he⟩
  dsimp only at h1 he ⊢
  obtain ⟨t, rest, ht, hcur, _, _⟩ := h1.cur
  simp only [hcur]
  split
  · exact h1.syntaxError
  · exact he

/-- `Compile` on arbitrary bytes. -/
theorem parseWith_ok (lt : Lexer.Tables) (hlt : Lexer.TablesSafe lt) (hT : tbl.power .eof = 0) (expr : Bytes) :
    ROK expr.length (fun e => slicesOK e) (parseWith (N := N) lt tbl expr) := by
  unfold parseWith
  have hl := Lexer.tokenize_ok lt hlt expr
  simp only [bind, Res.bind]
  cases htk : Lexer.tokenize lt expr with
  | ok toks => rw [htk] at hl; exact parseTokens_ok hT toks hl
  | err e => rw [htk] at hl; cases e <;> exact hl
  | panic s => rw [htk] at hl; exact hl.elim

end Jmes.Parser
