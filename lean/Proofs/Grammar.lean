/-
  Proofs.Grammar — soundness of the parser w.r.t. the published grammar
  (Spec/Grammar.lean): every token list the parser accepts is a sentence of
  `G true` (the ABNF plus the one lenient production, finding D24).
  Proved by induction on the relational description `R`, which is complete
  for the fuel-based parser model (`R_complete`).
-/
import Proofs.ParserComplete
import Spec.Grammar
namespace Jmes.Parser
open Jmes.Spec
variable {N : Type} [NumOps N]

/-! ### consumed segments of the zipper -/

structure Seg (p p1 : PState) (seg : List Token) : Prop where
  after : p.after = seg ++ p1.after
  before : p1.before = seg.reverse ++ p.before

theorem Seg.refl (p : PState) : Seg p p [] := ⟨rfl, rfl⟩

theorem Seg.trans {p p1 p2 : PState} {a b : List Token} (h1 : Seg p p1 a) (h2 : Seg p1 p2 b) : Seg p p2 (a ++ b) :=
  ⟨by rw [h1.after, h2.after, List.append_assoc], by rw [h2.before, h1.before, List.reverse_append, List.append_assoc]⟩

theorem Seg.adv {p : PState} {t : Token} {rest : List Token} (h : p.after = t :: rest) : Seg p p.advance [t] := by
  constructor <;> simp [PState.advance, h]

theorem Seg.cons {p p1 : PState} {t : Token} {rest seg : List Token} (h : p.after = t :: rest) (h1 : Seg p.advance p1 seg) :
    Seg p p1 (t :: seg) := by
  have := Seg.trans (Seg.adv h) h1
  simpa using this

theorem adv_after {p : PState} {t : Token} {rest : List Token} (h : p.after = t :: rest) : p.advance.after = rest := by
  simp [PState.advance, h]

theorem adv_before {p : PState} {t : Token} {rest : List Token} (h : p.after = t :: rest) : p.advance.before = t :: p.before := by
  simp [PState.advance, h]

/-! ### facts about the grammar -/

theorem G_ne {l : Bool} {c : Cat} {s : List Token} (h : G N l c s) : s ≠ [] := by
  induction h <;> simp_all

theorem head_bracket {l : Bool} {s : List Token} (h : G N l .bracket s) :
    ∃ t ts, s = t :: ts ∧ (t.ty = .lbracket ∨ t.ty = .flatten ∨ t.ty = .filter) := by
  cases h with
  | brNumber h1 _ _ => exact ⟨_, _, rfl, Or.inl h1⟩
  | brStar h1 _ _ => exact ⟨_, _, rfl, Or.inl h1⟩
  | brSlice h1 _ _ => exact ⟨_, _, rfl, Or.inl h1⟩
  | brFlatten h1 => exact ⟨_, _, rfl, Or.inr (Or.inl h1)⟩
  | brFilter h1 _ _ => exact ⟨_, _, rfl, Or.inr (Or.inr h1)⟩

theorem head_list {l : Bool} {s : List Token} (h : G N l .msList s) : ∃ t ts, s = t :: ts ∧ t.ty = .lbracket := by
  cases h with
  | msList h1 _ _ => exact ⟨_, _, rfl, h1⟩

theorem head_hash {l : Bool} {s : List Token} (h : G N l .msHash s) : ∃ t ts, s = t :: ts ∧ t.ty = .lbrace := by
  cases h with
  | msHash h1 _ _ => exact ⟨_, _, rfl, h1⟩

theorem head_call {l : Bool} {s : List Token} (h : G N l .call s) : ∃ t ts, s = t :: ts ∧ t.ty = .uident := by
  cases h with
  | call0 h1 _ _ => exact ⟨_, _, rfl, h1⟩
  | callArgs h1 _ _ _ => exact ⟨_, _, rfl, h1⟩

/-- the first token of `a ++ b` is the first token of a non-empty `a` -/
theorem head_append {a b : List Token} {t : Token} {ts : List Token} (ha : a ≠ []) (h : a ++ b = t :: ts) :
    ∃ ts', a = t :: ts' := by
  cases a with
  | nil => exact absurd rfl ha
  | cons x xs => simp only [List.cons_append, List.cons.injEq] at h; exact ⟨xs, by rw [h.1]⟩

def DotHead (t : Token) : Prop := isIdent t ∨ t.ty = .star

/-- Re-rooting at a dot: an expression that begins with an identifier or `*`
    can be hung under `a .` — the published grammar derives `a.b[0]` as
    `(a.b)[0]`, the parser reads `b[0]` first. -/
theorem open_expr {l : Bool} {a : List Token} (h : G N l .openExpr a) : G N l .expr a := by
  cases h with
  | openIdx ha hb _ => exact G.index ha hb
  | openIdx0 hb _ => exact G.index0 hb
  | openDotStar ha hd hs => exact G.sub ha hd (G.dotStar hs)
  | openStar hs => exact G.star hs

theorem reroot_dot {l : Bool} {c : Cat} {seg : List Token} (h : G N l c seg) :
    (c = .expr ∨ c = .openExpr) → (∃ t ts, seg = t :: ts ∧ DotHead t) →
    ∀ a d, G N l .expr a → d.ty = .dot → G N l c (a ++ d :: seg) := by
  induction h with
  | ident hi => intro _ _ a d ha hd; exact G.sub ha hd (G.dotIdent hi)
  | star hs => intro _ _ a d ha hd; exact G.sub ha hd (G.dotStar hs)
  | @current t ht => intro _ ⟨t', ts, e, hh⟩; simp at e; obtain ⟨rfl, _⟩ := e; rcases hh with (h | h) | h <;> simp_all
  | @raw t ht => intro _ ⟨t', ts, e, hh⟩; simp at e; obtain ⟨rfl, _⟩ := e; rcases hh with (h | h) | h <;> simp_all
  | @literal t ht _ => intro _ ⟨t', ts, e, hh⟩; simp at e; obtain ⟨rfl, _⟩ := e; rcases hh with (h | h) | h <;> simp_all
  | @sub x dd b hx hdd hb ihx _ =>
    intro _ ⟨t, ts, e, hh⟩ a d ha hd
    obtain ⟨ts', ex⟩ := head_append (G_ne hx) e
    have := ihx (Or.inl rfl) ⟨t, ts', ex, hh⟩ a d ha hd
    have := G.sub this hdd hb
    simpa [List.append_assoc] using this
  | @bin x o b hx ho hb ihx _ =>
    intro _ ⟨t, ts, e, hh⟩ a d ha hd
    obtain ⟨ts', ex⟩ := head_append (G_ne hx) e
    have := ihx (Or.inl rfl) ⟨t, ts', ex, hh⟩ a d ha hd
    have := G.bin this ho hb
    simpa [List.append_assoc] using this
  | @not t x ht _ _ => intro _ ⟨t', ts, e, hh⟩; simp at e; obtain ⟨rfl, _⟩ := e; rcases hh with (h | h) | h <;> simp_all
  | @paren lp x r hl _ _ _ => intro _ ⟨t', ts, e, hh⟩; simp at e; obtain ⟨rfl, _⟩ := e; rcases hh with (h | h) | h <;> simp_all
  | @index x b hx hb ihx _ =>
    intro _ ⟨t, ts, e, hh⟩ a d ha hd
    obtain ⟨ts', ex⟩ := head_append (G_ne hx) e
    have := ihx (Or.inl rfl) ⟨t, ts', ex, hh⟩ a d ha hd
    have := G.index this hb
    simpa [List.append_assoc] using this
  | @index0 b hb _ =>
    intro _ ⟨t, ts, e, hh⟩
    obtain ⟨t', ts', e', ht'⟩ := head_bracket hb
    rw [e'] at e; simp at e; obtain ⟨rfl, _⟩ := e
    rcases hh with (h | h) | h <;> rcases ht' with h' | h' | h' <;> simp_all
  | @list b hb _ =>
    intro _ _ a d ha hd; exact G.sub ha hd (G.dotList hb)
  | @hash b hb _ =>
    intro _ _ a d ha hd; exact G.sub ha hd (G.dotHash hb)
  | @fn b hb _ =>
    intro _ _ a d ha hd; exact G.sub ha hd (G.dotFn hb)
  | @lenientList x b hl hx hb ihx _ =>
    intro _ ⟨t, ts, e, hh⟩ a d ha hd
    obtain ⟨ts', ex⟩ := head_append (G_ne hx) e
    have := ihx (Or.inr rfl) ⟨t, ts', ex, hh⟩ a d ha hd
    have := G.lenientList hl this hb
    simpa [List.append_assoc] using this
  | @openIdx x b hx hb hpb ihx _ =>
    intro _ ⟨t, ts, e, hh⟩ a d ha hd
    obtain ⟨ts', ex⟩ := head_append (G_ne hx) e
    have := ihx (Or.inl rfl) ⟨t, ts', ex, hh⟩ a d ha hd
    have := G.openIdx this hb hpb
    simpa [List.append_assoc] using this
  | @openIdx0 b hb _ _ =>
    intro _ ⟨t, ts, e, hh⟩
    obtain ⟨t', ts', e', ht'⟩ := head_bracket hb
    rw [e'] at e; simp at e; obtain ⟨rfl, _⟩ := e
    rcases hh with (h | h) | h <;> rcases ht' with h' | h' | h' <;> simp_all
  | @openDotStar x dd st hx hdd hst ihx =>
    intro _ ⟨t, ts, e, hh⟩ a d ha hd
    obtain ⟨ts', ex⟩ := head_append (G_ne hx) e
    have := ihx (Or.inl rfl) ⟨t, ts', ex, hh⟩ a d ha hd
    have := G.openDotStar this hdd hst
    simpa [List.append_assoc] using this
  | @openStar st hst => intro _ _ a d ha hd; exact G.openDotStar ha hd hst
  | _ => intro hc; rcases hc with hc | hc <;> cases hc

def BrHead (t : Token) : Prop := t.ty = .lbracket ∨ t.ty = .filter

/-- Re-rooting at a bracket: an expression that begins with `[` or `[?` can be
    appended to an expression (this is where the lenient production is used:
    the appended expression may be a multi-select list). -/
theorem reroot_bracket {c : Cat} {seg : List Token} (h : G N true c seg) :
    (c = .expr ∨ c = .openExpr) → (∃ t ts, seg = t :: ts ∧ BrHead t) →
    ∀ a, G N true .openExpr a → G N true c (a ++ seg) := by
  induction h with
  | @ident t hi => intro _ ⟨t', ts, e, hh⟩; simp at e; obtain ⟨rfl, _⟩ := e; rcases hi with h | h <;> rcases hh with h' | h' <;> simp_all
  | @star t ht => intro _ ⟨t', ts, e, hh⟩; simp at e; obtain ⟨rfl, _⟩ := e; rcases hh with h | h <;> simp_all
  | @current t ht => intro _ ⟨t', ts, e, hh⟩; simp at e; obtain ⟨rfl, _⟩ := e; rcases hh with h | h <;> simp_all
  | @raw t ht => intro _ ⟨t', ts, e, hh⟩; simp at e; obtain ⟨rfl, _⟩ := e; rcases hh with h | h <;> simp_all
  | @literal t ht _ => intro _ ⟨t', ts, e, hh⟩; simp at e; obtain ⟨rfl, _⟩ := e; rcases hh with h | h <;> simp_all
  | @sub x dd b hx hdd hb ihx _ =>
    intro _ ⟨t, ts, e, hh⟩ a ha
    obtain ⟨ts', ex⟩ := head_append (G_ne hx) e
    have := G.sub (ihx (Or.inl rfl) ⟨t, ts', ex, hh⟩ a ha) hdd hb
    simpa [List.append_assoc] using this
  | @bin x o b hx ho hb ihx _ =>
    intro _ ⟨t, ts, e, hh⟩ a ha
    obtain ⟨ts', ex⟩ := head_append (G_ne hx) e
    have := G.bin (ihx (Or.inl rfl) ⟨t, ts', ex, hh⟩ a ha) ho hb
    simpa [List.append_assoc] using this
  | @not t x ht _ _ => intro _ ⟨t', ts, e, hh⟩; simp at e; obtain ⟨rfl, _⟩ := e; rcases hh with h | h <;> simp_all
  | @paren lp x r hl _ _ _ => intro _ ⟨t', ts, e, hh⟩; simp at e; obtain ⟨rfl, _⟩ := e; rcases hh with h | h <;> simp_all
  | @index x b hx hb ihx _ =>
    intro _ ⟨t, ts, e, hh⟩ a ha
    obtain ⟨ts', ex⟩ := head_append (G_ne hx) e
    have := G.index (ihx (Or.inl rfl) ⟨t, ts', ex, hh⟩ a ha) hb
    simpa [List.append_assoc] using this
  | @index0 b hb _ => intro _ _ a ha; exact G.index (open_expr ha) hb
  | @list b hb _ => intro _ _ a ha; exact G.lenientList rfl ha hb
  | @hash b hb _ =>
    intro _ ⟨t, ts, e, hh⟩
    obtain ⟨t', ts', e', ht'⟩ := head_hash hb
    rw [e'] at e; simp at e; obtain ⟨rfl, _⟩ := e
    rcases hh with h | h <;> simp_all
  | @fn b hb _ =>
    intro _ ⟨t, ts, e, hh⟩
    obtain ⟨t', ts', e', ht'⟩ := head_call hb
    rw [e'] at e; simp at e; obtain ⟨rfl, _⟩ := e
    rcases hh with h | h <;> simp_all
  | @lenientList x b hl hx hb ihx _ =>
    intro _ ⟨t, ts, e, hh⟩ a ha
    obtain ⟨ts', ex⟩ := head_append (G_ne hx) e
    have := G.lenientList hl (ihx (Or.inr rfl) ⟨t, ts', ex, hh⟩ a ha) hb
    simpa [List.append_assoc] using this
  | @openIdx x b hx hb hpb ihx _ =>
    intro _ ⟨t, ts, e, hh⟩ a ha
    obtain ⟨ts', ex⟩ := head_append (G_ne hx) e
    have := G.openIdx (ihx (Or.inl rfl) ⟨t, ts', ex, hh⟩ a ha) hb hpb
    simpa [List.append_assoc] using this
  | @openIdx0 b hb hpb _ => intro _ _ a ha; exact G.openIdx (open_expr ha) hb hpb
  | @openDotStar x dd st hx hdd hst ihx =>
    intro _ ⟨t, ts, e, hh⟩ a ha
    obtain ⟨ts', ex⟩ := head_append (G_ne hx) e
    have := G.openDotStar (ihx (Or.inl rfl) ⟨t, ts', ex, hh⟩ a ha) hdd hst
    simpa [List.append_assoc] using this
  | @openStar st hst => intro _ ⟨t', ts, e, hh⟩; simp at e; obtain ⟨rfl, _⟩ := e; rcases hh with h | h <;> simp_all
  | _ => intro hc; rcases hc with hc | hc <;> cases hc

/-! ### slices -/

/-- What the slice loop can still read in state (`idx` colons seen, a number in the current slot or not). -/
inductive SR : Nat → Bool → List Token → Prop
  | done {idx filled} : SR idx filled []
  | colon {idx filled c rest} : idx + 1 < 3 → c.ty = .colon → SR (idx + 1) false rest → SR idx filled (c :: rest)
  | num {idx n rest} : n.ty = .number → SR idx true rest → SR idx false (n :: rest)

theorem sr2t {s : List Token} (h : SR 2 true s) : s = [] := by
  cases h with
  | done => rfl
  | colon h1 _ _ => omega

theorem sr2f {s : List Token} (h : SR 2 false s) : OptNum s := by
  cases h with
  | done => exact Or.inl rfl
  | colon h1 _ _ => omega
  | num hn hr => rw [sr2t hr]; exact Or.inr ⟨_, rfl, hn⟩

/-- after the first colon: `[number] [":" [number]]` -/
theorem sr1 {filled : Bool} {s : List Token} (h : SR 1 filled s) :
    ∃ b, (filled = true → b = []) ∧ OptNum b ∧ (s = b ∨ ∃ c2 c, c2.ty = .colon ∧ OptNum c ∧ s = b ++ c2 :: c) := by
  cases h with
  | done => exact ⟨[], fun _ => rfl, Or.inl rfl, Or.inl rfl⟩
  | colon _ hc hr => exact ⟨[], fun _ => rfl, Or.inl rfl, Or.inr ⟨_, _, hc, sr2f hr, rfl⟩⟩
  | num hn hr =>
    obtain ⟨b, hb, _, hs⟩ := sr1 hr
    have := hb rfl; subst this
    refine ⟨[_], (fun h => by cases h), Or.inr ⟨_, rfl, hn⟩, ?_⟩
    rcases hs with rfl | ⟨c2, c, h1, h2, rfl⟩
    · exact Or.inl rfl
    · exact Or.inr ⟨c2, c, h1, h2, rfl⟩

/-- a slice body that contains a colon is a slice-expression of the grammar -/
theorem sr0 {filled : Bool} {s : List Token} (h : SR 0 filled s) :
    (∀ t, t ∈ s → t.ty ≠ .colon) ∨ SliceG s := by
  cases h with
  | done => left; intro t ht; cases ht
  | colon _ hc hr =>
    right
    obtain ⟨b, _, hb, hs⟩ := sr1 hr
    exact ⟨[], _, b, Or.inl rfl, hc, hb, by
      rcases hs with rfl | ⟨c2, c, h1, h2, rfl⟩
      · exact Or.inl rfl
      · exact Or.inr ⟨c2, c, h1, h2, rfl⟩⟩
  | @num _ n rest hn hr =>
    cases hr with
    | done => left; intro t ht; simp at ht; subst ht; rw [hn]; simp
    | @colon _ _ c rest' _ hc hr' =>
      right
      obtain ⟨b, _, hb, hs⟩ := sr1 hr'
      exact ⟨[n], c, b, Or.inr ⟨_, rfl, hn⟩, hc, hb, by
        rcases hs with rfl | ⟨c2, c', h1, h2, rfl⟩
        · exact Or.inl rfl
        · exact Or.inr ⟨c2, c', h1, h2, rfl⟩⟩

/-- Inversion of the slice loop: what it consumed is a word of `SR`. -/
theorem sliceLoop_inv : ∀ (fuel : Nat) (parts : List (Option Int)) (idx : Nat) (p : PState) (parts' : List (Option Int)) (p1 : PState),
    sliceLoop fuel parts idx p = .ok (parts', p1) → idx < 3 → parts.length = 3 →
    (∀ j, idx < j → parts.getD j none = none) →
    ∃ seg, Seg p p1 seg ∧ SR idx (parts.getD idx none).isSome seg ∧ NumOK seg
  | 0, _, _, _, _, _, h, _, _, _ => by simp [sliceLoop] at h
  | fuel + 1, parts, idx, p, parts', p1, h, hidx, hlen, hinv => by
    simp only [sliceLoop] at h
    obtain ⟨cur, hcur, h⟩ := bind_ok h
    obtain ⟨t, rest, hafter, rfl⟩ := cur_ok hcur
    split at h
    · rename_i hc
      split at h
      · rename_i hcol
        split at h
        · unfold PState.syntaxError at h; rw [hafter] at h; cases h
        · rename_i hn3
          obtain ⟨seg, hs, hsr, hno⟩ := sliceLoop_inv fuel parts (idx + 1) p.advance parts' p1 h (by omega) hlen
            (fun j hj => hinv j (by omega))
          rw [hinv (idx + 1) (by omega)] at hsr
          exact ⟨t :: seg, Seg.cons hafter hs, SR.colon (by omega) hcol hsr, NumOK.cons_ne (by rw [hcol]; decide) hno⟩
      · split at h
        · rename_i hnum
          split at h
          · unfold PState.syntaxError at h; rw [hafter] at h; cases h
          · rename_i hfilled
            obtain ⟨t', htok, h⟩ := bind_ok h
            split at h
            · cases h
            · rename_i n hat
              obtain ⟨seg, hs, hsr, hno⟩ := sliceLoop_inv fuel (parts.set idx (some n)) idx p.advance parts' p1 h hidx
                (by simp [hlen]) (fun j hj => by
                  rw [List.getD_eq_getElem?_getD, List.getElem?_set_ne (by omega), ← List.getD_eq_getElem?_getD]
                  exact hinv j hj)
              have hset : ((parts.set idx (some n)).getD idx none).isSome = true := by
                rw [List.getD_eq_getElem?_getD, List.getElem?_set_self (by omega)]; rfl
              rw [hset] at hsr
              have hf : (parts.getD idx none).isSome = false := by simpa using hfilled
              rw [hf]
              have htt : t' = t := by
                have := (cur_of_after hafter).2; rw [this] at htok; injection htok with e; exact e.symm
              exact ⟨t :: seg, Seg.cons hafter hs, SR.num hnum hsr, NumOK.cons (fun _ => by rw [← htt, hat]; rfl) hno⟩
        · unfold PState.syntaxError at h; rw [hafter] at h; cases h
    · simp only [Res.ok.injEq, Prod.mk.injEq] at h
      obtain ⟨_, rfl⟩ := h
      exact ⟨[], Seg.refl p, SR.done, NumOK.nil⟩

/-- Inversion of parseIndexExpression: after `[`, a number or a slice-expression, then `]`. -/
theorem parseIndex_inv {p p1 : PState} {right : Node N} {t0 : Token} {rest0 : List Token}
    (h : parseIndexExpression (N := N) p = .ok (right, p1)) (hafter : p.after = t0 :: rest0)
    (hnc : t0.ty = .number ∨ t0.ty = .colon) :
    ∃ body r, Seg p p1 (body ++ [r]) ∧ r.ty = .rbracket ∧
      ((∃ n, body = [n] ∧ n.ty = .number ∧ isSliceNode right = false ∧ NumOK [n]) ∨ (SliceG body ∧ NumOK body)) := by
  simp only [parseIndexExpression] at h
  obtain ⟨c0, hc0, h⟩ := bind_ok h
  have hc0' := (cur_of_after hafter).1
  rw [hc0'] at hc0; simp only [Res.ok.injEq] at hc0; subst hc0
  obtain ⟨isSlice, hsl, h⟩ := bind_ok h
  cases isSlice with
  | true =>
    simp only [if_true, parseSliceExpression] at h
    obtain ⟨⟨parts, p2⟩, hloop, h⟩ := bind_ok h
    obtain ⟨p3, hexp, h⟩ := bind_ok h
    dsimp only at hexp h
    obtain ⟨r, rest, hafter2, hr, rfl⟩ := expect_ok_inv hexp
    simp only [Res.ok.injEq, Prod.mk.injEq] at h
    obtain ⟨_, rfl⟩ := h
    obtain ⟨seg, hs, hsr, hno'⟩ := sliceLoop_inv _ _ 0 p parts p2 hloop (by omega) rfl (fun j hj => by
      match j, hj with
      | 1, _ => rfl
      | 2, _ => rfl
      | j + 3, _ => rfl)
    have hsr' : SR 0 false seg := hsr
    refine ⟨seg, r, Seg.trans hs (Seg.adv hafter2), hr, Or.inr ?_⟩
    rcases sr0 hsr' with hno | hg
    · exfalso
      have ha := hs.after
      rw [hafter, hafter2] at ha
      split at hsl
      · rename_i hcol
        -- the first token is a colon
        cases seg with
        | nil => simp at ha; rw [ha.1, hr] at hcol; cases hcol
        | cons x xs => simp at ha; exact hno x (by simp) (by rw [← ha.1]; exact hcol)
      · rename_i hncol
        obtain ⟨c1, hl1, hsl⟩ := bind_ok hsl
        obtain ⟨t0', t1, rest1, hafter', rfl⟩ := look1_ok hl1
        rw [hafter] at hafter'
        simp only [List.cons.injEq] at hafter'
        obtain ⟨rfl, rfl⟩ := hafter'
        simp only [Res.ok.injEq, decide_eq_true_eq] at hsl
        cases seg with
        | nil =>
          simp at ha
          rcases hnc with h' | h' <;> rw [ha.1, hr] at h' <;> cases h'
        | cons x xs =>
          cases xs with
          | nil => simp at ha; rw [ha.2.1, hr] at hsl; cases hsl
          | cons y ys => simp at ha; exact hno y (by simp) (by rw [← ha.2.1]; exact hsl)
    · exact ⟨hg, hno'⟩
  | false =>
    simp only [Bool.false_eq_true, if_false] at h
    obtain ⟨t, htok, h⟩ := bind_ok h
    have := (cur_of_after hafter).2
    rw [this] at htok; simp only [Res.ok.injEq] at htok; subst htok
    split at h
    · cases h
    · rename_i nval hat0
      obtain ⟨p2, hexp, h⟩ := bind_ok h
      obtain ⟨r, rest, hafter2, hr, rfl⟩ := expect_ok_inv hexp
      simp only [Res.ok.injEq, Prod.mk.injEq] at h
      obtain ⟨hright, rfl⟩ := h
      have hnum : t0.ty = .number := by
        rcases hnc with h' | h'
        · exact h'
        · simp [h'] at hsl
      exact ⟨[t0], r, Seg.trans (Seg.adv hafter) (Seg.adv hafter2), hr, Or.inl ⟨t0, rfl, hnum, by rw [← hright]; rfl,
        NumOK.cons (fun _ => by rw [hat0]; rfl) NumOK.nil⟩⟩

/-! ### soundness -/

abbrev GE (s : List Token) : Prop := G N true .expr s

/-- a `.field` node comes from a single token or from a parenthesised expression -/
def FieldInv (seg : List Token) (n : Node N) : Prop :=
  ∀ name, n = .field name → (∃ t, seg = [t]) ∨ (∃ s r, seg = s ++ [r] ∧ r.ty = .rparen)

def NotField (n : Node N) : Prop := ∀ name, n ≠ .field name

theorem FieldInv.of_not {seg : List Token} {n : Node N} (h : NotField n) : FieldInv seg n :=
  fun name e => absurd e (h name)

/-- can be appended to any expression that ends in an open projection -/
def Suffix (N : Type) [NumOps N] (seg : List Token) : Prop := ∀ a, G N true .openExpr a → GE (N := N) (a ++ seg)

theorem projBr_slice {l r : Token} {body : List Token} (h : SliceG body) : ProjBr (l :: body ++ [r]) := by
  intro l' n r' e hn
  obtain ⟨a, c1, b, ha, hc1, hb, hs⟩ := h
  have hlen : body.length = 1 := by
    have := congrArg List.length e; simp at this; omega
  rcases hs with rfl | ⟨c2, c, hc2, hc, rfl⟩
  · have : a = [] ∧ b = [] := by
      simp at hlen
      constructor <;> (apply List.eq_nil_of_length_eq_zero; omega)
    obtain ⟨rfl, rfl⟩ := this
    simp at e
    rw [← e.2.1, hc1] at hn; cases hn
  · simp at hlen; omega

theorem G_first {lz : Bool} {c : Cat} {s : List Token} (h : G N lz c s) :
    (c = .expr ∨ c = .openExpr) → ∃ t ts, s = t :: ts ∧ t.ty ≠ .number := by
  induction h with
  | ident hi => intro _; exact ⟨_, _, rfl, by rcases hi with h | h <;> rw [h] <;> decide⟩
  | star h | current h | raw h | literal h _ | openStar h => intro _; exact ⟨_, _, rfl, by rw [h]; decide⟩
  | sub _ _ _ ih _ | bin _ _ _ ih _ | index _ _ ih _ | openIdx _ _ _ ih _ | openDotStar _ _ _ ih =>
    intro _; obtain ⟨t, ts, rfl, ht⟩ := ih (Or.inl rfl); exact ⟨t, _, rfl, ht⟩
  | lenientList _ _ _ ih _ => intro _; obtain ⟨t, ts, rfl, ht⟩ := ih (Or.inr rfl); exact ⟨t, _, rfl, ht⟩
  | not h _ _ | paren h _ _ _ => intro _; exact ⟨_, _, rfl, by rw [h]; decide⟩
  | index0 hb _ | openIdx0 hb _ _ =>
    intro _; obtain ⟨t, ts, rfl, ht⟩ := head_bracket hb
    exact ⟨t, ts, rfl, by rcases ht with h | h | h <;> rw [h] <;> decide⟩
  | list hb _ => intro _; obtain ⟨t, ts, rfl, ht⟩ := head_list hb; exact ⟨t, ts, rfl, by rw [ht]; decide⟩
  | hash hb _ => intro _; obtain ⟨t, ts, rfl, ht⟩ := head_hash hb; exact ⟨t, ts, rfl, by rw [ht]; decide⟩
  | fn hb _ => intro _; obtain ⟨t, ts, rfl, ht⟩ := head_call hb; exact ⟨t, ts, rfl, by rw [ht]; decide⟩
  | _ => intro hc; rcases hc with hc | hc <;> cases hc

theorem projBr_filter {lz : Bool} {l r : Token} {e : List Token} (h : G N lz .expr e) : ProjBr (l :: e ++ [r]) := by
  intro l' n r' heq hn
  obtain ⟨t, ts, rfl, ht⟩ := G_first h (Or.inl rfl)
  cases ts with
  | nil => simp at heq; rw [← heq.2.1] at hn; exact ht hn
  | cons y ys => have := congrArg List.length heq; simp at this

theorem projBr_star {l s r : Token} (hs : s.ty = .star) : ProjBr [l, s, r] := by
  intro l' n r' heq hn; simp at heq; rw [← heq.2.1, hs] at hn; cases hn

theorem projBr_flatten {t : Token} : ProjBr [t] := by
  intro l' n r' heq; simp at heq

def Sound : Call N → Out N → Prop
  | .expr _ p, .node n p1 => ∃ seg, Seg p p1 seg ∧ GE (N := N) seg ∧ FieldInv seg n
  | .loop _ left p, .node n p1 => ∀ segL b0, p.before = segL.reverse ++ b0 → GE (N := N) segL → FieldInv segL left →
      ∃ seg, Seg p p1 seg ∧ GE (N := N) (segL ++ seg) ∧ FieldInv (segL ++ seg) n
  | .nud tok p, .node n p1 => ∃ seg, Seg p p1 seg ∧ GE (N := N) (tok :: seg) ∧ FieldInv (tok :: seg) n
  | .led ty left p, .node n p1 => ∀ t segL b0, t.ty = ty → p.before = t :: (segL.reverse ++ b0) → GE (N := N) segL → FieldInv segL left →
      ∃ seg, Seg p p1 seg ∧ GE (N := N) (segL ++ t :: seg) ∧ NotField n
  | .dot _ p, .node _ p1 => ∃ seg, Seg p p1 seg ∧ ∀ a d, GE (N := N) a → d.ty = .dot → GE (N := N) (a ++ d :: seg)
  | .msl p _, .node n p1 => ∃ e r, Seg p p1 (e ++ [r]) ∧ G N true .elems e ∧ r.ty = .rbracket ∧ NotField n
  | .msh p _, .node n p1 => ∃ e r, Seg p p1 (e ++ [r]) ∧ G N true .kvs e ∧ r.ty = .rbrace ∧ NotField n
  | .args p, .args _ p1 => ∃ seg, Seg p p1 seg ∧ G N true .args seg
  | .prhs _ p, .node _ p1 => ∃ seg, Seg p p1 seg ∧ Suffix N seg
  | .filter _ p, .node n p1 => ∃ seg, Seg p p1 seg ∧ NotField n ∧
      ∀ t, t.ty = .filter → GE (N := N) (t :: seg) ∧ ∀ a, GE (N := N) a → GE (N := N) (a ++ t :: seg)
  | .pis _ r p, .node n p1 => ∃ seg, Seg p p1 seg ∧ Suffix N seg ∧ NotField n ∧ (isSliceNode r = false → seg = [])
  | _, _ => True

theorem suffix_nil : Suffix N [] := fun a h => by simpa using open_expr h

theorem isBinOp_of_cmp {ty : TokType} {op : Cmp} (h : Cmp.ofTok ty = some op) : isBinOp ty :=
  Or.inr (Or.inr (Or.inr (by rw [h]; rfl)))

theorem head_of_seg {p p1 : PState} {seg : List Token} {t : Token} {rest : List Token} (hs : Seg p p1 seg)
    (hne : seg ≠ []) (hafter : p.after = t :: rest) : ∃ ts, seg = t :: ts := by
  have := hs.after; rw [hafter] at this
  exact head_append hne this.symm

theorem nf_sub {a b : Node N} : NotField (.sub a b) := fun _ e => by cases e

macro "nf" : tactic => `(tactic| (intro _ e; cases e))

/-- **Soundness**: every `R` derivation consumes a phrase of the grammar. -/
theorem R_grammatical (tbl : ParserTable) {c : Call N} {o : Out N} (h : R tbl c o) : Sound c o := by
  induction h with
  | @expr rbp p tok rest left p1 o hafter _ _ ih1 ih2 =>
    cases o with
    | args _ _ => trivial
    | node n p2 =>
      simp only [Sound] at ih1 ih2 ⊢
      obtain ⟨seg1, hs1, hg1, hf1⟩ := ih1
      obtain ⟨seg2, hs2, hg2, hf2⟩ := ih2 (tok :: seg1) p.before (by rw [hs1.before, adv_before hafter]; simp) hg1 hf1
      exact ⟨tok :: seg1 ++ seg2, Seg.trans (Seg.cons hafter hs1) hs2, hg2, hf2⟩
  | @stop rbp left p t rest hafter hnot =>
    simp only [Sound]
    intro segL b0 _ hg hf
    exact ⟨[], Seg.refl p, by simpa using hg, by simpa using hf⟩
  | @step rbp left p t rest left' p1 o hafter hlt _ _ ih1 ih2 =>
    cases o with
    | args _ _ => trivial
    | node n p2 =>
      simp only [Sound] at ih1 ih2 ⊢
      intro segL b0 hb hg hf
      obtain ⟨seg1, hs1, hg1, hn1⟩ := ih1 t segL b0 rfl (by rw [adv_before hafter, hb]) hg hf
      obtain ⟨seg2, hs2, hg2, hf2⟩ := ih2 (segL ++ t :: seg1) b0
        (by rw [hs1.before, adv_before hafter, hb]; simp) hg1 (FieldInv.of_not hn1)
      refine ⟨t :: seg1 ++ seg2, Seg.trans (Seg.cons hafter hs1) hs2, ?_, ?_⟩
      · simpa [List.append_assoc] using hg2
      · simpa [List.append_assoc] using hf2
  | @nudJson tok p v hty hdec =>
    simp only [Sound]
    exact ⟨[], Seg.refl p, G.literal hty (by rw [hdec]; rfl), FieldInv.of_not (by nf)⟩
  | @nudRaw tok p hty =>
    simp only [Sound]
    exact ⟨[], Seg.refl p, G.raw hty, FieldInv.of_not (by nf)⟩
  | @nudIdent tok p hty =>
    simp only [Sound]
    exact ⟨[], Seg.refl p, G.ident (Or.inl hty), fun _ _ => Or.inl ⟨tok, rfl⟩⟩
  | @nudQuoted tok p t rest hty _ _ =>
    simp only [Sound]
    exact ⟨[], Seg.refl p, G.ident (Or.inr hty), fun _ _ => Or.inl ⟨tok, rfl⟩⟩
  | @nudCurrent tok p hty =>
    simp only [Sound]
    exact ⟨[], Seg.refl p, G.current hty, FieldInv.of_not (by nf)⟩
  | @nudNot tok p e p1 hty _ ih =>
    simp only [Sound] at ih ⊢
    obtain ⟨seg, hs, hg, _⟩ := ih
    exact ⟨seg, hs, G.not hty hg, FieldInv.of_not (by nf)⟩
  | @nudParen tok p e p1 t rest hty _ hafter hrp ih =>
    simp only [Sound] at ih ⊢
    obtain ⟨seg, hs, hg, _⟩ := ih
    exact ⟨seg ++ [t], Seg.trans hs (Seg.adv hafter), G.paren hty hg hrp, fun _ _ => Or.inr ⟨tok :: seg, t, rfl, hrp⟩⟩
  | @nudIndex tok p n rb rest i hty hafter hnum hrb hat =>
    simp only [Sound]
    exact ⟨[n, rb], Seg.cons hafter (Seg.adv (adv_after hafter)), G.index0 (G.brNumber hty hnum hrb (fun _ => NumOK.cons (fun _ => by rw [hat]; rfl) NumOK.nil)), FieldInv.of_not (by nf)⟩
  | @nudList tok p t rest o hty hafter _ _ _ _ ih =>
    cases o with
    | args _ _ => trivial
    | node n p1 =>
      simp only [Sound] at ih ⊢
      obtain ⟨e, r, hs, he, hr, hn⟩ := ih
      exact ⟨e ++ [r], hs, G.list (G.msList hty he hr), FieldInv.of_not hn⟩
  | @nudHash tok p o hty _ ih =>
    cases o with
    | args _ _ => trivial
    | node n p1 =>
      simp only [Sound] at ih ⊢
      obtain ⟨e, r, hs, he, hr, hn⟩ := ih
      exact ⟨e ++ [r], hs, G.hash (G.msHash hty he hr), FieldInv.of_not hn⟩
  | @ledDot n p t rest r p1 hafter _ _ ih =>
    simp only [Sound] at ih ⊢
    obtain ⟨seg, hs, hd⟩ := ih
    intro t' segL b0 ht' _ hg _
    exact ⟨seg, hs, hd segL t' hg ht', by nf⟩
  | @ledPipe n p r p1 _ ih =>
    simp only [Sound] at ih ⊢
    obtain ⟨seg, hs, hg', _⟩ := ih
    intro t segL b0 ht _ hg _
    exact ⟨seg, hs, G.bin hg (Or.inl ht) hg', by nf⟩
  | @ledOr n p r p1 _ ih =>
    simp only [Sound] at ih ⊢
    obtain ⟨seg, hs, hg', _⟩ := ih
    intro t segL b0 ht _ hg _
    exact ⟨seg, hs, G.bin hg (Or.inr (Or.inl ht)) hg', by nf⟩
  | @ledAnd n p r p1 _ ih =>
    simp only [Sound] at ih ⊢
    obtain ⟨seg, hs, hg', _⟩ := ih
    intro t segL b0 ht _ hg _
    exact ⟨seg, hs, G.bin hg (Or.inr (Or.inr (Or.inl ht))) hg', by nf⟩
  | @ledCmp ty op n p r p1 hop _ ih =>
    simp only [Sound] at ih ⊢
    obtain ⟨seg, hs, hg', _⟩ := ih
    intro t segL b0 ht _ hg _
    exact ⟨seg, hs, G.bin hg (by rw [ht]; exact isBinOp_of_cmp hop) hg', by nf⟩
  | @ledCall0 name p lp prev more t rest hbef hprev hafter hrp =>
    simp only [Sound]
    intro t' segL b0 ht' hb hg hf
    rw [hbef] at hb
    simp only [List.cons.injEq] at hb
    obtain ⟨rfl, hb⟩ := hb
    rcases hf name rfl with ⟨t0, rfl⟩ | ⟨s, r, rfl, hr⟩
    · simp at hb
      obtain ⟨rfl, _⟩ := hb
      exact ⟨[t], Seg.adv hafter, G.fn (G.call0 hprev ht' hrp), by nf⟩
    · simp at hb
      obtain ⟨rfl, _⟩ := hb
      rw [hr] at hprev; cases hprev
  | @ledCall name p lp prev more t0 rest0 as p1 t rest hbef hprev hafter _ _ hafter1 hrp ih =>
    simp only [Sound] at ih ⊢
    obtain ⟨seg, hs, ha⟩ := ih
    intro t' segL b0 ht' hb hg hf
    rw [hbef] at hb
    simp only [List.cons.injEq] at hb
    obtain ⟨rfl, hb⟩ := hb
    rcases hf name rfl with ⟨t1, rfl⟩ | ⟨s, r, rfl, hr⟩
    · simp at hb
      obtain ⟨rfl, _⟩ := hb
      refine ⟨seg ++ [t], Seg.trans hs (Seg.adv hafter1), ?_, by nf⟩
      have := G.fn (G.callArgs (N := N) (lenient := true) hprev ht' ha hrp)
      simpa using this
    · simp at hb
      obtain ⟨rfl, _⟩ := hb
      rw [hr] at hprev; cases hprev
  | @ledIndex node p n rb rest i hafter hnum hrb hat =>
    simp only [Sound]
    intro t segL b0 ht _ hg _
    exact ⟨[n, rb], Seg.cons hafter (Seg.adv (adv_after hafter)), G.index hg (G.brNumber ht hnum hrb (fun _ => NumOK.cons (fun _ => by rw [hat]; rfl) NumOK.nil)), by nf⟩
  | @dotIdent bp p t rest o hafter hty _ ih =>
    cases o with
    | args _ _ => trivial
    | node n p1 =>
      simp only [Sound] at ih ⊢
      obtain ⟨seg, hs, hg, _⟩ := ih
      obtain ⟨ts, rfl⟩ := head_of_seg hs (G_ne hg) hafter
      exact ⟨_, hs, fun a d ha hd => reroot_dot hg (Or.inl rfl) ⟨t, ts, rfl, Or.inl (hty.symm)⟩ a d ha hd⟩
  | @dotList bp p t rest o hafter hty _ ih =>
    cases o with
    | args _ _ => trivial
    | node n p1 =>
      simp only [Sound] at ih ⊢
      obtain ⟨e, r, hs, he, hr, _⟩ := ih
      exact ⟨t :: (e ++ [r]), Seg.cons hafter hs, fun a d ha hd => G.sub ha hd (G.dotList (G.msList hty he hr))⟩
  | @dotHash bp p t rest o hafter hty _ ih =>
    cases o with
    | args _ _ => trivial
    | node n p1 =>
      simp only [Sound] at ih ⊢
      obtain ⟨e, r, hs, he, hr, _⟩ := ih
      exact ⟨t :: (e ++ [r]), Seg.cons hafter hs, fun a d ha hd => G.sub ha hd (G.dotHash (G.msHash hty he hr))⟩
  | @mslLast p acc e p1 t rest _ hafter hrb ih =>
    simp only [Sound] at ih ⊢
    obtain ⟨seg, hs, hg, _⟩ := ih
    exact ⟨seg, t, Seg.trans hs (Seg.adv hafter), G.elemsOne hg, hrb, by nf⟩
  | @mslMore p acc e p1 t rest o _ hafter hcm _ ih1 ih2 =>
    cases o with
    | args _ _ => trivial
    | node n p2 =>
      simp only [Sound] at ih1 ih2 ⊢
      obtain ⟨seg, hs, hg, _⟩ := ih1
      obtain ⟨e2, r, hs2, he2, hr, hn⟩ := ih2
      refine ⟨seg ++ t :: e2, r, ?_, G.elemsMore hg hcm he2, hr, hn⟩
      have := Seg.trans hs (Seg.cons hafter hs2)
      simpa [List.append_assoc] using this
  | @mshLast p acc k c rest0 v p2 t rest hafter hk hc _ hafter2 hrb ih =>
    simp only [Sound] at ih ⊢
    obtain ⟨seg, hs, hg, _⟩ := ih
    refine ⟨k :: c :: seg, t, ?_, G.kvsOne hk hc hg, hrb, by nf⟩
    have := Seg.trans (Seg.cons hafter (Seg.cons (adv_after hafter) hs)) (Seg.adv hafter2)
    simpa using this
  | @mshMore p acc k c rest0 v p2 t rest o hafter hk hc _ hafter2 hcm _ ih1 ih2 =>
    cases o with
    | args _ _ => trivial
    | node n p3 =>
      simp only [Sound] at ih1 ih2 ⊢
      obtain ⟨seg, hs, hg, _⟩ := ih1
      obtain ⟨e2, r, hs2, he2, hr, hn⟩ := ih2
      refine ⟨k :: c :: seg ++ t :: e2, r, ?_, G.kvsMore hk hc hg hcm he2, hr, hn⟩
      have := Seg.trans (Seg.cons hafter (Seg.cons (adv_after hafter) hs)) (Seg.cons hafter2 hs2)
      simpa [List.append_assoc] using this
  | @argPlainLast p t0 rest0 e p1 t rest _ _ _ _ _ ih =>
    simp only [Sound] at ih ⊢
    obtain ⟨seg, hs, hg, _⟩ := ih
    exact ⟨seg, hs, G.argsOne (G.argExpr hg)⟩
  | @argRefLast p t0 rest0 e p1 t rest hafter hty _ _ _ ih =>
    simp only [Sound] at ih ⊢
    obtain ⟨seg, hs, hg, _⟩ := ih
    exact ⟨t0 :: seg, Seg.cons hafter hs, G.argsOne (G.argRef hty hg)⟩
  | @argPlainMore p t0 rest0 e p1 t rest t2 rest2 as p3 _ _ _ hafter1 hcm _ _ _ ih1 ih2 =>
    simp only [Sound] at ih1 ih2 ⊢
    obtain ⟨seg, hs, hg, _⟩ := ih1
    obtain ⟨seg2, hs2, ha2⟩ := ih2
    exact ⟨seg ++ t :: seg2, Seg.trans hs (Seg.cons hafter1 hs2), G.argsMore (G.argExpr hg) hcm ha2⟩
  | @argRefMore p t0 rest0 e p1 t rest t2 rest2 as p3 hafter hty _ hafter1 hcm _ _ _ ih1 ih2 =>
    simp only [Sound] at ih1 ih2 ⊢
    obtain ⟨seg, hs, hg, _⟩ := ih1
    obtain ⟨seg2, hs2, ha2⟩ := ih2
    refine ⟨t0 :: seg ++ t :: seg2, ?_, G.argsMore (G.argRef hty hg) hcm ha2⟩
    have := Seg.trans (Seg.cons hafter hs) (Seg.cons hafter1 hs2)
    simpa using this
  | @nudStarR tok p t rest hty _ _ =>
    simp only [Sound]
    exact ⟨[], Seg.refl p, G.star hty, FieldInv.of_not (by nf)⟩
  | @nudStar tok p t rest r p1 hty _ _ _ ih =>
    simp only [Sound] at ih ⊢
    obtain ⟨seg, hs, hsuf⟩ := ih
    exact ⟨seg, hs, hsuf [tok] (G.openStar hty), FieldInv.of_not (by nf)⟩
  | @nudFilter tok p o hty _ ih =>
    cases o with
    | args _ _ => trivial
    | node n p1 =>
      simp only [Sound] at ih ⊢
      obtain ⟨seg, hs, hn, hf⟩ := ih
      exact ⟨seg, hs, (hf tok hty).1, FieldInv.of_not hn⟩
  | @nudFlatten tok p r p1 hty _ ih =>
    simp only [Sound] at ih ⊢
    obtain ⟨seg, hs, hsuf⟩ := ih
    exact ⟨seg, hs, hsuf [tok] (G.openIdx0 (G.brFlatten hty) projBr_flatten), FieldInv.of_not (by nf)⟩
  | @nudBracketIdx tok p t rest right p1 o hty hafter hnc hidx _ ih =>
    cases o with
    | args _ _ => trivial
    | node n p2 =>
      simp only [Sound] at ih ⊢
      obtain ⟨seg, hs, hsuf, hn, hnil⟩ := ih
      obtain ⟨body, r, hsb, hr, hbody⟩ := parseIndex_inv hidx hafter hnc
      refine ⟨(body ++ [r]) ++ seg, Seg.trans hsb hs, ?_, FieldInv.of_not hn⟩
      rcases hbody with ⟨nn, rfl, hnn, hns, hno⟩ | ⟨hsl, hno⟩
      · rw [hnil hns]
        simpa using G.index0 (G.brNumber (N := N) (lenient := true) hty hnn hr (fun _ => hno))
      · have := hsuf _ (G.openIdx0 (G.brSlice hty hsl hr (fun _ => hno)) (projBr_slice hsl))
        simpa [List.append_assoc] using this
  | @nudBracketStar tok p s rb rest r p1 hty hafter hs hrb _ ih =>
    simp only [Sound] at ih ⊢
    obtain ⟨seg, hsg, hsuf⟩ := ih
    refine ⟨s :: rb :: seg, Seg.cons hafter (Seg.cons (adv_after hafter) hsg), ?_, FieldInv.of_not (by nf)⟩
    have := hsuf _ (G.openIdx0 (G.brStar (N := N) (lenient := true) hty hs hrb) (projBr_star hs))
    simpa using this
  | @nudListStar tok p t u rest o hty hafter _ _ _ ih =>
    cases o with
    | args _ _ => trivial
    | node n p1 =>
      simp only [Sound] at ih ⊢
      obtain ⟨e, r, hs, he, hr, hn⟩ := ih
      exact ⟨e ++ [r], hs, G.list (G.msList hty he hr), FieldInv.of_not hn⟩
  | @ledDotStar n p t rest r p1 hafter hs _ ih =>
    simp only [Sound] at ih ⊢
    obtain ⟨seg, hsg, hsuf⟩ := ih
    intro t' segL b0 ht' _ hg _
    refine ⟨t :: seg, Seg.cons hafter hsg, ?_, by nf⟩
    have := hsuf _ (G.openDotStar hg ht' hs)
    simpa [List.append_assoc] using this
  | @ledFilter n p o _ ih =>
    cases o with
    | args _ _ => trivial
    | node n' p1 =>
      simp only [Sound] at ih ⊢
      obtain ⟨seg, hs, hn, hf⟩ := ih
      intro t segL b0 ht _ hg _
      exact ⟨seg, hs, (hf t ht).2 segL hg, hn⟩
  | @ledFlatten n p r p1 _ ih =>
    simp only [Sound] at ih ⊢
    obtain ⟨seg, hs, hsuf⟩ := ih
    intro t segL b0 ht _ hg _
    refine ⟨seg, hs, ?_, by nf⟩
    have := hsuf _ (G.openIdx hg (G.brFlatten ht) projBr_flatten)
    simpa [List.append_assoc] using this
  | @ledBracketIdx n p t rest right p1 o hafter hnc hidx _ ih =>
    cases o with
    | args _ _ => trivial
    | node n' p2 =>
      simp only [Sound] at ih ⊢
      obtain ⟨seg, hs, hsuf, hn, hnil⟩ := ih
      obtain ⟨body, r, hsb, hr, hbody⟩ := parseIndex_inv hidx hafter hnc
      intro t' segL b0 ht' _ hg _
      refine ⟨(body ++ [r]) ++ seg, Seg.trans hsb hs, ?_, hn⟩
      rcases hbody with ⟨nn, rfl, hnn, hns, hno⟩ | ⟨hsl, hno⟩
      · rw [hnil hns]
        simpa [List.append_assoc] using G.index hg (G.brNumber ht' hnn hr (fun _ => hno))
      · have := hsuf _ (G.openIdx hg (G.brSlice ht' hsl hr (fun _ => hno)) (projBr_slice hsl))
        simpa [List.append_assoc] using this
  | @ledBracketStar n p s rb rest r p1 hafter hs hrb _ ih =>
    simp only [Sound] at ih ⊢
    obtain ⟨seg, hsg, hsuf⟩ := ih
    intro t segL b0 ht _ hg _
    refine ⟨s :: rb :: seg, Seg.cons hafter (Seg.cons (adv_after hafter) hsg), ?_, by nf⟩
    have := hsuf _ (G.openIdx hg (G.brStar ht hs hrb) (projBr_star hs))
    simpa [List.append_assoc] using this
  | @pisSlice l r p rhs p1 hsl _ ih =>
    simp only [Sound] at ih ⊢
    obtain ⟨seg, hs, hsuf⟩ := ih
    exact ⟨seg, hs, hsuf, by nf, fun h => by rw [hsl] at h; cases h⟩
  | @pisIndex l r p _ =>
    simp only [Sound]
    exact ⟨[], Seg.refl p, suffix_nil, by nf, fun _ => rfl⟩
  | @filterFlat n p cond p1 rb t rest _ hafter hrb _ ih =>
    simp only [Sound] at ih ⊢
    obtain ⟨seg, hs, hg, _⟩ := ih
    refine ⟨seg ++ [rb], Seg.trans hs (Seg.adv hafter), by nf, fun tf htf => ⟨?_, fun a ha => ?_⟩⟩
    · exact G.index0 (G.brFilter htf hg hrb)
    · exact G.index ha (G.brFilter htf hg hrb)
  | @filterRhs n p cond p1 rb t rest r p2 _ hafter hrb _ _ ih1 ih2 =>
    simp only [Sound] at ih1 ih2 ⊢
    obtain ⟨seg, hs, hg, _⟩ := ih1
    obtain ⟨seg2, hs2, hsuf⟩ := ih2
    refine ⟨(seg ++ [rb]) ++ seg2, Seg.trans (Seg.trans hs (Seg.adv hafter)) hs2, by nf, fun tf htf => ⟨?_, fun a ha => ?_⟩⟩
    · have := hsuf _ (G.openIdx0 (G.brFilter htf hg hrb) (projBr_filter hg))
      simpa [List.append_assoc] using this
    · have := hsuf _ (G.openIdx ha (G.brFilter htf hg hrb) (projBr_filter hg))
      simpa [List.append_assoc] using this
  | @prhsId bp p t rest _ _ =>
    simp only [Sound]
    exact ⟨[], Seg.refl p, suffix_nil⟩
  | @prhsBracket bp p t rest o hafter _ hty _ ih =>
    cases o with
    | args _ _ => trivial
    | node n p1 =>
      simp only [Sound] at ih ⊢
      obtain ⟨seg, hs, hg, _⟩ := ih
      obtain ⟨ts, rfl⟩ := head_of_seg hs (G_ne hg) hafter
      exact ⟨_, hs, fun a ha => reroot_bracket hg (Or.inl rfl) ⟨t, ts, rfl, hty⟩ a ha⟩
  | @prhsDot bp p t rest o hafter _ hty _ ih =>
    cases o with
    | args _ _ => trivial
    | node n p1 =>
      simp only [Sound] at ih ⊢
      obtain ⟨seg, hs, hd⟩ := ih
      exact ⟨t :: seg, Seg.cons hafter hs, fun a ha => hd a t (open_expr ha) hty⟩
  | @dotStar bp p t rest o hafter hty _ ih =>
    cases o with
    | args _ _ => trivial
    | node n p1 =>
      simp only [Sound] at ih ⊢
      obtain ⟨seg, hs, hg, _⟩ := ih
      obtain ⟨ts, rfl⟩ := head_of_seg hs (G_ne hg) hafter
      exact ⟨_, hs, fun a d ha hd => reroot_dot hg (Or.inl rfl) ⟨t, ts, rfl, Or.inr hty⟩ a d ha hd⟩

end Jmes.Parser
