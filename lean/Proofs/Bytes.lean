/-
  Proofs.Bytes — from bytes to the AST: a rendering of a token list (any of the
  spellings of each token, any white space) compiles to what the parser makes of
  the tokens; in particular a rendering of `Spec.ppE e` compiles to `node e`,
  and two renderings of the same tokens compile alike (white space is
  insignificant).
-/
import Proofs.Printer
import Proofs.ParserPos
import Proofs.LexerRender
namespace Jmes.Parser
open Jmes.Lexer
variable {N : Type} [NumOps N]

/-- A successful parse transfers along `ToksRel` (same types, same values where values matter). -/
theorem parseTokens_toksRel {toks toks' : List Token} {ast : Node N} {total' : Nat}
    (hrel : ToksRel toks toks') (hok' : Lexer.TokensOK total' toks')
    (h : parseTokens T toks = .ok ast) : parseTokens T toks' = .ok ast := by
  obtain ⟨p1, t, rest, hR, hafter, hty⟩ := parseTokens_ok_iff_R T toks ast h
  obtain ⟨p1', hp1, hR'⟩ := R_transfer T hR default ⟨[], toks'⟩ ⟨ToksRel.nil, hrel⟩ (TokRel.refl _)
  obtain ⟨t', rest', ha', htt, _, _⟩ := hp1.after_cons hafter
  exact parseTokens_of_R (total := total') hR' ⟨t', rest', ha', htt.ty_eq hty⟩ hok'

/-- the tokens `toks` are the tokens `keys` up to what the parser ignores -/
inductive KeysOf : List Token → List (TokType × Bytes) → Prop
  | nil : KeysOf [] []
  | cons {t : Token} {k : TokType × Bytes} {ts : List Token} {ks : List (TokType × Bytes)} :
      t.ty = k.1 → (valued t.ty = true → t.value = k.2) → KeysOf ts ks → KeysOf (t :: ts) (k :: ks)

theorem toksRel_of_keys : ∀ {toks lexed : List Token} {keys : List (TokType × Bytes)},
    KeysOf toks keys → lexed.map keyOf = keys → ∀ (e1 e2 : Token), e1.ty = e2.ty → (valued e1.ty = false) →
    ToksRel (toks ++ [e1]) (lexed ++ [e2])
  | [], lexed, _, .nil, hl, e1, e2, he, hv => by
    cases lexed with
    | nil => exact ToksRel.cons ⟨he, fun h => by rw [hv] at h; cases h⟩ ToksRel.nil
    | cons a as => simp at hl
  | t :: ts, lexed, _, .cons h1 h2 hk, hl, e1, e2, he, hv => by
    cases lexed with
    | nil => simp at hl
    | cons a as =>
      simp only [List.map_cons, List.cons.injEq] at hl
      obtain ⟨ha, has⟩ := hl
      refine ToksRel.cons ⟨?_, ?_⟩ (toksRel_of_keys hk has e1 e2 he hv)
      · rw [h1, ← ha]; rfl
      · intro hval; rw [h2 hval, ← ha]; rfl

theorem toksRel_of_same_keys : ∀ {l1 l2 : List Token}, l1.map keyOf = l2.map keyOf → ∀ (e1 e2 : Token), e1.ty = e2.ty →
    valued e1.ty = false → ToksRel (l1 ++ [e1]) (l2 ++ [e2])
  | [], l2, h, e1, e2, he, hv => by
    cases l2 with
    | nil => exact ToksRel.cons ⟨he, fun h => by rw [hv] at h; cases h⟩ ToksRel.nil
    | cons a as => simp at h
  | a :: as, l2, h, e1, e2, he, hv => by
    cases l2 with
    | nil => simp at h
    | cons b bs =>
      simp only [List.map_cons, List.cons.injEq, keyOf, Prod.mk.injEq] at h
      exact ToksRel.cons ⟨h.1.1, fun _ => h.1.2⟩ (toksRel_of_same_keys h.2 e1 e2 he hv)

variable {lt : Lexer.Tables}

/-- **From bytes.**  If `s` renders tokens that the parser turns into `ast`, `s` compiles to `ast`. -/
theorem parseWith_rendered (hT : TablesAscii lt) (hsafe : Lexer.TablesSafe lt) {toks : List Token} {keys : List (TokType × Bytes)}
    {s : Bytes} {ast : Node N} (hk : KeysOf toks keys) (hr : Rendered keys s)
    (hp : parseTokens T (toks ++ [eofTok 0]) = .ok ast) : parseWith lt T s = .ok ast := by
  obtain ⟨lexed, hl, hkeys⟩ := tokenize_rendered hT hr
  have hok := Lexer.tokenize_ok lt hsafe s
  rw [hl] at hok
  have hrel := toksRel_of_keys hk hkeys (eofTok 0) ⟨.eof, [], s.length⟩ rfl rfl
  unfold parseWith
  rw [hl]
  exact parseTokens_toksRel hrel hok hp

/-- **White space is insignificant**, and so is the choice among the spellings of
    a token: two renderings of the same tokens compile to the same AST. -/
theorem parseWith_same_tokens (hT : TablesAscii lt) (hsafe : Lexer.TablesSafe lt) {keys : List (TokType × Bytes)}
    {s1 s2 : Bytes} {ast : Node N} (h1 : Rendered keys s1) (h2 : Rendered keys s2)
    (hp : parseWith lt T s1 = .ok ast) : parseWith lt T s2 = .ok ast := by
  obtain ⟨l1, hl1, hk1⟩ := tokenize_rendered hT h1
  obtain ⟨l2, hl2, hk2⟩ := tokenize_rendered hT h2
  have hok2 := Lexer.tokenize_ok lt hsafe s2
  rw [hl2] at hok2
  unfold parseWith at hp ⊢
  rw [hl1] at hp
  rw [hl2]
  have hp' : parseTokens (N := N) T (l1 ++ [⟨.eof, [], s1.length⟩]) = .ok ast := hp
  exact parseTokens_toksRel (toksRel_of_same_keys (by rw [hk1, hk2]) ⟨.eof, [], s1.length⟩ ⟨.eof, [], s2.length⟩ rfl rfl) hok2 hp'

end Jmes.Parser
