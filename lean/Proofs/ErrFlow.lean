/-
  Proofs.ErrFlow — the regenerated error-flow facts satisfy the rule (re-decided by the kernel on every run).
-/
import Spec.ErrFlow
namespace Jmes
open Jmes.Spec Jmes.GeneratedErrFlow

theorem generated_errflow_ok : ErrFlowOK sites = true := by decide +kernel

/-- What the obligation says, site by site. -/
theorem errflow_site (s : Site) (h : s ∈ sites) :
    s.status = .propagated ∨ s.status = .replaced ∨ allowed s = true := by
  have := List.all_eq_true.mp generated_errflow_ok s h
  simp only [siteOK, Bool.or_eq_true, beq_iff_eq] at this
  rcases this with (h1 | h2) | h3
  · exact Or.inl h1
  · exact Or.inr (Or.inl h2)
  · exact Or.inr (Or.inr h3)

end Jmes
