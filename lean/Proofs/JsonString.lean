/-
  Proofs.JsonString — the JSON string codec round trip: for every well-formed
  UTF-8 string `s`, decoding the body that `json.Marshal` writes for `s`
  (`Json.escape s`, HTML-safe escapes and U+2028/9 included) gives back `s`.
  This is what makes a quoted identifier spelled with JSON escaping select
  exactly the key `s` (C14), and strings survive encode/decode (C16).
-/
import Jmes.Json
import Proofs.Utf8
namespace Jmes.Json
open Jmes.Utf8

/-- well-formed UTF-8 (every rune decodes without error) -/
inductive ValidUtf8 : Bytes → Prop
  | nil : ValidUtf8 []
  | ascii (c : UInt8) (rest : Bytes) : c < 0x80 → ValidUtf8 rest → ValidUtf8 (c :: rest)
  | multi (c : UInt8) (rest : Bytes) : 1 < (decodeRune (c :: rest)).2 →
      ValidUtf8 ((c :: rest).drop (decodeRune (c :: rest)).2) → ValidUtf8 (c :: rest)

/-- what `escapeAux` writes for one ASCII byte -/
def escOut (c : UInt8) : Bytes :=
  if c = 0x5C || c = 0x22 then [0x5C, c]
  else if c = 0x08 then [0x5C, 0x62]
  else if c = 0x0C then [0x5C, 0x66]
  else if c = 0x0A then [0x5C, 0x6E]
  else if c = 0x0D then [0x5C, 0x72]
  else if c = 0x09 then [0x5C, 0x74]
  else if c < 0x20 || c = 0x3C || c = 0x3E || c = 0x26 then
    [0x5C, 0x75, 0x30, 0x30, hexDigit (c.toNat >>> 4), hexDigit (c.toNat &&& 0xF)]
  else [c]

theorem escapeAux_ascii (fuel : Nat) (c : UInt8) (rest : Bytes) (hc : c < 0x80) :
    escapeAux (fuel + 1) (c :: rest) = escOut c ++ escapeAux fuel rest := by
  simp only [escapeAux, hc, if_true, escOut]

theorem hex_facts : ∀ c : UInt8, c < 0x80 →
    hexVal (hexDigit (c.toNat >>> 4)) = some (c.toNat >>> 4) ∧ hexVal (hexDigit (c.toNat &&& 0xF)) = some (c.toNat &&& 0xF) ∧
    0 * 4096 + 0 * 256 + (c.toNat >>> 4) * 16 + (c.toNat &&& 0xF) = c.toNat := by
  apply forall_uint8'; decide +kernel

def isUEsc (c : UInt8) : Bool :=
  (c < 0x20 || c == 0x3C || c == 0x3E || c == 0x26) && c != 0x08 && c != 0x0C && c != 0x0A && c != 0x0D && c != 0x09

/-- the classes of ASCII bytes, as `escOut` distinguishes them -/
theorem esc_class : ∀ c : UInt8, c < 0x80 →
    (c = 0x5C ∨ c = 0x22 ∨ c = 0x08 ∨ c = 0x0C ∨ c = 0x0A ∨ c = 0x0D ∨ c = 0x09) ∨ isUEsc c = true ∨
    (escOut c = [c] ∧ c ≠ 0x22 ∧ ¬ c < 0x20 ∧ c ≠ 0x5C) := by
  apply forall_uint8'; decide +kernel

theorem escOut_u : ∀ c : UInt8, isUEsc c = true →
    escOut c = [0x5C, 0x75, 0x30, 0x30, hexDigit (c.toNat >>> 4), hexDigit (c.toNat &&& 0xF)] := by
  apply forall_uint8'; decide +kernel

theorem encodeRune_ascii' (c : UInt8) (hc : c < 0x80) : encodeRune c.toNat = [c] := by
  have : c.toNat < 0x80 := by simpa [UInt8.lt_iff_toNat_lt] using hc
  simp [encodeRune, this]

/-- decoding what was written for one ASCII byte yields that byte -/
theorem parse_ascii (c : UInt8) (hc : c < 0x80) (tail : Bytes) (fuel : Nat) :
    parseStringBody (fuel + 1) (escOut c ++ tail) = (parseStringBody fuel tail).map (fun (s, r) => (c :: s, r)) := by
  rcases esc_class c hc with h | h | h
  · rcases h with rfl | rfl | rfl | rfl | rfl | rfl | rfl <;> simp [escOut, parseStringBody]
  · have he := escOut_u c h
    obtain ⟨x1, x2, x3⟩ := hex_facts c hc
    rw [he]
    have hg : getu4 (0x5C :: 0x75 :: 0x30 :: 0x30 :: hexDigit (c.toNat >>> 4) :: hexDigit (c.toNat &&& 0xF) :: tail) = some c.toNat := by
      simp only [getu4, x1, x2]
      have : hexVal 0x30 = some 0 := by decide
      simp only [this]
      rw [x3]
    have hsur : (decide (0xD800 ≤ c.toNat) && decide (c.toNat < 0xE000)) = false := by
      have : c.toNat < 0x80 := by simpa [UInt8.lt_iff_toNat_lt] using hc
      simp; omega
    simp only [List.cons_append, List.nil_append, parseStringBody]
    simp only [show ((0x5C : UInt8) = 0x22) = False by decide, show ((0x5C : UInt8) < 0x20) = False by decide, if_false, if_true,
      show ((0x75 : UInt8) = 0x22) = False by decide, show ((0x75 : UInt8) = 0x5C) = False by decide,
      show ((0x75 : UInt8) = 0x2F) = False by decide, show ((0x75 : UInt8) = 0x62) = False by decide,
      show ((0x75 : UInt8) = 0x66) = False by decide, show ((0x75 : UInt8) = 0x6E) = False by decide,
      show ((0x75 : UInt8) = 0x72) = False by decide, show ((0x75 : UInt8) = 0x74) = False by decide, hg, hsur,
      Bool.false_eq_true, encodeRune_ascii' c hc]
    simp
  · obtain ⟨he, h1, h2, h3⟩ := h
    rw [he]
    simp only [List.cons_append, List.nil_append, parseStringBody, h1, h2, h3, if_false, hc, if_true]

theorem escOut_ne_nil : ∀ c : UInt8, 1 ≤ (escOut c).length := by
  apply forall_uint8'; decide +kernel

theorem multi_not_ascii (c : UInt8) (rest : Bytes) (hw : 1 < (decodeRune (c :: rest)).2) : ¬ c < 0x80 := by
  intro h; rw [decode_lt80 c rest h] at hw; simp at hw

theorem ge80_facts : ∀ c : UInt8, ¬ c < 0x80 → c ≠ 0x22 ∧ ¬ c < 0x20 ∧ c ≠ 0x5C := by
  apply forall_uint8'; decide +kernel

/-- what `escapeAux` writes for one well-formed multi-byte rune -/
def escMulti (c : UInt8) (rest : Bytes) : Bytes :=
  if (decodeRune (c :: rest)).1 = 0x2028 then [0x5C, 0x75, 0x32, 0x30, 0x32, 0x38]
  else if (decodeRune (c :: rest)).1 = 0x2029 then [0x5C, 0x75, 0x32, 0x30, 0x32, 0x39]
  else (c :: rest).take (decodeRune (c :: rest)).2

theorem escapeAux_multi (fuel : Nat) (c : UInt8) (rest : Bytes) (hw : 1 < (decodeRune (c :: rest)).2) :
    escapeAux (fuel + 1) (c :: rest) = escMulti c rest ++ escapeAux fuel ((c :: rest).drop (decodeRune (c :: rest)).2) := by
  have hc := multi_not_ascii c rest hw
  have hw1 : ¬ (decodeRune (c :: rest)).2 = 1 := by omega
  simp only [escapeAux, hc, if_false, escMulti]
  simp only [hw1, decide_false, Bool.and_false, Bool.false_eq_true, if_false]
  split
  · rfl
  · split <;> rfl

theorem escMulti_ne_nil (c : UInt8) (rest : Bytes) (hw : 1 < (decodeRune (c :: rest)).2) : 1 ≤ (escMulti c rest).length := by
  unfold escMulti
  split
  · simp
  · split
    · simp
    · simp only [List.length_take, List.length_cons]; omega

/-- decoding what was written for one multi-byte rune yields its bytes -/
theorem parse_multi (c : UInt8) (rest : Bytes) (hw : 1 < (decodeRune (c :: rest)).2) (tail : Bytes) (fuel : Nat) :
    parseStringBody (fuel + 1) (escMulti c rest ++ tail) =
      (parseStringBody fuel tail).map (fun (s, r) => ((c :: rest).take (decodeRune (c :: rest)).2 ++ s, r)) := by
  obtain ⟨henc, hge⟩ := encode_decode c rest hw
  unfold escMulti
  by_cases h28 : (decodeRune (c :: rest)).1 = 0x2028
  · rw [if_pos h28, ← henc, h28]
    have hg : getu4 (0x5C :: 0x75 :: 0x32 :: 0x30 :: 0x32 :: 0x38 :: tail) = some 0x2028 := by simp [getu4, hexVal]
    simp only [List.cons_append, List.nil_append, parseStringBody]
    simp only [show ((0x5C : UInt8) = 0x22) = False by decide, show ((0x5C : UInt8) < 0x20) = False by decide, if_false, if_true,
      show ((0x75 : UInt8) = 0x22) = False by decide, show ((0x75 : UInt8) = 0x5C) = False by decide,
      show ((0x75 : UInt8) = 0x2F) = False by decide, show ((0x75 : UInt8) = 0x62) = False by decide,
      show ((0x75 : UInt8) = 0x66) = False by decide, show ((0x75 : UInt8) = 0x6E) = False by decide,
      show ((0x75 : UInt8) = 0x72) = False by decide, show ((0x75 : UInt8) = 0x74) = False by decide, hg]
    simp
  · rw [if_neg h28]
    by_cases h29 : (decodeRune (c :: rest)).1 = 0x2029
    · rw [if_pos h29, ← henc, h29]
      have hg : getu4 (0x5C :: 0x75 :: 0x32 :: 0x30 :: 0x32 :: 0x39 :: tail) = some 0x2029 := by simp [getu4, hexVal]
      simp only [List.cons_append, List.nil_append, parseStringBody]
      simp only [show ((0x5C : UInt8) = 0x22) = False by decide, show ((0x5C : UInt8) < 0x20) = False by decide, if_false, if_true,
        show ((0x75 : UInt8) = 0x22) = False by decide, show ((0x75 : UInt8) = 0x5C) = False by decide,
        show ((0x75 : UInt8) = 0x2F) = False by decide, show ((0x75 : UInt8) = 0x62) = False by decide,
        show ((0x75 : UInt8) = 0x66) = False by decide, show ((0x75 : UInt8) = 0x6E) = False by decide,
        show ((0x75 : UInt8) = 0x72) = False by decide, show ((0x75 : UInt8) = 0x74) = False by decide, hg]
      simp
    · rw [if_neg h29]
      have hc := multi_not_ascii c rest hw
      obtain ⟨q1, q2, q3⟩ := ge80_facts c hc
      have hwpos : 0 < (decodeRune (c :: rest)).2 := by omega
      -- the written bytes start with `c`
      obtain ⟨tl, htl⟩ : ∃ tl, (c :: rest).take (decodeRune (c :: rest)).2 = c :: tl := by
        cases hh : (decodeRune (c :: rest)).2 with
        | zero => omega
        | succ n => exact ⟨rest.take n, by simp⟩
      have hdt := decode_take c rest tail hw
      rw [htl] at hdt ⊢
      simp only [List.cons_append, parseStringBody, q1, q2, q3, hc, if_false]
      simp only [List.cons_append] at hdt
      rw [hdt]
      have hle : (decodeRune (c :: rest)).2 ≤ (c :: rest).length := width_le c rest
      have hlen : ((c :: rest).take (decodeRune (c :: rest)).2).length = (decodeRune (c :: rest)).2 :=
        List.length_take_of_le hle
      have hdrop : (c :: (tl ++ tail)).drop (decodeRune (c :: rest)).2 = tail := by
        have e : c :: (tl ++ tail) = (c :: rest).take (decodeRune (c :: rest)).2 ++ tail := by rw [htl]; rfl
        rw [e]
        exact List.drop_left' hlen
      rw [hdrop, henc, htl]
      cases parseStringBody fuel tail with
      | none => rfl
      | some x => obtain ⟨a, r⟩ := x; rfl

/-- **The JSON string codec round trip** (body level): decoding what `json.Marshal`
    writes for a well-formed UTF-8 string, up to the closing quote, gives the string back. -/
theorem parse_escape {s : Bytes} (hv : ValidUtf8 s) : ∀ (fuelE fuelP : Nat) (tail : Bytes), s.length ≤ fuelE →
    (escapeAux fuelE s).length < fuelP → parseStringBody fuelP (escapeAux fuelE s ++ 0x22 :: tail) = some (s, tail) := by
  induction hv with
  | nil =>
    intro fuelE fuelP tail _ hp
    have : escapeAux fuelE [] = [] := by cases fuelE <;> rfl
    rw [this] at hp ⊢
    cases fuelP with
    | zero => simp at hp
    | succ f => simp [parseStringBody]
  | ascii c rest hc _ ih =>
    intro fuelE fuelP tail he hp
    cases fuelE with
    | zero => simp at he
    | succ fe =>
      rw [escapeAux_ascii fe c rest hc] at hp ⊢
      cases fuelP with
      | zero => simp at hp
      | succ fp =>
        have h1 := escOut_ne_nil c
        rw [List.append_assoc, parse_ascii c hc _ fp,
          ih fe fp tail (by simp at he; omega) (by simp only [List.length_append] at hp; omega)]
        rfl
  | multi c rest hw _ ih =>
    intro fuelE fuelP tail he hp
    cases fuelE with
    | zero => simp at he
    | succ fe =>
      rw [escapeAux_multi fe c rest hw] at hp ⊢
      cases fuelP with
      | zero => simp at hp
      | succ fp =>
        have h1 := escMulti_ne_nil c rest hw
        have hdl : ((c :: rest).drop (decodeRune (c :: rest)).2).length ≤ fe := by
          simp only [List.length_drop, List.length_cons] at he ⊢; omega
        rw [List.append_assoc, parse_multi c rest hw _ fp,
          ih fe fp tail hdl (by simp only [List.length_append] at hp; omega)]
        simp only [Option.map, List.take_append_drop]

/-- **Quoted identifiers**: `json.Unmarshal` of the marshalled body of `s` is `s`. -/
theorem unquote_escape (s : Bytes) (hv : ValidUtf8 s) : unquoteString (escape s) = some s := by
  unfold unquoteString escape
  rw [parse_escape hv s.length _ [] (Nat.le_refl _) (Nat.lt_succ_self _)]

end Jmes.Json
