/-
  Proofs.LexerRender — the lexer inverts the spelling of tokens, with any white
  space between them: if a byte string is a rendering of a list of tokens
  (each token spelled as the syntax prescribes, separated by arbitrary runs of
  white space, adjacent only where they cannot fuse), `tokenize` returns exactly
  those tokens.  ASCII spellings (identifiers and operators are ASCII by
  definition; raw strings and quoted identifiers may contain any well-formed
  UTF-8, literal texts are restricted to unit sequences — see C14).
-/
import Proofs.LexerRoundTrip
import Proofs.RawString
import Proofs.Lexer
namespace Jmes.Lexer
open Jmes.Utf8

theorem forall_uint8 (P : UInt8 → Prop) (h : ∀ n : Fin 256, P (UInt8.ofNat n.val)) : ∀ c : UInt8, P c := by
  intro c
  have := h ⟨c.toNat, c.toNat_lt⟩
  simpa using this

def isIdStart (c : UInt8) : Bool := (0x41 ≤ c && c ≤ 0x5A) || (0x61 ≤ c && c ≤ 0x7A) || c == 0x5F
def isDigitB (c : UInt8) : Bool := 0x30 ≤ c && c ≤ 0x39
def isIdTrail (c : UInt8) : Bool := isIdStart c || isDigitB c
def isWhiteB (c : UInt8) : Bool := c == 0x20 || c == 0x09 || c == 0x0A || c == 0x0D

/-- the single-character tokens -/
def basicOf (c : UInt8) : Option TokType :=
  if c = 0x2E then some .dot else if c = 0x2A then some .star else if c = 0x2C then some .comma
  else if c = 0x3A then some .colon else if c = 0x7B then some .lbrace else if c = 0x7D then some .rbrace
  else if c = 0x5D then some .rbracket else if c = 0x28 then some .lparen else if c = 0x29 then some .rparen
  else if c = 0x40 then some .current else none

/-- What the character tables say about ASCII (a `decide` obligation on the regenerated tables). -/
def TablesAsciiB (tb : Tables) : Bool :=
  (List.range 128).all fun n =>
    identStart tb.startBits n == isIdStart n.toUInt8
    && (match identTrail tb.trailBits n with | .ok b => b == isIdTrail n.toUInt8 | _ => false)
    && lookupNat n tb.basic == basicOf n.toUInt8
    && tb.white.contains n == isWhiteB n.toUInt8

structure TablesAscii (tb : Tables) : Prop where
  start : ∀ c : UInt8, c < 0x80 → identStart tb.startBits c.toNat = isIdStart c
  trail : ∀ c : UInt8, c < 0x80 → identTrail tb.trailBits c.toNat = .ok (isIdTrail c)
  basic : ∀ c : UInt8, c < 0x80 → lookupNat c.toNat tb.basic = basicOf c
  white : ∀ c : UInt8, c < 0x80 → tb.white.contains c.toNat = isWhiteB c

theorem tablesAscii_of_bool {tb : Tables} (h : TablesAsciiB tb = true) : TablesAscii tb := by
  have hall : ∀ c : UInt8, c < 0x80 →
      identStart tb.startBits c.toNat = isIdStart c ∧ identTrail tb.trailBits c.toNat = .ok (isIdTrail c) ∧
      lookupNat c.toNat tb.basic = basicOf c ∧ tb.white.contains c.toNat = isWhiteB c := by
    intro c hc
    have hn : c.toNat < 128 := by simpa [UInt8.lt_iff_toNat_lt] using hc
    have := List.all_eq_true.mp h c.toNat (List.mem_range.mpr hn)
    have hcc : c.toNat.toUInt8 = c := by simp
    rw [hcc] at this
    simp only [Bool.and_eq_true, beq_iff_eq] at this
    obtain ⟨⟨⟨h1, h2⟩, h3⟩, h4⟩ := this
    refine ⟨h1, ?_, h3, h4⟩
    cases ht : identTrail tb.trailBits c.toNat with
    | ok b => rw [ht] at h2; simp only [beq_iff_eq] at h2; rw [h2]
    | err e => rw [ht] at h2; cases h2
    | panic s => rw [ht] at h2; cases h2
  exact ⟨fun c hc => (hall c hc).1, fun c hc => (hall c hc).2.1, fun c hc => (hall c hc).2.2.1, fun c hc => (hall c hc).2.2.2⟩

/-- one iteration on an ASCII head byte -/
theorem step_ascii (tb : Tables) (total : Nat) (c : UInt8) (rest : Bytes) (hc : c < 0x80) :
    step tb total (c :: rest) = stepAt tb total c.toNat [c] rest (total - (rest.length + 1)) := by
  simp [step, decodeRune_ascii c rest hc]

/-! ### what may follow a token without fusing with it -/

def Follows (ty : TokType) (next : Option UInt8) : Prop :=
  match ty, next with
  | .uident, some c => isIdTrail c = false
  | .number, some c => isDigitB c = false
  | .lbracket, some c => c ≠ 0x3F ∧ c ≠ 0x5D
  | .pipe, some c => c ≠ 0x7C
  | .lt, some c | .gt, some c | .not, some c => c ≠ 0x3D
  | .expref, some c => c ≠ 0x26
  | _, _ => True

/-! ### one step per kind of token -/

def otherHeads : List Nat := [0x2D, 0x5B, 0x22, 0x27, 0x60, 0x7C, 0x3C, 0x3E, 0x21, 0x3D, 0x26]

theorem white_facts : ∀ c : UInt8, isWhiteB c = true →
    c < 0x80 ∧ isIdStart c = false ∧ basicOf c = none ∧ (∀ n ∈ otherHeads, c.toNat ≠ n) ∧ ¬ (0x30 ≤ c.toNat ∧ c.toNat ≤ 0x39) := by
  apply forall_uint8; decide +kernel

theorem encodeRune_ascii (c : UInt8) (hc : c < 0x80) : encodeRune c.toNat = [c] := by
  have : c.toNat < 0x80 := by simpa [UInt8.lt_iff_toNat_lt] using hc
  simp [encodeRune, this]

theorem basic_facts : ∀ c : UInt8, ∀ ty, basicOf c = some ty → c < 0x80 ∧ isIdStart c = false := by
  apply forall_uint8; decide +kernel

theorem trail_facts : ∀ c : UInt8, isIdTrail c = true → c < 0x80 := by
  apply forall_uint8; decide +kernel

theorem idstart_facts : ∀ c : UInt8, isIdStart c = true → c < 0x80 := by
  apply forall_uint8; decide +kernel

theorem scanDigits_run : ∀ (ds rest' : Bytes), (∀ x ∈ ds, isDigitB x = true) →
    (∀ d r, rest' = d :: r → isDigitB d = false) → scanDigits (ds ++ rest') = (ds, rest')
  | [], rest', _, hr => by
    cases rest' with
    | nil => rfl
    | cons d r =>
      have := hr d r rfl
      simp only [isDigitB] at this
      simp [scanDigits, this]
  | x :: ds, rest', hd, hr => by
    have hx := hd x (by simp)
    simp only [isDigitB] at hx
    simp [scanDigits, hx, scanDigits_run ds rest' (fun y hy => hd y (by simp [hy])) hr]

theorem number_facts : ∀ c : UInt8, (c = 0x2D ∨ isDigitB c = true) →
    c < 0x80 ∧ isIdStart c = false ∧ basicOf c = none ∧ (c.toNat = 0x2D ∨ (0x30 ≤ c.toNat ∧ c.toNat ≤ 0x39)) := by
  apply forall_uint8; decide +kernel

/-- `two` when the second character follows -/
theorem two_matched (r : Nat) (d : UInt8) (rest : Bytes) (start : Nat) (matched single : TokType) (hd : d < 0x80) :
    two r (d :: rest) start d.toNat matched single = .tok ⟨matched, [r.toUInt8, d], start⟩ rest := by
  simp [two, decodeRune_ascii d rest hd]

/-- `two` when it does not -/
theorem two_single (r : Nat) (rest : Bytes) (start : Nat) (second : UInt8) (matched single : TokType)
    (hr : ∀ d ds, rest = d :: ds → d < 0x80 ∧ d ≠ second) :
    two r rest start second.toNat matched single = .tok ⟨single, [r.toUInt8], start⟩ rest := by
  cases rest with
  | nil => rfl
  | cons d ds =>
    obtain ⟨hd, hne⟩ := hr d ds rfl
    have : ¬ d.toNat = second.toNat := fun h => hne (UInt8.toNat_inj.mp h)
    simp [two, decodeRune_ascii d ds hd, this]

section Steps
variable {tb : Tables} (hT : TablesAscii tb) (total : Nat)
include hT

theorem step_white (c : UInt8) (rest : Bytes) (hw : isWhiteB c = true) : step tb total (c :: rest) = .skip rest := by
  obtain ⟨hc, e1, e2, e3, e4⟩ := white_facts c hw
  rw [step_ascii tb total c rest hc]
  have h1 := hT.start c hc
  have h2 := hT.basic c hc
  have h3 := hT.white c hc
  simp only [otherHeads, List.mem_cons, List.not_mem_nil, or_false, forall_eq_or_imp, forall_eq] at e3
  simp only [stepAt, h1, e1, Bool.false_eq_true, if_false, h2, e2, h3, hw]
  simp [e3, e4]

theorem step_basic (c : UInt8) (ty : TokType) (rest : Bytes) (hb : basicOf c = some ty) :
    ∃ pos, step tb total (c :: rest) = .tok ⟨ty, [c], pos⟩ rest := by
  obtain ⟨hc, e1⟩ := basic_facts c ty hb
  rw [step_ascii tb total c rest hc]
  have h1 := hT.start c hc
  have h2 := hT.basic c hc
  simp only [stepAt, h1, e1, Bool.false_eq_true, if_false, h2, hb, encodeRune_ascii c hc]
  exact ⟨_, rfl⟩

/-- the identifier scan stops exactly at the first byte that cannot continue an identifier -/
theorem scanIdent_run : ∀ (v rest' : Bytes) (fuel : Nat), (∀ x ∈ v, isIdTrail x = true) →
    (∀ d ds, rest' = d :: ds → d < 0x80 ∧ isIdTrail d = false) → v.length + rest'.length ≤ fuel →
    scanIdent tb fuel (v ++ rest') = .ok (v, rest')
  | [], rest', fuel, _, hr, hf => by
    cases rest' with
    | nil => cases fuel <;> simp [scanIdent]
    | cons d ds =>
      obtain ⟨hd, hnt⟩ := hr d ds rfl
      cases fuel with
      | zero => simp at hf
      | succ f =>
        simp only [List.nil_append, scanIdent, decodeRune_ascii d ds hd, hT.trail d hd, hnt]
  | x :: v, rest', fuel, hv, hr, hf => by
    have hx := hv x (by simp)
    have hxa := trail_facts x hx
    cases fuel with
    | zero => simp at hf
    | succ f =>
      have ih := scanIdent_run v rest' f (fun y hy => hv y (by simp [hy])) hr (by simp at hf; omega)
      simp only [List.cons_append, scanIdent, decodeRune_ascii x _ hxa, hT.trail x hxa, hx, List.drop_one, List.tail_cons,
        ih, List.take_succ_cons, List.take_zero, List.nil_append]

theorem step_ident (c : UInt8) (v rest' : Bytes) (hs : isIdStart c = true) (hv : ∀ x ∈ v, isIdTrail x = true)
    (hr : ∀ d ds, rest' = d :: ds → d < 0x80 ∧ isIdTrail d = false) :
    ∃ pos, step tb total (c :: (v ++ rest')) = .tok ⟨.uident, c :: v, pos⟩ rest' := by
  have hc := idstart_facts c hs
  rw [step_ascii tb total c _ hc]
  have h1 := hT.start c hc
  have hsc := scanIdent_run hT v rest' (v ++ rest').length hv hr (by simp)
  simp only [stepAt, h1, hs, if_true, hsc, List.singleton_append]
  exact ⟨_, rfl⟩

theorem step_number (c : UInt8) (ds rest' : Bytes) (hc0 : c = 0x2D ∨ isDigitB c = true) (hd : ∀ x ∈ ds, isDigitB x = true)
    (hr : ∀ d r, rest' = d :: r → isDigitB d = false) :
    ∃ pos, step tb total (c :: (ds ++ rest')) = .tok ⟨.number, c :: ds, pos⟩ rest' := by
  obtain ⟨hc, e1, e2, e3⟩ := number_facts c hc0
  rw [step_ascii tb total c _ hc]
  have h1 := hT.start c hc
  have h2 := hT.basic c hc
  have hcc : c.toNat.toUInt8 = c := by simp
  have e4 : (c.toNat = 0x2D || (decide (0x30 ≤ c.toNat) && decide (c.toNat ≤ 0x39))) = true := by
    rcases e3 with h | h
    · simp [h]
    · simp [h.1, h.2]
  simp only [stepAt, h1, e1, Bool.false_eq_true, if_false, h2, e2, e4, if_true, scanDigits_run ds rest' hd hr, hcc]
  exact ⟨_, rfl⟩

/-- unfold one step on a concrete head byte that is neither an identifier start nor a single-character token -/
macro "head_step" c:term : tactic => `(tactic| (
  have hc : ($c : UInt8) < 0x80 := by decide
  rw [step_ascii _ _ $c _ hc]
  have h1 := hT.start $c hc
  have h2 := hT.basic $c hc
  have e1 : isIdStart $c = false := by decide
  have e2 : basicOf $c = none := by decide
  simp only [stepAt, h1, e1, Bool.false_eq_true, if_false, h2, e2]))

theorem step_filter (rest : Bytes) : ∃ pos, step tb total (0x5B :: 0x3F :: rest) = .tok ⟨.filter, [0x5B, 0x3F], pos⟩ rest := by
  head_step 0x5B
  simp

theorem step_flatten (rest : Bytes) : ∃ pos, step tb total (0x5B :: 0x5D :: rest) = .tok ⟨.flatten, [0x5B, 0x5D], pos⟩ rest := by
  head_step 0x5B
  simp

theorem step_lbracket (rest : Bytes) (hr : ∀ d r, rest = d :: r → d ≠ 0x3F ∧ d ≠ 0x5D) :
    ∃ pos, step tb total (0x5B :: rest) = .tok ⟨.lbracket, [0x5B], pos⟩ rest := by
  head_step 0x5B
  cases rest with
  | nil => simp
  | cons d r =>
    obtain ⟨h3, h4⟩ := hr d r rfl
    simp only [show (0x5B : UInt8).toNat = 0x5B by rfl]
    simp only [show (decide ((0x5B : Nat) = 0x2D) || decide (0x30 ≤ (0x5B : Nat)) && decide ((0x5B : Nat) ≤ 0x39)) = false by decide,
      Bool.false_eq_true, if_false, if_true]
    split
    · rename_i heq; simp at heq; exact absurd heq.1 h3
    · rename_i heq; simp at heq; exact absurd heq.1 h4
    · exact ⟨_, rfl⟩

theorem step_or (rest : Bytes) : ∃ pos, step tb total (0x7C :: 0x7C :: rest) = .tok ⟨.or, [0x7C, 0x7C], pos⟩ rest := by
  head_step 0x7C
  simp [two, decodeRune_ascii _ _ (show (0x7C : UInt8) < 0x80 by decide)]

theorem step_lte (rest : Bytes) : ∃ pos, step tb total (0x3C :: 0x3D :: rest) = .tok ⟨.lte, [0x3C, 0x3D], pos⟩ rest := by
  head_step 0x3C
  simp [two, decodeRune_ascii _ _ (show (0x3D : UInt8) < 0x80 by decide)]

theorem step_gte (rest : Bytes) : ∃ pos, step tb total (0x3E :: 0x3D :: rest) = .tok ⟨.gte, [0x3E, 0x3D], pos⟩ rest := by
  head_step 0x3E
  simp [two, decodeRune_ascii _ _ (show (0x3D : UInt8) < 0x80 by decide)]

theorem step_ne (rest : Bytes) : ∃ pos, step tb total (0x21 :: 0x3D :: rest) = .tok ⟨.ne, [0x21, 0x3D], pos⟩ rest := by
  head_step 0x21
  simp [two, decodeRune_ascii _ _ (show (0x3D : UInt8) < 0x80 by decide)]

theorem step_eq (rest : Bytes) : ∃ pos, step tb total (0x3D :: 0x3D :: rest) = .tok ⟨.eq, [0x3D, 0x3D], pos⟩ rest := by
  head_step 0x3D
  simp [two, decodeRune_ascii _ _ (show (0x3D : UInt8) < 0x80 by decide)]

theorem step_and (rest : Bytes) : ∃ pos, step tb total (0x26 :: 0x26 :: rest) = .tok ⟨.and, [0x26, 0x26], pos⟩ rest := by
  head_step 0x26
  simp [two, decodeRune_ascii _ _ (show (0x26 : UInt8) < 0x80 by decide)]

theorem step_pipe (rest : Bytes) (hr : ∀ d ds, rest = d :: ds → d < 0x80 ∧ d ≠ 0x7C) :
    ∃ pos, step tb total (0x7C :: rest) = .tok ⟨.pipe, [0x7C], pos⟩ rest := by
  head_step 0x7C
  have := two_single (0x7C : UInt8).toNat rest (total - (rest.length + 1)) 0x7C .or .pipe hr
  simp at this
  simp [this]

theorem step_lt (rest : Bytes) (hr : ∀ d ds, rest = d :: ds → d < 0x80 ∧ d ≠ 0x3D) :
    ∃ pos, step tb total (0x3C :: rest) = .tok ⟨.lt, [0x3C], pos⟩ rest := by
  head_step 0x3C
  have := two_single (0x3C : UInt8).toNat rest (total - (rest.length + 1)) 0x3D .lte .lt hr
  simp at this
  simp [this]

theorem step_gt (rest : Bytes) (hr : ∀ d ds, rest = d :: ds → d < 0x80 ∧ d ≠ 0x3D) :
    ∃ pos, step tb total (0x3E :: rest) = .tok ⟨.gt, [0x3E], pos⟩ rest := by
  head_step 0x3E
  have := two_single (0x3E : UInt8).toNat rest (total - (rest.length + 1)) 0x3D .gte .gt hr
  simp at this
  simp [this]

theorem step_not (rest : Bytes) (hr : ∀ d ds, rest = d :: ds → d < 0x80 ∧ d ≠ 0x3D) :
    ∃ pos, step tb total (0x21 :: rest) = .tok ⟨.not, [0x21], pos⟩ rest := by
  head_step 0x21
  have := two_single (0x21 : UInt8).toNat rest (total - (rest.length + 1)) 0x3D .ne .not hr
  simp at this
  simp [this]

theorem step_expref (rest : Bytes) (hr : ∀ d ds, rest = d :: ds → d < 0x80 ∧ d ≠ 0x26) :
    ∃ pos, step tb total (0x26 :: rest) = .tok ⟨.expref, [0x26], pos⟩ rest := by
  head_step 0x26
  have := two_single (0x26 : UInt8).toNat rest (total - (rest.length + 1)) 0x26 .and .expref hr
  simp at this
  simp [this]

theorem step_raw (v rest : Bytes) (ha : Json.ValidUtf8 v) (hok : RawEndOK v) :
    ∃ pos, step tb total (0x27 :: (rawSpell v ++ 0x27 :: rest)) = .tok ⟨.stringLiteral, v, pos⟩ rest := by
  head_step 0x27
  have := rawBody_rawSpell_utf8 ha rest (rawSpell v ++ 0x27 :: rest).length hok (by simp)
  simp at this
  simp [this]

theorem step_lit (txt rest : Bytes) (hu : Units 0x60 (btSpell txt)) :
    ∃ pos, step tb total (0x60 :: (btSpell txt ++ 0x60 :: rest)) = .tok ⟨.jsonLiteral, txt, pos⟩ rest := by
  head_step 0x60
  have := consumeUntil_units 0x60 (by decide) (by decide) (btSpell txt) hu rest (btSpell txt ++ 0x60 :: rest).length (by simp)
  simp at this
  simp [this, unescapeBacktick_btSpell]

theorem step_quoted (body v rest : Bytes) (hu : Units 0x22 body) (hq : Json.unquoteString body = some v) :
    ∃ pos, step tb total (0x22 :: (body ++ 0x22 :: rest)) = .tok ⟨.qident, v, pos⟩ rest := by
  head_step 0x22
  have := consumeUntil_units 0x22 (by decide) (by decide) body hu rest (body ++ 0x22 :: rest).length (by simp)
  simp at this
  simp [this, hq]

end Steps



/-! ### spellings, renderings, and the main theorem -/

/-- `Spell ty value text`: `text` is a way to write the token `(ty, value)`. -/
inductive Spell : TokType → Bytes → Bytes → Prop
  | basic (c : UInt8) (ty : TokType) : basicOf c = some ty → Spell ty [c] [c]
  | ident (c : UInt8) (v : Bytes) : isIdStart c = true → (∀ x ∈ v, isIdTrail x = true) → Spell .uident (c :: v) (c :: v)
  | number (c : UInt8) (ds : Bytes) : (c = 0x2D ∨ isDigitB c = true) → (∀ x ∈ ds, isDigitB x = true) →
      Spell .number (c :: ds) (c :: ds)
  | lbracket : Spell .lbracket [0x5B] [0x5B]
  | filter : Spell .filter [0x5B, 0x3F] [0x5B, 0x3F]
  | flatten : Spell .flatten [0x5B, 0x5D] [0x5B, 0x5D]
  | or : Spell .or [0x7C, 0x7C] [0x7C, 0x7C]
  | pipe : Spell .pipe [0x7C] [0x7C]
  | lte : Spell .lte [0x3C, 0x3D] [0x3C, 0x3D]
  | lt : Spell .lt [0x3C] [0x3C]
  | gte : Spell .gte [0x3E, 0x3D] [0x3E, 0x3D]
  | gt : Spell .gt [0x3E] [0x3E]
  | ne : Spell .ne [0x21, 0x3D] [0x21, 0x3D]
  | not : Spell .not [0x21] [0x21]
  | eq : Spell .eq [0x3D, 0x3D] [0x3D, 0x3D]
  | and : Spell .and [0x26, 0x26] [0x26, 0x26]
  | expref : Spell .expref [0x26] [0x26]
  | raw (v : Bytes) : Json.ValidUtf8 v → RawEndOK v → Spell .stringLiteral v (0x27 :: (rawSpell v ++ [0x27]))
  | lit (txt : Bytes) : Units 0x60 (btSpell txt) → Spell .jsonLiteral txt (0x60 :: (btSpell txt ++ [0x60]))
  | quoted (body v : Bytes) : Units 0x22 body → Json.unquoteString body = some v → Spell .qident v (0x22 :: (body ++ [0x22]))

theorem rawSpell_ascii : ∀ (v : Bytes), Ascii v → Ascii (rawSpell v)
  | [], _ => fun _ h => by cases h
  | c :: cs, h => by
    have ih := rawSpell_ascii cs (fun x hx => h x (by simp [hx]))
    have hc := h c (by simp)
    intro x hx
    simp only [rawSpell] at hx
    split at hx
    · rcases List.mem_cons.mp hx with rfl | h'
      · decide
      · rcases List.mem_cons.mp h' with rfl | h''
        · decide
        · exact ih x h''
    · rcases List.mem_cons.mp hx with rfl | h'
      · exact hc
      · exact ih x h'

theorem ascii_append {a b : Bytes} (ha : Ascii a) (hb : Ascii b) : Ascii (a ++ b) := by
  intro x hx; rcases List.mem_append.mp hx with h | h; exact ha x h; exact hb x h

theorem ascii_cons {c : UInt8} {a : Bytes} (hc : c < 0x80) (ha : Ascii a) : Ascii (c :: a) := by
  intro x hx; rcases List.mem_cons.mp hx with rfl | h; exact hc; exact ha x h

theorem digit_facts : ∀ c : UInt8, isDigitB c = true → c < 0x80 := by
  apply forall_uint8; decide +kernel

def HeadAscii (s : Bytes) : Prop := ∀ d ds, s = d :: ds → d < 0x80

theorem spell_head {ty : TokType} {v text : Bytes} (h : Spell ty v text) : ∃ c t, text = c :: t ∧ c < 0x80 := by
  cases h with
  | basic c ty hb => exact ⟨c, [], rfl, (basic_facts c ty hb).1⟩
  | ident c v hs hv => exact ⟨c, v, rfl, idstart_facts c hs⟩
  | number c ds hc hd => exact ⟨c, ds, rfl, (number_facts c hc).1⟩
  | raw v _ _ => exact ⟨_, _, rfl, by decide⟩
  | lit txt _ => exact ⟨_, _, rfl, by decide⟩
  | quoted body v _ _ => exact ⟨_, _, rfl, by decide⟩
  | _ => exact ⟨_, _, rfl, by decide⟩

section Main
variable {tb : Tables} (hT : TablesAscii tb) (total : Nat)
include hT

/-- one step reads one spelled token, whatever follows it (if it cannot fuse) -/
theorem step_spell {ty : TokType} {v text : Bytes} (hs : Spell ty v text) (rest : Bytes) (har : HeadAscii rest)
    (hf : Follows ty rest.head?) : ∃ pos, step tb total (text ++ rest) = .tok ⟨ty, v, pos⟩ rest := by
  have hhead : ∀ d ds, rest = d :: ds → d < 0x80 := har
  cases hs with
  | basic c ty hb => exact step_basic hT total c ty rest hb
  | ident c v hs hv =>
    refine step_ident hT total c v rest hs hv (fun d ds e => ⟨hhead d ds e, ?_⟩)
    subst e; simpa [Follows] using hf
  | number c ds hc hd =>
    refine step_number hT total c ds rest hc hd (fun d r e => ?_)
    subst e; simpa [Follows] using hf
  | lbracket =>
    refine step_lbracket hT total rest (fun d r e => ?_)
    subst e; simpa [Follows] using hf
  | filter => exact step_filter hT total rest
  | flatten => exact step_flatten hT total rest
  | or => exact step_or hT total rest
  | pipe =>
    refine step_pipe hT total rest (fun d r e => ⟨hhead d r e, ?_⟩)
    subst e; simpa [Follows] using hf
  | lte => exact step_lte hT total rest
  | lt =>
    refine step_lt hT total rest (fun d r e => ⟨hhead d r e, ?_⟩)
    subst e; simpa [Follows] using hf
  | gte => exact step_gte hT total rest
  | gt =>
    refine step_gt hT total rest (fun d r e => ⟨hhead d r e, ?_⟩)
    subst e; simpa [Follows] using hf
  | ne => exact step_ne hT total rest
  | not =>
    refine step_not hT total rest (fun d r e => ⟨hhead d r e, ?_⟩)
    subst e; simpa [Follows] using hf
  | eq => exact step_eq hT total rest
  | and => exact step_and hT total rest
  | expref =>
    refine step_expref hT total rest (fun d r e => ⟨hhead d r e, ?_⟩)
    subst e; simpa [Follows] using hf
  | raw v ha hok =>
    have := step_raw hT total v rest ha hok
    simpa [List.append_assoc] using this
  | lit txt hu =>
    have := step_lit hT total v rest hu
    simpa [List.append_assoc] using this
  | quoted body v hu hq =>
    have := step_quoted hT total body v rest hu hq
    simpa [List.append_assoc] using this

/-- white space before a token is skipped -/
theorem loop_white : ∀ (ws s : Bytes) (fuel : Nat), (∀ w ∈ ws, isWhiteB w = true) →
    loop tb total (fuel + ws.length) (ws ++ s) = loop tb total fuel s
  | [], s, fuel, _ => rfl
  | w :: ws, s, fuel, h => by
    have hw := h w (by simp)
    have ih := loop_white ws s fuel (fun x hx => h x (by simp [hx]))
    simp only [List.cons_append, List.length_cons]
    rw [show fuel + (ws.length + 1) = (fuel + ws.length) + 1 from rfl]
    simp only [loop, step_white hT total w (ws ++ s) hw, ih]

end Main

/-- `Rendered keys s`: `s` writes the tokens `keys` in order, each as one of its
    spellings, with any white space before, between and after them; two tokens
    touch only where the second cannot be read as a continuation of the first. -/
inductive Rendered : List (TokType × Bytes) → Bytes → Prop
  | nil (ws : Bytes) : (∀ w ∈ ws, isWhiteB w = true) → Rendered [] ws
  | cons (ws : Bytes) (ty : TokType) (v text rest : Bytes) (toks : List (TokType × Bytes)) :
      (∀ w ∈ ws, isWhiteB w = true) → Spell ty v text → Rendered toks rest → Follows ty rest.head? →
      Rendered ((ty, v) :: toks) (ws ++ (text ++ rest))

theorem rendered_head {keys : List (TokType × Bytes)} {s : Bytes} (h : Rendered keys s) : HeadAscii s := by
  cases h with
  | nil ws hw =>
    intro d ds e
    exact (white_facts d (hw d (by rw [e]; simp))).1
  | cons ws ty v text rest toks hw hs _ _ =>
    intro d ds e
    cases ws with
    | nil =>
      obtain ⟨c, t, rfl, hc⟩ := spell_head hs
      simp only [List.nil_append, List.cons_append, List.cons.injEq] at e
      rw [← e.1]; exact hc
    | cons w ws' =>
      simp only [List.cons_append, List.cons.injEq] at e
      rw [← e.1]; exact (white_facts w (hw w (by simp))).1

def keyOf (t : Token) : TokType × Bytes := (t.ty, t.value)

/-- **The lexer inverts rendering.** -/
theorem loop_rendered {tb : Tables} (hT : TablesAscii tb) (total : Nat) {keys : List (TokType × Bytes)} {s : Bytes}
    (h : Rendered keys s) : ∀ fuel, s.length < fuel →
    ∃ lexed, loop tb total fuel s = .ok (lexed ++ [⟨.eof, [], total⟩]) ∧ lexed.map keyOf = keys := by
  induction h with
  | nil ws hw =>
    intro fuel hf
    obtain ⟨f, rfl⟩ : ∃ f, fuel = (f + 1) + ws.length := ⟨fuel - ws.length - 1, by omega⟩
    have := loop_white hT total ws [] (f + 1) hw
    simp only [List.append_nil] at this
    rw [this]
    exact ⟨[], by simp [loop], rfl⟩
  | cons ws ty v text rest toks hw hs hr hf ih =>
    intro fuel hfuel
    obtain ⟨c0, t0, htext0, _⟩ := spell_head hs
    have htext_ne : text ≠ [] := by rw [htext0]; simp
    simp only [List.length_append] at hfuel
    obtain ⟨f, rfl⟩ : ∃ f, fuel = (f + 1) + ws.length := ⟨fuel - ws.length - 1, by omega⟩
    rw [loop_white hT total ws (text ++ rest) (f + 1) hw]
    obtain ⟨pos, hstep⟩ := step_spell hT total hs rest (rendered_head hr) hf
    obtain ⟨c, cs, hcs⟩ : ∃ c cs, text ++ rest = c :: cs := by
      cases text with
      | nil => exact absurd rfl htext_ne
      | cons c t => exact ⟨c, t ++ rest, rfl⟩
    have hlen : 0 < text.length := by cases text; exact absurd rfl htext_ne; simp
    obtain ⟨lexed, hl, hk⟩ := ih f (by omega)
    rw [hcs] at hstep ⊢
    simp only [loop, hstep, hl]
    exact ⟨⟨ty, v, pos⟩ :: lexed, by simp, by simp [keyOf, hk]⟩

theorem tokenize_rendered {tb : Tables} (hT : TablesAscii tb) {keys : List (TokType × Bytes)} {s : Bytes}
    (h : Rendered keys s) :
    ∃ lexed, tokenize tb s = .ok (lexed ++ [⟨.eof, [], s.length⟩]) ∧ lexed.map keyOf = keys :=
  loop_rendered hT s.length h (s.length + 1) (Nat.lt_succ_self _)

end Jmes.Lexer
