/-
  Proofs.Context — a successful parse of a phrase does not depend on what stands to its left, and
  depends on what follows it only through the power of the next token: if `expr k` reads exactly the
  phrase when an end-of-input token follows, it reads exactly the phrase — and builds the same AST —
  when a token follows whose power does not exceed `k` (here: end of input or a pipe).

  This is the lemma behind "`A | B` is the composition of `A` and `B`" for arbitrary expressions
  (Props/C15): inside `A | B` the sub-phrase `A` is read as it is read alone, because every loop left
  open at the end of `A` runs at a level ≥ 1 — except the outermost one, which goes on with the pipe.
-/
import Proofs.ParserPos
import Proofs.GrammarComplete
namespace Jmes.Parser
open Jmes Jmes.Spec
variable {N : Type} [NumOps N]

/-- where a phrase stands: the consumed tokens before it, the token after it, the rest -/
structure Around where
  b0 : List Token
  e : Token
  rest : List Token

/-- `p'` is `p` moved from surroundings `A` to surroundings `B`: the same part `Y` of the phrase
    (at least `n` tokens) has been consumed, the same part `X` remains -/
def CRel (A B : Around) (n : Nat) (p p' : PState) : Prop :=
  ∃ Y X, n ≤ Y.length ∧ p.before = Y ++ A.b0 ∧ p'.before = Y ++ B.b0 ∧ p.after = X ++ A.e :: A.rest ∧ p'.after = X ++ B.e :: B.rest

/-- the tokens that may follow the phrase in its new surroundings: end of input, a pipe, or a closing
    token or separator (all of power ≤ 1, none of them a token the parser looks ahead for) -/
def followerOK : TokType → Bool
  | .eof | .pipe | .comma | .rbrace | .rparen | .rbracket => true
  | _ => false

section
variable {A B : Around} (hA : A.e.ty = .eof) (hB : followerOK B.e.ty = true)

theorem CRel.mono {n m : Nat} {p p' : PState} (h : CRel A B n p p') (hm : m ≤ n) : CRel A B m p p' := by
  obtain ⟨Y, X, hn, h1, h2, h3, h4⟩ := h
  exact ⟨Y, X, by omega, h1, h2, h3, h4⟩

include hA in
/-- consuming a token that is not the end-of-input token -/
theorem CRel.cons {n : Nat} {p p' : PState} (h : CRel A B n p p') {t : Token} {r : List Token} (ha : p.after = t :: r)
    (ht : t.ty ≠ .eof) : ∃ r', p'.after = t :: r' ∧ CRel A B (n + 1) p.advance p'.advance := by
  obtain ⟨Y, X, hn, h1, h2, h3, h4⟩ := h
  cases X with
  | nil =>
    rw [ha] at h3; simp only [List.nil_append, List.cons.injEq] at h3
    rw [h3.1] at ht; exact absurd hA ht
  | cons x X' =>
    rw [ha] at h3; simp only [List.cons_append, List.cons.injEq] at h3
    obtain ⟨rfl, hr⟩ := h3
    refine ⟨X' ++ B.e :: B.rest, by rw [h4]; rfl, t :: Y, X', by simp; omega, ?_, ?_, ?_, ?_⟩
    · simp [PState.advance, ha, h1]
    · simp [PState.advance, h4, h2]
    · simp [PState.advance, ha, hr]
    · simp [PState.advance, h4]

/-- looking at the next token: the same token, or the phrase is over and the two followers are seen -/
theorem CRel.peek {n : Nat} {p p' : PState} (h : CRel A B n p p') {t : Token} {r : List Token} (ha : p.after = t :: r) :
    ∃ t' r', p'.after = t' :: r' ∧ (t' = t ∨ (p.after = A.e :: A.rest ∧ t = A.e ∧ t' = B.e)) := by
  obtain ⟨Y, X, hn, h1, h2, h3, h4⟩ := h
  cases X with
  | nil =>
    rw [ha] at h3; simp only [List.nil_append, List.cons.injEq] at h3
    exact ⟨B.e, B.rest, by rw [h4]; rfl, Or.inr ⟨by rw [ha, h3.1, h3.2], h3.1, rfl⟩⟩
  | cons x X' =>
    rw [ha] at h3; simp only [List.cons_append, List.cons.injEq] at h3
    exact ⟨x, X' ++ B.e :: B.rest, by rw [h4]; rfl, Or.inl h3.1.symm⟩

include hA hB in
/-- a condition on the type of the next token that end of input meets and that both possible
    followers meet carries over -/
theorem CRel.peekP {n : Nat} {p p' : PState} (h : CRel A B n p p') {t : Token} {r : List Token} (ha : p.after = t :: r)
    (P : TokType → Prop) (hP : P t.ty) (hfol : ∀ ty, followerOK ty = true → P .eof → P ty) :
    ∃ t' r', p'.after = t' :: r' ∧ P t'.ty := by
  obtain ⟨t', r', ha', h'⟩ := h.peek ha
  refine ⟨t', r', ha', ?_⟩
  rcases h' with rfl | ⟨_, rfl, rfl⟩
  · exact hP
  · rw [hA] at hP
    exact hfol _ hB hP

include hA in
/-- … and a token of a given type other than end of input is the same token -/
theorem CRel.peekEq {n : Nat} {p p' : PState} (h : CRel A B n p p') {t : Token} {r : List Token} (ha : p.after = t :: r)
    (ht : t.ty ≠ .eof) : ∃ r', p'.after = t :: r' := by
  obtain ⟨r', ha', _⟩ := h.cons hA ha ht
  exact ⟨r', ha'⟩

theorem CRel.before2 {n : Nat} {p p' : PState} (h : CRel A B n p p') (hn : 2 ≤ n) {a b : Token} {more : List Token}
    (hb : p.before = a :: b :: more) : ∃ more', p'.before = a :: b :: more' := by
  obtain ⟨Y, X, hn', h1, h2, h3, h4⟩ := h
  match Y, hn' with
  | y1 :: y2 :: Y2, _ =>
    rw [h1] at hb; simp only [List.cons_append, List.cons.injEq] at hb
    exact ⟨Y2 ++ B.b0, by rw [h2, ← hb.1, ← hb.2.1]; rfl⟩
  | [], h0 => simp at h0; omega
  | [_], h0 => simp at h0; omega

include hA in
/-- a stretch of tokens none of which is the end-of-input token lies inside the phrase -/
theorem CRel.stretch : ∀ (S : List Token) {n : Nat} {p p' : PState} (Z : List Token), CRel A B n p p' → p.after = S ++ Z →
    (∀ t ∈ S, t.ty ≠ .eof) →
    ∃ Z', p'.after = S ++ Z' ∧ CRel A B n ⟨S.reverse ++ p.before, Z⟩ ⟨S.reverse ++ p'.before, Z'⟩
  | [], n, p, p', Z, h, hs, _ => by
    refine ⟨p'.after, rfl, ?_⟩
    obtain ⟨Y, X, hn, h1, h2, h3, h4⟩ := h
    exact ⟨Y, X, hn, h1, h2, by rw [← h3, hs]; rfl, h4⟩
  | s :: S', n, p, p', Z, h, hs, hne => by
    obtain ⟨r', ha', hadv⟩ := h.cons hA (t := s) (r := S' ++ Z) (by simpa using hs) (hne s (by simp))
    have h1 : p.advance.after = S' ++ Z := by simp [PState.advance, hs]
    obtain ⟨Z', hz, hrel⟩ := CRel.stretch S' Z hadv h1 (fun t ht => hne t (by simp [ht]))
    have h2 : p'.advance.after = r' := by simp [PState.advance, ha']
    rw [h2] at hz
    refine ⟨Z', by rw [ha', hz]; rfl, ?_⟩
    have e1 : p.advance.before = s :: p.before := by simp [PState.advance, hs]
    have e2 : p'.advance.before = s :: p'.before := by simp [PState.advance, ha']
    rw [e1, e2] at hrel
    simpa [List.reverse_cons, List.append_assoc] using hrel.mono (Nat.le_succ n)

theorem sliceG_types {s : List Token} (h : SliceG s) : ∀ t ∈ s, t.ty = .number ∨ t.ty = .colon := by
  obtain ⟨a, c1, b, ha, hc1, hb, hs⟩ := h
  have hopt : ∀ {l : List Token}, OptNum l → ∀ t ∈ l, t.ty = .number ∨ t.ty = .colon := by
    intro l hl t ht
    rcases hl with rfl | ⟨n, rfl, hn⟩
    · cases ht
    · simp at ht; rw [ht]; exact Or.inl hn
  rcases hs with rfl | ⟨c2, c, hc2, hc, rfl⟩
  · intro t ht
    simp only [List.mem_append, List.mem_cons] at ht
    rcases ht with h | rfl | h
    · exact hopt ha t h
    · exact Or.inr hc1
    · exact hopt hb t h
  · intro t ht
    simp only [List.mem_append, List.mem_cons] at ht
    rcases ht with h | rfl | h | rfl | h
    · exact hopt ha t h
    · exact Or.inr hc1
    · exact hopt hb t h
    · exact Or.inr hc2
    · exact hopt hc t h

omit [NumOps N] in
theorem index_parse {n r : Token} {i : Int} (hn : n.ty = .number) (hr : r.ty = .rbracket) (hat : atoi n.value = some i)
    (bef rest : List Token) :
    parseIndexExpression (N := N) ⟨bef, n :: r :: rest⟩ = .ok (.index i, ⟨r :: n :: bef, rest⟩) := by
  simp [parseIndexExpression, PState.cur, PState.look1, PState.curTok, PState.advance, PState.expect, bind, Res.bind, hn, hr, hat]

include hA in
/-- the index / slice scanner reads the same brackets in both surroundings -/
theorem parseIndex_ctx {n : Nat} {p p' p1 : PState} {right : Node N} {t0 : Token} {rest0 : List Token} (h : CRel A B n p p')
    (hidx : parseIndexExpression (N := N) p = .ok (right, p1)) (hafter : p.after = t0 :: rest0)
    (hnc : t0.ty = .number ∨ t0.ty = .colon) :
    ∃ p1', parseIndexExpression (N := N) p' = .ok (right, p1') ∧ CRel A B n p1 p1' := by
  obtain ⟨body, r, hseg, hr, hbody⟩ := parseIndex_inv hidx hafter hnc
  have hne : ∀ t ∈ body ++ [r], t.ty ≠ .eof := by
    intro t ht
    simp only [List.mem_append, List.mem_singleton] at ht
    rcases ht with ht | rfl
    · rcases hbody with ⟨nn, rfl, hnn, _, _⟩ | ⟨hsl, _⟩
      · simp at ht; rw [ht, hnn]; decide
      · rcases sliceG_types hsl t ht with e | e <;> rw [e] <;> decide
    · rw [hr]; decide
  obtain ⟨Z', hz, hrel⟩ := CRel.stretch hA (body ++ [r]) p1.after h hseg.after hne
  have hp1 : (⟨(body ++ [r]).reverse ++ p.before, p1.after⟩ : PState) = p1 := by
    cases p1 with
    | mk b a => simp only [PState.mk.injEq, and_true]; exact hseg.before.symm
  rw [hp1] at hrel
  have hpe : p = ⟨p.before, body ++ r :: p1.after⟩ := by
    cases p with
    | mk b a => simp only [PState.mk.injEq, true_and]; simpa [List.append_assoc] using hseg.after
  have hpe' : p' = ⟨p'.before, body ++ r :: Z'⟩ := by
    cases p' with
    | mk b a => simp only [PState.mk.injEq, true_and]; simpa [List.append_assoc] using hz
  refine ⟨_, ?_, hrel⟩
  rcases hbody with ⟨nn, rfl, hnn, _, hno⟩ | ⟨hsl, hno⟩
  · obtain ⟨i, hi⟩ := Option.isSome_iff_exists.mp (hno nn (by simp) hnn)
    have e1 := index_parse (N := N) hnn hr hi p.before p1.after
    rw [hpe] at hidx
    simp only [List.cons_append, List.nil_append] at hidx
    rw [e1] at hidx
    simp only [Res.ok.injEq, Prod.mk.injEq] at hidx
    rw [hpe', ← hidx.1]
    simpa using index_parse (N := N) hnn hr hi p'.before Z'
  · obtain ⟨nd, _, _, hparse⟩ := slice_parse (N := N) hsl hno
    have e1 := hparse p.before p1.after r hr
    rw [hpe] at hidx
    rw [e1] at hidx
    simp only [Res.ok.injEq, Prod.mk.injEq] at hidx
    rw [hpe', ← hidx.1]
    simpa [List.reverse_append] using hparse p'.before Z' r hr

/-! ### the parse itself -/

/-- how many tokens of the phrase a call needs behind it (only `led '('` looks back: two tokens) -/
def need : Call N → Nat
  | .led _ _ _ => 2
  | .loop _ _ _ | .nud _ _ => 1
  | _ => 0

/-- a Pratt loop that stops exactly at the end of the phrase must also stop in front of the new follower -/
def Side (A B : Around) (c : Call N) (o : Out N) : Prop :=
  match c with
  | .expr k _ | .loop k _ _ | .dot k _ | .prhs k _ => specPow B.e.ty ≤ k ∨ o.state.after ≠ A.e :: A.rest
  | _ => True

def Moves (A B : Around) (c : Call N) (o : Out N) : Prop :=
  ∀ (n : Nat) (p' : PState), need c ≤ n → CRel A B n c.state p' → Side A B c o →
    ∃ p1', CRel A B n o.state p1' ∧ R T (c.retarget c.tok p') (o.setState p1')

theorem nud_not_eof {tok : Token} {p : PState} {o : Out N} (h : R T (.nud tok p) o) : tok.ty ≠ .eof := by
  intro e
  cases h <;> simp_all

include hB in
theorem powB_le : specPow B.e.ty ≤ 1 := by
  revert hB; cases B.e.ty <;> simp [followerOK, specPow]

theorem pow_pos_ne_eof {t : Token} {k : Nat} (h : k < specPow t.ty) : t.ty ≠ .eof := by
  intro e; rw [e] at h; simp [specPow] at h

include hA in
theorem notEnd_of_ty {p1 : PState} {t : Token} {rest : List Token} (ha : p1.after = t :: rest) (ht : t.ty ≠ .eof) :
    p1.after ≠ A.e :: A.rest := by
  intro e; rw [ha] at e; simp only [List.cons.injEq] at e; rw [e.1] at ht; exact ht hA

theorem single_eq_append {e t : Token} {seg rest : List Token} (h : [e] = seg ++ t :: rest) : seg = [] ∧ t = e ∧ rest = [] := by
  cases seg with
  | nil =>
    simp only [List.nil_append, List.cons.injEq] at h
    exact ⟨rfl, h.1.symm, h.2.symm⟩
  | cons x xs =>
    have := congrArg List.length h
    simp at this

theorem msl_node {c : Call N} {o : Out N} (h : R T c o) : ∀ p acc, c = .msl p acc → ∃ n p1, o = .node n p1 := by
  induction h with
  | mslLast _ _ _ _ => intro _ _ _; exact ⟨_, _, rfl⟩
  | mslMore _ _ _ _ _ ih2 => intro _ _ _; exact ih2 _ _ rfl
  | _ => intro p acc hc; cases hc

include hA hB in
/-- **Context independence**: a derivation moves from surroundings `A` (end of input after the phrase)
    to surroundings `B` (end of input or a pipe after it; anything before it), with the same AST. -/
theorem R_moves (hAr : A.rest = []) {c : Call N} {o : Out N} (h : R T c o) : Moves A B c o := by
  have hpw := powB_le hB
  induction h with
  | @expr rbp p tok rest left p1 o hafter hnud _ ih1 ih2 =>
    intro n p' hn hrel hside
    obtain ⟨r', ha', hadv⟩ := hrel.cons hA hafter (nud_not_eof hnud)
    obtain ⟨p1', hp1, hR1⟩ := ih1 (n + 1) p'.advance (by simp [need]) hadv trivial
    obtain ⟨p2', hp2, hR2⟩ := ih2 (n + 1) p1' (by simp [need]) hp1 hside
    exact ⟨p2', hp2.mono (Nat.le_succ n), R.expr ha' hR1 hR2⟩
  | @stop rbp left p t rest hafter hnot =>
    intro n p' hn hrel hside
    obtain ⟨t', r', ha', ht'⟩ := hrel.peek hafter
    refine ⟨p', hrel, R.stop ha' ?_⟩
    rcases ht' with rfl | ⟨hend, _, rfl⟩
    · exact hnot
    · rcases hside with hk | hne
      · rw [T_power]; omega
      · exact absurd hend hne
  | @step rbp left p t rest left' p1 o hafter hlt _ _ ih1 ih2 =>
    intro n p' hn hrel hside
    obtain ⟨r', ha', hadv⟩ := hrel.cons hA hafter (pow_pos_ne_eof (by rw [← T_power]; exact hlt))
    obtain ⟨p1', hp1, hR1⟩ := ih1 (n + 1) p'.advance (by simp only [need] at hn ⊢; omega) hadv trivial
    obtain ⟨p2', hp2, hR2⟩ := ih2 (n + 1) p1' (by simp [need]) hp1 hside
    exact ⟨p2', hp2.mono (Nat.le_succ n), R.step ha' hlt hR1 hR2⟩
  | @nudJson tok p v hty hdec => intro n p' _ hrel _; exact ⟨p', hrel, R.nudJson hty hdec⟩
  | @nudRaw tok p hty => intro n p' _ hrel _; exact ⟨p', hrel, R.nudRaw hty⟩
  | @nudIdent tok p hty => intro n p' _ hrel _; exact ⟨p', hrel, R.nudIdent hty⟩
  | @nudCurrent tok p hty => intro n p' _ hrel _; exact ⟨p', hrel, R.nudCurrent hty⟩
  | @nudQuoted tok p t rest hty hafter hne =>
    intro n p' _ hrel _
    obtain ⟨t', r', ha', ht'⟩ := hrel.peekP hA hB hafter (fun ty => ty ≠ .lparen) hne (fun ty h _ => by cases ty <;> simp [followerOK] at h <;> decide)
    exact ⟨p', hrel, R.nudQuoted hty ha' ht'⟩
  | @nudNot tok p e p1 hty _ ih =>
    intro n p' hn hrel _
    obtain ⟨p1', hp1, hR⟩ := ih n p' (Nat.zero_le _) hrel (Or.inl (by show _ ≤ 45; omega))
    exact ⟨p1', hp1, R.nudNot hty hR⟩
  | @nudParen tok p e p1 t rest hty _ hafter hrp ih =>
    intro n p' hn hrel _
    have hte : t.ty ≠ .eof := by rw [hrp]; decide
    obtain ⟨p1', hp1, hR⟩ := ih n p' (Nat.zero_le _) hrel (Or.inr (notEnd_of_ty hA hafter hte))
    obtain ⟨r', ha', hadv⟩ := hp1.cons hA hafter hte
    exact ⟨p1'.advance, hadv.mono (Nat.le_succ n), R.nudParen hty hR ha' hrp⟩
  | @nudIndex tok p nt rb rest i hty hafter hnum hrb hat =>
    intro n p' _ hrel _
    obtain ⟨r1, ha1, hadv1⟩ := hrel.cons hA hafter (by rw [hnum]; decide)
    have h2 : p.advance.after = rb :: rest := by simp [PState.advance, hafter]
    obtain ⟨r2, ha2, hadv2⟩ := hadv1.cons hA h2 (by rw [hrb]; decide)
    have h3 : p'.advance.after = r1 := by simp [PState.advance, ha1]
    rw [h3] at ha2
    exact ⟨_, hadv2.mono (by omega), R.nudIndex hty (by rw [ha1, ha2]) hnum hrb hat⟩
  | @nudList tok p t rest o hty hafter h1 h2 h3 _ ih =>
    intro n p' _ hrel _
    obtain ⟨t', r', ha', ht'⟩ := hrel.peekP hA hB hafter (fun ty => ty ≠ .number ∧ ty ≠ .colon ∧ ty ≠ .star) ⟨h1, h2, h3⟩
      (fun ty h _ => by cases ty <;> simp [followerOK] at h <;> decide)
    obtain ⟨p1', hp1, hR⟩ := ih n p' (Nat.zero_le _) hrel trivial
    exact ⟨p1', hp1, R.nudList hty ha' ht'.1 ht'.2.1 ht'.2.2 hR⟩
  | @nudHash tok p o hty _ ih =>
    intro n p' _ hrel _
    obtain ⟨p1', hp1, hR⟩ := ih n p' (Nat.zero_le _) hrel trivial
    exact ⟨p1', hp1, R.nudHash hty hR⟩
  | @ledDot nd p t rest r p1 hafter hns _ ih =>
    intro n p' _ hrel _
    obtain ⟨t', r', ha', ht'⟩ := hrel.peekP hA hB hafter (fun ty => ty ≠ .star) hns (fun ty h _ => by cases ty <;> simp [followerOK] at h <;> decide)
    obtain ⟨p1', hp1, hR⟩ := ih n p' (Nat.zero_le _) hrel (Or.inl (by show _ ≤ 40; omega))
    exact ⟨p1', hp1, R.ledDot ha' ht' hR⟩
  | @ledPipe nd p r p1 _ ih =>
    intro n p' _ hrel _
    obtain ⟨p1', hp1, hR⟩ := ih n p' (Nat.zero_le _) hrel (Or.inl (by show _ ≤ 1; omega))
    exact ⟨p1', hp1, R.ledPipe hR⟩
  | @ledOr nd p r p1 _ ih =>
    intro n p' _ hrel _
    obtain ⟨p1', hp1, hR⟩ := ih n p' (Nat.zero_le _) hrel (Or.inl (by show _ ≤ 2; omega))
    exact ⟨p1', hp1, R.ledOr hR⟩
  | @ledAnd nd p r p1 _ ih =>
    intro n p' _ hrel _
    obtain ⟨p1', hp1, hR⟩ := ih n p' (Nat.zero_le _) hrel (Or.inl (by show _ ≤ 3; omega))
    exact ⟨p1', hp1, R.ledAnd hR⟩
  | @ledCmp ty op nd p r p1 hop _ ih =>
    intro n p' _ hrel _
    obtain ⟨p1', hp1, hR⟩ := ih n p' (Nat.zero_le _) hrel (Or.inl (by rw [cmp_level hop]; omega))
    exact ⟨p1', hp1, R.ledCmp hop hR⟩
  | @ledCall0 name p lp prev more t rest hbef hprev hafter hrp =>
    intro n p' hn hrel _
    obtain ⟨more', hb'⟩ := hrel.before2 (by simpa [need] using hn) hbef
    obtain ⟨r', ha', hadv⟩ := hrel.cons hA hafter (by rw [hrp]; decide)
    exact ⟨_, hadv.mono (Nat.le_succ n), R.ledCall0 hb' hprev ha' hrp⟩
  | @ledCall name p lp prev more t0 rest0 as p1 t rest hbef hprev hafter0 hne hargs hafter hrp ih =>
    intro n p' hn hrel _
    obtain ⟨more', hb'⟩ := hrel.before2 (by simpa [need] using hn) hbef
    obtain ⟨t0', r0', ha0', hpk⟩ := hrel.peek hafter0
    have ht0' : t0'.ty ≠ .rparen := by
      rcases hpk with rfl | ⟨hend, _, _⟩
      · exact hne
      · exfalso   -- the argument list would start where the phrase ends
        have hs := R_grammatical T hargs
        simp only [Sound] at hs
        obtain ⟨seg, hseg, _⟩ := hs
        have hend' : p.after = A.e :: A.rest := hend
        have := hseg.after; rw [hend', hAr, hafter] at this
        obtain ⟨_, rfl, _⟩ := single_eq_append this
        rw [hA] at hrp; cases hrp
    obtain ⟨p1', hp1, hR⟩ := ih n p' (Nat.zero_le _) hrel trivial
    obtain ⟨r', ha', hadv⟩ := hp1.cons hA hafter (by rw [hrp]; decide)
    exact ⟨_, hadv.mono (Nat.le_succ n), R.ledCall hb' hprev ha0' ht0' hR ha' hrp⟩
  | @ledIndex nd p nt rb rest i hafter hnum hrb hat =>
    intro n p' _ hrel _
    obtain ⟨r1, ha1, hadv1⟩ := hrel.cons hA hafter (by rw [hnum]; decide)
    have h2 : p.advance.after = rb :: rest := by simp [PState.advance, hafter]
    obtain ⟨r2, ha2, hadv2⟩ := hadv1.cons hA h2 (by rw [hrb]; decide)
    have h3 : p'.advance.after = r1 := by simp [PState.advance, ha1]
    rw [h3] at ha2
    exact ⟨_, hadv2.mono (by omega), R.ledIndex (by rw [ha1, ha2]) hnum hrb hat⟩
  | @dotIdent bp p t rest o hafter hty _ ih =>
    intro n p' _ hrel hside
    obtain ⟨r', ha'⟩ := hrel.peekEq hA hafter (by rcases hty with e | e <;> rw [e] <;> decide)
    obtain ⟨p1', hp1, hR⟩ := ih n p' (Nat.zero_le _) hrel hside
    exact ⟨p1', hp1, R.dotIdent ha' hty hR⟩
  | @dotList bp p t rest o hafter hty _ ih =>
    intro n p' _ hrel _
    obtain ⟨r', ha', hadv⟩ := hrel.cons hA hafter (by rw [hty]; decide)
    obtain ⟨p1', hp1, hR⟩ := ih (n + 1) p'.advance (Nat.zero_le _) hadv trivial
    exact ⟨p1', hp1.mono (Nat.le_succ n), R.dotList ha' hty hR⟩
  | @dotHash bp p t rest o hafter hty _ ih =>
    intro n p' _ hrel _
    obtain ⟨r', ha', hadv⟩ := hrel.cons hA hafter (by rw [hty]; decide)
    obtain ⟨p1', hp1, hR⟩ := ih (n + 1) p'.advance (Nat.zero_le _) hadv trivial
    exact ⟨p1', hp1.mono (Nat.le_succ n), R.dotHash ha' hty hR⟩
  | @mslLast p acc e p1 t rest _ hafter hty ih =>
    intro n p' _ hrel _
    have hte : t.ty ≠ .eof := by rw [hty]; decide
    obtain ⟨p1', hp1, hR⟩ := ih n p' (Nat.zero_le _) hrel (Or.inr (notEnd_of_ty hA hafter hte))
    obtain ⟨r', ha', hadv⟩ := hp1.cons hA hafter hte
    exact ⟨_, hadv.mono (Nat.le_succ n), R.mslLast hR ha' hty⟩
  | @mslMore p acc e p1 t rest o _ hafter hty _ ih1 ih2 =>
    intro n p' _ hrel _
    have hte : t.ty ≠ .eof := by rw [hty]; decide
    obtain ⟨p1', hp1, hR⟩ := ih1 n p' (Nat.zero_le _) hrel (Or.inr (notEnd_of_ty hA hafter hte))
    obtain ⟨r', ha', hadv⟩ := hp1.cons hA hafter hte
    obtain ⟨p2', hp2, hR2⟩ := ih2 (n + 1) p1'.advance (Nat.zero_le _) hadv trivial
    exact ⟨p2', hp2.mono (Nat.le_succ n), R.mslMore hR ha' hty hR2⟩
  | @mshLast p acc k c rest0 v p2 t rest hafter hk hc _ hafter2 hty ih =>
    intro n p' _ hrel _
    obtain ⟨r1, ha1, hadv1⟩ := hrel.cons hA hafter (by rcases hk with e | e <;> rw [e] <;> decide)
    have h2 : p.advance.after = c :: rest0 := by simp [PState.advance, hafter]
    obtain ⟨r2, ha2, hadv2⟩ := hadv1.cons hA h2 (by rw [hc]; decide)
    have h3 : p'.advance.after = r1 := by simp [PState.advance, ha1]
    rw [h3] at ha2
    have hte : t.ty ≠ .eof := by rw [hty]; decide
    obtain ⟨p2', hp2, hR⟩ := ih (n + 1 + 1) p'.advance.advance (Nat.zero_le _) hadv2 (Or.inr (notEnd_of_ty hA hafter2 hte))
    obtain ⟨r', ha', hadv⟩ := hp2.cons hA hafter2 hte
    exact ⟨_, hadv.mono (by omega), R.mshLast (by rw [ha1, ha2]) hk hc hR ha' hty⟩
  | @mshMore p acc k c rest0 v p2 t rest o hafter hk hc _ hafter2 hty _ ih1 ih2 =>
    intro n p' _ hrel _
    obtain ⟨r1, ha1, hadv1⟩ := hrel.cons hA hafter (by rcases hk with e | e <;> rw [e] <;> decide)
    have h2 : p.advance.after = c :: rest0 := by simp [PState.advance, hafter]
    obtain ⟨r2, ha2, hadv2⟩ := hadv1.cons hA h2 (by rw [hc]; decide)
    have h3 : p'.advance.after = r1 := by simp [PState.advance, ha1]
    rw [h3] at ha2
    have hte : t.ty ≠ .eof := by rw [hty]; decide
    obtain ⟨p2', hp2, hR⟩ := ih1 (n + 1 + 1) p'.advance.advance (Nat.zero_le _) hadv2 (Or.inr (notEnd_of_ty hA hafter2 hte))
    obtain ⟨r', ha', hadv⟩ := hp2.cons hA hafter2 hte
    obtain ⟨p3', hp3, hR3⟩ := ih2 _ p2'.advance (Nat.zero_le _) hadv trivial
    exact ⟨p3', hp3.mono (by omega), R.mshMore (by rw [ha1, ha2]) hk hc hR ha' hty hR3⟩
  | @argPlainLast p t0 rest0 e p1 t rest hafter0 hne _ hafter hty ih =>
    intro n p' _ hrel _
    obtain ⟨t0', r0', ha0', ht0'⟩ := hrel.peekP hA hB hafter0 (fun ty => ty ≠ .expref) hne (fun ty h _ => by cases ty <;> simp [followerOK] at h <;> decide)
    have hte : t.ty ≠ .eof := by rw [hty]; decide
    obtain ⟨p1', hp1, hR⟩ := ih n p' (Nat.zero_le _) hrel (Or.inr (notEnd_of_ty hA hafter hte))
    obtain ⟨r', ha'⟩ := hp1.peekEq hA hafter hte
    exact ⟨p1', hp1, R.argPlainLast ha0' ht0' hR ha' hty⟩
  | @argRefLast p t0 rest0 e p1 t rest hafter0 hty0 _ hafter hty ih =>
    intro n p' _ hrel _
    obtain ⟨r0', ha0', hadv0⟩ := hrel.cons hA hafter0 (by rw [hty0]; decide)
    have hte : t.ty ≠ .eof := by rw [hty]; decide
    obtain ⟨p1', hp1, hR⟩ := ih (n + 1) p'.advance (Nat.zero_le _) hadv0 (Or.inr (notEnd_of_ty hA hafter hte))
    obtain ⟨r', ha'⟩ := hp1.peekEq hA hafter hte
    exact ⟨p1', hp1.mono (Nat.le_succ n), R.argRefLast ha0' hty0 hR ha' hty⟩
  | @argPlainMore p t0 rest0 e p1 t rest t2 rest2 as p3 hafter0 hne _ hafter hty hafter2 hne2 hargs2 ih1 ih2 =>
    intro n p' _ hrel _
    obtain ⟨t0', r0', ha0', ht0'⟩ := hrel.peekP hA hB hafter0 (fun ty => ty ≠ .expref) hne (fun ty h _ => by cases ty <;> simp [followerOK] at h <;> decide)
    have hte : t.ty ≠ .eof := by rw [hty]; decide
    obtain ⟨p1', hp1, hR⟩ := ih1 n p' (Nat.zero_le _) hrel (Or.inr (notEnd_of_ty hA hafter hte))
    obtain ⟨r', ha', hadv⟩ := hp1.cons hA hafter hte
    obtain ⟨t2', r2', ha2', hpk2⟩ := hadv.peek hafter2
    have ht2' : t2'.ty ≠ .rparen := by
      rcases hpk2 with rfl | ⟨hend, _, _⟩
      · exact hne2
      · exfalso   -- a further argument would start where the phrase ends
        have hs := R_grammatical T hargs2
        simp only [Sound] at hs
        obtain ⟨seg, hseg, hg⟩ := hs
        obtain ⟨x, xs, rfl, hx⟩ := G_head hg
        have hend' : p1.advance.after = A.e :: A.rest := hend
        have := hseg.after; rw [hend', hAr] at this
        simp only [List.cons_append, List.cons.injEq] at this
        rw [← this.1, hA] at hx
        simp [headOK, startTy] at hx
    obtain ⟨p3', hp3, hR3⟩ := ih2 _ p1'.advance (Nat.zero_le _) hadv trivial
    exact ⟨p3', hp3.mono (Nat.le_succ n), R.argPlainMore ha0' ht0' hR ha' hty ha2' ht2' hR3⟩
  | @argRefMore p t0 rest0 e p1 t rest t2 rest2 as p3 hafter0 hty0 _ hafter hty hafter2 hne2 hargs2 ih1 ih2 =>
    intro n p' _ hrel _
    obtain ⟨r0', ha0', hadv0⟩ := hrel.cons hA hafter0 (by rw [hty0]; decide)
    have hte : t.ty ≠ .eof := by rw [hty]; decide
    obtain ⟨p1', hp1, hR⟩ := ih1 (n + 1) p'.advance (Nat.zero_le _) hadv0 (Or.inr (notEnd_of_ty hA hafter hte))
    obtain ⟨r', ha', hadv⟩ := hp1.cons hA hafter hte
    obtain ⟨t2', r2', ha2', hpk2⟩ := hadv.peek hafter2
    have ht2' : t2'.ty ≠ .rparen := by
      rcases hpk2 with rfl | ⟨hend, _, _⟩
      · exact hne2
      · exfalso   -- a further argument would start where the phrase ends
        have hs := R_grammatical T hargs2
        simp only [Sound] at hs
        obtain ⟨seg, hseg, hg⟩ := hs
        obtain ⟨x, xs, rfl, hx⟩ := G_head hg
        have hend' : p1.advance.after = A.e :: A.rest := hend
        have := hseg.after; rw [hend', hAr] at this
        simp only [List.cons_append, List.cons.injEq] at this
        rw [← this.1, hA] at hx
        simp [headOK, startTy] at hx
    obtain ⟨p3', hp3, hR3⟩ := ih2 _ p1'.advance (Nat.zero_le _) hadv trivial
    exact ⟨p3', hp3.mono (by omega), R.argRefMore ha0' hty0 hR ha' hty ha2' ht2' hR3⟩
  | @nudStarR tok p t rest hty hafter hrb =>
    intro n p' _ hrel _
    obtain ⟨r', ha'⟩ := hrel.peekEq hA hafter (by rw [hrb]; decide)
    exact ⟨p', hrel, R.nudStarR hty ha' hrb⟩
  | @nudStar tok p t rest r p1 hty hafter hnrb hprhs ih =>
    intro n p' _ hrel _
    obtain ⟨t', r', ha', hpk⟩ := hrel.peek hafter
    by_cases hrb' : t'.ty = .rbracket
    · -- the new follower is `]`: the parser takes its `*]` shortcut, with the same result
      rcases hpk with rfl | ⟨hend, rfl, _⟩
      · exact absurd hrb' hnrb
      · have : r = .identity ∧ p1 = p := by
          cases hprhs with
          | prhsId _ _ => exact ⟨rfl, rfl⟩
          | prhsBracket ha2 _ hty2 _ =>
            rw [hafter] at ha2; injection ha2 with e1 _; rw [← e1, hA] at hty2; rcases hty2 with h | h <;> cases h
          | prhsDot ha2 _ hty2 _ =>
            rw [hafter] at ha2; injection ha2 with e1 _; rw [← e1, hA] at hty2; cases hty2
        obtain ⟨rfl, rfl⟩ := this
        exact ⟨p', hrel, R.nudStarR hty ha' hrb'⟩
    · obtain ⟨p1', hp1, hR⟩ := ih n p' (Nat.zero_le _) hrel (Or.inl (by show _ ≤ 20; omega))
      exact ⟨p1', hp1, R.nudStar hty ha' hrb' hR⟩
  | @nudFilter tok p o hty _ ih =>
    intro n p' _ hrel _
    obtain ⟨p1', hp1, hR⟩ := ih n p' (Nat.zero_le _) hrel trivial
    exact ⟨p1', hp1, R.nudFilter hty hR⟩
  | @nudFlatten tok p r p1 hty _ ih =>
    intro n p' _ hrel _
    obtain ⟨p1', hp1, hR⟩ := ih n p' (Nat.zero_le _) hrel (Or.inl (by show _ ≤ 9; omega))
    exact ⟨p1', hp1, R.nudFlatten hty hR⟩
  | @nudBracketIdx tok p t rest right p1 o hty hafter hnc hidx _ ih =>
    intro n p' _ hrel _
    obtain ⟨r', ha'⟩ := hrel.peekEq hA hafter (by rcases hnc with e | e <;> rw [e] <;> decide)
    obtain ⟨p1', hidx', hp1⟩ := parseIndex_ctx hA hrel hidx hafter hnc
    obtain ⟨p2', hp2, hR⟩ := ih n p1' (Nat.zero_le _) hp1 trivial
    exact ⟨p2', hp2, R.nudBracketIdx hty ha' hnc hidx' hR⟩
  | @nudBracketStar tok p st rb rest r p1 hty hafter hs hrb _ ih =>
    intro n p' _ hrel _
    obtain ⟨r1, ha1, hadv1⟩ := hrel.cons hA hafter (by rw [hs]; decide)
    have h2 : p.advance.after = rb :: rest := by simp [PState.advance, hafter]
    obtain ⟨r2, ha2, hadv2⟩ := hadv1.cons hA h2 (by rw [hrb]; decide)
    have h3 : p'.advance.after = r1 := by simp [PState.advance, ha1]
    rw [h3] at ha2
    obtain ⟨p1', hp1, hR⟩ := ih _ p'.advance.advance (Nat.zero_le _) hadv2 (Or.inl (by show _ ≤ 20; omega))
    exact ⟨p1', hp1.mono (by omega), R.nudBracketStar hty (by rw [ha1, ha2]) hs hrb hR⟩
  | @nudListStar tok p t u rest o hty hafter hs hnrb hmsl ih =>
    intro n p' _ hrel _
    obtain ⟨r1, ha1, hadv1⟩ := hrel.cons hA hafter (by rw [hs]; decide)
    have h2 : p.advance.after = u :: rest := by simp [PState.advance, hafter]
    obtain ⟨u', r2, ha2, hpk⟩ := hadv1.peek h2
    have hu' : u'.ty ≠ .rbracket := by
      rcases hpk with rfl | ⟨hend, hu, _⟩
      · exact hnrb
      · exfalso   -- the list would have to close inside `*` followed by the end of the phrase
        obtain ⟨nd, pz, rfl⟩ := msl_node hmsl _ _ rfl
        have hs' := R_grammatical T hmsl
        simp only [Sound] at hs'
        obtain ⟨e, rb, hseg, _, hrb, _⟩ := hs'
        have hall := hseg.after
        have hend' : p.advance.after = A.e :: A.rest := hend
        rw [h2] at hend'
        simp only [List.cons.injEq] at hend'
        rw [hafter, hend'.2, hAr, hu] at hall
        -- `e ++ [rb]` is a prefix of `[t, A.e]`, so `rb` is one of them
        have hmem : rb ∈ [t, A.e] := by
          rw [hall]; simp
        simp only [List.mem_cons, List.not_mem_nil, or_false] at hmem
        rcases hmem with rfl | rfl
        · rw [hs] at hrb; cases hrb
        · rw [hA] at hrb; cases hrb
    have h3 : p'.advance.after = r1 := by simp [PState.advance, ha1]
    rw [h3] at ha2
    obtain ⟨p1', hp1, hR⟩ := ih n p' (Nat.zero_le _) hrel trivial
    exact ⟨p1', hp1, R.nudListStar hty (by rw [ha1, ha2]) hs hu' hR⟩
  | @ledDotStar nd p t rest r p1 hafter hs _ ih =>
    intro n p' _ hrel _
    obtain ⟨r', ha', hadv⟩ := hrel.cons hA hafter (by rw [hs]; decide)
    obtain ⟨p1', hp1, hR⟩ := ih _ p'.advance (Nat.zero_le _) hadv (Or.inl (by show _ ≤ 20; omega))
    exact ⟨p1', hp1.mono (Nat.le_succ n), R.ledDotStar ha' hs hR⟩
  | @ledFilter nd p o _ ih =>
    intro n p' _ hrel _
    obtain ⟨p1', hp1, hR⟩ := ih n p' (Nat.zero_le _) hrel trivial
    exact ⟨p1', hp1, R.ledFilter hR⟩
  | @ledFlatten nd p r p1 _ ih =>
    intro n p' _ hrel _
    obtain ⟨p1', hp1, hR⟩ := ih n p' (Nat.zero_le _) hrel (Or.inl (by show _ ≤ 9; omega))
    exact ⟨p1', hp1, R.ledFlatten hR⟩
  | @ledBracketIdx nd p t rest right p1 o hafter hnc hidx _ ih =>
    intro n p' _ hrel _
    obtain ⟨r', ha'⟩ := hrel.peekEq hA hafter (by rcases hnc with e | e <;> rw [e] <;> decide)
    obtain ⟨p1', hidx', hp1⟩ := parseIndex_ctx hA hrel hidx hafter hnc
    obtain ⟨p2', hp2, hR⟩ := ih n p1' (Nat.zero_le _) hp1 trivial
    exact ⟨p2', hp2, R.ledBracketIdx ha' hnc hidx' hR⟩
  | @ledBracketStar nd p st rb rest r p1 hafter hs hrb _ ih =>
    intro n p' _ hrel _
    obtain ⟨r1, ha1, hadv1⟩ := hrel.cons hA hafter (by rw [hs]; decide)
    have h2 : p.advance.after = rb :: rest := by simp [PState.advance, hafter]
    obtain ⟨r2, ha2, hadv2⟩ := hadv1.cons hA h2 (by rw [hrb]; decide)
    have h3 : p'.advance.after = r1 := by simp [PState.advance, ha1]
    rw [h3] at ha2
    obtain ⟨p1', hp1, hR⟩ := ih _ p'.advance.advance (Nat.zero_le _) hadv2 (Or.inl (by show _ ≤ 20; omega))
    exact ⟨p1', hp1.mono (by omega), R.ledBracketStar (by rw [ha1, ha2]) hs hrb hR⟩
  | @pisSlice l r p rhs p1 hsl _ ih =>
    intro n p' _ hrel _
    obtain ⟨p1', hp1, hR⟩ := ih n p' (Nat.zero_le _) hrel (Or.inl (by show _ ≤ 20; omega))
    exact ⟨p1', hp1, R.pisSlice hsl hR⟩
  | @pisIndex l r p hsl => intro n p' _ hrel _; exact ⟨p', hrel, R.pisIndex hsl⟩
  | @filterFlat nd p cond p1 rb t rest _ hafter hrb hfl ih =>
    intro n p' _ hrel _
    have hte : rb.ty ≠ .eof := by rw [hrb]; decide
    obtain ⟨p1', hp1, hR⟩ := ih n p' (Nat.zero_le _) hrel (Or.inr (notEnd_of_ty hA hafter hte))
    obtain ⟨r1, ha1, hadv1⟩ := hp1.cons hA hafter hte
    have h2 : p1.advance.after = t :: rest := by simp [PState.advance, hafter]
    obtain ⟨r2, ha2⟩ := hadv1.peekEq hA h2 (by rw [hfl]; decide)
    have h3 : p1'.advance.after = r1 := by simp [PState.advance, ha1]
    rw [h3] at ha2
    exact ⟨_, hadv1.mono (Nat.le_succ n), R.filterFlat hR (by rw [ha1, ha2]) hrb hfl⟩
  | @filterRhs nd p cond p1 rb t rest r p2 _ hafter hrb hnfl _ ih1 ih2 =>
    intro n p' _ hrel _
    have hte : rb.ty ≠ .eof := by rw [hrb]; decide
    obtain ⟨p1', hp1, hR⟩ := ih1 n p' (Nat.zero_le _) hrel (Or.inr (notEnd_of_ty hA hafter hte))
    obtain ⟨r1, ha1, hadv1⟩ := hp1.cons hA hafter hte
    have h2 : p1.advance.after = t :: rest := by simp [PState.advance, hafter]
    obtain ⟨t', r2, ha2, ht'⟩ := hadv1.peekP hA hB h2 (fun ty => ty ≠ .flatten) hnfl (fun ty h _ => by cases ty <;> simp [followerOK] at h <;> decide)
    have h3 : p1'.advance.after = r1 := by simp [PState.advance, ha1]
    rw [h3] at ha2
    obtain ⟨p2', hp2, hR2⟩ := ih2 _ p1'.advance (Nat.zero_le _) hadv1 (Or.inl (by show _ ≤ 21; omega))
    exact ⟨p2', hp2.mono (Nat.le_succ n), R.filterRhs hR (by rw [ha1, ha2]) hrb ht' hR2⟩
  | @prhsId bp p t rest hafter hlt =>
    intro n p' _ hrel _
    obtain ⟨t', r', ha', ht'⟩ := hrel.peekP hA hB hafter (fun ty => T.power ty < T.projStop) hlt (fun ty h _ => by cases ty <;> simp [followerOK] at h <;> decide)
    exact ⟨p', hrel, R.prhsId ha' ht'⟩
  | @prhsBracket bp p t rest o hafter hnlt hty _ ih =>
    intro n p' _ hrel hside
    obtain ⟨r', ha'⟩ := hrel.peekEq hA hafter (by rcases hty with e | e <;> rw [e] <;> decide)
    obtain ⟨p1', hp1, hR⟩ := ih n p' (Nat.zero_le _) hrel hside
    exact ⟨p1', hp1, R.prhsBracket ha' hnlt hty hR⟩
  | @prhsDot bp p t rest o hafter hnlt hty _ ih =>
    intro n p' _ hrel hside
    obtain ⟨r', ha', hadv⟩ := hrel.cons hA hafter (by rw [hty]; decide)
    obtain ⟨p1', hp1, hR⟩ := ih _ p'.advance (Nat.zero_le _) hadv hside
    exact ⟨p1', hp1.mono (Nat.le_succ n), R.prhsDot ha' hnlt hty hR⟩
  | @dotStar bp p t rest o hafter hty _ ih =>
    intro n p' _ hrel hside
    obtain ⟨r', ha'⟩ := hrel.peekEq hA hafter (by rw [hty]; decide)
    obtain ⟨p1', hp1, hR⟩ := ih n p' (Nat.zero_le _) hrel hside
    exact ⟨p1', hp1, R.dotStar ha' hty hR⟩

end
end Jmes.Parser
