/-
  Proofs.Sigs — when two function tables agree name by name up to the order
  of a parameter's alternatives (`SigsOK`, decided on the regenerated table on
  every run), `CallFunction` behaves identically with either.  This is what
  carries theorems about the specification's table over to the table found in
  /repo's source.
-/
import Jmes.Functions
namespace Jmes.Props
open Jmes

def allTypes : List JpType := [.number, .string, .array, .object, .arrayNumber, .arrayString, .expref, .any]

/-- A signature up to the order (and repetition) of the alternatives of each parameter. -/
def normArgs (args : List ArgSpec) : List (List Bool × Bool) :=
  args.map (fun a => (allTypes.map (fun t => a.types.contains t), a.variadic))

def findSig (tbl : List FnEntry) (name : Bytes) : Option (List (List Bool × Bool) × Handler × Bool) :=
  (tbl.find? (fun e => Fn.keyBytes e.key = name)).map (fun e => (normArgs e.args, e.handler, e.hasExpRef))

/-- Both tables know exactly the same names, with the same handler, the same
    expression-reference flag and the same signature. -/
def SigsOK (gen spec : List FnEntry) : Bool :=
  (gen.map (fun e => Fn.keyBytes e.key) ++ spec.map (fun e => Fn.keyBytes e.key)).all
    (fun k => findSig gen k == findSig spec k)


end Jmes.Props

namespace Jmes.Fn
open Jmes.Props
variable {N : Type} [NumOps N]

theorem mem_allTypes (t : JpType) : t ∈ allTypes := by cases t <;> simp [allTypes]

/-- The type check depends only on which alternatives are present. -/
theorem typeCheck_congr (s1 s2 : ArgSpec)
    (h : allTypes.map (fun t => s1.types.contains t) = allTypes.map (fun t => s2.types.contains t)) (a : Arg N) :
    typeCheck s1 a = typeCheck s2 a := by
  have hc : ∀ t, s1.types.contains t = s2.types.contains t := by
    intro t
    have := List.map_inj_left.mp h t (mem_allTypes t)
    exact this
  unfold typeCheck
  rw [Bool.eq_iff_iff]
  simp only [List.any_eq_true]
  constructor
  · rintro ⟨t, ht, hok⟩
    have h1 : s1.types.contains t = true := by simpa using ht
    have h2 : s2.types.contains t = true := by rw [← hc t]; exact h1
    exact ⟨t, by simpa using h2, hok⟩
  · rintro ⟨t, ht, hok⟩
    have h2 : s2.types.contains t = true := by simpa using ht
    have h1 : s1.types.contains t = true := by rw [hc t]; exact h2
    exact ⟨t, by simpa using h1, hok⟩

theorem checkFixed_congr : ∀ (l1 l2 : List ArgSpec), normArgs l1 = normArgs l2 → ∀ args : List (Arg N),
    checkFixed l1 args = checkFixed l2 args
  | [], [], _, args => rfl
  | [], _ :: _, h, _ => by simp [normArgs] at h
  | _ :: _, [], h, _ => by simp [normArgs] at h
  | s1 :: l1, s2 :: l2, h, args => by
    simp only [normArgs, List.map_cons, List.cons.injEq, Prod.mk.injEq] at h
    cases args with
    | nil => rfl
    | cons a as =>
      simp only [checkFixed]
      rw [typeCheck_congr s1 s2 h.1.1 a, checkFixed_congr l1 l2 (by simpa [normArgs] using h.2) as]

theorem checkVariadic_congr (la1 la2 : ArgSpec)
    (hl : allTypes.map (fun t => la1.types.contains t) = allTypes.map (fun t => la2.types.contains t)) :
    ∀ (l1 l2 : List ArgSpec), normArgs l1 = normArgs l2 → ∀ args : List (Arg N),
    checkVariadic la1 l1 args = checkVariadic la2 l2 args
  | _, _, _, [] => by cases ‹List ArgSpec› <;> cases ‹List ArgSpec› <;> rfl
  | [], [], _, a :: as => by
    simp only [checkVariadic]
    rw [typeCheck_congr la1 la2 hl a, checkVariadic_congr la1 la2 hl [] [] rfl as]
  | [], _ :: _, h, _ :: _ => by simp [normArgs] at h
  | _ :: _, [], h, _ :: _ => by simp [normArgs] at h
  | s1 :: l1, s2 :: l2, h, a :: as => by
    simp only [normArgs, List.map_cons, List.cons.injEq, Prod.mk.injEq] at h
    simp only [checkVariadic]
    rw [typeCheck_congr s1 s2 h.1.1 a, checkVariadic_congr la1 la2 hl l1 l2 (by simpa [normArgs] using h.2) as]

theorem getLast_norm : ∀ (l1 l2 : List ArgSpec), normArgs l1 = normArgs l2 →
    (l1.getLast? = none ∧ l2.getLast? = none) ∨
    (∃ a1 a2, l1.getLast? = some a1 ∧ l2.getLast? = some a2 ∧ a1.variadic = a2.variadic ∧
      allTypes.map (fun t => a1.types.contains t) = allTypes.map (fun t => a2.types.contains t))
  | [], [], _ => Or.inl ⟨rfl, rfl⟩
  | [], _ :: _, h => by simp [normArgs] at h
  | _ :: _, [], h => by simp [normArgs] at h
  | [s1], [s2], h => by
    simp only [normArgs, List.map_cons, List.map_nil, List.cons.injEq, Prod.mk.injEq, and_true] at h
    exact Or.inr ⟨s1, s2, rfl, rfl, h.2, h.1⟩
  | [_], _ :: _ :: _, h => by simp [normArgs] at h
  | _ :: _ :: _, [_], h => by simp [normArgs] at h
  | s1 :: t1 :: l1, s2 :: t2 :: l2, h => by
    have h' : normArgs (t1 :: l1) = normArgs (t2 :: l2) := by
      simp only [normArgs, List.map_cons, List.cons.injEq] at h ⊢
      exact h.2
    rcases getLast_norm (t1 :: l1) (t2 :: l2) h' with ⟨e1, _⟩ | ⟨a1, a2, e1, e2, hv, ht⟩
    · simp at e1
    · exact Or.inr ⟨a1, a2, by simpa using e1, by simpa using e2, hv, ht⟩

theorem resolveArgs_congr (e1 e2 : FnEntry) (h : normArgs e1.args = normArgs e2.args) (args : List (Arg N)) :
    resolveArgs e1 args = resolveArgs e2 args := by
  have hlen : e1.args.length = e2.args.length := by
    have := congrArg List.length h
    simpa [normArgs] using this
  unfold resolveArgs
  rcases getLast_norm e1.args e2.args h with ⟨a, c⟩ | ⟨a1, a2, ha, hc, hv, ht⟩
  · rw [a, c]
  · rw [ha, hc]
    simp only [hv, hlen]
    rw [checkFixed_congr e1.args e2.args h args, checkVariadic_congr a1 a2 ht e1.args e2.args h args]

/-- Tables that satisfy `SigsOK` are interchangeable. -/
theorem callFunction_congr (gen spec : List FnEntry) (h : SigsOK gen spec = true) (name : Bytes) (args : List (Arg N)) :
    callFunction gen name args = callFunction spec name args := by
  unfold SigsOK at h
  rw [List.all_eq_true] at h
  unfold callFunction
  by_cases hk : name ∈ gen.map (fun e => keyBytes e.key) ++ spec.map (fun e => keyBytes e.key)
  · have := h name hk
    simp only [findSig, beq_iff_eq] at this
    cases hg : List.find? (fun e => keyBytes e.key = name) gen with
    | none =>
      cases hs : List.find? (fun e => keyBytes e.key = name) spec with
      | none => rfl
      | some e => rw [hg, hs] at this; simp at this
    | some g =>
      cases hs : List.find? (fun e => keyBytes e.key = name) spec with
      | none => rw [hg, hs] at this; simp at this
      | some e =>
        rw [hg, hs] at this
        simp only [Option.map_some, Option.some.injEq, Prod.mk.injEq] at this
        simp only []
        rw [resolveArgs_congr g e this.1 args, this.2.1, this.2.2]
  · have hg : List.find? (fun e => keyBytes e.key = name) gen = none := by
      rw [List.find?_eq_none]
      intro e he hn
      exact hk (List.mem_append_left _ (List.mem_map.mpr ⟨e, he, by simpa using hn⟩))
    have hs : List.find? (fun e => keyBytes e.key = name) spec = none := by
      rw [List.find?_eq_none]
      intro e he hn
      exact hk (List.mem_append_right _ (List.mem_map.mpr ⟨e, he, by simpa using hn⟩))
    rw [hg, hs]

end Jmes.Fn
