/-
  Proofs.Printer — the parser (with the specification's table) inverts the
  precedence-aware printer `Spec.ppE`, projections and explicit parentheses
  included.  Proved on the relational description `R`; `R_sound` and the
  parser-safety theorem turn it into a statement about `parseTokens`.
-/
import Proofs.ParserRel
import Proofs.ParserSafe
import Spec.Printer
import Spec.Tables
namespace Jmes.Parser
open Jmes.Spec
variable {N : Type} [NumOps N]

abbrev T : ParserTable := Spec.table

def wfNum (o : Option (Bytes × Int)) : Prop :=
  match o with
  | some (t, i) => atoi t = some i
  | none => True

def wfSlice (s : SliceTxt) : Prop := wfNum s.a ∧ wfNum s.b ∧ wfNum s.c

mutual
/-- Side conditions on the token texts and on the places where the grammar
    restricts what may stand: a literal's text decodes to its value, digits
    denote their integer, a dot is followed by an identifier-headed expression,
    a list or a hash, a projection's right-hand side starts the way it must. -/
def wf : PE N → Prop
  | .lit t v => (Json.decode t : Option (Val N)) = some v
  | .idx0 txt i => atoi txt = some i
  | .idx l txt i => atoi txt = some i ∧ wf l
  | .sub l r => dotOK 40 false r = true ∧ wf l ∧ wf r
  | .not e => wf e
  | .bin _ l r => wf l ∧ wf r
  | .call _ args => wfArgs args
  | .list x xs => first x ≠ .star ∧ wf x ∧ wfList xs
  | .hash _ _ v kvs => wf v ∧ wfKVs kvs
  | .paren e => wf e
  | .star0 r => wfRhs 20 r
  | .dstar l r => wf l ∧ wfRhs 20 r
  | .bstar0 r => wfRhs 20 r
  | .bstar l r => wf l ∧ wfRhs 20 r
  | .flat0 r => wfRhs 9 r
  | .flat l r => wf l ∧ wfRhs 9 r
  | .slice0 s r => wfSlice s ∧ wfRhs 20 r
  | .slice l s r => wfSlice s ∧ wf l ∧ wfRhs 20 r
  | .filt0 c r => wf c ∧ wfRhs 21 r
  | .filt l c r => wf l ∧ wf c ∧ wfRhs 21 r
  | _ => True
def wfRhs : Nat → Rhs N → Prop
  | _, .none => True
  | bp, .dot e => dotOK bp true e = true ∧ wf e
  | bp, .br e => brOK bp e = true ∧ wf e
def wfList : List (PE N) → Prop
  | [] => True
  | x :: xs => wf x ∧ wfList xs
def wfKVs : List (Bool × Bytes × PE N) → Prop
  | [] => True
  | (_, _, v) :: rest => wf v ∧ wfKVs rest
def wfArgs : List (Bool × PE N) → Prop
  | [] => True
  | (_, e) :: rest => wf e ∧ wfArgs rest
end

/-- The specification's levels, token by token. -/
def specPow : TokType → Nat
  | .pipe => 1 | .or => 2 | .and => 3
  | .eq | .ne | .lt | .lte | .gt | .gte => 5
  | .flatten => 9 | .star => 20 | .filter => 21 | .dot => 40 | .not => 45
  | .lbrace => 50 | .lbracket => 55 | .lparen => 60
  | _ => 0

@[simp] theorem T_power (ty : TokType) : T.power ty = specPow ty := by cases ty <;> rfl

def Follow (e : PE N) (rest : List Token) : Prop := ∃ t rest', rest = t :: rest' ∧ specPow t.ty ≤ e.rp

/-- The statement proved for every expression: parsing the printed tokens at a
    level below the expression's own continues the Pratt loop with the
    expression's AST as the left operand. -/
def GoodE (e : PE N) : Prop :=
  wf e → ∀ (k : Nat) (bef rest : List Token) (o : Out N), k < e.level → Follow e rest →
    R T (.loop k (node e) ⟨(ppE e).reverse ++ bef, rest⟩) o → R T (.expr k ⟨bef, ppE e ++ rest⟩) o

def GoodList : List (PE N) → Prop
  | [] => True
  | x :: xs => GoodE x ∧ GoodList xs
def GoodKVs : List (Bool × Bytes × PE N) → Prop
  | [] => True
  | (_, _, v) :: rest => GoodE v ∧ GoodKVs rest
def GoodArgs : List (Bool × PE N) → Prop
  | [] => True
  | (_, e) :: rest => GoodE e ∧ GoodArgs rest

section Levels
omit [NumOps N]
variable (l r e c : PE N) (rh : Rhs N) (op : BinOp) (s : SliceTxt) (t : Bytes) (i : Int)
theorem lv_ident : (PE.ident t : PE N).level = 100 := rfl
theorem lv_quoted : (PE.quoted t : PE N).level = 100 := rfl
theorem lv_raw : (PE.raw t : PE N).level = 100 := rfl
theorem lv_lit (v : Val N) : (PE.lit t v).level = 100 := rfl
theorem lv_current : (PE.current : PE N).level = 100 := rfl
theorem lv_idx0 : (PE.idx0 t i : PE N).level = 100 := rfl
theorem lv_idx : (PE.idx l t i).level = 55 := rfl
theorem lv_sub : (PE.sub l r).level = 40 := rfl
theorem lv_not : (PE.not e).level = 45 := rfl
theorem lv_bin : (PE.bin op l r).level = op.pow := rfl
theorem lv_call (a : List (Bool × PE N)) : (PE.call t a).level = 60 := rfl
theorem lv_list (xs : List (PE N)) : (PE.list e xs).level = 100 := rfl
theorem lv_hash (q : Bool) (kvs : List (Bool × Bytes × PE N)) : (PE.hash q t e kvs).level = 100 := rfl
theorem lv_paren : (PE.paren e).level = 100 := rfl
theorem lv_star0 : (PE.star0 rh).level = 100 := rfl
theorem lv_dstar : (PE.dstar l rh).level = 40 := rfl
theorem lv_bstar0 : (PE.bstar0 rh).level = 100 := rfl
theorem lv_bstar : (PE.bstar l rh).level = 55 := rfl
theorem lv_flat0 : (PE.flat0 rh).level = 100 := rfl
theorem lv_flat : (PE.flat l rh).level = 9 := rfl
theorem lv_slice0 : (PE.slice0 s rh).level = 100 := rfl
theorem lv_slice : (PE.slice l s rh).level = 55 := rfl
theorem lv_filt0 : (PE.filt0 c rh).level = 100 := rfl
theorem lv_filt : (PE.filt l c rh).level = 21 := rfl
theorem pow_le_5 : op.pow ≤ 5 ∧ 0 < op.pow := by cases op <;> simp [BinOp.pow]
end Levels

macro "lvls" : tactic => `(tactic| simp only [lv_ident, lv_quoted, lv_raw, lv_lit, lv_current, lv_idx0, lv_idx, lv_sub, lv_not, lv_bin,
  lv_call, lv_list, lv_hash, lv_paren, lv_star0, lv_dstar, lv_bstar0, lv_bstar, lv_flat0, lv_flat, lv_slice0, lv_slice, lv_filt0, lv_filt] at *)

omit [NumOps N] in
theorem rp_le_59 (e : PE N) : e.rp ≤ 59 := by
  cases e with
  | bin op l r => have := pow_le_5 op; simp only [PE.rp]; split <;> omega
  | _ => simp only [PE.rp] <;> (try split) <;> omega

omit [NumOps N] in
theorem rp_le_level (e : PE N) : e.rp ≤ e.level := by
  cases e <;> simp only [PE.rp] <;> (try split) <;> (try lvls) <;> omega

theorem advance_cons (bef : List Token) (t : Token) (ts : List Token) :
    (⟨bef, t :: ts⟩ : PState).advance = ⟨t :: bef, ts⟩ := rfl

theorem advance_cons_append (bef : List Token) (t : Token) (ts rest : List Token) :
    (⟨bef, t :: ts ++ rest⟩ : PState).advance = ⟨t :: bef, ts ++ rest⟩ := rfl

theorem pow_le_59_ne_lparen {t : Token} (h : specPow t.ty ≤ 59) : t.ty ≠ .lparen := by
  intro e; rw [e] at h; simp [specPow] at h

omit [NumOps N] in
theorem level_pos (e : PE N) : 0 < e.level := by
  cases e <;> (try lvls) <;> (try (rename_i op _ _; have := pow_le_5 op)) <;> omega

@[simp] theorem tk_ty (ty : TokType) (v : Bytes) : (tk ty v).ty = ty := rfl
@[simp] theorem tk_value (ty : TokType) (v : Bytes) : (tk ty v).value = v := rfl

/-- An expression in parentheses, at any level, with anything after it. -/
theorem paren_expr {e : PE N} (ge : GoodE e) (hw : wf e) (k : Nat) (bef rest : List Token) (o : Out N)
    (hloop : R T (.loop k (node e) ⟨(parens (ppE e)).reverse ++ bef, rest⟩) o) :
    R T (.expr k ⟨bef, parens (ppE e) ++ rest⟩) o := by
  have inner : R T (.expr T.nudParen ⟨tk .lparen :: bef, ppE e ++ tk .rparen :: rest⟩)
      (.node (node e) ⟨(ppE e).reverse ++ tk .lparen :: bef, tk .rparen :: rest⟩) := by
    refine ge hw 0 _ _ _ (level_pos e) ⟨tk .rparen, rest, rfl, by simp [specPow]⟩ ?_
    exact R.stop (t := tk .rparen) (rest := rest) rfl (by simp [specPow])
  have hn : R T (.nud (tk .lparen) (⟨bef, parens (ppE e) ++ rest⟩ : PState).advance)
      (.node (node e) (⟨(ppE e).reverse ++ tk .lparen :: bef, tk .rparen :: rest⟩ : PState).advance) := by
    have : (⟨bef, parens (ppE e) ++ rest⟩ : PState).advance = ⟨tk .lparen :: bef, ppE e ++ tk .rparen :: rest⟩ := by
      simp [parens, PState.advance]
    rw [this]
    exact R.nudParen (t := tk .rparen) (rest := rest) rfl inner rfl rfl
  refine R.expr (tok := tk .lparen) (rest := ppE e ++ tk .rparen :: rest) (by simp [parens]) hn ?_
  simpa [parens, advance_cons, List.reverse_append] using hloop

/-- nud of a one-token atom followed by the loop. -/
theorem atom_expr (tok : Token) (n : Node N) (k : Nat) (bef rest : List Token) (o : Out N)
    (hn : R T (.nud tok ⟨tok :: bef, rest⟩) (.node n ⟨tok :: bef, rest⟩))
    (hloop : R T (.loop k n ⟨tok :: bef, rest⟩) o) : R T (.expr k ⟨bef, tok :: rest⟩) o :=
  R.expr (tok := tok) (rest := rest) rfl hn hloop

theorem good_ident (n : Bytes) : GoodE (N := N) (.ident n) := by
  intro _ k bef rest o _ _ hloop
  have hn : R T (.nud (tk .uident n) ⟨tk .uident n :: bef, rest⟩) (.node (N := N) (.field n) ⟨tk .uident n :: bef, rest⟩) := by
    have := R.nudIdent (tbl := T) (N := N) (tok := tk .uident n) (p := ⟨tk .uident n :: bef, rest⟩) rfl
    simpa using this
  exact atom_expr (tk .uident n) _ k bef rest o hn (by simpa [ppE, node] using hloop)

theorem good_quoted (n : Bytes) : GoodE (N := N) (.quoted n) := by
  intro _ k bef rest o _ hf hloop
  obtain ⟨t, rest', rfl, ht⟩ := hf
  have hne : t.ty ≠ .lparen := pow_le_59_ne_lparen (by simpa [PE.rp] using ht)
  have hn : R T (.nud (tk .qident n) ⟨tk .qident n :: bef, t :: rest'⟩) (.node (N := N) (.field n) ⟨tk .qident n :: bef, t :: rest'⟩) := by
    have := R.nudQuoted (tbl := T) (N := N) (tok := tk .qident n) (p := ⟨tk .qident n :: bef, t :: rest'⟩) (t := t) (rest := rest') rfl rfl hne
    simpa using this
  exact atom_expr (tk .qident n) _ k bef _ o hn (by simpa [ppE, node] using hloop)

theorem good_raw (s : Bytes) : GoodE (N := N) (.raw s) := by
  intro _ k bef rest o _ _ hloop
  have hn : R T (.nud (tk .stringLiteral s) ⟨tk .stringLiteral s :: bef, rest⟩) (.node (N := N) (.literal (.str s)) ⟨tk .stringLiteral s :: bef, rest⟩) := by
    have := R.nudRaw (tbl := T) (N := N) (tok := tk .stringLiteral s) (p := ⟨tk .stringLiteral s :: bef, rest⟩) rfl
    simpa using this
  exact atom_expr (tk .stringLiteral s) _ k bef rest o hn (by simpa [ppE, node] using hloop)

theorem good_lit (t : Bytes) (v : Val N) : GoodE (.lit t v) := by
  intro hw k bef rest o _ _ hloop
  have hn : R T (.nud (tk .jsonLiteral t) ⟨tk .jsonLiteral t :: bef, rest⟩) (.node (.literal v) ⟨tk .jsonLiteral t :: bef, rest⟩) :=
    R.nudJson (tok := tk .jsonLiteral t) rfl hw
  exact atom_expr (tk .jsonLiteral t) _ k bef rest o hn (by simpa [ppE, node] using hloop)

theorem good_current : GoodE (N := N) .current := by
  intro _ k bef rest o _ _ hloop
  exact atom_expr (tk .current) _ k bef rest o (R.nudCurrent rfl) (by simpa [ppE, node] using hloop)

theorem good_idx0 (txt : Bytes) (i : Int) : GoodE (N := N) (.idx0 txt i) := by
  intro hw k bef rest o _ _ hloop
  refine R.expr (tok := tk .lbracket) (rest := tk .number txt :: tk .rbracket :: rest) rfl ?_ (by simpa [ppE, node] using hloop)
  have := R.nudIndex (tbl := T) (N := N) (tok := tk .lbracket) (p := ⟨tk .lbracket :: bef, tk .number txt :: tk .rbracket :: rest⟩)
    (n := tk .number txt) (rb := tk .rbracket) (rest := rest) (i := i) rfl rfl rfl rfl hw
  simpa [advance_cons, ppE] using this

theorem good_paren {e : PE N} (ge : GoodE e) : GoodE (.paren e) := by
  intro hw k bef rest o _ _ hloop
  have hw' : wf e := by simpa [wf] using hw
  have := paren_expr ge hw' k bef rest o (by simpa [ppE, node] using hloop)
  simpa [ppE] using this

/-- The operand token list of a prefix / left / right operand position. -/
def wrapIf (c : Bool) (ts : List Token) : List Token := if c then parens ts else ts

/-- An operand (bare when `c = false`, in parentheses otherwise) followed by the loop. -/
theorem operand_loop {e : PE N} (ge : GoodE e) (hw : wf e) (c : Bool) (k : Nat)
    (bef rest : List Token) (o : Out N) (hc : c = false → k < e.level ∧ Follow e rest)
    (hloop : R T (.loop k (node e) ⟨(wrapIf c (ppE e)).reverse ++ bef, rest⟩) o) :
    R T (.expr k ⟨bef, wrapIf c (ppE e) ++ rest⟩) o := by
  cases c with
  | true => exact paren_expr ge hw k _ _ _ hloop
  | false => exact ge hw k _ _ _ (hc rfl).1 (hc rfl).2 hloop

/-- An operand parsed at level `k` (either because its level is above `k`, or
    in parentheses), followed by a token the loop at level `k` stops at. -/
theorem operand_expr {e : PE N} (ge : GoodE e) (hw : wf e) (c : Bool) (k : Nat)
    (bef : List Token) (t : Token) (rest' : List Token)
    (hc : c = false → k < e.level ∧ specPow t.ty ≤ e.rp) (ht : specPow t.ty ≤ k) :
    R T (.expr k ⟨bef, wrapIf c (ppE e) ++ t :: rest'⟩)
      (.node (node e) ⟨(wrapIf c (ppE e)).reverse ++ bef, t :: rest'⟩) := by
  refine operand_loop ge hw c k bef _ _ (fun h => ⟨(hc h).1, t, rest', rfl, (hc h).2⟩) ?_
  exact R.stop (t := t) (rest := rest') rfl (by rw [T_power]; omega)

/-- An element of a list / hash / argument list / filter condition: parsed at level 0 up to a token of power 0. -/
theorem elem_expr {e : PE N} (ge : GoodE e) (hw : wf e) (bef : List Token) (t : Token) (rest' : List Token)
    (ht : specPow t.ty = 0) :
    R T (.expr 0 ⟨bef, ppE e ++ t :: rest'⟩) (.node (node e) ⟨(ppE e).reverse ++ bef, t :: rest'⟩) := by
  have := operand_expr ge hw false 0 bef t rest' (fun _ => ⟨level_pos e, by omega⟩) (by omega)
  simpa [wrapIf] using this

/-- `!e` -/
theorem good_not {e : PE N} (ge : GoodE e) : GoodE (.not e) := by
  intro hw k bef rest o _ hf hloop
  have hw' : wf e := by simpa [wf] using hw
  obtain ⟨t, rest', rfl, ht⟩ := hf
  generalize hc : decide (e.level ≤ 45) = c
  have ht45 : specPow t.ty ≤ 45 := by
    simp only [PE.rp] at ht; split at ht <;> omega
  have hop := operand_expr ge hw' c 45 (tk .not :: bef) t rest'
    (by intro h; rw [h] at hc
        have hl : ¬ e.level ≤ 45 := by simpa using hc
        simp only [PE.rp, hl, if_false] at ht
        exact ⟨by omega, by omega⟩) ht45
  have hn : R T (.nud (tk .not) ⟨tk .not :: bef, wrapIf c (ppE e) ++ t :: rest'⟩)
      (.node (.not (node e)) ⟨(wrapIf c (ppE e)).reverse ++ tk .not :: bef, t :: rest'⟩) :=
    R.nudNot (tok := tk .not) rfl hop
  have e1 : ppE (.not e) = tk .not :: wrapIf c (ppE e) := by
    simp [ppE, wrapIf, ← hc]
  rw [e1] at hloop ⊢
  refine R.expr (tok := tk .not) (rest := wrapIf c (ppE e) ++ t :: rest') rfl hn ?_
  simpa [node, List.reverse_append] using hloop

theorem cmp_ofTok (c : Cmp) : Cmp.ofTok (cmpTok c) = some c := by cases c <;> rfl
theorem cmp_pow (c : Cmp) : (T.ledCmp.lookup (cmpTok c)).getD 0 = 5 := by cases c <;> rfl

/-- the left operand of an operator of power `P`, bare or parenthesised by the printer's rule -/
theorem left_operand {l : PE N} (gl : GoodE l) (hwl : wf l) (P k : Nat) (hk : k < P) (optok : Token) (hop : specPow optok.ty = P)
    (bef rest : List Token) (o : Out N)
    (hloop : R T (.loop k (node l) ⟨(wrapIf (decide (l.rp < P)) (ppE l)).reverse ++ bef, optok :: rest⟩) o) :
    R T (.expr k ⟨bef, wrapIf (decide (l.rp < P)) (ppE l) ++ optok :: rest⟩) o := by
  refine operand_loop gl hwl _ k bef _ o ?_ hloop
  intro h
  have hge : ¬ l.rp < P := by simpa using h
  have := rp_le_level l
  exact ⟨by omega, optok, rest, rfl, by omega⟩

/-- `l op r` -/
theorem good_bin (op : BinOp) {l r : PE N} (gl : GoodE l) (gr : GoodE r) : GoodE (.bin op l r) := by
  intro hw k bef rest o hk hf hloop
  have ⟨hwl, hwr⟩ : wf l ∧ wf r := by simpa [wf] using hw
  obtain ⟨t, rest', rfl, ht⟩ := hf
  have hpow : op.pow ≤ 5 ∧ 0 < op.pow := by cases op <;> simp [BinOp.pow]
  have hkp : k < op.pow := by simpa [PE.level] using hk
  have hoptok : specPow op.tok = op.pow := by
    cases op with
    | cmp c => cases c <;> rfl
    | _ => rfl
  generalize hcr : decide (r.level ≤ op.pow) = cr
  have htp : specPow t.ty ≤ op.pow := by
    simp only [PE.rp] at ht; split at ht <;> omega
  have e1 : ppE (.bin op l r) = wrapIf (decide (l.rp < op.pow)) (ppE l) ++ tk op.tok :: wrapIf cr (ppE r) := by
    simp [ppE, wrapIf, ← hcr]
  rw [e1] at hloop ⊢
  rw [List.append_assoc]
  refine left_operand gl hwl op.pow k hkp (tk op.tok) (by simpa using hoptok) bef _ o ?_
  generalize hcl : decide (l.rp < op.pow) = cl at hloop ⊢
  have hop := operand_expr gr hwr cr op.pow (tk op.tok :: ((wrapIf cl (ppE l)).reverse ++ bef)) t rest' (by
      intro h; rw [h] at hcr
      have hl : ¬ r.level ≤ op.pow := by simpa using hcr
      simp only [PE.rp, hl, if_false] at ht
      exact ⟨by omega, by omega⟩) htp
  have hled : R T (.led (tk op.tok).ty (node l) (⟨(wrapIf cl (ppE l)).reverse ++ bef, tk op.tok :: wrapIf cr (ppE r) ++ t :: rest'⟩ : PState).advance)
      (.node (op.node (node l) (node r)) ⟨(wrapIf cr (ppE r)).reverse ++ tk op.tok :: ((wrapIf cl (ppE l)).reverse ++ bef), t :: rest'⟩) := by
    rw [advance_cons_append]
    cases op with
    | pipe => exact R.ledPipe hop
    | or => exact R.ledOr hop
    | and => exact R.ledAnd hop
    | cmp c =>
      have hp : ((T.ledCmp.lookup (tk (BinOp.cmp c).tok).ty).getD 0) = (BinOp.cmp c).pow := cmp_pow c
      exact R.ledCmp (cmp_ofTok c) (by rw [hp]; exact hop)
  refine R.step (t := tk op.tok) (rest := wrapIf cr (ppE r) ++ t :: rest') (by simp) (by rw [T_power, tk_ty, hoptok]; exact hkp) hled ?_
  simpa [node, List.reverse_append] using hloop

/-- `l[i]` -/
theorem good_idx {l : PE N} (txt : Bytes) (i : Int) (gl : GoodE l) : GoodE (.idx l txt i) := by
  intro hw k bef rest o hk hf hloop
  have ⟨hi, hwl⟩ : atoi txt = some i ∧ wf l := by simpa [wf] using hw
  have hk55 : k < 55 := by simpa [PE.level] using hk
  have e1 : ppE (.idx l txt i) = wrapIf (decide (l.rp < 55)) (ppE l) ++ [tk .lbracket, tk .number txt, tk .rbracket] := by
    simp [ppE, wrapIf]
  rw [e1] at hloop ⊢
  rw [List.append_assoc]
  refine left_operand gl hwl 55 k hk55 (tk .lbracket) rfl bef _ o ?_
  generalize decide (l.rp < 55) = cl at hloop ⊢
  have hled := R.ledIndex (tbl := T) (node := node l)
    (p := ⟨tk .lbracket :: (wrapIf cl (ppE l)).reverse ++ bef, tk .number txt :: tk .rbracket :: rest⟩)
    (n := tk .number txt) (rb := tk .rbracket) (rest := rest) (i := i) rfl rfl rfl hi
  refine R.step (t := tk .lbracket) (rest := tk .number txt :: tk .rbracket :: rest) (by simp) (by rw [T_power]; simpa [specPow] using hk55) hled ?_
  simpa [node, advance_cons, List.reverse_append] using hloop

/-! ### the first token -/

def HeadIs (ty : TokType) (l : List Token) : Prop := ∃ t ts, l = t :: ts ∧ t.ty = ty
theorem headIs_cons (t : Token) (ts : List Token) : HeadIs t.ty (t :: ts) := ⟨t, ts, rfl, rfl⟩
theorem headIs_tk (ty : TokType) (v : Bytes) (ts : List Token) : HeadIs ty (tk ty v :: ts) := ⟨_, ts, rfl, rfl⟩
theorem headIs_append {ty : TokType} {l : List Token} (r : List Token) (h : HeadIs ty l) : HeadIs ty (l ++ r) := by
  obtain ⟨t, ts, rfl, ht⟩ := h; exact ⟨t, ts ++ r, rfl, ht⟩
theorem headIs_parens (ts : List Token) : HeadIs .lparen (parens ts) := headIs_append _ (headIs_tk _ _ _)

omit [NumOps N] in
theorem headIs_left (P : Nat) (l : PE N) (r : List Token) (ih : HeadIs (first l) (ppE l)) :
    HeadIs (if l.rp < P then TokType.lparen else first l) ((if l.rp < P then parens (ppE l) else ppE l) ++ r) := by
  by_cases hc : l.rp < P
  · simp only [hc, if_true]; exact headIs_append _ (headIs_parens _)
  · simp only [hc, if_false]; exact headIs_append _ ih

omit [NumOps N] in
theorem ppE_first : (e : PE N) → HeadIs (first e) (ppE e)
  | .ident n => by simp only [ppE, first]; exact headIs_tk _ _ _
  | .quoted n => by simp only [ppE, first]; exact headIs_tk _ _ _
  | .raw s => by simp only [ppE, first]; exact headIs_tk _ _ _
  | .lit t v => by simp only [ppE, first]; exact headIs_tk _ _ _
  | .current => by simp only [ppE, first]; exact headIs_tk _ _ _
  | .idx0 txt i => by simp only [ppE, first]; exact headIs_tk _ _ _
  | .not e => by simp only [ppE, first]; exact headIs_tk _ _ _
  | .call n args => by simp only [ppE, first]; exact headIs_append _ (headIs_tk _ _ _)
  | .list x xs => by simp only [ppE, first]; exact headIs_append _ (headIs_append _ (headIs_tk _ _ _))
  | .hash q k v kvs => by simp only [ppE, first]; exact headIs_append _ (headIs_append _ (headIs_tk _ _ _))
  | .paren e => by simp only [ppE, first]; exact headIs_parens _
  | .star0 r => by simp only [ppE, first]; exact headIs_tk _ _ _
  | .bstar0 r => by simp only [ppE, first]; exact headIs_tk _ _ _
  | .flat0 r => by simp only [ppE, first]; exact headIs_tk _ _ _
  | .slice0 s r => by simp only [ppE, first]; exact headIs_append _ (headIs_tk _ _ _)
  | .filt0 c r => by simp only [ppE, first]; exact headIs_append _ (headIs_tk _ _ _)
  | .idx l txt i => by simp only [ppE, first]; exact headIs_left 55 l _ (ppE_first l)
  | .sub l r => by simp only [ppE, first]; exact headIs_left 40 l _ (ppE_first l)
  | .bin op l r => by simp only [ppE, first]; exact headIs_left op.pow l _ (ppE_first l)
  | .dstar l r => by simp only [ppE, first]; exact headIs_left 40 l _ (ppE_first l)
  | .bstar l r => by simp only [ppE, first]; exact headIs_left 55 l _ (ppE_first l)
  | .flat l r => by simp only [ppE, first]; exact headIs_left 9 l _ (ppE_first l)
  | .slice l s r => by simp only [ppE, first]; exact headIs_append _ (headIs_left 55 l _ (ppE_first l))
  | .filt l c r => by simp only [ppE, first]; exact headIs_append _ (headIs_left 21 l _ (ppE_first l))

/-- Token types an expression can begin with. -/
def startTy : TokType → Bool
  | .uident | .qident | .stringLiteral | .jsonLiteral | .current | .lbracket | .not | .lparen | .lbrace
  | .star | .flatten | .filter => true
  | _ => false

omit [NumOps N] in
theorem first_start : (e : PE N) → startTy (first e) = true
  | .ident _ | .quoted _ | .raw _ | .lit _ _ | .current | .idx0 _ _ | .not _ | .call _ _ | .list _ _ | .hash _ _ _ _
  | .paren _ | .star0 _ | .bstar0 _ | .flat0 _ | .slice0 _ _ | .filt0 _ _ => rfl
  | .idx l _ _ => by simp only [first]; split; rfl; exact first_start l
  | .sub l _ => by simp only [first]; split; rfl; exact first_start l
  | .bin _ l _ => by simp only [first]; split; rfl; exact first_start l
  | .dstar l _ => by simp only [first]; split; rfl; exact first_start l
  | .bstar l _ => by simp only [first]; split; rfl; exact first_start l
  | .flat l _ => by simp only [first]; split; rfl; exact first_start l
  | .slice l _ _ => by simp only [first]; split; rfl; exact first_start l
  | .filt l _ _ => by simp only [first]; split; rfl; exact first_start l

def HeadOK (l : List Token) : Prop := ∃ t ts, l = t :: ts ∧ startTy t.ty = true

omit [NumOps N] in
theorem ppE_start (e : PE N) : HeadOK (ppE e) := by
  obtain ⟨t, ts, h, ht⟩ := ppE_first e
  exact ⟨t, ts, h, by rw [ht]; exact first_start e⟩

theorem start_ne {t : Token} (h : startTy t.ty = true) :
    t.ty ≠ .expref ∧ t.ty ≠ .rparen ∧ t.ty ≠ .number ∧ t.ty ≠ .colon ∧ t.ty ≠ .rbracket ∧ t.ty ≠ .comma := by
  cases hh : t.ty <;> simp [hh, startTy] at h ⊢

/-! ### the right-hand side of a dot -/

def GoodDot (e : PE N) : Prop :=
  wf e → ∀ (bp : Nat) (allowStar : Bool), dotOK bp allowStar e = true → ∀ (bef rest : List Token),
    (∃ t rest', rest = t :: rest' ∧ specPow t.ty ≤ (if e.isListOrHash then 59 else min bp e.rp)) →
    R T (.dot bp ⟨bef, ppE e ++ rest⟩) (.node (node e) ⟨(ppE e).reverse ++ bef, rest⟩)

/-- a dot right-hand side that is not a list or hash: an expression read at level `bp` -/
theorem dot_of_good {e : PE N} (ge : GoodE e) (hnl : e.isListOrHash = false) : GoodDot e := by
  intro hw bp allowStar hd bef rest hf
  obtain ⟨t, rest', rfl, ht⟩ := hf
  simp only [hnl, Bool.false_eq_true, if_false] at ht
  simp only [dotOK, hnl, Bool.false_or, Bool.and_eq_true, Bool.or_eq_true, beq_iff_eq, decide_eq_true_eq] at hd
  obtain ⟨hfirst, hlev⟩ := hd
  obtain ⟨t0, ts0, hs, hty⟩ := ppE_first e
  have hx := operand_expr ge hw false bp bef t rest' (fun _ => ⟨hlev, by omega⟩) (by omega)
  simp only [wrapIf] at hx
  rcases hfirst with (h | h) | ⟨_, h⟩
  · exact R.dotIdent (t := t0) (rest := ts0 ++ t :: rest') (by simp [hs]) (Or.inr (hty.trans h)) hx
  · exact R.dotIdent (t := t0) (rest := ts0 ++ t :: rest') (by simp [hs]) (Or.inl (hty.trans h)) hx
  · exact R.dotStar (t := t0) (rest := ts0 ++ t :: rest') (by simp [hs]) (hty.trans h) hx

/-- `l.r` -/
theorem good_sub {l r : PE N} (gl : GoodE l) (gr : GoodDot r) : GoodE (.sub l r) := by
  intro hw k bef rest o hk hf hloop
  have ⟨hd, hwl, hwr⟩ : dotOK 40 false r = true ∧ wf l ∧ wf r := by simpa [wf] using hw
  have hk40 : k < 40 := by simpa [PE.level] using hk
  obtain ⟨t, rest', rfl, ht⟩ := hf
  have e1 : ppE (.sub l r) = wrapIf (decide (l.rp < 40)) (ppE l) ++ tk .dot :: ppE r := by
    simp [ppE, wrapIf]
  rw [e1] at hloop ⊢
  rw [List.append_assoc]
  refine left_operand gl hwl 40 k hk40 (tk .dot) rfl bef _ o ?_
  generalize decide (l.rp < 40) = cl at hloop ⊢
  obtain ⟨t0, ts0, hs, hty⟩ := ppE_first r
  have hns : t0.ty ≠ .star := by
    rw [hty]
    simp only [dotOK, Bool.or_eq_true, Bool.and_eq_true, beq_iff_eq, Bool.false_eq_true, false_and, or_false] at hd
    rcases hd with h | ⟨h | h, _⟩
    · cases r <;> simp [PE.isListOrHash] at h <;> simp [first]
    · rw [h]; simp
    · rw [h]; simp
  have hdot := gr hwr 40 false hd (tk .dot :: ((wrapIf cl (ppE l)).reverse ++ bef)) (t :: rest') ⟨t, rest', rfl, by
    simp only [PE.rp] at ht
    split at ht <;> rename_i h <;> simp only [h, if_true, Bool.false_eq_true, if_false] <;> omega⟩
  have hled : R T (.led (tk .dot).ty (node l) (⟨(wrapIf cl (ppE l)).reverse ++ bef, tk .dot :: ppE r ++ t :: rest'⟩ : PState).advance)
      (.node (.sub (node l) (node r)) ⟨(ppE r).reverse ++ tk .dot :: ((wrapIf cl (ppE l)).reverse ++ bef), t :: rest'⟩) := by
    rw [advance_cons_append]
    exact R.ledDot (t := t0) (rest := ts0 ++ t :: rest') (by simp [hs]) hns hdot
  refine R.step (t := tk .dot) (rest := ppE r ++ t :: rest') (by simp) (by rw [T_power]; simpa [specPow] using hk40) hled ?_
  simpa [node, List.reverse_append] using hloop

theorem ty_comma : specPow (tk .comma).ty = 0 := rfl

/-- the elements of a multi-select list -/
theorem msl_list : ∀ (xs : List (PE N)) (x : PE N), GoodE x → GoodList xs → wf x → wfList xs →
    ∀ (acc : List (Node N)) (bef rest : List Token),
    R T (.msl ⟨bef, ppE x ++ (ppTail xs ++ tk .rbracket :: rest)⟩ acc)
      (.node (.msList (acc.reverse ++ node x :: nodeList xs))
        ⟨tk .rbracket :: ((ppTail xs).reverse ++ ((ppE x).reverse ++ bef)), rest⟩)
  | [], x, gx, _, hx, _, acc, bef, rest => by
    have h := elem_expr gx hx bef (tk .rbracket) rest rfl
    have := R.mslLast (tbl := T) (acc := acc) (t := tk .rbracket) (rest := rest) h rfl rfl
    simpa [ppTail, nodeList, advance_cons] using this
  | y :: ys, x, gx, gl, hx, hl, acc, bef, rest => by
    have h := elem_expr gx hx bef (tk .comma) (ppE y ++ (ppTail ys ++ tk .rbracket :: rest)) rfl
    have ih := msl_list ys y gl.1 gl.2 hl.1 hl.2 (node x :: acc) (tk .comma :: ((ppE x).reverse ++ bef)) rest
    have := R.mslMore (tbl := T) (acc := acc) (t := tk .comma) (rest := ppE y ++ (ppTail ys ++ tk .rbracket :: rest)) h rfl rfl
      (by rw [advance_cons]; exact ih)
    simpa [ppTail, nodeList, List.reverse_append] using this

theorem keyTok_ty (q : Bool) (k : Bytes) : ((keyTok q k).ty = .uident ∨ (keyTok q k).ty = .qident) ∧ (keyTok q k).value = k := by
  cases q <;> simp [keyTok]

/-- the pairs of a multi-select hash -/
theorem msh_list : ∀ (kvs : List (Bool × Bytes × PE N)) (q : Bool) (k : Bytes) (v : PE N),
    GoodE v → GoodKVs kvs → wf v → wfKVs kvs →
    ∀ (acc : List (Bytes × Node N)) (bef rest : List Token),
    R T (.msh ⟨bef, keyTok q k :: tk .colon :: (ppE v ++ (ppKVs kvs ++ tk .rbrace :: rest))⟩ acc)
      (.node (.msHash (acc.reverse ++ (k, node v) :: nodeKVs kvs))
        ⟨tk .rbrace :: ((ppKVs kvs).reverse ++ ((ppE v).reverse ++ (tk .colon :: keyTok q k :: bef))), rest⟩)
  | [], q, k, v, gv, _, hv, _, acc, bef, rest => by
    have h := elem_expr gv hv (tk .colon :: keyTok q k :: bef) (tk .rbrace) rest rfl
    have := R.mshLast (tbl := T) (acc := acc) (p := ⟨bef, keyTok q k :: tk .colon :: (ppE v ++ tk .rbrace :: rest)⟩)
      (t := tk .rbrace) (rest := rest) rfl (keyTok_ty q k).1 rfl h rfl rfl
    simpa [ppKVs, nodeKVs, advance_cons, (keyTok_ty q k).2] using this
  | (q', k', v') :: more, q, k, v, gv, gl, hv, hl, acc, bef, rest => by
    have h := elem_expr gv hv (tk .colon :: keyTok q k :: bef) (tk .comma)
      (keyTok q' k' :: tk .colon :: (ppE v' ++ (ppKVs more ++ tk .rbrace :: rest))) rfl
    have ih := msh_list more q' k' v' gl.1 gl.2 hl.1 hl.2 ((k, node v) :: acc)
      (tk .comma :: ((ppE v).reverse ++ (tk .colon :: keyTok q k :: bef))) rest
    have := R.mshMore (tbl := T) (acc := acc)
      (p := ⟨bef, keyTok q k :: tk .colon :: (ppE v ++ tk .comma :: keyTok q' k' :: tk .colon :: (ppE v' ++ (ppKVs more ++ tk .rbrace :: rest)))⟩)
      (t := tk .comma) rfl (keyTok_ty q k).1 rfl h rfl rfl (by rw [advance_cons, (keyTok_ty q k).2]; exact ih)
    simpa [ppKVs, nodeKVs, List.reverse_append] using this

def refTok (b : Bool) : List Token := if b then [tk .expref] else []

theorem ppArgs_cons (b : Bool) (e : PE N) (a : Bool × PE N) (as : List (Bool × PE N)) :
    ppArgs ((b, e) :: a :: as) = refTok b ++ (ppE e ++ tk .comma :: ppArgs (a :: as)) := by
  simp [ppArgs, refTok]

theorem ppArgs_one (b : Bool) (e : PE N) : ppArgs [(b, e)] = refTok b ++ ppE e := by
  simp [ppArgs, refTok]

/-- a non-empty argument list starts with `&` or with the start of an expression -/
theorem ppArgs_start (a : Bool × PE N) (as : List (Bool × PE N)) (rest : List Token) :
    ∃ t ts, ppArgs (a :: as) ++ rest = t :: ts ∧ t.ty ≠ .rparen := by
  obtain ⟨b, e⟩ := a
  obtain ⟨t, ts, h, ht⟩ := ppE_start e
  cases b with
  | true => cases as with
    | nil => exact ⟨tk .expref, ppE e ++ rest, by simp [ppArgs_one, refTok], by simp⟩
    | cons a as => exact ⟨tk .expref, ppE e ++ tk .comma :: (ppArgs (a :: as) ++ rest), by simp [ppArgs_cons, refTok], by simp⟩
  | false => cases as with
    | nil => exact ⟨t, ts ++ rest, by simp [ppArgs_one, refTok, h], (start_ne ht).2.1⟩
    | cons a as => exact ⟨t, ts ++ tk .comma :: (ppArgs (a :: as) ++ rest), by simp [ppArgs_cons, refTok, h], (start_ne ht).2.1⟩

/-- one argument up to the token `t` (a comma or the closing parenthesis) -/
theorem arg_expr (b : Bool) {e : PE N} (ge : GoodE e) (hw : wf e) (bef : List Token) (t : Token)
    (rest' : List Token) (ht : specPow t.ty = 0) :
    ∃ t0 rest0, refTok b ++ (ppE e ++ t :: rest') = t0 :: rest0 ∧ (t0.ty = .expref ↔ b = true) ∧
      R T (.expr 0 (if b then (⟨bef, refTok b ++ (ppE e ++ t :: rest')⟩ : PState).advance else ⟨bef, refTok b ++ (ppE e ++ t :: rest')⟩))
        (.node (node e) ⟨(ppE e).reverse ++ ((refTok b).reverse ++ bef), t :: rest'⟩) := by
  obtain ⟨t1, ts1, h1, hs1⟩ := ppE_start e
  cases b with
  | true =>
    refine ⟨tk .expref, ppE e ++ t :: rest', by simp [refTok], by simp, ?_⟩
    have := elem_expr ge hw (tk .expref :: bef) t rest' ht
    simpa [refTok, advance_cons] using this
  | false =>
    refine ⟨t1, ts1 ++ t :: rest', by simp [refTok, h1], by simpa using (start_ne hs1).1, ?_⟩
    have := elem_expr ge hw bef t rest' ht
    simpa [refTok] using this

/-- the arguments of a call -/
theorem args_list : ∀ (as : List (Bool × PE N)) (a : Bool × PE N), GoodE a.2 → GoodArgs as → wf a.2 → wfArgs as →
    ∀ (bef rest : List Token),
    R T (.args ⟨bef, ppArgs (a :: as) ++ tk .rparen :: rest⟩)
      (.args (nodeArgs (a :: as)) ⟨(ppArgs (a :: as)).reverse ++ bef, tk .rparen :: rest⟩)
  | [], (b, e), ge, _, hw, _, bef, rest => by
    obtain ⟨t0, rest0, h0, hb, hx⟩ := arg_expr b (e := e) ge hw bef (tk .rparen) rest rfl
    rw [ppArgs_one, List.append_assoc]
    cases b with
    | true =>
      simp only [↓reduceIte] at hx
      have := R.argRefLast (tbl := T) (t := tk .rparen) (rest := rest) h0 (hb.mpr rfl) hx rfl rfl
      simpa [nodeArgs, List.reverse_append] using this
    | false =>
      simp only [Bool.false_eq_true, ↓reduceIte] at hx
      have := R.argPlainLast (tbl := T) (t := tk .rparen) (rest := rest) h0 (by simpa using hb) hx rfl rfl
      simpa [nodeArgs, List.reverse_append] using this
  | a2 :: as, (b, e), ge, gl, hw, hl, bef, rest => by
    obtain ⟨t0, rest0, h0, hb, hx⟩ := arg_expr b (e := e) ge hw bef (tk .comma) (ppArgs (a2 :: as) ++ tk .rparen :: rest) rfl
    have ih := args_list as a2 gl.1 gl.2 hl.1 hl.2 (tk .comma :: ((ppE e).reverse ++ ((refTok b).reverse ++ bef))) rest
    obtain ⟨t2, rest2, h2, hn2⟩ := ppArgs_start a2 as (tk .rparen :: rest)
    rw [ppArgs_cons]
    simp only [List.append_assoc, List.cons_append]
    cases b with
    | true =>
      simp only [↓reduceIte] at hx
      have := R.argRefMore (tbl := T) (t := tk .comma) (rest := ppArgs (a2 :: as) ++ tk .rparen :: rest) h0 (hb.mpr rfl)
        hx rfl rfl (t2 := t2) (rest2 := rest2) (by rw [advance_cons]; exact h2) hn2 (by rw [advance_cons]; exact ih)
      simpa [nodeArgs, List.reverse_append, ppArgs_cons] using this
    | false =>
      simp only [Bool.false_eq_true, ↓reduceIte] at hx
      have := R.argPlainMore (tbl := T) (t := tk .comma) (rest := ppArgs (a2 :: as) ++ tk .rparen :: rest) h0 (by simpa using hb)
        hx rfl rfl (t2 := t2) (rest2 := rest2) (by rw [advance_cons]; exact h2) hn2 (by rw [advance_cons]; exact ih)
      simpa [nodeArgs, List.reverse_append, ppArgs_cons] using this

/-- `name(args)` -/
theorem good_call (n : Bytes) {args : List (Bool × PE N)} (ga : GoodArgs args) : GoodE (.call n args) := by
  intro hw k bef rest o hk _ hloop
  have hwa : wfArgs args := by simpa [wf] using hw
  have hk60 : k < 60 := by simpa [PE.level] using hk
  have hn : R T (.nud (tk .uident n) (⟨bef, tk .uident n :: tk .lparen :: (ppArgs args ++ tk .rparen :: rest)⟩ : PState).advance)
      (.node (N := N) (.field n) ⟨tk .uident n :: bef, tk .lparen :: (ppArgs args ++ tk .rparen :: rest)⟩) := by
    have := R.nudIdent (tbl := T) (N := N) (tok := tk .uident n) (p := ⟨tk .uident n :: bef, tk .lparen :: (ppArgs args ++ tk .rparen :: rest)⟩) rfl
    simpa [advance_cons] using this
  have e1 : ppE (.call n args) ++ rest = tk .uident n :: tk .lparen :: (ppArgs args ++ tk .rparen :: rest) := by
    simp [ppE]
  rw [e1]
  refine R.expr (tok := tk .uident n) rfl hn ?_
  have hled : R T (.led (tk .lparen).ty (.field n) (⟨tk .uident n :: bef, tk .lparen :: (ppArgs args ++ tk .rparen :: rest)⟩ : PState).advance)
      (.node (.call n (nodeArgs args)) ⟨tk .rparen :: ((ppArgs args).reverse ++ (tk .lparen :: tk .uident n :: bef)), rest⟩) := by
    rw [advance_cons]
    cases args with
    | nil =>
      have := R.ledCall0 (tbl := T) (N := N) (name := n) (p := ⟨tk .lparen :: tk .uident n :: bef, tk .rparen :: rest⟩)
        (t := tk .rparen) (rest := rest) rfl rfl rfl rfl
      simpa [ppArgs, nodeArgs, advance_cons] using this
    | cons a as =>
      obtain ⟨t0, rest0, h0, hn0⟩ := ppArgs_start a as (tk .rparen :: rest)
      have ha := args_list as a ga.1 ga.2 hwa.1 hwa.2 (tk .lparen :: tk .uident n :: bef) rest
      have := R.ledCall (tbl := T) (name := n) (p := ⟨tk .lparen :: tk .uident n :: bef, ppArgs (a :: as) ++ tk .rparen :: rest⟩)
        (t := tk .rparen) (rest := rest) rfl rfl h0 hn0 ha rfl rfl
      simpa [advance_cons] using this
  refine R.step (t := tk .lparen) (rest := ppArgs args ++ tk .rparen :: rest) rfl (by rw [T_power]; simpa [specPow] using hk60) hled ?_
  simpa [ppE, node, List.reverse_append] using hloop

/-- `[x, …]` -/
theorem good_list {x : PE N} {xs : List (PE N)} (gx : GoodE x) (gl : GoodList xs) : GoodE (.list x xs) := by
  intro hw k bef rest o _ _ hloop
  have ⟨hfs, hx, hxs⟩ : first x ≠ .star ∧ wf x ∧ wfList xs := by simpa [wf] using hw
  obtain ⟨t0, ts0, h0, hty0⟩ := ppE_first x
  have hs0 : startTy t0.ty = true := by rw [hty0]; exact first_start x
  have hm := msl_list xs x gx gl hx hxs [] (tk .lbracket :: bef) rest
  have e1 : ppE (.list x xs) ++ rest = tk .lbracket :: (ppE x ++ (ppTail xs ++ tk .rbracket :: rest)) := by
    simp [ppE]
  rw [e1]
  have hn : R T (.nud (tk .lbracket) (⟨bef, tk .lbracket :: (ppE x ++ (ppTail xs ++ tk .rbracket :: rest))⟩ : PState).advance)
      (.node (node (.list x xs)) ⟨tk .rbracket :: ((ppTail xs).reverse ++ ((ppE x).reverse ++ (tk .lbracket :: bef))), rest⟩) := by
    rw [advance_cons]
    have hne := start_ne hs0
    have hstar : t0.ty ≠ .star := by rw [hty0]; exact hfs
    refine R.nudList (t := t0) (rest := ts0 ++ (ppTail xs ++ tk .rbracket :: rest)) rfl (by simp [h0]) hne.2.2.1 hne.2.2.2.1 hstar ?_
    simpa [node] using hm
  refine R.expr (tok := tk .lbracket) rfl hn ?_
  simpa [ppE, List.reverse_append] using hloop

/-- `{k: v, …}` -/
theorem good_hash (q : Bool) (k : Bytes) {v : PE N} {kvs : List (Bool × Bytes × PE N)} (gv : GoodE v) (gl : GoodKVs kvs) :
    GoodE (.hash q k v kvs) := by
  intro hw lvl bef rest o _ _ hloop
  have ⟨hv, hkvs⟩ : wf v ∧ wfKVs kvs := by simpa [wf] using hw
  have hm := msh_list kvs q k v gv gl hv hkvs [] (tk .lbrace :: bef) rest
  have e1 : ppE (.hash q k v kvs) ++ rest = tk .lbrace :: keyTok q k :: tk .colon :: (ppE v ++ (ppKVs kvs ++ tk .rbrace :: rest)) := by
    simp [ppE]
  rw [e1]
  have hn : R T (.nud (tk .lbrace) (⟨bef, tk .lbrace :: keyTok q k :: tk .colon :: (ppE v ++ (ppKVs kvs ++ tk .rbrace :: rest))⟩ : PState).advance)
      (.node (node (.hash q k v kvs)) ⟨tk .rbrace :: ((ppKVs kvs).reverse ++ ((ppE v).reverse ++ (tk .colon :: keyTok q k :: tk .lbrace :: bef))), rest⟩) := by
    rw [advance_cons]
    refine R.nudHash rfl ?_
    simpa [node] using hm
  refine R.expr (tok := tk .lbrace) rfl hn ?_
  simpa [ppE, List.reverse_append] using hloop

theorem dot_list {x : PE N} {xs : List (PE N)} (gx : GoodE x) (gl : GoodList xs) : GoodDot (.list x xs) := by
  intro hw bp _ _ bef rest _
  have ⟨_, hx, hxs⟩ : first x ≠ .star ∧ wf x ∧ wfList xs := by simpa [wf] using hw
  have hm := msl_list xs x gx gl hx hxs [] (tk .lbracket :: bef) rest
  have e1 : ppE (.list x xs) ++ rest = tk .lbracket :: (ppE x ++ (ppTail xs ++ tk .rbracket :: rest)) := by
    simp [ppE]
  rw [e1]
  refine R.dotList (t := tk .lbracket) rfl rfl ?_
  rw [advance_cons]
  simpa [ppE, node, List.reverse_append] using hm

theorem dot_hash (q : Bool) (k : Bytes) {v : PE N} {kvs : List (Bool × Bytes × PE N)} (gv : GoodE v) (gl : GoodKVs kvs) :
    GoodDot (.hash q k v kvs) := by
  intro hw bp _ _ bef rest _
  have ⟨hv, hkvs⟩ : wf v ∧ wfKVs kvs := by simpa [wf] using hw
  have hm := msh_list kvs q k v gv gl hv hkvs [] (tk .lbrace :: bef) rest
  have e1 : ppE (.hash q k v kvs) ++ rest = tk .lbrace :: keyTok q k :: tk .colon :: (ppE v ++ (ppKVs kvs ++ tk .rbrace :: rest)) := by
    simp [ppE]
  rw [e1]
  refine R.dotHash (t := tk .lbrace) rfl rfl ?_
  rw [advance_cons]
  simpa [ppE, node, List.reverse_append] using hm

/-! ### slices -/

theorem parseIndex_slice (s : SliceTxt) (hw : wfSlice s) (bef rest : List Token) :
    parseIndexExpression (N := N) ⟨bef, s.toks ++ tk .rbracket :: rest⟩ =
      .ok (s.node, ⟨tk .rbracket :: (s.toks.reverse ++ bef), rest⟩) := by
  obtain ⟨a, b, c⟩ := s
  obtain ⟨ha, hb, hc⟩ := hw
  cases a with
  | none =>
    cases b with
    | none =>
      cases c with
      | none =>
        simp [SliceTxt.toks, numTok, parseIndexExpression, parseSliceExpression, sliceLoop, PState.cur, PState.look1, PState.curTok,
          PState.advance, PState.expect, bind, Res.bind, SliceTxt.node]
      | some c =>
        obtain ⟨tc, ic⟩ := c
        simp only [wfNum] at hc
        simp [SliceTxt.toks, numTok, parseIndexExpression, parseSliceExpression, sliceLoop, PState.cur, PState.look1, PState.curTok,
          PState.advance, PState.expect, bind, Res.bind, SliceTxt.node, hc]
    | some b =>
      obtain ⟨tb, ib⟩ := b
      simp only [wfNum] at hb
      cases c with
      | none =>
        simp [SliceTxt.toks, numTok, parseIndexExpression, parseSliceExpression, sliceLoop, PState.cur, PState.look1, PState.curTok,
          PState.advance, PState.expect, bind, Res.bind, SliceTxt.node, hb]
      | some c =>
        obtain ⟨tc, ic⟩ := c
        simp only [wfNum] at hc
        simp [SliceTxt.toks, numTok, parseIndexExpression, parseSliceExpression, sliceLoop, PState.cur, PState.look1, PState.curTok,
          PState.advance, PState.expect, bind, Res.bind, SliceTxt.node, hb, hc]
  | some a =>
    obtain ⟨ta, ia⟩ := a
    simp only [wfNum] at ha
    cases b with
    | none =>
      cases c with
      | none =>
        simp [SliceTxt.toks, numTok, parseIndexExpression, parseSliceExpression, sliceLoop, PState.cur, PState.look1, PState.curTok,
          PState.advance, PState.expect, bind, Res.bind, SliceTxt.node, ha]
      | some c =>
        obtain ⟨tc, ic⟩ := c
        simp only [wfNum] at hc
        simp [SliceTxt.toks, numTok, parseIndexExpression, parseSliceExpression, sliceLoop, PState.cur, PState.look1, PState.curTok,
          PState.advance, PState.expect, bind, Res.bind, SliceTxt.node, ha, hc]
    | some b =>
      obtain ⟨tb, ib⟩ := b
      simp only [wfNum] at hb
      cases c with
      | none =>
        simp [SliceTxt.toks, numTok, parseIndexExpression, parseSliceExpression, sliceLoop, PState.cur, PState.look1, PState.curTok,
          PState.advance, PState.expect, bind, Res.bind, SliceTxt.node, ha, hb]
      | some c =>
        obtain ⟨tc, ic⟩ := c
        simp only [wfNum] at hc
        simp [SliceTxt.toks, numTok, parseIndexExpression, parseSliceExpression, sliceLoop, PState.cur, PState.look1, PState.curTok,
          PState.advance, PState.expect, bind, Res.bind, SliceTxt.node, ha, hb, hc]

/-! ### projections -/

def FollowRhs (r : Rhs N) (bp : Nat) (rest : List Token) : Prop := ∃ t rest', rest = t :: rest' ∧ specPow t.ty ≤ r.rp bp

/-- The right-hand side of a projection, read by parseProjectionRHS at level `bp`. -/
def GoodRhs (r : Rhs N) : Prop :=
  ∀ bp, wfRhs bp r → ∀ (bef rest : List Token), FollowRhs r bp rest →
    R T (.prhs bp ⟨bef, ppRhs r ++ rest⟩) (.node (nodeRhs r) ⟨(ppRhs r).reverse ++ bef, rest⟩)

theorem good_rhs_none : GoodRhs (N := N) .none := by
  intro bp _ bef rest hf
  obtain ⟨t, rest', rfl, ht⟩ := hf
  simp only [Rhs.rp] at ht
  have := R.prhsId (tbl := T) (N := N) (bp := bp) (p := ⟨bef, t :: rest'⟩) (t := t) (rest := rest') rfl
    (by rw [T_power]; show specPow t.ty < 10; omega)
  simpa [ppRhs, nodeRhs] using this

theorem good_rhs_dot {e : PE N} (gd : GoodDot e) : GoodRhs (.dot e) := by
  intro bp hw bef rest hf
  obtain ⟨t, rest', rfl, ht⟩ := hf
  have ⟨hd, hwe⟩ : dotOK bp true e = true ∧ wf e := by simpa [wfRhs] using hw
  have hdot := gd hwe bp true hd (tk .dot :: bef) (t :: rest') ⟨t, rest', rfl, by simpa [Rhs.rp] using ht⟩
  have := R.prhsDot (tbl := T) (N := N) (bp := bp) (p := ⟨bef, tk .dot :: (ppE e ++ t :: rest')⟩) (t := tk .dot)
    (rest := ppE e ++ t :: rest') rfl (by rw [T_power]; show ¬ (40 < 10); omega) rfl (by rw [advance_cons]; exact hdot)
  simpa [ppRhs, nodeRhs] using this

theorem good_rhs_br {e : PE N} (ge : GoodE e) : GoodRhs (.br e) := by
  intro bp hw bef rest hf
  obtain ⟨t, rest', rfl, ht⟩ := hf
  have ⟨hb, hwe⟩ : brOK bp e = true ∧ wf e := by simpa [wfRhs] using hw
  simp only [brOK, Bool.and_eq_true, Bool.or_eq_true, beq_iff_eq, decide_eq_true_eq] at hb
  obtain ⟨hfirst, hlev⟩ := hb
  simp only [Rhs.rp] at ht
  obtain ⟨t0, ts0, hs, hty⟩ := ppE_first e
  have hx := operand_expr ge hwe false bp bef t rest' (fun _ => ⟨hlev, by omega⟩) (by omega)
  simp only [wrapIf] at hx
  have hnlt : ¬ T.power t0.ty < T.projStop := by
    rw [T_power, hty]; show ¬ (specPow (first e) < 10)
    rcases hfirst with h | h <;> rw [h] <;> simp [specPow]
  have := R.prhsBracket (tbl := T) (N := N) (bp := bp) (p := ⟨bef, ppE e ++ t :: rest'⟩) (t := t0) (rest := ts0 ++ t :: rest')
    (by simp [hs]) hnlt (by rw [hty]; exact hfirst) hx
  simpa [ppRhs, nodeRhs] using this

/-- `l[*] rhs` -/
theorem good_bstar {l : PE N} {r : Rhs N} (gl : GoodE l) (gr : GoodRhs r) : GoodE (.bstar l r) := by
  intro hw k bef rest o hk hf hloop
  have ⟨hwl, hwr⟩ : wf l ∧ wfRhs 20 r := by simpa [wf] using hw
  have hk55 : k < 55 := by simpa [PE.level] using hk
  obtain ⟨t, rest', rfl, ht⟩ := hf
  simp only [PE.rp] at ht
  have e1 : ppE (.bstar l r) = wrapIf (decide (l.rp < 55)) (ppE l) ++ (tk .lbracket :: tk .star :: tk .rbracket :: ppRhs r) := by
    simp [ppE, wrapIf]
  rw [e1] at hloop ⊢
  rw [List.append_assoc]
  refine left_operand gl hwl 55 k hk55 (tk .lbracket) rfl bef _ o ?_
  generalize decide (l.rp < 55) = cl at hloop ⊢
  have hrhs := gr 20 hwr (tk .rbracket :: tk .star :: tk .lbracket :: ((wrapIf cl (ppE l)).reverse ++ bef)) (t :: rest')
    ⟨t, rest', rfl, by omega⟩
  have hled := R.ledBracketStar (tbl := T) (n := node l)
    (p := ⟨tk .lbracket :: ((wrapIf cl (ppE l)).reverse ++ bef), tk .star :: tk .rbracket :: (ppRhs r ++ t :: rest')⟩)
    (s := tk .star) (rb := tk .rbracket) rfl rfl rfl hrhs
  refine R.step (t := tk .lbracket) (rest := tk .star :: tk .rbracket :: (ppRhs r ++ t :: rest')) (by simp)
    (by rw [T_power]; simpa [specPow] using hk55) (by simpa [advance_cons] using hled) ?_
  simpa [node, List.reverse_append] using hloop

/-- `[*] rhs` -/
theorem good_bstar0 {r : Rhs N} (gr : GoodRhs r) : GoodE (.bstar0 r) := by
  intro hw k bef rest o _ hf hloop
  have hwr : wfRhs 20 r := by simpa [wf] using hw
  obtain ⟨t, rest', rfl, ht⟩ := hf
  simp only [PE.rp] at ht
  have hrhs := gr 20 hwr (tk .rbracket :: tk .star :: tk .lbracket :: bef) (t :: rest') ⟨t, rest', rfl, by omega⟩
  have hn := R.nudBracketStar (tbl := T) (tok := tk .lbracket)
    (p := ⟨tk .lbracket :: bef, tk .star :: tk .rbracket :: (ppRhs r ++ t :: rest')⟩)
    (s := tk .star) (rb := tk .rbracket) rfl rfl rfl rfl hrhs
  have e1 : ppE (.bstar0 r) ++ t :: rest' = tk .lbracket :: tk .star :: tk .rbracket :: (ppRhs r ++ t :: rest') := by simp [ppE]
  rw [e1]
  refine R.expr (tok := tk .lbracket) rfl (by simpa [advance_cons] using hn) ?_
  simpa [ppE, node, List.reverse_append] using hloop

/-- `l[] rhs` -/
theorem good_flat {l : PE N} {r : Rhs N} (gl : GoodE l) (gr : GoodRhs r) : GoodE (.flat l r) := by
  intro hw k bef rest o hk hf hloop
  have ⟨hwl, hwr⟩ : wf l ∧ wfRhs 9 r := by simpa [wf] using hw
  have hk9 : k < 9 := by simpa [PE.level] using hk
  obtain ⟨t, rest', rfl, ht⟩ := hf
  simp only [PE.rp] at ht
  have e1 : ppE (.flat l r) = wrapIf (decide (l.rp < 9)) (ppE l) ++ (tk .flatten :: ppRhs r) := by
    simp [ppE, wrapIf]
  rw [e1] at hloop ⊢
  rw [List.append_assoc]
  refine left_operand gl hwl 9 k hk9 (tk .flatten) rfl bef _ o ?_
  generalize decide (l.rp < 9) = cl at hloop ⊢
  have hrhs := gr 9 hwr (tk .flatten :: ((wrapIf cl (ppE l)).reverse ++ bef)) (t :: rest') ⟨t, rest', rfl, by omega⟩
  have hled := R.ledFlatten (tbl := T) (n := node l) hrhs
  refine R.step (t := tk .flatten) (rest := ppRhs r ++ t :: rest') (by simp)
    (by rw [T_power]; simpa [specPow] using hk9) (by simpa [advance_cons] using hled) ?_
  simpa [node, List.reverse_append] using hloop

/-- `[] rhs` -/
theorem good_flat0 {r : Rhs N} (gr : GoodRhs r) : GoodE (.flat0 r) := by
  intro hw k bef rest o _ hf hloop
  have hwr : wfRhs 9 r := by simpa [wf] using hw
  obtain ⟨t, rest', rfl, ht⟩ := hf
  simp only [PE.rp] at ht
  have hrhs := gr 9 hwr (tk .flatten :: bef) (t :: rest') ⟨t, rest', rfl, by omega⟩
  have hn := R.nudFlatten (tbl := T) (tok := tk .flatten) rfl hrhs
  have e1 : ppE (.flat0 r) ++ t :: rest' = tk .flatten :: (ppRhs r ++ t :: rest') := by simp [ppE]
  rw [e1]
  refine R.expr (tok := tk .flatten) rfl (by simpa [advance_cons] using hn) ?_
  simpa [ppE, node, List.reverse_append] using hloop

/-- `l.* rhs` -/
theorem good_dstar {l : PE N} {r : Rhs N} (gl : GoodE l) (gr : GoodRhs r) : GoodE (.dstar l r) := by
  intro hw k bef rest o hk hf hloop
  have ⟨hwl, hwr⟩ : wf l ∧ wfRhs 20 r := by simpa [wf] using hw
  have hk40 : k < 40 := by simpa [PE.level] using hk
  obtain ⟨t, rest', rfl, ht⟩ := hf
  simp only [PE.rp] at ht
  have e1 : ppE (.dstar l r) = wrapIf (decide (l.rp < 40)) (ppE l) ++ (tk .dot :: tk .star :: ppRhs r) := by
    simp [ppE, wrapIf]
  rw [e1] at hloop ⊢
  rw [List.append_assoc]
  refine left_operand gl hwl 40 k hk40 (tk .dot) rfl bef _ o ?_
  generalize decide (l.rp < 40) = cl at hloop ⊢
  have hrhs := gr 20 hwr (tk .star :: tk .dot :: ((wrapIf cl (ppE l)).reverse ++ bef)) (t :: rest') ⟨t, rest', rfl, by omega⟩
  have hled := R.ledDotStar (tbl := T) (n := node l)
    (p := ⟨tk .dot :: ((wrapIf cl (ppE l)).reverse ++ bef), tk .star :: (ppRhs r ++ t :: rest')⟩) (t := tk .star) rfl rfl hrhs
  refine R.step (t := tk .dot) (rest := tk .star :: (ppRhs r ++ t :: rest')) (by simp)
    (by rw [T_power]; simpa [specPow] using hk40) (by simpa [advance_cons] using hled) ?_
  simpa [node, List.reverse_append] using hloop

omit [NumOps N] in
theorem ppRhs_head (r : Rhs N) (hne : ppRhs r ≠ []) : ∃ t ts, ppRhs r = t :: ts ∧ startTy t.ty = true ∨ ∃ ts, ppRhs r = tk .dot :: ts := by
  cases r with
  | none => exact absurd rfl hne
  | dot e => exact ⟨tk .dot, [], Or.inr ⟨ppE e, rfl⟩⟩
  | br e =>
    obtain ⟨t, ts, h, ht⟩ := ppE_start e
    exact ⟨t, ts, Or.inl ⟨h, ht⟩⟩

/-- `* rhs` -/
theorem good_star0 {r : Rhs N} (gr : GoodRhs r) : GoodE (.star0 r) := by
  intro hw k bef rest o _ hf hloop
  have hwr : wfRhs 20 r := by simpa [wf] using hw
  obtain ⟨t, rest', rfl, ht⟩ := hf
  simp only [PE.rp] at ht
  have e1 : ppE (.star0 r) ++ t :: rest' = tk .star :: (ppRhs r ++ t :: rest') := by simp [ppE]
  rw [e1]
  have hrhs := gr 20 hwr (tk .star :: bef) (t :: rest') ⟨t, rest', rfl, by omega⟩
  -- the token after `*`
  have hnext : ∃ t1 ts1, ppRhs r ++ t :: rest' = t1 :: ts1 ∧ (t1.ty = .rbracket → r = .none) := by
    cases r with
    | none => exact ⟨t, rest', by simp [ppRhs], fun _ => rfl⟩
    | dot e => exact ⟨tk .dot, ppE e ++ t :: rest', by simp [ppRhs], fun h => by cases h⟩
    | br e =>
      obtain ⟨t0, ts0, h0, hs0⟩ := ppE_start e
      exact ⟨t0, ts0 ++ t :: rest', by simp [ppRhs, h0], fun h => absurd h (start_ne hs0).2.2.2.2.1⟩
  obtain ⟨t1, ts1, h1, hrb⟩ := hnext
  by_cases hb : t1.ty = .rbracket
  · have := hrb hb; subst this
    simp only [ppRhs, List.nil_append, List.cons.injEq] at h1
    obtain ⟨rfl, rfl⟩ := h1
    have hn := R.nudStarR (tbl := T) (N := N) (tok := tk .star) (p := ⟨tk .star :: bef, t :: rest'⟩) (t := t) (rest := rest') rfl rfl hb
    refine R.expr (tok := tk .star) rfl (by simpa [advance_cons, ppRhs] using hn) ?_
    simpa [ppE, node, nodeRhs, ppRhs] using hloop
  · have hn := R.nudStar (tbl := T) (N := N) (tok := tk .star) (p := ⟨tk .star :: bef, ppRhs r ++ t :: rest'⟩) (t := t1) (rest := ts1)
      rfl h1 hb hrhs
    refine R.expr (tok := tk .star) rfl (by simpa [advance_cons] using hn) ?_
    simpa [ppE, node, List.reverse_append] using hloop

omit [NumOps N] in
theorem slice_head (s : SliceTxt) : ∃ t ts, s.toks = t :: ts ∧ (t.ty = .number ∨ t.ty = .colon) := by
  obtain ⟨a, b, c⟩ := s
  cases a with
  | none => exact ⟨tk .colon, _, rfl, Or.inr rfl⟩
  | some a => obtain ⟨ta, ia⟩ := a; exact ⟨tk .number ta, _, rfl, Or.inl rfl⟩

omit [NumOps N] in
theorem slice_isSlice (s : SliceTxt) : isSliceNode (N := N) s.node = true := rfl

/-- `l[a:b:c] rhs` -/
theorem good_slice {l : PE N} {r : Rhs N} (s : SliceTxt) (gl : GoodE l) (gr : GoodRhs r) : GoodE (.slice l s r) := by
  intro hw k bef rest o hk hf hloop
  have ⟨hws, hwl, hwr⟩ : wfSlice s ∧ wf l ∧ wfRhs 20 r := by simpa [wf] using hw
  have hk55 : k < 55 := by simpa [PE.level] using hk
  obtain ⟨t, rest', rfl, ht⟩ := hf
  simp only [PE.rp] at ht
  have e1 : ppE (.slice l s r) = wrapIf (decide (l.rp < 55)) (ppE l) ++ (tk .lbracket :: (s.toks ++ tk .rbracket :: ppRhs r)) := by
    simp [ppE, wrapIf]
  rw [e1] at hloop ⊢
  rw [List.append_assoc]
  refine left_operand gl hwl 55 k hk55 (tk .lbracket) rfl bef _ o ?_
  generalize decide (l.rp < 55) = cl at hloop ⊢
  obtain ⟨t0, ts0, h0, hnc⟩ := slice_head s
  have hidx := parseIndex_slice (N := N) s hws (tk .lbracket :: ((wrapIf cl (ppE l)).reverse ++ bef)) (ppRhs r ++ t :: rest')
  have hrhs := gr 20 hwr (tk .rbracket :: (s.toks.reverse ++ tk .lbracket :: ((wrapIf cl (ppE l)).reverse ++ bef))) (t :: rest')
    ⟨t, rest', rfl, by omega⟩
  have hpis := R.pisSlice (tbl := T) (l := node l) (slice_isSlice (N := N) s) hrhs
  have hled := R.ledBracketIdx (tbl := T) (n := node l)
    (p := ⟨tk .lbracket :: ((wrapIf cl (ppE l)).reverse ++ bef), s.toks ++ tk .rbracket :: (ppRhs r ++ t :: rest')⟩)
    (t := t0) (rest := ts0 ++ tk .rbracket :: (ppRhs r ++ t :: rest')) (by simp [h0]) hnc hidx hpis
  refine R.step (t := tk .lbracket) (rest := s.toks ++ tk .rbracket :: (ppRhs r ++ t :: rest')) (by simp)
    (by rw [T_power]; simpa [specPow] using hk55) (by simpa [advance_cons] using hled) ?_
  simpa [node, List.reverse_append] using hloop

/-- `[a:b:c] rhs` -/
theorem good_slice0 {r : Rhs N} (s : SliceTxt) (gr : GoodRhs r) : GoodE (.slice0 s r) := by
  intro hw k bef rest o _ hf hloop
  have ⟨hws, hwr⟩ : wfSlice s ∧ wfRhs 20 r := by simpa [wf] using hw
  obtain ⟨t, rest', rfl, ht⟩ := hf
  simp only [PE.rp] at ht
  obtain ⟨t0, ts0, h0, hnc⟩ := slice_head s
  have hidx := parseIndex_slice (N := N) s hws (tk .lbracket :: bef) (ppRhs r ++ t :: rest')
  have hrhs := gr 20 hwr (tk .rbracket :: (s.toks.reverse ++ tk .lbracket :: bef)) (t :: rest') ⟨t, rest', rfl, by omega⟩
  have hpis := R.pisSlice (tbl := T) (l := (.identity : Node N)) (slice_isSlice (N := N) s) hrhs
  have hn := R.nudBracketIdx (tbl := T) (tok := tk .lbracket)
    (p := ⟨tk .lbracket :: bef, s.toks ++ tk .rbracket :: (ppRhs r ++ t :: rest')⟩)
    (t := t0) (rest := ts0 ++ tk .rbracket :: (ppRhs r ++ t :: rest')) rfl (by simp [h0]) hnc hidx hpis
  have e1 : ppE (.slice0 s r) ++ t :: rest' = tk .lbracket :: (s.toks ++ tk .rbracket :: (ppRhs r ++ t :: rest')) := by simp [ppE]
  rw [e1]
  refine R.expr (tok := tk .lbracket) rfl (by simpa [advance_cons] using hn) ?_
  simpa [ppE, node, List.reverse_append] using hloop

theorem rhs_next (r : Rhs N) (bp : Nat) (hw : wfRhs bp r) (t : Token) (rest' : List Token) :
    ∃ t1 ts1, ppRhs r ++ t :: rest' = t1 :: ts1 ∧ (r = .none ∨ t1.ty = .dot ∨ t1.ty = .lbracket ∨ t1.ty = .filter) := by
  cases r with
  | none => exact ⟨t, rest', by simp [ppRhs], Or.inl rfl⟩
  | dot e => exact ⟨tk .dot, ppE e ++ t :: rest', by simp [ppRhs], Or.inr (Or.inl rfl)⟩
  | br e =>
    have ⟨hb, _⟩ : brOK bp e = true ∧ wf e := by simpa [wfRhs] using hw
    simp only [brOK, Bool.and_eq_true, Bool.or_eq_true, beq_iff_eq, decide_eq_true_eq] at hb
    obtain ⟨t0, ts0, h0, hty⟩ := ppE_first e
    refine ⟨t0, ts0 ++ t :: rest', by simp [ppRhs, h0], Or.inr (Or.inr ?_)⟩
    rw [hty]; exact hb.1

/-- the part of a filter after `[?`: condition, `]`, right-hand side -/
theorem filter_body {c : PE N} {r : Rhs N} (gc : GoodE c) (gr : GoodRhs r) (hwc : wf c) (hwr : wfRhs 21 r) (n : Node N)
    (bef : List Token) (t : Token) (rest' : List Token) (ht : specPow t.ty ≤ r.rp 21) :
    R T (.filter n ⟨bef, ppE c ++ tk .rbracket :: (ppRhs r ++ t :: rest')⟩)
      (.node (.filterProj n (nodeRhs r) (node c)) ⟨(ppRhs r).reverse ++ tk .rbracket :: ((ppE c).reverse ++ bef), t :: rest'⟩) := by
  have hcond := elem_expr gc hwc bef (tk .rbracket) (ppRhs r ++ t :: rest') rfl
  obtain ⟨t1, ts1, h1, hk⟩ := rhs_next r 21 hwr t rest'
  by_cases hfl : t1.ty = .flatten
  · have hr : r = .none := by
      rcases hk with h | h | h | h
      · exact h
      all_goals (rw [hfl] at h; cases h)
    subst hr
    simp only [ppRhs, List.nil_append, List.cons.injEq] at h1
    obtain ⟨rfl, rfl⟩ := h1
    have := R.filterFlat (tbl := T) (n := n) hcond (rb := tk .rbracket) (t := t) (rest := rest') (by simp [ppRhs]) rfl hfl
    simpa [ppRhs, nodeRhs, advance_cons] using this
  · have hrhs := gr 21 hwr (tk .rbracket :: ((ppE c).reverse ++ bef)) (t :: rest') ⟨t, rest', rfl, ht⟩
    exact R.filterRhs (tbl := T) (n := n) hcond (rb := tk .rbracket) (t := t1) (rest := ts1) (by rw [h1]) rfl hfl hrhs

/-- `l[?c] rhs` -/
theorem good_filt {l c : PE N} {r : Rhs N} (gl : GoodE l) (gc : GoodE c) (gr : GoodRhs r) : GoodE (.filt l c r) := by
  intro hw k bef rest o hk hf hloop
  have ⟨hwl, hwc, hwr⟩ : wf l ∧ wf c ∧ wfRhs 21 r := by simpa [wf] using hw
  have hk21 : k < 21 := by simpa [PE.level] using hk
  obtain ⟨t, rest', rfl, ht⟩ := hf
  simp only [PE.rp] at ht
  have e1 : ppE (.filt l c r) = wrapIf (decide (l.rp < 21)) (ppE l) ++ (tk .filter :: (ppE c ++ tk .rbracket :: ppRhs r)) := by
    simp [ppE, wrapIf]
  rw [e1] at hloop ⊢
  rw [List.append_assoc]
  refine left_operand gl hwl 21 k hk21 (tk .filter) rfl bef _ o ?_
  generalize decide (l.rp < 21) = cl at hloop ⊢
  have hbody := filter_body gc gr hwc hwr (node l) (tk .filter :: ((wrapIf cl (ppE l)).reverse ++ bef)) t rest' (by omega)
  have hled := R.ledFilter (tbl := T) hbody
  refine R.step (t := tk .filter) (rest := ppE c ++ tk .rbracket :: (ppRhs r ++ t :: rest')) (by simp)
    (by rw [T_power]; simpa [specPow] using hk21) (by simpa [advance_cons] using hled) ?_
  simpa [node, List.reverse_append] using hloop

/-- `[?c] rhs` -/
theorem good_filt0 {c : PE N} {r : Rhs N} (gc : GoodE c) (gr : GoodRhs r) : GoodE (.filt0 c r) := by
  intro hw k bef rest o _ hf hloop
  have ⟨hwc, hwr⟩ : wf c ∧ wfRhs 21 r := by simpa [wf] using hw
  obtain ⟨t, rest', rfl, ht⟩ := hf
  simp only [PE.rp] at ht
  have hbody := filter_body gc gr hwc hwr (.identity : Node N) (tk .filter :: bef) t rest' (by omega)
  have hn := R.nudFilter (tbl := T) (tok := tk .filter) rfl hbody
  have e1 : ppE (.filt0 c r) ++ t :: rest' = tk .filter :: (ppE c ++ tk .rbracket :: (ppRhs r ++ t :: rest')) := by simp [ppE]
  rw [e1]
  refine R.expr (tok := tk .filter) rfl (by simpa [advance_cons] using hn) ?_
  simpa [ppE, node, List.reverse_append] using hloop

mutual
/-- Every expression is parsed back from its printed form. -/
theorem good_all : (e : PE N) → GoodE e ∧ GoodDot e
  | .ident n => ⟨good_ident n, dot_of_good (good_ident n) rfl⟩
  | .quoted n => ⟨good_quoted n, dot_of_good (good_quoted n) rfl⟩
  | .raw s => ⟨good_raw s, dot_of_good (good_raw s) rfl⟩
  | .lit t v => ⟨good_lit t v, dot_of_good (good_lit t v) rfl⟩
  | .current => ⟨good_current, dot_of_good good_current rfl⟩
  | .idx0 t i => ⟨good_idx0 t i, dot_of_good (good_idx0 t i) rfl⟩
  | .idx l t i => have g := good_idx t i (good_all l).1; ⟨g, dot_of_good g rfl⟩
  | .sub l r => have g := good_sub (good_all l).1 (good_all r).2; ⟨g, dot_of_good g rfl⟩
  | .not e => have g := good_not (good_all e).1; ⟨g, dot_of_good g rfl⟩
  | .bin op l r => have g := good_bin op (good_all l).1 (good_all r).1; ⟨g, dot_of_good g rfl⟩
  | .call n args => have g := good_call n (good_args args); ⟨g, dot_of_good g rfl⟩
  | .list x xs => ⟨good_list (good_all x).1 (good_list' xs), dot_list (good_all x).1 (good_list' xs)⟩
  | .hash q k v kvs => ⟨good_hash q k (good_all v).1 (good_kvs kvs), dot_hash q k (good_all v).1 (good_kvs kvs)⟩
  | .paren e => have g := good_paren (good_all e).1; ⟨g, dot_of_good g rfl⟩
  | .star0 r => have g := good_star0 (good_rhs r); ⟨g, dot_of_good g rfl⟩
  | .dstar l r => have g := good_dstar (good_all l).1 (good_rhs r); ⟨g, dot_of_good g rfl⟩
  | .bstar0 r => have g := good_bstar0 (good_rhs r); ⟨g, dot_of_good g rfl⟩
  | .bstar l r => have g := good_bstar (good_all l).1 (good_rhs r); ⟨g, dot_of_good g rfl⟩
  | .flat0 r => have g := good_flat0 (good_rhs r); ⟨g, dot_of_good g rfl⟩
  | .flat l r => have g := good_flat (good_all l).1 (good_rhs r); ⟨g, dot_of_good g rfl⟩
  | .slice0 s r => have g := good_slice0 s (good_rhs r); ⟨g, dot_of_good g rfl⟩
  | .slice l s r => have g := good_slice s (good_all l).1 (good_rhs r); ⟨g, dot_of_good g rfl⟩
  | .filt0 c r => have g := good_filt0 (good_all c).1 (good_rhs r); ⟨g, dot_of_good g rfl⟩
  | .filt l c r => have g := good_filt (good_all l).1 (good_all c).1 (good_rhs r); ⟨g, dot_of_good g rfl⟩
theorem good_rhs : (r : Rhs N) → GoodRhs r
  | .none => good_rhs_none
  | .dot e => good_rhs_dot (good_all e).2
  | .br e => good_rhs_br (good_all e).1
theorem good_list' : (xs : List (PE N)) → GoodList xs
  | [] => trivial
  | x :: xs => ⟨(good_all x).1, good_list' xs⟩
theorem good_kvs : (kvs : List (Bool × Bytes × PE N)) → GoodKVs kvs
  | [] => trivial
  | (_, _, v) :: rest => ⟨(good_all v).1, good_kvs rest⟩
theorem good_args : (as : List (Bool × PE N)) → GoodArgs as
  | [] => trivial
  | (_, e) :: rest => ⟨(good_all e).1, good_args rest⟩
end

/-! ### the printed tokens are well formed, and the round trip -/

def okTok (t : Token) : Prop := t.ty ≠ .eof ∧ t.pos = 0

theorem ok_tk (ty : TokType) (v : Bytes) (h : ty ≠ .eof) : okTok (tk ty v) := ⟨h, rfl⟩
theorem ok_key (q : Bool) (k : Bytes) : okTok (keyTok q k) := by cases q <;> exact ⟨by simp [keyTok], rfl⟩
theorem ok_op (op : BinOp) : okTok (tk op.tok) := by
  refine ⟨?_, rfl⟩
  cases op with
  | cmp c => cases c <;> simp [BinOp.tok, cmpTok]
  | _ => simp [BinOp.tok]

def AllOK (l : List Token) : Prop := ∀ t ∈ l, okTok t
theorem allOK_nil : AllOK [] := fun _ h => by cases h
theorem allOK_cons {t : Token} {l : List Token} (h1 : okTok t) (h2 : AllOK l) : AllOK (t :: l) := by
  intro x hx; rcases List.mem_cons.mp hx with rfl | h; exact h1; exact h2 x h
theorem allOK_tk {ty : TokType} {v : Bytes} {l : List Token} (h : ty ≠ .eof) (h2 : AllOK l) : AllOK (tk ty v :: l) :=
  allOK_cons (ok_tk ty v h) h2
theorem allOK_append {a b : List Token} (h1 : AllOK a) (h2 : AllOK b) : AllOK (a ++ b) := by
  intro x hx; rcases List.mem_append.mp hx with h | h; exact h1 x h; exact h2 x h
theorem allOK_parens {l : List Token} (h : AllOK l) : AllOK (parens l) :=
  allOK_append (allOK_tk (by simp) h) (allOK_tk (by simp) allOK_nil)
theorem allOK_wrap {l : List Token} (c : Prop) [Decidable c] (h : AllOK l) : AllOK (if c then parens l else l) := by
  split; exact allOK_parens h; exact h
theorem allOK_num (o : Option (Bytes × Int)) : AllOK (numTok o) := by
  cases o with
  | none => exact allOK_nil
  | some x => exact allOK_tk (by simp) allOK_nil
theorem allOK_slice (s : SliceTxt) : AllOK s.toks := by
  obtain ⟨a, b, c⟩ := s
  refine allOK_append (allOK_append (allOK_num a) (allOK_tk (by simp) (allOK_num b))) ?_
  cases c with
  | none => exact allOK_nil
  | some x => exact allOK_tk (by simp) (allOK_tk (by simp) allOK_nil)

macro "aok" : tactic => `(tactic| (first
  | assumption
  | exact allOK_nil
  | exact allOK_slice _
  | (apply allOK_wrap; assumption)
  | (apply allOK_parens; assumption)))

mutual
theorem ppE_ok : (e : PE N) → AllOK (ppE e)
  | .ident n | .quoted n | .raw n | .lit n _ => by simp only [ppE]; exact allOK_tk (by simp) allOK_nil
  | .current => by simp only [ppE]; exact allOK_tk (by simp) allOK_nil
  | .idx0 txt i => by simp only [ppE]; exact allOK_tk (by simp) (allOK_tk (by simp) (allOK_tk (by simp) allOK_nil))
  | .idx l txt i => by
    have ih := ppE_ok l
    simp only [ppE]
    exact allOK_append (allOK_wrap _ ih) (allOK_tk (by simp) (allOK_tk (by simp) (allOK_tk (by simp) allOK_nil)))
  | .sub l r => by
    have ih := ppE_ok l
    have ih2 := ppE_ok r
    simp only [ppE]
    exact allOK_append (allOK_wrap _ ih) (allOK_tk (by simp) ih2)
  | .not e => by
    have ih := ppE_ok e
    simp only [ppE]
    exact allOK_tk (by simp) (allOK_wrap _ ih)
  | .bin op l r => by
    have ih := ppE_ok l
    have ih2 := ppE_ok r
    simp only [ppE]
    exact allOK_append (allOK_wrap _ ih) (allOK_cons (ok_op op) (allOK_wrap _ ih2))
  | .call n args => by
    have ih := ppArgs_ok args
    simp only [ppE]
    exact allOK_append (allOK_tk (by simp) (allOK_tk (by simp) ih)) (allOK_tk (by simp) allOK_nil)
  | .list x xs => by
    have ih := ppE_ok x
    have ih2 := ppTail_ok xs
    simp only [ppE]
    exact allOK_append (allOK_append (allOK_tk (by simp) ih) ih2) (allOK_tk (by simp) allOK_nil)
  | .hash q k v kvs => by
    have ih := ppE_ok v
    have ih2 := ppKVs_ok kvs
    simp only [ppE]
    exact allOK_append (allOK_append (allOK_tk (by simp) (allOK_cons (ok_key q k) (allOK_tk (by simp) ih))) ih2) (allOK_tk (by simp) allOK_nil)
  | .paren e => by
    have ih := ppE_ok e
    simp only [ppE]; exact allOK_parens ih
  | .star0 r => by
    have ih := ppRhs_ok r
    simp only [ppE]; exact allOK_tk (by simp) ih
  | .dstar l r => by
    have ih := ppE_ok l
    have ih2 := ppRhs_ok r
    simp only [ppE]
    exact allOK_append (allOK_wrap _ ih) (allOK_tk (by simp) (allOK_tk (by simp) ih2))
  | .bstar0 r => by
    have ih := ppRhs_ok r
    simp only [ppE]; exact allOK_tk (by simp) (allOK_tk (by simp) (allOK_tk (by simp) ih))
  | .bstar l r => by
    have ih := ppE_ok l
    have ih2 := ppRhs_ok r
    simp only [ppE]
    exact allOK_append (allOK_wrap _ ih) (allOK_tk (by simp) (allOK_tk (by simp) (allOK_tk (by simp) ih2)))
  | .flat0 r => by
    have ih := ppRhs_ok r
    simp only [ppE]; exact allOK_tk (by simp) ih
  | .flat l r => by
    have ih := ppE_ok l
    have ih2 := ppRhs_ok r
    simp only [ppE]
    exact allOK_append (allOK_wrap _ ih) (allOK_tk (by simp) ih2)
  | .slice0 s r => by
    have ih := ppRhs_ok r
    simp only [ppE]
    exact allOK_append (allOK_tk (by simp) (allOK_slice s)) (allOK_tk (by simp) ih)
  | .slice l s r => by
    have ih := ppE_ok l
    have ih2 := ppRhs_ok r
    simp only [ppE]
    exact allOK_append (allOK_append (allOK_wrap _ ih) (allOK_tk (by simp) (allOK_slice s))) (allOK_tk (by simp) ih2)
  | .filt0 c r => by
    have ih := ppE_ok c
    have ih2 := ppRhs_ok r
    simp only [ppE]
    exact allOK_append (allOK_tk (by simp) ih) (allOK_tk (by simp) ih2)
  | .filt l c r => by
    have ih := ppE_ok l
    have ih1 := ppE_ok c
    have ih2 := ppRhs_ok r
    simp only [ppE]
    exact allOK_append (allOK_append (allOK_wrap _ ih) (allOK_tk (by simp) ih1)) (allOK_tk (by simp) ih2)
theorem ppRhs_ok : (r : Rhs N) → AllOK (ppRhs r)
  | .none => by simp only [ppRhs]; exact allOK_nil
  | .dot e => by have ih := ppE_ok e; simp only [ppRhs]; exact allOK_tk (by simp) ih
  | .br e => by have ih := ppE_ok e; simp only [ppRhs]; exact ih
theorem ppTail_ok : (xs : List (PE N)) → AllOK (ppTail xs)
  | [] => by simp only [ppTail]; exact allOK_nil
  | x :: xs => by
    have ih := ppE_ok x
    have ih2 := ppTail_ok xs
    simp only [ppTail]
    exact allOK_append (allOK_tk (by simp) ih) ih2
theorem ppKVs_ok : (kvs : List (Bool × Bytes × PE N)) → AllOK (ppKVs kvs)
  | [] => by simp only [ppKVs]; exact allOK_nil
  | (q, k, v) :: rest => by
    have ih := ppE_ok v
    have ih2 := ppKVs_ok rest
    simp only [ppKVs]
    exact allOK_append (allOK_tk (by simp) (allOK_cons (ok_key q k) (allOK_tk (by simp) ih))) ih2
theorem ppArgs_ok : (as : List (Bool × PE N)) → AllOK (ppArgs as)
  | [] => by simp only [ppArgs]; exact allOK_nil
  | [(b, e)] => by
    have ih := ppE_ok e
    simp only [ppArgs]
    refine allOK_append ?_ ih
    split; exact allOK_tk (by simp) allOK_nil; exact allOK_nil
  | (b, e) :: a :: rest => by
    have ih := ppE_ok e
    have ih2 := ppArgs_ok (a :: rest)
    simp only [ppArgs]
    refine allOK_append (allOK_append ?_ ih) (allOK_tk (by simp) ih2)
    split; exact allOK_tk (by simp) allOK_nil; exact allOK_nil
end

/-- The round trip on the relational description. -/
theorem round_trip_R (e : PE N) (hw : wf e) :
    R T (.expr 0 ⟨[], ppE e ++ [eofTok 0]⟩) (.node (node e) ⟨(ppE e).reverse, [eofTok 0]⟩) := by
  have := elem_expr (good_all e).1 hw [] (eofTok 0) [] rfl
  simpa using this

/-- A relational derivation of a whole, well-formed token list is what `parseTokens` returns. -/
theorem parseTokens_of_R {toks : List Token} {ast : Node N} {p1 : PState} {total : Nat}
    (hR : R T (.expr 0 ⟨[], toks⟩) (.node ast p1)) (hp1 : ∃ t rest, p1.after = t :: rest ∧ t.ty = .eof)
    (htoks : Lexer.TokensOK total toks) : parseTokens T toks = .ok ast := by
  have hS := R_sound T hR (fuelFor toks.length)
  have hok := parseTokens_ok (N := N) (tbl := T) (total := total) rfl _ htoks
  unfold parseTokens at hok ⊢
  simp only [run] at hS
  have htop : T.top = 0 := rfl
  rw [htop] at hok ⊢
  cases hpe : parseExpression (N := N) T (fuelFor toks.length) 0 ⟨[], toks⟩ with
  | ok r =>
    obtain ⟨n, p⟩ := r
    rw [hpe] at hS
    simp only [toOutN] at hS
    rcases hS with h | h
    · injection h with h; injection h with h1 h2
      subst h1; subst h2
      obtain ⟨t, rest, hafter, hty⟩ := hp1
      simp [bind, Res.bind, PState.cur, hafter, hty]
    · cases h
  | err x => rw [hpe] at hS; simp [toOutN] at hS
  | panic s => rw [hpe] at hok; simp [bind, Res.bind, ROK] at hok

/-- **Printer round trip**, for the specification's table: the parser maps the
    printed tokens of `e` to the AST `e` denotes. -/
theorem round_trip_spec (e : PE N) (hw : wf e) : parseTokens T (ppE e ++ [eofTok 0]) = .ok (node e) := by
  refine parseTokens_of_R (total := 0) (round_trip_R e hw) ⟨eofTok 0, [], rfl, rfl⟩ ?_
  refine ⟨⟨ppE e, rfl, fun t ht => (ppE_ok e t ht).1⟩, ?_⟩
  intro t ht
  rcases List.mem_append.mp ht with h | h
  · rw [(ppE_ok e t h).2]; exact Nat.le_refl 0
  · simp at h; subst h; exact Nat.le_refl 0

/-! ### parentheses leave no trace in the AST -/

section
omit [NumOps N]
mutual
theorem node_erase : (e : PE N) → node (erase e) = node e
  | .ident _ | .quoted _ | .raw _ | .lit _ _ | .current | .idx0 _ _ => rfl
  | .idx l t i => by simp only [erase, node, node_erase l]
  | .sub l r => by simp only [erase, node, node_erase l, node_erase r]
  | .not e => by simp only [erase, node, node_erase e]
  | .bin op l r => by simp only [erase, node, node_erase l, node_erase r]
  | .call n args => by simp only [erase, node, nodeArgs_erase args]
  | .list x xs => by simp only [erase, node, node_erase x, nodeList_erase xs]
  | .hash q k v kvs => by simp only [erase, node, node_erase v, nodeKVs_erase kvs]
  | .paren e => by simp only [erase, node, node_erase e]
  | .star0 r => by simp only [erase, node, nodeRhs_erase r]
  | .dstar l r => by simp only [erase, node, node_erase l, nodeRhs_erase r]
  | .bstar0 r => by simp only [erase, node, nodeRhs_erase r]
  | .bstar l r => by simp only [erase, node, node_erase l, nodeRhs_erase r]
  | .flat0 r => by simp only [erase, node, nodeRhs_erase r]
  | .flat l r => by simp only [erase, node, node_erase l, nodeRhs_erase r]
  | .slice0 s r => by simp only [erase, node, nodeRhs_erase r]
  | .slice l s r => by simp only [erase, node, node_erase l, nodeRhs_erase r]
  | .filt0 c r => by simp only [erase, node, node_erase c, nodeRhs_erase r]
  | .filt l c r => by simp only [erase, node, node_erase l, node_erase c, nodeRhs_erase r]
theorem nodeRhs_erase : (r : Rhs N) → nodeRhs (eraseRhs r) = nodeRhs r
  | .none => rfl
  | .dot e => by simp only [eraseRhs, nodeRhs, node_erase e]
  | .br e => by simp only [eraseRhs, nodeRhs, node_erase e]
theorem nodeList_erase : (xs : List (PE N)) → nodeList (eraseList xs) = nodeList xs
  | [] => rfl
  | x :: xs => by simp only [eraseList, nodeList, node_erase x, nodeList_erase xs]
theorem nodeKVs_erase : (kvs : List (Bool × Bytes × PE N)) → nodeKVs (eraseKVs kvs) = nodeKVs kvs
  | [] => rfl
  | (q, k, v) :: rest => by simp only [eraseKVs, nodeKVs, node_erase v, nodeKVs_erase rest]
theorem nodeArgs_erase : (as : List (Bool × PE N)) → nodeArgs (eraseArgs as) = nodeArgs as
  | [] => rfl
  | (b, e) :: rest => by simp only [eraseArgs, nodeArgs, node_erase e, nodeArgs_erase rest]
end
end

end Jmes.Parser
