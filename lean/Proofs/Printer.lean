/-
  Proofs.Printer — the parser (with the specification's table) inverts the
  precedence-aware printer `Spec.ppE`, with minimal or with full
  parenthesisation.  Proved on the relational description `R`; `R_sound` and the
  parser-safety theorem turn it into a statement about `parseTokens`.
-/
import Proofs.ParserRel
import Proofs.ParserSafe
import Spec.Printer
import Spec.Tables
namespace Jmes.Parser
open Jmes.Spec
variable {N : Type} [NumOps N]

abbrev T : ParserTable := Spec.table

mutual
/-- Side conditions on the token texts: a literal's text decodes to its value,
    an index's digits denote its integer, a dot's right-hand side is an
    identifier (possibly indexed / called), a list or a hash. -/
def wf : PE N → Prop
  | .lit t v => (Json.decode t : Option (Val N)) = some v
  | .idx0 txt i => atoi txt = some i
  | .idx l txt i => atoi txt = some i ∧ wf l
  | .sub l r => dotOK r = true ∧ wf l ∧ wf r
  | .not e => wf e
  | .bin _ l r => wf l ∧ wf r
  | .call _ args => wfArgs args
  | .list x xs => wf x ∧ wfList xs
  | .hash _ _ v kvs => wf v ∧ wfKVs kvs
  | _ => True
def wfList : List (PE N) → Prop
  | [] => True
  | x :: xs => wf x ∧ wfList xs
def wfKVs : List (Bool × Bytes × PE N) → Prop
  | [] => True
  | (_, _, v) :: rest => wf v ∧ wfKVs rest
def wfArgs : List (Bool × PE N) → Prop
  | [] => True
  | (_, e) :: rest => wf e ∧ wfArgs rest
end

/-- The largest power a following token may have without being absorbed. -/
def rp (e : PE N) : Nat := min e.level 59

def Follow (e : PE N) (rest : List Token) : Prop := ∃ t rest', rest = t :: rest' ∧ T.power t.ty ≤ rp e

/-- The statement proved for every expression: parsing the printed tokens at a
    level below the expression's own continues the Pratt loop with the
    expression's AST as the left operand. -/
def GoodE (e : PE N) : Prop :=
  wf e → ∀ (full : Bool) (k : Nat) (bef rest : List Token) (o : Out N), k < e.level → Follow e rest →
    R T (.loop k (node e) ⟨(ppE full e).reverse ++ bef, rest⟩) o → R T (.expr k ⟨bef, ppE full e ++ rest⟩) o

def GoodList : List (PE N) → Prop
  | [] => True
  | x :: xs => GoodE x ∧ GoodList xs
def GoodKVs : List (Bool × Bytes × PE N) → Prop
  | [] => True
  | (_, _, v) :: rest => GoodE v ∧ GoodKVs rest
def GoodArgs : List (Bool × PE N) → Prop
  | [] => True
  | (_, e) :: rest => GoodE e ∧ GoodArgs rest

/-- The specification's levels, token by token. -/
def specPow : TokType → Nat
  | .pipe => 1 | .or => 2 | .and => 3
  | .eq | .ne | .lt | .lte | .gt | .gte => 5
  | .flatten => 9 | .star => 20 | .filter => 21 | .dot => 40 | .not => 45
  | .lbrace => 50 | .lbracket => 55 | .lparen => 60
  | _ => 0

@[simp] theorem T_power (ty : TokType) : T.power ty = specPow ty := by cases ty <;> rfl

theorem advance_cons (bef : List Token) (t : Token) (ts : List Token) :
    (⟨bef, t :: ts⟩ : PState).advance = ⟨t :: bef, ts⟩ := rfl

theorem advance_cons_append (bef : List Token) (t : Token) (ts rest : List Token) :
    (⟨bef, t :: ts ++ rest⟩ : PState).advance = ⟨t :: bef, ts ++ rest⟩ := rfl

theorem power_le_59_ne_lparen {t : Token} (h : T.power t.ty ≤ 59) : t.ty ≠ .lparen := by
  intro e; rw [e] at h; simp [specPow] at h

/-- An expression in parentheses, at any level, with anything after it. -/
theorem paren_expr {e : PE N} (ge : GoodE e) (hw : wf e) (full : Bool) (k : Nat) (bef rest : List Token) (o : Out N)
    (hloop : R T (.loop k (node e) ⟨(parens (ppE full e)).reverse ++ bef, rest⟩) o) :
    R T (.expr k ⟨bef, parens (ppE full e) ++ rest⟩) o := by
  have hlev : 0 < e.level := by cases e <;> simp [PE.level, BinOp.pow] <;> (rename_i op _ _; cases op <;> simp [BinOp.pow])
  have inner : R T (.expr T.nudParen ⟨tk .lparen :: bef, ppE full e ++ tk .rparen :: rest⟩)
      (.node (node e) ⟨(ppE full e).reverse ++ tk .lparen :: bef, tk .rparen :: rest⟩) := by
    refine ge hw full 0 _ _ _ hlev ⟨tk .rparen, rest, rfl, by simp [specPow, tk]⟩ ?_
    exact R.stop (t := tk .rparen) (rest := rest) rfl (by simp [specPow, tk])
  have hn : R T (.nud (tk .lparen) (⟨bef, parens (ppE full e) ++ rest⟩ : PState).advance)
      (.node (node e) (⟨(ppE full e).reverse ++ tk .lparen :: bef, tk .rparen :: rest⟩ : PState).advance) := by
    have : (⟨bef, parens (ppE full e) ++ rest⟩ : PState).advance = ⟨tk .lparen :: bef, ppE full e ++ tk .rparen :: rest⟩ := by
      simp [parens, PState.advance]
    rw [this]
    exact R.nudParen (t := tk .rparen) (rest := rest) rfl inner rfl rfl
  refine R.expr (tok := tk .lparen) (rest := ppE full e ++ tk .rparen :: rest) (by simp [parens]) hn ?_
  simpa [parens, advance_cons, List.reverse_append] using hloop

end Jmes.Parser

namespace Jmes.Parser
open Jmes.Spec
variable {N : Type} [NumOps N]

/-- The right-hand side of a dot. -/
def GoodDot (e : PE N) : Prop :=
  wf e → dotOK e = true → ∀ (full : Bool) (bef rest : List Token),
    (∃ t rest', rest = t :: rest' ∧ T.power t.ty ≤ 40) →
    R T (.dot T.ledDotSub ⟨bef, ppE full e ++ rest⟩) (.node (node e) ⟨(ppE full e).reverse ++ bef, rest⟩)

@[simp] theorem tk_ty (ty : TokType) (v : Bytes) : (tk ty v).ty = ty := rfl
@[simp] theorem tk_value (ty : TokType) (v : Bytes) : (tk ty v).value = v := rfl

/-- nud of a one-token atom followed by the loop. -/
theorem atom_expr (tok : Token) (n : Node N) (k : Nat) (bef rest : List Token) (o : Out N)
    (hn : R T (.nud tok ⟨tok :: bef, rest⟩) (.node n ⟨tok :: bef, rest⟩))
    (hloop : R T (.loop k n ⟨tok :: bef, rest⟩) o) : R T (.expr k ⟨bef, tok :: rest⟩) o :=
  R.expr (tok := tok) (rest := rest) rfl hn hloop

theorem good_ident (n : Bytes) : GoodE (N := N) (.ident n) := by
  intro _ full k bef rest o _ _ hloop
  have hn : R T (.nud (tk .uident n) ⟨tk .uident n :: bef, rest⟩) (.node (N := N) (.field n) ⟨tk .uident n :: bef, rest⟩) := by
    have := R.nudIdent (tbl := T) (N := N) (tok := tk .uident n) (p := ⟨tk .uident n :: bef, rest⟩) rfl
    simpa using this
  exact atom_expr (tk .uident n) _ k bef rest o hn (by simpa [ppE, node] using hloop)

theorem good_quoted (n : Bytes) : GoodE (N := N) (.quoted n) := by
  intro _ full k bef rest o _ hf hloop
  obtain ⟨t, rest', rfl, ht⟩ := hf
  have hne : t.ty ≠ .lparen := power_le_59_ne_lparen (by simp only [rp, PE.level] at ht; omega)
  have hn : R T (.nud (tk .qident n) ⟨tk .qident n :: bef, t :: rest'⟩) (.node (N := N) (.field n) ⟨tk .qident n :: bef, t :: rest'⟩) := by
    have := R.nudQuoted (tbl := T) (N := N) (tok := tk .qident n) (p := ⟨tk .qident n :: bef, t :: rest'⟩) (t := t) (rest := rest') rfl rfl hne
    simpa using this
  exact atom_expr (tk .qident n) _ k bef _ o hn (by simpa [ppE, node] using hloop)

theorem good_raw (s : Bytes) : GoodE (N := N) (.raw s) := by
  intro _ full k bef rest o _ _ hloop
  have hn : R T (.nud (tk .stringLiteral s) ⟨tk .stringLiteral s :: bef, rest⟩) (.node (N := N) (.literal (.str s)) ⟨tk .stringLiteral s :: bef, rest⟩) := by
    have := R.nudRaw (tbl := T) (N := N) (tok := tk .stringLiteral s) (p := ⟨tk .stringLiteral s :: bef, rest⟩) rfl
    simpa using this
  exact atom_expr (tk .stringLiteral s) _ k bef rest o hn (by simpa [ppE, node] using hloop)

theorem good_lit (t : Bytes) (v : Val N) : GoodE (.lit t v) := by
  intro hw full k bef rest o _ _ hloop
  have hn : R T (.nud (tk .jsonLiteral t) ⟨tk .jsonLiteral t :: bef, rest⟩) (.node (.literal v) ⟨tk .jsonLiteral t :: bef, rest⟩) :=
    R.nudJson (tok := tk .jsonLiteral t) rfl hw
  exact atom_expr (tk .jsonLiteral t) _ k bef rest o hn (by simpa [ppE, node] using hloop)

theorem good_current : GoodE (N := N) .current := by
  intro _ full k bef rest o _ _ hloop
  exact atom_expr (tk .current) _ k bef rest o (R.nudCurrent rfl) (by simpa [ppE, node] using hloop)

theorem good_idx0 (txt : Bytes) (i : Int) : GoodE (N := N) (.idx0 txt i) := by
  intro hw full k bef rest o _ _ hloop
  refine R.expr (tok := tk .lbracket) (rest := tk .number txt :: tk .rbracket :: rest) rfl ?_ (by simpa [ppE, node] using hloop)
  have := R.nudIndex (tbl := T) (N := N) (tok := tk .lbracket) (p := ⟨tk .lbracket :: bef, tk .number txt :: tk .rbracket :: rest⟩)
    (n := tk .number txt) (rb := tk .rbracket) (rest := rest) (i := i) rfl rfl rfl rfl hw
  simpa [advance_cons, ppE] using this

/-- The operand token list of a prefix / right operand position. -/
def wrapIf (c : Bool) (ts : List Token) : List Token := if c then parens ts else ts

theorem level_pos (e : PE N) : 0 < e.level := by
  cases e <;> simp [PE.level] <;> (rename_i op _ _; cases op <;> simp [BinOp.pow])

/-- An operand (bare when `c = false`, in parentheses otherwise) followed by the loop. -/
theorem operand_loop {e : PE N} (ge : GoodE e) (hw : wf e) (full : Bool) (c : Bool) (k : Nat)
    (bef rest : List Token) (o : Out N) (hc : c = false → k < e.level ∧ Follow e rest)
    (hloop : R T (.loop k (node e) ⟨(wrapIf c (ppE full e)).reverse ++ bef, rest⟩) o) :
    R T (.expr k ⟨bef, wrapIf c (ppE full e) ++ rest⟩) o := by
  cases c with
  | true => exact paren_expr ge hw full k _ _ _ hloop
  | false => exact ge hw full k _ _ _ (hc rfl).1 (hc rfl).2 hloop

/-- An operand parsed at level `k` (either because its level is above `k`, or
    in parentheses), followed by a token the loop at level `k` stops at. -/
theorem operand_expr {e : PE N} (ge : GoodE e) (hw : wf e) (full : Bool) (c : Bool) (k : Nat)
    (hc : c = false → k < e.level ∧ k ≤ rp e) (bef : List Token) (t : Token) (rest' : List Token)
    (ht : specPow t.ty ≤ k) :
    R T (.expr k ⟨bef, wrapIf c (ppE full e) ++ t :: rest'⟩)
      (.node (node e) ⟨(wrapIf c (ppE full e)).reverse ++ bef, t :: rest'⟩) := by
  refine operand_loop ge hw full c k bef _ _ (fun h => ⟨(hc h).1, t, rest', rfl, ?_⟩) ?_
  · rw [T_power]; have := (hc h).2; omega
  · exact R.stop (t := t) (rest := rest') rfl (by rw [T_power]; omega)

/-- An element of a list / hash / argument list: parsed at level 0 up to a token of power 0. -/
theorem elem_expr {e : PE N} (ge : GoodE e) (hw : wf e) (full : Bool) (bef : List Token) (t : Token) (rest' : List Token)
    (ht : specPow t.ty = 0) :
    R T (.expr 0 ⟨bef, ppE full e ++ t :: rest'⟩) (.node (node e) ⟨(ppE full e).reverse ++ bef, t :: rest'⟩) := by
  have := operand_expr ge hw full false 0 (fun _ => ⟨level_pos e, Nat.zero_le _⟩) bef t rest' (by omega)
  simpa [wrapIf] using this

/-- `!e` -/
theorem good_not {e : PE N} (ge : GoodE e) : GoodE (.not e) := by
  intro hw full k bef rest o _ hf hloop
  obtain ⟨t, rest', rfl, ht⟩ := hf
  rw [T_power] at ht
  have ht45 : specPow t.ty ≤ 45 := by simp only [rp, PE.level] at ht; omega
  have hop := operand_expr ge hw full (full || decide (PE.level e ≤ 45)) 45
    (by intro hc; simp at hc; simp only [rp]; omega) (tk .not :: bef) t rest' ht45
  have hn : R T (.nud (tk .not) ⟨tk .not :: bef, wrapIf (full || decide (PE.level e ≤ 45)) (ppE full e) ++ t :: rest'⟩)
      (.node (.not (node e)) ⟨(wrapIf (full || decide (PE.level e ≤ 45)) (ppE full e)).reverse ++ tk .not :: bef, t :: rest'⟩) :=
    R.nudNot (tok := tk .not) rfl hop
  have e1 : ppE full (.not e) = tk .not :: wrapIf (full || decide (PE.level e ≤ 45)) (ppE full e) := by
    simp [ppE, wrapIf]
  rw [e1] at hloop ⊢
  refine R.expr (tok := tk .not) (rest := wrapIf _ (ppE full e) ++ t :: rest') rfl hn ?_
  simpa [node, List.reverse_append] using hloop

theorem cmp_ofTok (c : Cmp) : Cmp.ofTok (cmpTok c) = some c := by cases c <;> rfl
theorem cmp_pow (c : Cmp) : (T.ledCmp.lookup (cmpTok c)).getD 0 = 5 := by cases c <;> rfl

/-- `l op r` -/
theorem good_bin (op : BinOp) {l r : PE N} (gl : GoodE l) (gr : GoodE r) : GoodE (.bin op l r) := by
  intro hw full k bef rest o hk hf hloop
  have ⟨hwl, hwr⟩ : wf l ∧ wf r := by simpa [wf] using hw
  obtain ⟨t, rest', rfl, ht⟩ := hf
  rw [T_power] at ht
  have hpow : op.pow ≤ 5 ∧ 0 < op.pow := by cases op <;> simp [BinOp.pow]
  have hkp : k < op.pow := by simpa [PE.level] using hk
  have htp : specPow t.ty ≤ op.pow := by simp only [rp, PE.level] at ht; omega
  have hoptok : specPow op.tok = op.pow := by
    cases op with
    | cmp c => cases c <;> rfl
    | _ => rfl
  generalize hcl : (full || decide (PE.level l < op.pow)) = cl
  generalize hcr : (full || decide (PE.level r ≤ op.pow)) = cr
  have e1 : ppE full (.bin op l r) = wrapIf cl (ppE full l) ++ tk op.tok :: wrapIf cr (ppE full r) := by
    simp [ppE, wrapIf, hcl, hcr]
  rw [e1] at hloop ⊢
  rw [List.append_assoc]
  refine operand_loop gl hwl full cl k bef _ o ?_ ?_
  · intro h
    rw [h] at hcl
    have : ¬ PE.level l < op.pow := by simpa using (Bool.or_eq_false_iff.mp hcl).2
    refine ⟨by omega, tk op.tok, _, rfl, ?_⟩
    rw [T_power]; simp only [rp, tk_ty, hoptok]; omega
  · have hop := operand_expr gr hwr full cr op.pow (by
        intro h; rw [h] at hcr
        have : ¬ PE.level r ≤ op.pow := by simpa using (Bool.or_eq_false_iff.mp hcr).2
        simp only [rp]; omega) (tk op.tok :: ((wrapIf cl (ppE full l)).reverse ++ bef)) t rest' htp
    have hled : R T (.led (tk op.tok).ty (node l) (⟨(wrapIf cl (ppE full l)).reverse ++ bef, tk op.tok :: wrapIf cr (ppE full r) ++ t :: rest'⟩ : PState).advance)
        (.node (op.node (node l) (node r)) ⟨(wrapIf cr (ppE full r)).reverse ++ tk op.tok :: ((wrapIf cl (ppE full l)).reverse ++ bef), t :: rest'⟩) := by
      rw [advance_cons_append]
      cases op with
      | pipe => exact R.ledPipe hop
      | or => exact R.ledOr hop
      | and => exact R.ledAnd hop
      | cmp c =>
        have hp : ((T.ledCmp.lookup (tk (BinOp.cmp c).tok).ty).getD 0) = (BinOp.cmp c).pow := cmp_pow c
        exact R.ledCmp (cmp_ofTok c) (by rw [hp]; exact hop)
    refine R.step (t := tk op.tok) (rest := wrapIf cr (ppE full r) ++ t :: rest') (by simp) (by rw [T_power, tk_ty, hoptok]; exact hkp) hled ?_
    simpa [node, List.reverse_append] using hloop

/-- `l[i]` -/
theorem good_idx {l : PE N} (txt : Bytes) (i : Int) (gl : GoodE l) : GoodE (.idx l txt i) := by
  intro hw full k bef rest o hk hf hloop
  have ⟨hi, hwl⟩ : atoi txt = some i ∧ wf l := by simpa [wf] using hw
  have hk55 : k < 55 := by simpa [PE.level] using hk
  generalize hcl : ((full && !dotHead l) || decide (PE.level l < 55)) = cl
  have e1 : ppE full (.idx l txt i) = wrapIf cl (ppE full l) ++ [tk .lbracket, tk .number txt, tk .rbracket] := by
    simp [ppE, wrapIf, hcl]
  rw [e1] at hloop ⊢
  rw [List.append_assoc]
  refine operand_loop gl hwl full cl k bef _ o ?_ ?_
  · intro h
    rw [h] at hcl
    have : ¬ PE.level l < 55 := by simpa using (Bool.or_eq_false_iff.mp hcl).2
    refine ⟨by omega, tk .lbracket, _, rfl, ?_⟩
    rw [T_power]; simp only [rp, tk_ty, specPow]; omega
  · have hled := R.ledIndex (tbl := T) (node := node l)
      (p := ⟨tk .lbracket :: (wrapIf cl (ppE full l)).reverse ++ bef, tk .number txt :: tk .rbracket :: rest⟩)
      (n := tk .number txt) (rb := tk .rbracket) (rest := rest) (i := i) rfl rfl rfl hi
    refine R.step (t := tk .lbracket) (rest := tk .number txt :: tk .rbracket :: rest) (by simp) (by rw [T_power]; simpa [specPow] using hk55) hled ?_
    simpa [node, advance_cons, List.reverse_append] using hloop

/-- `l.r` -/
theorem good_sub {l r : PE N} (gl : GoodE l) (gr : GoodDot r)
    (hstart : ∀ full, ∃ t ts, ppE full r = t :: ts ∧ t.ty ≠ .star) : GoodE (.sub l r) := by
  intro hw full k bef rest o hk hf hloop
  have ⟨hd, hwl, hwr⟩ : dotOK r = true ∧ wf l ∧ wf r := by simpa [wf] using hw
  have hk40 : k < 40 := by simpa [PE.level] using hk
  obtain ⟨t, rest', rfl, ht⟩ := hf
  have ht40 : T.power t.ty ≤ 40 := by simp only [rp, PE.level] at ht; omega
  generalize hcl : (full || decide (PE.level l < 40)) = cl
  have e1 : ppE full (.sub l r) = wrapIf cl (ppE full l) ++ tk .dot :: ppE full r := by
    simp [ppE, wrapIf, hcl]
  rw [e1] at hloop ⊢
  rw [List.append_assoc]
  refine operand_loop gl hwl full cl k bef _ o ?_ ?_
  · intro h
    rw [h] at hcl
    have : ¬ PE.level l < 40 := by simpa using (Bool.or_eq_false_iff.mp hcl).2
    refine ⟨by omega, tk .dot, _, rfl, ?_⟩
    rw [T_power]; simp only [rp, tk_ty, specPow]; omega
  · obtain ⟨t0, ts0, hs, hns⟩ := hstart full
    have hdot := gr hwr hd full (tk .dot :: ((wrapIf cl (ppE full l)).reverse ++ bef)) (t :: rest') ⟨t, rest', rfl, ht40⟩
    have hled : R T (.led (tk .dot).ty (node l) (⟨(wrapIf cl (ppE full l)).reverse ++ bef, tk .dot :: ppE full r ++ t :: rest'⟩ : PState).advance)
        (.node (.sub (node l) (node r)) ⟨(ppE full r).reverse ++ tk .dot :: ((wrapIf cl (ppE full l)).reverse ++ bef), t :: rest'⟩) := by
      rw [advance_cons_append]
      exact R.ledDot (t := t0) (rest := ts0 ++ t :: rest') (by simp [hs]) hns hdot
    refine R.step (t := tk .dot) (rest := ppE full r ++ t :: rest') (by simp) (by rw [T_power]; simpa [specPow] using hk40) hled ?_
    simpa [node, List.reverse_append] using hloop

/-- Token types an expression can begin with. -/
def startTy : TokType → Bool
  | .uident | .qident | .stringLiteral | .jsonLiteral | .current | .lbracket | .not | .lparen | .lbrace => true
  | _ => false

def HeadOK (l : List Token) : Prop := ∃ t ts, l = t :: ts ∧ startTy t.ty = true
theorem headOK_cons (t : Token) (ts : List Token) (h : startTy t.ty = true) : HeadOK (t :: ts) := ⟨t, ts, rfl, h⟩
theorem headOK_append {l : List Token} (r : List Token) (h : HeadOK l) : HeadOK (l ++ r) := by
  obtain ⟨t, ts, rfl, ht⟩ := h; exact ⟨t, ts ++ r, rfl, ht⟩
theorem headOK_parens (ts : List Token) : HeadOK (parens ts) := headOK_append _ (headOK_cons _ _ rfl)

theorem ppE_start (full : Bool) : (e : PE N) → HeadOK (ppE full e)
  | .ident n => by simp only [ppE]; exact headOK_cons _ _ rfl
  | .quoted n => by simp only [ppE]; exact headOK_cons _ _ rfl
  | .raw s => by simp only [ppE]; exact headOK_cons _ _ rfl
  | .lit t v => by simp only [ppE]; exact headOK_cons _ _ rfl
  | .current => by simp only [ppE]; exact headOK_cons _ _ rfl
  | .idx0 txt i => by simp only [ppE]; exact headOK_cons _ _ rfl
  | .not e => by simp only [ppE]; exact headOK_cons _ _ rfl
  | .call n args => by simp only [ppE]; exact headOK_append _ (headOK_cons _ _ rfl)
  | .list x xs => by simp only [ppE]; exact headOK_append _ (headOK_append _ (headOK_cons _ _ rfl))
  | .hash q k v kvs => by simp only [ppE]; exact headOK_append _ (headOK_append _ (headOK_cons _ _ rfl))
  | .idx l txt i => by
    have ih := ppE_start full l
    simp only [ppE]
    refine headOK_append _ ?_
    split
    · exact headOK_parens _
    · exact ih
  | .sub l r => by
    have ih := ppE_start full l
    simp only [ppE]
    refine headOK_append _ ?_
    split
    · exact headOK_parens _
    · exact ih
  | .bin op l r => by
    have ih := ppE_start full l
    simp only [ppE]
    refine headOK_append _ ?_
    split
    · exact headOK_parens _
    · exact ih

omit [NumOps N] in
theorem head_level : (e : PE N) → dotHead e = true → 55 ≤ e.level
  | .ident _, _ => by simp [PE.level]
  | .quoted _, _ => by simp [PE.level]
  | .call _ _, _ => by simp [PE.level]
  | .idx _ _ _, _ => by simp [PE.level]
  | .raw _, h | .lit _ _, h | .current, h | .idx0 _ _, h | .sub _ _, h | .not _, h | .bin _ _ _, h
  | .list _ _, h | .hash _ _ _ _, h => by simp [dotHead] at h

theorem head_start (full : Bool) : (e : PE N) → dotHead e = true →
    ∃ t ts, ppE full e = t :: ts ∧ (t.ty = .qident ∨ t.ty = .uident)
  | .ident n, _ => ⟨tk .uident n, [], by simp [ppE], Or.inr rfl⟩
  | .quoted n, _ => ⟨tk .qident n, [], by simp [ppE], Or.inl rfl⟩
  | .call n args, _ => ⟨tk .uident n, tk .lparen :: (ppArgs full args ++ [tk .rparen]), by simp [ppE], Or.inr rfl⟩
  | .idx l txt i, h => by
    have hl : dotHead l = true := by simpa [dotHead] using h
    obtain ⟨t, ts, e, ht⟩ := head_start full l hl
    have := head_level l hl
    refine ⟨t, ts ++ [tk .lbracket, tk .number txt, tk .rbracket], ?_, ht⟩
    simp only [ppE, hl]
    rw [if_neg (by simp; omega)]
    simp [e]
  | .raw _, h | .lit _ _, h | .current, h | .idx0 _ _, h | .sub _ _, h | .not _, h | .bin _ _ _, h
  | .list _ _, h | .hash _ _ _ _, h => by simp [dotHead] at h

/-- The right-hand side of a dot that starts with an identifier. -/
theorem dot_head {e : PE N} (ge : GoodE e) (hh : dotHead e = true) : GoodDot e := by
  intro hw _ full bef rest hf
  obtain ⟨t, rest', rfl, ht⟩ := hf
  rw [T_power] at ht
  obtain ⟨t0, ts0, hs, hty⟩ := head_start full e hh
  have hl := head_level e hh
  have := operand_expr ge hw full false 40 (fun _ => ⟨by omega, by simp only [rp]; omega⟩) bef t rest' ht
  simp only [wrapIf] at this
  exact R.dotIdent (t := t0) (rest := ts0 ++ t :: rest') (by simp [hs]) hty this

theorem dot_not_head {e : PE N} (h : dotOK e = false) : GoodDot e := by
  intro _ h'; rw [h] at h'; cases h'

theorem ty_comma : specPow (tk .comma).ty = 0 := rfl

/-- the elements of a multi-select list -/
theorem msl_list (full : Bool) : ∀ (xs : List (PE N)) (x : PE N), GoodE x → GoodList xs → wf x → wfList xs →
    ∀ (acc : List (Node N)) (bef rest : List Token),
    R T (.msl ⟨bef, ppE full x ++ (ppTail full xs ++ tk .rbracket :: rest)⟩ acc)
      (.node (.msList (acc.reverse ++ node x :: nodeList xs))
        ⟨tk .rbracket :: ((ppTail full xs).reverse ++ ((ppE full x).reverse ++ bef)), rest⟩)
  | [], x, gx, _, hx, _, acc, bef, rest => by
    have h := elem_expr gx hx full bef (tk .rbracket) rest rfl
    have := R.mslLast (tbl := T) (acc := acc) (t := tk .rbracket) (rest := rest) h rfl rfl
    simpa [ppTail, nodeList, advance_cons] using this
  | y :: ys, x, gx, gl, hx, hl, acc, bef, rest => by
    have h := elem_expr gx hx full bef (tk .comma) (ppE full y ++ (ppTail full ys ++ tk .rbracket :: rest)) rfl
    have ih := msl_list full ys y gl.1 gl.2 hl.1 hl.2 (node x :: acc) (tk .comma :: ((ppE full x).reverse ++ bef)) rest
    have := R.mslMore (tbl := T) (acc := acc) (t := tk .comma) (rest := ppE full y ++ (ppTail full ys ++ tk .rbracket :: rest)) h rfl rfl
      (by rw [advance_cons]; exact ih)
    simpa [ppTail, nodeList, List.reverse_append] using this

theorem keyTok_ty (q : Bool) (k : Bytes) : ((keyTok q k).ty = .uident ∨ (keyTok q k).ty = .qident) ∧ (keyTok q k).value = k := by
  cases q <;> simp [keyTok]

/-- the pairs of a multi-select hash -/
theorem msh_list (full : Bool) : ∀ (kvs : List (Bool × Bytes × PE N)) (q : Bool) (k : Bytes) (v : PE N),
    GoodE v → GoodKVs kvs → wf v → wfKVs kvs →
    ∀ (acc : List (Bytes × Node N)) (bef rest : List Token),
    R T (.msh ⟨bef, keyTok q k :: tk .colon :: (ppE full v ++ (ppKVs full kvs ++ tk .rbrace :: rest))⟩ acc)
      (.node (.msHash (acc.reverse ++ (k, node v) :: nodeKVs kvs))
        ⟨tk .rbrace :: ((ppKVs full kvs).reverse ++ ((ppE full v).reverse ++ (tk .colon :: keyTok q k :: bef))), rest⟩)
  | [], q, k, v, gv, _, hv, _, acc, bef, rest => by
    have h := elem_expr gv hv full (tk .colon :: keyTok q k :: bef) (tk .rbrace) rest rfl
    have := R.mshLast (tbl := T) (acc := acc) (p := ⟨bef, keyTok q k :: tk .colon :: (ppE full v ++ tk .rbrace :: rest)⟩)
      (t := tk .rbrace) (rest := rest) rfl (keyTok_ty q k).1 rfl h rfl rfl
    simpa [ppKVs, nodeKVs, advance_cons, (keyTok_ty q k).2] using this
  | (q', k', v') :: more, q, k, v, gv, gl, hv, hl, acc, bef, rest => by
    have h := elem_expr gv hv full (tk .colon :: keyTok q k :: bef) (tk .comma)
      (keyTok q' k' :: tk .colon :: (ppE full v' ++ (ppKVs full more ++ tk .rbrace :: rest))) rfl
    have ih := msh_list full more q' k' v' gl.1 gl.2 hl.1 hl.2 ((k, node v) :: acc)
      (tk .comma :: ((ppE full v).reverse ++ (tk .colon :: keyTok q k :: bef))) rest
    have := R.mshMore (tbl := T) (acc := acc)
      (p := ⟨bef, keyTok q k :: tk .colon :: (ppE full v ++ tk .comma :: keyTok q' k' :: tk .colon :: (ppE full v' ++ (ppKVs full more ++ tk .rbrace :: rest)))⟩)
      (t := tk .comma) rfl (keyTok_ty q k).1 rfl h rfl rfl (by rw [advance_cons, (keyTok_ty q k).2]; exact ih)
    simpa [ppKVs, nodeKVs, List.reverse_append] using this

theorem start_ne {t : Token} (h : startTy t.ty = true) :
    t.ty ≠ .star ∧ t.ty ≠ .expref ∧ t.ty ≠ .rparen ∧ t.ty ≠ .number ∧ t.ty ≠ .colon := by
  cases hh : t.ty <;> simp [hh, startTy] at h ⊢

def refTok (b : Bool) : List Token := if b then [tk .expref] else []

theorem ppArgs_cons (full : Bool) (b : Bool) (e : PE N) (a : Bool × PE N) (as : List (Bool × PE N)) :
    ppArgs full ((b, e) :: a :: as) = refTok b ++ (ppE full e ++ tk .comma :: ppArgs full (a :: as)) := by
  simp [ppArgs, refTok]

theorem ppArgs_one (full : Bool) (b : Bool) (e : PE N) : ppArgs full [(b, e)] = refTok b ++ ppE full e := by
  simp [ppArgs, refTok]

/-- a non-empty argument list starts with `&` or with the start of an expression -/
theorem ppArgs_start (full : Bool) (a : Bool × PE N) (as : List (Bool × PE N)) (rest : List Token) :
    ∃ t ts, ppArgs full (a :: as) ++ rest = t :: ts ∧ t.ty ≠ .rparen := by
  obtain ⟨b, e⟩ := a
  obtain ⟨t, ts, h, ht⟩ := ppE_start full e
  cases b with
  | true => cases as with
    | nil => exact ⟨tk .expref, ppE full e ++ rest, by simp [ppArgs_one, refTok], by simp⟩
    | cons a as => exact ⟨tk .expref, ppE full e ++ tk .comma :: (ppArgs full (a :: as) ++ rest), by simp [ppArgs_cons, refTok], by simp⟩
  | false => cases as with
    | nil => exact ⟨t, ts ++ rest, by simp [ppArgs_one, refTok, h], (start_ne ht).2.2.1⟩
    | cons a as => exact ⟨t, ts ++ tk .comma :: (ppArgs full (a :: as) ++ rest), by simp [ppArgs_cons, refTok, h], (start_ne ht).2.2.1⟩

/-- one argument up to the token `t` (a comma or the closing parenthesis) -/
theorem arg_expr (full : Bool) (b : Bool) {e : PE N} (ge : GoodE e) (hw : wf e) (bef : List Token) (t : Token)
    (rest' : List Token) (ht : specPow t.ty = 0) :
    ∃ t0 rest0, refTok b ++ (ppE full e ++ t :: rest') = t0 :: rest0 ∧ (t0.ty = .expref ↔ b = true) ∧
      R T (.expr 0 (if b then (⟨bef, refTok b ++ (ppE full e ++ t :: rest')⟩ : PState).advance else ⟨bef, refTok b ++ (ppE full e ++ t :: rest')⟩))
        (.node (node e) ⟨(ppE full e).reverse ++ ((refTok b).reverse ++ bef), t :: rest'⟩) := by
  obtain ⟨t1, ts1, h1, hs1⟩ := ppE_start full e
  cases b with
  | true =>
    refine ⟨tk .expref, ppE full e ++ t :: rest', by simp [refTok], by simp, ?_⟩
    have := elem_expr ge hw full (tk .expref :: bef) t rest' ht
    simpa [refTok, advance_cons] using this
  | false =>
    refine ⟨t1, ts1 ++ t :: rest', by simp [refTok, h1], by simpa using (start_ne hs1).2.1, ?_⟩
    have := elem_expr ge hw full bef t rest' ht
    simpa [refTok] using this

/-- the arguments of a call -/
theorem args_list (full : Bool) : ∀ (as : List (Bool × PE N)) (a : Bool × PE N), GoodE a.2 → GoodArgs as → wf a.2 → wfArgs as →
    ∀ (bef rest : List Token),
    R T (.args ⟨bef, ppArgs full (a :: as) ++ tk .rparen :: rest⟩)
      (.args (nodeArgs (a :: as)) ⟨(ppArgs full (a :: as)).reverse ++ bef, tk .rparen :: rest⟩)
  | [], (b, e), ge, _, hw, _, bef, rest => by
    obtain ⟨t0, rest0, h0, hb, hx⟩ := arg_expr full b (e := e) ge hw bef (tk .rparen) rest rfl
    rw [ppArgs_one, List.append_assoc]
    cases b with
    | true =>
      simp only [↓reduceIte] at hx
      have := R.argRefLast (tbl := T) (t := tk .rparen) (rest := rest) h0 (hb.mpr rfl) hx rfl rfl
      simpa [nodeArgs, List.reverse_append] using this
    | false =>
      simp only [Bool.false_eq_true, ↓reduceIte] at hx
      have := R.argPlainLast (tbl := T) (t := tk .rparen) (rest := rest) h0 (by simpa using hb) hx rfl rfl
      simpa [nodeArgs, List.reverse_append] using this
  | a2 :: as, (b, e), ge, gl, hw, hl, bef, rest => by
    obtain ⟨t0, rest0, h0, hb, hx⟩ := arg_expr full b (e := e) ge hw bef (tk .comma) (ppArgs full (a2 :: as) ++ tk .rparen :: rest) rfl
    have ih := args_list full as a2 gl.1 gl.2 hl.1 hl.2 (tk .comma :: ((ppE full e).reverse ++ ((refTok b).reverse ++ bef))) rest
    obtain ⟨t2, rest2, h2, hn2⟩ := ppArgs_start full a2 as (tk .rparen :: rest)
    rw [ppArgs_cons]
    simp only [List.append_assoc, List.cons_append]
    cases b with
    | true =>
      simp only [↓reduceIte] at hx
      have := R.argRefMore (tbl := T) (t := tk .comma) (rest := ppArgs full (a2 :: as) ++ tk .rparen :: rest) h0 (hb.mpr rfl)
        hx rfl rfl (t2 := t2) (rest2 := rest2) (by rw [advance_cons]; exact h2) hn2 (by rw [advance_cons]; exact ih)
      simpa [nodeArgs, List.reverse_append, ppArgs_cons] using this
    | false =>
      simp only [Bool.false_eq_true, ↓reduceIte] at hx
      have := R.argPlainMore (tbl := T) (t := tk .comma) (rest := ppArgs full (a2 :: as) ++ tk .rparen :: rest) h0 (by simpa using hb)
        hx rfl rfl (t2 := t2) (rest2 := rest2) (by rw [advance_cons]; exact h2) hn2 (by rw [advance_cons]; exact ih)
      simpa [nodeArgs, List.reverse_append, ppArgs_cons] using this

/-- `name(args)` -/
theorem good_call (n : Bytes) {args : List (Bool × PE N)} (ga : GoodArgs args) : GoodE (.call n args) := by
  intro hw full k bef rest o hk _ hloop
  have hwa : wfArgs args := by simpa [wf] using hw
  have hk60 : k < 60 := by simpa [PE.level] using hk
  have hn : R T (.nud (tk .uident n) (⟨bef, tk .uident n :: tk .lparen :: (ppArgs full args ++ tk .rparen :: rest)⟩ : PState).advance)
      (.node (N := N) (.field n) ⟨tk .uident n :: bef, tk .lparen :: (ppArgs full args ++ tk .rparen :: rest)⟩) := by
    have := R.nudIdent (tbl := T) (N := N) (tok := tk .uident n) (p := ⟨tk .uident n :: bef, tk .lparen :: (ppArgs full args ++ tk .rparen :: rest)⟩) rfl
    simpa [advance_cons] using this
  have e1 : ppE full (.call n args) ++ rest = tk .uident n :: tk .lparen :: (ppArgs full args ++ tk .rparen :: rest) := by
    simp [ppE]
  rw [e1]
  refine R.expr (tok := tk .uident n) rfl hn ?_
  have hled : R T (.led (tk .lparen).ty (.field n) (⟨tk .uident n :: bef, tk .lparen :: (ppArgs full args ++ tk .rparen :: rest)⟩ : PState).advance)
      (.node (.call n (nodeArgs args)) ⟨tk .rparen :: ((ppArgs full args).reverse ++ (tk .lparen :: tk .uident n :: bef)), rest⟩) := by
    rw [advance_cons]
    cases args with
    | nil =>
      have := R.ledCall0 (tbl := T) (N := N) (name := n) (p := ⟨tk .lparen :: tk .uident n :: bef, tk .rparen :: rest⟩)
        (t := tk .rparen) (rest := rest) rfl rfl rfl rfl
      simpa [ppArgs, nodeArgs, advance_cons] using this
    | cons a as =>
      obtain ⟨t0, rest0, h0, hn0⟩ := ppArgs_start full a as (tk .rparen :: rest)
      have ha := args_list full as a ga.1 ga.2 hwa.1 hwa.2 (tk .lparen :: tk .uident n :: bef) rest
      have := R.ledCall (tbl := T) (name := n) (p := ⟨tk .lparen :: tk .uident n :: bef, ppArgs full (a :: as) ++ tk .rparen :: rest⟩)
        (t := tk .rparen) (rest := rest) rfl rfl h0 hn0 ha rfl rfl
      simpa [advance_cons] using this
  refine R.step (t := tk .lparen) (rest := ppArgs full args ++ tk .rparen :: rest) rfl (by rw [T_power]; simpa [specPow] using hk60) hled ?_
  simpa [ppE, node, List.reverse_append] using hloop

/-- `[x, …]` -/
theorem good_list {x : PE N} {xs : List (PE N)} (gx : GoodE x) (gl : GoodList xs) : GoodE (.list x xs) := by
  intro hw full k bef rest o _ _ hloop
  have ⟨hx, hxs⟩ : wf x ∧ wfList xs := by simpa [wf] using hw
  obtain ⟨t0, ts0, h0, hs0⟩ := ppE_start full x
  have hm := msl_list full xs x gx gl hx hxs [] (tk .lbracket :: bef) rest
  have e1 : ppE full (.list x xs) ++ rest = tk .lbracket :: (ppE full x ++ (ppTail full xs ++ tk .rbracket :: rest)) := by
    simp [ppE]
  rw [e1]
  have hn : R T (.nud (tk .lbracket) (⟨bef, tk .lbracket :: (ppE full x ++ (ppTail full xs ++ tk .rbracket :: rest))⟩ : PState).advance)
      (.node (node (.list x xs)) ⟨tk .rbracket :: ((ppTail full xs).reverse ++ ((ppE full x).reverse ++ (tk .lbracket :: bef))), rest⟩) := by
    rw [advance_cons]
    have hne := start_ne hs0
    refine R.nudList (t := t0) (rest := ts0 ++ (ppTail full xs ++ tk .rbracket :: rest)) rfl (by simp [h0]) hne.2.2.2.1 hne.2.2.2.2 hne.1 ?_
    simpa [node] using hm
  refine R.expr (tok := tk .lbracket) rfl hn ?_
  simpa [ppE, List.reverse_append] using hloop

/-- `{k: v, …}` -/
theorem good_hash (q : Bool) (k : Bytes) {v : PE N} {kvs : List (Bool × Bytes × PE N)} (gv : GoodE v) (gl : GoodKVs kvs) :
    GoodE (.hash q k v kvs) := by
  intro hw full lvl bef rest o _ _ hloop
  have ⟨hv, hkvs⟩ : wf v ∧ wfKVs kvs := by simpa [wf] using hw
  have hm := msh_list full kvs q k v gv gl hv hkvs [] (tk .lbrace :: bef) rest
  have e1 : ppE full (.hash q k v kvs) ++ rest = tk .lbrace :: keyTok q k :: tk .colon :: (ppE full v ++ (ppKVs full kvs ++ tk .rbrace :: rest)) := by
    simp [ppE]
  rw [e1]
  have hn : R T (.nud (tk .lbrace) (⟨bef, tk .lbrace :: keyTok q k :: tk .colon :: (ppE full v ++ (ppKVs full kvs ++ tk .rbrace :: rest))⟩ : PState).advance)
      (.node (node (.hash q k v kvs)) ⟨tk .rbrace :: ((ppKVs full kvs).reverse ++ ((ppE full v).reverse ++ (tk .colon :: keyTok q k :: tk .lbrace :: bef))), rest⟩) := by
    rw [advance_cons]
    refine R.nudHash rfl ?_
    simpa [node] using hm
  refine R.expr (tok := tk .lbrace) rfl hn ?_
  simpa [ppE, List.reverse_append] using hloop

theorem dot_list {x : PE N} {xs : List (PE N)} (gx : GoodE x) (gl : GoodList xs) : GoodDot (.list x xs) := by
  intro hw _ full bef rest _
  have ⟨hx, hxs⟩ : wf x ∧ wfList xs := by simpa [wf] using hw
  have hm := msl_list full xs x gx gl hx hxs [] (tk .lbracket :: bef) rest
  have e1 : ppE full (.list x xs) ++ rest = tk .lbracket :: (ppE full x ++ (ppTail full xs ++ tk .rbracket :: rest)) := by
    simp [ppE]
  rw [e1]
  refine R.dotList (t := tk .lbracket) rfl rfl ?_
  rw [advance_cons]
  simpa [ppE, node, List.reverse_append] using hm

theorem dot_hash (q : Bool) (k : Bytes) {v : PE N} {kvs : List (Bool × Bytes × PE N)} (gv : GoodE v) (gl : GoodKVs kvs) :
    GoodDot (.hash q k v kvs) := by
  intro hw _ full bef rest _
  have ⟨hv, hkvs⟩ : wf v ∧ wfKVs kvs := by simpa [wf] using hw
  have hm := msh_list full kvs q k v gv gl hv hkvs [] (tk .lbrace :: bef) rest
  have e1 : ppE full (.hash q k v kvs) ++ rest = tk .lbrace :: keyTok q k :: tk .colon :: (ppE full v ++ (ppKVs full kvs ++ tk .rbrace :: rest)) := by
    simp [ppE]
  rw [e1]
  refine R.dotHash (t := tk .lbrace) rfl rfl ?_
  rw [advance_cons]
  simpa [ppE, node, List.reverse_append] using hm

theorem star_of_start {l : List Token} (h : HeadOK l) : ∃ t ts, l = t :: ts ∧ t.ty ≠ .star := by
  obtain ⟨t, ts, e, ht⟩ := h; exact ⟨t, ts, e, (start_ne ht).1⟩

mutual
/-- Every expression of the fragment is parsed back from its printed form. -/
theorem good_all : (e : PE N) → GoodE e ∧ GoodDot e
  | .ident n => ⟨good_ident n, dot_head (good_ident n) rfl⟩
  | .quoted n => ⟨good_quoted n, dot_head (good_quoted n) rfl⟩
  | .raw s => ⟨good_raw s, dot_not_head rfl⟩
  | .lit t v => ⟨good_lit t v, dot_not_head rfl⟩
  | .current => ⟨good_current, dot_not_head rfl⟩
  | .idx0 t i => ⟨good_idx0 t i, dot_not_head rfl⟩
  | .idx l t i =>
    have g := good_idx t i (good_all l).1
    ⟨g, by
      cases h : dotHead (.idx l t i) with
      | true => exact dot_head g h
      | false => exact dot_not_head (by simpa [dotOK] using h)⟩
  | .sub l r => ⟨good_sub (good_all l).1 (good_all r).2 (fun full => star_of_start (ppE_start full r)), dot_not_head rfl⟩
  | .not e => ⟨good_not (good_all e).1, dot_not_head rfl⟩
  | .bin op l r => ⟨good_bin op (good_all l).1 (good_all r).1, dot_not_head rfl⟩
  | .call n args => ⟨good_call n (good_args args), dot_head (good_call n (good_args args)) rfl⟩
  | .list x xs => ⟨good_list (good_all x).1 (good_list' xs), dot_list (good_all x).1 (good_list' xs)⟩
  | .hash q k v kvs => ⟨good_hash q k (good_all v).1 (good_kvs kvs), dot_hash q k (good_all v).1 (good_kvs kvs)⟩
theorem good_list' : (xs : List (PE N)) → GoodList xs
  | [] => trivial
  | x :: xs => ⟨(good_all x).1, good_list' xs⟩
theorem good_kvs : (kvs : List (Bool × Bytes × PE N)) → GoodKVs kvs
  | [] => trivial
  | (_, _, v) :: rest => ⟨(good_all v).1, good_kvs rest⟩
theorem good_args : (as : List (Bool × PE N)) → GoodArgs as
  | [] => trivial
  | (_, e) :: rest => ⟨(good_all e).1, good_args rest⟩
end

def okTok (t : Token) : Prop := t.ty ≠ .eof ∧ t.pos = 0

theorem ok_tk (ty : TokType) (v : Bytes) (h : ty ≠ .eof) : okTok (tk ty v) := ⟨h, rfl⟩
theorem ok_key (q : Bool) (k : Bytes) : okTok (keyTok q k) := by cases q <;> exact ⟨by simp [keyTok], rfl⟩
theorem ok_op (op : BinOp) : okTok (tk op.tok) := by
  refine ⟨?_, rfl⟩
  cases op with
  | cmp c => cases c <;> simp [BinOp.tok, cmpTok]
  | _ => simp [BinOp.tok]

mutual
theorem ppE_ok (full : Bool) : (e : PE N) → ∀ t ∈ ppE full e, okTok t
  | .ident n | .quoted n | .raw n | .lit n _ => by simp [ppE, ok_tk]
  | .current => by simp [ppE, ok_tk]
  | .idx0 txt i => by simp [ppE, ok_tk]
  | .idx l txt i => by
    have ih := ppE_ok full l
    simp only [ppE]; split <;> simp [parens, ok_tk, or_imp, forall_and] <;> exact ih
  | .sub l r => by
    have ih := ppE_ok full l
    have ih2 := ppE_ok full r
    simp only [ppE]; split <;> simp [parens, ok_tk, or_imp, forall_and] <;> exact ⟨ih, ih2⟩
  | .not e => by
    have ih := ppE_ok full e
    simp only [ppE]; split <;> simp [parens, ok_tk, or_imp, forall_and] <;> exact ih
  | .bin op l r => by
    have ih := ppE_ok full l
    have ih2 := ppE_ok full r
    simp only [ppE]; split <;> split <;> simp [parens, ok_tk, ok_op, or_imp, forall_and] <;> exact ⟨ih, ih2⟩
  | .call n args => by
    have ih := ppArgs_ok full args
    simp [ppE, ok_tk, or_imp, forall_and]; exact ih
  | .list x xs => by
    have ih := ppE_ok full x
    have ih2 := ppTail_ok full xs
    simp [ppE, ok_tk, or_imp, forall_and]; exact ⟨ih, ih2⟩
  | .hash q k v kvs => by
    have ih := ppE_ok full v
    have ih2 := ppKVs_ok full kvs
    simp [ppE, ok_tk, ok_key, or_imp, forall_and]; exact ⟨ih, ih2⟩
theorem ppTail_ok (full : Bool) : (xs : List (PE N)) → ∀ t ∈ ppTail full xs, okTok t
  | [] => by simp [ppTail]
  | x :: xs => by
    have ih := ppE_ok full x
    have ih2 := ppTail_ok full xs
    simp [ppTail, ok_tk, or_imp, forall_and]; exact ⟨ih, ih2⟩
theorem ppKVs_ok (full : Bool) : (kvs : List (Bool × Bytes × PE N)) → ∀ t ∈ ppKVs full kvs, okTok t
  | [] => by simp [ppKVs]
  | (q, k, v) :: rest => by
    have ih := ppE_ok full v
    have ih2 := ppKVs_ok full rest
    simp [ppKVs, ok_tk, ok_key, or_imp, forall_and]; exact ⟨ih, ih2⟩
theorem ppArgs_ok (full : Bool) : (as : List (Bool × PE N)) → ∀ t ∈ ppArgs full as, okTok t
  | [] => by simp [ppArgs]
  | [(b, e)] => by
    have ih := ppE_ok full e
    cases b <;> simp [ppArgs, ok_tk, or_imp, forall_and] <;> exact ih
  | (b, e) :: a :: rest => by
    have ih := ppE_ok full e
    have ih2 := ppArgs_ok full (a :: rest)
    cases b <;> simp only [ppArgs] <;> simp [ok_tk, or_imp, forall_and] <;> exact ⟨ih, ih2⟩
end

/-- The round trip on the relational description. -/
theorem round_trip_R (e : PE N) (hw : wf e) (full : Bool) :
    R T (.expr 0 ⟨[], ppE full e ++ [eofTok 0]⟩) (.node (node e) ⟨(ppE full e).reverse, [eofTok 0]⟩) := by
  have := elem_expr (good_all e).1 hw full [] (eofTok 0) [] rfl
  simpa using this

/-- **Printer round trip**, for the specification's table: the parser maps the
    printed tokens of `e` (minimal or full parenthesisation) to the AST `e` denotes. -/
theorem round_trip_spec (e : PE N) (hw : wf e) (full : Bool) :
    parseTokens T (ppE full e ++ [eofTok 0]) = .ok (node e) := by
  have hR := R_sound T (round_trip_R e hw full) (fuelFor (ppE full e ++ [eofTok 0]).length)
  have htoks : Lexer.TokensOK 0 (ppE full e ++ [eofTok 0]) := by
    refine ⟨⟨ppE full e, rfl, fun t ht => (ppE_ok full e t ht).1⟩, ?_⟩
    intro t ht
    rcases List.mem_append.mp ht with h | h
    · rw [(ppE_ok full e t h).2]; exact Nat.le_refl 0
    · simp at h; subst h; exact Nat.le_refl 0
  have hok := parseTokens_ok (N := N) (tbl := T) (total := 0) rfl _ htoks
  unfold parseTokens at hok ⊢
  simp only [run] at hR
  have htop : T.top = 0 := rfl
  rw [htop] at hok ⊢
  cases hpe : parseExpression (N := N) T (fuelFor (ppE full e ++ [eofTok 0]).length) 0 ⟨[], ppE full e ++ [eofTok 0]⟩ with
  | ok r =>
    obtain ⟨n, p⟩ := r
    rw [hpe] at hR
    simp only [toOutN] at hR
    rcases hR with h | h
    · injection h with h; injection h with h1 h2
      subst h1; subst h2
      have hty : (eofTok 0).ty = .eof := rfl
      simp [bind, Res.bind, PState.cur, hty]
    · cases h
  | err x => rw [hpe] at hR; simp [toOutN] at hR
  | panic s => rw [hpe] at hok; simp [bind, Res.bind, ROK] at hok

end Jmes.Parser
