/-
  Proofs.GenIndex — the index clause of `Execute` (interpreter.go, `case ASTIndex:` on a `[]interface{}`),
  translated from /repo's source on every run (tools/gotolean → `GenSlice.indexSel`), selects the position
  the model's `indexArr` selects.
-/
import Jmes.GeneratedSlice
import Jmes.Interp
namespace Jmes
open Jmes.Slice

/-- The position the translated clause selects, on the domain the code runs on (`length` = len of a Go
    slice, the index from `strconv.Atoi`): negative indices count from the end, out of range is null. -/
theorem gen_indexSel_eq (length i : Int) (hl0 : 0 ≤ length) (hl1 : length ≤ 9223372036854775807)
    (hi : -9223372036854775808 ≤ i ∧ i ≤ 9223372036854775807) :
    GenSlice.indexSel length i =
      (if i < 0 then (if 0 ≤ i + length then some (i + length) else none)
       else (if i < length then some i else none)) := by
  unfold GenSlice.indexSel wrap64
  simp only [decide_eq_true_eq, Bool.and_eq_true, ge_iff_le]
  repeat' split
  all_goals first | rfl | (simp only [Option.some.injEq]; omega) | omega

/-- `indexArr` of the model is "read the position the translated clause selects". -/
theorem gen_index_is_indexArr {N : Type} (xs : List (Val N)) (i : Int) (hlen : (xs.length : Int) ≤ 9223372036854775807)
    (hi : -9223372036854775808 ≤ i ∧ i ≤ 9223372036854775807) :
    Interp.indexArr xs i = (match GenSlice.indexSel xs.length i with
      | some k => xs.getD k.toNat .null
      | none => .null) := by
  rw [gen_indexSel_eq xs.length i (by omega) hlen hi]
  unfold Interp.indexArr
  by_cases h : i < 0
  · simp only [h, if_true]
    by_cases h2 : 0 ≤ i + (xs.length : Int)
    · have : i + (xs.length : Int) < xs.length ∧ i + (xs.length : Int) ≥ 0 := by omega
      simp [h2, this]
    · have : ¬ (i + (xs.length : Int) < xs.length ∧ i + (xs.length : Int) ≥ 0) := by omega
      simp [h2, this]
  · simp only [h, if_false]
    by_cases h2 : i < (xs.length : Int)
    · have : i < xs.length ∧ i ≥ 0 := by omega
      simp [h2, this]
    · have : ¬ (i < xs.length ∧ i ≥ 0) := by omega
      simp [h2, this]

end Jmes

namespace Jmes

/-- util.go's `isFalse`, translated from /repo's source (the clauses of its type switch over the decoded-JSON
    types), is the model's `Val.isFalse`. -/
theorem gen_isFalse_eq {N : Type} (v : Val N) : GenSlice.isFalse v = Val.isFalse v := by
  cases v with
  | null => simp [GenSlice.isFalse, Val.isFalse]
  | bool b => cases b <;> simp [GenSlice.isFalse, Val.isFalse]
  | num n => simp [GenSlice.isFalse, Val.isFalse]
  | str s => cases s <;> simp [GenSlice.isFalse, Val.isFalse] <;> omega
  | arr xs => cases xs <;> simp [GenSlice.isFalse, Val.isFalse] <;> omega
  | obj kvs => cases kvs <;> simp [GenSlice.isFalse, Val.isFalse] <;> omega

end Jmes

namespace Jmes

/-- The comparator clause of `Execute` (interpreter.go, `case ASTComparator:` after the operands are evaluated),
    translated from /repo's source, computes the model's `compareVals`. -/
theorem gen_compareVals_eq {N : Type} [NumOps N] (op : Cmp) (l r : Val N) :
    GenSlice.compareVals op l r = Interp.compareVals op l r := by
  cases op <;> cases l <;> cases r <;> simp [GenSlice.compareVals, Interp.compareVals]

end Jmes
