/-
  Proofs.ParserPos — a successful parse does not depend on token positions,
  nor on the `value` field of tokens whose type alone carries their meaning
  (operators, brackets, …).  Stated on the relational description `R`:
  related calls have related outcomes with the same AST.
-/
import Proofs.ParserComplete
namespace Jmes.Parser
variable {N : Type} [NumOps N]

/-- token types whose `value` the parser reads -/
def valued : TokType → Bool
  | .uident | .qident | .number | .stringLiteral | .jsonLiteral => true
  | _ => false

def TokRel (t t' : Token) : Prop := t.ty = t'.ty ∧ (valued t.ty = true → t.value = t'.value)

inductive ToksRel : List Token → List Token → Prop where
  | nil : ToksRel [] []
  | cons {t t' : Token} {l l' : List Token} : TokRel t t' → ToksRel l l' → ToksRel (t :: l) (t' :: l')

structure PRel (p p' : PState) : Prop where
  before : ToksRel p.before p'.before
  after : ToksRel p.after p'.after

theorem TokRel.refl (t : Token) : TokRel t t := ⟨rfl, fun _ => rfl⟩

theorem PRel.after_cons {p p' : PState} (h : PRel p p') {t : Token} {rest : List Token} (ha : p.after = t :: rest) :
    ∃ t' rest', p'.after = t' :: rest' ∧ TokRel t t' ∧ ToksRel rest rest' ∧ PRel p.advance p'.advance := by
  have h2 := h.after
  rw [ha] at h2
  generalize ha' : p'.after = a' at h2
  cases h2 with
  | cons htt hrr =>
    rename_i t' rest'
    refine ⟨t', rest', rfl, htt, hrr, ?_⟩
    constructor
    · simp only [PState.advance, ha, ha']
      exact ToksRel.cons htt h.before
    · simp only [PState.advance, ha, ha']
      exact hrr

theorem PRel.after_cons2 {p p' : PState} (h : PRel p p') {a b : Token} {rest : List Token} (ha : p.after = a :: b :: rest) :
    ∃ a' b' rest', p'.after = a' :: b' :: rest' ∧ TokRel a a' ∧ TokRel b b' ∧ PRel p.advance.advance p'.advance.advance := by
  obtain ⟨a', r1, ha', haa, _, hadv⟩ := h.after_cons ha
  have h1 : p.advance.after = b :: rest := by simp [PState.advance, ha]
  obtain ⟨b', r2, hb', hbb, _, hadv2⟩ := hadv.after_cons h1
  have : p'.advance.after = r1 := by simp [PState.advance, ha']
  rw [this] at hb'
  exact ⟨a', b', r2, by rw [ha', hb'], haa, hbb, hadv2⟩

theorem PRel.before_cons2 {p p' : PState} (h : PRel p p') {a b : Token} {rest : List Token} (hb : p.before = a :: b :: rest) :
    ∃ a' b' rest', p'.before = a' :: b' :: rest' ∧ TokRel a a' ∧ TokRel b b' := by
  have h2 := h.before
  rw [hb] at h2
  generalize p'.before = x at h2
  cases h2 with
  | cons h1 hr =>
    cases hr with
    | cons h2 _ => exact ⟨_, _, _, rfl, h1, h2⟩

theorem TokRel.ty_eq {t t' : Token} (h : TokRel t t') {ty : TokType} (e : t.ty = ty) : t'.ty = ty := h.1 ▸ e
theorem TokRel.ty_ne {t t' : Token} (h : TokRel t t') {ty : TokType} (e : t.ty ≠ ty) : t'.ty ≠ ty := h.1 ▸ e
theorem TokRel.value_eq {t t' : Token} (h : TokRel t t') (hv : valued t.ty = true) : t'.value = t.value := (h.2 hv).symm

/-! ### cursor functions on related states -/

theorem PRel.cur {p p' : PState} (h : PRel p p') {ty : TokType} (hc : p.cur = .ok ty) : p'.cur = .ok ty := by
  obtain ⟨t, rest, ha, rfl⟩ := cur_ok hc
  obtain ⟨t', rest', ha', htt, _, _⟩ := h.after_cons ha
  rw [(cur_of_after ha').1, htt.1]

theorem PRel.expect {p p1 p' : PState} (h : PRel p p') {ty : TokType} (he : p.expect ty = .ok p1) :
    ∃ p1', p'.expect ty = .ok p1' ∧ PRel p1 p1' := by
  obtain ⟨t, rest, ha, hty, rfl⟩ := expect_ok_inv he
  obtain ⟨t', rest', ha', htt, _, hadv⟩ := h.after_cons ha
  have := expect_ok ha'
  rw [htt.ty_eq hty] at this
  exact ⟨_, this, hadv⟩

theorem syntaxError_ne_ok {α} {p : PState} {t : Token} {rest : List Token} (ha : p.after = t :: rest) {a : α} :
    (p.syntaxError : Res α) ≠ .ok a := by
  unfold PState.syntaxError; rw [ha]; intro h; cases h

/-- the slice loop on related states -/
theorem sliceLoop_rel : ∀ (fuel : Nat) (parts : List (Option Int)) (idx : Nat) (p p' : PState) (parts' : List (Option Int)) (p1 : PState),
    PRel p p' → sliceLoop fuel parts idx p = .ok (parts', p1) →
    ∃ p1', sliceLoop fuel parts idx p' = .ok (parts', p1') ∧ PRel p1 p1'
  | 0, _, _, _, _, _, _, _, h => by simp [sliceLoop] at h
  | fuel + 1, parts, idx, p, p', parts', p1, hr, h => by
    have hcur : ∃ t rest, p.after = t :: rest := by
      simp only [sliceLoop] at h
      obtain ⟨cur, hcur, _⟩ := bind_ok h
      obtain ⟨t, rest, ha, _⟩ := cur_ok hcur
      exact ⟨t, rest, ha⟩
    obtain ⟨t, rest, ha⟩ := hcur
    obtain ⟨t', rest', ha', htt, _, hadv⟩ := hr.after_cons ha
    simp only [sliceLoop, (cur_of_after ha).1, (cur_of_after ha).2, bind, Res.bind] at h
    simp only [sliceLoop, (cur_of_after ha').1, (cur_of_after ha').2, bind, Res.bind, ← htt.1]
    by_cases h1 : t.ty ≠ .rbracket ∧ idx < 3
    · rw [if_pos h1] at h ⊢
      by_cases h2 : t.ty = .colon
      · rw [if_pos h2] at h ⊢
        by_cases h3 : idx + 1 = 3
        · rw [if_pos h3] at h; exact absurd h (syntaxError_ne_ok ha)
        · rw [if_neg h3] at h ⊢
          exact sliceLoop_rel fuel parts (idx + 1) p.advance p'.advance parts' p1 hadv h
      · rw [if_neg h2] at h ⊢
        by_cases h4 : t.ty = .number
        · rw [if_pos h4] at h ⊢
          by_cases h5 : (parts.getD idx none).isSome = true
          · rw [if_pos h5] at h; exact absurd h (syntaxError_ne_ok ha)
          · rw [if_neg h5] at h ⊢
            rw [htt.value_eq (by rw [h4]; rfl)]
            cases hat : atoi t.value with
            | none => rw [hat] at h; cases h
            | some n =>
              rw [hat] at h
              simp only at h ⊢
              exact sliceLoop_rel fuel (parts.set idx (some n)) idx p.advance p'.advance parts' p1 hadv h
        · rw [if_neg h4] at h; exact absurd h (syntaxError_ne_ok ha)
    · rw [if_neg h1] at h ⊢
      simp only [Res.ok.injEq, Prod.mk.injEq] at h
      obtain ⟨rfl, rfl⟩ := h
      exact ⟨p', rfl, hr⟩

theorem after_length_rel {p p' : PState} (h : PRel p p') : p.after.length = p'.after.length := by
  have h2 := h.after
  generalize p.after = a at h2
  generalize p'.after = a' at h2
  induction h2 with
  | nil => rfl
  | cons _ _ ih => simp [ih]

theorem parseIndex_rel {p p' p1 : PState} {right : Node N} (hr : PRel p p')
    (hnc : ∀ t rest, p.after = t :: rest → (t.ty = .number ∨ t.ty = .colon))
    (h : parseIndexExpression (N := N) p = .ok (right, p1)) :
    ∃ p1', parseIndexExpression (N := N) p' = .ok (right, p1') ∧ PRel p1 p1' := by
  simp only [parseIndexExpression] at h ⊢
  obtain ⟨c0, hc0, h⟩ := bind_ok h
  obtain ⟨t0, rest0, ha, rfl⟩ := cur_ok hc0
  obtain ⟨t0', rest0', ha', htt, hrest, hadv⟩ := hr.after_cons ha
  rw [(cur_of_after ha').1, ← htt.1]
  simp only [bind, Res.bind]
  obtain ⟨isSlice, hsl, h⟩ := bind_ok h
  have hsl' : (if t0.ty = .colon then (.ok true : Res Bool) else do
      let c1 ← p'.look1
      .ok (decide (c1 = .colon))) = .ok isSlice := by
    split at hsl
    · rename_i hc; simp only [hc, if_true]; exact hsl
    · rename_i hc
      simp only [hc, if_false]
      obtain ⟨c1, hl1, hsl⟩ := bind_ok hsl
      obtain ⟨a, b, r, hab, rfl⟩ := look1_ok hl1
      obtain ⟨a', b', r', hab', _, hbb, _⟩ := hr.after_cons2 hab
      rw [look1_of_after hab', ← hbb.1]
      exact hsl
  simp only [bind, Res.bind] at hsl'
  rw [hsl']
  cases isSlice with
  | true =>
    simp only [if_true, parseSliceExpression] at h ⊢
    obtain ⟨⟨parts, p2⟩, hloop, h⟩ := bind_ok h
    obtain ⟨p3, hexp, h⟩ := bind_ok h
    dsimp only at hexp h
    simp only [Res.ok.injEq, Prod.mk.injEq] at h
    obtain ⟨rfl, rfl⟩ := h
    rw [after_length_rel hr] at hloop
    obtain ⟨p2', hloop', hp2⟩ := sliceLoop_rel _ _ _ p p' parts p2 hr hloop
    obtain ⟨p3', hexp', hp3⟩ := hp2.expect hexp
    simp only [bind, Res.bind, hloop', hexp']
    exact ⟨p3', rfl, hp3⟩
  | false =>
    simp only [Bool.false_eq_true, if_false] at h ⊢
    obtain ⟨t, htok, h⟩ := bind_ok h
    have e1 := (cur_of_after ha).2
    rw [e1] at htok; simp only [Res.ok.injEq] at htok; subst htok
    rw [(cur_of_after ha').2]
    simp only [bind, Res.bind]
    -- not a slice: the first token is a number (the callers guarantee number or colon)
    have hnum : t0.ty = .number := by
      rcases hnc t0 rest0 ha with h' | h'
      · exact h'
      · simp [h'] at hsl
    rw [htt.value_eq (by rw [hnum]; rfl)]
    cases hat : atoi t0.value with
    | none => rw [hat] at h; cases h
    | some n =>
      rw [hat] at h
      simp only at h ⊢
      obtain ⟨p2, hexp, h⟩ := bind_ok h
      simp only [Res.ok.injEq, Prod.mk.injEq] at h
      obtain ⟨rfl, rfl⟩ := h
      obtain ⟨p2', hexp', hp2⟩ := hadv.expect hexp
      simp only [bind, Res.bind, hexp']
      exact ⟨p2', rfl, hp2⟩

/-! ### the transfer theorem -/

def Call.state : Call N → PState
  | .expr _ p | .loop _ _ p | .nud _ p | .led _ _ p | .dot _ p | .msl p _ | .msh p _ | .args p | .prhs _ p
  | .filter _ p | .pis _ _ p => p

def Call.tok : Call N → Token
  | .nud t _ => t
  | _ => default

/-- the same call on another state (and, for `nud`, another token) -/
def Call.retarget : Call N → Token → PState → Call N
  | .expr k _, _, p => .expr k p
  | .loop k l _, _, p => .loop k l p
  | .nud _ _, t, p => .nud t p
  | .led ty l _, _, p => .led ty l p
  | .dot k _, _, p => .dot k p
  | .msl _ acc, _, p => .msl p acc
  | .msh _ acc, _, p => .msh p acc
  | .args _, _, p => .args p
  | .prhs k _, _, p => .prhs k p
  | .filter n _, _, p => .filter n p
  | .pis l r _, _, p => .pis l r p

def Out.state : Out N → PState
  | .node _ p | .args _ p => p

def Out.setState : Out N → PState → Out N
  | .node n _, p => .node n p
  | .args a _, p => .args a p

/-- the statement carried through the induction -/
def Transfers (tbl : ParserTable) (c : Call N) (o : Out N) : Prop :=
  ∀ (tok' : Token) (p' : PState), PRel c.state p' → TokRel c.tok tok' →
    ∃ p1', PRel o.state p1' ∧ R tbl (c.retarget tok' p') (o.setState p1')

/-- **A successful parse depends on the token types and on the values of
    identifiers, numbers and literals only** — not on positions, not on what
    the lexer stored as the value of an operator token. -/
theorem R_transfer (tbl : ParserTable) {c : Call N} {o : Out N} (h : R tbl c o) : Transfers tbl c o := by
  induction h with
  | @expr rbp p tok rest left p1 o hafter _ _ ih1 ih2 =>
    intro _ p' hp _
    obtain ⟨tok', rest', ha', htt, _, hadv⟩ := hp.after_cons hafter
    obtain ⟨p1', hp1, hR1⟩ := ih1 tok' p'.advance hadv htt
    obtain ⟨p2', hp2, hR2⟩ := ih2 default p1' hp1 (TokRel.refl _)
    exact ⟨p2', hp2, R.expr ha' hR1 hR2⟩
  | @stop rbp left p t rest hafter hnot =>
    intro _ p' hp _
    obtain ⟨t', rest', ha', htt, _, _⟩ := hp.after_cons hafter
    exact ⟨p', hp, R.stop ha' (by rw [← htt.1]; exact hnot)⟩
  | @step rbp left p t rest left' p1 o hafter hlt _ _ ih1 ih2 =>
    intro _ p' hp _
    obtain ⟨t', rest', ha', htt, _, hadv⟩ := hp.after_cons hafter
    obtain ⟨p1', hp1, hR1⟩ := ih1 default p'.advance hadv (TokRel.refl _)
    obtain ⟨p2', hp2, hR2⟩ := ih2 default p1' hp1 (TokRel.refl _)
    refine ⟨p2', hp2, R.step ha' (by rw [← htt.1]; exact hlt) ?_ hR2⟩
    rw [← htt.1]; exact hR1
  | @nudJson tok p v hty hdec =>
    intro tok' p' hp htt
    exact ⟨p', hp, R.nudJson (htt.ty_eq hty) (by rw [htt.value_eq (show valued tok.ty = true by rw [hty]; rfl)]; exact hdec)⟩
  | @nudRaw tok p hty =>
    intro tok' p' hp htt
    have := R.nudRaw (tbl := tbl) (N := N) (tok := tok') (p := p') (htt.ty_eq hty)
    rw [htt.value_eq (show valued tok.ty = true by rw [hty]; rfl)] at this
    exact ⟨p', hp, this⟩
  | @nudIdent tok p hty =>
    intro tok' p' hp htt
    have := R.nudIdent (tbl := tbl) (N := N) (tok := tok') (p := p') (htt.ty_eq hty)
    rw [htt.value_eq (show valued tok.ty = true by rw [hty]; rfl)] at this
    exact ⟨p', hp, this⟩
  | @nudQuoted tok p t rest hty hafter hne =>
    intro tok' p' hp htt
    obtain ⟨t', rest', ha', htt', _, _⟩ := hp.after_cons hafter
    have := R.nudQuoted (tbl := tbl) (N := N) (tok := tok') (p := p') (htt.ty_eq hty) ha' (htt'.ty_ne hne)
    rw [htt.value_eq (show valued tok.ty = true by rw [hty]; rfl)] at this
    exact ⟨p', hp, this⟩
  | @nudCurrent tok p hty =>
    intro tok' p' hp htt
    exact ⟨p', hp, R.nudCurrent (htt.ty_eq hty)⟩
  | @nudNot tok p e p1 hty _ ih =>
    intro tok' p' hp htt
    obtain ⟨p1', hp1, hR⟩ := ih default p' hp (TokRel.refl _)
    exact ⟨p1', hp1, R.nudNot (htt.ty_eq hty) hR⟩
  | @nudParen tok p e p1 t rest hty _ hafter hrp ih =>
    intro tok' p' hp htt
    obtain ⟨p1', hp1, hR⟩ := ih default p' hp (TokRel.refl _)
    obtain ⟨t', rest', ha', htt', _, hadv⟩ := hp1.after_cons hafter
    exact ⟨p1'.advance, hadv, R.nudParen (htt.ty_eq hty) hR ha' (htt'.ty_eq hrp)⟩
  | @nudIndex tok p n rb rest i hty hafter hnum hrb hat =>
    intro tok' p' hp htt
    obtain ⟨n', rb', rest', ha', hnn, hbb, hadv⟩ := hp.after_cons2 hafter
    exact ⟨_, hadv, R.nudIndex (htt.ty_eq hty) ha' (hnn.ty_eq hnum) (hbb.ty_eq hrb)
      (by rw [hnn.value_eq (by rw [hnum]; rfl)]; exact hat)⟩
  | @nudList tok p t rest o hty hafter h1 h2 h3 _ ih =>
    intro tok' p' hp htt
    obtain ⟨t', rest', ha', htt', _, _⟩ := hp.after_cons hafter
    obtain ⟨p1', hp1, hR⟩ := ih default p' hp (TokRel.refl _)
    exact ⟨p1', hp1, R.nudList (htt.ty_eq hty) ha' (htt'.ty_ne h1) (htt'.ty_ne h2) (htt'.ty_ne h3) hR⟩
  | @nudHash tok p o hty _ ih =>
    intro tok' p' hp htt
    obtain ⟨p1', hp1, hR⟩ := ih default p' hp (TokRel.refl _)
    exact ⟨p1', hp1, R.nudHash (htt.ty_eq hty) hR⟩
  | @ledDot n p t rest r p1 hafter hns _ ih =>
    intro _ p' hp _
    obtain ⟨t', rest', ha', htt', _, _⟩ := hp.after_cons hafter
    obtain ⟨p1', hp1, hR⟩ := ih default p' hp (TokRel.refl _)
    exact ⟨p1', hp1, R.ledDot ha' (htt'.ty_ne hns) hR⟩
  | @ledPipe n p r p1 _ ih =>
    intro _ p' hp _
    obtain ⟨p1', hp1, hR⟩ := ih default p' hp (TokRel.refl _)
    exact ⟨p1', hp1, R.ledPipe hR⟩
  | @ledOr n p r p1 _ ih =>
    intro _ p' hp _
    obtain ⟨p1', hp1, hR⟩ := ih default p' hp (TokRel.refl _)
    exact ⟨p1', hp1, R.ledOr hR⟩
  | @ledAnd n p r p1 _ ih =>
    intro _ p' hp _
    obtain ⟨p1', hp1, hR⟩ := ih default p' hp (TokRel.refl _)
    exact ⟨p1', hp1, R.ledAnd hR⟩
  | @ledCmp ty op n p r p1 hop _ ih =>
    intro _ p' hp _
    obtain ⟨p1', hp1, hR⟩ := ih default p' hp (TokRel.refl _)
    exact ⟨p1', hp1, R.ledCmp hop hR⟩
  | @ledCall0 name p lp prev more t rest hbef hprev hafter hrp =>
    intro _ p' hp _
    obtain ⟨lp', prev', more', hb', _, hpp⟩ := hp.before_cons2 hbef
    obtain ⟨t', rest', ha', htt', _, hadv⟩ := hp.after_cons hafter
    exact ⟨_, hadv, R.ledCall0 hb' (hpp.ty_eq hprev) ha' (htt'.ty_eq hrp)⟩
  | @ledCall name p lp prev more t0 rest0 as p1 t rest hbef hprev hafter hnr _ hafter1 hrp ih =>
    intro _ p' hp _
    obtain ⟨lp', prev', more', hb', _, hpp⟩ := hp.before_cons2 hbef
    obtain ⟨t0', rest0', ha', htt0, _, _⟩ := hp.after_cons hafter
    obtain ⟨p1', hp1, hR⟩ := ih default p' hp (TokRel.refl _)
    obtain ⟨t', rest', ha1', htt', _, hadv⟩ := hp1.after_cons hafter1
    exact ⟨_, hadv, R.ledCall hb' (hpp.ty_eq hprev) ha' (htt0.ty_ne hnr) hR ha1' (htt'.ty_eq hrp)⟩
  | @ledIndex node p n rb rest i hafter hnum hrb hat =>
    intro _ p' hp _
    obtain ⟨n', rb', rest', ha', hnn, hbb, hadv⟩ := hp.after_cons2 hafter
    exact ⟨_, hadv, R.ledIndex ha' (hnn.ty_eq hnum) (hbb.ty_eq hrb) (by rw [hnn.value_eq (by rw [hnum]; rfl)]; exact hat)⟩
  | @dotIdent bp p t rest o hafter hty _ ih =>
    intro _ p' hp _
    obtain ⟨t', rest', ha', htt', _, _⟩ := hp.after_cons hafter
    obtain ⟨p1', hp1, hR⟩ := ih default p' hp (TokRel.refl _)
    exact ⟨p1', hp1, R.dotIdent ha' (by rw [← htt'.1]; exact hty) hR⟩
  | @dotList bp p t rest o hafter hty _ ih =>
    intro _ p' hp _
    obtain ⟨t', rest', ha', htt', _, hadv⟩ := hp.after_cons hafter
    obtain ⟨p1', hp1, hR⟩ := ih default p'.advance hadv (TokRel.refl _)
    exact ⟨p1', hp1, R.dotList ha' (htt'.ty_eq hty) hR⟩
  | @dotHash bp p t rest o hafter hty _ ih =>
    intro _ p' hp _
    obtain ⟨t', rest', ha', htt', _, hadv⟩ := hp.after_cons hafter
    obtain ⟨p1', hp1, hR⟩ := ih default p'.advance hadv (TokRel.refl _)
    exact ⟨p1', hp1, R.dotHash ha' (htt'.ty_eq hty) hR⟩
  | @mslLast p acc e p1 t rest _ hafter hrb ih =>
    intro _ p' hp _
    obtain ⟨p1', hp1, hR⟩ := ih default p' hp (TokRel.refl _)
    obtain ⟨t', rest', ha', htt', _, hadv⟩ := hp1.after_cons hafter
    exact ⟨_, hadv, R.mslLast hR ha' (htt'.ty_eq hrb)⟩
  | @mslMore p acc e p1 t rest o _ hafter hcm _ ih1 ih2 =>
    intro _ p' hp _
    obtain ⟨p1', hp1, hR1⟩ := ih1 default p' hp (TokRel.refl _)
    obtain ⟨t', rest', ha', htt', _, hadv⟩ := hp1.after_cons hafter
    obtain ⟨p2', hp2, hR2⟩ := ih2 default p1'.advance hadv (TokRel.refl _)
    exact ⟨p2', hp2, R.mslMore hR1 ha' (htt'.ty_eq hcm) hR2⟩
  | @mshLast p acc k c rest0 v p2 t rest hafter hk hc _ hafter2 hrb ih =>
    intro _ p' hp _
    obtain ⟨k', c', rest0', ha', hkk, hcc, hadv⟩ := hp.after_cons2 hafter
    obtain ⟨p2', hp2, hR⟩ := ih default p'.advance.advance hadv (TokRel.refl _)
    obtain ⟨t', rest', ha2', htt', _, hadv2⟩ := hp2.after_cons hafter2
    have hkv : k'.value = k.value := hkk.value_eq (by rcases hk with h | h <;> rw [h] <;> rfl)
    have := R.mshLast (tbl := tbl) (acc := acc) ha' (by rw [← hkk.1]; exact hk) (hcc.ty_eq hc) hR ha2' (htt'.ty_eq hrb)
    rw [hkv] at this
    exact ⟨_, hadv2, this⟩
  | @mshMore p acc k c rest0 v p2 t rest o hafter hk hc _ hafter2 hcm _ ih1 ih2 =>
    intro _ p' hp _
    obtain ⟨k', c', rest0', ha', hkk, hcc, hadv⟩ := hp.after_cons2 hafter
    obtain ⟨p2', hp2, hR1⟩ := ih1 default p'.advance.advance hadv (TokRel.refl _)
    obtain ⟨t', rest', ha2', htt', _, hadv2⟩ := hp2.after_cons hafter2
    have hkv : k'.value = k.value := hkk.value_eq (by rcases hk with h | h <;> rw [h] <;> rfl)
    obtain ⟨p3', hp3, hR2⟩ := ih2 default p2'.advance hadv2 (TokRel.refl _)
    refine ⟨p3', hp3, R.mshMore ha' (by rw [← hkk.1]; exact hk) (hcc.ty_eq hc) hR1 ha2' (htt'.ty_eq hcm) ?_⟩
    rw [hkv]; exact hR2
  | @argPlainLast p t0 rest0 e p1 t rest hafter hne _ hafter1 hrp ih =>
    intro _ p' hp _
    obtain ⟨t0', rest0', ha', htt0, _, _⟩ := hp.after_cons hafter
    obtain ⟨p1', hp1, hR⟩ := ih default p' hp (TokRel.refl _)
    obtain ⟨t', rest', ha1', htt', _, _⟩ := hp1.after_cons hafter1
    exact ⟨p1', hp1, R.argPlainLast ha' (htt0.ty_ne hne) hR ha1' (htt'.ty_eq hrp)⟩
  | @argRefLast p t0 rest0 e p1 t rest hafter hty _ hafter1 hrp ih =>
    intro _ p' hp _
    obtain ⟨t0', rest0', ha', htt0, _, hadv⟩ := hp.after_cons hafter
    obtain ⟨p1', hp1, hR⟩ := ih default p'.advance hadv (TokRel.refl _)
    obtain ⟨t', rest', ha1', htt', _, _⟩ := hp1.after_cons hafter1
    exact ⟨p1', hp1, R.argRefLast ha' (htt0.ty_eq hty) hR ha1' (htt'.ty_eq hrp)⟩
  | @argPlainMore p t0 rest0 e p1 t rest t2 rest2 as p3 hafter hne _ hafter1 hcm hafter2 hnr _ ih1 ih2 =>
    intro _ p' hp _
    obtain ⟨t0', rest0', ha', htt0, _, _⟩ := hp.after_cons hafter
    obtain ⟨p1', hp1, hR1⟩ := ih1 default p' hp (TokRel.refl _)
    obtain ⟨t', rest', ha1', htt', _, hadv⟩ := hp1.after_cons hafter1
    obtain ⟨t2', rest2', ha2', htt2, _, _⟩ := hadv.after_cons hafter2
    obtain ⟨p3', hp3, hR2⟩ := ih2 default p1'.advance hadv (TokRel.refl _)
    exact ⟨p3', hp3, R.argPlainMore ha' (htt0.ty_ne hne) hR1 ha1' (htt'.ty_eq hcm) ha2' (htt2.ty_ne hnr) hR2⟩
  | @argRefMore p t0 rest0 e p1 t rest t2 rest2 as p3 hafter hty _ hafter1 hcm hafter2 hnr _ ih1 ih2 =>
    intro _ p' hp _
    obtain ⟨t0', rest0', ha', htt0, _, hadv0⟩ := hp.after_cons hafter
    obtain ⟨p1', hp1, hR1⟩ := ih1 default p'.advance hadv0 (TokRel.refl _)
    obtain ⟨t', rest', ha1', htt', _, hadv⟩ := hp1.after_cons hafter1
    obtain ⟨t2', rest2', ha2', htt2, _, _⟩ := hadv.after_cons hafter2
    obtain ⟨p3', hp3, hR2⟩ := ih2 default p1'.advance hadv (TokRel.refl _)
    exact ⟨p3', hp3, R.argRefMore ha' (htt0.ty_eq hty) hR1 ha1' (htt'.ty_eq hcm) ha2' (htt2.ty_ne hnr) hR2⟩
  | @nudStarR tok p t rest hty hafter hrb =>
    intro tok' p' hp htt
    obtain ⟨t', rest', ha', htt', _, _⟩ := hp.after_cons hafter
    exact ⟨p', hp, R.nudStarR (htt.ty_eq hty) ha' (htt'.ty_eq hrb)⟩
  | @nudStar tok p t rest r p1 hty hafter hnrb _ ih =>
    intro tok' p' hp htt
    obtain ⟨t', rest', ha', htt', _, _⟩ := hp.after_cons hafter
    obtain ⟨p1', hp1, hR⟩ := ih default p' hp (TokRel.refl _)
    exact ⟨p1', hp1, R.nudStar (htt.ty_eq hty) ha' (htt'.ty_ne hnrb) hR⟩
  | @nudFilter tok p o hty _ ih =>
    intro tok' p' hp htt
    obtain ⟨p1', hp1, hR⟩ := ih default p' hp (TokRel.refl _)
    exact ⟨p1', hp1, R.nudFilter (htt.ty_eq hty) hR⟩
  | @nudFlatten tok p r p1 hty _ ih =>
    intro tok' p' hp htt
    obtain ⟨p1', hp1, hR⟩ := ih default p' hp (TokRel.refl _)
    exact ⟨p1', hp1, R.nudFlatten (htt.ty_eq hty) hR⟩
  | @nudBracketIdx tok p t rest right p1 o hty hafter hnc hidx _ ih =>
    intro tok' p' hp htt
    obtain ⟨t', rest', ha', htt', _, _⟩ := hp.after_cons hafter
    obtain ⟨p1', hidx', hp1⟩ := parseIndex_rel hp (fun t2 r2 h2 => by
      have h2' : p.after = t2 :: r2 := h2
      rw [hafter] at h2'; simp only [List.cons.injEq] at h2'; rw [← h2'.1]; exact hnc) hidx
    obtain ⟨p2', hp2, hR⟩ := ih default p1' hp1 (TokRel.refl _)
    exact ⟨p2', hp2, R.nudBracketIdx (htt.ty_eq hty) ha' (by rw [← htt'.1]; exact hnc) hidx' hR⟩
  | @nudBracketStar tok p s rb rest r p1 hty hafter hs hrb _ ih =>
    intro tok' p' hp htt
    obtain ⟨s', rb', rest', ha', hss, hbb, hadv⟩ := hp.after_cons2 hafter
    obtain ⟨p1', hp1, hR⟩ := ih default p'.advance.advance hadv (TokRel.refl _)
    exact ⟨p1', hp1, R.nudBracketStar (htt.ty_eq hty) ha' (hss.ty_eq hs) (hbb.ty_eq hrb) hR⟩
  | @nudListStar tok p t u rest o hty hafter hs hnrb _ ih =>
    intro tok' p' hp htt
    obtain ⟨t', u', rest', ha', htt', huu, _⟩ := hp.after_cons2 hafter
    obtain ⟨p1', hp1, hR⟩ := ih default p' hp (TokRel.refl _)
    exact ⟨p1', hp1, R.nudListStar (htt.ty_eq hty) ha' (htt'.ty_eq hs) (huu.ty_ne hnrb) hR⟩
  | @ledDotStar n p t rest r p1 hafter hs _ ih =>
    intro _ p' hp _
    obtain ⟨t', rest', ha', htt', _, hadv⟩ := hp.after_cons hafter
    obtain ⟨p1', hp1, hR⟩ := ih default p'.advance hadv (TokRel.refl _)
    exact ⟨p1', hp1, R.ledDotStar ha' (htt'.ty_eq hs) hR⟩
  | @ledFilter n p o _ ih =>
    intro _ p' hp _
    obtain ⟨p1', hp1, hR⟩ := ih default p' hp (TokRel.refl _)
    exact ⟨p1', hp1, R.ledFilter hR⟩
  | @ledFlatten n p r p1 _ ih =>
    intro _ p' hp _
    obtain ⟨p1', hp1, hR⟩ := ih default p' hp (TokRel.refl _)
    exact ⟨p1', hp1, R.ledFlatten hR⟩
  | @ledBracketIdx n p t rest right p1 o hafter hnc hidx _ ih =>
    intro _ p' hp _
    obtain ⟨t', rest', ha', htt', _, _⟩ := hp.after_cons hafter
    obtain ⟨p1', hidx', hp1⟩ := parseIndex_rel hp (fun t2 r2 h2 => by
      have h2' : p.after = t2 :: r2 := h2
      rw [hafter] at h2'; simp only [List.cons.injEq] at h2'; rw [← h2'.1]; exact hnc) hidx
    obtain ⟨p2', hp2, hR⟩ := ih default p1' hp1 (TokRel.refl _)
    exact ⟨p2', hp2, R.ledBracketIdx ha' (by rw [← htt'.1]; exact hnc) hidx' hR⟩
  | @ledBracketStar n p s rb rest r p1 hafter hs hrb _ ih =>
    intro _ p' hp _
    obtain ⟨s', rb', rest', ha', hss, hbb, hadv⟩ := hp.after_cons2 hafter
    obtain ⟨p1', hp1, hR⟩ := ih default p'.advance.advance hadv (TokRel.refl _)
    exact ⟨p1', hp1, R.ledBracketStar ha' (hss.ty_eq hs) (hbb.ty_eq hrb) hR⟩
  | @pisSlice l r p rhs p1 hsl _ ih =>
    intro _ p' hp _
    obtain ⟨p1', hp1, hR⟩ := ih default p' hp (TokRel.refl _)
    exact ⟨p1', hp1, R.pisSlice hsl hR⟩
  | @pisIndex l r p hsl =>
    intro _ p' hp _
    exact ⟨p', hp, R.pisIndex hsl⟩
  | @filterFlat n p cond p1 rb t rest _ hafter hrb hfl ih =>
    intro _ p' hp _
    obtain ⟨p1', hp1, hR⟩ := ih default p' hp (TokRel.refl _)
    obtain ⟨rb', t', rest', ha', hbb, htt', _⟩ := hp1.after_cons2 hafter
    obtain ⟨_, _, _, _, _, hadv⟩ := hp1.after_cons (show p1.after = rb :: (t :: rest) from hafter)
    exact ⟨_, hadv, R.filterFlat hR ha' (hbb.ty_eq hrb) (htt'.ty_eq hfl)⟩
  | @filterRhs n p cond p1 rb t rest r p2 _ hafter hrb hnfl _ ih1 ih2 =>
    intro _ p' hp _
    obtain ⟨p1', hp1, hR1⟩ := ih1 default p' hp (TokRel.refl _)
    obtain ⟨rb', t', rest', ha', hbb, htt', _⟩ := hp1.after_cons2 hafter
    obtain ⟨_, _, _, _, _, hadv⟩ := hp1.after_cons (show p1.after = rb :: (t :: rest) from hafter)
    obtain ⟨p2', hp2, hR2⟩ := ih2 default p1'.advance hadv (TokRel.refl _)
    exact ⟨p2', hp2, R.filterRhs hR1 ha' (hbb.ty_eq hrb) (htt'.ty_ne hnfl) hR2⟩
  | @prhsId bp p t rest hafter hlt =>
    intro _ p' hp _
    obtain ⟨t', rest', ha', htt', _, _⟩ := hp.after_cons hafter
    exact ⟨p', hp, R.prhsId ha' (by rw [← htt'.1]; exact hlt)⟩
  | @prhsBracket bp p t rest o hafter hnlt hty _ ih =>
    intro _ p' hp _
    obtain ⟨t', rest', ha', htt', _, _⟩ := hp.after_cons hafter
    obtain ⟨p1', hp1, hR⟩ := ih default p' hp (TokRel.refl _)
    exact ⟨p1', hp1, R.prhsBracket ha' (by rw [← htt'.1]; exact hnlt) (by rw [← htt'.1]; exact hty) hR⟩
  | @prhsDot bp p t rest o hafter hnlt hty _ ih =>
    intro _ p' hp _
    obtain ⟨t', rest', ha', htt', _, hadv⟩ := hp.after_cons hafter
    obtain ⟨p1', hp1, hR⟩ := ih default p'.advance hadv (TokRel.refl _)
    exact ⟨p1', hp1, R.prhsDot ha' (by rw [← htt'.1]; exact hnlt) (htt'.ty_eq hty) hR⟩
  | @dotStar bp p t rest o hafter hty _ ih =>
    intro _ p' hp _
    obtain ⟨t', rest', ha', htt', _, _⟩ := hp.after_cons hafter
    obtain ⟨p1', hp1, hR⟩ := ih default p' hp (TokRel.refl _)
    exact ⟨p1', hp1, R.dotStar ha' (htt'.ty_eq hty) hR⟩

end Jmes.Parser
