/-
  Proofs.FunctionsMore — helper lemmas for the number branches of `min`,
  `min_by` (the loops for an arbitrary strict total order on the number type,
  as Proofs.StrOrder does for strings), arrays of numbers as the handlers see
  them, and lookups in association lists (for `merge`).  Helper lemmas for
  Props.C09.
-/
import Jmes.Functions
namespace Jmes.FnMore
open Jmes Jmes.Val Jmes.Fn

/-! ### strict total orders on the number type -/

section order
variable {N : Type}

/-- A strict total order on numbers, as a Boolean relation. -/
structure StrictOrdN (lt : N → N → Bool) : Prop where
  irrefl : ∀ a, lt a a = false
  trans : ∀ a b c, lt a b = true → lt b c = true → lt a c = true
  total : ∀ a b, lt a b = true ∨ a = b ∨ lt b a = true

/-- Go's `<` on numbers (under the number laws) … -/
theorem numLt_ord [NumOps N] [NumLaws N] : StrictOrdN (fun a b : N => NumOps.lt a b) :=
  ⟨NumLaws.lt_irrefl, NumLaws.lt_trans, NumLaws.lt_total⟩

/-- … and its converse (used by `min`, `min_by`). -/
theorem numGt_ord [NumOps N] [NumLaws N] : StrictOrdN (fun a b : N => NumOps.lt b a) :=
  ⟨NumLaws.lt_irrefl, fun a b c h1 h2 => NumLaws.lt_trans c b a h2 h1, fun a b => by
    rcases NumLaws.lt_total a b with h | h | h
    · exact Or.inr (Or.inr h)
    · exact Or.inr (Or.inl h)
    · exact Or.inl h⟩

/-! ### max / min: the loop `if best < x then x else best` -/

/-- `maxNum` / `minNum`, for an arbitrary comparison. -/
def extLoopN (lt : N → N → Bool) : N → List N → N
  | best, [] => best
  | best, x :: xs => extLoopN lt (if lt best x then x else best) xs

theorem maxNum_eq_extLoopN [NumOps N] : ∀ (xs : List N) (best : N),
    maxNum best xs = extLoopN (fun a b => NumOps.lt a b) best xs
  | [], _ => rfl
  | x :: xs, best => by simp only [maxNum, extLoopN]; exact maxNum_eq_extLoopN xs _

theorem minNum_eq_extLoopN [NumOps N] : ∀ (xs : List N) (best : N),
    minNum best xs = extLoopN (fun a b => NumOps.lt b a) best xs
  | [], _ => rfl
  | x :: xs, best => by simp only [minNum, extLoopN]; exact minNum_eq_extLoopN xs _

theorem extLoopN_mem (lt : N → N → Bool) (best : N) (xs : List N) :
    extLoopN lt best xs ∈ best :: xs := by
  induction xs generalizing best with
  | nil => simp [extLoopN]
  | cons x xs ih =>
    simp only [extLoopN]
    have h := ih (if lt best x then x else best)
    rcases List.mem_cons.mp h with e | e
    · rw [e]; split <;> simp
    · exact List.mem_cons_of_mem _ (List.mem_cons_of_mem _ e)

theorem extLoopN_ge {lt : N → N → Bool} (o : StrictOrdN lt) :
    ∀ (best : N) (xs : List N), lt (extLoopN lt best xs) best = false ∧
      ∀ x ∈ xs, lt (extLoopN lt best xs) x = false
  | best, [] => ⟨o.irrefl best, by intro x hx; cases hx⟩
  | best, y :: ys => by
    simp only [extLoopN]
    have ih := extLoopN_ge o (if lt best y then y else best) ys
    have key : ∀ m : N, lt m (if lt best y then y else best) = false → lt m best = false ∧ lt m y = false := by
      intro m hm
      by_cases hb : lt best y = true
      · simp only [hb, if_true] at hm
        refine ⟨?_, hm⟩
        cases h : lt m best
        · rfl
        · have := o.trans m best y h hb; rw [hm] at this; cases this
      · have hb' : lt best y = false := by simpa using hb
        simp only [hb', Bool.false_eq_true, if_false] at hm
        refine ⟨hm, ?_⟩
        cases h : lt m y
        · rfl
        · rcases o.total best y with h1 | h1 | h1
          · rw [hb'] at h1; cases h1
          · subst h1; rw [hm] at h; cases h
          · have := o.trans m y best h h1; rw [hm] at this; cases this
    obtain ⟨h1, h2⟩ := key _ ih.1
    refine ⟨h1, ?_⟩
    intro x hx
    rcases List.mem_cons.mp hx with rfl | hx'
    · exact h2
    · exact ih.2 x hx'

theorem extLoopN_extreme {lt : N → N → Bool} (o : StrictOrdN lt) (x : N) (xs : List N) :
    extLoopN lt x xs ∈ x :: xs ∧ ∀ y ∈ x :: xs, lt (extLoopN lt x xs) y = false := by
  refine ⟨extLoopN_mem lt x xs, ?_⟩
  intro y hy
  rcases List.mem_cons.mp hy with rfl | hy'
  · exact (extLoopN_ge o y xs).1
  · exact (extLoopN_ge o x xs).2 y hy'

/-- `minNum` never exceeds its start value nor any element. -/
theorem minNum_le [NumOps N] [NumLaws N] (best : N) (xs : List N) :
    NumOps.lt best (minNum best xs) = false ∧ ∀ x ∈ xs, NumOps.lt x (minNum best xs) = false := by
  rw [minNum_eq_extLoopN]
  exact extLoopN_ge numGt_ord best xs

/-! ### max_by / min_by with number keys: the FIRST extremal element -/

/-- Invariant of the max_by / min_by loop with number keys, for a strict total
    order `lt` (`better cur best := lt best cur`): the result is the current
    best unless a later element has a strictly better key; ties keep the
    earlier element. -/
theorem byLoopNum_first {lt : N → N → Bool} (o : StrictOrdN lt) (f : Val N → Res (Val N)) (key : Val N → N) :
    ∀ (xs : List (Val N)) (bv : N) (bi r : Val N), (∀ x ∈ xs, f x = .ok (.num (key x))) →
    byLoopNum f (fun cur best => lt best cur) bv bi xs = .ok r →
    (r = bi ∧ ∀ x ∈ xs, lt bv (key x) = false) ∨
    (∃ pre post, xs = pre ++ r :: post ∧ lt bv (key r) = true ∧
      (∀ x ∈ pre, lt (key x) (key r) = true) ∧
      ∀ x ∈ post, lt (key r) (key x) = false)
  | [], bv, bi, r, _, h => by
    simp [byLoopNum] at h
    exact Or.inl ⟨h.symm, by intro x hx; cases hx⟩
  | y :: ys, bv, bi, r, hf, h => by
    simp only [byLoopNum, hf y (by simp)] at h
    have hf' : ∀ x ∈ ys, f x = .ok (.num (key x)) := fun x hx => hf x (by simp [hx])
    by_cases hb : lt bv (key y) = true
    · simp only [hb, if_true] at h
      rcases byLoopNum_first o f key ys (key y) y r hf' h with ⟨rfl, hall⟩ | ⟨pre, post, hxs, hlt, hpre, hpost⟩
      · refine Or.inr ⟨[], ys, rfl, hb, ?_, hall⟩
        intro x hx; cases hx
      · refine Or.inr ⟨y :: pre, post, by simp [hxs], o.trans _ _ _ hb hlt, ?_, hpost⟩
        intro x hx
        rcases List.mem_cons.mp hx with rfl | hx'
        · exact hlt
        · exact hpre x hx'
    · have hb' : lt bv (key y) = false := by simpa using hb
      simp only [hb', Bool.false_eq_true, if_false] at h
      rcases byLoopNum_first o f key ys bv bi r hf' h with ⟨rfl, hall⟩ | ⟨pre, post, hxs, hlt, hpre, hpost⟩
      · exact Or.inl ⟨rfl, by
          intro x hx
          rcases List.mem_cons.mp hx with rfl | hx'
          · exact hb'
          · exact hall x hx'⟩
      · refine Or.inr ⟨y :: pre, post, by simp [hxs], hlt, ?_, hpost⟩
        intro x hx
        rcases List.mem_cons.mp hx with rfl | hx'
        · -- key y ≤ bv < key r
          rcases o.total bv (key x) with h1 | h1 | h1
          · rw [hb'] at h1; cases h1
          · rw [← h1]; exact hlt
          · exact o.trans _ _ _ h1 hlt
        · exact hpre x hx'

/-- The loop started on the first element: the result splits the array into
    strictly worse elements before it and no better element after it. -/
theorem byLoopNum_first_split {lt : N → N → Bool} (o : StrictOrdN lt) (f : Val N → Res (Val N)) (key : Val N → N)
    (x : Val N) (xs : List (Val N)) (r : Val N) (hf : ∀ y ∈ x :: xs, f y = .ok (.num (key y)))
    (h : byLoopNum f (fun cur best => lt best cur) (key x) x xs = .ok r) :
    ∃ pre post, x :: xs = pre ++ r :: post ∧ (∀ y ∈ pre, lt (key y) (key r) = true) ∧
      ∀ y ∈ post, lt (key r) (key y) = false := by
  rcases byLoopNum_first o f key xs (key x) x r (fun y hy => hf y (by simp [hy])) h with ⟨rfl, hall⟩ | ⟨pre, post, hxs, hlt, hpre, hpost⟩
  · refine ⟨[], xs, rfl, ?_, hall⟩
    intro y hy; cases hy
  · refine ⟨x :: pre, post, by simp [hxs], ?_, hpost⟩
    intro y hy
    rcases List.mem_cons.mp hy with rfl | hy'
    · exact hlt
    · exact hpre y hy'

end order

/-! ### arrays of numbers, as `max` / `min` / `sum` see them -/

section arrays
variable {N : Type}

theorem allNums_map_num : ∀ ns : List N, allNums (ns.map Val.num) = some ns
  | [] => rfl
  | n :: ns => by simp [allNums, allNums_map_num ns]

theorem allNums_eq_map : ∀ (xs : List (Val N)) (ns : List N), allNums xs = some ns → xs = ns.map .num
  | [], ns, h => by simp [allNums] at h; subst h; rfl
  | x :: xs, ns, h => by
    cases x <;> simp [allNums] at h
    obtain ⟨r, hr, rfl⟩ := h
    simp [allNums_eq_map xs r hr]

end arrays

/-! ### lookups in association lists (for `merge`) -/

section lookups
variable {N : Type}

/-- A key looks up to nothing exactly when no member has it. -/
theorem lookup_eq_none_iff (j : Bytes) : ∀ l : List (Bytes × Val N), Val.lookup j l = none ↔ ∀ p ∈ l, p.1 ≠ j
  | [] => by simp [Val.lookup]
  | (k, v) :: rest => by
    simp only [Val.lookup]
    by_cases hk : k = j
    · simp [hk]
    · simp [hk, lookup_eq_none_iff j rest]

theorem lookup_reverse_eq_none (j : Bytes) (l : List (Bytes × Val N)) (h : Val.lookup j l = none) :
    Val.lookup j l.reverse = none := by
  rw [lookup_eq_none_iff] at h ⊢
  intro p hp
  exact h p (List.mem_reverse.mp hp)

theorem lookup_append_single (j k : Bytes) (v : Val N) : ∀ l : List (Bytes × Val N),
    Val.lookup j (l ++ [(k, v)]) =
      match Val.lookup j l with | some w => some w | none => if k = j then some v else none
  | [] => by simp [Val.lookup]
  | (pk, pv) :: ps => by
    simp only [List.cons_append, Val.lookup]
    split
    · rfl
    · exact lookup_append_single j k v ps

/-- In an object whose keys are pairwise distinct, the last member with a key is the only one. -/
theorem lookup_reverse_of_distinct (j : Bytes) : ∀ l : List (Bytes × Val N),
    l.Pairwise (fun p q => p.1 ≠ q.1) → Val.lookup j l.reverse = Val.lookup j l
  | [], _ => rfl
  | (k, v) :: rest, h => by
    rw [List.pairwise_cons] at h
    rw [List.reverse_cons, lookup_append_single, lookup_reverse_of_distinct j rest h.2]
    simp only [Val.lookup]
    by_cases hk : k = j
    · subst hk
      have : Val.lookup k rest = none := by
        rw [lookup_eq_none_iff]
        intro p hp e
        exact h.1 p hp e.symm
      simp [this]
    · simp only [hk, if_false]
      cases Val.lookup j rest <;> rfl

/-- `m[k] = v` adds no member other than `(k, v)`. -/
theorem mem_insert (k : Bytes) (v : Val N) (p : Bytes × Val N) : ∀ l : List (Bytes × Val N),
    p ∈ Val.insert k v l → p = (k, v) ∨ p ∈ l
  | [] => by simp [Val.insert]
  | (k', v') :: rest => by
    simp only [Val.insert]
    split
    · intro h
      rcases List.mem_cons.mp h with e | e
      · exact Or.inl e
      · exact Or.inr (List.mem_cons_of_mem _ e)
    · split
      · intro h
        rcases List.mem_cons.mp h with e | e
        · exact Or.inl e
        · exact Or.inr e
      · intro h
        rcases List.mem_cons.mp h with e | e
        · exact Or.inr (by simp [e])
        · rcases mem_insert k v p rest e with e' | e'
          · exact Or.inl e'
          · exact Or.inr (List.mem_cons_of_mem _ e')

/-- Merging the members of an object that lacks a key into an accumulator that lacks it. -/
theorem lookup_foldl_insert_absent (j : Bytes) : ∀ (kvs acc : List (Bytes × Val N)),
    Val.lookup j kvs = none → Val.lookup j acc = none →
    Val.lookup j (kvs.foldl (fun m kv => Val.insert kv.1 kv.2 m) acc) = none
  | [], _, _, ha => ha
  | (k, v) :: rest, acc, hk, ha => by
    rw [lookup_eq_none_iff] at hk
    simp only [List.foldl_cons]
    refine lookup_foldl_insert_absent j rest _ ?_ ?_
    · rw [lookup_eq_none_iff]
      exact fun p hp => hk p (List.mem_cons_of_mem _ hp)
    · rw [lookup_eq_none_iff] at ha ⊢
      intro p hp
      rcases mem_insert k v p acc hp with e | e
      · rw [e]; exact hk (k, v) (by simp)
      · exact ha p e

/-- The `merge` loop invents no keys. -/
theorem mergeLoop_absent (j : Bytes) : ∀ (objs : List (List (Bytes × Val N))) (acc : List (Bytes × Val N)) (r : Val N),
    Val.lookup j acc = none → (∀ o ∈ objs, Val.lookup j o = none) →
    mergeLoop acc (objs.map (fun o => .val (.obj o))) = .ok r → ∃ kvs, r = .obj kvs ∧ Val.lookup j kvs = none
  | [], acc, r, ha, _, h => by
    simp only [List.map_nil, mergeLoop] at h
    cases h
    exact ⟨acc, rfl, ha⟩
  | o :: objs, acc, r, ha, ho, h => by
    simp only [List.map_cons, mergeLoop] at h
    exact mergeLoop_absent j objs _ r (lookup_foldl_insert_absent j o acc (ho o (by simp)) ha)
      (fun o' ho' => ho o' (by simp [ho'])) h

end lookups

end Jmes.FnMore
