/-
  Proofs.Value — facts about values: `deepEq` (reflect.DeepEqual on decoded
  JSON) is structural equality whenever `==` on numbers is equality.
-/
import Jmes.Value
namespace Jmes.Val
variable {N : Type} [NumOps N] [NumLaws N]

mutual
theorem deepEq_iff : ∀ a b : Val N, deepEq a b = true ↔ a = b
  | .null, b => by cases b <;> simp [deepEq]
  | .bool x, b => by cases b <;> simp [deepEq]
  | .num x, b => by cases b <;> simp [deepEq, NumLaws.eq_iff]
  | .str x, b => by cases b <;> simp [deepEq]
  | .arr xs, b => by
    cases b with
    | arr ys => simp only [deepEq, arr.injEq]; exact deepEqList_iff xs ys
    | _ => simp [deepEq]
  | .obj xs, b => by
    cases b with
    | obj ys => simp only [deepEq, obj.injEq]; exact deepEqKVs_iff xs ys
    | _ => simp [deepEq]
theorem deepEqList_iff : ∀ xs ys : List (Val N), deepEqList xs ys = true ↔ xs = ys
  | [], ys => by cases ys <;> simp [deepEqList]
  | x :: xs, ys => by
    cases ys with
    | nil => simp [deepEqList]
    | cons y ys => simp [deepEqList, deepEq_iff x y, deepEqList_iff xs ys]
theorem deepEqKVs_iff : ∀ xs ys : List (Bytes × Val N), deepEqKVs xs ys = true ↔ xs = ys
  | [], ys => by cases ys <;> simp [deepEqKVs]
  | (k, x) :: xs, ys => by
    cases ys with
    | nil => simp [deepEqKVs]
    | cons y ys =>
      obtain ⟨l, y⟩ := y
      simp [deepEqKVs, deepEq_iff x y, deepEqKVs_iff xs ys, and_assoc]
end

end Jmes.Val
