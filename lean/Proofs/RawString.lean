/-
  Proofs.RawString — the raw-string scanner inverts the raw-string spelling for
  every well-formed UTF-8 string the syntax can spell (every string that does
  not end with a backslash), multi-byte runes included.
-/
import Proofs.LexerRoundTrip
import Proofs.JsonString
namespace Jmes.Lexer
open Jmes.Utf8 Jmes.Json

theorem cont_ge : ∀ x : UInt8, isCont x = true → ¬ x < 0x80 := by
  apply forall_uint8'; decide +kernel

/-- a non-ASCII lead byte: either the decoder reports an error (width 1), or the rune is well formed and
    its continuation bytes are not ASCII -/
theorem decode_cases (c : UInt8) (rest : Bytes) (h1 : ¬ c < 0x80) :
    decodeRune (c :: rest) = (runeError, 1) ∨
    (1 < (decodeRune (c :: rest)).2 ∧ ∀ x ∈ rest.take ((decodeRune (c :: rest)).2 - 1), ¬ x < 0x80) := by
  by_cases h2 : c < 0xC2
  · left; exact decode_ltC2 c rest h1 h2
  by_cases h3 : c < 0xE0
  · cases rest with
    | nil => left; simp [decodeRune, h1, h2, h3]
    | cons s1 r =>
      rw [decode_2 c s1 r h1 h2 h3]
      by_cases hcont : isCont s1 = true
      · right; simp only [hcont, if_true]
        refine ⟨by simp, ?_⟩
        intro x hx; simp at hx; subst hx; exact cont_ge _ hcont
      · left; simp [hcont]
  by_cases h4 : c < 0xF0
  · match rest with
    | [] => left; simp [decodeRune, h1, h2, h3, h4]
    | [_] => left; simp [decodeRune, h1, h2, h3, h4]
    | s1 :: s2 :: r =>
      rw [decode_3 c s1 s2 r h1 h2 h3 h4]
      by_cases hcond : (decide ((if c = 0xE0 then (0xA0 : UInt8) else 0x80) ≤ s1) && decide (s1 ≤ (if c = 0xED then (0x9F : UInt8) else 0xBF)) && isCont s2) = true
      · right; rw [if_pos hcond]
        simp only [Bool.and_eq_true, decide_eq_true_eq] at hcond
        have hc1 : ¬ s1 < 0x80 := by
          have := hcond.1.1
          rw [le_iff_toNat] at this; rw [lt_iff_toNat]
          split at this <;> simp at this ⊢ <;> omega
        refine ⟨by simp, ?_⟩
        intro x hx; simp at hx
        rcases hx with rfl | rfl
        · exact hc1
        · exact cont_ge _ hcond.2
      · left; rw [if_neg hcond]
  by_cases h5 : c < 0xF5
  · match rest with
    | [] => left; simp [decodeRune, h1, h2, h3, h4, h5]
    | [_] => left; simp [decodeRune, h1, h2, h3, h4, h5]
    | [_, _] => left; simp [decodeRune, h1, h2, h3, h4, h5]
    | s1 :: s2 :: s3 :: r =>
      rw [decode_4 c s1 s2 s3 r h1 h2 h3 h4 h5]
      by_cases hcond : (decide ((if c = 0xF0 then (0x90 : UInt8) else 0x80) ≤ s1) && decide (s1 ≤ (if c = 0xF4 then (0x8F : UInt8) else 0xBF)) && isCont s2 && isCont s3) = true
      · right; rw [if_pos hcond]
        simp only [Bool.and_eq_true, decide_eq_true_eq] at hcond
        have hc1 : ¬ s1 < 0x80 := by
          have := hcond.1.1.1
          rw [le_iff_toNat] at this; rw [lt_iff_toNat]
          split at this <;> simp at this ⊢ <;> omega
        refine ⟨by simp, ?_⟩
        intro x hx; simp at hx
        rcases hx with rfl | rfl | rfl
        · exact hc1
        · exact cont_ge _ hcond.1.2
        · exact cont_ge _ hcond.2
      · left; rw [if_neg hcond]
  · left; simp [decodeRune, h1, h2, h3, h4, h5]

theorem decode_ge80 (c : UInt8) (rest : Bytes) (h : ¬ c < 0x80) : 0x80 ≤ (decodeRune (c :: rest)).1 := by
  rcases decode_cases c rest h with h' | ⟨hw, _⟩
  · rw [h']; decide
  · exact (encode_decode c rest hw).2

theorem rawSpell_cons_ne (c : UInt8) (cs : Bytes) (h : c ≠ 0x27) : rawSpell (c :: cs) = c :: rawSpell cs := by
  simp [rawSpell, h]

theorem nonascii_ne_quote {x : UInt8} (h : ¬ x < 0x80) : x ≠ 0x27 ∧ x ≠ 0x5C := by
  revert h; revert x; apply forall_uint8'; decide +kernel

theorem rawSpell_take_nonascii : ∀ (n : Nat) (cs : Bytes), (∀ x ∈ cs.take n, ¬ x < 0x80) →
    rawSpell cs = cs.take n ++ rawSpell (cs.drop n)
  | 0, cs, _ => by simp
  | n + 1, [], _ => by simp [rawSpell]
  | n + 1, c :: cs, h => by
    have hc := h c (by simp)
    rw [rawSpell_cons_ne c cs (nonascii_ne_quote hc).1]
    simp only [List.take_succ_cons, List.drop_succ_cons, List.cons_append]
    rw [rawSpell_take_nonascii n cs (fun x hx => h x (by simp [hx]))]

theorem RawOK_drop : ∀ (n : Nat) (s : Bytes), RawOK s → RawOK (s.drop n)
  | 0, s, h => by simpa using h
  | n + 1, [], _ => by simp [RawOK]
  | n + 1, c :: cs, h => by
    simp only [List.drop_succ_cons]
    exact RawOK_drop n cs (RawOK_tail c cs h)

theorem RawEndOK_drop : ∀ (n : Nat) (s : Bytes), RawEndOK s → RawEndOK (s.drop n)
  | 0, s, h => by simpa using h
  | n + 1, [], _ => by simp [RawEndOK]
  | n + 1, c :: cs, h => by
    simp only [List.drop_succ_cons]
    exact RawEndOK_drop n cs (RawEndOK_tail c cs h)

/-- one step of the raw-string loop on a well-formed multi-byte rune -/
theorem rawBody_multi (fuel : Nat) (c : UInt8) (cs Y : Bytes) (hw : 1 < (decodeRune (c :: cs)).2) (hY : Y ≠ []) :
    rawBody (fuel + 1) ((c :: cs).take (decodeRune (c :: cs)).2 ++ Y) =
      (rawBody fuel Y).map (fun r => ((c :: cs).take (decodeRune (c :: cs)).2 ++ r.1, r.2)) := by
  have hdt := decode_take c cs Y hw
  obtain ⟨_, hge⟩ := encode_decode c cs hw
  have hle := width_le c cs
  have hlen : ((c :: cs).take (decodeRune (c :: cs)).2).length = (decodeRune (c :: cs)).2 := List.length_take_of_le hle
  obtain ⟨tl, htl⟩ : ∃ tl, (c :: cs).take (decodeRune (c :: cs)).2 = c :: tl := by
    cases hh : (decodeRune (c :: cs)).2 with
    | zero => omega
    | succ n => exact ⟨cs.take n, by simp⟩
  have h27 : ¬ (decodeRune (c :: cs)).1 = 0x27 := by omega
  have h5c : ¬ (decodeRune (c :: cs)).1 = 0x5C := by omega
  have hdrop : ((c :: cs).take (decodeRune (c :: cs)).2 ++ Y).drop (decodeRune (c :: cs)).2 = Y := List.drop_left' hlen
  have htake : ((c :: cs).take (decodeRune (c :: cs)).2 ++ Y).take (decodeRune (c :: cs)).2 = (c :: cs).take (decodeRune (c :: cs)).2 :=
    List.take_left' hlen
  rw [htl] at hdt hdrop htake ⊢
  simp only [List.cons_append] at hdt hdrop htake ⊢
  simp only [rawBody, hdt, h27, if_false, hdrop, htake]
  cases Y with
  | nil => exact absurd rfl hY
  | cons y ys =>
    simp only [h5c, decide_false, Bool.false_and, Bool.false_eq_true, if_false]
    cases rawBody fuel (y :: ys) with
    | none => rfl
    | some x => obtain ⟨a, b⟩ := x; rfl

/-- **Raw strings, for every well-formed UTF-8 string that does not end with a backslash**
    (a backslash directly before a quote included): scanning
    `rawSpell s ++ "'" ++ rest` yields exactly `s` and leaves `rest`. -/
theorem rawBody_rawSpell_utf8 {s : Bytes} (hv : ValidUtf8 s) : ∀ (rest : Bytes) (fuel : Nat), RawEndOK s →
    (rawSpell s).length < fuel → rawBody fuel (rawSpell s ++ 0x27 :: rest) = some (s, rest) := by
  induction hv with
  | nil =>
    intro rest fuel _ hf
    cases fuel with
    | zero => simp at hf
    | succ f => rw [show rawSpell [] ++ 0x27 :: rest = 0x27 :: rest from rfl, rawBody_step f 0x27 rest (by decide)]; simp
  | ascii c cs hc hvcs ih =>
    intro rest fuel hok hf
    have hokcs := RawEndOK_tail c cs hok
    cases fuel with
    | zero => simp at hf
    | succ f =>
      by_cases hq : c = 0x27
      · subst hq
        simp only [rawSpell, if_true, List.cons_append] at hf ⊢
        rw [rawBody_step f 0x5C _ (by decide)]
        simp only [show ¬ ((0x5C : UInt8) = 0x27) by decide, if_false]
        rw [decodeRune_ascii 0x27 _ (by decide)]
        simp only [show (0x27 : UInt8).toNat = 0x27 from rfl, and_self, if_true]
        cases f with
        | zero => simp at hf
        | succ f' =>
          rw [ih rest (f' + 1) hokcs (by simp at hf; omega)]; rfl
      · simp only [rawSpell, hq, if_false, List.cons_append] at hf ⊢
        rw [rawBody_step f c _ hc]
        simp only [hq, if_false]
        have ih' := ih rest f hokcs (by simp at hf; omega)
        cases hnext : rawSpell cs ++ 0x27 :: rest with
        | nil => simp at hnext
        | cons d ds =>
          simp only []
          have hcond : ¬ (c = 0x5C ∧ (decodeRune (d :: ds)).1 = 0x27) := by
            rintro ⟨hb, hd⟩
            subst hb
            cases cs with
            | nil => exact hok rfl
            | cons e es =>
              have hne' : d ≠ 0x27 := rawSpell_head_ne e es _ d ds hnext
              by_cases he : d < 0x80
              · rw [decodeRune_ascii d _ he] at hd
                exact hne' ((toNat_eq_iff d 0x27 (by decide)).mp hd)
              · have := decode_ge80 d ds he; omega
          rw [if_neg hcond, ← hnext, ih']
          rfl
  | multi c cs hw hvd ih =>
    intro rest fuel hok hf
    have hc : ¬ c < 0x80 := multi_not_ascii c cs hw
    have hcq := (nonascii_ne_quote hc).1
    rcases decode_cases c cs hc with herr | ⟨_, htail⟩
    · rw [herr] at hw; simp at hw
    · have hsp : rawSpell (c :: cs) = (c :: cs).take (decodeRune (c :: cs)).2 ++ rawSpell ((c :: cs).drop (decodeRune (c :: cs)).2) := by
        rw [rawSpell_cons_ne c cs hcq, rawSpell_take_nonascii ((decodeRune (c :: cs)).2 - 1) cs htail]
        obtain ⟨n, hn⟩ : ∃ n, (decodeRune (c :: cs)).2 = n + 1 := ⟨(decodeRune (c :: cs)).2 - 1, by omega⟩
        rw [hn]; simp
      rw [hsp] at hf ⊢
      cases fuel with
      | zero => simp at hf
      | succ f =>
        rw [List.append_assoc, rawBody_multi f c cs _ hw (by simp)]
        have hlen : ((c :: cs).take (decodeRune (c :: cs)).2).length ≥ 1 := by
          rw [List.length_take_of_le (width_le c cs)]; omega
        rw [ih rest f (RawEndOK_drop _ _ hok) (by simp only [List.length_append] at hf; omega)]
        simp only [Option.map, List.take_append_drop]

/-! ### a trailing backslash cannot be written -/

theorem rawSpell_append : ∀ (a b : Bytes), rawSpell (a ++ b) = rawSpell a ++ rawSpell b
  | [], b => rfl
  | c :: cs, b => by
    simp only [List.cons_append, rawSpell, rawSpell_append cs b]
    split <;> rfl

theorem rawBody_nil (fuel : Nat) : rawBody fuel [] = none := by
  cases fuel <;> rfl

/-- non-ASCII bytes at the front of a spelling (followed by a backslash) are bytes of the string itself -/
theorem rawSpell_drop_nonascii : ∀ (n : Nat) (cs Z : Bytes),
    (∀ x ∈ (rawSpell cs ++ 0x5C :: Z).take n, ¬ x < 0x80) →
    (rawSpell cs ++ 0x5C :: Z).drop n = rawSpell (cs.drop n) ++ 0x5C :: Z
  | 0, cs, Z, _ => by simp
  | n + 1, [], Z, h => absurd (by decide : (0x5C : UInt8) < 0x80) (h 0x5C (by simp [rawSpell]))
  | n + 1, c :: cs, Z, h => by
    by_cases hq : c = 0x27
    · subst hq; exact absurd (by decide : (0x5C : UInt8) < 0x80) (h 0x5C (by simp [rawSpell]))
    · rw [rawSpell_cons_ne c cs hq] at h ⊢
      simp only [List.cons_append, List.take_succ_cons, List.drop_succ_cons] at h ⊢
      exact rawSpell_drop_nonascii n cs Z (fun x hx => h x (by simp [hx]))

/-- **A string that ends with a backslash has no raw-string spelling**: in
    `'` + spelling of `s` + `\'` the last backslash escapes the quote meant to
    close the literal, and the scanner reaches the end of the input — for every
    byte string `s` (well-formed UTF-8 or not) and whatever the fuel. -/
theorem rawBody_trailing_backslash : ∀ (fuel : Nat) (s : Bytes),
    rawBody fuel (rawSpell s ++ [0x5C, 0x27]) = none
  | 0, _ => rfl
  | f + 1, [] => by
    rw [show rawSpell [] ++ [0x5C, 0x27] = 0x5C :: [0x27] from rfl, rawBody_step f 0x5C _ (by decide)]
    simp [decodeRune_ascii, rawBody_nil]
  | f + 1, c :: cs => by
    have ih := rawBody_trailing_backslash f
    by_cases hc : c < 0x80
    · by_cases hq : c = 0x27
      · subst hq
        simp only [rawSpell, if_true, List.cons_append]
        rw [rawBody_step f 0x5C _ (by decide)]
        simp only [show ¬ ((0x5C : UInt8) = 0x27) by decide, if_false]
        rw [decodeRune_ascii 0x27 _ (by decide)]
        simp only [show (0x27 : UInt8).toNat = 0x27 from rfl, and_self, if_true]
        rw [ih cs]; rfl
      · simp only [rawSpell, hq, if_false, List.cons_append]
        rw [rawBody_step f c _ hc]
        simp only [hq, if_false]
        cases hnext : rawSpell cs ++ [0x5C, 0x27] with
        | nil => simp at hnext
        | cons d ds =>
          simp only []
          have hcond : ¬ (c = 0x5C ∧ (decodeRune (d :: ds)).1 = 0x27) := by
            rintro ⟨_, hd⟩
            have hne' : d ≠ 0x27 := by
              cases cs with
              | nil => simp [rawSpell] at hnext; rw [← hnext.1]; decide
              | cons e es => exact rawSpell_head_ne e es _ d ds hnext
            by_cases he : d < 0x80
            · rw [decodeRune_ascii d _ he] at hd
              exact hne' ((toNat_eq_iff d 0x27 (by decide)).mp hd)
            · have := decode_ge80 d ds he; omega
          rw [if_neg hcond, ← hnext, ih cs]
          rfl
    · have hcq := (nonascii_ne_quote hc).1
      rw [rawSpell_cons_ne c cs hcq, List.cons_append]
      rcases decode_cases c (rawSpell cs ++ [0x5C, 0x27]) hc with herr | ⟨hw, htail⟩
      · -- an ill-formed byte: the scanner keeps it and moves on by one byte
        have h27 : ¬ (runeError = 0x27) := by decide
        have h5c : ¬ (runeError = 0x5C) := by decide
        simp only [rawBody, herr, h27, h5c, if_false, List.drop_one, List.tail_cons]
        cases hnext : rawSpell cs ++ [0x5C, 0x27] with
        | nil => simp at hnext
        | cons d ds =>
          simp only [decide_false, Bool.false_and, Bool.false_eq_true, if_false]
          rw [← hnext, ih cs]; rfl
      · obtain ⟨n, hn⟩ : ∃ n, (decodeRune (c :: (rawSpell cs ++ [0x5C, 0x27]))).2 = n + 1 :=
          ⟨(decodeRune (c :: (rawSpell cs ++ [0x5C, 0x27]))).2 - 1, by omega⟩
        have hdrop : (c :: (rawSpell cs ++ [0x5C, 0x27])).drop (decodeRune (c :: (rawSpell cs ++ [0x5C, 0x27]))).2
            = rawSpell (cs.drop n) ++ [0x5C, 0x27] := by
          rw [hn, List.drop_succ_cons]
          exact rawSpell_drop_nonascii n cs [0x27] (by rw [hn] at htail; simpa using htail)
        have := rawBody_multi f c (rawSpell cs ++ [0x5C, 0x27])
          ((c :: (rawSpell cs ++ [0x5C, 0x27])).drop (decodeRune (c :: (rawSpell cs ++ [0x5C, 0x27]))).2) hw
          (by rw [hdrop]; simp)
        rw [List.take_append_drop] at this
        rw [this, hdrop, ih (cs.drop n)]
        rfl

/-- … stated on the string: the spelling of `s ++ "\"` followed by the closing quote is an
    unterminated literal. -/
theorem rawBody_rawSpell_trailing_backslash (fuel : Nat) (s : Bytes) :
    rawBody fuel (rawSpell (s ++ [0x5C]) ++ [0x27]) = none := by
  rw [rawSpell_append, List.append_assoc]
  exact rawBody_trailing_backslash fuel s

end Jmes.Lexer
