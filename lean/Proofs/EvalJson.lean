/-
  Proofs.EvalJson — closure: a successful evaluation over a JSON document,
  with JSON literals, returns JSON (no NaN/Inf, no internal objects,
  well-formed containers).
-/
import Proofs.FunctionsJson
import Jmes.Interp
namespace Jmes.Interp
variable {N : Type} [NumOps N] [NumLaws N]
open Jmes.Val

mutual
/-- Every literal in the AST is a JSON value (decoded JSON text or a raw string). -/
def litsJSON : Node N → Prop
  | .literal v => v.isJSON = true
  | .cmp _ l r | .indexExpr l r | .or l r | .and l r | .pipe l r | .proj l r | .sub l r | .valueProj l r =>
    litsJSON l ∧ litsJSON r
  | .filterProj l r c => litsJSON l ∧ litsJSON r ∧ litsJSON c
  | .flatten e | .not e => litsJSON e
  | .call _ args => litsJSONArgs args
  | .msHash kvs => litsJSONKVs kvs
  | .msList xs => litsJSONList xs
  | _ => True
def litsJSONList : List (Node N) → Prop
  | [] => True
  | x :: xs => litsJSON x ∧ litsJSONList xs
def litsJSONKVs : List (Bytes × Node N) → Prop
  | [] => True
  | (_, x) :: xs => litsJSON x ∧ litsJSONKVs xs
def litsJSONArgs : List (Bool × Node N) → Prop
  | [] => True
  | (_, x) :: xs => litsJSON x ∧ litsJSONArgs xs
end

omit [NumLaws N] in
theorem projectLoop_json (f : Val N → Res (Val N)) (xs ys : List (Val N)) (hx : ∀ x ∈ xs, x.isJSON = true)
    (hf : ∀ v r, v.isJSON = true → f v = .ok r → r.isJSON = true) (h : projectLoop f xs = .ok ys) :
    ∀ y ∈ ys, y.isJSON = true := by
  induction xs generalizing ys with
  | nil => simp [projectLoop] at h; subst h; intro y hy; cases hy
  | cons x xs ih =>
    simp only [projectLoop] at h
    cases hfx : f x with
    | ok y =>
      rw [hfx] at h
      cases hm : projectLoop f xs with
      | ok zs =>
        rw [hm] at h
        have hz := ih zs (fun a ha => hx a (by simp [ha])) hm
        have hy := hf x _ (hx x (by simp)) hfx
        cases y <;> simp at h <;> subst h <;> intro w hw <;>
          first | exact hz w hw | (rcases List.mem_cons.mp hw with rfl | hw' <;> first | exact hy | exact hz w hw')
      | err e => rw [hm] at h; simp at h
      | panic p => rw [hm] at h; simp at h
    | err e => rw [hfx] at h; simp at h
    | panic p => rw [hfx] at h; simp at h

omit [NumLaws N] in
theorem filterLoop_json (c f : Val N → Res (Val N)) (xs ys : List (Val N)) (hx : ∀ x ∈ xs, x.isJSON = true)
    (hf : ∀ v r, v.isJSON = true → f v = .ok r → r.isJSON = true) (h : filterLoop c f xs = .ok ys) :
    ∀ y ∈ ys, y.isJSON = true := by
  induction xs generalizing ys with
  | nil => simp [filterLoop] at h; subst h; intro y hy; cases hy
  | cons x xs ih =>
    simp only [filterLoop] at h
    cases hcx : c x with
    | ok cv =>
      rw [hcx] at h
      simp only [] at h
      split at h
      · cases hfx : f x with
        | ok y =>
          rw [hfx] at h
          cases hm : filterLoop c f xs with
          | ok zs =>
            rw [hm] at h
            have hz := ih zs (fun a ha => hx a (by simp [ha])) hm
            have hy := hf x _ (hx x (by simp)) hfx
            cases y <;> simp at h <;> subst h <;> intro w hw <;>
              first | exact hz w hw | (rcases List.mem_cons.mp hw with rfl | hw' <;> first | exact hy | exact hz w hw')
          | err e => rw [hm] at h; simp at h
          | panic p => rw [hm] at h; simp at h
        | err e => rw [hfx] at h; simp at h
        | panic p => rw [hfx] at h; simp at h
      · exact ih ys (fun a ha => hx a (by simp [ha])) h
    | err e => rw [hcx] at h; simp at h
    | panic p => rw [hcx] at h; simp at h

omit [NumLaws N] in
theorem flattenOnce_json (xs : List (Val N)) (hx : ∀ x ∈ xs, x.isJSON = true) : ∀ y ∈ flattenOnce xs, y.isJSON = true := by
  induction xs with
  | nil => intro y hy; cases hy
  | cons x xs ih =>
    have ih' := ih (fun a ha => hx a (by simp [ha]))
    have hxj := hx x (by simp)
    cases x <;> simp only [flattenOnce] <;> intro y hy
    case arr zs =>
      rcases List.mem_append.mp hy with h | h
      · exact (isJSON_arr zs).mp hxj y h
      · exact ih' y h
    all_goals (rcases List.mem_cons.mp hy with rfl | h <;> first | exact hxj | exact ih' y h)

omit [NumOps N] [NumLaws N] in
theorem getIdx_mem {α} (xs : List α) (i : Int) (x : α) (h : Slice.getIdx xs i = some x) : x ∈ xs := by
  unfold Slice.getIdx at h
  split at h
  · cases h
  · exact List.mem_of_getElem? h

omit [NumOps N] [NumLaws N] in
theorem loopUp_mem {α} (xs : List α) (stop step : Int) : ∀ (fuel : Nat) (i : Int) (r : List α),
    Slice.loopUp xs stop step fuel i = .ok r → ∀ y ∈ r, y ∈ xs
  | 0, i, r, h => by
    simp only [Slice.loopUp] at h
    split at h
    · cases h
    · cases h; intro y hy; cases hy
  | fuel + 1, i, r, h => by
    simp only [Slice.loopUp] at h
    split at h
    · cases hg : Slice.getIdx xs i with
      | none => rw [hg] at h; cases h
      | some x =>
        rw [hg] at h
        simp only [] at h
        split at h
        · cases h; intro y hy; simp at hy; subst hy; exact getIdx_mem xs i _ hg
        · cases hl : Slice.loopUp xs stop step fuel (Slice.wrap64 (i + step)) with
          | ok rs =>
            rw [hl] at h; cases h
            intro y hy
            rcases List.mem_cons.mp hy with rfl | hy'
            · exact getIdx_mem xs i _ hg
            · exact loopUp_mem xs stop step fuel _ rs hl y hy'
          | err e => rw [hl] at h; cases h
          | panic p => rw [hl] at h; cases h
    · cases h; intro y hy; cases hy

omit [NumOps N] [NumLaws N] in
theorem loopDown_mem {α} (xs : List α) (stop step : Int) : ∀ (fuel : Nat) (i : Int) (r : List α),
    Slice.loopDown xs stop step fuel i = .ok r → ∀ y ∈ r, y ∈ xs
  | 0, i, r, h => by
    simp only [Slice.loopDown] at h
    split at h
    · cases h
    · cases h; intro y hy; cases hy
  | fuel + 1, i, r, h => by
    simp only [Slice.loopDown] at h
    split at h
    · cases hg : Slice.getIdx xs i with
      | none => rw [hg] at h; cases h
      | some x =>
        rw [hg] at h
        simp only [] at h
        split at h
        · cases h; intro y hy; simp at hy; subst hy; exact getIdx_mem xs i _ hg
        · cases hl : Slice.loopDown xs stop step fuel (Slice.wrap64 (i + step)) with
          | ok rs =>
            rw [hl] at h; cases h
            intro y hy
            rcases List.mem_cons.mp hy with rfl | hy'
            · exact getIdx_mem xs i _ hg
            · exact loopDown_mem xs stop step fuel _ rs hl y hy'
          | err e => rw [hl] at h; cases h
          | panic p => rw [hl] at h; cases h
    · cases h; intro y hy; cases hy

omit [NumOps N] [NumLaws N] in
/-- A slice only selects elements of the array. -/
theorem slice_mem {α} (xs : List α) (a b c : Option Int) (r : List α) (h : Slice.slice xs a b c = .ok r) :
    ∀ y ∈ r, y ∈ xs := by
  unfold Slice.slice at h
  split at h
  · cases h
  · split at h
    · cases h
    · split at h
      · exact loopUp_mem xs _ _ _ _ r h
      · exact loopDown_mem xs _ _ _ _ r h

omit [NumLaws N] in
theorem getD_json (xs : List (Val N)) (k : Nat) (hx : ∀ x ∈ xs, x.isJSON = true) : (xs.getD k .null).isJSON = true := by
  rw [List.getD_eq_getElem?_getD]
  cases hg : xs[k]? with
  | none => rfl
  | some v => exact hx v (List.mem_of_getElem? hg)

omit [NumLaws N] in
theorem indexArr_json (xs : List (Val N)) (i : Int) (hx : ∀ x ∈ xs, x.isJSON = true) : (indexArr xs i).isJSON = true := by
  unfold indexArr
  simp only []
  split <;> split <;> first | exact getD_json xs _ hx | rfl

omit [NumLaws N] in
theorem compareVals_json (op : Cmp) (l r : Val N) : (compareVals op l r).isJSON = true := by
  unfold compareVals
  cases op <;> simp only [] <;> first | rfl | (cases l <;> cases r <;> rfl)

variable (ft : List FnEntry)

mutual
theorem eval_json : ∀ (n : Node N), litsJSON n → ∀ (d r : Val N), d.isJSON = true → eval ft n d = .ok r → r.isJSON = true
  | .empty, _, _, _, _, h => by simp [eval] at h
  | .cmp op l r, _, d, res, _, h => by
    simp only [eval] at h
    cases hl : eval ft l d with
    | ok lv =>
      rw [hl] at h
      cases hr : eval ft r d with
      | ok rv => rw [hr] at h; cases h; exact compareVals_json _ _ _
      | err e => rw [hr] at h; cases h
      | panic p => rw [hr] at h; cases h
    | err e => rw [hl] at h; cases h
    | panic p => rw [hl] at h; cases h
  | .current, _, d, r, hd, h => by simp [eval] at h; subst h; exact hd
  | .identity, _, d, r, hd, h => by simp [eval] at h; subst h; exact hd
  | .call name args, hl, d, r, hd, h => by
    simp only [eval] at h
    cases ha : evalArgs ft args d with
    | ok as =>
      rw [ha] at h
      exact Fn.callFunction_json ft name as r (evalArgs_json args hl d as hd ha) h
    | err e => rw [ha] at h; cases h
    | panic p => rw [ha] at h; cases h
  | .field name, _, d, r, hd, h => by
    cases d <;> simp only [eval] at h <;> cases h <;> first | rfl | exact isJSON_lookup name _ hd
  | .filterProj l rn c, hl, d, r, hd, h => by
    simp only [eval] at h
    cases he : eval ft l d with
    | ok lv =>
      rw [he] at h
      have hlv := eval_json l hl.1 d lv hd he
      cases lv <;> simp only [] at h <;> try (cases h; rfl)
      rename_i xs
      cases hf : filterLoop (eval ft c) (eval ft rn) xs with
      | ok ys =>
        rw [hf] at h; cases h
        exact (isJSON_arr ys).mpr (filterLoop_json _ _ xs ys ((isJSON_arr xs).mp hlv)
          (fun v r hv hr => eval_json rn hl.2.1 v r hv hr) hf)
      | err e => rw [hf] at h; cases h
      | panic p => rw [hf] at h; cases h
    | err e => rw [he] at h; cases h
    | panic p => rw [he] at h; cases h
  | .flatten e, hl, d, r, hd, h => by
    simp only [eval] at h
    cases he : eval ft e d with
    | ok lv =>
      rw [he] at h
      have hlv := eval_json e hl d lv hd he
      cases lv <;> simp only [] at h <;> cases h <;> try rfl
      rename_i xs
      exact (isJSON_arr _).mpr (flattenOnce_json xs ((isJSON_arr xs).mp hlv))
    | err er => rw [he] at h; cases h
    | panic p => rw [he] at h; cases h
  | .index i, _, d, r, hd, h => by
    cases d <;> simp only [eval] at h <;> cases h <;> try rfl
    rename_i xs
    exact indexArr_json xs i ((isJSON_arr xs).mp hd)
  | .indexExpr l rn, hl, d, r, hd, h => by
    simp only [eval] at h
    cases he : eval ft l d with
    | ok lv => rw [he] at h; exact eval_json rn hl.2 lv r (eval_json l hl.1 d lv hd he) h
    | err e => rw [he] at h; cases h
    | panic p => rw [he] at h; cases h
  | .literal v, hl, _, r, _, h => by simp [eval] at h; subst h; exact hl
  | .msHash kvs, hl, d, r, hd, h => by
    cases d <;> simp only [eval] at h
    case null => cases h; rfl
    all_goals
      (cases hk : evalKVs ft kvs _ with
       | ok ps =>
         rw [hk] at h; cases h
         exact isJSON_foldl_insert ps (evalKVs_json kvs hl _ ps hd hk) [] rfl
       | err e => rw [hk] at h; cases h
       | panic p => rw [hk] at h; cases h)
  | .msList xs, hl, d, r, hd, h => by
    cases d <;> simp only [eval] at h
    case null => cases h; rfl
    all_goals
      (cases hk : evalList ft xs _ with
       | ok vs =>
         rw [hk] at h; cases h
         exact (isJSON_arr vs).mpr (evalList_json xs hl _ vs hd hk)
       | err e => rw [hk] at h; cases h
       | panic p => rw [hk] at h; cases h)
  | .or l rn, hl, d, r, hd, h => by
    simp only [eval] at h
    cases he : eval ft l d with
    | ok m =>
      rw [he] at h
      simp only [] at h
      split at h
      · exact eval_json rn hl.2 d r hd h
      · cases h; exact eval_json l hl.1 d _ hd he
    | err e => rw [he] at h; cases h
    | panic p => rw [he] at h; cases h
  | .and l rn, hl, d, r, hd, h => by
    simp only [eval] at h
    cases he : eval ft l d with
    | ok m =>
      rw [he] at h
      simp only [] at h
      split at h
      · cases h; exact eval_json l hl.1 d _ hd he
      · exact eval_json rn hl.2 d r hd h
    | err e => rw [he] at h; cases h
    | panic p => rw [he] at h; cases h
  | .not e, _, d, r, _, h => by
    simp only [eval] at h
    cases he : eval ft e d with
    | ok m => rw [he] at h; cases h; rfl
    | err er => rw [he] at h; cases h
    | panic p => rw [he] at h; cases h
  | .pipe l rn, hl, d, r, hd, h => by
    simp only [eval] at h
    cases he : eval ft l d with
    | ok lv => rw [he] at h; exact eval_json rn hl.2 lv r (eval_json l hl.1 d lv hd he) h
    | err e => rw [he] at h; cases h
    | panic p => rw [he] at h; cases h
  | .proj l rn, hl, d, r, hd, h => by
    simp only [eval] at h
    cases he : eval ft l d with
    | ok lv =>
      rw [he] at h
      have hlv := eval_json l hl.1 d lv hd he
      cases lv <;> simp only [] at h <;> try (cases h; rfl)
      rename_i xs
      cases hf : projectLoop (eval ft rn) xs with
      | ok ys =>
        rw [hf] at h; cases h
        exact (isJSON_arr ys).mpr (projectLoop_json _ xs ys ((isJSON_arr xs).mp hlv)
          (fun v r hv hr => eval_json rn hl.2 v r hv hr) hf)
      | err e => rw [hf] at h; cases h
      | panic p => rw [hf] at h; cases h
    | err e => rw [he] at h; cases h
    | panic p => rw [he] at h; cases h
  | .sub l rn, hl, d, r, hd, h => by
    simp only [eval] at h
    cases he : eval ft l d with
    | ok lv => rw [he] at h; exact eval_json rn hl.2 lv r (eval_json l hl.1 d lv hd he) h
    | err e => rw [he] at h; cases h
    | panic p => rw [he] at h; cases h
  | .slice a b c, _, d, r, hd, h => by
    cases d <;> simp only [eval] at h <;> try (cases h; rfl)
    rename_i xs
    cases hs : Slice.slice xs a b c with
    | ok ys =>
      rw [hs] at h; cases h
      exact (isJSON_arr ys).mpr (fun y hy => (isJSON_arr xs).mp hd y (slice_mem xs a b c ys hs y hy))
    | err e => rw [hs] at h; cases h
    | panic p => rw [hs] at h; cases h
  | .valueProj l rn, hl, d, r, hd, h => by
    simp only [eval] at h
    cases he : eval ft l d with
    | ok lv =>
      rw [he] at h
      have hlv := eval_json l hl.1 d lv hd he
      cases lv <;> simp only [] at h <;> try (cases h; rfl)
      rename_i kvs
      cases hf : projectLoop (eval ft rn) (kvs.map (·.2)) with
      | ok ys =>
        rw [hf] at h; cases h
        refine (isJSON_arr ys).mpr (projectLoop_json _ _ ys ?_ (fun v r hv hr => eval_json rn hl.2 v r hv hr) hf)
        intro x hx
        obtain ⟨kv, hkv, rfl⟩ := List.mem_map.mp hx
        exact ((isJSON_obj kvs).mp hlv).2 kv hkv
      | err e => rw [hf] at h; cases h
      | panic p => rw [hf] at h; cases h
    | err e => rw [he] at h; cases h
    | panic p => rw [he] at h; cases h
theorem evalList_json : ∀ (xs : List (Node N)), litsJSONList xs → ∀ (d : Val N) (vs : List (Val N)), d.isJSON = true →
    evalList ft xs d = .ok vs → ∀ v ∈ vs, v.isJSON = true
  | [], _, _, vs, _, h => by simp [evalList] at h; subst h; intro v hv; cases hv
  | x :: xs, hl, d, vs, hd, h => by
    simp only [evalList] at h
    cases hx : eval ft x d with
    | ok v =>
      rw [hx] at h
      cases hxs : evalList ft xs d with
      | ok ws =>
        rw [hxs] at h; cases h
        intro w hw
        rcases List.mem_cons.mp hw with rfl | hw'
        · exact eval_json x hl.1 d _ hd hx
        · exact evalList_json xs hl.2 d ws hd hxs w hw'
      | err e => rw [hxs] at h; cases h
      | panic p => rw [hxs] at h; cases h
    | err e => rw [hx] at h; cases h
    | panic p => rw [hx] at h; cases h
theorem evalKVs_json : ∀ (xs : List (Bytes × Node N)), litsJSONKVs xs → ∀ (d : Val N) (vs : List (Bytes × Val N)), d.isJSON = true →
    evalKVs ft xs d = .ok vs → ∀ kv ∈ vs, kv.2.isJSON = true
  | [], _, _, vs, _, h => by simp [evalKVs] at h; subst h; intro v hv; cases hv
  | (k, x) :: xs, hl, d, vs, hd, h => by
    simp only [evalKVs] at h
    cases hx : eval ft x d with
    | ok v =>
      rw [hx] at h
      cases hxs : evalKVs ft xs d with
      | ok ws =>
        rw [hxs] at h; cases h
        intro w hw
        rcases List.mem_cons.mp hw with rfl | hw'
        · exact eval_json x hl.1 d _ hd hx
        · exact evalKVs_json xs hl.2 d ws hd hxs w hw'
      | err e => rw [hxs] at h; cases h
      | panic p => rw [hxs] at h; cases h
    | err e => rw [hx] at h; cases h
    | panic p => rw [hx] at h; cases h
theorem evalArgs_json : ∀ (args : List (Bool × Node N)), litsJSONArgs args → ∀ (d : Val N) (as : List (Fn.Arg N)), d.isJSON = true →
    evalArgs ft args d = .ok as → Fn.ArgsJSON as
  | [], _, _, as, _, h => by
    simp [evalArgs] at h; subst h
    refine ⟨?_, ?_⟩
    · intro v hv; cases hv
    · intro f hf; cases hf
  | (true, x) :: xs, hl, d, as, hd, h => by
    simp only [evalArgs] at h
    cases hxs : evalArgs ft xs d with
    | ok ws =>
      rw [hxs] at h; cases h
      have ih := evalArgs_json xs hl.2 d ws hd hxs
      refine ⟨?_, ?_⟩
      · intro v hv
        rcases List.mem_cons.mp hv with hv | hv
        · cases hv
        · exact ih.1 v hv
      · intro f hf
        rcases List.mem_cons.mp hf with hf | hf
        · cases hf; intro v r hv hr; exact eval_json x hl.1 v r hv hr
        · exact ih.2 f hf
    | err e => rw [hxs] at h; cases h
    | panic p => rw [hxs] at h; cases h
  | (false, x) :: xs, hl, d, as, hd, h => by
    simp only [evalArgs] at h
    cases hx : eval ft x d with
    | ok v =>
      rw [hx] at h
      cases hxs : evalArgs ft xs d with
      | ok ws =>
        rw [hxs] at h; cases h
        have ih := evalArgs_json xs hl.2 d ws hd hxs
        refine ⟨?_, ?_⟩
        · intro w hw
          rcases List.mem_cons.mp hw with hw | hw
          · cases hw; exact eval_json x hl.1 d _ hd hx
          · exact ih.1 w hw
        · intro f hf
          rcases List.mem_cons.mp hf with hf | hf
          · cases hf
          · exact ih.2 f hf
      | err e => rw [hxs] at h; cases h
      | panic p => rw [hxs] at h; cases h
    | err e => rw [hx] at h; cases h
    | panic p => rw [hx] at h; cases h
end

end Jmes.Interp
