/-
  Proofs.EvalSafe — `Execute` never panics: for every AST whose slice
  literals are 64-bit integers (which is what the parser produces) and every
  document, provided `CallFunction` with the table in use never panics on
  arguments whose expression references are safe (proved for the
  specification's table in Proofs.FunctionsSafe).
-/
import Jmes.Interp
import Proofs.Slice
import Proofs.FunctionsSafe
namespace Jmes.Interp
variable {N : Type} [NumOps N]
open Jmes.Slice (InRange)

def optOK (v : Option Int) : Prop := ∀ x, v = some x → InRange x

mutual
/-- All slice literals inside the AST are 64-bit integers. -/
def slicesOK : Node N → Prop
  | .slice a b c => optOK a ∧ optOK b ∧ optOK c
  | .cmp _ l r | .indexExpr l r | .or l r | .and l r | .pipe l r | .proj l r | .sub l r | .valueProj l r =>
    slicesOK l ∧ slicesOK r
  | .filterProj l r c => slicesOK l ∧ slicesOK r ∧ slicesOK c
  | .flatten e | .not e => slicesOK e
  | .call _ args => slicesOKArgs args
  | .msHash kvs => slicesOKKVs kvs
  | .msList xs => slicesOKList xs
  | _ => True
def slicesOKList : List (Node N) → Prop
  | [] => True
  | x :: xs => slicesOK x ∧ slicesOKList xs
def slicesOKKVs : List (Bytes × Node N) → Prop
  | [] => True
  | (_, x) :: xs => slicesOK x ∧ slicesOKKVs xs
def slicesOKArgs : List (Bool × Node N) → Prop
  | [] => True
  | (_, x) :: xs => slicesOK x ∧ slicesOKArgs xs
end

/-- What is assumed of the function table: calls never panic when the
    expression references among the arguments never do. -/
def TableSafe (N : Type) [NumOps N] (ft : List FnEntry) : Prop :=
  ∀ (name : Bytes) (args : List (Fn.Arg N)), Fn.RefsSafe args → (Fn.callFunction ft name args).isPanic = false

theorem np_of_eq_ok {α} {r : Res α} {a : α} (h : r = .ok a) : r.isPanic = false := by rw [h]; rfl

theorem projectLoop_np (f : Val N → Res (Val N)) (hf : ∀ v, (f v).isPanic = false) (xs : List (Val N)) :
    (projectLoop f xs).isPanic = false := by
  induction xs with
  | nil => rfl
  | cons x xs ih =>
    have hfx := hf x
    cases hx : f x with
    | ok y =>
      simp only [projectLoop, hx]
      cases hp : projectLoop f xs with
      | ok ys => rfl
      | err e => rfl
      | panic p => rw [hp] at ih; exact absurd ih (by simp [Res.isPanic])
    | err e => simp only [projectLoop, hx]; rfl
    | panic p => rw [hx] at hfx; exact absurd hfx (by simp [Res.isPanic])

theorem filterLoop_np (c r : Val N → Res (Val N)) (hc : ∀ v, (c v).isPanic = false) (hr : ∀ v, (r v).isPanic = false)
    (xs : List (Val N)) : (filterLoop c r xs).isPanic = false := by
  induction xs with
  | nil => rfl
  | cons x xs ih =>
    have hcx := hc x
    have hrx := hr x
    cases hx : c x with
    | ok cv =>
      simp only [filterLoop, hx]
      split
      · cases hy : r x with
        | ok y =>
          simp only []
          cases hp : filterLoop c r xs with
          | ok ys => rfl
          | err e => rfl
          | panic p => rw [hp] at ih; exact absurd ih (by simp [Res.isPanic])
        | err e => rfl
        | panic p => rw [hy] at hrx; exact absurd hrx (by simp [Res.isPanic])
      · exact ih
    | err e => simp only [filterLoop, hx]; rfl
    | panic p => rw [hx] at hcx; exact absurd hcx (by simp [Res.isPanic])

theorem not_panic_cases {α} (r : Res α) (h : r.isPanic = false) : (∃ a, r = .ok a) ∨ (∃ e, r = .err e) := by
  cases r with
  | ok a => exact Or.inl ⟨a, rfl⟩
  | err e => exact Or.inr ⟨e, rfl⟩
  | panic p => simp [Res.isPanic] at h

variable (ft : List FnEntry) (hft : TableSafe N ft)
include hft

mutual
theorem eval_np : ∀ (n : Node N), slicesOK n → ∀ d, (eval ft n d).isPanic = false
  | .empty, _, _ => rfl
  | .cmp op l r, h, d => by
    have hl := eval_np l h.1 d
    have hr := eval_np r h.2 d
    simp only [eval]
    rcases not_panic_cases _ hl with ⟨lv, e1⟩ | ⟨e, e1⟩ <;> rw [e1]
    · rcases not_panic_cases _ hr with ⟨rv, e2⟩ | ⟨e, e2⟩ <;> rw [e2] <;> rfl
    · rfl
  | .current, _, _ => rfl
  | .identity, _, _ => rfl
  | .call name args, h, d => by
    have ha := evalArgs_np args h d
    simp only [eval]
    rcases not_panic_cases _ ha.1 with ⟨as, e1⟩ | ⟨e, e1⟩ <;> rw [e1]
    · exact hft name as (ha.2 as e1)
    · rfl
  | .field name, _, d => by cases d <;> rfl
  | .filterProj l r c, h, d => by
    have hl := eval_np l h.1 d
    simp only [eval]
    rcases not_panic_cases _ hl with ⟨lv, e1⟩ | ⟨e, e1⟩ <;> rw [e1]
    · cases lv with
      | arr xs =>
        simp only []
        have := filterLoop_np (eval ft c) (eval ft r) (eval_np c h.2.2) (eval_np r h.2.1) xs
        rcases not_panic_cases _ this with ⟨ys, e2⟩ | ⟨e, e2⟩ <;> rw [e2] <;> rfl
      | _ => rfl
    · rfl
  | .flatten e, h, d => by
    have hl := eval_np e h d
    simp only [eval]
    rcases not_panic_cases _ hl with ⟨lv, e1⟩ | ⟨e, e1⟩ <;> rw [e1]
    · cases lv <;> rfl
    · rfl
  | .index i, _, d => by cases d <;> rfl
  | .indexExpr l r, h, d => by
    have hl := eval_np l h.1 d
    simp only [eval]
    rcases not_panic_cases _ hl with ⟨lv, e1⟩ | ⟨e, e1⟩ <;> rw [e1]
    · exact eval_np r h.2 lv
    · rfl
  | .literal v, _, _ => rfl
  | .msHash kvs, h, d => by
    have hk := evalKVs_np kvs h d
    cases d <;> simp only [eval] <;> first | rfl | (rcases not_panic_cases _ hk with ⟨ps, e1⟩ | ⟨e, e1⟩ <;> rw [e1] <;> rfl)
  | .msList xs, h, d => by
    have hk := evalList_np xs h d
    cases d <;> simp only [eval] <;> first | rfl | (rcases not_panic_cases _ hk with ⟨ps, e1⟩ | ⟨e, e1⟩ <;> rw [e1] <;> rfl)
  | .or l r, h, d => by
    have hl := eval_np l h.1 d
    simp only [eval]
    rcases not_panic_cases _ hl with ⟨lv, e1⟩ | ⟨e, e1⟩ <;> rw [e1]
    · simp only []; split
      · exact eval_np r h.2 d
      · rfl
    · rfl
  | .and l r, h, d => by
    have hl := eval_np l h.1 d
    simp only [eval]
    rcases not_panic_cases _ hl with ⟨lv, e1⟩ | ⟨e, e1⟩ <;> rw [e1]
    · simp only []; split
      · rfl
      · exact eval_np r h.2 d
    · rfl
  | .not e, h, d => by
    have hl := eval_np e h d
    simp only [eval]
    rcases not_panic_cases _ hl with ⟨lv, e1⟩ | ⟨e, e1⟩ <;> rw [e1] <;> rfl
  | .pipe l r, h, d => by
    have hl := eval_np l h.1 d
    simp only [eval]
    rcases not_panic_cases _ hl with ⟨lv, e1⟩ | ⟨e, e1⟩ <;> rw [e1]
    · exact eval_np r h.2 lv
    · rfl
  | .proj l r, h, d => by
    have hl := eval_np l h.1 d
    simp only [eval]
    rcases not_panic_cases _ hl with ⟨lv, e1⟩ | ⟨e, e1⟩ <;> rw [e1]
    · cases lv with
      | arr xs =>
        simp only []
        have := projectLoop_np (eval ft r) (eval_np r h.2) xs
        rcases not_panic_cases _ this with ⟨ys, e2⟩ | ⟨e, e2⟩ <;> rw [e2] <;> rfl
      | _ => rfl
    · rfl
  | .sub l r, h, d => by
    have hl := eval_np l h.1 d
    simp only [eval]
    rcases not_panic_cases _ hl with ⟨lv, e1⟩ | ⟨e, e1⟩ <;> rw [e1]
    · exact eval_np r h.2 lv
    · rfl
  | .slice a b c, h, d => by
    cases d with
    | arr xs =>
      simp only [eval]
      have := Slice.slice_np xs a b c h.1 h.2.1 h.2.2
      rcases not_panic_cases _ this with ⟨ys, e2⟩ | ⟨e, e2⟩ <;> rw [e2] <;> rfl
    | _ => rfl
  | .valueProj l r, h, d => by
    have hl := eval_np l h.1 d
    simp only [eval]
    rcases not_panic_cases _ hl with ⟨lv, e1⟩ | ⟨e, e1⟩ <;> rw [e1]
    · cases lv with
      | obj kvs =>
        simp only []
        have := projectLoop_np (eval ft r) (eval_np r h.2) (kvs.map (·.2))
        rcases not_panic_cases _ this with ⟨ys, e2⟩ | ⟨e, e2⟩ <;> rw [e2] <;> rfl
      | _ => rfl
    · rfl
theorem evalList_np : ∀ (xs : List (Node N)), slicesOKList xs → ∀ d, (evalList ft xs d).isPanic = false
  | [], _, _ => rfl
  | x :: xs, h, d => by
    have hx := eval_np x h.1 d
    have hxs := evalList_np xs h.2 d
    simp only [evalList]
    rcases not_panic_cases _ hx with ⟨v, e1⟩ | ⟨e, e1⟩ <;> rw [e1]
    · rcases not_panic_cases _ hxs with ⟨vs, e2⟩ | ⟨e, e2⟩ <;> rw [e2] <;> rfl
    · rfl
theorem evalKVs_np : ∀ (xs : List (Bytes × Node N)), slicesOKKVs xs → ∀ d, (evalKVs ft xs d).isPanic = false
  | [], _, _ => rfl
  | (k, x) :: xs, h, d => by
    have hx := eval_np x h.1 d
    have hxs := evalKVs_np xs h.2 d
    simp only [evalKVs]
    rcases not_panic_cases _ hx with ⟨v, e1⟩ | ⟨e, e1⟩ <;> rw [e1]
    · rcases not_panic_cases _ hxs with ⟨vs, e2⟩ | ⟨e, e2⟩ <;> rw [e2] <;> rfl
    · rfl
theorem evalArgs_np : ∀ (args : List (Bool × Node N)), slicesOKArgs args → ∀ d,
    (evalArgs ft args d).isPanic = false ∧ ∀ as, evalArgs ft args d = .ok as → Fn.RefsSafe as
  | [], _, _ => ⟨rfl, by intro as h; cases h; intro f hf; cases hf⟩
  | (true, x) :: xs, h, d => by
    have hxs := evalArgs_np xs h.2 d
    simp only [evalArgs]
    rcases not_panic_cases _ hxs.1 with ⟨vs, e2⟩ | ⟨e, e2⟩ <;> rw [e2]
    · refine ⟨rfl, ?_⟩
      intro as has
      cases has
      intro f hf
      rcases List.mem_cons.mp hf with hf | hf
      · cases hf; exact eval_np x h.1
      · exact hxs.2 vs e2 f hf
    · exact ⟨rfl, by intro as has; cases has⟩
  | (false, x) :: xs, h, d => by
    have hx := eval_np x h.1 d
    have hxs := evalArgs_np xs h.2 d
    simp only [evalArgs]
    rcases not_panic_cases _ hx with ⟨v, e1⟩ | ⟨e, e1⟩ <;> rw [e1]
    · rcases not_panic_cases _ hxs.1 with ⟨vs, e2⟩ | ⟨e, e2⟩ <;> rw [e2]
      · refine ⟨rfl, ?_⟩
        intro as has
        cases has
        intro f hf
        rcases List.mem_cons.mp hf with hf | hf
        · cases hf
        · exact hxs.2 vs e2 f hf
      · exact ⟨rfl, by intro as has; cases has⟩
    · exact ⟨rfl, by intro as has; cases has⟩
end

end Jmes.Interp
