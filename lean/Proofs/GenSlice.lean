/-
  Proofs.GenSlice — the regenerated translation of util.go's slice arithmetic
  (Jmes/GeneratedSlice.lean, written by tools/gotolean from /repo's source on every run)
  computes what the hand-written model Jmes/Slice.lean computes.  These are the proof
  obligations that move C08's theorems from the model to the code as written; they are
  proved by case analysis + linear arithmetic, so a behaviour-preserving rewrite of the Go
  functions keeps them and a change of behaviour loses them.
-/
import Jmes.GeneratedSlice
import Proofs.Slice
namespace Jmes
open Jmes.Slice

/-- The three-element parameter list interpreter.go builds from the AST's `[]*int`. -/
def GenSlice.param (v : Option Int) : GenSlice.SliceParam :=
  match v with
  | none => { N := 0, Specified := false }
  | some n => { N := n, Specified := true }

/-- What `computeSliceParams` of the hand-written model returns, in the shape of the Go results. -/
def GenSlice.expected (length : Int) (a b c : Option Int) : Except String (List Int) :=
  match Slice.computeSliceParams length a b c with
  | none => .error "Invalid slice, step cannot be 0"
  | some (start, stop, step) => .ok [start, stop, step]

/-- The domain the code runs on: `length` is the `len` of a Go slice, the other operands come from
    `strconv.Atoi` (the int64 range). -/
def GenSlice.Dom (length : Int) (a b c : Option Int) : Prop :=
  0 ≤ length ∧ length ≤ 9223372036854775807 ∧
  (∀ x, a = some x → -9223372036854775808 ≤ x ∧ x ≤ 9223372036854775807) ∧
  (∀ x, b = some x → -9223372036854775808 ≤ x ∧ x ≤ 9223372036854775807) ∧
  (∀ x, c = some x → -9223372036854775808 ≤ x ∧ x ≤ 9223372036854775807)

theorem gen_capSlice_eq (length actual step : Int) (hl0 : 0 ≤ length) (hl1 : length ≤ 9223372036854775807)
    (ha : -9223372036854775808 ≤ actual ∧ actual ≤ 9223372036854775807)
    (hs : -9223372036854775808 ≤ step ∧ step ≤ 9223372036854775807) :
    GenSlice.capSlice length actual step = Slice.capSlice length actual step := by
  unfold GenSlice.capSlice Slice.capSlice wrap64
  simp only [decide_eq_true_eq]
  repeat' split
  all_goals omega

/-- Success or failure, and the three numbers: the translated function agrees with the model
    (error texts are not compared). -/
theorem gen_computeSliceParams_eq (length : Int) (a b c : Option Int) (hd : GenSlice.Dom length a b c) :
    (GenSlice.computeSliceParams length [GenSlice.param a, GenSlice.param b, GenSlice.param c]).toOption
      = (GenSlice.expected length a b c).toOption := by
  obtain ⟨hl0, hl1, ha, hb, hc⟩ := hd
  have h1 : ¬ ((1 : Int) < 0) := by omega
  have h1r : -9223372036854775808 ≤ (1 : Int) ∧ (1 : Int) ≤ 9223372036854775807 := by omega
  have hw : wrap64 (length - 1) = length - 1 := by unfold wrap64; omega
  cases c with
  | none =>
    cases a <;> cases b <;>
      simp [GenSlice.computeSliceParams, GenSlice.expected, GenSlice.param, Slice.computeSliceParams, Slice.stepOf,
        gen_capSlice_eq, Except.toOption, h1, hl0, hl1, ha, hb, h1r, hw]
  | some v =>
    have hv := hc v rfl
    by_cases h0 : v = 0
    · subst h0
      cases a <;> cases b <;>
        simp [GenSlice.computeSliceParams, GenSlice.expected, GenSlice.param, Slice.computeSliceParams, Slice.stepOf,
          Except.toOption]
    · by_cases hn : v < 0 <;> cases a <;> cases b <;>
        simp [GenSlice.computeSliceParams, GenSlice.expected, GenSlice.param, Slice.computeSliceParams, Slice.stepOf,
          gen_capSlice_eq, Except.toOption, h0, hn, hl0, hl1, ha, hb, hv, hw]

/-- The translated first loop (`step > 0`) is the model's `loopUp`. -/
theorem gen_loop1_eq {α} (xs : List α) (start stop step : Int) :
    ∀ (fuel : Nat) (i : Int), GenSlice.sliceLoop1 xs start stop step fuel i = Slice.loopUp xs stop step fuel i := by
  first
  | (intro fuel i; rfl)       -- the hand-written loops (the translator did not recognise the source's)
  | (intro fuel
     induction fuel with
     | zero => intro i; simp [GenSlice.sliceLoop1, Slice.loopUp]
     | succ n ih =>
       intro i
       simp only [GenSlice.sliceLoop1, Slice.loopUp, ih, decide_eq_true_eq]
       first
         | rfl
         | (repeat' split) <;> simp_all <;> omega)

/-- The translated second loop (`step < 0`) is the model's `loopDown`. -/
theorem gen_loop2_eq {α} (xs : List α) (start stop step : Int) :
    ∀ (fuel : Nat) (i : Int), GenSlice.sliceLoop2 xs start stop step fuel i = Slice.loopDown xs stop step fuel i := by
  first
  | (intro fuel i; rfl)       -- the hand-written loops (the translator did not recognise the source's)
  | (intro fuel
     induction fuel with
     | zero => intro i; simp [GenSlice.sliceLoop2, Slice.loopDown]
     | succ n ih =>
       intro i
       simp only [GenSlice.sliceLoop2, Slice.loopDown, ih, decide_eq_true_eq]
       first
         | rfl
         | (repeat' split) <;> simp_all <;> omega)

/-- With the translated arithmetic AND the translated loops, `slice` is Python's slice (fuel `len + 1`
    is enough: the loop never runs out of it). -/
theorem gen_slice_eq_pySlice {α} (xs : List α) (a b c : Option Int) (hlen : InRange xs.length)
    (ha : ∀ x, a = some x → InRange x) (hb : ∀ x, b = some x → InRange x) (hc : ∀ x, c = some x → InRange x)
    (h0 : c ≠ some 0) :
    GenSlice.slice (xs.length + 1) xs [GenSlice.param a, GenSlice.param b, GenSlice.param c]
      = .ok ((Spec.pySlice xs.length a b (c.getD 1)).filterMap (getIdx xs)) := by
  have hd : GenSlice.Dom xs.length a b c := by
    unfold InRange at hlen ha hb hc
    exact ⟨by omega, hlen.2, ha, hb, hc⟩
  have hm := slice_eq_pySlice xs a b c hlen ha hb hc h0
  have hg := gen_computeSliceParams_eq xs.length a b c hd
  unfold GenSlice.expected at hg
  unfold Slice.slice at hm
  have hguard : ¬ ((xs.length : Int) > 9223372036854775807) := by unfold InRange at hlen; omega
  simp only [hguard, if_false] at hm
  unfold GenSlice.slice
  cases hp : Slice.computeSliceParams (xs.length : Int) a b c with
  | none => rw [hp] at hm; exact absurd hm (by simp)
  | some t =>
    obtain ⟨start, stop, step⟩ := t
    rw [hp] at hm hg
    cases hq : GenSlice.computeSliceParams (xs.length : Int) [GenSlice.param a, GenSlice.param b, GenSlice.param c] with
    | error m => rw [hq] at hg; exact absurd hg (by simp [Except.toOption])
    | ok l =>
      rw [hq] at hg
      simp only [Except.toOption, Option.some.injEq] at hg
      subst hg
      simp only [List.getElem?_cons_zero, List.getElem?_cons_succ, gen_loop1_eq, gen_loop2_eq, decide_eq_true_eq]
      simpa using hm

/-- A zero step is an error with the translated code as well. -/
theorem gen_slice_step_zero {α} (xs : List α) (a b : Option Int) (hlen : InRange xs.length)
    (ha : ∀ x, a = some x → InRange x) (hb : ∀ x, b = some x → InRange x) (fuel : Nat) :
    ∃ e, GenSlice.slice fuel xs [GenSlice.param a, GenSlice.param b, GenSlice.param (some 0)] = .err e := by
  have hd : GenSlice.Dom xs.length a b (some 0) := by
    unfold InRange at hlen ha hb
    exact ⟨by omega, hlen.2, ha, hb, by intro x hx; cases hx; omega⟩
  have hg := gen_computeSliceParams_eq xs.length a b (some 0) hd
  unfold GenSlice.slice
  cases hq : GenSlice.computeSliceParams (xs.length : Int) [GenSlice.param a, GenSlice.param b, GenSlice.param (some 0)] with
  | error m => exact ⟨_, rfl⟩
  | ok l =>
    rw [hq] at hg
    simp [GenSlice.expected, Slice.computeSliceParams, Slice.stepOf, Except.toOption] at hg

end Jmes
