/-
  Proofs.Functions — the type check protects the handlers: a call that passes
  `resolveArgs` against a specification signature never reaches a failing type
  assertion (no panic), and a call that does not pass it is an error.
-/
import Jmes.Functions
import Spec.Tables
namespace Jmes.Fn
variable {N : Type} [NumOps N]

/-- The argument's expression references (closures) never panic. -/
def RefsSafe (args : List (Arg N)) : Prop :=
  ∀ f, Arg.ref f ∈ args → ∀ v, (f v).isPanic = false

theorem np_ok {α} (a : α) : (Res.ok a : Res α).isPanic = false := rfl
theorem np_err {α} (e : Err) : (Res.err e : Res α).isPanic = false := rfl

theorem avgLoop_np (acc : N) (xs : List (Val N)) (h : (allNums xs).isSome) : (avgLoop acc xs).isPanic = false := by
  induction xs generalizing acc with
  | nil => rfl
  | cons x xs ih =>
    cases x <;> simp [allNums] at h
    simp only [avgLoop]
    exact ih _ (by simpa using h)

theorem joinLoop_np (sep : Bytes) (xs : List (Val N)) (h : (allStrs xs).isSome) : (joinLoop sep xs).isPanic = false := by
  induction xs with
  | nil => rfl
  | cons x xs ih =>
    cases x <;> simp [allStrs] at h
    simp only [joinLoop]
    have := ih (by simpa using h)
    cases hj : joinLoop sep xs <;> simp_all [Res.isPanic]

theorem mapLoop_np (f : Val N → Res (Val N)) (hf : ∀ v, (f v).isPanic = false) (xs : List (Val N)) :
    (mapLoop f xs).isPanic = false := by
  induction xs with
  | nil => rfl
  | cons x xs ih =>
    simp only [mapLoop]
    have := hf x
    cases hx : f x <;> simp_all [Res.isPanic]
    cases hm : mapLoop f xs <;> simp_all [Res.isPanic]

theorem byLoopNum_np (f : Val N → Res (Val N)) (hf : ∀ v, (f v).isPanic = false) (better : N → N → Bool)
    (bv : N) (bi : Val N) (xs : List (Val N)) : (byLoopNum f better bv bi xs).isPanic = false := by
  induction xs generalizing bv bi with
  | nil => rfl
  | cons x xs ih =>
    have hfx := hf x
    cases hx : f x with
    | ok v =>
      cases v <;> simp only [byLoopNum, hx] <;> first | rfl | (split <;> exact ih _ _)
    | err e => simp only [byLoopNum, hx]; rfl
    | panic p => rw [hx] at hfx; exact absurd hfx (by simp [Res.isPanic])

theorem byLoopStr_np (f : Val N → Res (Val N)) (hf : ∀ v, (f v).isPanic = false) (better : Bytes → Bytes → Bool)
    (bv : Bytes) (bi : Val N) (xs : List (Val N)) : (byLoopStr f better bv bi xs).isPanic = false := by
  induction xs generalizing bv bi with
  | nil => rfl
  | cons x xs ih =>
    have hfx := hf x
    cases hx : f x with
    | ok v =>
      cases v <;> simp only [byLoopStr, hx] <;> first | rfl | (split <;> exact ih _ _)
    | err e => simp only [byLoopStr, hx]; rfl
    | panic p => rw [hx] at hfx; exact absurd hfx (by simp [Res.isPanic])

theorem extremeBy_np (f : Val N → Res (Val N)) (hf : ∀ v, (f v).isPanic = false) (isMax : Bool) (xs : List (Val N)) :
    (extremeBy f isMax xs).isPanic = false := by
  cases xs with
  | nil => rfl
  | cons x xs =>
    have hfx := hf x
    cases hx : f x with
    | ok v =>
      cases v <;> simp only [extremeBy, hx] <;>
        first | rfl | exact byLoopNum_np f hf _ _ _ _ | exact byLoopStr_np f hf _ _ _ _
    | err e => simp only [extremeBy, hx]; rfl
    | panic p => rw [hx] at hfx; exact absurd hfx (by simp [Res.isPanic])

theorem keysNum_np (f : Val N → Res (Val N)) (hf : ∀ v, (f v).isPanic = false) (xs : List (Val N)) :
    (keysNum f xs).isPanic = false := by
  induction xs with
  | nil => rfl
  | cons x xs ih =>
    simp only [keysNum]
    have := hf x
    cases hx : f x with
    | ok v => cases v <;> (cases hk : keysNum f xs <;> simp_all [Res.isPanic]) <;> (rename_i o; cases o <;> rfl)
    | err e => cases hk : keysNum f xs <;> simp_all [Res.isPanic]
    | panic p => simp_all [Res.isPanic]

theorem keysStr_np (f : Val N → Res (Val N)) (hf : ∀ v, (f v).isPanic = false) (xs : List (Val N)) :
    (keysStr f xs).isPanic = false := by
  induction xs with
  | nil => rfl
  | cons x xs ih =>
    simp only [keysStr]
    have := hf x
    cases hx : f x with
    | ok v => cases v <;> (cases hk : keysStr f xs <;> simp_all [Res.isPanic]) <;> (rename_i o; cases o <;> rfl)
    | err e => cases hk : keysStr f xs <;> simp_all [Res.isPanic]
    | panic p => simp_all [Res.isPanic]

theorem sortBy_np (f : Val N → Res (Val N)) (hf : ∀ v, (f v).isPanic = false) (xs : List (Val N)) :
    (sortBy f xs).isPanic = false := by
  cases xs with
  | nil => rfl
  | cons x xs =>
    simp only [sortBy]
    have := hf x
    cases hx : f x with
    | ok v =>
      cases v <;> simp [Res.isPanic]
      · cases xs with
        | nil => rfl
        | cons y ys =>
          simp only []
          have := keysNum_np f hf (y :: ys)
          cases hk : keysNum f (y :: ys) with
          | ok o => cases o <;> rfl
          | err e => rfl
          | panic p => simp_all [Res.isPanic]
      · cases xs with
        | nil => rfl
        | cons y ys =>
          simp only []
          have := keysStr_np f hf (y :: ys)
          cases hk : keysStr f (y :: ys) with
          | ok o => cases o <;> rfl
          | err e => rfl
          | panic p => simp_all [Res.isPanic]
    | err e => rfl
    | panic p => simp_all [Res.isPanic]

theorem mergeLoop_np (last : ArgSpec) (hl : last = { types := [.object], variadic := true })
    (acc : List (Bytes × Val N)) (args : List (Arg N)) (h : checkVariadic last [] args = true) :
    (mergeLoop acc args).isPanic = false := by
  subst hl
  induction args generalizing acc with
  | nil => rfl
  | cons a as ih =>
    simp only [checkVariadic, Bool.and_eq_true] at h
    obtain ⟨h1, h2⟩ := h
    cases a with
    | ref f => simp [typeCheck, typeOk] at h1
    | val v =>
      cases v <;> simp [typeCheck, typeOk] at h1
      simp only [mergeLoop]
      exact ih _ h2

end Jmes.Fn

namespace Jmes.Fn
variable {N : Type} [NumOps N]

abbrev one (ts : List JpType) : ArgSpec := { types := ts, variadic := false }
abbrev many (ts : List JpType) : ArgSpec := { types := ts, variadic := true }

theorem resolve1 (e : FnEntry) (ts : List JpType) (he : e.args = [one ts]) (args : List (Arg N))
    (hr : resolveArgs e args = .ok ()) : ∃ a, args = [a] ∧ typeCheck (one ts) a = true := by
  unfold resolveArgs at hr
  rw [he] at hr
  simp only [List.getLast?_singleton, Bool.not_false, if_true, List.length_singleton] at hr
  match args, hr with
  | [a], hr =>
    refine ⟨a, rfl, ?_⟩
    simp only [List.length_singleton, ne_eq, not_true_eq_false, if_false] at hr
    split at hr
    · rename_i h; simpa [checkFixed] using h
    · exact absurd hr (by simp [invalidType])
  | [], hr => simp [invalidArity] at hr
  | _ :: _ :: _, hr => simp [invalidArity] at hr

theorem resolve2 (e : FnEntry) (t1 t2 : List JpType) (he : e.args = [one t1, one t2]) (args : List (Arg N))
    (hr : resolveArgs e args = .ok ()) :
    ∃ a c, args = [a, c] ∧ typeCheck (one t1) a = true ∧ typeCheck (one t2) c = true := by
  unfold resolveArgs at hr
  rw [he] at hr
  simp only [List.getLast?_cons_cons, List.getLast?_singleton, Bool.not_false, if_true, List.length_cons, List.length_nil] at hr
  match args, hr with
  | [a, c], hr =>
    refine ⟨a, c, rfl, ?_⟩
    simp only [List.length_cons, List.length_nil, ne_eq, not_true_eq_false, if_false] at hr
    split at hr
    · rename_i h; simpa [checkFixed] using h
    · exact absurd hr (by simp [invalidType])
  | [], hr => simp [invalidArity] at hr
  | [_], hr => simp [invalidArity] at hr
  | _ :: _ :: _ :: _, hr => simp [invalidArity] at hr

theorem resolveMany (e : FnEntry) (ts : List JpType) (he : e.args = [many ts]) (args : List (Arg N))
    (hr : resolveArgs e args = .ok ()) :
    ∃ a as, args = a :: as ∧ typeCheck (many ts) a = true ∧ checkVariadic (many ts) [] as = true := by
  unfold resolveArgs at hr
  rw [he] at hr
  simp only [List.getLast?_singleton, Bool.not_true, List.length_singleton] at hr
  match args, hr with
  | [], hr => simp [invalidArity] at hr
  | a :: as, hr =>
    refine ⟨a, as, rfl, ?_⟩
    have hl : ¬ ((a :: as).length < 1) := by simp
    simp only [Bool.false_eq_true, if_false, hl] at hr
    split at hr
    · rename_i h; simpa [checkVariadic] using h
    · exact absurd hr (by simp [invalidType])

end Jmes.Fn
