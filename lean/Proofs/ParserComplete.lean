/-
  Proofs.ParserComplete — the relational description `R` is complete: every
  successful run of the fuel-based parser model is an `R` derivation.  With
  `R_sound` this makes `R` THE description of what the parser accepts and
  which AST it builds.
-/
import Proofs.ParserRel
namespace Jmes.Parser
variable {N : Type} [NumOps N]

theorem bind_ok {α β} {r : Res α} {k : α → Res β} {b : β} (h : (r >>= k) = .ok b) : ∃ a, r = .ok a ∧ k a = .ok b := by
  cases r with
  | ok a => exact ⟨a, rfl, h⟩
  | err e => cases h
  | panic s => cases h

theorem toOutN_ok_inv {r : Res (Node N × PState)} {o : Out N} (h : toOutN r = .ok o) : ∃ n p, r = .ok (n, p) ∧ o = .node n p := by
  cases r with
  | ok x => obtain ⟨n, p⟩ := x; simp only [toOutN, Res.ok.injEq] at h; exact ⟨n, p, rfl, h.symm⟩
  | err e => cases h
  | panic s => cases h

theorem toOutA_ok_inv {r : Res (List (Bool × Node N) × PState)} {o : Out N} (h : toOutA r = .ok o) :
    ∃ a p, r = .ok (a, p) ∧ o = .args a p := by
  cases r with
  | ok x => obtain ⟨n, p⟩ := x; simp only [toOutA, Res.ok.injEq] at h; exact ⟨n, p, rfl, h.symm⟩
  | err e => cases h
  | panic s => cases h

theorem curTok_ok {p : PState} {t : Token} (h : p.curTok = .ok t) : ∃ rest, p.after = t :: rest := by
  unfold PState.curTok at h
  split at h
  · rename_i t' r heq; simp only [Res.ok.injEq] at h; subst h; exact ⟨r, heq⟩
  · cases h

theorem cur_ok {p : PState} {ty : TokType} (h : p.cur = .ok ty) : ∃ t rest, p.after = t :: rest ∧ t.ty = ty := by
  unfold PState.cur at h
  split at h
  · rename_i t' r heq; simp only [Res.ok.injEq] at h; exact ⟨t', r, heq, h⟩
  · cases h

theorem look1_ok {p : PState} {ty : TokType} (h : p.look1 = .ok ty) : ∃ t u rest, p.after = t :: u :: rest ∧ u.ty = ty := by
  unfold PState.look1 at h
  split at h
  · rename_i t' u r heq; simp only [Res.ok.injEq] at h; exact ⟨t', u, r, heq, h⟩
  · cases h

theorem expect_ok_inv {p p' : PState} {ty : TokType} (h : p.expect ty = .ok p') :
    ∃ t rest, p.after = t :: rest ∧ t.ty = ty ∧ p' = p.advance := by
  unfold PState.expect at h
  split at h
  · rename_i t' r heq
    split at h
    · rename_i hty; simp only [Res.ok.injEq] at h; exact ⟨t', r, heq, hty, h.symm⟩
    · cases h
  · cases h

theorem oof_ne_ok {α} {a : α} : (outOfFuel : Res α) ≠ .ok a := by simp [outOfFuel]

section Steps
variable (tbl : ParserTable) (f : Nat) (ih : ∀ (c : Call N) (o : Out N), run tbl f c = .ok o → R tbl c o)
include ih

theorem ihExpr {bp p n p1} (h : parseExpression (N := N) tbl f bp p = .ok (n, p1)) : R tbl (.expr bp p) (.node n p1) :=
  ih _ _ (by simp only [run, h, toOutN])
theorem ihLoop {bp l p n p1} (h : ledLoop (N := N) tbl f bp l p = .ok (n, p1)) : R tbl (.loop bp l p) (.node n p1) :=
  ih _ _ (by simp only [run, h, toOutN])
theorem ihNud {t p n p1} (h : nud (N := N) tbl f t p = .ok (n, p1)) : R tbl (.nud t p) (.node n p1) :=
  ih _ _ (by simp only [run, h, toOutN])
theorem ihLed {ty l p n p1} (h : led (N := N) tbl f ty l p = .ok (n, p1)) : R tbl (.led ty l p) (.node n p1) :=
  ih _ _ (by simp only [run, h, toOutN])
theorem ihDot {bp p n p1} (h : parseDotRHS (N := N) tbl f bp p = .ok (n, p1)) : R tbl (.dot bp p) (.node n p1) :=
  ih _ _ (by simp only [run, h, toOutN])
theorem ihMsl {p acc n p1} (h : parseMultiSelectList (N := N) tbl f p acc = .ok (n, p1)) : R tbl (.msl p acc) (.node n p1) :=
  ih _ _ (by simp only [run, h, toOutN])
theorem ihMsh {p acc n p1} (h : parseMultiSelectHash (N := N) tbl f p acc = .ok (n, p1)) : R tbl (.msh p acc) (.node n p1) :=
  ih _ _ (by simp only [run, h, toOutN])
theorem ihArgs {p a p1} (h : parseArgs (N := N) tbl f p = .ok (a, p1)) : R tbl (.args p) (.args a p1) :=
  ih _ _ (by simp only [run, h, toOutA])
theorem ihPrhs {bp p n p1} (h : parseProjectionRHS (N := N) tbl f bp p = .ok (n, p1)) : R tbl (.prhs bp p) (.node n p1) :=
  ih _ _ (by simp only [run, h, toOutN])
theorem ihFilter {l p n p1} (h : parseFilter (N := N) tbl f l p = .ok (n, p1)) : R tbl (.filter l p) (.node n p1) :=
  ih _ _ (by simp only [run, h, toOutN])
theorem ihPis {l r p n p1} (h : projectIfSlice (N := N) tbl f l r p = .ok (n, p1)) : R tbl (.pis l r p) (.node n p1) :=
  ih _ _ (by simp only [run, h, toOutN])

theorem inv_expr {bp p n p2} (h : parseExpression (N := N) tbl (f + 1) bp p = .ok (n, p2)) : R tbl (.expr bp p) (.node n p2) := by
  simp only [parseExpression] at h
  obtain ⟨tok, htok, h⟩ := bind_ok h
  obtain ⟨⟨left, p1⟩, hnud, h⟩ := bind_ok h
  obtain ⟨rest, hafter⟩ := curTok_ok htok
  exact R.expr hafter (ihNud tbl f ih hnud) (ihLoop tbl f ih h)

theorem inv_loop {bp l p n p2} (h : ledLoop (N := N) tbl (f + 1) bp l p = .ok (n, p2)) : R tbl (.loop bp l p) (.node n p2) := by
  simp only [ledLoop] at h
  obtain ⟨cur, hcur, h⟩ := bind_ok h
  obtain ⟨t, rest, hafter, rfl⟩ := cur_ok hcur
  try dsimp only at h
  split at h
  · rename_i hlt
    obtain ⟨⟨left', p1⟩, hled, h⟩ := bind_ok h
    exact R.step hafter hlt (ihLed tbl f ih hled) (ihLoop tbl f ih h)
  · rename_i hnlt
    simp only [Res.ok.injEq, Prod.mk.injEq] at h
    obtain ⟨rfl, rfl⟩ := h
    exact R.stop hafter hnlt

theorem inv_dot {bp p n p2} (h : parseDotRHS (N := N) tbl (f + 1) bp p = .ok (n, p2)) : R tbl (.dot bp p) (.node n p2) := by
  simp only [parseDotRHS] at h
  obtain ⟨la, hcur, h⟩ := bind_ok h
  obtain ⟨t, rest, hafter, rfl⟩ := cur_ok hcur
  try dsimp only at h
  split at h
  · rename_i hty
    rcases hty with hq | hu | hs
    · exact R.dotIdent hafter (Or.inl hq) (ihExpr tbl f ih h)
    · exact R.dotIdent hafter (Or.inr hu) (ihExpr tbl f ih h)
    · exact R.dotStar hafter hs (ihExpr tbl f ih h)
  · split at h
    · rename_i hlb; exact R.dotList hafter hlb (ihMsl tbl f ih h)
    · split at h
      · rename_i hlb; exact R.dotHash hafter hlb (ihMsh tbl f ih h)
      · unfold PState.syntaxError at h; rw [hafter] at h; cases h

theorem inv_prhs {bp p n p2} (h : parseProjectionRHS (N := N) tbl (f + 1) bp p = .ok (n, p2)) : R tbl (.prhs bp p) (.node n p2) := by
  simp only [parseProjectionRHS] at h
  obtain ⟨la, hcur, h⟩ := bind_ok h
  obtain ⟨t, rest, hafter, rfl⟩ := cur_ok hcur
  try dsimp only at h
  split at h
  · rename_i hlt
    simp only [Res.ok.injEq, Prod.mk.injEq] at h
    obtain ⟨rfl, rfl⟩ := h
    exact R.prhsId hafter hlt
  · rename_i hnlt
    split at h
    · rename_i hlb; exact R.prhsBracket hafter hnlt (Or.inl hlb) (ihExpr tbl f ih h)
    · split at h
      · rename_i hfl; exact R.prhsBracket hafter hnlt (Or.inr hfl) (ihExpr tbl f ih h)
      · split at h
        · rename_i hd; exact R.prhsDot hafter hnlt hd (ihDot tbl f ih h)
        · unfold PState.syntaxError at h; rw [hafter] at h; cases h

theorem inv_pis {l r p n p2} (h : projectIfSlice (N := N) tbl (f + 1) l r p = .ok (n, p2)) : R tbl (.pis l r p) (.node n p2) := by
  simp only [projectIfSlice] at h
  split at h
  · rename_i hs
    obtain ⟨⟨rhs, p1⟩, hr, h⟩ := bind_ok h
    simp only [Res.ok.injEq, Prod.mk.injEq] at h
    obtain ⟨rfl, rfl⟩ := h
    exact R.pisSlice hs (ihPrhs tbl f ih hr)
  · rename_i hs
    simp only [Res.ok.injEq, Prod.mk.injEq] at h
    obtain ⟨rfl, rfl⟩ := h
    exact R.pisIndex (by simpa using hs)

theorem inv_filter {l p n p3} (h : parseFilter (N := N) tbl (f + 1) l p = .ok (n, p3)) : R tbl (.filter l p) (.node n p3) := by
  simp only [parseFilter] at h
  obtain ⟨⟨cond, p1⟩, hc, h⟩ := bind_ok h
  obtain ⟨p2, hexp, h⟩ := bind_ok h
  dsimp only at hexp h
  obtain ⟨rb, rest0, hafter1, hrb, rfl⟩ := expect_ok_inv hexp
  obtain ⟨cur, hcur, h⟩ := bind_ok h
  obtain ⟨t, rest, hafter2, rfl⟩ := cur_ok hcur
  have hadv : p1.after = rb :: t :: rest := by
    have : p1.advance.after = rest0 := by simp [PState.advance, hafter1]
    rw [this] at hafter2; rw [hafter1, hafter2]
  try dsimp only at h
  split at h
  · rename_i hfl
    simp only [Res.ok.injEq, Prod.mk.injEq] at h
    obtain ⟨rfl, rfl⟩ := h
    exact R.filterFlat (ihExpr tbl f ih hc) hadv hrb hfl
  · rename_i hnfl
    obtain ⟨⟨r, p4⟩, hr, h⟩ := bind_ok h
    simp only [Res.ok.injEq, Prod.mk.injEq] at h
    obtain ⟨rfl, rfl⟩ := h
    exact R.filterRhs (ihExpr tbl f ih hc) hadv hrb hnfl (ihPrhs tbl f ih hr)

theorem inv_msl {p acc n p3} (h : parseMultiSelectList (N := N) tbl (f + 1) p acc = .ok (n, p3)) : R tbl (.msl p acc) (.node n p3) := by
  simp only [parseMultiSelectList] at h
  obtain ⟨⟨e, p1⟩, he, h⟩ := bind_ok h
  obtain ⟨cur, hcur, h⟩ := bind_ok h
  dsimp only at hcur h
  obtain ⟨t, rest, hafter, rfl⟩ := cur_ok hcur
  split at h
  · rename_i hrb
    obtain ⟨p2, hexp, h⟩ := bind_ok h
    obtain ⟨t', rest', hafter', _, rfl⟩ := expect_ok_inv hexp
    simp only [Res.ok.injEq, Prod.mk.injEq] at h
    obtain ⟨rfl, rfl⟩ := h
    exact R.mslLast (ihExpr tbl f ih he) hafter hrb
  · obtain ⟨p2, hexp, h⟩ := bind_ok h
    obtain ⟨t', rest', hafter', hc, rfl⟩ := expect_ok_inv hexp
    rw [hafter] at hafter'
    simp only [List.cons.injEq] at hafter'
    obtain ⟨rfl, rfl⟩ := hafter'
    exact R.mslMore (ihExpr tbl f ih he) hafter hc (ihMsl tbl f ih h)

theorem inv_msh {p acc n p3} (h : parseMultiSelectHash (N := N) tbl (f + 1) p acc = .ok (n, p3)) : R tbl (.msh p acc) (.node n p3) := by
  simp only [parseMultiSelectHash] at h
  obtain ⟨k, hk, h⟩ := bind_ok h
  obtain ⟨rest0, hafter0⟩ := curTok_ok hk
  split at h
  · rename_i hkty
    obtain ⟨p1, hexp, h⟩ := bind_ok h
    obtain ⟨c, rest1, hafter1, hc, rfl⟩ := expect_ok_inv hexp
    have hafter : p.after = k :: c :: rest1 := by
      have : p.advance.after = rest0 := by simp [PState.advance, hafter0]
      rw [this] at hafter1; rw [hafter0, hafter1]
    obtain ⟨⟨v, p2⟩, hv, h⟩ := bind_ok h
    obtain ⟨cur, hcur, h⟩ := bind_ok h
    dsimp only at hcur h
    obtain ⟨t, rest, hafter2, rfl⟩ := cur_ok hcur
    split at h
    · rename_i hcm
      exact R.mshMore hafter hkty hc (ihExpr tbl f ih hv) hafter2 hcm (ihMsh tbl f ih h)
    · split at h
      · rename_i hrb
        simp only [Res.ok.injEq, Prod.mk.injEq] at h
        obtain ⟨rfl, rfl⟩ := h
        exact R.mshLast hafter hkty hc (ihExpr tbl f ih hv) hafter2 hrb
      · unfold PState.syntaxError at h; rw [hafter2] at h; cases h
  · unfold PState.syntaxError at h; rw [hafter0] at h; cases h

theorem inv_args {p a p3} (h : parseArgs (N := N) tbl (f + 1) p = .ok (a, p3)) : R tbl (.args p) (.args a p3) := by
  simp only [parseArgs] at h
  obtain ⟨cur, hcur, h⟩ := bind_ok h
  obtain ⟨t0, rest0, hafter0, rfl⟩ := cur_ok hcur
  obtain ⟨⟨arg, p1⟩, harg, h⟩ := bind_ok h
  obtain ⟨cur1, hcur1, h⟩ := bind_ok h
  dsimp only at hcur1 h
  obtain ⟨t, rest, hafter1, rfl⟩ := cur_ok hcur1
  by_cases href : t0.ty = .expref
  · -- &expr
    simp only [href, ne_eq, not_true_eq_false, if_false] at harg
    obtain ⟨⟨e, p1'⟩, he, harg⟩ := bind_ok harg
    simp only [Res.ok.injEq, Prod.mk.injEq] at harg
    obtain ⟨rfl, rfl⟩ := harg
    split at h
    · rename_i hrp
      simp only [Res.ok.injEq, Prod.mk.injEq] at h
      obtain ⟨rfl, rfl⟩ := h
      exact R.argRefLast hafter0 href (ihExpr tbl f ih he) hafter1 hrp
    · obtain ⟨p2, hexp, h⟩ := bind_ok h
      obtain ⟨t', rest', hafter', hcm, rfl⟩ := expect_ok_inv hexp
      rw [hafter1] at hafter'
      simp only [List.cons.injEq] at hafter'
      obtain ⟨rfl, rfl⟩ := hafter'
      obtain ⟨cur2, hcur2, h⟩ := bind_ok h
      obtain ⟨t2, rest2, hafter2, rfl⟩ := cur_ok hcur2
      try dsimp only at h
      split at h
      · unfold PState.syntaxError at h; rw [hafter2] at h; cases h
      · rename_i hnr
        obtain ⟨⟨as, p4⟩, has, h⟩ := bind_ok h
        simp only [Res.ok.injEq, Prod.mk.injEq] at h
        obtain ⟨rfl, rfl⟩ := h
        exact R.argRefMore hafter0 href (ihExpr tbl f ih he) hafter1 hcm hafter2 hnr (ihArgs tbl f ih has)
  · simp only [href, ne_eq, not_false_eq_true, if_true] at harg
    obtain ⟨⟨e, p1'⟩, he, harg⟩ := bind_ok harg
    simp only [Res.ok.injEq, Prod.mk.injEq] at harg
    obtain ⟨rfl, rfl⟩ := harg
    split at h
    · rename_i hrp
      simp only [Res.ok.injEq, Prod.mk.injEq] at h
      obtain ⟨rfl, rfl⟩ := h
      exact R.argPlainLast hafter0 href (ihExpr tbl f ih he) hafter1 hrp
    · obtain ⟨p2, hexp, h⟩ := bind_ok h
      obtain ⟨t', rest', hafter', hcm, rfl⟩ := expect_ok_inv hexp
      rw [hafter1] at hafter'
      simp only [List.cons.injEq] at hafter'
      obtain ⟨rfl, rfl⟩ := hafter'
      obtain ⟨cur2, hcur2, h⟩ := bind_ok h
      obtain ⟨t2, rest2, hafter2, rfl⟩ := cur_ok hcur2
      try dsimp only at h
      split at h
      · unfold PState.syntaxError at h; rw [hafter2] at h; cases h
      · rename_i hnr
        obtain ⟨⟨as, p4⟩, has, h⟩ := bind_ok h
        simp only [Res.ok.injEq, Prod.mk.injEq] at h
        obtain ⟨rfl, rfl⟩ := h
        exact R.argPlainMore hafter0 href (ihExpr tbl f ih he) hafter1 hcm hafter2 hnr (ihArgs tbl f ih has)

theorem inv_nud {tok p n p3} (h : nud (N := N) tbl (f + 1) tok p = .ok (n, p3)) : R tbl (.nud tok p) (.node n p3) := by
  cases hty : tok.ty <;> simp only [nud, hty] at h
  case jsonLiteral =>
    split at h
    · cases h
    · rename_i v hv
      simp only [Res.ok.injEq, Prod.mk.injEq] at h
      obtain ⟨rfl, rfl⟩ := h
      exact R.nudJson hty hv
  case stringLiteral =>
    simp only [Res.ok.injEq, Prod.mk.injEq] at h
    obtain ⟨rfl, rfl⟩ := h
    exact R.nudRaw hty
  case uident =>
    simp only [Res.ok.injEq, Prod.mk.injEq] at h
    obtain ⟨rfl, rfl⟩ := h
    exact R.nudIdent hty
  case qident =>
    obtain ⟨cur, hcur, h⟩ := bind_ok h
    obtain ⟨t, rest, hafter, rfl⟩ := cur_ok hcur
    split at h
    · cases h
    · rename_i hne
      simp only [Res.ok.injEq, Prod.mk.injEq] at h
      obtain ⟨rfl, rfl⟩ := h
      exact R.nudQuoted hty hafter hne
  case star =>
    obtain ⟨cur, hcur, h⟩ := bind_ok h
    obtain ⟨t, rest, hafter, rfl⟩ := cur_ok hcur
    split at h
    · rename_i hrb
      simp only [Res.ok.injEq, Prod.mk.injEq] at h
      obtain ⟨rfl, rfl⟩ := h
      exact R.nudStarR hty hafter hrb
    · rename_i hnrb
      obtain ⟨⟨r, p1⟩, hr, h⟩ := bind_ok h
      simp only [Res.ok.injEq, Prod.mk.injEq] at h
      obtain ⟨rfl, rfl⟩ := h
      exact R.nudStar hty hafter hnrb (ihPrhs tbl f ih hr)
  case filter => exact R.nudFilter hty (ihFilter tbl f ih h)
  case lbrace => exact R.nudHash hty (ihMsh tbl f ih h)
  case flatten =>
    obtain ⟨⟨r, p1⟩, hr, h⟩ := bind_ok h
    simp only [Res.ok.injEq, Prod.mk.injEq] at h
    obtain ⟨rfl, rfl⟩ := h
    exact R.nudFlatten hty (ihPrhs tbl f ih hr)
  case lbracket =>
    obtain ⟨cur, hcur, h⟩ := bind_ok h
    obtain ⟨t, rest, hafter, rfl⟩ := cur_ok hcur
    split at h
    · rename_i hnc
      obtain ⟨⟨right, p1⟩, hidx, h⟩ := bind_ok h
      exact R.nudBracketIdx hty hafter hnc hidx (ihPis tbl f ih h)
    · rename_i hnc
      obtain ⟨isStar, hstar, h⟩ := bind_ok h
      split at hstar
      · rename_i hs
        obtain ⟨c1, hl1, hstar⟩ := bind_ok hstar
        obtain ⟨t', u, rest', hafter', rfl⟩ := look1_ok hl1
        rw [hafter] at hafter'
        simp only [List.cons.injEq] at hafter'
        obtain ⟨rfl, rfl⟩ := hafter'
        simp only [Res.ok.injEq] at hstar
        subst hstar
        by_cases hrb : u.ty = .rbracket
        · simp only [hrb, decide_true, if_true] at h
          obtain ⟨⟨r, p1⟩, hr, h⟩ := bind_ok h
          simp only [Res.ok.injEq, Prod.mk.injEq] at h
          obtain ⟨rfl, rfl⟩ := h
          exact R.nudBracketStar hty hafter hs hrb (ihPrhs tbl f ih hr)
        · simp only [hrb, decide_false, Bool.false_eq_true, if_false] at h
          exact R.nudListStar hty hafter hs hrb (ihMsl tbl f ih h)
      · rename_i hns
        simp only [Res.ok.injEq] at hstar
        subst hstar
        simp only [Bool.false_eq_true, if_false] at h
        have hnn : t.ty ≠ .number := fun e => hnc (Or.inl e)
        have hncol : t.ty ≠ .colon := fun e => hnc (Or.inr e)
        exact R.nudList hty hafter hnn hncol hns (ihMsl tbl f ih h)
  case current =>
    simp only [Res.ok.injEq, Prod.mk.injEq] at h
    obtain ⟨rfl, rfl⟩ := h
    exact R.nudCurrent hty
  case not =>
    obtain ⟨⟨e, p1⟩, he, h⟩ := bind_ok h
    simp only [Res.ok.injEq, Prod.mk.injEq] at h
    obtain ⟨rfl, rfl⟩ := h
    exact R.nudNot hty (ihExpr tbl f ih he)
  case lparen =>
    obtain ⟨⟨e, p1⟩, he, h⟩ := bind_ok h
    obtain ⟨p2, hexp, h⟩ := bind_ok h
    dsimp only at hexp h
    obtain ⟨t, rest, hafter, hrp, rfl⟩ := expect_ok_inv hexp
    simp only [Res.ok.injEq, Prod.mk.injEq] at h
    obtain ⟨rfl, rfl⟩ := h
    exact R.nudParen hty (ihExpr tbl f ih he) hafter hrp
  all_goals cases h

theorem inv_cmp {ty : TokType} {op : Cmp} (hop : Cmp.ofTok ty = some op) {l : Node N} {p n p3}
    (h : (do let (right, p) ← parseExpression (N := N) tbl f ((tbl.ledCmp.lookup ty).getD 0) p
             (.ok (.cmp op l right, p) : Res (Node N × PState))) = .ok (n, p3)) :
    R tbl (.led ty l p) (.node n p3) := by
  obtain ⟨⟨r, p1⟩, hr, h⟩ := bind_ok h
  simp only [Res.ok.injEq, Prod.mk.injEq] at h
  obtain ⟨rfl, rfl⟩ := h
  exact R.ledCmp hop (ihExpr tbl f ih hr)

theorem inv_led {ty l p n p3} (h : led (N := N) tbl (f + 1) ty l p = .ok (n, p3)) : R tbl (.led ty l p) (.node n p3) := by
  cases ty <;> (try simp only [led, Cmp.ofTok] at h)
  case dot =>
    obtain ⟨cur, hcur, h⟩ := bind_ok h
    obtain ⟨t, rest, hafter, rfl⟩ := cur_ok hcur
    split at h
    · rename_i hns
      obtain ⟨⟨r, p1⟩, hr, h⟩ := bind_ok h
      simp only [Res.ok.injEq, Prod.mk.injEq] at h
      obtain ⟨rfl, rfl⟩ := h
      exact R.ledDot hafter hns (ihDot tbl f ih hr)
    · rename_i hs
      obtain ⟨⟨r, p1⟩, hr, h⟩ := bind_ok h
      simp only [Res.ok.injEq, Prod.mk.injEq] at h
      obtain ⟨rfl, rfl⟩ := h
      exact R.ledDotStar hafter (by simpa using hs) (ihPrhs tbl f ih hr)
  case pipe =>
    obtain ⟨⟨r, p1⟩, hr, h⟩ := bind_ok h
    simp only [Res.ok.injEq, Prod.mk.injEq] at h
    obtain ⟨rfl, rfl⟩ := h
    exact R.ledPipe (ihExpr tbl f ih hr)
  case or =>
    obtain ⟨⟨r, p1⟩, hr, h⟩ := bind_ok h
    simp only [Res.ok.injEq, Prod.mk.injEq] at h
    obtain ⟨rfl, rfl⟩ := h
    exact R.ledOr (ihExpr tbl f ih hr)
  case and =>
    obtain ⟨⟨r, p1⟩, hr, h⟩ := bind_ok h
    simp only [Res.ok.injEq, Prod.mk.injEq] at h
    obtain ⟨rfl, rfl⟩ := h
    exact R.ledAnd (ihExpr tbl f ih hr)
  case filter => exact R.ledFilter (ihFilter tbl f ih h)
  case flatten =>
    obtain ⟨⟨r, p1⟩, hr, h⟩ := bind_ok h
    simp only [Res.ok.injEq, Prod.mk.injEq] at h
    obtain ⟨rfl, rfl⟩ := h
    exact R.ledFlatten (ihPrhs tbl f ih hr)
  case lbracket =>
    obtain ⟨cur, hcur, h⟩ := bind_ok h
    obtain ⟨t, rest, hafter, rfl⟩ := cur_ok hcur
    split at h
    · rename_i hnc
      obtain ⟨⟨right, p1⟩, hidx, h⟩ := bind_ok h
      exact R.ledBracketIdx hafter hnc hidx (ihPis tbl f ih h)
    · obtain ⟨p1, hexp1, h⟩ := bind_ok h
      obtain ⟨s, rest1, hafter1, hs, rfl⟩ := expect_ok_inv hexp1
      obtain ⟨p2, hexp2, h⟩ := bind_ok h
      obtain ⟨rb, rest2, hafter2, hrb, rfl⟩ := expect_ok_inv hexp2
      have hafter' : p.after = s :: rb :: rest2 := by
        have : p.advance.after = rest1 := by simp [PState.advance, hafter1]
        rw [this] at hafter2; rw [hafter1, hafter2]
      obtain ⟨⟨r, p4⟩, hr, h⟩ := bind_ok h
      simp only [Res.ok.injEq, Prod.mk.injEq] at h
      obtain ⟨rfl, rfl⟩ := h
      exact R.ledBracketStar hafter' hs hrb (ihPrhs tbl f ih hr)
  case lparen =>
    unfold led at h
    simp only at h
    split at h
    · rename_i name lp prev more hbef
      split at h
      · rename_i hprev
        obtain ⟨cur, hcur, h⟩ := bind_ok h
        obtain ⟨t0, rest0, hafter0, rfl⟩ := cur_ok hcur
        obtain ⟨⟨as, p1⟩, has, h⟩ := bind_ok h
        obtain ⟨p2, hexp, h⟩ := bind_ok h
        dsimp only at hexp h
        obtain ⟨t, rest, hafter, hrp, rfl⟩ := expect_ok_inv hexp
        simp only [Res.ok.injEq, Prod.mk.injEq] at h
        obtain ⟨rfl, rfl⟩ := h
        split at has
        · rename_i hrp0
          simp only [Res.ok.injEq, Prod.mk.injEq] at has
          obtain ⟨rfl, rfl⟩ := has
          exact R.ledCall0 hbef hprev hafter0 hrp0
        · rename_i hnrp0
          exact R.ledCall hbef hprev hafter0 hnrp0 (ihArgs tbl f ih has) hafter hrp
      · cases h
    · cases h
    · cases h
  case eq => exact inv_cmp tbl f ih rfl h
  case ne => exact inv_cmp tbl f ih rfl h
  case lt => exact inv_cmp tbl f ih rfl h
  case lte => exact inv_cmp tbl f ih rfl h
  case gt => exact inv_cmp tbl f ih rfl h
  case gte => exact inv_cmp tbl f ih rfl h
  all_goals (unfold PState.syntaxError at h; split at h <;> cases h)

end Steps

/-- **Completeness of the relational description**: a successful run of the
    parser model, at any fuel, is an `R` derivation. -/
theorem R_complete (tbl : ParserTable) : ∀ (fuel : Nat) (c : Call N) (o : Out N), run tbl fuel c = .ok o → R tbl c o := by
  intro fuel
  induction fuel with
  | zero =>
    intro c o h
    cases c <;> simp [run, parseExpression, ledLoop, nud, led, parseDotRHS, parseMultiSelectList, parseMultiSelectHash,
      parseArgs, parseProjectionRHS, parseFilter, projectIfSlice, toOutN, toOutA, outOfFuel] at h
  | succ f ih =>
    intro c o h
    cases c with
    | expr bp p => obtain ⟨n, p1, hr, rfl⟩ := toOutN_ok_inv h; exact inv_expr tbl f ih hr
    | loop bp l p => obtain ⟨n, p1, hr, rfl⟩ := toOutN_ok_inv h; exact inv_loop tbl f ih hr
    | nud t p => obtain ⟨n, p1, hr, rfl⟩ := toOutN_ok_inv h; exact inv_nud tbl f ih hr
    | led ty l p => obtain ⟨n, p1, hr, rfl⟩ := toOutN_ok_inv h; exact inv_led tbl f ih hr
    | dot bp p => obtain ⟨n, p1, hr, rfl⟩ := toOutN_ok_inv h; exact inv_dot tbl f ih hr
    | msl p acc => obtain ⟨n, p1, hr, rfl⟩ := toOutN_ok_inv h; exact inv_msl tbl f ih hr
    | msh p acc => obtain ⟨n, p1, hr, rfl⟩ := toOutN_ok_inv h; exact inv_msh tbl f ih hr
    | args p => obtain ⟨a, p1, hr, rfl⟩ := toOutA_ok_inv h; exact inv_args tbl f ih hr
    | prhs bp p => obtain ⟨n, p1, hr, rfl⟩ := toOutN_ok_inv h; exact inv_prhs tbl f ih hr
    | filter l p => obtain ⟨n, p1, hr, rfl⟩ := toOutN_ok_inv h; exact inv_filter tbl f ih hr
    | pis l r p => obtain ⟨n, p1, hr, rfl⟩ := toOutN_ok_inv h; exact inv_pis tbl f ih hr

/-- What `parseTokens` accepts, relationally: a successful parse is a
    derivation of the whole token list at level `top` that stops at `eof`. -/
theorem parseTokens_ok_iff_R (tbl : ParserTable) (toks : List Token) (ast : Node N) :
    parseTokens tbl toks = .ok ast → ∃ p1 t rest, R tbl (.expr tbl.top ⟨[], toks⟩) (.node ast p1) ∧ p1.after = t :: rest ∧ t.ty = .eof := by
  intro h
  unfold parseTokens at h
  obtain ⟨⟨e, p1⟩, he, h⟩ := bind_ok h
  obtain ⟨cur, hcur, h⟩ := bind_ok h
  try dsimp only at hcur h
  obtain ⟨t, rest, hafter, rfl⟩ := cur_ok hcur
  split at h
  · unfold PState.syntaxError at h; rw [hafter] at h; cases h
  · rename_i heof
    simp only [Res.ok.injEq] at h
    subst h
    exact ⟨p1, t, rest, R_complete tbl (fuelFor toks.length) _ _ (by simp only [run, he, toOutN]), hafter, by simpa using heof⟩

end Jmes.Parser
