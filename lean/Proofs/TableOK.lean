/-
  Proofs.TableOK — `TableOK` (the order facts of the JMESPath precedence rules,
  decided on the regenerated table on every run) implies that a table makes
  the same parsing decisions as any other table satisfying it — in particular
  as the specification's.
-/
import Proofs.TableTransfer
namespace Jmes.Props
open Jmes TokType

def cmpToks : List TokType := [eq, ne, lt, lte, gt, gte]
def terminatorToks : List TokType :=
  [eof, uident, qident, rbracket, rparen, comma, rbrace, number, current, expref, colon, unknown, jsonLiteral, stringLiteral]

/-- The order facts the JMESPath precedence rules need, and that every
    constant handed to a parse function is the power the rules prescribe. -/
def TableOK (t : ParserTable) : Bool :=
  let p := t.power
  terminatorToks.all (fun k => p k == 0)
  && decide (0 < p pipe) && decide (p pipe < p or) && decide (p or < p and) && decide (p and < p eq)
  && cmpToks.all (fun k => p k == p eq)
  && decide (p eq < p flatten) && decide (p flatten < t.projStop) && decide (t.projStop ≤ p star)
  && decide (p star < p filter) && decide (p filter < p dot) && decide (p dot < p not)
  && decide (p not < p lbrace) && decide (p lbrace < p lbracket) && decide (p lbracket < p lparen)
  && t.ledPipe == p pipe && t.ledOr == p or && t.ledAnd == p and
  && cmpToks.all (fun k => t.ledCmp.lookup k == some (p eq))
  && t.ledFlatten == p flatten && t.ledDotSub == p dot && t.ledDotStar == p star
  && t.ledBracketStar == p star && t.nudStar == p star && t.nudFlatten == p flatten
  && t.nudBracketStar == p star && t.nudNot == p not && t.sliceProj == p star && t.filterRhs == p filter
  && t.nudParen == 0 && t.msList == 0 && t.msHash == 0 && t.filterCond == 0 && t.top == 0
  && t.ledArg == 0 && t.ledArgExpref == 0


/-- The precedence level of a token in the JMESPath rules (terminators 0 … call 13; the projection stop sits between 5 and 7). -/
def rank : TokType → Nat
  | .pipe => 1 | .or => 2 | .and => 3
  | .eq | .ne | .lt | .lte | .gt | .gte => 4
  | .flatten => 5 | .star => 7 | .filter => 8 | .dot => 9 | .not => 10
  | .lbrace => 11 | .lbracket => 12 | .lparen => 13
  | _ => 0

/-- One representative token per level. -/
def rep : Nat → TokType
  | 1 => .pipe | 2 => .or | 3 => .and | 4 => .eq | 5 => .flatten | 7 => .star | 8 => .filter | 9 => .dot
  | 10 => .not | 11 => .lbrace | 12 => .lbracket | 13 => .lparen | _ => .eof

theorem power_eq_rep (t : ParserTable) (h : TableOK t = true) (a : TokType) : t.power a = t.power (rep (rank a)) := by
  simp only [TableOK, terminatorToks, cmpToks, List.all_cons, List.all_nil, Bool.and_true, Bool.and_eq_true,
    beq_iff_eq, decide_eq_true_eq] at h
  cases a <;> simp only [rank, rep] <;> omega

theorem rank_mem (a : TokType) : rank a ∈ [0, 1, 2, 3, 4, 5, 7, 8, 9, 10, 11, 12, 13] := by
  cases a <;> simp [rank]

set_option maxHeartbeats 1000000 in
theorem rep_lt_iff (t : ParserTable) (h : TableOK t = true) (i j : Nat)
    (hi : i ∈ [0, 1, 2, 3, 4, 5, 7, 8, 9, 10, 11, 12, 13]) (hj : j ∈ [0, 1, 2, 3, 4, 5, 7, 8, 9, 10, 11, 12, 13]) :
    t.power (rep i) < t.power (rep j) ↔ i < j := by
  simp only [TableOK, terminatorToks, cmpToks, List.all_cons, List.all_nil, Bool.and_true, Bool.and_eq_true,
    beq_iff_eq, decide_eq_true_eq] at h
  simp only [List.mem_cons, List.not_mem_nil, or_false] at hi hj
  rcases hi with rfl | rfl | rfl | rfl | rfl | rfl | rfl | rfl | rfl | rfl | rfl | rfl | rfl <;>
  rcases hj with rfl | rfl | rfl | rfl | rfl | rfl | rfl | rfl | rfl | rfl | rfl | rfl | rfl <;>
  simp only [rep] <;> omega

theorem power_lt_iff_rank (t : ParserTable) (h : TableOK t = true) (a b : TokType) :
    t.power a < t.power b ↔ rank a < rank b := by
  rw [power_eq_rep t h a, power_eq_rep t h b]
  exact rep_lt_iff t h _ _ (rank_mem a) (rank_mem b)

theorem power_lt_stop_iff (t : ParserTable) (h : TableOK t = true) (a : TokType) : t.power a < t.projStop ↔ rank a < 6 := by
  simp only [TableOK, terminatorToks, cmpToks, List.all_cons, List.all_nil, Bool.and_true, Bool.and_eq_true,
    beq_iff_eq, decide_eq_true_eq] at h
  cases a <;> simp only [rank] <;> omega

theorem zero_lt_power_iff (t : ParserTable) (h : TableOK t = true) (b : TokType) : 0 < t.power b ↔ 0 < rank b := by
  simp only [TableOK, terminatorToks, cmpToks, List.all_cons, List.all_nil, Bool.and_true, Bool.and_eq_true,
    beq_iff_eq, decide_eq_true_eq] at h
  cases b <;> simp only [rank] <;> omega

theorem tableOK_consts (t : ParserTable) (h : TableOK t = true) :
    t.ledPipe = t.power pipe ∧ t.ledOr = t.power TokType.or ∧ t.ledAnd = t.power TokType.and ∧
    t.ledFlatten = t.power flatten ∧ t.ledDotSub = t.power dot ∧ t.ledDotStar = t.power star ∧
    t.ledBracketStar = t.power star ∧ t.nudStar = t.power star ∧ t.nudFlatten = t.power flatten ∧
    t.nudBracketStar = t.power star ∧ t.nudNot = t.power TokType.not ∧ t.sliceProj = t.power star ∧
    t.filterRhs = t.power filter ∧ t.nudParen = 0 ∧ t.msList = 0 ∧ t.msHash = 0 ∧ t.filterCond = 0 ∧ t.top = 0 ∧
    t.ledArg = 0 ∧ t.ledArgExpref = 0 ∧
    (∀ ty op, Cmp.ofTok ty = some op → (t.ledCmp.lookup ty).getD 0 = t.power eq) := by
  simp only [TableOK, terminatorToks, cmpToks, List.all_cons, List.all_nil, Bool.and_true, Bool.and_eq_true,
    beq_iff_eq, decide_eq_true_eq] at h
  refine ⟨by omega, by omega, by omega, by omega, by omega, by omega, by omega, by omega, by omega, by omega,
    by omega, by omega, by omega, by omega, by omega, by omega, by omega, by omega, by omega, by omega, ?_⟩
  intro ty op hop
  obtain ⟨⟨⟨⟨⟨⟨⟨⟨⟨⟨⟨⟨⟨⟨⟨⟨⟨⟨_, hc⟩, _⟩, _⟩, _⟩, _⟩, _⟩, _⟩, _⟩, _⟩, _⟩, _⟩, _⟩, _⟩, _⟩, _⟩, _⟩, _⟩, _⟩ := h
  cases ty <;> simp [Cmp.ofTok] at hop <;> simp [hc.1, hc.2.1, hc.2.2.1, hc.2.2.2.1, hc.2.2.2.2.1, hc.2.2.2.2.2]

/-- Any two tables satisfying `TableOK` make the same parsing decisions. -/
theorem sameDecisions_of_tableOK (t s : ParserTable) (ht : TableOK t = true) (hs : TableOK s = true) :
    Parser.SameDecisions t s := by
  have ct := tableOK_consts t ht
  have cs := tableOK_consts s hs
  have via : ∀ a, Parser.RB t s (t.power a) (s.power a) := fun a ty =>
    (power_lt_iff_rank t ht a ty).trans (power_lt_iff_rank s hs a ty).symm
  have zero : Parser.RB t s 0 0 := fun ty => (zero_lt_power_iff t ht ty).trans (zero_lt_power_iff s hs ty).symm
  refine {
    stop := fun ty => (power_lt_stop_iff t ht ty).trans (power_lt_stop_iff s hs ty).symm
    top := by rw [ct.2.2.2.2.2.2.2.2.2.2.2.2.2.2.2.2.2.1, cs.2.2.2.2.2.2.2.2.2.2.2.2.2.2.2.2.2.1]; exact zero
    ledDotSub := by rw [ct.2.2.2.2.1, cs.2.2.2.2.1]; exact via _
    ledDotStar := by rw [ct.2.2.2.2.2.1, cs.2.2.2.2.2.1]; exact via _
    ledPipe := by rw [ct.1, cs.1]; exact via _
    ledOr := by rw [ct.2.1, cs.2.1]; exact via _
    ledAnd := by rw [ct.2.2.1, cs.2.2.1]; exact via _
    ledArg := by rw [ct.2.2.2.2.2.2.2.2.2.2.2.2.2.2.2.2.2.2.1, cs.2.2.2.2.2.2.2.2.2.2.2.2.2.2.2.2.2.2.1]; exact zero
    ledArgExpref := by rw [ct.2.2.2.2.2.2.2.2.2.2.2.2.2.2.2.2.2.2.2.1, cs.2.2.2.2.2.2.2.2.2.2.2.2.2.2.2.2.2.2.2.1]; exact zero
    ledFlatten := by rw [ct.2.2.2.1, cs.2.2.2.1]; exact via _
    ledCmp := by
      intro ty op hop
      rw [ct.2.2.2.2.2.2.2.2.2.2.2.2.2.2.2.2.2.2.2.2 ty op hop, cs.2.2.2.2.2.2.2.2.2.2.2.2.2.2.2.2.2.2.2.2 ty op hop]
      exact via _
    ledBracketStar := by rw [ct.2.2.2.2.2.2.1, cs.2.2.2.2.2.2.1]; exact via _
    nudStar := by rw [ct.2.2.2.2.2.2.2.1, cs.2.2.2.2.2.2.2.1]; exact via _
    nudFlatten := by rw [ct.2.2.2.2.2.2.2.2.1, cs.2.2.2.2.2.2.2.2.1]; exact via _
    nudBracketStar := by rw [ct.2.2.2.2.2.2.2.2.2.1, cs.2.2.2.2.2.2.2.2.2.1]; exact via _
    nudNot := by rw [ct.2.2.2.2.2.2.2.2.2.2.1, cs.2.2.2.2.2.2.2.2.2.2.1]; exact via _
    sliceProj := by rw [ct.2.2.2.2.2.2.2.2.2.2.2.1, cs.2.2.2.2.2.2.2.2.2.2.2.1]; exact via _
    filterRhs := by rw [ct.2.2.2.2.2.2.2.2.2.2.2.2.1, cs.2.2.2.2.2.2.2.2.2.2.2.2.1]; exact via _
    nudParen := by rw [ct.2.2.2.2.2.2.2.2.2.2.2.2.2.1, cs.2.2.2.2.2.2.2.2.2.2.2.2.2.1]; exact zero
    msList := by rw [ct.2.2.2.2.2.2.2.2.2.2.2.2.2.2.1, cs.2.2.2.2.2.2.2.2.2.2.2.2.2.2.1]; exact zero
    msHash := by rw [ct.2.2.2.2.2.2.2.2.2.2.2.2.2.2.2.1, cs.2.2.2.2.2.2.2.2.2.2.2.2.2.2.2.1]; exact zero
    filterCond := by rw [ct.2.2.2.2.2.2.2.2.2.2.2.2.2.2.2.2.1, cs.2.2.2.2.2.2.2.2.2.2.2.2.2.2.2.2.1]; exact zero }

end Jmes.Props
