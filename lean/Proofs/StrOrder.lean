/-
  Proofs.StrOrder — `Val.bytesLt` (Go's `<` on strings) is a strict total
  order on byte strings, and what follows from that for the string branches of
  `sort`, `sort_by`, `max`, `min`, `max_by`, `min_by` (helper lemmas for the
  string part of Props.C09).
-/
import Jmes.Functions
import Proofs.Utf8Order
namespace Jmes.StrOrder
open Jmes Jmes.Val Jmes.Fn Jmes.Utf8Order

/-! ### `bytesLt` is a strict total order -/

theorem natLt_trans : ∀ (a b c : List Nat), natLt a b = true → natLt b c = true → natLt a c = true
  | [], [], _, h, _ => by simp [natLt] at h
  | [], _ :: _, [], _, h => by simp [natLt] at h
  | [], _ :: _, _ :: _, _, _ => by simp [natLt]
  | _ :: _, [], _, h, _ => by simp [natLt] at h
  | _ :: _, _ :: _, [], _, h => by simp [natLt] at h
  | x :: xs, y :: ys, z :: zs, h1, h2 => by
    simp only [natLt] at h1 h2 ⊢
    by_cases hxy : x < y
    · by_cases hyz : y < z
      · have : x < z := by omega
        simp [this]
      · by_cases hzy : z < y
        · simp [hyz, hzy] at h2
        · have : x < z := by omega
          simp [this]
    · by_cases hyx : y < x
      · simp [hxy, hyx] at h1
      · simp only [hxy, hyx, if_false] at h1
        have e : x = y := by omega
        subst e
        by_cases hxz : x < z
        · simp [hxz]
        · by_cases hzx : z < x
          · simp [hxz, hzx] at h2
          · simp only [hxz, hzx, if_false] at h2 ⊢
            exact natLt_trans xs ys zs h1 h2

/-- `bytesLt` is transitive. -/
theorem bytesLt_trans (a b c : Bytes) (h1 : bytesLt a b = true) (h2 : bytesLt b c = true) :
    bytesLt a c = true := by
  rw [bytesLt_eq_natLt] at h1 h2 ⊢
  exact natLt_trans _ _ _ h1 h2

/-- `bytesLt` is total: two strings are equal or one is below the other. -/
theorem bytesLt_total : ∀ a b : Bytes, bytesLt a b = true ∨ a = b ∨ bytesLt b a = true
  | [], [] => Or.inr (Or.inl rfl)
  | [], _ :: _ => Or.inl (by simp [bytesLt])
  | _ :: _, [] => Or.inr (Or.inr (by simp [bytesLt]))
  | x :: xs, y :: ys => by
    simp only [bytesLt]
    by_cases hxy : x < y
    · left; simp [hxy]
    · by_cases hyx : y < x
      · right; right; simp [hyx]
      · have e : x = y := by
          apply UInt8.toNat_inj.mp
          rw [UInt8.lt_iff_toNat_lt] at hxy hyx
          omega
        subst e
        simp only [hxy, if_false, List.cons.injEq, true_and]
        exact bytesLt_total xs ys

/-- A strict total order on byte strings, as a Boolean relation. -/
structure StrictOrd (lt : Bytes → Bytes → Bool) : Prop where
  irrefl : ∀ a, lt a a = false
  trans : ∀ a b c, lt a b = true → lt b c = true → lt a c = true
  total : ∀ a b, lt a b = true ∨ a = b ∨ lt b a = true

theorem bytesLt_ord : StrictOrd bytesLt :=
  ⟨bytesLt_irrefl, bytesLt_trans, bytesLt_total⟩

/-- … and so is its converse (used by `min`, `min_by`). -/
theorem bytesGt_ord : StrictOrd (fun a b => bytesLt b a) :=
  ⟨bytesLt_irrefl, fun a b c h1 h2 => bytesLt_trans c b a h2 h1, fun a b => by
    rcases bytesLt_total a b with h | h | h
    · exact Or.inr (Or.inr h)
    · exact Or.inr (Or.inl h)
    · exact Or.inl h⟩

/-! ### The `Less` of the sorts: `le s t := !(t < s)` -/

/-- The order `sort` uses on strings. -/
def leStr (a b : Bytes) : Bool := !bytesLt b a

/-- The order `sort_by` uses on (string key, element) pairs. -/
def leStrKey {N : Type} (a b : Bytes × Val N) : Bool := !bytesLt b.1 a.1

theorem leStr_total (a b : Bytes) : (leStr a b || leStr b a) = true := by
  unfold leStr
  cases h1 : bytesLt b a <;> cases h2 : bytesLt a b <;> simp
  have := bytesLt_asymm a b h2
  rw [h1] at this
  cases this

theorem leStr_trans (a b c : Bytes) (h1 : leStr a b = true) (h2 : leStr b c = true) : leStr a c = true := by
  unfold leStr at *
  simp only [Bool.not_eq_true'] at *
  cases hca : bytesLt c a
  · rfl
  · exfalso
    rcases bytesLt_total a b with hab | hab | hab
    · have := bytesLt_trans c a b hca hab; rw [h2] at this; cases this
    · subst hab; rw [h2] at hca; cases hca
    · rw [h1] at hab; cases hab

/-! ### max / min: the loop `if best < x then x else best` for a strict total order -/

/-- `maxStr` / `minStr`, for an arbitrary comparison. -/
def extLoop (lt : Bytes → Bytes → Bool) : Bytes → List Bytes → Bytes
  | best, [] => best
  | best, x :: xs => extLoop lt (if lt best x then x else best) xs

theorem maxStr_eq_extLoop : ∀ (xs : List Bytes) (best : Bytes), maxStr best xs = extLoop bytesLt best xs
  | [], _ => rfl
  | x :: xs, best => by simp only [maxStr, extLoop]; exact maxStr_eq_extLoop xs _

theorem minStr_eq_extLoop : ∀ (xs : List Bytes) (best : Bytes),
    minStr best xs = extLoop (fun a b => bytesLt b a) best xs
  | [], _ => rfl
  | x :: xs, best => by simp only [minStr, extLoop]; exact minStr_eq_extLoop xs _

theorem extLoop_mem (lt : Bytes → Bytes → Bool) (best : Bytes) (xs : List Bytes) :
    extLoop lt best xs ∈ best :: xs := by
  induction xs generalizing best with
  | nil => simp [extLoop]
  | cons x xs ih =>
    simp only [extLoop]
    have h := ih (if lt best x then x else best)
    rcases List.mem_cons.mp h with e | e
    · rw [e]; split <;> simp
    · exact List.mem_cons_of_mem _ (List.mem_cons_of_mem _ e)

theorem extLoop_ge {lt : Bytes → Bytes → Bool} (o : StrictOrd lt) :
    ∀ (best : Bytes) (xs : List Bytes), lt (extLoop lt best xs) best = false ∧
      ∀ x ∈ xs, lt (extLoop lt best xs) x = false
  | best, [] => ⟨o.irrefl best, by intro x hx; cases hx⟩
  | best, y :: ys => by
    simp only [extLoop]
    have ih := extLoop_ge o (if lt best y then y else best) ys
    have key : ∀ m : Bytes, lt m (if lt best y then y else best) = false → lt m best = false ∧ lt m y = false := by
      intro m hm
      by_cases hb : lt best y = true
      · simp only [hb, if_true] at hm
        refine ⟨?_, hm⟩
        cases h : lt m best
        · rfl
        · have := o.trans m best y h hb; rw [hm] at this; cases this
      · have hb' : lt best y = false := by simpa using hb
        simp only [hb', Bool.false_eq_true, if_false] at hm
        refine ⟨hm, ?_⟩
        cases h : lt m y
        · rfl
        · rcases o.total best y with h1 | h1 | h1
          · rw [hb'] at h1; cases h1
          · subst h1; rw [hm] at h; cases h
          · have := o.trans m y best h h1; rw [hm] at this; cases this
    obtain ⟨h1, h2⟩ := key _ ih.1
    refine ⟨h1, ?_⟩
    intro x hx
    rcases List.mem_cons.mp hx with rfl | hx'
    · exact h2
    · exact ih.2 x hx'

theorem extLoop_extreme {lt : Bytes → Bytes → Bool} (o : StrictOrd lt) (x : Bytes) (xs : List Bytes) :
    extLoop lt x xs ∈ x :: xs ∧ ∀ y ∈ x :: xs, lt (extLoop lt x xs) y = false := by
  refine ⟨extLoop_mem lt x xs, ?_⟩
  intro y hy
  rcases List.mem_cons.mp hy with rfl | hy'
  · exact (extLoop_ge o y xs).1
  · exact (extLoop_ge o x xs).2 y hy'

/-! ### max_by / min_by with string keys: the FIRST extremal element -/

section byLoop
variable {N : Type}

/-- Invariant of the max_by / min_by loop with string keys, for a strict total
    order `lt` (`better cur best := lt best cur`): the result is the current
    best unless a later element has a strictly better key; ties keep the
    earlier element. -/
theorem byLoopStr_first {lt : Bytes → Bytes → Bool} (o : StrictOrd lt) (f : Val N → Res (Val N)) (key : Val N → Bytes) :
    ∀ (xs : List (Val N)) (bv : Bytes) (bi r : Val N), (∀ x ∈ xs, f x = .ok (.str (key x))) →
    byLoopStr f (fun cur best => lt best cur) bv bi xs = .ok r →
    (r = bi ∧ ∀ x ∈ xs, lt bv (key x) = false) ∨
    (∃ pre post, xs = pre ++ r :: post ∧ lt bv (key r) = true ∧
      (∀ x ∈ pre, lt (key x) (key r) = true) ∧
      ∀ x ∈ post, lt (key r) (key x) = false)
  | [], bv, bi, r, _, h => by
    simp [byLoopStr] at h
    exact Or.inl ⟨h.symm, by intro x hx; cases hx⟩
  | y :: ys, bv, bi, r, hf, h => by
    simp only [byLoopStr, hf y (by simp)] at h
    have hf' : ∀ x ∈ ys, f x = .ok (.str (key x)) := fun x hx => hf x (by simp [hx])
    by_cases hb : lt bv (key y) = true
    · simp only [hb, if_true] at h
      rcases byLoopStr_first o f key ys (key y) y r hf' h with ⟨rfl, hall⟩ | ⟨pre, post, hxs, hlt, hpre, hpost⟩
      · refine Or.inr ⟨[], ys, rfl, hb, ?_, hall⟩
        intro x hx; cases hx
      · refine Or.inr ⟨y :: pre, post, by simp [hxs], o.trans _ _ _ hb hlt, ?_, hpost⟩
        intro x hx
        rcases List.mem_cons.mp hx with rfl | hx'
        · exact hlt
        · exact hpre x hx'
    · have hb' : lt bv (key y) = false := by simpa using hb
      simp only [hb', Bool.false_eq_true, if_false] at h
      rcases byLoopStr_first o f key ys bv bi r hf' h with ⟨rfl, hall⟩ | ⟨pre, post, hxs, hlt, hpre, hpost⟩
      · exact Or.inl ⟨rfl, by
          intro x hx
          rcases List.mem_cons.mp hx with rfl | hx'
          · exact hb'
          · exact hall x hx'⟩
      · refine Or.inr ⟨y :: pre, post, by simp [hxs], hlt, ?_, hpost⟩
        intro x hx
        rcases List.mem_cons.mp hx with rfl | hx'
        · -- key y ≤ bv < key r
          rcases o.total bv (key x) with h1 | h1 | h1
          · rw [hb'] at h1; cases h1
          · rw [← h1]; exact hlt
          · exact o.trans _ _ _ h1 hlt
        · exact hpre x hx'

/-- The loop started on the first element: the result splits the array into
    strictly worse elements before it and no better element after it. -/
theorem byLoopStr_first_split {lt : Bytes → Bytes → Bool} (o : StrictOrd lt) (f : Val N → Res (Val N)) (key : Val N → Bytes)
    (x : Val N) (xs : List (Val N)) (r : Val N) (hf : ∀ y ∈ x :: xs, f y = .ok (.str (key y)))
    (h : byLoopStr f (fun cur best => lt best cur) (key x) x xs = .ok r) :
    ∃ pre post, x :: xs = pre ++ r :: post ∧ (∀ y ∈ pre, lt (key y) (key r) = true) ∧
      ∀ y ∈ post, lt (key r) (key y) = false := by
  rcases byLoopStr_first o f key xs (key x) x r (fun y hy => hf y (by simp [hy])) h with ⟨rfl, hall⟩ | ⟨pre, post, hxs, hlt, hpre, hpost⟩
  · refine ⟨[], xs, rfl, ?_, hall⟩
    intro y hy; cases hy
  · refine ⟨x :: pre, post, by simp [hxs], ?_, hpost⟩
    intro y hy
    rcases List.mem_cons.mp hy with rfl | hy'
    · exact hlt
    · exact hpre y hy'

end byLoop

/-! ### arrays of strings, as `sort` / `max` / `min` see them -/

section arrays
variable {N : Type}

theorem allStrs_eq_map : ∀ (xs : List (Val N)) (ss : List Bytes), allStrs xs = some ss → xs = ss.map .str
  | [], ss, h => by simp [allStrs] at h; subst h; rfl
  | x :: xs, ss, h => by
    cases x <;> simp [allStrs] at h
    obtain ⟨r, hr, rfl⟩ := h
    simp [allStrs_eq_map xs r hr]

theorem allStrs_map_str : ∀ ss : List Bytes, allStrs (N := N) (ss.map .str) = some ss
  | [] => rfl
  | s :: ss => by simp [allStrs, allStrs_map_str ss]

/-- a non-empty array of strings is not an array of numbers -/
theorem allNums_str_cons (s : Bytes) (xs : List (Val N)) : allNums (.str s :: xs) = none := rfl

end arrays

end Jmes.StrOrder
