/-
  Proofs.FunctionsJson — every built-in function maps JSON arguments to a
  JSON result (finite numbers, well-formed objects, no internal objects).
-/
import Proofs.Json
import Jmes.Functions
namespace Jmes.Fn
variable {N : Type} [NumOps N] [NumLaws N]
open Jmes.Val

/-- Values are JSON; expression references map JSON to JSON. -/
def ArgsJSON (args : List (Arg N)) : Prop :=
  (∀ v, Arg.val v ∈ args → v.isJSON = true) ∧
  (∀ f, Arg.ref f ∈ args → ∀ v r, v.isJSON = true → f v = .ok r → r.isJSON = true)

omit [NumLaws N] in
theorem allNums_mem : ∀ (xs : List (Val N)) (ns : List N), allNums xs = some ns → ∀ n ∈ ns, Val.num n ∈ xs
  | [], ns, h, n, hn => by simp [allNums] at h; subst h; cases hn
  | x :: xs, ns, h, n, hn => by
    cases x <;> simp [allNums] at h
    rename_i m
    obtain ⟨r, hr, rfl⟩ := h
    rcases List.mem_cons.mp hn with rfl | hn'
    · simp
    · exact List.mem_cons_of_mem _ (allNums_mem xs r hr n hn')

omit [NumLaws N] in
theorem finite_of_mem_arr (xs : List (Val N)) (h : ∀ x ∈ xs, x.isJSON = true) (n : N) (hn : Val.num n ∈ xs) :
    NumOps.isFinite n = true := (isJSON_num n).mp (h _ hn)

theorem foldl_add_finite (ns : List N) (h : ∀ n ∈ ns, NumOps.isFinite n = true) (acc : N) (ha : NumOps.isFinite acc = true) :
    NumOps.isFinite (ns.foldl NumOps.add acc) = true := by
  induction ns generalizing acc with
  | nil => exact ha
  | cons n ns ih =>
    simp only [List.foldl_cons]
    exact ih (fun m hm => h m (by simp [hm])) _ (NumLaws.finite_add _ _ ha (h n (by simp)))

theorem avgLoop_finite (xs : List (Val N)) (h : ∀ x ∈ xs, x.isJSON = true) (acc s : N) (ha : NumOps.isFinite acc = true)
    (hs : avgLoop acc xs = .ok s) : NumOps.isFinite s = true := by
  induction xs generalizing acc with
  | nil => simp [avgLoop] at hs; subst hs; exact ha
  | cons x xs ih =>
    cases x <;> simp only [avgLoop] at hs <;> try (exact absurd hs (by simp [assertPanic]))
    rename_i n
    exact ih (fun y hy => h y (by simp [hy])) _ (NumLaws.finite_add _ _ ha ((isJSON_num n).mp (h _ (by simp)))) hs

omit [NumLaws N] in
theorem maxNum_mem (best : N) (xs : List N) : maxNum best xs ∈ best :: xs := by
  induction xs generalizing best with
  | nil => simp [maxNum]
  | cons x xs ih =>
    simp only [maxNum]
    have h := ih (if NumOps.lt best x then x else best)
    rcases List.mem_cons.mp h with e | e
    · rw [e]; split <;> simp
    · exact List.mem_cons_of_mem _ (List.mem_cons_of_mem _ e)

omit [NumLaws N] in
theorem minNum_mem (best : N) (xs : List N) : minNum best xs ∈ best :: xs := by
  induction xs generalizing best with
  | nil => simp [minNum]
  | cons x xs ih =>
    simp only [minNum]
    have h := ih (if NumOps.lt x best then x else best)
    rcases List.mem_cons.mp h with e | e
    · rw [e]; split <;> simp
    · exact List.mem_cons_of_mem _ (List.mem_cons_of_mem _ e)

omit [NumLaws N] in
theorem mapLoop_json (f : Val N → Res (Val N)) (xs ys : List (Val N)) (hx : ∀ x ∈ xs, x.isJSON = true)
    (hf : ∀ v r, v.isJSON = true → f v = .ok r → r.isJSON = true) (h : mapLoop f xs = .ok ys) :
    ∀ y ∈ ys, y.isJSON = true := by
  induction xs generalizing ys with
  | nil => simp [mapLoop] at h; subst h; intro y hy; cases hy
  | cons x xs ih =>
    simp only [mapLoop] at h
    cases hfx : f x with
    | ok y =>
      rw [hfx] at h
      cases hm : mapLoop f xs with
      | ok zs =>
        rw [hm] at h
        simp at h; subst h
        intro w hw
        rcases List.mem_cons.mp hw with rfl | hw'
        · exact hf x _ (hx x (by simp)) hfx
        · exact ih zs (fun a ha => hx a (by simp [ha])) hm w hw'
      | err e => rw [hm] at h; simp at h
      | panic p => rw [hm] at h; simp at h
    | err e => rw [hfx] at h; simp at h
    | panic p => rw [hfx] at h; simp at h

omit [NumLaws N] in
theorem byLoopNum_result (f : Val N → Res (Val N)) (better : N → N → Bool) (bv : N) (bi : Val N) (xs : List (Val N)) (r : Val N)
    (h : byLoopNum f better bv bi xs = .ok r) : r = bi ∨ r ∈ xs := by
  induction xs generalizing bv bi with
  | nil => simp [byLoopNum] at h; exact Or.inl h.symm
  | cons x xs ih =>
    simp only [byLoopNum] at h
    cases hfx : f x with
    | ok k =>
      rw [hfx] at h
      cases k <;> simp only [] at h <;> try (exact absurd h (by simp))
      split at h
      · rcases ih _ _ h with e | e
        · exact Or.inr (by simp [e])
        · exact Or.inr (by simp [e])
      · rcases ih _ _ h with e | e
        · exact Or.inl e
        · exact Or.inr (by simp [e])
    | err e => rw [hfx] at h; simp at h
    | panic p => rw [hfx] at h; simp at h

omit [NumLaws N] in
theorem byLoopStr_result (f : Val N → Res (Val N)) (better : Bytes → Bytes → Bool) (bv : Bytes) (bi : Val N) (xs : List (Val N)) (r : Val N)
    (h : byLoopStr f better bv bi xs = .ok r) : r = bi ∨ r ∈ xs := by
  induction xs generalizing bv bi with
  | nil => simp [byLoopStr] at h; exact Or.inl h.symm
  | cons x xs ih =>
    simp only [byLoopStr] at h
    cases hfx : f x with
    | ok k =>
      rw [hfx] at h
      cases k <;> simp only [] at h <;> try (exact absurd h (by simp))
      split at h
      · rcases ih _ _ h with e | e
        · exact Or.inr (by simp [e])
        · exact Or.inr (by simp [e])
      · rcases ih _ _ h with e | e
        · exact Or.inl e
        · exact Or.inr (by simp [e])
    | err e => rw [hfx] at h; simp at h
    | panic p => rw [hfx] at h; simp at h

omit [NumLaws N] in
/-- max_by / min_by return null or one of the elements. -/
theorem extremeBy_result (f : Val N → Res (Val N)) (isMax : Bool) (xs : List (Val N)) (r : Val N)
    (h : extremeBy f isMax xs = .ok r) : r = .null ∨ r ∈ xs := by
  cases xs with
  | nil => simp [extremeBy] at h; exact Or.inl h.symm
  | cons x xs =>
    simp only [extremeBy] at h
    cases hfx : f x with
    | ok k =>
      rw [hfx] at h
      cases k <;> simp only [] at h <;> try (exact absurd h (by simp))
      · rcases byLoopNum_result _ _ _ _ _ _ h with e | e
        · exact Or.inr (by simp [e])
        · exact Or.inr (by simp [e])
      · rcases byLoopStr_result _ _ _ _ _ _ h with e | e
        · exact Or.inr (by simp [e])
        · exact Or.inr (by simp [e])
    | err e => rw [hfx] at h; simp at h
    | panic p => rw [hfx] at h; simp at h

omit [NumLaws N] in
theorem keysNum_snd (f : Val N → Res (Val N)) (xs : List (Val N)) (ks : List (N × Val N))
    (h : keysNum f xs = .ok (some ks)) : ks.map (·.2) = xs := by
  induction xs generalizing ks with
  | nil => simp [keysNum] at h; subst h; rfl
  | cons x xs ih =>
    simp only [keysNum] at h
    cases hfx : f x with
    | ok k =>
      rw [hfx] at h
      cases k <;> simp only [] at h
      case num n =>
        cases hk : keysNum f xs with
        | ok o =>
          rw [hk] at h
          cases o with
          | some r => simp at h; subst h; simp [ih r hk]
          | none => simp at h
        | err e => rw [hk] at h; simp at h
        | panic p => rw [hk] at h; simp at h
      all_goals (cases hk : keysNum f xs <;> rw [hk] at h <;> simp at h)
    | err e => rw [hfx] at h; cases hk : keysNum f xs <;> rw [hk] at h <;> simp at h
    | panic p => rw [hfx] at h; simp at h

omit [NumLaws N] in
theorem keysStr_snd (f : Val N → Res (Val N)) (xs : List (Val N)) (ks : List (Bytes × Val N))
    (h : keysStr f xs = .ok (some ks)) : ks.map (·.2) = xs := by
  induction xs generalizing ks with
  | nil => simp [keysStr] at h; subst h; rfl
  | cons x xs ih =>
    simp only [keysStr] at h
    cases hfx : f x with
    | ok k =>
      rw [hfx] at h
      cases k <;> simp only [] at h
      case str n =>
        cases hk : keysStr f xs with
        | ok o =>
          rw [hk] at h
          cases o with
          | some r => simp at h; subst h; simp [ih r hk]
          | none => simp at h
        | err e => rw [hk] at h; simp at h
        | panic p => rw [hk] at h; simp at h
      all_goals (cases hk : keysStr f xs <;> rw [hk] at h <;> simp at h)
    | err e => rw [hfx] at h; cases hk : keysStr f xs <;> rw [hk] at h <;> simp at h
    | panic p => rw [hfx] at h; simp at h

omit [NumLaws N] in
/-- sort_by returns an array whose elements are elements of the input. -/
theorem sortBy_result (f : Val N → Res (Val N)) (xs : List (Val N)) (r : Val N) (h : sortBy f xs = .ok r) :
    ∃ ys, r = .arr ys ∧ ∀ y ∈ ys, y ∈ xs := by
  cases xs with
  | nil => simp [sortBy] at h; exact ⟨[], h.symm, by intro y hy; cases hy⟩
  | cons x xs =>
    simp only [sortBy] at h
    cases hfx : f x with
    | ok k =>
      rw [hfx] at h
      cases k <;> simp only [] at h <;> try (exact absurd h (by simp))
      · cases xs with
        | nil => simp at h; exact ⟨[x], h.symm, by simp⟩
        | cons y ys =>
          simp only [] at h
          cases hk : keysNum f (y :: ys) with
          | ok o =>
            rw [hk] at h
            cases o with
            | none => simp at h
            | some ks =>
              simp at h
              refine ⟨_, h.symm, ?_⟩
              intro z hz
              obtain ⟨p, hp, rfl⟩ := List.mem_map.mp hz
              have hp' := (List.mergeSort_perm _ _).mem_iff.mp hp
              have hs := keysNum_snd f (y :: ys) ks hk
              rcases List.mem_cons.mp hp' with rfl | hp''
              · simp
              · have : p.2 ∈ ks.map (·.2) := List.mem_map.mpr ⟨p, hp'', rfl⟩
                rw [hs] at this
                exact List.mem_cons_of_mem _ this
          | err e => rw [hk] at h; simp at h
          | panic p => rw [hk] at h; simp at h
      · cases xs with
        | nil => simp at h; exact ⟨[x], h.symm, by simp⟩
        | cons y ys =>
          simp only [] at h
          cases hk : keysStr f (y :: ys) with
          | ok o =>
            rw [hk] at h
            cases o with
            | none => simp at h
            | some ks =>
              simp at h
              refine ⟨_, h.symm, ?_⟩
              intro z hz
              obtain ⟨p, hp, rfl⟩ := List.mem_map.mp hz
              have hp' := (List.mergeSort_perm _ _).mem_iff.mp hp
              have hs := keysStr_snd f (y :: ys) ks hk
              rcases List.mem_cons.mp hp' with rfl | hp''
              · simp
              · have : p.2 ∈ ks.map (·.2) := List.mem_map.mpr ⟨p, hp'', rfl⟩
                rw [hs] at this
                exact List.mem_cons_of_mem _ this
          | err e => rw [hk] at h; simp at h
          | panic p => rw [hk] at h; simp at h
    | err e => rw [hfx] at h; simp at h
    | panic p => rw [hfx] at h; simp at h

omit [NumLaws N] in
theorem mergeLoop_json (acc : List (Bytes × Val N)) (args : List (Arg N)) (r : Val N)
    (hacc : (Val.obj acc).isJSON = true) (ha : ∀ v, Arg.val v ∈ args → v.isJSON = true)
    (h : mergeLoop acc args = .ok r) : r.isJSON = true := by
  induction args generalizing acc with
  | nil => simp [mergeLoop] at h; subst h; exact hacc
  | cons a as ih =>
    cases a with
    | ref f => simp [mergeLoop, assertPanic] at h
    | val v =>
      cases v <;> simp only [mergeLoop] at h <;> try (exact absurd h (by simp [assertPanic]))
      rename_i kvs
      have hk := ha (.obj kvs) (by simp)
      exact ih _ (isJSON_foldl_insert kvs ((isJSON_obj kvs).mp hk).2 acc hacc) (fun w hw => ha w (by simp [hw])) h

end Jmes.Fn

namespace Jmes.Fn
variable {N : Type} [NumOps N] [NumLaws N]
open Jmes.Val

omit [NumLaws N] in
theorem allStrs_json (xs : List Bytes) : ∀ x ∈ xs.map (Val.str (N := N)), x.isJSON = true := by
  intro x hx; obtain ⟨s, _, rfl⟩ := List.mem_map.mp hx; rfl

omit [NumOps N] [NumLaws N] in
theorem ne_ok_assert {α} (site : String) (r : α) : (assertPanic site : Res α) ≠ .ok r := by
  intro h; cases h
theorem err_ne_ok {α} (e : Err) (r : α) : (Res.err e : Res α) ≠ .ok r := by intro h; cases h
theorem panic_ne_ok {α} (p : String) (r : α) : (Res.panic p : Res α) ≠ .ok r := by intro h; cases h

/-- closes a branch whose outcome is a constant: a panic, an error, or a fixed JSON value -/
macro "const_branch" hr:ident : tactic =>
  `(tactic| first
    | exact absurd $hr (ne_ok_assert _ _)
    | exact absurd $hr (err_ne_ok _ _)
    | exact absurd $hr (panic_ne_ok _ _)
    | (cases $hr:ident; rfl)
    | (cases $hr:ident; exact (isJSON_num _).mpr (NumLaws.finite_ofNat _)))

/-- Every handler maps JSON arguments to a JSON result. -/
theorem handle_json (h : Handler) (intr : Bool) (args : List (Arg N)) (r : Val N) (ha : ArgsJSON args)
    (hr : handle h intr args = .ok r) : r.isJSON = true := by
  obtain ⟨hv, hf⟩ := ha
  cases h
  case length =>
    simp only [handle] at hr
    split at hr
    · const_branch hr
    · split at hr <;> const_branch hr
  case startsWith =>
    simp only [handle] at hr
    split at hr
    · const_branch hr
    · split at hr <;> const_branch hr
  case endsWith =>
    simp only [handle] at hr
    split at hr
    · const_branch hr
    · split at hr <;> const_branch hr
  case abs =>
    simp only [handle] at hr
    split at hr
    · const_branch hr
    · split at hr
      · rename_i n _
        cases hr
        exact (isJSON_num _).mpr (NumLaws.finite_abs _ ((isJSON_num n).mp (hv _ (by simp))))
      · const_branch hr
  case ceil =>
    simp only [handle] at hr
    split at hr
    · const_branch hr
    · split at hr
      · rename_i n _
        cases hr
        exact (isJSON_num _).mpr (NumLaws.finite_ceil _ ((isJSON_num n).mp (hv _ (by simp))))
      · const_branch hr
  case floor =>
    simp only [handle] at hr
    split at hr
    · const_branch hr
    · split at hr
      · rename_i n _
        cases hr
        exact (isJSON_num _).mpr (NumLaws.finite_floor _ ((isJSON_num n).mp (hv _ (by simp))))
      · const_branch hr
  case avg =>
    simp only [handle] at hr
    split at hr
    · const_branch hr
    · split at hr
      · rename_i xs _
        split at hr
        · const_branch hr
        · cases hl : avgLoop (NumOps.ofNat 0) xs with
          | ok s =>
            rw [hl] at hr; cases hr
            have hx := (isJSON_arr xs).mp (hv _ (by simp))
            exact (isJSON_num _).mpr (NumLaws.finite_div _ _ (avgLoop_finite xs hx _ s (NumLaws.finite_ofNat 0) hl) (NumLaws.finite_ofNat _))
          | err e => rw [hl] at hr; cases hr
          | panic p => rw [hl] at hr; cases hr
      · const_branch hr
  case contains =>
    simp only [handle] at hr
    split at hr
    · const_branch hr
    · split at hr <;> const_branch hr
  case map =>
    simp only [handle] at hr
    split at hr
    · const_branch hr
    · split at hr
      · rename_i f xs _
        cases hm : mapLoop f xs with
        | ok ys =>
          rw [hm] at hr; cases hr
          exact (isJSON_arr ys).mpr (mapLoop_json f xs ys ((isJSON_arr xs).mp (hv _ (by simp))) (hf f (by simp)) hm)
        | err e => rw [hm] at hr; cases hr
        | panic p => rw [hm] at hr; cases hr
      · const_branch hr
  case max =>
    simp only [handle] at hr
    split at hr
    · const_branch hr
    · split at hr
      · rename_i a _
        cases hn : toArrayNum a with
        | some ns =>
          rw [hn] at hr
          cases ns with
          | nil => cases hr; rfl
          | cons x xs =>
            cases hr
            cases a with
            | ref g => simp [toArrayNum] at hn
            | val v =>
              cases v <;> simp [toArrayNum] at hn
              rename_i ys
              have hx := (isJSON_arr ys).mp (hv _ (by simp))
              exact (isJSON_num _).mpr (finite_of_mem_arr ys hx _ (allNums_mem ys _ hn _ (maxNum_mem x xs)))
        | none =>
          rw [hn] at hr
          simp only [] at hr
          split at hr <;> (cases hr; rfl)
      · const_branch hr
  case min =>
    simp only [handle] at hr
    split at hr
    · const_branch hr
    · split at hr
      · rename_i a _
        cases hn : toArrayNum a with
        | some ns =>
          rw [hn] at hr
          cases ns with
          | nil => cases hr; rfl
          | cons x xs =>
            cases hr
            cases a with
            | ref g => simp [toArrayNum] at hn
            | val v =>
              cases v <;> simp [toArrayNum] at hn
              rename_i ys
              have hx := (isJSON_arr ys).mp (hv _ (by simp))
              exact (isJSON_num _).mpr (finite_of_mem_arr ys hx _ (allNums_mem ys _ hn _ (minNum_mem x xs)))
        | none =>
          rw [hn] at hr
          simp only [] at hr
          split at hr <;> (cases hr; rfl)
      · const_branch hr
  case merge =>
    simp only [handle] at hr
    split at hr
    · const_branch hr
    · exact mergeLoop_json [] args r rfl hv hr
  case maxBy =>
    simp only [handle] at hr
    split at hr
    · const_branch hr
    · split at hr
      · rename_i xs f _
        rcases extremeBy_result f true xs r hr with e | e
        · subst e; rfl
        · exact (isJSON_arr xs).mp (hv _ (by simp)) r e
      · const_branch hr
  case minBy =>
    simp only [handle] at hr
    split at hr
    · const_branch hr
    · split at hr
      · rename_i xs f _
        rcases extremeBy_result f false xs r hr with e | e
        · subst e; rfl
        · exact (isJSON_arr xs).mp (hv _ (by simp)) r e
      · const_branch hr
  case sum =>
    simp only [handle] at hr
    split at hr
    · const_branch hr
    · split at hr
      · rename_i a _
        cases hr
        refine (isJSON_num _).mpr (foldl_add_finite _ ?_ _ (NumLaws.finite_ofNat 0))
        intro n hn
        cases hn' : toArrayNum a with
        | none => rw [hn'] at hn; simp at hn
        | some ns =>
          rw [hn'] at hn; simp at hn
          cases a with
          | ref g => simp [toArrayNum] at hn'
          | val v =>
            cases v <;> simp [toArrayNum] at hn'
            rename_i ys
            exact finite_of_mem_arr ys ((isJSON_arr ys).mp (hv _ (by simp))) _ (allNums_mem ys _ hn' _ hn)
      · const_branch hr
  case type =>
    simp only [handle] at hr
    split at hr
    · const_branch hr
    · split at hr <;> const_branch hr
  case keys =>
    simp only [handle] at hr
    split at hr
    · const_branch hr
    · split at hr
      · cases hr
        refine (isJSON_arr _).mpr ?_
        intro x hx; obtain ⟨kv, _, rfl⟩ := List.mem_map.mp hx; rfl
      · const_branch hr
  case values =>
    simp only [handle] at hr
    split at hr
    · const_branch hr
    · split at hr
      · rename_i kvs _
        cases hr
        refine (isJSON_arr _).mpr ?_
        intro x hx; obtain ⟨kv, hkv, rfl⟩ := List.mem_map.mp hx
        exact ((isJSON_obj kvs).mp (hv _ (by simp))).2 kv hkv
      · const_branch hr
  case sort =>
    simp only [handle] at hr
    split at hr
    · const_branch hr
    · split at hr
      · rename_i a _
        cases hn : toArrayNum a with
        | some ns =>
          rw [hn] at hr; cases hr
          refine (isJSON_arr _).mpr ?_
          intro x hx
          obtain ⟨n, hnm, rfl⟩ := List.mem_map.mp hx
          have hnm' := (List.mergeSort_perm _ _).mem_iff.mp hnm
          cases a with
          | ref g => simp [toArrayNum] at hn
          | val v =>
            cases v <;> simp [toArrayNum] at hn
            rename_i ys
            exact (isJSON_num _).mpr (finite_of_mem_arr ys ((isJSON_arr ys).mp (hv _ (by simp))) _ (allNums_mem ys _ hn _ hnm'))
        | none =>
          rw [hn] at hr; cases hr
          exact (isJSON_arr _).mpr (allStrs_json _)
      · const_branch hr
  case sortBy =>
    simp only [handle] at hr
    split at hr
    · const_branch hr
    · split at hr
      · rename_i xs f _
        obtain ⟨ys, rfl, hys⟩ := sortBy_result f xs r hr
        exact (isJSON_arr ys).mpr (fun y hy => (isJSON_arr xs).mp (hv _ (by simp)) y (hys y hy))
      · const_branch hr
  case join =>
    simp only [handle] at hr
    split at hr
    · const_branch hr
    · split at hr
      · rename_i sep xs _
        cases hj : joinLoop sep xs <;> rw [hj] at hr <;> cases hr
        rfl
      · const_branch hr
  case reverse =>
    simp only [handle] at hr
    split at hr
    · const_branch hr
    · split at hr
      · const_branch hr
      · rename_i xs _
        cases hr
        exact (isJSON_arr _).mpr (fun x hx => (isJSON_arr xs).mp (hv _ (by simp)) x (List.mem_reverse.mp hx))
      · const_branch hr
  case toArray =>
    simp only [handle] at hr
    split at hr
    · const_branch hr
    · split at hr
      · rename_i xs _; cases hr; exact hv _ (by simp)
      · rename_i v _ _; cases hr
        exact (isJSON_arr _).mpr (fun x hx => by simp at hx; subst hx; exact hv _ (by simp))
      · const_branch hr
  case toString =>
    simp only [handle] at hr
    split at hr
    · const_branch hr
    · split at hr
      · const_branch hr
      · split at hr <;> const_branch hr
      · const_branch hr
  case toNumber =>
    simp only [handle] at hr
    split at hr
    · const_branch hr
    · split at hr
      · rename_i n _; cases hr; exact hv _ (by simp)
      · rename_i s _
        cases hp : (NumOps.parse s : Option N) with
        | none => rw [hp] at hr; cases hr; rfl
        | some n =>
          rw [hp] at hr
          simp only [] at hr
          split at hr
          · rename_i hfin; cases hr; exact (isJSON_num n).mpr hfin
          · cases hr; rfl
      · const_branch hr
      · const_branch hr
      · const_branch hr
  case notNull =>
    simp only [handle] at hr
    split at hr
    · const_branch hr
    · split at hr
      · rename_i v hfd; cases hr; exact hv _ (List.mem_of_find?_eq_some hfd)
      · const_branch hr
      · cases hr; rfl

/-- `CallFunction` maps JSON arguments to a JSON result, whatever the table. -/
theorem callFunction_json (ft : List FnEntry) (name : Bytes) (args : List (Arg N)) (r : Val N) (ha : ArgsJSON args)
    (hr : callFunction ft name args = .ok r) : r.isJSON = true := by
  unfold callFunction at hr
  cases hf : List.find? (fun e => keyBytes e.key = name) ft with
  | none => rw [hf] at hr; simp at hr
  | some e =>
    rw [hf] at hr
    simp only [] at hr
    cases hres : resolveArgs e args with
    | ok u => rw [hres] at hr; exact handle_json e.handler e.hasExpRef args r ha hr
    | err er => rw [hres] at hr; simp at hr
    | panic p => rw [hres] at hr; simp at hr

end Jmes.Fn
