/-
  Proofs.SortKeys — the key loops of sort_by / max_by / min_by over arrays of any length: one element whose key has the wrong
  type, WHEREVER it sits, turns the whole key collection into "no keys" (sort_by) or stops the scan with an error (max_by / min_by).
  Also: a key evaluation that fails, wherever it sits.
-/
import Jmes.Functions
namespace Jmes.Fn
open Jmes
variable {N : Type}

theorem keysNum_ok_of_no_panic (f : Val N → Res (Val N)) (xs : List (Val N))
    (hp : ∀ z ∈ xs, ∀ p, f z ≠ .panic p) : ∃ o, keysNum f xs = .ok o := by
  induction xs with
  | nil => exact ⟨_, rfl⟩
  | cons x xs ih =>
    obtain ⟨o, ho⟩ := ih (fun z hz => hp z (List.mem_cons_of_mem _ hz))
    have hx := hp x (List.mem_cons_self ..)
    unfold keysNum
    cases hfx : f x with
    | panic p => exact absurd hfx (hx p)
    | err e => simp only [ho]; exact ⟨_, rfl⟩
    | ok v =>
      cases v <;> simp only [ho] <;> first | exact ⟨_, rfl⟩ | (cases o <;> exact ⟨_, rfl⟩)

theorem keysNum_none_of_odd_key (f : Val N → Res (Val N)) (xs : List (Val N)) (y k : Val N)
    (hy : y ∈ xs) (h1 : f y = .ok k) (hk : ∀ m, k ≠ .num m)
    (hp : ∀ z ∈ xs, ∀ p, f z ≠ .panic p) : keysNum f xs = .ok none := by
  induction xs with
  | nil => cases hy
  | cons x xs ih =>
    have hpt : ∀ z ∈ xs, ∀ p, f z ≠ .panic p := fun z hz => hp z (List.mem_cons_of_mem _ hz)
    obtain ⟨o, ho⟩ := keysNum_ok_of_no_panic f xs hpt
    have hx := hp x (List.mem_cons_self ..)
    rcases List.mem_cons.mp hy with rfl | hy'
    · unfold keysNum
      cases k with
      | num m => exact absurd rfl (hk m)
      | _ => simp only [h1, ho]
    · have ih' := ih hy' hpt
      unfold keysNum
      cases hfx : f x with
      | panic p => exact absurd hfx (hx p)
      | err e => simp only [ih']
      | ok v => cases v <;> simp only [ih']

theorem keysStr_ok_of_no_panic (f : Val N → Res (Val N)) (xs : List (Val N))
    (hp : ∀ z ∈ xs, ∀ p, f z ≠ .panic p) : ∃ o, keysStr f xs = .ok o := by
  induction xs with
  | nil => exact ⟨_, rfl⟩
  | cons x xs ih =>
    obtain ⟨o, ho⟩ := ih (fun z hz => hp z (List.mem_cons_of_mem _ hz))
    have hx := hp x (List.mem_cons_self ..)
    unfold keysStr
    cases hfx : f x with
    | panic p => exact absurd hfx (hx p)
    | err e => simp only [ho]; exact ⟨_, rfl⟩
    | ok v =>
      cases v <;> simp only [ho] <;> first | exact ⟨_, rfl⟩ | (cases o <;> exact ⟨_, rfl⟩)

theorem keysStr_none_of_odd_key (f : Val N → Res (Val N)) (xs : List (Val N)) (y k : Val N)
    (hy : y ∈ xs) (h1 : f y = .ok k) (hk : ∀ s, k ≠ .str s)
    (hp : ∀ z ∈ xs, ∀ p, f z ≠ .panic p) : keysStr f xs = .ok none := by
  induction xs with
  | nil => cases hy
  | cons x xs ih =>
    have hpt : ∀ z ∈ xs, ∀ p, f z ≠ .panic p := fun z hz => hp z (List.mem_cons_of_mem _ hz)
    obtain ⟨o, ho⟩ := keysStr_ok_of_no_panic f xs hpt
    have hx := hp x (List.mem_cons_self ..)
    rcases List.mem_cons.mp hy with rfl | hy'
    · unfold keysStr
      cases k with
      | str s => exact absurd rfl (hk s)
      | _ => simp only [h1, ho]
    · have ih' := ih hy' hpt
      unfold keysStr
      cases hfx : f x with
      | panic p => exact absurd hfx (hx p)
      | err e => simp only [ih']
      | ok v => cases v <;> simp only [ih']

theorem byLoopNum_err_of_odd_key (f : Val N → Res (Val N)) (better : N → N → Bool) (xs : List (Val N)) (y k : Val N)
    (hy : y ∈ xs) (h1 : f y = .ok k) (hk : ∀ m, k ≠ .num m)
    (hp : ∀ z ∈ xs, ∀ p, f z ≠ .panic p) : ∀ bv bi, ∃ e, byLoopNum f better bv bi xs = .err e := by
  induction xs with
  | nil => cases hy
  | cons x xs ih =>
    intro bv bi
    have hpt : ∀ z ∈ xs, ∀ p, f z ≠ .panic p := fun z hz => hp z (List.mem_cons_of_mem _ hz)
    have hx := hp x (List.mem_cons_self ..)
    rcases List.mem_cons.mp hy with rfl | hy'
    · unfold byLoopNum
      cases k with
      | num m => exact absurd rfl (hk m)
      | _ => simp only [h1]; exact ⟨_, rfl⟩
    · unfold byLoopNum
      cases hfx : f x with
      | panic p => exact absurd hfx (hx p)
      | err e => exact ⟨_, rfl⟩
      | ok v =>
        cases v with
        | num c => simp only []; split <;> exact ih hy' hpt _ _
        | _ => exact ⟨_, rfl⟩

theorem byLoopStr_err_of_odd_key (f : Val N → Res (Val N)) (better : Bytes → Bytes → Bool) (xs : List (Val N)) (y k : Val N)
    (hy : y ∈ xs) (h1 : f y = .ok k) (hk : ∀ s, k ≠ .str s)
    (hp : ∀ z ∈ xs, ∀ p, f z ≠ .panic p) : ∀ bv bi, ∃ e, byLoopStr f better bv bi xs = .err e := by
  induction xs with
  | nil => cases hy
  | cons x xs ih =>
    intro bv bi
    have hpt : ∀ z ∈ xs, ∀ p, f z ≠ .panic p := fun z hz => hp z (List.mem_cons_of_mem _ hz)
    have hx := hp x (List.mem_cons_self ..)
    rcases List.mem_cons.mp hy with rfl | hy'
    · unfold byLoopStr
      cases k with
      | str s => exact absurd rfl (hk s)
      | _ => simp only [h1]; exact ⟨_, rfl⟩
    · unfold byLoopStr
      cases hfx : f x with
      | panic p => exact absurd hfx (hx p)
      | err e => exact ⟨_, rfl⟩
      | ok v =>
        cases v with
        | str c => simp only []; split <;> exact ih hy' hpt _ _
        | _ => exact ⟨_, rfl⟩


theorem keysNum_none_of_key_error (f : Val N → Res (Val N)) (xs : List (Val N)) (y : Val N) (e : Err)
    (hy : y ∈ xs) (h1 : f y = .err e)
    (hp : ∀ z ∈ xs, ∀ p, f z ≠ .panic p) : keysNum f xs = .ok none := by
  induction xs with
  | nil => cases hy
  | cons x xs ih =>
    have hpt : ∀ z ∈ xs, ∀ p, f z ≠ .panic p := fun z hz => hp z (List.mem_cons_of_mem _ hz)
    obtain ⟨o, ho⟩ := keysNum_ok_of_no_panic f xs hpt
    have hx := hp x (List.mem_cons_self ..)
    rcases List.mem_cons.mp hy with rfl | hy'
    · unfold keysNum
      simp only [h1, ho]
    · have ih' := ih hy' hpt
      unfold keysNum
      cases hfx : f x with
      | panic p => exact absurd hfx (hx p)
      | err e => simp only [ih']
      | ok v => cases v <;> simp only [ih']

end Jmes.Fn
