/-
  Proofs.Threads — schedule independence and the frame property of the abstract
  machine of Spec/Threads.lean.
-/
import Spec.Threads
namespace Jmes.Threads
variable {T L V PC : Type} [DecidableEq T] [DecidableEq L]

theorem write_congr (h h' : L → V) (ws : List (L × V)) (l : L) (e : h l = h' l) : write h ws l = write h' ws l := by
  induction ws generalizing h h' with
  | nil => exact e
  | cons lv ws ih =>
    obtain ⟨a, v⟩ := lv
    simp only [write]
    apply ih
    by_cases hl : l = a <;> simp [hl, e]

theorem write_other (h : L → V) (ws : List (L × V)) (l : L) (hn : ∀ lv ∈ ws, lv.1 ≠ l) : write h ws l = h l := by
  induction ws generalizing h with
  | nil => rfl
  | cons lv ws ih =>
    obtain ⟨a, v⟩ := lv
    simp only [write]
    rw [ih _ (fun x hx => hn x (by simp [hx]))]
    have : l ≠ a := fun e => hn (a, v) (by simp) e.symm
    simp [this]

variable (S : Sys T L V PC)

theorem agree_refl (t : T) (c : Conf T L V PC) : Agree S t c c := ⟨rfl, fun _ _ => rfl⟩

theorem agree_trans {t : T} {a b c : Conf T L V PC} (h1 : Agree S t a b) (h2 : Agree S t b c) : Agree S t a c :=
  ⟨h1.1.trans h2.1, fun l hl => (h1.2 l hl).trans (h2.2 l hl)⟩

theorem agree_symm {t : T} {a b : Conf T L V PC} (h : Agree S t a b) : Agree S t b a :=
  ⟨h.1.symm, fun l hl => (h.2 l hl).symm⟩

/-- A step of `t` from two configurations that look alike to `t` gives configurations that look alike to `t`. -/
theorem agree_exec_same (hr : ReadsOwn S) {t : T} {c c' : Conf T L V PC} (h : Agree S t c c') :
    Agree S t (S.exec c t) (S.exec c' t) := by
  have hs : S.step t c.heap (c.pcs t) = S.step t c'.heap (c'.pcs t) := by
    rw [h.1]; exact hr t c.heap c'.heap _ h.2
  refine ⟨by simp [Sys.exec, hs], fun l hl => ?_⟩
  simp only [Sys.exec, hs]
  exact write_congr _ _ _ l (h.2 l hl)

/-- A step of another call is invisible to `t`. -/
theorem agree_exec_other (hw : WritesPrivate S) {t u : T} (hne : u ≠ t) (c : Conf T L V PC) :
    Agree S t c (S.exec c u) := by
  refine ⟨by simp [Sys.exec, Ne.symm hne], fun l hl => ?_⟩
  simp only [Sys.exec]
  symm
  apply write_other
  intro lv hlv e
  have := hw u c.heap (c.pcs u) lv hlv
  rw [e] at this
  rcases hl with h | h
  · rw [h] at this; cases this
  · rw [h] at this; exact hne (Option.some.inj this).symm

theorem agree_run_same (hr : ReadsOwn S) {t : T} (n : Nat) {c c' : Conf T L V PC} (h : Agree S t c c') :
    Agree S t (S.run c (List.replicate n t)) (S.run c' (List.replicate n t)) := by
  induction n generalizing c c' with
  | zero => exact h
  | succ n ih => simp only [Sys.run, List.replicate_succ, List.foldl_cons]; exact ih (agree_exec_same S hr h)

/-- **Schedule independence.**  Under any schedule, what call `t` computes —
    its program counter and every location it owns, hence its result — is what
    it computes running alone for the same number of its own steps. -/
theorem schedule_independent (hw : WritesPrivate S) (hr : ReadsOwn S) (c : Conf T L V PC) (sched : List T) (t : T) :
    Agree S t (S.run c sched) (S.run c (List.replicate (sched.count t) t)) := by
  induction sched generalizing c with
  | nil => exact agree_refl S t c
  | cons u rest ih =>
    by_cases hu : u = t
    · subst hu
      simp only [Sys.run, List.foldl_cons, List.count_cons_self, List.replicate_succ]
      exact ih (S.exec c u)
    · have hc : (u :: rest).count t = rest.count t := by simp [List.count_cons, hu]
      rw [hc]
      simp only [Sys.run, List.foldl_cons]
      refine agree_trans S (ih (S.exec c u)) ?_
      exact agree_symm S (agree_run_same S hr _ (agree_exec_other S hw hu c))

/-- **Frame.**  No schedule changes a shared location (the document, the
    compiled expression, package state). -/
theorem shared_unchanged (hw : WritesPrivate S) (c : Conf T L V PC) (sched : List T) (l : L) (hl : S.owner l = none) :
    (S.run c sched).heap l = c.heap l := by
  induction sched generalizing c with
  | nil => rfl
  | cons u rest ih =>
    simp only [Sys.run, List.foldl_cons]
    rw [show List.foldl S.exec (S.exec c u) rest = S.run (S.exec c u) rest from rfl, ih]
    simp only [Sys.exec]
    apply write_other
    intro lv hlv e
    have := hw u c.heap (c.pcs u) lv hlv
    rw [e, hl] at this
    cases this

/-- Data-race freedom in the sequentially consistent executions: a location
    written by one call is never read or written by another. -/
theorem no_conflicting_access (hw : WritesPrivate S) (t u : T) (hne : t ≠ u) (h : L → V) (pc : PC)
    (lv : L × V) (hlv : lv ∈ (S.step t h pc).2) : ¬ (S.owner lv.1 = none ∨ S.owner lv.1 = some u) := by
  have := hw t h pc lv hlv
  intro hx
  rcases hx with hx | hx
  · rw [hx] at this; cases this
  · rw [hx] at this; exact hne (Option.some.inj this).symm

end Jmes.Threads
