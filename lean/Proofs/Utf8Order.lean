/-
  Proofs.Utf8Order — strings compare by code point: bytewise lexicographic
  comparison of UTF-8 encoded strings (`Val.bytesLt`, Go's `<` on strings)
  coincides with lexicographic comparison of the code point sequences, for
  sequences of Unicode scalar values.
-/
import Jmes.Utf8
import Jmes.Value
import Proofs.Utf8
namespace Jmes.Utf8Order
open Jmes Jmes.Utf8 Jmes.Val

/-- Unicode scalar values: what a valid UTF-8 string can contain. -/
def Scalar (r : Nat) : Prop := r < 0xD800 ∨ (0xE000 ≤ r ∧ r ≤ 0x10FFFF)

/-- Lexicographic strict order on code point lists. -/
def lexLt : List Nat → List Nat → Bool
  | [], [] => false
  | [], _ :: _ => true
  | _ :: _, [] => false
  | r :: rs, t :: ts => if r < t then true else if t < r then false else lexLt rs ts

/-- `bytesLt` on the numeric values of the bytes. -/
def natLt : List Nat → List Nat → Bool
  | [], [] => false
  | [], _ :: _ => true
  | _ :: _, [] => false
  | a :: as, b :: bs => if a < b then true else if b < a then false else natLt as bs

theorem bytesLt_eq_natLt (a b : Bytes) :
    bytesLt a b = natLt (a.map UInt8.toNat) (b.map UInt8.toNat) := by
  induction a generalizing b with
  | nil => cases b <;> simp [bytesLt, natLt]
  | cons a as ih =>
    cases b with
    | nil => simp [bytesLt, natLt]
    | cons b bs => simp only [bytesLt, natLt, List.map_cons, UInt8.lt_iff_toNat_lt, ih]

/-! ### The bytes of `encodeRune`, as natural numbers -/

theorem tag_or_2 : ∀ x : Fin 32, (0xC0 ||| x.val) = 0xC0 + x.val := by decide +kernel

theorem shr (r k : Nat) : r >>> k = r / 2 ^ k := Nat.shiftRight_eq_div_pow r k

theorem and63 (n : Nat) : n &&& 0x3F = n % 64 := by
  rw [show (0x3F : Nat) = 2 ^ 6 - 1 from rfl, Nat.and_two_pow_sub_one_eq_mod]

theorem cont_byte (n : Nat) : (0x80 ||| (n &&& 0x3F)).toUInt8.toNat = 0x80 + n % 64 := by
  rw [and63, tag_or_c ⟨n % 64, Nat.mod_lt _ (by decide)⟩]
  simp only [Nat.toUInt8_eq, UInt8.toNat_ofNat']
  omega

theorem enc1 (r : Nat) (h : r < 0x80) : (encodeRune r).map UInt8.toNat = [r] := by
  simp only [encodeRune, h, if_true, List.map_cons, List.map_nil, Nat.toUInt8_eq, UInt8.toNat_ofNat']
  congr 1; omega

theorem enc2 (r : Nat) (h1 : 0x80 ≤ r) (h2 : r < 0x800) :
    (encodeRune r).map UInt8.toNat = [0xC0 + r / 64, 0x80 + r % 64] := by
  have c1 : ¬ r < 0x80 := by omega
  simp only [encodeRune, c1, h2, if_false, if_true, List.map_cons, List.map_nil, cont_byte]
  have : r >>> 6 < 32 := by rw [shr]; omega
  rw [tag_or_2 ⟨r >>> 6, this⟩]
  simp only [Nat.toUInt8_eq, UInt8.toNat_ofNat', shr]
  congr 1; omega

theorem enc3 (r : Nat) (h1 : 0x800 ≤ r) (h2 : r < 0x10000) (h3 : ¬ (0xD800 ≤ r ∧ r ≤ 0xDFFF)) :
    (encodeRune r).map UInt8.toNat = [0xE0 + r / 4096, 0x80 + (r / 64) % 64, 0x80 + r % 64] := by
  have c1 : ¬ r < 0x80 := by omega
  have c2 : ¬ r < 0x800 := by omega
  have c3 : ((decide (0xD800 ≤ r) && decide (r ≤ 0xDFFF)) || decide (r > 0x10FFFF)) = false := by
    simp only [Bool.or_eq_false_iff, Bool.and_eq_false_iff, decide_eq_false_iff_not]
    exact ⟨by omega, by omega⟩
  simp only [encodeRune, c1, c2, c3, h2, if_false, if_true, Bool.false_eq_true, List.map_cons,
    List.map_nil, cont_byte]
  have : r >>> 12 < 16 := by rw [shr]; omega
  rw [tag_or_3 ⟨r >>> 12, this⟩]
  simp only [Nat.toUInt8_eq, UInt8.toNat_ofNat', shr]
  congr 1; omega

theorem enc4 (r : Nat) (h1 : 0x10000 ≤ r) (h2 : r ≤ 0x10FFFF) :
    (encodeRune r).map UInt8.toNat =
      [0xF0 + r / 262144, 0x80 + (r / 4096) % 64, 0x80 + (r / 64) % 64, 0x80 + r % 64] := by
  have c1 : ¬ r < 0x80 := by omega
  have c2 : ¬ r < 0x800 := by omega
  have c3 : ((decide (0xD800 ≤ r) && decide (r ≤ 0xDFFF)) || decide (r > 0x10FFFF)) = false := by
    simp only [Bool.or_eq_false_iff, Bool.and_eq_false_iff, decide_eq_false_iff_not]
    exact ⟨by omega, by omega⟩
  have c4 : ¬ r < 0x10000 := by omega
  simp only [encodeRune, c1, c2, c3, c4, if_false, Bool.false_eq_true, List.map_cons,
    List.map_nil, cont_byte]
  have : r >>> 18 < 8 := by rw [shr]; omega
  rw [tag_or_4 ⟨r >>> 18, this⟩]
  simp only [Nat.toUInt8_eq, UInt8.toNat_ofNat', shr]
  congr 1; omega

/-- the size classes of a scalar value -/
theorem scalar_cases (r : Nat) (hr : Scalar r) :
    r < 0x80 ∨ (0x80 ≤ r ∧ r < 0x800) ∨
    (0x800 ≤ r ∧ r < 0x10000 ∧ ¬ (0xD800 ≤ r ∧ r ≤ 0xDFFF)) ∨ (0x10000 ≤ r ∧ r ≤ 0x10FFFF) := by
  unfold Scalar at hr; omega

theorem encodeRune_ne_nil (r : Nat) : encodeRune r ≠ [] := by
  unfold encodeRune
  repeat' split
  all_goals simp

/-- UTF-8 is order preserving and prefix free, on the numeric values of the bytes -/
theorem natLt_encode (r t : Nat) (hr : Scalar r) (ht : Scalar t) (h : r < t) (x y : List Nat) :
    natLt ((encodeRune r).map UInt8.toNat ++ x) ((encodeRune t).map UInt8.toNat ++ y) = true := by
  rcases scalar_cases r hr with a | ⟨a1, a2⟩ | ⟨a1, a2, a3⟩ | ⟨a1, a2⟩ <;>
  rcases scalar_cases t ht with b | ⟨b1, b2⟩ | ⟨b1, b2, b3⟩ | ⟨b1, b2⟩
  all_goals first
    | (exfalso; omega)
    | (first | rw [enc1 r a] | rw [enc2 r a1 a2] | rw [enc3 r a1 a2 a3] | rw [enc4 r a1 a2]
       first | rw [enc1 t b] | rw [enc2 t b1 b2] | rw [enc3 t b1 b2 b3] | rw [enc4 t b1 b2]
       simp only [natLt, List.cons_append, List.nil_append]
       repeat' split
       all_goals first | rfl | (exfalso; omega))

/-- **UTF-8 is order preserving and prefix free**: the encoding of a smaller
    scalar value is bytewise smaller, whatever follows either. -/
theorem encodeRune_lt (r t : Nat) (hr : Scalar r) (ht : Scalar t) (h : r < t) (x y : Bytes) :
    Jmes.Val.bytesLt (encodeRune r ++ x) (encodeRune t ++ y) = true := by
  rw [bytesLt_eq_natLt, List.map_append, List.map_append]
  exact natLt_encode r t hr ht h _ _

/-! ### Order facts about `bytesLt` -/

theorem bytesLt_append_left (p x y : Bytes) : bytesLt (p ++ x) (p ++ y) = bytesLt x y := by
  induction p with
  | nil => rfl
  | cons a as ih =>
    have : ¬ a < a := by rw [UInt8.lt_iff_toNat_lt]; omega
    simp only [List.cons_append, bytesLt, this, if_false, ih]

theorem bytesLt_irrefl (x : Bytes) : bytesLt x x = false := by
  have := bytesLt_append_left x [] []
  simpa [bytesLt] using this

theorem bytesLt_asymm (x y : Bytes) : bytesLt x y = true → bytesLt y x = false := by
  induction x generalizing y with
  | nil => cases y <;> simp [bytesLt]
  | cons a as ih =>
    cases y with
    | nil => simp [bytesLt]
    | cons b bs =>
      simp only [bytesLt]
      by_cases h1 : a < b
      · have h2 : ¬ b < a := by rw [UInt8.lt_iff_toNat_lt] at h1 ⊢; omega
        simp [h1, h2]
      · by_cases h2 : b < a
        · simp [h1, h2]
        · simp only [h1, h2, if_false]; exact ih bs

/-! ### Strings compare by code point -/

theorem encodeRunes_cons (r : Nat) (rs : List Nat) :
    encodeRunes (r :: rs) = encodeRune r ++ encodeRunes rs := by
  simp [encodeRunes]

/-- **Strings compare by code point**: on sequences of Unicode scalar values,
    the bytewise order of the UTF-8 encodings is the lexicographic order of the
    code points. -/
theorem bytesLt_encodeRunes (rs ts : List Nat) (hr : ∀ r ∈ rs, Scalar r) (ht : ∀ t ∈ ts, Scalar t) :
    Jmes.Val.bytesLt (encodeRunes rs) (encodeRunes ts) = lexLt rs ts := by
  induction rs generalizing ts with
  | nil =>
    cases ts with
    | nil => simp [encodeRunes, bytesLt, lexLt]
    | cons t ts =>
      rw [encodeRunes_cons]
      cases he : encodeRune t with
      | nil => exact absurd he (encodeRune_ne_nil t)
      | cons c cs => simp [encodeRunes, bytesLt, lexLt]
  | cons r rs ih =>
    cases ts with
    | nil =>
      rw [encodeRunes_cons]
      cases he : encodeRune r with
      | nil => exact absurd he (encodeRune_ne_nil r)
      | cons c cs => simp [encodeRunes, bytesLt, lexLt]
    | cons t ts =>
      have sr : Scalar r := hr r (List.mem_cons_self ..)
      have st : Scalar t := ht t (List.mem_cons_self ..)
      rw [encodeRunes_cons, encodeRunes_cons]
      simp only [lexLt]
      by_cases h1 : r < t
      · rw [if_pos h1]; exact encodeRune_lt r t sr st h1 _ _
      · by_cases h2 : t < r
        · rw [if_neg h1, if_pos h2]
          exact bytesLt_asymm _ _ (encodeRune_lt t r st sr h2 _ _)
        · have e : r = t := by omega
          subst e
          rw [if_neg h1, if_neg h1, bytesLt_append_left]
          exact ih ts (fun a ha => hr a (List.mem_cons_of_mem _ ha))
            (fun a ha => ht a (List.mem_cons_of_mem _ ha))

/-! ### Non-vacuity: concrete non-ASCII code points -/

/-- é (C3 A9) < 世 (E4 B8 96) -/
example : bytesLt (encodeRunes [0xE9]) (encodeRunes [0x4E16]) = true := by decide
/-- é (C3 A9) < U+1F600 (F0 9F 98 80) -/
example : bytesLt (encodeRunes [0xE9]) (encodeRunes [0x1F600]) = true := by decide
/-- 世 < U+1F600, and not the other way round -/
example : bytesLt (encodeRunes [0x4E16]) (encodeRunes [0x1F600]) = true := by decide
example : bytesLt (encodeRunes [0x1F600]) (encodeRunes [0x4E16]) = false := by decide
/-- the bytes are the expected ones -/
example : encodeRunes [0xE9, 0x4E16, 0x1F600] = [0xC3, 0xA9, 0xE4, 0xB8, 0x96, 0xF0, 0x9F, 0x98, 0x80] := by decide
/-- U+FFFD (EF BF BD) sorts below U+10000 (F0 90 80 80), as code points do
    (in UTF-16 code-unit order it would not) -/
example : bytesLt (encodeRunes [0x61, 0xFFFD]) (encodeRunes [0x61, 0x10000]) = true := by decide
example : lexLt [0x61, 0xFFFD] [0x61, 0x10000] = true := by decide
/-- the theorem applies to them -/
example : bytesLt (encodeRunes [0xE9, 0x4E16]) (encodeRunes [0xE9, 0x1F600]) = lexLt [0xE9, 0x4E16] [0xE9, 0x1F600] :=
  bytesLt_encodeRunes _ _ (by simp [Scalar]) (by simp [Scalar])

end Jmes.Utf8Order
