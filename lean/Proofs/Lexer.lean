/-
  Proofs.Lexer — `tokenize` never panics, always terminates within its fuel,
  ends its token list with tEOF at len(expression), gives every token a
  position inside the expression, and reports every syntax error with an
  offset in [0, len(expression)] — for ALL byte strings, valid UTF-8 or not.
-/
import Jmes.Lexer
namespace Jmes.Lexer
open Jmes.Utf8

theorem decodeRune_width (c : UInt8) (cs : Bytes) :
    1 ≤ (decodeRune (c :: cs)).2 ∧ (decodeRune (c :: cs)).2 ≤ (c :: cs).length := by
  unfold decodeRune
  simp only []
  repeat' split
  all_goals (simp only [List.length_cons]; omega)

theorem drop_width_lt (c : UInt8) (cs : Bytes) :
    ((c :: cs).drop (decodeRune (c :: cs)).2).length < (c :: cs).length := by
  have := decodeRune_width c cs
  simp only [List.length_drop, List.length_cons] at *
  omega

/-- The trailing-identifier table has the two words the guard `r >= 128` needs. -/
def TablesSafe (tb : Tables) : Prop := 2 ≤ tb.trailBits.length ∧ ∀ kv ∈ tb.basic, kv.2 ≠ TokType.eof

theorem identTrail_np (tb : Tables) (h : TablesSafe tb) (r : Nat) : ∃ bv, identTrail tb.trailBits r = .ok bv := by
  unfold identTrail
  split
  · exact ⟨false, rfl⟩
  · rename_i hr
    have : r / 64 < tb.trailBits.length := by have := h.1; omega
    rw [List.getElem?_eq_getElem this]
    exact ⟨_, rfl⟩

theorem scanIdent_ok (tb : Tables) (h : TablesSafe tb) : ∀ (fuel : Nat) (s : Bytes),
    ∃ v rest, scanIdent tb fuel s = .ok (v, rest) ∧ rest.length ≤ s.length
  | 0, s => ⟨[], s, rfl, Nat.le_refl _⟩
  | fuel + 1, [] => ⟨[], [], rfl, Nat.le_refl _⟩
  | fuel + 1, c :: cs => by
    simp only [scanIdent]
    obtain ⟨bv, hb⟩ := identTrail_np tb h (decodeRune (c :: cs)).1
    rw [hb]
    cases bv with
    | false => exact ⟨[], c :: cs, rfl, Nat.le_refl _⟩
    | true =>
      obtain ⟨v, rest, hr, hl⟩ := scanIdent_ok tb h fuel ((c :: cs).drop (decodeRune (c :: cs)).2)
      simp only [hr]
      refine ⟨_, rest, rfl, ?_⟩
      have := drop_width_lt c cs
      omega

theorem scanDigits_len : ∀ s : Bytes, (scanDigits s).2.length ≤ s.length
  | [] => Nat.le_refl _
  | c :: cs => by
    simp only [scanDigits]
    split
    · have := scanDigits_len cs
      simp only [List.length_cons]
      omega
    · exact Nat.le_refl _

theorem consumeUntil_len (endc : Nat) : ∀ (fuel : Nat) (s v rest : Bytes),
    consumeUntil endc fuel s = some (v, rest) → rest.length < s.length
  | 0, _, _, _, h => by simp [consumeUntil] at h
  | _ + 1, [], _, _, h => by simp [consumeUntil] at h
  | fuel + 1, c :: cs, v, rest, h => by
    have hw := drop_width_lt c cs
    unfold consumeUntil at h
    simp only [] at h
    by_cases h1 : (decodeRune (c :: cs)).1 = endc
    · rw [if_pos h1] at h; cases h; exact hw
    · rw [if_neg h1] at h
      by_cases h2 : (decodeRune (c :: cs)).1 = 0x5C
      · rw [if_pos h2] at h
        generalize (c :: cs).drop (decodeRune (c :: cs)).2 = s1 at h hw
        cases s1 with
        | nil => simp at h
        | cons d ds =>
          simp only [] at h
          obtain ⟨p, hp, hq⟩ := Option.map_eq_some_iff.mp h
          obtain ⟨v', r'⟩ := p
          simp only [Prod.mk.injEq] at hq
          obtain ⟨_, rfl⟩ := hq
          have h3 := consumeUntil_len endc fuel _ _ _ hp
          have h4 := drop_width_lt d ds
          simp only [List.length_cons] at *
          omega
      · rw [if_neg h2] at h
        obtain ⟨p, hp, hq⟩ := Option.map_eq_some_iff.mp h
        obtain ⟨v', r'⟩ := p
        simp only [Prod.mk.injEq] at hq
        obtain ⟨_, rfl⟩ := hq
        have h3 := consumeUntil_len endc fuel _ _ _ hp
        omega

theorem rawBody_len : ∀ (fuel : Nat) (s v rest : Bytes), rawBody fuel s = some (v, rest) → rest.length < s.length
  | 0, _, _, _, h => by simp [rawBody] at h
  | _ + 1, [], _, _, h => by simp [rawBody] at h
  | fuel + 1, c :: cs, v, rest, h => by
    have hw := drop_width_lt c cs
    unfold rawBody at h
    simp only [] at h
    by_cases h1 : (decodeRune (c :: cs)).1 = 0x27
    · rw [if_pos h1] at h; cases h; exact hw
    · rw [if_neg h1] at h
      generalize (c :: cs).drop (decodeRune (c :: cs)).2 = s1 at h hw
      cases s1 with
      | nil => simp at h
      | cons d ds =>
        simp only [] at h
        split at h
        · obtain ⟨p, hp, hq⟩ := Option.map_eq_some_iff.mp h
          obtain ⟨v', r'⟩ := p
          simp only [Prod.mk.injEq] at hq
          obtain ⟨_, rfl⟩ := hq
          have h3 := rawBody_len fuel _ _ _ hp
          simp only [List.length_drop, List.length_cons] at *
          omega
        · obtain ⟨p, hp, hq⟩ := Option.map_eq_some_iff.mp h
          obtain ⟨v', r'⟩ := p
          simp only [Prod.mk.injEq] at hq
          obtain ⟨_, rfl⟩ := hq
          have h3 := rawBody_len fuel _ _ _ hp
          simp only [List.length_cons] at *
          omega

end Jmes.Lexer

namespace Jmes.Lexer
open Jmes.Utf8

/-- What one loop iteration guarantees. -/
def StepOK (total : Nat) (n : Nat) : Step → Prop
  | .tok t rest => rest.length < n ∧ t.pos ≤ total ∧ t.ty ≠ .eof
  | .skip rest => rest.length < n
  | .fail (.syntax off) => 0 ≤ off ∧ off ≤ total
  | .fail (.other _) => True
  | .crash _ => False

theorem lookupNat_mem {α} (k : Nat) (v : α) : ∀ l : List (Nat × α), lookupNat k l = some v → (k, v) ∈ l
  | [], h => by simp [lookupNat] at h
  | (k', v') :: rest, h => by
    simp only [lookupNat] at h
    split at h
    · rename_i hk; cases h; subst hk; simp
    · exact List.mem_cons_of_mem _ (lookupNat_mem k v rest h)

theorem stepAt_ok (tb : Tables) (h : TablesSafe tb) (total n : Nat) (r : Nat) (cur rest : Bytes) (start : Nat)
    (hw : rest.length < n) (hn : n ≤ total) (hst : start ≤ total) : StepOK total n (stepAt tb total r cur rest start) := by
  have two_ok : ∀ (second : Nat) (matched single : TokType), matched ≠ .eof → single ≠ .eof →
      StepOK total n (two r rest start second matched single) := by
    intro second matched single hm hsg
    unfold two
    cases rest with
    | nil => exact ⟨hw, hst, hsg⟩
    | cons c' rest' =>
      dsimp only []
      split
      · exact ⟨by simp only [List.length_cons] at *; omega, hst, hm⟩
      · exact ⟨hw, hst, hsg⟩
  unfold stepAt
  by_cases c0 : identStart tb.startBits r = true
  · rw [if_pos c0]
    obtain ⟨v, rest', hr, hl⟩ := scanIdent_ok tb h rest.length rest
    rw [hr]
    exact ⟨by omega, hst, by simp⟩
  rw [if_neg c0]
  cases hlk : lookupNat r tb.basic with
  | some ty => exact ⟨hw, hst, h.2 _ (lookupNat_mem r ty tb.basic hlk)⟩
  | none =>
  dsimp only []
  by_cases c1 : (r = 0x2D || (0x30 ≤ r && r ≤ 0x39)) = true
  · rw [if_pos c1]
    have := scanDigits_len rest
    exact ⟨by omega, hst, by simp⟩
  rw [if_neg c1]
  by_cases c2 : r = 0x5B
  · rw [if_pos c2]
    cases rest with
    | nil => exact ⟨hw, hst, by simp⟩
    | cons c' rest' =>
      simp only [List.length_cons] at hw
      split
      · rename_i heq; cases heq; exact ⟨by omega, hst, by simp⟩
      · rename_i heq; cases heq; exact ⟨by omega, hst, by simp⟩
      · exact ⟨by simp only [List.length_cons]; omega, hst, by simp⟩
  rw [if_neg c2]
  by_cases c3 : r = 0x22
  · rw [if_pos c3]
    cases hc : consumeUntil 0x22 rest.length rest with
    | none => exact ⟨by omega, by omega⟩
    | some p =>
      obtain ⟨v, rest'⟩ := p
      have := consumeUntil_len _ _ _ _ _ hc
      dsimp only []
      cases Json.unquoteString v with
      | none => trivial
      | some decoded => exact ⟨by omega, Nat.le_trans (Nat.sub_le _ _) (Nat.sub_le _ _), by simp⟩
  rw [if_neg c3]
  by_cases c4 : r = 0x27
  · rw [if_pos c4]
    cases hc : rawBody rest.length rest with
    | none => exact ⟨by omega, by omega⟩
    | some p =>
      obtain ⟨v, rest'⟩ := p
      have := rawBody_len _ _ _ _ hc
      exact ⟨by omega, Nat.sub_le _ _, by simp⟩
  rw [if_neg c4]
  by_cases c5 : r = 0x60
  · rw [if_pos c5]
    cases hc : consumeUntil 0x60 rest.length rest with
    | none => exact ⟨by omega, by omega⟩
    | some p =>
      obtain ⟨v, rest'⟩ := p
      have := consumeUntil_len _ _ _ _ _ hc
      exact ⟨by omega, Nat.sub_le _ _, by simp⟩
  rw [if_neg c5]
  by_cases c6 : r = 0x7C
  · rw [if_pos c6]; exact two_ok _ _ _ (by simp) (by simp)
  rw [if_neg c6]
  by_cases c7 : r = 0x3C
  · rw [if_pos c7]; exact two_ok _ _ _ (by simp) (by simp)
  rw [if_neg c7]
  by_cases c8 : r = 0x3E
  · rw [if_pos c8]; exact two_ok _ _ _ (by simp) (by simp)
  rw [if_neg c8]
  by_cases c9 : r = 0x21
  · rw [if_pos c9]; exact two_ok _ _ _ (by simp) (by simp)
  rw [if_neg c9]
  by_cases c10 : r = 0x3D
  · rw [if_pos c10]; exact two_ok _ _ _ (by simp) (by simp)
  rw [if_neg c10]
  by_cases c11 : r = 0x26
  · rw [if_pos c11]; exact two_ok _ _ _ (by simp) (by simp)
  rw [if_neg c11]
  by_cases c12 : tb.white.contains r = true
  · rw [if_pos c12]; exact hw
  rw [if_neg c12]
  show (0 : Int) ≤ _ ∧ _ ≤ (total : Int)
  omega

theorem step_ok (tb : Tables) (h : TablesSafe tb) (total : Nat) (c : UInt8) (cs : Bytes)
    (hs : (c :: cs).length ≤ total) : StepOK total (c :: cs).length (step tb total (c :: cs)) :=
  stepAt_ok tb h total _ _ _ _ _ (drop_width_lt c cs) hs (Nat.sub_le _ _)

/-- Tokens: non-empty, ending with tEOF at `total`, all positions ≤ `total`. -/
def TokensOK (total : Nat) (ts : List Token) : Prop :=
  (∃ pre, ts = pre ++ [⟨.eof, [], total⟩] ∧ ∀ t ∈ pre, t.ty ≠ .eof) ∧ ∀ t ∈ ts, t.pos ≤ total

def LexOK (total : Nat) : Res (List Token) → Prop
  | .ok ts => TokensOK total ts
  | .err (.syntax off) => 0 ≤ off ∧ off ≤ total
  | .err (.other _) => True
  | .panic _ => False

theorem loop_ok (tb : Tables) (h : TablesSafe tb) (total : Nat) : ∀ (fuel : Nat) (s : Bytes),
    s.length < fuel → s.length ≤ total → LexOK total (loop tb total fuel s)
  | 0, _, hf, _ => by omega
  | fuel + 1, [], _, _ => by
    simp only [loop]
    exact ⟨⟨[], rfl, by intro t ht; cases ht⟩, by intro t ht; simp at ht; subst ht; exact Nat.le_refl _⟩
  | fuel + 1, c :: cs, hf, hs => by
    have hst := step_ok tb h total c cs hs
    simp only [loop]
    cases hstep : step tb total (c :: cs) with
    | tok t rest =>
      rw [hstep] at hst
      have ih := loop_ok tb h total fuel rest (by have := hst.1; omega) (by have := hst.1; omega)
      simp only []
      cases hl : loop tb total fuel rest with
      | ok ts =>
        rw [hl] at ih
        obtain ⟨⟨pre, hp, hne⟩, hpos⟩ := ih
        exact ⟨⟨t :: pre, by simp [hp], by
          intro u hu
          rcases List.mem_cons.mp hu with rfl | hu'
          · exact hst.2.2
          · exact hne u hu'⟩, by
          intro u hu
          rcases List.mem_cons.mp hu with rfl | hu'
          · exact hst.2.1
          · exact hpos u hu'⟩
      | err e => rw [hl] at ih; exact ih
      | panic p => rw [hl] at ih; exact ih
    | skip rest =>
      rw [hstep] at hst
      exact loop_ok tb h total fuel rest (by have := hst; unfold StepOK at this; omega) (by have := hst; unfold StepOK at this; omega)
    | fail e => rw [hstep] at hst; cases e <;> exact hst
    | crash p => rw [hstep] at hst; exact hst.elim

/-- `tokenize` is safe on every byte string. -/
theorem tokenize_ok (tb : Tables) (h : TablesSafe tb) (expr : Bytes) : LexOK expr.length (tokenize tb expr) :=
  loop_ok tb h expr.length (expr.length + 1) expr (Nat.lt_succ_self _) (Nat.le_refl _)

end Jmes.Lexer
