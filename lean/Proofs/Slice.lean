/-
  Proofs.Slice — util.go's slice machinery (Jmes.Slice, with 64-bit
  wrap-around and index panics) computes Python's slice (Spec.Slice).
-/
import Jmes.Slice
import Spec.Slice
namespace Jmes.Slice
open Jmes.Spec

def InRange (x : Int) : Prop := -9223372036854775808 ≤ x ∧ x ≤ 9223372036854775807

theorem wrap64_id {x : Int} (h : InRange x) : wrap64 x = x := by
  unfold wrap64; unfold InRange at h; omega

theorem getIdx_some {α} (xs : List α) (i : Int) (h0 : 0 ≤ i) (h1 : i < xs.length) :
    ∃ x, getIdx xs i = some x := by
  unfold getIdx
  have : ¬ i < 0 := by omega
  simp only [this, if_false]
  have hlt : i.toNat < xs.length := by omega
  exact ⟨xs[i.toNat], List.getElem?_eq_getElem hlt⟩

theorem range_succ_map {β} (f : Nat → β) (n : Nat) :
    (List.range (n + 1)).map f = f 0 :: (List.range n).map (fun k => f (k + 1)) := by
  rw [List.range_succ_eq_map]
  simp [List.map_map, Function.comp_def]

theorem count_up_zero {i stop step : Int} (hs : 0 < step) (h : ¬ i < stop) : count i stop step = 0 := by
  unfold count; simp [hs, h]

theorem count_up_one {i stop step : Int} (hs : 0 < step) (h : i < stop) (hl : step ≥ stop - i) :
    count i stop step = 1 := by
  unfold count
  simp only [gt_iff_lt, hs, if_true, h]
  have : (stop - i - 1) / step = 0 := Int.ediv_eq_zero_of_lt (by omega) (by omega)
  rw [this]; rfl

theorem count_up_succ {i stop step : Int} (hs : 0 < step) (h : i < stop) (hl : ¬ step ≥ stop - i) :
    count i stop step = count (i + step) stop step + 1 := by
  unfold count
  have h2 : i + step < stop := by omega
  simp only [gt_iff_lt, hs, if_true, h, h2]
  have e : stop - i - 1 = (stop - (i + step) - 1) + 1 * step := by omega
  rw [e, Int.add_mul_ediv_right _ _ (by omega : step ≠ 0)]
  have hnn : 0 ≤ (stop - (i + step) - 1) / step := Int.ediv_nonneg (by omega) (by omega)
  omega

/-- The ascending loop enumerates start, start+step, … below stop. -/
theorem loopUp_eq {α} (xs : List α) (stop step : Int) (hs : 0 < step) (hsr : InRange step)
    (hstop : stop ≤ xs.length) (hlen : InRange xs.length) :
    ∀ (fuel : Nat) (i : Int), 0 ≤ i → stop - i ≤ fuel →
      loopUp xs stop step fuel i
        = .ok ((List.range (count i stop step)).filterMap (fun (k : Nat) => getIdx xs (i + (k : Int) * step))) := by
  intro fuel
  induction fuel with
  | zero =>
    intro i h0 hf
    have : ¬ i < stop := by omega
    simp [loopUp, this, count_up_zero hs this]
  | succ fuel ih =>
    intro i h0 hf
    unfold loopUp
    by_cases hlt : i < stop
    · simp only [hlt, if_true]
      obtain ⟨x, hx⟩ := getIdx_some xs i h0 (by omega)
      have hw : wrap64 (stop - i) = stop - i := wrap64_id (by unfold InRange at *; omega)
      rw [hx, hw]
      by_cases hl : step ≥ stop - i
      · simp only [hl, if_true]
        rw [count_up_one hs hlt hl]
        simp [hx]
      · simp only [hl, if_false]
        have hw2 : wrap64 (i + step) = i + step := wrap64_id (by unfold InRange at *; omega)
        rw [hw2, ih (i + step) (by omega) (by omega), count_up_succ hs hlt hl]
        rw [List.range_succ_eq_map]
        simp only [List.filterMap_cons, List.filterMap_map, Function.comp_def]
        have e0 : i + ((0 : Nat) : Int) * step = i := by simp
        rw [e0, hx]
        have ek : ∀ k : Nat, i + ((k.succ : Nat) : Int) * step = i + step + (k : Int) * step := by
          intro k
          have : ((k.succ : Nat) : Int) = (k : Int) + 1 := by simp
          rw [this, Int.add_mul, Int.one_mul]; omega
        simp only [ek]
    · simp [hlt, count_up_zero hs hlt]

theorem count_down_zero {i stop step : Int} (hs : step < 0) (h : ¬ stop < i) : count i stop step = 0 := by
  unfold count
  have : ¬ step > 0 := by omega
  simp [this, h]

theorem count_down_one {i stop step : Int} (hs : step < 0) (h : stop < i) (hl : step ≤ stop - i) :
    count i stop step = 1 := by
  unfold count
  have hn : ¬ step > 0 := by omega
  simp only [hn, if_false, h, if_true]
  have : (i - stop - 1) / (-step) = 0 := Int.ediv_eq_zero_of_lt (by omega) (by omega)
  rw [this]; rfl

theorem count_down_succ {i stop step : Int} (hs : step < 0) (h : stop < i) (hl : ¬ step ≤ stop - i) :
    count i stop step = count (i + step) stop step + 1 := by
  unfold count
  have hn : ¬ step > 0 := by omega
  have h2 : stop < i + step := by omega
  simp only [hn, if_false, h, if_true, h2]
  have e : i - stop - 1 = (i + step - stop - 1) + 1 * (-step) := by omega
  rw [e, Int.add_mul_ediv_right _ _ (by omega : -step ≠ 0)]
  have hnn : 0 ≤ (i + step - stop - 1) / (-step) := Int.ediv_nonneg (by omega) (by omega)
  omega

/-- The descending loop enumerates start, start+step, … above stop. -/
theorem loopDown_eq {α} (xs : List α) (stop step : Int) (hs : step < 0) (hsr : InRange step)
    (hstop : -1 ≤ stop) (hlen : InRange xs.length) :
    ∀ (fuel : Nat) (i : Int), i < xs.length → i - stop ≤ fuel →
      loopDown xs stop step fuel i
        = .ok ((List.range (count i stop step)).filterMap (fun (k : Nat) => getIdx xs (i + (k : Int) * step))) := by
  intro fuel
  induction fuel with
  | zero =>
    intro i h0 hf
    have : ¬ i > stop := by omega
    simp [loopDown, this, count_down_zero hs (by omega : ¬ stop < i)]
  | succ fuel ih =>
    intro i h0 hf
    unfold loopDown
    by_cases hlt : i > stop
    · simp only [hlt, if_true]
      obtain ⟨x, hx⟩ := getIdx_some xs i (by omega) h0
      have hw : wrap64 (stop - i) = stop - i := wrap64_id (by unfold InRange at *; omega)
      rw [hx, hw]
      by_cases hl : step ≤ stop - i
      · simp only [hl, if_true]
        rw [count_down_one hs (by omega) hl]
        simp [hx]
      · simp only [hl, if_false]
        have hw2 : wrap64 (i + step) = i + step := wrap64_id (by unfold InRange at *; omega)
        rw [hw2, ih (i + step) (by omega) (by omega), count_down_succ hs (by omega) hl]
        rw [List.range_succ_eq_map]
        simp only [List.filterMap_cons, List.filterMap_map, Function.comp_def]
        have e0 : i + ((0 : Nat) : Int) * step = i := by simp
        rw [e0, hx]
        have ek : ∀ k : Nat, i + ((k.succ : Nat) : Int) * step = i + step + (k : Int) * step := by
          intro k
          have : ((k.succ : Nat) : Int) = (k : Int) + 1 := by simp
          rw [this, Int.add_mul, Int.one_mul]; omega
        simp only [ek]
    · simp [hlt, count_down_zero hs (by omega : ¬ stop < i)]

end Jmes.Slice

namespace Jmes.Slice
open Jmes.Spec

theorem capSlice_eq_adjust (n x step : Int) (hn0 : 0 ≤ n) (hn : InRange n) (hx : InRange x) (isStart : Bool) :
    capSlice n x step = adjust n step (some x) isStart := by
  unfold capSlice adjust InRange wrap64 at *
  simp only [Int.max_def, Int.min_def]
  split <;> split <;> (try split) <;> (try split) <;> (try split) <;> omega

/-- computeSliceParams computes Python's adjusted bounds (no overflow for 64-bit operands). -/
theorem computeSliceParams_eq (n : Int) (a b c : Option Int) (hn0 : 0 ≤ n) (hn : InRange n)
    (ha : ∀ x, a = some x → InRange x) (hb : ∀ x, b = some x → InRange x) (h0 : c ≠ some 0) :
    computeSliceParams n a b c
      = some (adjust n (c.getD 1) a true, adjust n (c.getD 1) b false, c.getD 1) := by
  have hw : wrap64 (n - 1) = n - 1 := wrap64_id (by unfold InRange at *; omega)
  unfold computeSliceParams
  have hstep : stepOf c = some (c.getD 1) := by
    cases c with
    | none => rfl
    | some k =>
      have : k ≠ 0 := fun h => h0 (by rw [h])
      simp [stepOf, this]
  rw [hstep]
  simp only
  congr 1
  congr 1
  · cases a with
    | none => simp only [adjust, hw]; split <;> simp_all <;> omega
    | some x => exact capSlice_eq_adjust n x _ hn0 hn (ha x rfl) true
  · congr 1
    cases b with
    | none => simp only [adjust]; split <;> simp_all <;> omega
    | some x => exact capSlice_eq_adjust n x _ hn0 hn (hb x rfl) false

theorem adjust_start_bounds (n step : Int) (a : Option Int) (hn0 : 0 ≤ n) :
    (0 < step → 0 ≤ adjust n step a true ∧ adjust n step a true ≤ n) ∧
    (step < 0 → -1 ≤ adjust n step a true ∧ adjust n step a true < n) := by
  unfold adjust
  simp only [Int.max_def, Int.min_def]
  constructor <;> intro h <;> cases a <;> simp only [] <;> (repeat' split) <;> omega

theorem adjust_stop_bounds (n step : Int) (b : Option Int) (hn0 : 0 ≤ n) :
    (0 < step → 0 ≤ adjust n step b false ∧ adjust n step b false ≤ n) ∧
    (step < 0 → -1 ≤ adjust n step b false ∧ adjust n step b false < n) := by
  unfold adjust
  simp only [Int.max_def, Int.min_def]
  constructor <;> intro h <;> cases b <;> simp only [] <;> (repeat' split) <;> omega

/-- `slice` = Python's slice, for every length and all 64-bit start/stop/step. -/
theorem slice_eq_pySlice {α} (xs : List α) (a b c : Option Int) (hlen : InRange xs.length)
    (ha : ∀ x, a = some x → InRange x) (hb : ∀ x, b = some x → InRange x) (hc : ∀ x, c = some x → InRange x)
    (h0 : c ≠ some 0) :
    slice xs a b c = .ok ((pySlice xs.length a b (c.getD 1)).filterMap (getIdx xs)) := by
  have hn0 : (0 : Int) ≤ xs.length := by omega
  unfold slice
  have hguard : ¬ ((xs.length : Int) > 9223372036854775807) := by unfold InRange at hlen; omega
  simp only [hguard, if_false]
  rw [computeSliceParams_eq xs.length a b c hn0 hlen ha hb h0]
  simp only
  have hstepR : InRange (c.getD 1) := by
    cases c with
    | none => unfold InRange; simp
    | some k => exact hc k rfl
  have hne : c.getD 1 ≠ 0 := by
    cases c with
    | none => simp
    | some k => simp only [Option.getD_some]; exact fun h => h0 (by rw [h])
  unfold pySlice
  simp only [List.filterMap_map, Function.comp_def]
  by_cases hpos : c.getD 1 > 0
  · simp only [hpos, if_true]
    have hsb := (adjust_start_bounds xs.length (c.getD 1) a hn0).1 hpos
    have heb := (adjust_stop_bounds xs.length (c.getD 1) b hn0).1 hpos
    exact loopUp_eq xs _ _ hpos hstepR heb.2 hlen _ _ hsb.1 (by omega)
  · simp only [hpos, if_false]
    have hneg : c.getD 1 < 0 := by omega
    have hsb := (adjust_start_bounds xs.length (c.getD 1) a hn0).2 hneg
    have heb := (adjust_stop_bounds xs.length (c.getD 1) b hn0).2 hneg
    exact loopDown_eq xs _ _ hneg hstepR heb.1 hlen _ _ hsb.2 (by omega)

/-- Every index Python's slice selects is inside the sequence. -/
theorem pySlice_inbounds (n : Nat) (a b : Option Int) (step : Int) (hs : step ≠ 0) :
    ∀ i ∈ pySlice n a b step, 0 ≤ i ∧ i < n := by
  intro i hi
  unfold pySlice at hi
  simp only [List.mem_map, List.mem_range] at hi
  obtain ⟨k, hk, rfl⟩ := hi
  have hn0 : (0 : Int) ≤ n := by omega
  by_cases hpos : step > 0
  · have hsb := (adjust_start_bounds n step a hn0).1 hpos
    have heb := (adjust_stop_bounds n step b hn0).1 hpos
    generalize adjust (↑n) step a true = start at *
    generalize adjust (↑n) step b false = stop at *
    unfold count at hk
    simp only [hpos, if_true] at hk
    by_cases hlt : start < stop
    · simp only [hlt, if_true] at hk
      have hq : (k : Int) ≤ (stop - start - 1) / step := by
        have : 0 ≤ (stop - start - 1) / step := Int.ediv_nonneg (by omega) (by omega)
        omega
      have hm : (k : Int) * step ≤ stop - start - 1 := by
        calc (k : Int) * step ≤ ((stop - start - 1) / step) * step := Int.mul_le_mul_of_nonneg_right hq (by omega)
          _ ≤ stop - start - 1 := Int.ediv_mul_le _ (by omega)
      have hk0 : 0 ≤ (k : Int) * step := Int.mul_nonneg (by omega) (by omega)
      omega
    · simp [hlt] at hk
  · have hneg : step < 0 := by omega
    have hsb := (adjust_start_bounds n step a hn0).2 hneg
    have heb := (adjust_stop_bounds n step b hn0).2 hneg
    generalize adjust (↑n) step a true = start at *
    generalize adjust (↑n) step b false = stop at *
    unfold count at hk
    simp only [hpos, if_false] at hk
    by_cases hlt : stop < start
    · simp only [hlt, if_true] at hk
      have hq : (k : Int) ≤ (start - stop - 1) / (-step) := by
        have : 0 ≤ (start - stop - 1) / (-step) := Int.ediv_nonneg (by omega) (by omega)
        omega
      have hm : (k : Int) * (-step) ≤ start - stop - 1 := by
        calc (k : Int) * (-step) ≤ ((start - stop - 1) / (-step)) * (-step) := Int.mul_le_mul_of_nonneg_right hq (by omega)
          _ ≤ start - stop - 1 := Int.ediv_mul_le _ (by omega)
      have hk0 : 0 ≤ (k : Int) * (-step) := Int.mul_nonneg (by omega) (by omega)
      have e : (k : Int) * (-step) = - ((k : Int) * step) := Int.mul_neg _ _
      omega
    · simp [hlt] at hk

end Jmes.Slice

namespace Jmes.Slice
open Jmes.Spec

/-- For 64-bit parameters the slice machinery never panics and never hangs. -/
theorem slice_np {α} (xs : List α) (a b c : Option Int)
    (ha : ∀ x, a = some x → InRange x) (hb : ∀ x, b = some x → InRange x) (hc : ∀ x, c = some x → InRange x) :
    (slice xs a b c).isPanic = false := by
  by_cases hlen : (xs.length : Int) > 9223372036854775807
  · simp [slice, hlen, Res.isPanic]
  · by_cases h0 : c = some 0
    · subst h0
      simp [slice, hlen, computeSliceParams, stepOf, Res.isPanic]
    · rw [slice_eq_pySlice xs a b c (by unfold InRange; omega) ha hb hc h0]
      rfl

end Jmes.Slice
