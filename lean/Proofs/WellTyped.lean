/-
  Proofs.WellTyped — `resolveArgs` (the recursive check of functions.go)
  decides exactly the position-wise, index-based statement of well-typedness.
-/
import Jmes.Functions
namespace Jmes.Fn
variable {N : Type}

/-- A call is well-typed for a signature: right number of arguments, and the
    i-th argument has one of the types declared for position i, positions past
    the declared ones being checked against the variadic (last) parameter. -/
def WellTyped (sig : List ArgSpec) (args : List (Arg N)) : Prop :=
  match sig.getLast? with
  | none => True
  | some last =>
    (if last.variadic then sig.length ≤ args.length else sig.length = args.length) ∧
    ∀ i (hi : i < args.length), typeCheck (sig.getD i last) args[i] = true

theorem checkVariadic_iff (last : ArgSpec) : ∀ (l : List ArgSpec) (args : List (Arg N)),
    checkVariadic last l args = true ↔ ∀ i (hi : i < args.length), typeCheck (l.getD i last) args[i] = true
  | _, [] => by cases ‹List ArgSpec› <;> simp [checkVariadic]
  | [], a :: as => by
    simp only [checkVariadic, Bool.and_eq_true, checkVariadic_iff last [] as]
    constructor
    · rintro ⟨h1, h2⟩ i hi
      cases i with
      | zero => exact h1
      | succ j => exact h2 j (by simpa using hi)
    · intro h
      exact ⟨h 0 (by simp), fun i hi => h (i + 1) (by simpa using hi)⟩
  | s :: l, a :: as => by
    simp only [checkVariadic, Bool.and_eq_true, checkVariadic_iff last l as]
    constructor
    · rintro ⟨h1, h2⟩ i hi
      cases i with
      | zero => exact h1
      | succ j => exact h2 j (by simpa using hi)
    · intro h
      exact ⟨h 0 (by simp), fun i hi => h (i + 1) (by simpa using hi)⟩

theorem checkFixed_iff (last : ArgSpec) : ∀ (l : List ArgSpec) (args : List (Arg N)),
    checkFixed l args = true ↔ l.length = args.length ∧ ∀ i (hi : i < args.length), typeCheck (l.getD i last) args[i] = true
  | [], [] => by simp [checkFixed]
  | [], _ :: _ => by simp [checkFixed]
  | _ :: _, [] => by simp [checkFixed]
  | s :: l, a :: as => by
    simp only [checkFixed, Bool.and_eq_true, checkFixed_iff last l as, List.length_cons]
    constructor
    · rintro ⟨h1, h2, h3⟩
      refine ⟨by omega, ?_⟩
      intro i hi
      cases i with
      | zero => exact h1
      | succ j => exact h3 j (by simpa using hi)
    · rintro ⟨h1, h2⟩
      exact ⟨h2 0 (by simp), by omega, fun i hi => h2 (i + 1) (by simpa using hi)⟩

/-- `resolveArgs` succeeds exactly on well-typed calls … -/
theorem resolveArgs_ok_iff (e : FnEntry) (args : List (Arg N)) :
    resolveArgs e args = .ok () ↔ WellTyped e.args args := by
  unfold resolveArgs WellTyped
  cases hl : e.args.getLast? with
  | none => simp
  | some last =>
    simp only []
    by_cases hv : last.variadic = true
    · simp only [hv, Bool.not_true, Bool.false_eq_true, if_false, if_true]
      by_cases hlen : args.length < e.args.length
      · simp only [hlen, if_true]
        constructor
        · intro h; simp [invalidArity] at h
        · intro h; omega
      · simp only [hlen, if_false]
        rw [← checkVariadic_iff last e.args args]
        constructor
        · intro h
          refine ⟨by omega, ?_⟩
          by_cases hc : checkVariadic last e.args args = true
          · exact hc
          · simp [hc, invalidType] at h
        · rintro ⟨_, hc⟩; simp [hc]
    · have hv' : last.variadic = false := by simpa using hv
      simp only [hv', Bool.not_false, if_true, Bool.false_eq_true, if_false]
      by_cases hlen : e.args.length ≠ args.length
      · rw [if_pos hlen]
        constructor
        · intro h; simp [invalidArity] at h
        · intro h; exact absurd h.1 hlen
      · rw [if_neg hlen]
        have hl' : e.args.length = args.length := by simpa using hlen
        constructor
        · intro h
          by_cases hc : checkFixed e.args args = true
          · exact ⟨hl', ((checkFixed_iff last e.args args).mp hc).2⟩
          · simp [hc, invalidType] at h
        · rintro ⟨_, hc⟩
          have : checkFixed e.args args = true := (checkFixed_iff last e.args args).mpr ⟨hl', hc⟩
          simp [this]

/-- … and is an error (never a panic) on every other call. -/
theorem resolveArgs_err_of_not_ok (e : FnEntry) (args : List (Arg N)) (h : resolveArgs e args ≠ .ok ()) :
    ∃ er, resolveArgs e args = .err er := by
  unfold resolveArgs at *
  cases hl : e.args.getLast? with
  | none => rw [hl] at h; exact absurd rfl h
  | some last =>
    rw [hl] at h
    simp only [] at h ⊢
    split <;> split <;> (try split) <;> first | exact ⟨_, rfl⟩ | (rename_i h1 h2 h3; simp_all)

end Jmes.Fn
