/-
  Proofs.QuotedIdent — a quoted identifier spelled with JSON string escaping
  is read back as the string it spells, for every well-formed UTF-8 string:
  the delimiter scan sees the marshalled body as a sequence of units, and
  `json.Unmarshal` of the body is the string (Proofs/JsonString.lean).
-/
import Proofs.JsonString
import Proofs.LexerRender
namespace Jmes.Lexer
open Jmes.Utf8 Jmes.Json

theorem units_append {endc : UInt8} {a b : Bytes} (ha : Units endc a) (hb : Units endc b) : Units endc (a ++ b) := by
  induction ha with
  | nil => exact hb
  | plain c rest h1 h2 h3 _ ih => exact Units.plain c _ h1 h2 h3 ih
  | esc d rest hd _ ih => exact Units.esc d _ hd ih
  | multi c cs hw hge _ ih =>
    have hle := width_le c cs
    have hdec : decodeRune (c :: cs ++ b) = decodeRune (c :: cs) := by
      have := decode_take c cs ((c :: cs).drop (decodeRune (c :: cs)).2 ++ b) hw
      rw [← List.append_assoc, List.take_append_drop] at this
      exact this
    refine Units.multi c (cs ++ b) (by rw [show c :: (cs ++ b) = c :: cs ++ b from rfl, hdec]; exact hw)
      (by rw [show c :: (cs ++ b) = c :: cs ++ b from rfl, hdec]; exact hge) ?_
    rw [show c :: (cs ++ b) = c :: cs ++ b from rfl, hdec, List.drop_append_of_le_length hle]
    exact ih

theorem hexDigit_plain : ∀ n : Fin 16, hexDigit n.val < 0x80 ∧ hexDigit n.val ≠ 0x22 ∧ hexDigit n.val ≠ 0x5C := by
  decide +kernel

theorem nibbles : ∀ c : UInt8, c.toNat >>> 4 < 16 ∧ c.toNat &&& 0xF < 16 := by
  apply forall_uint8'; decide +kernel

/-- what is written for one ASCII byte is a sequence of units -/
theorem units_escOut (c : UInt8) (hc : c < 0x80) : Units 0x22 (escOut c) := by
  rcases esc_class c hc with h | h | h
  · rcases h with rfl | rfl | rfl | rfl | rfl | rfl | rfl <;>
      exact Units.esc _ [] (by decide) Units.nil
  · rw [escOut_u c h]
    obtain ⟨n1, n2⟩ := nibbles c
    obtain ⟨a1, a2, a3⟩ := hexDigit_plain ⟨c.toNat >>> 4, n1⟩
    obtain ⟨b1, b2, b3⟩ := hexDigit_plain ⟨c.toNat &&& 0xF, n2⟩
    exact Units.esc 0x75 _ (by decide) (Units.plain 0x30 _ (by decide) (by decide) (by decide)
      (Units.plain 0x30 _ (by decide) (by decide) (by decide) (Units.plain _ _ a1 a2 a3 (Units.plain _ _ b1 b2 b3 Units.nil))))
  · obtain ⟨he, h1, _, h3⟩ := h
    rw [he]
    exact Units.plain c [] hc h1 h3 Units.nil

/-- what is written for one well-formed multi-byte rune is a sequence of units -/
theorem units_escMulti (c : UInt8) (rest : Bytes) (hw : 1 < (decodeRune (c :: rest)).2) : Units 0x22 (escMulti c rest) := by
  unfold escMulti
  split
  · exact Units.esc 0x75 _ (by decide) (Units.plain 0x32 _ (by decide) (by decide) (by decide)
      (Units.plain 0x30 _ (by decide) (by decide) (by decide) (Units.plain 0x32 _ (by decide) (by decide) (by decide)
        (Units.plain 0x38 _ (by decide) (by decide) (by decide) Units.nil))))
  · split
    · exact Units.esc 0x75 _ (by decide) (Units.plain 0x32 _ (by decide) (by decide) (by decide)
        (Units.plain 0x30 _ (by decide) (by decide) (by decide) (Units.plain 0x32 _ (by decide) (by decide) (by decide)
          (Units.plain 0x39 _ (by decide) (by decide) (by decide) Units.nil))))
    · obtain ⟨_, hge⟩ := encode_decode c rest hw
      have hle := width_le c rest
      obtain ⟨tl, htl⟩ : ∃ tl, (c :: rest).take (decodeRune (c :: rest)).2 = c :: tl := by
        cases hh : (decodeRune (c :: rest)).2 with
        | zero => omega
        | succ n => exact ⟨rest.take n, by simp⟩
      have hdt := decode_take c rest [] hw
      rw [List.append_nil, htl] at hdt
      rw [htl]
      refine Units.multi c tl (by rw [hdt]; exact hw) (by rw [hdt]; exact hge) ?_
      rw [hdt, ← htl, List.drop_take_self]
      exact Units.nil

theorem units_escape {s : Bytes} (hv : ValidUtf8 s) : ∀ fuelE, s.length ≤ fuelE → Units 0x22 (escapeAux fuelE s) := by
  induction hv with
  | nil => intro fuelE _; cases fuelE <;> exact Units.nil
  | ascii c rest hc _ ih =>
    intro fuelE he
    cases fuelE with
    | zero => simp at he
    | succ fe =>
      rw [escapeAux_ascii fe c rest hc]
      exact units_append (units_escOut c hc) (ih fe (by simp at he; omega))
  | multi c rest hw _ ih =>
    intro fuelE he
    cases fuelE with
    | zero => simp at he
    | succ fe =>
      rw [escapeAux_multi fe c rest hw]
      exact units_append (units_escMulti c rest hw) (ih fe (by simp only [List.length_drop, List.length_cons] at he ⊢; omega))

/-- **Quoted identifiers, for every Unicode string**: `"` + JSON-escaped `s` + `"` spells the token
    (quoted identifier, `s`). -/
theorem spell_quoted (s : Bytes) (hv : ValidUtf8 s) : Spell .qident s (0x22 :: (escape s ++ [0x22])) :=
  Spell.quoted (escape s) s (units_escape hv s.length (Nat.le_refl _)) (unquote_escape s hv)

end Jmes.Lexer
