/-
  Proofs.IntCodec — the integer instance of the number interface satisfies the
  number-text contract `NumCodec` (decimal text is a JSON number token that
  parses back): the hypotheses of the codec theorems are satisfiable.
-/
import Proofs.JsonValue
namespace Jmes
open Jmes.Json

abbrev isDig := Json.isDigit

theorem dig_of_lt10 (d : Nat) (h : d < 10) : isDig (48 + d).toUInt8 = true ∧ ((48 + d).toUInt8).toNat - 48 = d := by
  have : ∀ d : Fin 10, isDig (48 + d.val).toUInt8 = true ∧ ((48 + d.val).toUInt8).toNat - 48 = d.val := by decide
  exact this ⟨d, h⟩

/-- value of a digit string -/
def digitsVal (ds : Bytes) : Nat := ds.foldl (fun a d => a * 10 + (d.toNat - 48)) 0

theorem decAux_spec : ∀ (fuel n : Nat), n < fuel →
    (∀ c ∈ decAux fuel n, isDig c = true) ∧ digitsVal (decAux fuel n) = n ∧ decAux fuel n ≠ [] ∧
    (10 ≤ n → ∀ c cs, decAux fuel n = c :: cs → c ≠ 0x30)
  | 0, n, h => by omega
  | fuel + 1, n, h => by
    simp only [decAux]
    by_cases hn : n < 10
    · obtain ⟨h1, h2⟩ := dig_of_lt10 n hn
      simp only [hn, if_true]
      refine ⟨by intro c hc; rw [List.mem_singleton.mp hc]; exact h1, by simp only [digitsVal, List.foldl_cons, List.foldl_nil]; omega, by simp, by intro h10; omega⟩
    · have hlt : n / 10 < fuel := by omega
      obtain ⟨i1, i2, i3, i4⟩ := decAux_spec fuel (n / 10) hlt
      obtain ⟨h1, h2⟩ := dig_of_lt10 (n % 10) (Nat.mod_lt _ (by omega))
      simp only [hn, if_false]
      refine ⟨?_, ?_, by simp, ?_⟩
      · intro c hc
        rcases List.mem_append.mp hc with h' | h'
        · exact i1 c h'
        · rw [List.mem_singleton.mp h']; exact h1
      · simp only [digitsVal, List.foldl_append, List.foldl_cons, List.foldl_nil] at i2 ⊢
        rw [i2, h2]; omega
      · intro _ c cs hcs
        cases hd : decAux fuel (n / 10) with
        | nil => exact absurd hd i3
        | cons x xs =>
          rw [hd] at hcs
          simp only [List.cons_append, List.cons.injEq] at hcs
          rw [← hcs.1]
          by_cases h100 : 10 ≤ n / 10
          · exact i4 h100 x xs hd
          · -- n / 10 < 10: a single digit, which is not 0 since n ≥ 10
            have hq : n / 10 < 10 := by omega
            have hq0 : 0 < n / 10 := by omega
            cases fuel with
            | zero => omega
            | succ f =>
              simp only [decAux, hq, if_true, List.cons.injEq] at hd
              rw [← hd.1]
              have : ∀ q : Fin 10, 0 < q.val → (48 + q.val).toUInt8 ≠ 0x30 := by decide
              exact this ⟨n / 10, hq⟩ hq0

theorem natToDec_spec (n : Nat) :
    (∀ c ∈ natToDec n, isDig c = true) ∧ digitsVal (natToDec n) = n ∧ natToDec n ≠ [] ∧
    (∀ c cs, natToDec n = c :: cs → c = 0x30 → cs = []) := by
  obtain ⟨h1, h2, h3, h4⟩ := decAux_spec (n + 1) n (Nat.lt_succ_self n)
  refine ⟨h1, h2, h3, ?_⟩
  intro c cs hcs hc0
  by_cases h10 : 10 ≤ n
  · exact absurd hc0 (h4 h10 c cs hcs)
  · have : n < 10 := by omega
    simp only [natToDec, decAux, this, if_true, List.cons.injEq] at hcs
    exact hcs.2.symm

theorem foldl_opt (ds : Bytes) (hd : ∀ c ∈ ds, isDig c = true) (a : Nat) :
    ds.foldl (fun (acc : Option Nat) (d : UInt8) => match acc with
      | none => none
      | some a => if 48 ≤ d ∧ d ≤ 57 then some (a * 10 + (d.toNat - 48)) else none) (some a) =
    some (ds.foldl (fun a d => a * 10 + (d.toNat - 48)) a) := by
  induction ds generalizing a with
  | nil => rfl
  | cons d ds ih =>
    have h := hd d (by simp)
    simp only [Json.isDigit, Bool.and_eq_true, decide_eq_true_eq] at h
    simp only [List.foldl_cons, h, and_self, if_true]
    exact ih (fun c hc => hd c (by simp [hc])) _

theorem digitsToNat_spec (ds : Bytes) (hne : ds ≠ []) (hd : ∀ c ∈ ds, isDig c = true) : digitsToNat? ds = some (digitsVal ds) := by
  cases ds with
  | nil => exact absurd rfl hne
  | cons d rest =>
    simp only [digitsToNat?]
    exact foldl_opt (d :: rest) hd 0

theorem dig_not_sign : ∀ c : UInt8, isDig c = true → c ≠ 45 ∧ c ≠ 43 := by
  apply Utf8.forall_uint8'; decide +kernel

theorem intParse_format (i : Int) : intParse (intFormat i) = some i := by
  obtain ⟨h1, h2, h3, _⟩ := natToDec_spec i.natAbs
  unfold intFormat
  by_cases hneg : i < 0
  · simp only [hneg, if_true, intParse, digitsToNat_spec _ h3 h1, h2, Option.map]
    have e := Int.ofNat_natAbs_of_nonpos (show i ≤ 0 by omega)
    simp only [bind, Option.bind, pure]
    show some (-(i.natAbs : Int)) = some i
    rw [e]; simp
  · simp only [hneg, if_false]
    cases hd : natToDec i.natAbs with
    | nil => exact absurd hd h3
    | cons c cs =>
      have hc := h1 c (by rw [hd]; simp)
      obtain ⟨n1, n2⟩ := dig_not_sign c hc
      have := digitsToNat_spec _ h3 h1
      rw [hd] at this h2
      unfold intParse
      split
      · rename_i heq; simp only [List.cons.injEq] at heq; exact absurd heq.1 n1
      · rename_i heq; simp only [List.cons.injEq] at heq; exact absurd heq.1 n2
      · simp only [this, h2, Option.map]
        have e := Int.natAbs_of_nonneg (show 0 ≤ i by omega)
        simp only [bind, Option.bind, pure]
        show some ((i.natAbs : Int)) = some i
        rw [e]

theorem takeDigits_run : ∀ (ds rest : Bytes), (∀ c ∈ ds, isDig c = true) → (∀ d r, rest = d :: r → isDig d = false) →
    Json.takeDigits (ds ++ rest) = (ds, rest)
  | [], rest, _, hr => by
    cases rest with
    | nil => rfl
    | cons d r => simp [Json.takeDigits, hr d r rfl]
  | x :: ds, rest, hd, hr => by
    simp [Json.takeDigits, hd x (by simp), takeDigits_run ds rest (fun c hc => hd c (by simp [hc])) hr]

theorem delim_head {rest : Bytes} (h : Delim rest) : ∀ d r, rest = d :: r → isDig d = false ∧ d ≠ 0x2E ∧ d ≠ 0x65 ∧ d ≠ 0x45 := by
  intro d r e
  rcases h with rfl | ⟨d', r', rfl, hd⟩
  · cases e
  · simp only [List.cons.injEq] at e
    rw [← e.1]
    rcases hd with rfl | rfl | rfl <;> exact ⟨by decide, by decide, by decide, by decide⟩

/-- unsigned digits followed by a delimiter scan as one number token -/
theorem scan_digits (ds rest : Bytes) (hne : ds ≠ []) (hd : ∀ c ∈ ds, isDig c = true)
    (hz : ∀ c cs, ds = c :: cs → c = 0x30 → cs = []) (hr : Delim rest) (sign : Bytes) (hs : sign = [] ∨ sign = [0x2D]) :
    scanNumber (sign ++ ds ++ rest) = some (sign ++ ds, rest) := by
  have hrest := delim_head hr
  cases ds with
  | nil => exact absurd rfl hne
  | cons c cs =>
    have hc := hd c (by simp)
    obtain ⟨n1, _⟩ := dig_not_sign c hc
    have htake : Json.takeDigits (c :: cs ++ rest) = (c :: cs, rest) :=
      takeDigits_run (c :: cs) rest hd (fun d r e => (hrest d r e).1)
    have hc30 : c = 0x30 → cs = [] := hz c cs rfl
    have htake' : Json.takeDigits (c :: (cs ++ rest)) = (c :: cs, rest) := htake
    rcases hs with rfl | rfl
    · -- no sign
      simp only [List.nil_append]
      cases rest with
      | nil =>
        by_cases h0 : c = 0x30
        · subst h0; rw [hc30 rfl]; simp [scanNumber]
        · simp only [List.append_nil] at htake'
          simp [scanNumber, n1, h0, hc, htake']
      | cons d r =>
        obtain ⟨r1, r2, r3, r4⟩ := hrest d r rfl
        by_cases h0 : c = 0x30
        · subst h0; rw [hc30 rfl]; simp [scanNumber, r2, r3, r4]
        · simp [scanNumber, n1, h0, hc, htake', r2, r3, r4]
    · -- minus sign
      cases rest with
      | nil =>
        by_cases h0 : c = 0x30
        · subst h0; rw [hc30 rfl]; simp [scanNumber]
        · simp only [List.append_nil] at htake'
          simp [scanNumber, h0, hc, htake']
      | cons d r =>
        obtain ⟨r1, r2, r3, r4⟩ := hrest d r rfl
        by_cases h0 : c = 0x30
        · subst h0; rw [hc30 rfl]; simp [scanNumber, r2, r3, r4]
        · simp [scanNumber, h0, hc, htake', r2, r3, r4]

theorem intFormat_head (i : Int) : ∃ c cs, intFormat i = c :: cs ∧ (c = 0x2D ∨ Json.isDigit c = true) := by
  obtain ⟨h1, _, h3, _⟩ := natToDec_spec i.natAbs
  unfold intFormat
  by_cases hneg : i < 0
  · exact ⟨45, natToDec i.natAbs, by simp [hneg], Or.inl rfl⟩
  · cases hd : natToDec i.natAbs with
    | nil => exact absurd hd h3
    | cons c cs => exact ⟨c, cs, by simp [hneg, hd], Or.inr (h1 c (by rw [hd]; simp))⟩

theorem intFormat_scan (i : Int) (rest : Bytes) (hr : Delim rest) : scanNumber (intFormat i ++ rest) = some (intFormat i, rest) := by
  obtain ⟨h1, _, h3, h4⟩ := natToDec_spec i.natAbs
  unfold intFormat
  by_cases hneg : i < 0
  · simp only [hneg, if_true]
    have := scan_digits (natToDec i.natAbs) rest h3 h1 h4 hr [0x2D] (Or.inr rfl)
    simpa using this
  · simp only [hneg, if_false]
    have := scan_digits (natToDec i.natAbs) rest h3 h1 h4 hr [] (Or.inl rfl)
    simpa using this

/-- The integer instance meets the contract. -/
theorem intNumCodec : NumCodec Int where
  head i _ := intFormat_head i
  scan i _ rest hr := intFormat_scan i rest hr
  parse i _ := intParse_format i

end Jmes
