/-
  Proofs.LexerRoundTrip — the raw-string scanner inverts the raw-string
  spelling (' written as \'), backslashes included, for every string the
  syntax can spell.  Proved for ASCII content (the scanner decodes runes; the
  multi-byte case rests on the UTF-8 decoder never producing an ASCII rune from
  a multi-byte sequence and is validated by the `ident` stream).
-/
import Jmes.Lexer
import Proofs.Utf8
namespace Jmes.Lexer
open Jmes.Utf8

def Ascii (s : Bytes) : Prop := ∀ c ∈ s, c < 0x80

theorem decodeRune_ascii (c : UInt8) (cs : Bytes) (h : c < 0x80) : decodeRune (c :: cs) = (c.toNat, 1) := by
  simp [decodeRune, h]

theorem toNat_eq_iff (c : UInt8) (n : Nat) (hn : n < 256) : c.toNat = n ↔ c = n.toUInt8 := by
  constructor
  · intro h; apply UInt8.toNat_inj.mp; simp [h, Nat.mod_eq_of_lt hn]
  · intro h; subst h; simp [Nat.mod_eq_of_lt hn]

/-- One step of the raw-string loop on an ASCII byte. -/
theorem rawBody_step (fuel : Nat) (c : UInt8) (cs : Bytes) (hc : c < 0x80) :
    rawBody (fuel + 1) (c :: cs) =
      if c = 0x27 then some ([], cs)
      else match cs with
        | [] => none
        | d :: ds =>
          if c = 0x5C ∧ (decodeRune (d :: ds)).1 = 0x27 then (rawBody fuel ds).map (fun r => (0x27 :: r.1, r.2))
          else (rawBody fuel (d :: ds)).map (fun r => (c :: r.1, r.2)) := by
  simp only [rawBody, decodeRune_ascii c cs hc, List.drop_one, List.tail_cons, List.take_succ_cons, List.take_zero]
  by_cases hq : c = 0x27
  · subst hq; simp
  · have hne : ¬ c.toNat = 0x27 := fun h => hq ((toNat_eq_iff c 0x27 (by decide)).mp h)
    simp only [hne, hq, if_false]
    cases cs with
    | nil => rfl
    | cons d ds =>
      simp only []
      by_cases hb : c = 0x5C
      · subst hb
        by_cases hd : (decodeRune (d :: ds)).1 = 0x27
        · simp [hd]
        · simp [hd]
      · have hnb : ¬ c.toNat = 0x5C := fun h => hb ((toNat_eq_iff c 0x5C (by decide)).mp h)
        simp [hb, hnb]

/-- Spelling of a raw string: every quote is preceded by a backslash. -/
def rawSpell : Bytes → Bytes
  | [] => []
  | c :: cs => if c = 0x27 then 0x5C :: 0x27 :: rawSpell cs else c :: rawSpell cs

/-- A sufficient (not necessary) condition for a string to be spellable: no backslash directly
    before a quote, and no backslash at the end.  Superseded by `RawEndOK` (`RawOK.toEnd`); kept
    for reference. -/
def RawOK : Bytes → Prop
  | [] => True
  | [c] => c ≠ 0x5C
  | c :: d :: rest => (c = 0x5C → d ≠ 0x27) ∧ RawOK (d :: rest)

theorem RawOK_tail (c : UInt8) (cs : Bytes) (h : RawOK (c :: cs)) : RawOK cs := by
  cases cs with
  | nil => trivial
  | cons d ds => exact h.2

theorem rawSpell_len (s : Bytes) : s.length ≤ (rawSpell s).length := by
  induction s with
  | nil => simp [rawSpell]
  | cons c cs ih => simp only [rawSpell]; split <;> simp <;> omega

/-- The strings the raw-string syntax can spell: exactly those that do not end
    with a backslash (which would escape the closing quote).  A backslash
    directly before a quote is fine: `\'` is spelled `\\'`, the scanner keeps the
    first backslash (the byte after it is not a quote) and reads `\'` as the quote. -/
def RawEndOK : Bytes → Prop
  | [] => True
  | [c] => c ≠ 0x5C
  | _ :: d :: rest => RawEndOK (d :: rest)

theorem RawEndOK_tail (c : UInt8) (cs : Bytes) (h : RawEndOK (c :: cs)) : RawEndOK cs := by
  cases cs with
  | nil => trivial
  | cons d ds => exact h

theorem RawEndOK_cons (c d : UInt8) (ds : Bytes) : RawEndOK (c :: d :: ds) ↔ RawEndOK (d :: ds) := Iff.rfl

/-- `RawOK` (no backslash before a quote and none at the end) is the stronger condition. -/
theorem RawOK.toEnd : ∀ {s : Bytes}, RawOK s → RawEndOK s
  | [], _ => trivial
  | [_], h => h
  | _ :: d :: ds, h => RawOK.toEnd (s := d :: ds) h.2

/-- The recursive form says: the last byte, if there is one, is not a backslash. -/
theorem RawEndOK_iff_getLast? : ∀ (s : Bytes), RawEndOK s ↔ s.getLast? ≠ some 0x5C
  | [] => by simp [RawEndOK]
  | [c] => by simp [RawEndOK]
  | c :: d :: ds => by
    rw [RawEndOK_cons, RawEndOK_iff_getLast? (d :: ds), List.getLast?_cons_cons]

theorem RawEndOK_append_backslash (s : Bytes) : ¬ RawEndOK (s ++ [0x5C]) := by
  rw [RawEndOK_iff_getLast?]; simp

/-- The spelling of a non-empty string never starts with a quote. -/
theorem rawSpell_head_ne (e : UInt8) (es X : Bytes) (d : UInt8) (ds : Bytes)
    (h : rawSpell (e :: es) ++ X = d :: ds) : d ≠ 0x27 := by
  simp only [rawSpell] at h
  split at h
  · simp only [List.cons_append, List.cons.injEq] at h; rw [← h.1]; decide
  · rename_i hc; simp only [List.cons_append, List.cons.injEq] at h; rw [← h.1]; exact hc

theorem rawSpell_head_eq (e : UInt8) (es X : Bytes) (d : UInt8) (ds : Bytes)
    (h : rawSpell (e :: es) ++ X = d :: ds) : d = 0x5C ∨ d = e := by
  simp only [rawSpell] at h
  split at h
  · simp only [List.cons_append, List.cons.injEq] at h; exact .inl h.1.symm
  · simp only [List.cons_append, List.cons.injEq] at h; exact .inr h.1.symm

/-- C14 (raw strings): for every ASCII string `s` that does not end with a backslash, scanning
    `rawSpell s ++ "'" ++ rest` yields exactly `s` — backslashes included — and leaves `rest`. -/
theorem rawBody_rawSpell : ∀ (s : Bytes) (rest : Bytes) (fuel : Nat), Ascii s → RawEndOK s →
    (rawSpell s).length < fuel → rawBody fuel (rawSpell s ++ 0x27 :: rest) = some (s, rest)
  | [], rest, fuel, _, _, hf => by
    cases fuel with
    | zero => simp at hf
    | succ f => rw [show rawSpell [] ++ 0x27 :: rest = 0x27 :: rest from rfl, rawBody_step f 0x27 rest (by decide)]; simp
  | c :: cs, rest, fuel, ha, hok, hf => by
    have hc : c < 0x80 := ha c (by simp)
    have hacs : Ascii cs := fun x hx => ha x (by simp [hx])
    have hokcs := RawEndOK_tail c cs hok
    cases fuel with
    | zero => simp at hf
    | succ f =>
      by_cases hq : c = 0x27
      · subst hq
        simp only [rawSpell, if_true, List.cons_append] at hf ⊢
        rw [rawBody_step f 0x5C _ (by decide)]
        simp only [show ¬ ((0x5C : UInt8) = 0x27) by decide, if_false]
        rw [decodeRune_ascii 0x27 _ (by decide)]
        simp only [show (0x27 : UInt8).toNat = 0x27 from rfl, and_self, if_true]
        cases f with
        | zero => simp at hf
        | succ f' =>
          have hsz : rawBody (f' + 1) (rawSpell cs ++ 0x27 :: rest) = some (cs, rest) :=
            rawBody_rawSpell cs rest (f' + 1) hacs hokcs (by simp at hf; omega)
          rw [hsz]; rfl
      · simp only [rawSpell, hq, if_false, List.cons_append] at hf ⊢
        rw [rawBody_step f c _ hc]
        simp only [hq, if_false]
        have ih := rawBody_rawSpell cs rest f hacs hokcs (by simp at hf; omega)
        cases hnext : rawSpell cs ++ 0x27 :: rest with
        | nil => simp at hnext
        | cons d ds =>
          simp only []
          have hcond : ¬ (c = 0x5C ∧ (decodeRune (d :: ds)).1 = 0x27) := by
            rintro ⟨hb, hd⟩
            subst hb
            cases cs with
            | nil => exact hok rfl
            | cons e es =>
              have hne' : d ≠ 0x27 := rawSpell_head_ne e es _ d ds hnext
              have hd80 : d < 0x80 := by
                rcases rawSpell_head_eq e es _ d ds hnext with h | h
                · rw [h]; decide
                · rw [h]; exact hacs e (by simp)
              rw [decodeRune_ascii d _ hd80] at hd
              exact hne' ((toNat_eq_iff d 0x27 (by decide)).mp hd)
          rw [if_neg hcond, ← hnext, ih]
          rfl

/-- With the fuel `tokenize` gives the scanner (the length of what follows the opening quote). -/
theorem rawBody_rawSpell' (s rest : Bytes) (ha : Ascii s) (hok : RawEndOK s) :
    rawBody (rawSpell s ++ 0x27 :: rest).length (rawSpell s ++ 0x27 :: rest) = some (s, rest) :=
  rawBody_rawSpell s rest _ ha hok (by simp)

end Jmes.Lexer

namespace Jmes.Lexer
open Jmes.Utf8

/-- Spelling of JSON text inside a backtick literal: ` is written \`. -/
def btSpell : Bytes → Bytes
  | [] => []
  | c :: cs => if c = 0x60 then 0x5C :: 0x60 :: btSpell cs else c :: btSpell cs

theorem btSpell_head_ne (cs : Bytes) : ∀ d ds, btSpell cs = d :: ds → d ≠ 0x60 := by
  intro d ds h
  cases cs with
  | nil => simp [btSpell] at h
  | cons c cs' =>
    simp only [btSpell] at h
    split at h
    · simp at h; rw [← h.1]; decide
    · rename_i hc; simp at h; rw [← h.1]; exact hc

/-- `strings.Replace(value, "\\`", "`", -1)` undoes the spelling, for every text. -/
theorem unescapeBacktick_btSpell : ∀ x : Bytes, unescapeBacktick (btSpell x) = x
  | [] => rfl
  | c :: cs => by
    have ih := unescapeBacktick_btSpell cs
    by_cases hc : c = 0x60
    · subst hc
      simp only [btSpell, if_true, unescapeBacktick, and_self, ih]
    · simp only [btSpell, hc, if_false]
      cases hs : btSpell cs with
      | nil => rw [hs] at ih; simp [unescapeBacktick] at ih ⊢; exact ih
      | cons d ds =>
        have hd := btSpell_head_ne cs d ds hs
        rw [hs] at ih
        simp only [unescapeBacktick, hd, and_false, if_false, ih]

/-- Content made of units: a plain ASCII byte other than the delimiter and the
    backslash, a backslash followed by any ASCII byte, or a well-formed multi-byte rune. -/
inductive Units (endc : UInt8) : Bytes → Prop where
  | nil : Units endc []
  | plain (c : UInt8) (rest : Bytes) : c < 0x80 → c ≠ endc → c ≠ 0x5C → Units endc rest → Units endc (c :: rest)
  | esc (d : UInt8) (rest : Bytes) : d < 0x80 → Units endc rest → Units endc (0x5C :: d :: rest)
  | multi (c : UInt8) (cs : Bytes) : 1 < (decodeRune (c :: cs)).2 → 0x80 ≤ (decodeRune (c :: cs)).1 →
      Units endc ((c :: cs).drop (decodeRune (c :: cs)).2) → Units endc (c :: cs)

/-- C14 (delimiter scan): on content made of units, `consumeUntil` returns
    exactly the content and leaves what follows the closing delimiter. -/
theorem consumeUntil_units (endc : UInt8) (he : endc < 0x80) (hne : endc ≠ 0x5C) :
    ∀ (body : Bytes), Units endc body → ∀ (rest : Bytes) (fuel : Nat), body.length < fuel →
      consumeUntil endc.toNat fuel (body ++ endc :: rest) = some (body, rest) := by
  intro body hu
  induction hu with
  | nil =>
    intro rest fuel hf
    cases fuel with
    | zero => simp at hf
    | succ f => simp [consumeUntil, decodeRune_ascii endc rest he]
  | plain c tl hc hce hcb _ ih =>
    intro rest fuel hf
    cases fuel with
    | zero => simp at hf
    | succ f =>
      have h1 : ¬ c.toNat = endc.toNat := fun h => hce (UInt8.toNat_inj.mp h)
      have h2 : ¬ c.toNat = 0x5C := fun h => hcb ((toNat_eq_iff c 0x5C (by decide)).mp h)
      simp only [List.cons_append, consumeUntil, decodeRune_ascii c _ hc, h1, h2, if_false,
        List.drop_one, List.tail_cons, List.take_succ_cons, List.take_zero]
      rw [ih rest f (by simp at hf; omega)]
      rfl
  | esc d tl hd _ ih =>
    intro rest fuel hf
    cases fuel with
    | zero => simp at hf
    | succ f =>
      have h1 : ¬ (92 : Nat) = endc.toNat := fun h => hne ((toNat_eq_iff endc 92 (by decide)).mp h.symm)
      simp only [List.cons_append, consumeUntil, decodeRune_ascii 0x5C _ (by decide), h1, if_false,
        show (0x5C : UInt8).toNat = 0x5C from rfl, if_true, List.drop_one, List.tail_cons,
        decodeRune_ascii d _ hd, List.take_succ_cons, List.take_zero]
      rw [ih rest f (by simp at hf; omega)]
      simp

  | multi c cs hw hge _ ih =>
    intro rest fuel hf
    cases fuel with
    | zero => simp at hf
    | succ f =>
      have hle := width_le c cs
      have hdec : decodeRune (c :: cs ++ endc :: rest) = decodeRune (c :: cs) := by
        have := decode_take c cs ((c :: cs).drop (decodeRune (c :: cs)).2 ++ endc :: rest) hw
        rw [← List.append_assoc, List.take_append_drop] at this
        exact this
      have hen : endc.toNat < 0x80 := by simpa [UInt8.lt_iff_toNat_lt] using he
      have h1 : ¬ (decodeRune (c :: cs)).1 = endc.toNat := by omega
      have h2 : ¬ (decodeRune (c :: cs)).1 = 0x5C := by omega
      have hdrop : (c :: cs ++ endc :: rest).drop (decodeRune (c :: cs)).2 = (c :: cs).drop (decodeRune (c :: cs)).2 ++ endc :: rest :=
        List.drop_append_of_le_length hle
      have htake : (c :: cs ++ endc :: rest).take (decodeRune (c :: cs)).2 = (c :: cs).take (decodeRune (c :: cs)).2 :=
        List.take_append_of_le_length hle
      have hunf : consumeUntil endc.toNat (f + 1) (c :: cs ++ endc :: rest) =
          (if (decodeRune (c :: cs ++ endc :: rest)).1 = endc.toNat then some ([], (c :: cs ++ endc :: rest).drop (decodeRune (c :: cs ++ endc :: rest)).2)
           else if (decodeRune (c :: cs ++ endc :: rest)).1 = 0x5C then
             match (c :: cs ++ endc :: rest).drop (decodeRune (c :: cs ++ endc :: rest)).2 with
             | [] => none
             | s' => (consumeUntil endc.toNat f (s'.drop (decodeRune s').2)).map
                 (fun (v, r) => ((c :: cs ++ endc :: rest).take (decodeRune (c :: cs ++ endc :: rest)).2 ++ s'.take (decodeRune s').2 ++ v, r))
           else (consumeUntil endc.toNat f ((c :: cs ++ endc :: rest).drop (decodeRune (c :: cs ++ endc :: rest)).2)).map
             (fun (v, r) => ((c :: cs ++ endc :: rest).take (decodeRune (c :: cs ++ endc :: rest)).2 ++ v, r))) := by
        show consumeUntil endc.toNat (f + 1) (c :: (cs ++ endc :: rest)) = _
        simp only [consumeUntil]
        rfl
      rw [hunf, hdec]
      simp only [h1, h2, if_false, hdrop, htake]
      rw [ih rest f (by simp only [List.length_drop, List.length_cons] at hf ⊢; omega)]
      simp only [Option.map, List.take_append_drop]

end Jmes.Lexer
