/-
  Proofs.Utf8 — `EncodeRune` inverts `DecodeRune` on well-formed multi-byte
  sequences (the bit arithmetic of UTF-8), by exhaustive kernel evaluation over
  bytes for the two-byte form and by arithmetic for the longer ones.
-/
import Jmes.Utf8
namespace Jmes.Utf8

theorem forall_uint8' (P : UInt8 → Prop) (h : ∀ n : Fin 256, P (UInt8.ofNat n.val)) : ∀ c : UInt8, P c := by
  intro c
  have := h ⟨c.toNat, c.toNat_lt⟩
  simpa using this

set_option maxRecDepth 100000 in
theorem two_byte : ∀ s0 s1 : UInt8, 0xC2 ≤ s0 → s0 < 0xE0 → isCont s1 = true →
    encodeRune ((s0.toNat &&& 0x1F) <<< 6 ||| (s1.toNat &&& 0x3F)) = [s0, s1] ∧
    0x80 ≤ ((s0.toNat &&& 0x1F) <<< 6 ||| (s1.toNat &&& 0x3F)) := by
  apply forall_uint8'
  intro n
  apply forall_uint8'
  revert n
  decide +kernel

theorem or_eq_add (a b i : Nat) (hb : b < 2 ^ i) (ha : a % 2 ^ i = 0) : a ||| b = a + b := by
  have : a = (a / 2 ^ i) <<< i := by
    rw [Nat.shiftLeft_eq, Nat.div_mul_cancel (Nat.dvd_of_mod_eq_zero ha)]
  rw [this, ← Nat.shiftLeft_add_eq_or_of_lt hb]

/-- masks and tags on single bytes, by exhaustive evaluation -/
theorem cont_mask : ∀ c : UInt8, isCont c = true → c.toNat &&& 0x3F = c.toNat - 0x80 ∧ 0x80 ≤ c.toNat ∧ c.toNat ≤ 0xBF := by
  apply forall_uint8'; decide +kernel

theorem lead3_mask : ∀ c : UInt8, 0xE0 ≤ c → c < 0xF0 → c.toNat &&& 0x0F = c.toNat - 0xE0 ∧ 0xE0 ≤ c.toNat ∧ c.toNat ≤ 0xEF := by
  apply forall_uint8'; decide +kernel

theorem lead4_mask : ∀ c : UInt8, 0xF0 ≤ c → c < 0xF5 → c.toNat &&& 0x07 = c.toNat - 0xF0 ∧ 0xF0 ≤ c.toNat ∧ c.toNat ≤ 0xF4 := by
  apply forall_uint8'; decide +kernel

theorem tag_or_3 : ∀ x : Fin 16, (0xE0 ||| x.val) = 0xE0 + x.val := by decide +kernel
theorem tag_or_4 : ∀ x : Fin 8, (0xF0 ||| x.val) = 0xF0 + x.val := by decide +kernel
theorem tag_or_c : ∀ x : Fin 64, (0x80 ||| x.val) = 0x80 + x.val := by decide +kernel

theorem toUInt8_toNat_sub (c : UInt8) (k : Nat) (h : k ≤ c.toNat) : (k + (c.toNat - k)).toUInt8 = c := by
  rw [Nat.add_sub_cancel' h]; simp

theorem le_iff_toNat (a b : UInt8) : a ≤ b ↔ a.toNat ≤ b.toNat := UInt8.le_iff_toNat_le
theorem lt_iff_toNat (a b : UInt8) : a < b ↔ a.toNat < b.toNat := UInt8.lt_iff_toNat_lt

/-- three-byte form -/
theorem three_byte (s0 s1 s2 : UInt8) (h0 : 0xE0 ≤ s0) (h0' : s0 < 0xF0)
    (hlo : (if s0 = 0xE0 then (0xA0 : UInt8) else 0x80) ≤ s1) (hhi : s1 ≤ (if s0 = 0xED then (0x9F : UInt8) else 0xBF))
    (h2 : isCont s2 = true) :
    encodeRune ((s0.toNat &&& 0x0F) <<< 12 ||| (s1.toNat &&& 0x3F) <<< 6 ||| (s2.toNat &&& 0x3F)) = [s0, s1, s2] ∧
    0x80 ≤ ((s0.toNat &&& 0x0F) <<< 12 ||| (s1.toNat &&& 0x3F) <<< 6 ||| (s2.toNat &&& 0x3F)) := by
  have hc1 : isCont s1 = true := by
    simp only [isCont, Bool.and_eq_true, decide_eq_true_eq]
    rw [le_iff_toNat] at hlo hhi
    rw [le_iff_toNat, le_iff_toNat]
    split at hlo <;> split at hhi <;> simp at hlo hhi ⊢ <;> omega
  obtain ⟨m0, l0, u0⟩ := lead3_mask s0 h0 h0'
  obtain ⟨m1, l1, u1⟩ := cont_mask s1 hc1
  obtain ⟨m2, l2, u2⟩ := cont_mask s2 h2
  rw [m0, m1, m2]
  generalize hx : s0.toNat - 0xE0 = x
  generalize hy : s1.toNat - 0x80 = y
  generalize hz : s2.toNat - 0x80 = z
  have hxb : x < 16 := by omega
  have hyb : y < 64 := by omega
  have hzb : z < 64 := by omega
  have e1 : x <<< 12 ||| y <<< 6 = x * 4096 + y * 64 := by
    rw [or_eq_add (x <<< 12) (y <<< 6) 12 (by rw [Nat.shiftLeft_eq]; omega) (by rw [Nat.shiftLeft_eq]; omega)]
    simp [Nat.shiftLeft_eq]
  have e2 : x * 4096 + y * 64 ||| z = x * 4096 + y * 64 + z := or_eq_add _ _ 6 (by omega) (by omega)
  rw [e1, e2]
  -- the ranges of the code point
  have hs0E0 : s0 = 0xE0 ↔ x = 0 := by
    constructor
    · intro h; subst h; simp at hx; omega
    · intro h; apply UInt8.toNat_inj.mp; simp; omega
  have hs0ED : s0 = 0xED ↔ x = 13 := by
    constructor
    · intro h; subst h; simp at hx; omega
    · intro h; apply UInt8.toNat_inj.mp; simp; omega
  have hy32 : x = 0 → 32 ≤ y := by
    intro h0x
    rw [if_pos (hs0E0.mpr h0x), le_iff_toNat] at hlo
    simp at hlo; omega
  have hy31 : x = 13 → y ≤ 31 := by
    intro h13
    rw [if_pos (hs0ED.mpr h13), le_iff_toNat] at hhi
    simp at hhi; omega
  generalize hr : x * 4096 + y * 64 + z = r
  have hr1 : 0x800 ≤ r := by
    by_cases h : x = 0
    · have := hy32 h; omega
    · omega
  have hr2 : r < 0x10000 := by omega
  have hr3 : ¬ (0xD800 ≤ r ∧ r ≤ 0xDFFF) := by
    by_cases h : x = 13
    · have := hy31 h; omega
    · omega
  refine ⟨?_, by omega⟩
  have c1 : ¬ r < 0x80 := by omega
  have c2 : ¬ r < 0x800 := by omega
  have c3 : ((decide (0xD800 ≤ r) && decide (r ≤ 0xDFFF)) || decide (r > 0x10FFFF)) = false := by
    simp only [Bool.or_eq_false_iff, Bool.and_eq_false_iff, decide_eq_false_iff_not]
    constructor
    · by_cases h : 0xD800 ≤ r
      · right; omega
      · left; exact h
    · omega
  simp only [encodeRune, c1, c2, if_false, c3, Bool.false_eq_true, hr2, if_true]
  have q1 : r >>> 12 = x := by rw [Nat.shiftRight_eq_div_pow]; omega
  have q2 : (r >>> 6) &&& 0x3F = y := by
    rw [Nat.shiftRight_eq_div_pow, show (0x3F : Nat) = 2 ^ 6 - 1 from rfl, Nat.and_two_pow_sub_one_eq_mod]; omega
  have q3 : r &&& 0x3F = z := by
    rw [show (0x3F : Nat) = 2 ^ 6 - 1 from rfl, Nat.and_two_pow_sub_one_eq_mod]; omega
  rw [q1, q2, q3, tag_or_3 ⟨x, hxb⟩, tag_or_c ⟨y, hyb⟩, tag_or_c ⟨z, hzb⟩]
  simp only []
  rw [← hx, ← hy, ← hz, toUInt8_toNat_sub s0 0xE0 l0, toUInt8_toNat_sub s1 0x80 l1, toUInt8_toNat_sub s2 0x80 l2]

/-- four-byte form -/
theorem four_byte (s0 s1 s2 s3 : UInt8) (h0 : 0xF0 ≤ s0) (h0' : s0 < 0xF5)
    (hlo : (if s0 = 0xF0 then (0x90 : UInt8) else 0x80) ≤ s1) (hhi : s1 ≤ (if s0 = 0xF4 then (0x8F : UInt8) else 0xBF))
    (h2 : isCont s2 = true) (h3 : isCont s3 = true) :
    encodeRune ((s0.toNat &&& 0x07) <<< 18 ||| (s1.toNat &&& 0x3F) <<< 12 ||| (s2.toNat &&& 0x3F) <<< 6 ||| (s3.toNat &&& 0x3F))
      = [s0, s1, s2, s3] ∧
    0x80 ≤ ((s0.toNat &&& 0x07) <<< 18 ||| (s1.toNat &&& 0x3F) <<< 12 ||| (s2.toNat &&& 0x3F) <<< 6 ||| (s3.toNat &&& 0x3F)) := by
  have hc1 : isCont s1 = true := by
    simp only [isCont, Bool.and_eq_true, decide_eq_true_eq]
    rw [le_iff_toNat] at hlo hhi
    rw [le_iff_toNat, le_iff_toNat]
    split at hlo <;> split at hhi <;> simp at hlo hhi ⊢ <;> omega
  obtain ⟨m0, l0, u0⟩ := lead4_mask s0 h0 h0'
  obtain ⟨m1, l1, u1⟩ := cont_mask s1 hc1
  obtain ⟨m2, l2, u2⟩ := cont_mask s2 h2
  obtain ⟨m3, l3, u3⟩ := cont_mask s3 h3
  rw [m0, m1, m2, m3]
  generalize hx : s0.toNat - 0xF0 = x
  generalize hy : s1.toNat - 0x80 = y
  generalize hz : s2.toNat - 0x80 = z
  generalize hw : s3.toNat - 0x80 = w
  have hxb : x < 8 := by omega
  have hyb : y < 64 := by omega
  have hzb : z < 64 := by omega
  have hwb : w < 64 := by omega
  have e1 : x <<< 18 ||| y <<< 12 = x * 262144 + y * 4096 := by
    rw [or_eq_add (x <<< 18) (y <<< 12) 18 (by rw [Nat.shiftLeft_eq]; omega) (by rw [Nat.shiftLeft_eq]; omega)]
    simp [Nat.shiftLeft_eq]
  have e2 : x * 262144 + y * 4096 ||| z <<< 6 = x * 262144 + y * 4096 + z * 64 := by
    rw [or_eq_add _ (z <<< 6) 12 (by rw [Nat.shiftLeft_eq]; omega) (by omega)]
    simp [Nat.shiftLeft_eq]
  have e3 : x * 262144 + y * 4096 + z * 64 ||| w = x * 262144 + y * 4096 + z * 64 + w := or_eq_add _ _ 6 (by omega) (by omega)
  rw [e1, e2, e3]
  have hs0F0 : s0 = 0xF0 ↔ x = 0 := by
    constructor
    · intro h; subst h; simp at hx; omega
    · intro h; apply UInt8.toNat_inj.mp; simp; omega
  have hs0F4 : s0 = 0xF4 ↔ x = 4 := by
    constructor
    · intro h; subst h; simp at hx; omega
    · intro h; apply UInt8.toNat_inj.mp; simp; omega
  have hy16 : x = 0 → 16 ≤ y := by
    intro h0x
    rw [if_pos (hs0F0.mpr h0x), le_iff_toNat] at hlo
    simp at hlo; omega
  have hy15 : x = 4 → y ≤ 15 := by
    intro h4
    rw [if_pos (hs0F4.mpr h4), le_iff_toNat] at hhi
    simp at hhi; omega
  have hx4 : x ≤ 4 := by omega
  generalize hr : x * 262144 + y * 4096 + z * 64 + w = r
  have hr1 : 0x10000 ≤ r := by
    by_cases h : x = 0
    · have := hy16 h; omega
    · omega
  have hr2 : r ≤ 0x10FFFF := by
    by_cases h : x = 4
    · have := hy15 h; omega
    · omega
  refine ⟨?_, by omega⟩
  have c1 : ¬ r < 0x80 := by omega
  have c2 : ¬ r < 0x800 := by omega
  have c3 : ((decide (0xD800 ≤ r) && decide (r ≤ 0xDFFF)) || decide (r > 0x10FFFF)) = false := by
    simp only [Bool.or_eq_false_iff, Bool.and_eq_false_iff, decide_eq_false_iff_not]
    constructor
    · right; omega
    · omega
  have c4 : ¬ r < 0x10000 := by omega
  simp only [encodeRune, c1, c2, if_false, c3, Bool.false_eq_true, c4]
  have q0 : r >>> 18 = x := by rw [Nat.shiftRight_eq_div_pow]; omega
  have q1 : (r >>> 12) &&& 0x3F = y := by
    rw [Nat.shiftRight_eq_div_pow, show (0x3F : Nat) = 2 ^ 6 - 1 from rfl, Nat.and_two_pow_sub_one_eq_mod]; omega
  have q2 : (r >>> 6) &&& 0x3F = z := by
    rw [Nat.shiftRight_eq_div_pow, show (0x3F : Nat) = 2 ^ 6 - 1 from rfl, Nat.and_two_pow_sub_one_eq_mod]; omega
  have q3 : r &&& 0x3F = w := by
    rw [show (0x3F : Nat) = 2 ^ 6 - 1 from rfl, Nat.and_two_pow_sub_one_eq_mod]; omega
  rw [q0, q1, q2, q3, tag_or_4 ⟨x, hxb⟩, tag_or_c ⟨y, hyb⟩, tag_or_c ⟨z, hzb⟩, tag_or_c ⟨w, hwb⟩]
  simp only []
  rw [← hx, ← hy, ← hz, ← hw, toUInt8_toNat_sub s0 0xF0 l0, toUInt8_toNat_sub s1 0x80 l1, toUInt8_toNat_sub s2 0x80 l2,
    toUInt8_toNat_sub s3 0x80 l3]

theorem decode_lt80 (c : UInt8) (rest : Bytes) (h : c < 0x80) : decodeRune (c :: rest) = (c.toNat, 1) := by
  simp [decodeRune, h]

theorem decode_ltC2 (c : UInt8) (rest : Bytes) (h1 : ¬ c < 0x80) (h2 : c < 0xC2) : decodeRune (c :: rest) = (runeError, 1) := by
  simp [decodeRune, h1, h2]

theorem decode_2 (c s1 : UInt8) (r : Bytes) (h1 : ¬ c < 0x80) (h2 : ¬ c < 0xC2) (h3 : c < 0xE0) :
    decodeRune (c :: s1 :: r) =
      if isCont s1 then ((c.toNat &&& 0x1F) <<< 6 ||| (s1.toNat &&& 0x3F), 2) else (runeError, 1) := by
  simp [decodeRune, h1, h2, h3]

theorem decode_3 (c s1 s2 : UInt8) (r : Bytes) (h1 : ¬ c < 0x80) (h2 : ¬ c < 0xC2) (h3 : ¬ c < 0xE0) (h4 : c < 0xF0) :
    decodeRune (c :: s1 :: s2 :: r) =
      if (decide ((if c = 0xE0 then (0xA0 : UInt8) else 0x80) ≤ s1) && decide (s1 ≤ (if c = 0xED then (0x9F : UInt8) else 0xBF)) && isCont s2) = true
      then ((c.toNat &&& 0x0F) <<< 12 ||| (s1.toNat &&& 0x3F) <<< 6 ||| (s2.toNat &&& 0x3F), 3) else (runeError, 1) := by
  simp only [decodeRune, h1, h2, h3, h4, if_false, if_true]

theorem decode_4 (c s1 s2 s3 : UInt8) (r : Bytes) (h1 : ¬ c < 0x80) (h2 : ¬ c < 0xC2) (h3 : ¬ c < 0xE0) (h4 : ¬ c < 0xF0)
    (h5 : c < 0xF5) :
    decodeRune (c :: s1 :: s2 :: s3 :: r) =
      if (decide ((if c = 0xF0 then (0x90 : UInt8) else 0x80) ≤ s1) && decide (s1 ≤ (if c = 0xF4 then (0x8F : UInt8) else 0xBF)) && isCont s2 && isCont s3) = true
      then ((c.toNat &&& 0x07) <<< 18 ||| (s1.toNat &&& 0x3F) <<< 12 ||| (s2.toNat &&& 0x3F) <<< 6 ||| (s3.toNat &&& 0x3F), 4)
      else (runeError, 1) := by
  simp only [decodeRune, h1, h2, h3, h4, h5, if_false, if_true]

/-- **`EncodeRune` inverts `DecodeRune`** on every well-formed multi-byte
    sequence: if decoding `c :: rest` takes more than one byte, re-encoding the
    rune gives back exactly those bytes, and the rune is not ASCII. -/
theorem encode_decode (c : UInt8) (rest : Bytes) (hw : 1 < (decodeRune (c :: rest)).2) :
    encodeRune (decodeRune (c :: rest)).1 = (c :: rest).take (decodeRune (c :: rest)).2 ∧
    0x80 ≤ (decodeRune (c :: rest)).1 := by
  by_cases h1 : c < 0x80
  · rw [decode_lt80 c rest h1] at hw; simp at hw
  by_cases h2 : c < 0xC2
  · rw [decode_ltC2 c rest h1 h2] at hw; simp at hw
  have hge : 0xC2 ≤ c := by rw [le_iff_toNat]; rw [lt_iff_toNat] at h2; simp at h2 ⊢; omega
  by_cases h3 : c < 0xE0
  · cases rest with
    | nil => simp [decodeRune, h1, h2, h3] at hw
    | cons s1 r =>
      rw [decode_2 c s1 r h1 h2 h3] at hw ⊢
      by_cases hcont : isCont s1 = true
      · simp only [hcont, if_true]
        have := two_byte c s1 hge h3 hcont
        exact ⟨by simpa using this.1, this.2⟩
      · simp [hcont] at hw
  have hge3 : 0xE0 ≤ c := by rw [le_iff_toNat]; rw [lt_iff_toNat] at h3; simp at h3 ⊢; omega
  by_cases h4 : c < 0xF0
  · match rest, hw with
    | [], hw => simp [decodeRune, h1, h2, h3, h4] at hw
    | [_], hw => simp [decodeRune, h1, h2, h3, h4] at hw
    | s1 :: s2 :: r, hw =>
      rw [decode_3 c s1 s2 r h1 h2 h3 h4] at hw ⊢
      by_cases hcond : (decide ((if c = 0xE0 then (0xA0 : UInt8) else 0x80) ≤ s1) && decide (s1 ≤ (if c = 0xED then (0x9F : UInt8) else 0xBF)) && isCont s2) = true
      · rw [if_pos hcond]
        simp only [Bool.and_eq_true, decide_eq_true_eq] at hcond
        have := three_byte c s1 s2 hge3 h4 hcond.1.1 hcond.1.2 hcond.2
        exact ⟨by simpa using this.1, this.2⟩
      · rw [if_neg hcond] at hw; simp at hw
  have hge4 : 0xF0 ≤ c := by rw [le_iff_toNat]; rw [lt_iff_toNat] at h4; simp at h4 ⊢; omega
  by_cases h5 : c < 0xF5
  · match rest, hw with
    | [], hw => simp [decodeRune, h1, h2, h3, h4, h5] at hw
    | [_], hw => simp [decodeRune, h1, h2, h3, h4, h5] at hw
    | [_, _], hw => simp [decodeRune, h1, h2, h3, h4, h5] at hw
    | s1 :: s2 :: s3 :: r, hw =>
      rw [decode_4 c s1 s2 s3 r h1 h2 h3 h4 h5] at hw ⊢
      by_cases hcond : (decide ((if c = 0xF0 then (0x90 : UInt8) else 0x80) ≤ s1) && decide (s1 ≤ (if c = 0xF4 then (0x8F : UInt8) else 0xBF)) && isCont s2 && isCont s3) = true
      · rw [if_pos hcond]
        simp only [Bool.and_eq_true, decide_eq_true_eq] at hcond
        have := four_byte c s1 s2 s3 hge4 h5 hcond.1.1.1 hcond.1.1.2 hcond.1.2 hcond.2
        exact ⟨by simpa using this.1, this.2⟩
      · rw [if_neg hcond] at hw; simp at hw
  · simp [decodeRune, h1, h2, h3, h4, h5] at hw

theorem width_le (c : UInt8) (cs : Bytes) : (decodeRune (c :: cs)).2 ≤ (c :: cs).length := by
  unfold decodeRune
  simp only []
  repeat' split
  all_goals (simp only [List.length_cons]; omega)

/-- decoding looks only at the bytes of the rune it returns -/
theorem decode_take (c : UInt8) (rest more : Bytes) (hw : 1 < (decodeRune (c :: rest)).2) :
    decodeRune ((c :: rest).take (decodeRune (c :: rest)).2 ++ more) = decodeRune (c :: rest) := by
  by_cases h1 : c < 0x80
  · rw [decode_lt80 c rest h1] at hw; simp at hw
  by_cases h2 : c < 0xC2
  · rw [decode_ltC2 c rest h1 h2] at hw; simp at hw
  by_cases h3 : c < 0xE0
  · cases rest with
    | nil => simp [decodeRune, h1, h2, h3] at hw
    | cons s1 r =>
      rw [decode_2 c s1 r h1 h2 h3] at hw ⊢
      by_cases hcont : isCont s1 = true
      · simp only [hcont, if_true, List.take_succ_cons, List.take_zero, List.cons_append, List.nil_append]
        rw [decode_2 c s1 more h1 h2 h3]; simp [hcont]
      · simp [hcont] at hw
  by_cases h4 : c < 0xF0
  · match rest, hw with
    | [], hw => simp [decodeRune, h1, h2, h3, h4] at hw
    | [_], hw => simp [decodeRune, h1, h2, h3, h4] at hw
    | s1 :: s2 :: r, hw =>
      rw [decode_3 c s1 s2 r h1 h2 h3 h4] at hw ⊢
      by_cases hcond : (decide ((if c = 0xE0 then (0xA0 : UInt8) else 0x80) ≤ s1) && decide (s1 ≤ (if c = 0xED then (0x9F : UInt8) else 0xBF)) && isCont s2) = true
      · rw [if_pos hcond]
        simp only [List.take_succ_cons, List.take_zero, List.cons_append, List.nil_append]
        rw [decode_3 c s1 s2 more h1 h2 h3 h4, if_pos hcond]
      · rw [if_neg hcond] at hw; simp at hw
  by_cases h5 : c < 0xF5
  · match rest, hw with
    | [], hw => simp [decodeRune, h1, h2, h3, h4, h5] at hw
    | [_], hw => simp [decodeRune, h1, h2, h3, h4, h5] at hw
    | [_, _], hw => simp [decodeRune, h1, h2, h3, h4, h5] at hw
    | s1 :: s2 :: s3 :: r, hw =>
      rw [decode_4 c s1 s2 s3 r h1 h2 h3 h4 h5] at hw ⊢
      by_cases hcond : (decide ((if c = 0xF0 then (0x90 : UInt8) else 0x80) ≤ s1) && decide (s1 ≤ (if c = 0xF4 then (0x8F : UInt8) else 0xBF)) && isCont s2 && isCont s3) = true
      · rw [if_pos hcond]
        simp only [List.take_succ_cons, List.take_zero, List.cons_append, List.nil_append]
        rw [decode_4 c s1 s2 s3 more h1 h2 h3 h4 h5, if_pos hcond]
      · rw [if_neg hcond] at hw; simp at hw
  · simp [decodeRune, h1, h2, h3, h4, h5] at hw

end Jmes.Utf8
