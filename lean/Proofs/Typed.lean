/-
  Proofs.Typed — the reflection paths agree with the generic paths on the JSON
  form of the document (C18): for navigational expressions, evaluating on a
  typed document and taking the JSON form of the result is evaluating on the
  JSON form of the document.
-/
import Jmes.Typed
namespace Jmes.Typed
open Jmes.Interp
variable {N : Type}

/-! ### lists, lookups -/

theorem viewList_eq_map (xs : List (TVal N)) : viewList xs = xs.map view := by
  induction xs with
  | nil => rfl
  | cons x xs ih => simp [viewList, ih]

theorem view_interfaceOf (v : TVal N) : view (interfaceOf v) = view v := by
  cases v <;> simp [interfaceOf, view]

theorem viewList_map_interfaceOf (xs : List (TVal N)) : viewList (xs.map interfaceOf) = viewList xs := by
  induction xs with
  | nil => rfl
  | cons x xs ih => simp [viewList, ih, view_interfaceOf]

theorem viewList_append (xs ys : List (TVal N)) : viewList (xs ++ ys) = viewList xs ++ viewList ys := by
  simp [viewList_eq_map]

theorem lookup_viewKVs (k : Bytes) (kvs : List (Bytes × TVal N)) :
    Val.lookup k (viewKVs kvs) = (lookupT k kvs).map view := by
  induction kvs with
  | nil => rfl
  | cons kv rest ih =>
    obtain ⟨k', v⟩ := kv
    simp only [viewKVs, Val.lookup, lookupT]
    split <;> simp [ih]

theorem lookup_insert (k k0 : Bytes) (v : Val N) (m : List (Bytes × Val N)) :
    Val.lookup k (Val.insert k0 v m) = if k0 = k then some v else Val.lookup k m := by
  induction m with
  | nil => simp [Val.insert, Val.lookup]
  | cons kv rest ih =>
    obtain ⟨k1, v1⟩ := kv
    simp only [Val.insert]
    by_cases h1 : k1 = k0
    · subst h1; simp only [if_true, Val.lookup]; split <;> rfl
    · simp only [h1, if_false]
      split
      · simp [Val.lookup]
      · simp only [Val.lookup, ih]
        by_cases h2 : k1 = k
        · subst h2; simp [Ne.symm h1]
        · simp [h2]

theorem lookup_foldl_insert (k : Bytes) (l : List (Bytes × Val N)) (hnd : (l.map (·.1)).Nodup) (acc : List (Bytes × Val N)) :
    Val.lookup k (l.foldl (fun m kv => Val.insert kv.1 kv.2 m) acc) =
      (match Val.lookup k l with | some v => some v | none => Val.lookup k acc) := by
  induction l generalizing acc with
  | nil => rfl
  | cons kv rest ih =>
    obtain ⟨k1, v1⟩ := kv
    simp only [List.map_cons, List.nodup_cons] at hnd
    simp only [List.foldl_cons, ih hnd.2, lookup_insert, Val.lookup]
    by_cases h : k1 = k
    · subst h
      have : Val.lookup k1 rest = none := by
        have hn := hnd.1
        clear ih hnd
        induction rest with
        | nil => rfl
        | cons kv2 r2 ih2 =>
          obtain ⟨k2, v2⟩ := kv2
          simp only [List.map_cons, List.mem_cons, not_or] at hn
          simp only [Val.lookup, Ne.symm hn.1, if_false]
          exact ih2 hn.2
      simp [this]
    · simp [h]

theorem foldl_insert_ne_nil (l : List (Bytes × Val N)) (acc : List (Bytes × Val N)) (h : l ≠ [] ∨ acc ≠ []) :
    l.foldl (fun m kv => Val.insert kv.1 kv.2 m) acc ≠ [] := by
  induction l generalizing acc with
  | nil => simpa using h
  | cons kv rest ih =>
    simp only [List.foldl_cons]
    apply ih
    right
    cases acc with
    | nil => simp [Val.insert]
    | cons a as =>
      obtain ⟨ka, va⟩ := a
      simp only [Val.insert]
      split
      · simp
      · split <;> simp

theorem viewKVs_insertT (k : Bytes) (v : TVal N) (m : List (Bytes × TVal N)) :
    viewKVs (insertT k v m) = Val.insert k (view v) (viewKVs m) := by
  induction m with
  | nil => rfl
  | cons kv rest ih =>
    obtain ⟨k', v'⟩ := kv
    simp only [insertT, viewKVs, Val.insert]
    split
    · rfl
    · split
      · rfl
      · simp [viewKVs, ih]

theorem viewKVs_foldl_insertT (ps : List (Bytes × TVal N)) (acc : List (Bytes × TVal N)) :
    viewKVs (ps.foldl (fun m kv => insertT kv.1 kv.2 m) acc) =
      (viewKVs ps).foldl (fun m kv => Val.insert kv.1 kv.2 m) (viewKVs acc) := by
  induction ps generalizing acc with
  | nil => rfl
  | cons kv rest ih =>
    obtain ⟨k, v⟩ := kv
    simp only [List.foldl_cons, viewKVs, ih, viewKVs_insertT]

mutual
theorem view_ofVal : (v : Val N) → view (ofVal v) = v
  | .null | .bool _ | .num _ | .str _ => rfl
  | .arr xs => by simp only [ofVal, view, viewList_ofVals xs]
  | .obj kvs => by simp only [ofVal, view, viewKVs_ofKVs kvs]
theorem viewList_ofVals : (xs : List (Val N)) → viewList (ofVals xs) = xs
  | [] => rfl
  | x :: xs => by simp only [ofVals, viewList, view_ofVal x, viewList_ofVals xs]
theorem viewKVs_ofKVs : (kvs : List (Bytes × Val N)) → viewKVs (ofKVs kvs) = kvs
  | [] => rfl
  | (k, v) :: rest => by simp only [ofKVs, viewKVs, view_ofVal v, viewKVs_ofKVs rest]
end

/-! ### well-formed typed documents -/

def isStruct : TVal N → Bool
  | .struct _ => true
  | _ => false

def notNilptr : TVal N → Bool
  | .nilptr => false
  | _ => true

mutual
/-- The documents of C18: structs have at least one field and distinct field
    names, pointers point to structs, `[]interface{}` and
    `map[string]interface{}` hold no typed nil pointer directly (the library
    itself never puts one there: everything it takes out of a struct or a typed
    slice goes through `interfaceOf`). -/
def WFT : TVal N → Prop
  | .arr xs => WFTElems xs
  | .obj kvs => WFTVals kvs
  | .struct fs => fs ≠ [] ∧ (fs.map (·.1)).Nodup ∧ WFTFields fs
  | .ptr t => isStruct t = true ∧ WFT t
  | .slice xs => WFTSlice xs
  | _ => True
def WFTElems : List (TVal N) → Prop
  | [] => True
  | x :: xs => notNilptr x = true ∧ WFT x ∧ WFTElems xs
def WFTVals : List (Bytes × TVal N) → Prop
  | [] => True
  | (_, v) :: rest => notNilptr v = true ∧ WFT v ∧ WFTVals rest
def WFTFields : List (Bytes × TVal N) → Prop
  | [] => True
  | (_, v) :: rest => WFT v ∧ WFTFields rest
def WFTSlice : List (TVal N) → Prop
  | [] => True
  | x :: xs => WFT x ∧ WFTSlice xs
end

/-- what the interpreter holds at any moment: well formed and not a typed nil -/
def Top (v : TVal N) : Prop := notNilptr v = true ∧ WFT v

theorem top_null : Top (.null : TVal N) := ⟨rfl, trivial⟩

theorem top_interfaceOf {v : TVal N} (h : WFT v) : Top (interfaceOf v) := by
  cases v <;> first | exact ⟨rfl, h⟩ | exact top_null

theorem top_elems : {xs : List (TVal N)} → WFTElems xs → ∀ x ∈ xs, Top x
  | [], _, _, h => by cases h
  | y :: ys, hw, x, h => by
    rcases List.mem_cons.mp h with rfl | h'
    · exact ⟨hw.1, hw.2.1⟩
    · exact top_elems hw.2.2 x h'

theorem elems_of_top : {xs : List (TVal N)} → (∀ x ∈ xs, Top x) → WFTElems xs
  | [], _ => trivial
  | y :: ys, h => ⟨(h y (by simp)).1, (h y (by simp)).2, elems_of_top (fun x hx => h x (by simp [hx]))⟩

theorem top_slice_elems : {xs : List (TVal N)} → WFTSlice xs → ∀ x ∈ xs.map interfaceOf, Top x
  | [], _, _, h => by cases h
  | y :: ys, hw, x, h => by
    simp only [List.map_cons, List.mem_cons] at h
    rcases h with rfl | h'
    · exact top_interfaceOf hw.1
    · exact top_slice_elems hw.2 x h'

theorem wft_lookup_field : {fs : List (Bytes × TVal N)} → WFTFields fs → ∀ k v, lookupT k fs = some v → WFT v
  | [], _, _, _, h => by cases h
  | (k', v') :: rest, hw, k, v, h => by
    simp only [lookupT] at h
    split at h
    · cases h; exact hw.1
    · exact wft_lookup_field hw.2 k v h

theorem top_lookup_val : {kvs : List (Bytes × TVal N)} → WFTVals kvs → ∀ k v, lookupT k kvs = some v → Top v
  | [], _, _, _, h => by cases h
  | (k', v') :: rest, hw, k, v, h => by
    simp only [lookupT] at h
    split at h
    · cases h; exact ⟨hw.1, hw.2.1⟩
    · exact top_lookup_val hw.2.2 k v h

/-- for the values the interpreter holds, null is recognised on the typed side as on the JSON side -/
theorem view_null_iff {v : TVal N} (h : Top v) : view v = .null ↔ v = .null := by
  obtain ⟨hn, hw⟩ := h
  cases v with
  | null => simp [view]
  | nilptr => cases hn
  | ptr t =>
    obtain ⟨hs, _⟩ := hw
    cases t <;> simp [isStruct] at hs
    simp [view]
  | _ => simp [view]

theorem view_struct_obj (fs : List (Bytes × TVal N)) :
    view (.struct fs) = .obj ((viewKVs fs).foldl (fun m kv => Val.insert kv.1 kv.2 m) []) := rfl

theorem keys_viewKVs (fs : List (Bytes × TVal N)) : (viewKVs fs).map (·.1) = fs.map (·.1) := by
  induction fs with
  | nil => rfl
  | cons kv rest ih => obtain ⟨k, v⟩ := kv; simp [viewKVs, ih]

theorem viewKVs_ne_nil {fs : List (Bytes × TVal N)} (h : fs ≠ []) : viewKVs fs ≠ [] := by
  cases fs with
  | nil => exact absurd rfl h
  | cons kv rest => obtain ⟨k, v⟩ := kv; simp [viewKVs]

/-- field access: a struct (or pointer to one) by the name as written — for
    names `cap` leaves alone — is the JSON object's member -/
theorem view_fieldT (cap : Bytes → Bytes) (k : Bytes) (hk : cap k = k) {d : TVal N} (h : Top d) :
    view (fieldT cap k d) = (match view d with | .obj kvs => (Val.lookup k kvs).getD .null | _ => .null) ∧
      Top (fieldT cap k d) := by
  obtain ⟨hn, hw⟩ := h
  have hstruct : ∀ fs : List (Bytes × TVal N), (fs.map (·.1)).Nodup → WFTFields fs →
      view (fieldOfStruct (cap k) fs) = (Val.lookup k ((viewKVs fs).foldl (fun m kv => Val.insert kv.1 kv.2 m) [])).getD .null ∧
        Top (fieldOfStruct (cap k) fs) := by
    intro fs hnd hwf
    rw [hk, lookup_foldl_insert k (viewKVs fs) (by rw [keys_viewKVs]; exact hnd) [], lookup_viewKVs]
    unfold fieldOfStruct
    cases hl : lookupT k fs with
    | none => simp [Val.lookup, view, top_null]
    | some v => simp [view_interfaceOf]; exact top_interfaceOf (wft_lookup_field hwf k v hl)
  cases d with
  | obj kvs =>
    simp only [fieldT, view, lookup_viewKVs]
    cases hl : lookupT k kvs with
    | none => simp [view, top_null]
    | some v => simp; exact top_lookup_val hw k v hl
  | struct fs =>
    obtain ⟨_, hnd, hwf⟩ := hw
    simp only [fieldT, view_struct_obj]
    exact hstruct fs hnd hwf
  | ptr t =>
    obtain ⟨hs, hwt⟩ := hw
    cases t <;> simp [isStruct] at hs
    rename_i fs
    obtain ⟨_, hnd, hwf⟩ := hwt
    simp only [fieldT, view, view_struct_obj]
    exact hstruct fs hnd hwf
  | nilptr => cases hn
  | _ => simp [fieldT, view, top_null]

theorem view_getD (xs : List (TVal N)) (n : Nat) : view (xs.getD n .null) = (viewList xs).getD n .null := by
  induction xs generalizing n with
  | nil => simp [viewList, view]
  | cons x xs ih =>
    cases n with
    | zero => simp [viewList]
    | succ n => simpa [viewList] using ih n

theorem viewList_length (xs : List (TVal N)) : (viewList xs).length = xs.length := by
  simp [viewList_eq_map]

theorem getD_mem_or_null (xs : List (TVal N)) (n : Nat) : xs.getD n .null = .null ∨ xs.getD n .null ∈ xs := by
  induction xs generalizing n with
  | nil => left; rfl
  | cons x xs ih =>
    cases n with
    | zero => right; simp
    | succ n =>
      rcases ih n with h | h
      · left; simpa using h
      · right; simp only [List.getD_cons_succ]; exact List.mem_cons_of_mem _ h

/-- index: generic and reflection path give the JSON array's element -/
theorem view_indexT (i : Int) {d : TVal N} (h : Top d) :
    view (indexT i d) = (match view d with | .arr xs => indexArr xs i | _ => .null) ∧ Top (indexT i d) := by
  obtain ⟨hn, hw⟩ := h
  cases d with
  | arr xs =>
    simp only [indexT, view, indexArr, viewList_length]
    generalize (if i < 0 then i + (xs.length : Int) else i) = idx
    by_cases hc : idx < (xs.length : Int) ∧ idx ≥ 0
    · rw [if_pos hc, if_pos hc]
      refine ⟨view_getD _ _, ?_⟩
      rcases getD_mem_or_null xs idx.toNat with h | h
      · rw [h]; exact top_null
      · exact top_elems hw _ h
    · rw [if_neg hc, if_neg hc]; exact ⟨rfl, top_null⟩
  | slice xs =>
    simp only [indexT, view, indexArr, viewList_length]
    generalize (if i < 0 then i + (xs.length : Int) else i) = idx
    by_cases hc : idx < (xs.length : Int) ∧ idx ≥ 0
    · rw [if_pos hc, if_pos hc]
      refine ⟨by rw [view_interfaceOf]; exact view_getD _ _, ?_⟩
      rcases getD_mem_or_null xs idx.toNat with h | h
      · rw [h]; exact top_null
      · exact top_slice_elems hw _ (List.mem_map.mpr ⟨_, h, rfl⟩)
    · rw [if_neg hc, if_neg hc]; exact ⟨rfl, top_null⟩
  | nilptr => cases hn
  | ptr t =>
    obtain ⟨hs, _⟩ := hw
    cases t <;> simp [isStruct] at hs
    simp [indexT, view, top_null]
  | _ => simp [indexT, view, top_null]

/-- what a projection iterates over -/
theorem view_elemsOf {d : TVal N} (h : Top d) :
    (match elemsOf d with
     | some xs => view d = .arr (viewList xs) ∧ ∀ x ∈ xs, Top x
     | none => ∀ ys, view d ≠ .arr ys) := by
  obtain ⟨hn, hw⟩ := h
  cases d with
  | arr xs => exact ⟨rfl, top_elems hw⟩
  | slice xs => exact ⟨by simp [view, viewList_map_interfaceOf], top_slice_elems hw⟩
  | nilptr => cases hn
  | ptr t =>
    obtain ⟨hs, _⟩ := hw
    cases t <;> simp [isStruct] at hs
    simp [elemsOf, view]
  | _ => simp [elemsOf, view]

theorem isFalse_view {d : TVal N} (h : Top d) : (view d).isFalse = isFalseT d := by
  obtain ⟨hn, hw⟩ := h
  cases d with
  | arr xs => cases xs <;> simp [view, viewList, Val.isFalse, isFalseT]
  | obj kvs => cases kvs with
    | nil => simp [view, viewKVs, Val.isFalse, isFalseT]
    | cons kv rest => obtain ⟨k, v⟩ := kv; simp [view, viewKVs, Val.isFalse, isFalseT]
  | slice xs => cases xs <;> simp [view, viewList, Val.isFalse, isFalseT]
  | struct fs =>
    have := foldl_insert_ne_nil (viewKVs fs) [] (Or.inl (viewKVs_ne_nil hw.1))
    simp only [view, Val.isFalse, isFalseT]
    cases hh : (viewKVs fs).foldl (fun m kv => Val.insert kv.1 kv.2 m) [] with
    | nil => exact absurd hh this
    | cons a as => rfl
  | nilptr => cases hn
  | ptr t =>
    obtain ⟨hs, hwt⟩ := hw
    cases t <;> simp [isStruct] at hs
    rename_i fs
    have := foldl_insert_ne_nil (viewKVs fs) [] (Or.inl (viewKVs_ne_nil hwt.1))
    simp only [view, Val.isFalse, isFalseT]
    cases hh : (viewKVs fs).foldl (fun m kv => Val.insert kv.1 kv.2 m) [] with
    | nil => exact absurd hh this
    | cons a as => rfl
  | _ => simp [view, Val.isFalse, isFalseT]

/-! ### slices are parametric in the element type -/

def Res.mapR {α β} (f : α → β) : Res α → Res β
  | .ok a => .ok (f a)
  | .err e => .err e
  | .panic s => .panic s

theorem getIdx_map {α β} (f : α → β) (xs : List α) (i : Int) : Slice.getIdx (xs.map f) i = (Slice.getIdx xs i).map f := by
  unfold Slice.getIdx; split <;> simp

theorem loopUp_map {α β} (f : α → β) (xs : List α) (stop step : Int) : ∀ (fuel : Nat) (i : Int),
    Slice.loopUp (xs.map f) stop step fuel i = Res.mapR (List.map f) (Slice.loopUp xs stop step fuel i)
  | 0, i => by simp only [Slice.loopUp]; split <;> rfl
  | fuel + 1, i => by
    simp only [Slice.loopUp, getIdx_map]
    split
    · cases Slice.getIdx xs i with
      | none => rfl
      | some x =>
        simp only [Option.map]
        split
        · rfl
        · rw [loopUp_map f xs stop step fuel]
          cases Slice.loopUp xs stop step fuel (Slice.wrap64 (i + step)) <;> rfl
    · rfl

theorem loopDown_map {α β} (f : α → β) (xs : List α) (stop step : Int) : ∀ (fuel : Nat) (i : Int),
    Slice.loopDown (xs.map f) stop step fuel i = Res.mapR (List.map f) (Slice.loopDown xs stop step fuel i)
  | 0, i => by simp only [Slice.loopDown]; split <;> rfl
  | fuel + 1, i => by
    simp only [Slice.loopDown, getIdx_map]
    split
    · cases Slice.getIdx xs i with
      | none => rfl
      | some x =>
        simp only [Option.map]
        split
        · rfl
        · rw [loopDown_map f xs stop step fuel]
          cases Slice.loopDown xs stop step fuel (Slice.wrap64 (i + step)) <;> rfl
    · rfl

theorem slice_map {α β} (f : α → β) (xs : List α) (a b c : Option Int) :
    Slice.slice (xs.map f) a b c = Res.mapR (List.map f) (Slice.slice xs a b c) := by
  unfold Slice.slice
  simp only [List.length_map]
  split
  · rfl
  · split
    · rfl
    · split
      · exact loopUp_map f xs _ _ _ _
      · exact loopDown_map f xs _ _ _ _

/-! ### flatten -/

theorem view_not_arr_of_top {v : TVal N} (h : Top v) (h1 : ∀ ys, v ≠ .arr ys) (h2 : ∀ ys, v ≠ .slice ys) : ∀ zs, view v ≠ .arr zs := by
  obtain ⟨hn, hw⟩ := h
  cases v with
  | arr xs => exact absurd rfl (h1 xs)
  | slice xs => exact absurd rfl (h2 xs)
  | nilptr => cases hn
  | ptr t =>
    obtain ⟨hs, _⟩ := hw
    cases t <;> simp [isStruct] at hs
    simp [view]
  | _ => simp [view]

theorem flattenOnce_cons_not_arr (v : Val N) (rest : List (Val N)) (h : ∀ zs, v ≠ .arr zs) :
    flattenOnce (v :: rest) = v :: flattenOnce rest := by
  cases v with
  | arr zs => exact absurd rfl (h zs)
  | _ => rfl

theorem view_flattenArr : (xs : List (TVal N)) → (∀ x ∈ xs, Top x) →
    viewList (flattenArr xs) = flattenOnce (viewList xs) ∧ ∀ y ∈ flattenArr xs, Top y
  | [], _ => ⟨rfl, fun _ h => by cases h⟩
  | x :: rest, h => by
    have ih := view_flattenArr rest (fun y hy => h y (by simp [hy]))
    have hx := h x (by simp)
    cases x with
    | arr ys =>
      simp only [flattenArr, viewList, view, flattenOnce, viewList_append, ih.1, true_and]
      intro y hy
      rcases List.mem_append.mp hy with h' | h'
      · exact top_elems hx.2 y h'
      · exact ih.2 y h'
    | slice ys =>
      simp only [flattenArr, viewList, view, flattenOnce, viewList_append, viewList_map_interfaceOf, ih.1, true_and]
      intro y hy
      rcases List.mem_append.mp hy with h' | h'
      · exact top_slice_elems hx.2 y h'
      · exact ih.2 y h'
    | null | bool _ | num _ | str _ | obj _ | struct _ | nilptr | ptr _ =>
      refine ⟨?_, ?_⟩
      · simp only [flattenArr, viewList]
        rw [flattenOnce_cons_not_arr _ _ (view_not_arr_of_top hx (by intro ys e; cases e) (by intro ys e; cases e)), ih.1]
      · intro y hy
        simp only [flattenArr, List.mem_cons] at hy
        rcases hy with rfl | h'
        · exact hx
        · exact ih.2 y h'

theorem view_flattenSlice : (xs : List (TVal N)) → WFTSlice xs →
    viewList (flattenSlice xs) = flattenOnce (viewList xs) ∧ ∀ y ∈ flattenSlice xs, Top y
  | [], _ => ⟨rfl, fun _ h => by cases h⟩
  | x :: rest, h => by
    have ih := view_flattenSlice rest h.2
    have hx : Top (interfaceOf x) := top_interfaceOf h.1
    have hv : view x = view (interfaceOf x) := (view_interfaceOf x).symm
    simp only [flattenSlice, viewList]
    rw [hv]
    cases hi : interfaceOf x with
    | arr ys =>
      rw [hi] at hx
      simp only [view, flattenOnce, viewList_append, viewList_map_interfaceOf, ih.1, true_and]
      intro y hy
      rcases List.mem_append.mp hy with h' | h'
      · obtain ⟨z, hz, rfl⟩ := List.mem_map.mp h'
        have := top_elems hx.2 z hz
        cases z <;> first | exact this | exact top_null
      · exact ih.2 y h'
    | slice ys =>
      rw [hi] at hx
      simp only [view, flattenOnce, viewList_append, viewList_map_interfaceOf, ih.1, true_and]
      intro y hy
      rcases List.mem_append.mp hy with h' | h'
      · exact top_slice_elems hx.2 y h'
      · exact ih.2 y h'
    | null | bool _ | num _ | str _ | obj _ | struct _ | nilptr | ptr _ =>
      rw [hi] at hx
      refine ⟨?_, ?_⟩
      · rw [flattenOnce_cons_not_arr _ _ (view_not_arr_of_top hx (by intro ys e; cases e) (by intro ys e; cases e))]
        simp only [viewList, ih.1]
      · intro y hy
        simp only [List.mem_cons] at hy
        rcases hy with rfl | h'
        · exact hx
        · exact ih.2 y h'

mutual
theorem top_ofVal : (v : Val N) → Top (ofVal v)
  | .null | .bool _ | .num _ | .str _ => ⟨rfl, trivial⟩
  | .arr xs => ⟨rfl, elemsOK_ofVals xs⟩
  | .obj kvs => ⟨rfl, valsOK_ofKVs kvs⟩
theorem elemsOK_ofVals : (xs : List (Val N)) → WFTElems (ofVals xs)
  | [] => trivial
  | x :: xs => ⟨(top_ofVal x).1, (top_ofVal x).2, elemsOK_ofVals xs⟩
theorem valsOK_ofKVs : (kvs : List (Bytes × Val N)) → WFTVals (ofKVs kvs)
  | [] => trivial
  | (_, v) :: rest => ⟨(top_ofVal v).1, (top_ofVal v).2, valsOK_ofKVs rest⟩
end

theorem vals_of_top : {kvs : List (Bytes × TVal N)} → (∀ kv ∈ kvs, Top kv.2) → WFTVals kvs
  | [], _ => trivial
  | (k, v) :: rest, h => ⟨(h (k, v) (by simp)).1, (h (k, v) (by simp)).2, vals_of_top (fun x hx => h x (by simp [hx]))⟩

theorem insertT_top (k : Bytes) (v : TVal N) (hv : Top v) : (m : List (Bytes × TVal N)) → (∀ kv ∈ m, Top kv.2) →
    ∀ kv ∈ insertT k v m, Top kv.2
  | [], _, kv, h => by simp [insertT] at h; subst h; exact hv
  | (k', v') :: rest, hm, kv, h => by
    simp only [insertT] at h
    split at h
    · rcases List.mem_cons.mp h with rfl | h'
      · exact hv
      · exact hm kv (by simp [h'])
    · split at h
      · rcases List.mem_cons.mp h with rfl | h'
        · exact hv
        · exact hm kv h'
      · rcases List.mem_cons.mp h with rfl | h'
        · exact hm _ (by simp)
        · exact insertT_top k v hv rest (fun x hx => hm x (by simp [hx])) kv h'

theorem foldl_insertT_top (ps : List (Bytes × TVal N)) (acc : List (Bytes × TVal N)) (hps : ∀ kv ∈ ps, Top kv.2)
    (hacc : ∀ kv ∈ acc, Top kv.2) : ∀ kv ∈ ps.foldl (fun m kv => insertT kv.1 kv.2 m) acc, Top kv.2 := by
  induction ps generalizing acc with
  | nil => exact hacc
  | cons p rest ih =>
    simp only [List.foldl_cons]
    exact ih _ (fun x hx => hps x (by simp [hx])) (insertT_top p.1 p.2 (hps p (by simp)) acc hacc)

/-! ### the relation between typed and generic evaluation -/

def Rel (rt : Res (TVal N)) (rv : Res (Val N)) : Prop :=
  match rt, rv with
  | .ok r, .ok v => v = view r ∧ Top r
  | .err a, .err b => a = b
  | .panic a, .panic b => a = b
  | _, _ => False

def RelList (rt : Res (List (TVal N))) (rv : Res (List (Val N))) : Prop :=
  match rt, rv with
  | .ok r, .ok v => v = viewList r ∧ ∀ t ∈ r, Top t
  | .err a, .err b => a = b
  | .panic a, .panic b => a = b
  | _, _ => False

def RelKVs (rt : Res (List (Bytes × TVal N))) (rv : Res (List (Bytes × Val N))) : Prop :=
  match rt, rv with
  | .ok r, .ok v => v = viewKVs r ∧ ∀ kv ∈ r, Top kv.2
  | .err a, .err b => a = b
  | .panic a, .panic b => a = b
  | _, _ => False

theorem keep_rel {y : TVal N} {ys : List (TVal N)} (hty : Top y) (htys : ∀ t ∈ ys, Top t) :
    (match view y with | .null => viewList ys | _ => view y :: viewList ys) = viewList (keepNonNull y ys) ∧
      ∀ t ∈ keepNonNull y ys, Top t := by
  by_cases hnull : y = .null
  · subst hnull; exact ⟨rfl, htys⟩
  · have hv : view y ≠ .null := fun e => hnull ((view_null_iff hty).mp e)
    have e1 : keepNonNull y ys = y :: ys := by cases y <;> first | rfl | exact absurd rfl hnull
    rw [e1]
    simp only [viewList]
    refine ⟨?_, ?_⟩
    · cases hvy : view y with
      | null => exact absurd hvy hv
      | _ => simp
    · intro t ht
      rcases List.mem_cons.mp ht with rfl | h'
      · exact hty
      · exact htys t h'

theorem projectLoop_rel (fT : TVal N → Res (TVal N)) (f : Val N → Res (Val N))
    (hf : ∀ x, Top x → Rel (fT x) (f (view x))) : (xs : List (TVal N)) → (∀ x ∈ xs, Top x) →
    RelList (projectLoopT fT xs) (projectLoop f (viewList xs))
  | [], _ => ⟨rfl, fun _ h => by cases h⟩
  | x :: rest, hx => by
    have h1 := hf x (hx x (by simp))
    have ih := projectLoop_rel fT f hf rest (fun y hy => hx y (by simp [hy]))
    simp only [projectLoopT, viewList, projectLoop]
    cases hfx : fT x with
    | ok y =>
      rw [hfx] at h1
      cases hgx : f (view x) with
      | ok v =>
        rw [hgx] at h1
        obtain ⟨rfl, hty⟩ := h1
        cases hl : projectLoopT fT rest with
        | ok ys =>
          rw [hl] at ih
          cases hr : projectLoop f (viewList rest) with
          | ok vs =>
            rw [hr] at ih
            obtain ⟨rfl, htys⟩ := ih
            simp only [RelList]
            exact keep_rel hty htys
          | err e => rw [hr] at ih; exact ih.elim
          | panic s => rw [hr] at ih; exact ih.elim
        | err e =>
          rw [hl] at ih
          cases hr : projectLoop f (viewList rest) <;> rw [hr] at ih <;> first | exact ih.elim | exact ih
        | panic s =>
          rw [hl] at ih
          cases hr : projectLoop f (viewList rest) <;> rw [hr] at ih <;> first | exact ih.elim | exact ih
      | err e => rw [hgx] at h1; exact h1.elim
      | panic s => rw [hgx] at h1; exact h1.elim
    | err e =>
      rw [hfx] at h1
      cases hgx : f (view x) <;> rw [hgx] at h1 <;> first | exact h1.elim | exact h1
    | panic s =>
      rw [hfx] at h1
      cases hgx : f (view x) <;> rw [hgx] at h1 <;> first | exact h1.elim | exact h1

theorem filterLoop_rel (cT rT : TVal N → Res (TVal N)) (c r : Val N → Res (Val N))
    (hc : ∀ x, Top x → Rel (cT x) (c (view x))) (hr : ∀ x, Top x → Rel (rT x) (r (view x))) :
    (xs : List (TVal N)) → (∀ x ∈ xs, Top x) → RelList (filterLoopT cT rT xs) (filterLoop c r (viewList xs))
  | [], _ => ⟨rfl, fun _ h => by cases h⟩
  | x :: rest, hx => by
    have htx := hx x (by simp)
    have h1 := hc x htx
    have h2 := hr x htx
    have ih := filterLoop_rel cT rT c r hc hr rest (fun y hy => hx y (by simp [hy]))
    simp only [filterLoopT, viewList, filterLoop]
    cases hcx : cT x with
    | ok cv =>
      rw [hcx] at h1
      cases hgx : c (view x) with
      | ok v =>
        rw [hgx] at h1
        obtain ⟨rfl, htc⟩ := h1
        simp only [isFalse_view htc]
        by_cases hfalse : isFalseT cv = true
        · simp only [hfalse, Bool.not_true, Bool.false_eq_true, if_false]; exact ih
        · have hf' : isFalseT cv = false := by simpa using hfalse
          simp only [hf', Bool.not_false, if_true]
          cases hrx : rT x with
          | ok y =>
            rw [hrx] at h2
            cases hgr : r (view x) with
            | ok v2 =>
              rw [hgr] at h2
              obtain ⟨rfl, hty⟩ := h2
              cases hl : filterLoopT cT rT rest with
              | ok ys =>
                rw [hl] at ih
                cases hrr : filterLoop c r (viewList rest) with
                | ok vs =>
                  rw [hrr] at ih
                  obtain ⟨rfl, htys⟩ := ih
                  simp only [RelList]
                  exact keep_rel hty htys
                | err e => rw [hrr] at ih; exact ih.elim
                | panic s => rw [hrr] at ih; exact ih.elim
              | err e =>
                rw [hl] at ih
                cases hrr : filterLoop c r (viewList rest) <;> rw [hrr] at ih <;> first | exact ih.elim | exact ih
              | panic s =>
                rw [hl] at ih
                cases hrr : filterLoop c r (viewList rest) <;> rw [hrr] at ih <;> first | exact ih.elim | exact ih
            | err e => rw [hgr] at h2; exact h2.elim
            | panic s => rw [hgr] at h2; exact h2.elim
          | err e =>
            rw [hrx] at h2
            cases hgr : r (view x) <;> rw [hgr] at h2 <;> first | exact h2.elim | exact h2
          | panic s =>
            rw [hrx] at h2
            cases hgr : r (view x) <;> rw [hgr] at h2 <;> first | exact h2.elim | exact h2
      | err e => rw [hgx] at h1; exact h1.elim
      | panic s => rw [hgx] at h1; exact h1.elim
    | err e =>
      rw [hcx] at h1
      cases hgx : c (view x) <;> rw [hgx] at h1 <;> first | exact h1.elim | exact h1
    | panic s =>
      rw [hcx] at h1
      cases hgx : c (view x) <;> rw [hgx] at h1 <;> first | exact h1.elim | exact h1

/-! ### slices select elements of their input -/

theorem getIdx_mem {α} (xs : List α) (i : Int) (x : α) (h : Slice.getIdx xs i = some x) : x ∈ xs := by
  unfold Slice.getIdx at h
  split at h
  · cases h
  · exact List.mem_of_getElem? h

theorem loopUp_mem {α} (xs : List α) (stop step : Int) : ∀ (fuel : Nat) (i : Int) (ys : List α),
    Slice.loopUp xs stop step fuel i = .ok ys → ∀ y ∈ ys, y ∈ xs
  | 0, i, ys, h => by
    simp only [Slice.loopUp] at h
    split at h
    · cases h
    · cases h; intro y hy; cases hy
  | fuel + 1, i, ys, h => by
    simp only [Slice.loopUp] at h
    split at h
    · cases hg : Slice.getIdx xs i with
      | none => rw [hg] at h; cases h
      | some x =>
        rw [hg] at h
        simp only at h
        split at h
        · cases h; intro y hy; simp at hy; subst hy; exact getIdx_mem xs i _ hg
        · cases hl : Slice.loopUp xs stop step fuel (Slice.wrap64 (i + step)) with
          | ok r =>
            rw [hl] at h; cases h
            intro y hy
            rcases List.mem_cons.mp hy with rfl | h'
            · exact getIdx_mem xs i _ hg
            · exact loopUp_mem xs stop step fuel _ r hl y h'
          | err e => rw [hl] at h; cases h
          | panic s => rw [hl] at h; cases h
    · cases h; intro y hy; cases hy

theorem loopDown_mem {α} (xs : List α) (stop step : Int) : ∀ (fuel : Nat) (i : Int) (ys : List α),
    Slice.loopDown xs stop step fuel i = .ok ys → ∀ y ∈ ys, y ∈ xs
  | 0, i, ys, h => by
    simp only [Slice.loopDown] at h
    split at h
    · cases h
    · cases h; intro y hy; cases hy
  | fuel + 1, i, ys, h => by
    simp only [Slice.loopDown] at h
    split at h
    · cases hg : Slice.getIdx xs i with
      | none => rw [hg] at h; cases h
      | some x =>
        rw [hg] at h
        simp only at h
        split at h
        · cases h; intro y hy; simp at hy; subst hy; exact getIdx_mem xs i _ hg
        · cases hl : Slice.loopDown xs stop step fuel (Slice.wrap64 (i + step)) with
          | ok r =>
            rw [hl] at h; cases h
            intro y hy
            rcases List.mem_cons.mp hy with rfl | h'
            · exact getIdx_mem xs i _ hg
            · exact loopDown_mem xs stop step fuel _ r hl y h'
          | err e => rw [hl] at h; cases h
          | panic s => rw [hl] at h; cases h
    · cases h; intro y hy; cases hy

theorem slice_mem {α} (xs : List α) (a b c : Option Int) (ys : List α) (h : Slice.slice xs a b c = .ok ys) :
    ∀ y ∈ ys, y ∈ xs := by
  unfold Slice.slice at h
  split at h
  · cases h
  · split at h
    · cases h
    · split at h
      · exact loopUp_mem xs _ _ _ _ ys h
      · exact loopDown_mem xs _ _ _ _ ys h

/-! ### the navigational fragment and the main theorem -/

mutual
/-- Navigational expressions whose field names `cap` leaves alone (names that
    are already capitalised: the JSON form of a struct carries its Go field names). -/
def Nav (cap : Bytes → Bytes) : Node N → Bool
  | .current | .identity | .literal _ | .index _ | .slice _ _ _ => true
  | .field k => cap k == k
  | .indexExpr l r | .sub l r | .pipe l r | .or l r | .and l r | .proj l r => Nav cap l && Nav cap r
  | .flatten e | .not e => Nav cap e
  | .filterProj l r c => Nav cap l && Nav cap r && Nav cap c
  | .msList xs => NavList cap xs
  | .msHash kvs => NavKVs cap kvs
  | _ => false
def NavList (cap : Bytes → Bytes) : List (Node N) → Bool
  | [] => true
  | x :: xs => Nav cap x && NavList cap xs
def NavKVs (cap : Bytes → Bytes) : List (Bytes × Node N) → Bool
  | [] => true
  | (_, x) :: rest => Nav cap x && NavKVs cap rest
end

variable [NumOps N]

theorem rel_bind {rt : Res (TVal N)} {rv : Res (Val N)}
    {kT : TVal N → Res (TVal N)} {kV : Val N → Res (Val N)} : Rel rt rv → (∀ t, Top t → Rel (kT t) (kV (view t))) →
    Rel (match rt with | .ok v => kT v | e => e) (match rv with | .ok v => kV v | e => e) := by
  intro h hk
  cases rt with
  | ok t =>
    cases rv with
    | ok v => obtain ⟨rfl, ht⟩ := h; exact hk t ht
    | err e => exact h.elim
    | panic s => exact h.elim
  | err e => cases rv <;> first | exact h.elim | exact h
  | panic s => cases rv <;> first | exact h.elim | exact h

theorem null_match_view {d : TVal N} {α} (a b : α) : Top d →
    (match view d with | .null => a | _ => b) = (match d with | .null => a | _ => b) := by
  intro h
  by_cases hn : d = .null
  · subst hn; rfl
  · have hv : view d ≠ .null := fun e => hn ((view_null_iff h).mp e)
    cases hvd : view d with
    | null => exact absurd hvd hv
    | _ => cases d <;> first | rfl | exact absurd rfl hn

theorem eval_msList (ft : List FnEntry) (xs : List (Node N)) (v : Val N) (hv : v ≠ .null) :
    eval ft (.msList xs) v = (match evalList ft xs v with | .ok vs => .ok (.arr vs) | .err e => .err e | .panic p => .panic p) := by
  cases v <;> first | rfl | exact absurd rfl hv

theorem eval_msHash (ft : List FnEntry) (kvs : List (Bytes × Node N)) (v : Val N) (hv : v ≠ .null) :
    eval ft (.msHash kvs) v = (match evalKVs ft kvs v with
      | .ok ps => .ok (.obj (ps.foldl (fun m kv => Val.insert kv.1 kv.2 m) [])) | .err e => .err e | .panic p => .panic p) := by
  cases v <;> first | rfl | exact absurd rfl hv

theorem evalT_msList (cap : Bytes → Bytes) (xs : List (Node N)) (d : TVal N) (hd : d ≠ .null) :
    evalT cap (.msList xs) d = (match evalTList cap xs d with | .ok vs => .ok (.arr vs) | .err e => .err e | .panic p => .panic p) := by
  cases d <;> first | rfl | exact absurd rfl hd

theorem evalT_msHash (cap : Bytes → Bytes) (kvs : List (Bytes × Node N)) (d : TVal N) (hd : d ≠ .null) :
    evalT cap (.msHash kvs) d = (match evalTKVs cap kvs d with
      | .ok ps => .ok (.obj (ps.foldl (fun m kv => insertT kv.1 kv.2 m) [])) | .err e => .err e | .panic p => .panic p) := by
  cases d <;> first | rfl | exact absurd rfl hd

mutual
/-- **C18, navigation.**  On every well-formed typed document, a navigational
    expression evaluates — success, error and result alike — as it does on the
    document's JSON form. -/
theorem evalT_rel (cap : Bytes → Bytes) (ft : List FnEntry) : (e : Node N) → Nav cap e = true → ∀ d, Top d →
    Rel (evalT cap e d) (eval ft e (view d))
  | .current, _, d, hd => ⟨rfl, hd⟩
  | .identity, _, d, hd => ⟨rfl, hd⟩
  | .literal v, _, d, _ => by
    simp only [evalT, eval]
    exact ⟨(view_ofVal v).symm, top_ofVal v⟩
  | .field k, hn, d, hd => by
    have hk : cap k = k := by simpa [Nav] using hn
    have := view_fieldT cap k hk hd
    simp only [evalT, eval]
    cases hv : view d with
    | obj kvs => rw [hv] at this; exact ⟨this.1.symm, this.2⟩
    | _ => rw [hv] at this; exact ⟨this.1.symm, this.2⟩
  | .index i, _, d, hd => by
    have := view_indexT i hd
    simp only [evalT, eval]
    cases hv : view d with
    | arr xs => rw [hv] at this; exact ⟨this.1.symm, this.2⟩
    | _ => rw [hv] at this; exact ⟨this.1.symm, this.2⟩
  | .indexExpr l r, hn, d, hd => by
    simp only [Nav, Bool.and_eq_true] at hn
    simp only [evalT, eval]
    exact rel_bind (evalT_rel cap ft l hn.1 d hd) (fun t ht => evalT_rel cap ft r hn.2 t ht)
  | .sub l r, hn, d, hd => by
    simp only [Nav, Bool.and_eq_true] at hn
    simp only [evalT, eval]
    exact rel_bind (evalT_rel cap ft l hn.1 d hd) (fun t ht => evalT_rel cap ft r hn.2 t ht)
  | .pipe l r, hn, d, hd => by
    simp only [Nav, Bool.and_eq_true] at hn
    simp only [evalT, eval]
    exact rel_bind (evalT_rel cap ft l hn.1 d hd) (fun t ht => evalT_rel cap ft r hn.2 t ht)
  | .slice a b c, _, d, hd => by
    have he := view_elemsOf hd
    simp only [evalT, eval]
    cases hel : elemsOf d with
    | some xs =>
      rw [hel] at he
      obtain ⟨hv, hxs⟩ := he
      rw [hv, viewList_eq_map]
      simp only []
      rw [slice_map]
      cases hs : Slice.slice xs a b c with
      | ok ys =>
        simp only [Res.mapR, Rel, view, viewList_eq_map, true_and]
        exact ⟨rfl, elems_of_top (fun y hy => hxs y (slice_mem xs a b c ys hs y hy))⟩
      | err e => simp [Res.mapR, Rel]
      | panic s => simp [Res.mapR, Rel]
    | none =>
      rw [hel] at he
      cases hv : view d with
      | arr ys => exact absurd hv (he ys)
      | _ => exact ⟨rfl, top_null⟩
  | .flatten e, hn, d, hd => by
    simp only [Nav] at hn
    have ih := evalT_rel cap ft e hn d hd
    simp only [evalT, eval]
    cases hl : evalT cap e d with
    | ok t =>
      rw [hl] at ih
      cases hr : eval ft e (view d) with
      | ok v =>
        rw [hr] at ih
        obtain ⟨rfl, ht⟩ := ih
        cases t with
        | arr xs =>
          have := view_flattenArr xs (top_elems ht.2)
          exact ⟨by simp only [view, this.1], rfl, elems_of_top this.2⟩
        | slice xs =>
          have := view_flattenSlice xs ht.2
          exact ⟨by simp only [view, this.1], rfl, elems_of_top this.2⟩
        | null | bool _ | num _ | str _ | obj _ | struct _ | nilptr | ptr _ =>
          have hna := view_not_arr_of_top ht (by intro ys e; cases e) (by intro ys e; cases e)
          simp only
          first
          | exact ⟨rfl, top_null⟩
          | (split
             · rename_i xs heq; exact absurd heq (hna xs)
             · exact ⟨rfl, top_null⟩)
      | err x => rw [hr] at ih; exact ih.elim
      | panic s => rw [hr] at ih; exact ih.elim
    | err x => rw [hl] at ih; cases hr : eval ft e (view d) <;> rw [hr] at ih <;> first | exact ih.elim | exact ih
    | panic s => rw [hl] at ih; cases hr : eval ft e (view d) <;> rw [hr] at ih <;> first | exact ih.elim | exact ih
  | .proj l r, hn, d, hd => by
    simp only [Nav, Bool.and_eq_true] at hn
    have ih := evalT_rel cap ft l hn.1 d hd
    simp only [evalT, eval]
    cases hl : evalT cap l d with
    | ok t =>
      rw [hl] at ih
      cases hr : eval ft l (view d) with
      | ok v =>
        rw [hr] at ih
        obtain ⟨rfl, ht⟩ := ih
        have he := view_elemsOf ht
        simp only []
        cases hel : elemsOf t with
        | some xs =>
          rw [hel] at he
          obtain ⟨hv, hxs⟩ := he
          rw [hv]
          have hloop := projectLoop_rel (evalT cap r) (eval ft r) (fun x hx => evalT_rel cap ft r hn.2 x hx) xs hxs
          simp only
          cases h1 : projectLoopT (evalT cap r) xs with
          | ok ys =>
            rw [h1] at hloop
            cases h2 : projectLoop (eval ft r) (viewList xs) with
            | ok vs => rw [h2] at hloop; obtain ⟨rfl, hys⟩ := hloop; exact ⟨rfl, rfl, elems_of_top hys⟩
            | err x => rw [h2] at hloop; exact hloop.elim
            | panic s => rw [h2] at hloop; exact hloop.elim
          | err x => rw [h1] at hloop; cases h2 : projectLoop (eval ft r) (viewList xs) <;> rw [h2] at hloop <;> first | exact hloop.elim | exact hloop
          | panic s => rw [h1] at hloop; cases h2 : projectLoop (eval ft r) (viewList xs) <;> rw [h2] at hloop <;> first | exact hloop.elim | exact hloop
        | none =>
          rw [hel] at he
          simp only
          first
          | exact ⟨rfl, top_null⟩
          | (split
             · rename_i zs heq; exact absurd heq (he zs)
             · exact ⟨rfl, top_null⟩)
      | err x => rw [hr] at ih; exact ih.elim
      | panic s => rw [hr] at ih; exact ih.elim
    | err x => rw [hl] at ih; cases hr : eval ft l (view d) <;> rw [hr] at ih <;> first | exact ih.elim | exact ih
    | panic s => rw [hl] at ih; cases hr : eval ft l (view d) <;> rw [hr] at ih <;> first | exact ih.elim | exact ih
  | .filterProj l r c, hn, d, hd => by
    simp only [Nav, Bool.and_eq_true] at hn
    have ih := evalT_rel cap ft l hn.1.1 d hd
    simp only [evalT, eval]
    cases hl : evalT cap l d with
    | ok t =>
      rw [hl] at ih
      cases hr : eval ft l (view d) with
      | ok v =>
        rw [hr] at ih
        obtain ⟨rfl, ht⟩ := ih
        have he := view_elemsOf ht
        simp only []
        cases hel : elemsOf t with
        | some xs =>
          rw [hel] at he
          obtain ⟨hv, hxs⟩ := he
          rw [hv]
          have hloop := filterLoop_rel (evalT cap c) (evalT cap r) (eval ft c) (eval ft r)
            (fun x hx => evalT_rel cap ft c hn.2 x hx) (fun x hx => evalT_rel cap ft r hn.1.2 x hx) xs hxs
          simp only
          cases h1 : filterLoopT (evalT cap c) (evalT cap r) xs with
          | ok ys =>
            rw [h1] at hloop
            cases h2 : filterLoop (eval ft c) (eval ft r) (viewList xs) with
            | ok vs => rw [h2] at hloop; obtain ⟨rfl, hys⟩ := hloop; exact ⟨rfl, rfl, elems_of_top hys⟩
            | err x => rw [h2] at hloop; exact hloop.elim
            | panic s => rw [h2] at hloop; exact hloop.elim
          | err x => rw [h1] at hloop; cases h2 : filterLoop (eval ft c) (eval ft r) (viewList xs) <;> rw [h2] at hloop <;> first | exact hloop.elim | exact hloop
          | panic s => rw [h1] at hloop; cases h2 : filterLoop (eval ft c) (eval ft r) (viewList xs) <;> rw [h2] at hloop <;> first | exact hloop.elim | exact hloop
        | none =>
          rw [hel] at he
          simp only
          first
          | exact ⟨rfl, top_null⟩
          | (split
             · rename_i zs heq; exact absurd heq (he zs)
             · exact ⟨rfl, top_null⟩)
      | err x => rw [hr] at ih; exact ih.elim
      | panic s => rw [hr] at ih; exact ih.elim
    | err x => rw [hl] at ih; cases hr : eval ft l (view d) <;> rw [hr] at ih <;> first | exact ih.elim | exact ih
    | panic s => rw [hl] at ih; cases hr : eval ft l (view d) <;> rw [hr] at ih <;> first | exact ih.elim | exact ih
  | .msList xs, hn, d, hd => by
    simp only [Nav] at hn
    have ih := evalTList_rel cap ft xs hn d hd
    by_cases hnull : d = .null
    · subst hnull; exact ⟨rfl, top_null⟩
    · have hv : view d ≠ .null := fun e => hnull ((view_null_iff hd).mp e)
      rw [evalT_msList cap xs d hnull, eval_msList ft xs (view d) hv]
      cases h1 : evalTList cap xs d with
      | ok ys =>
        rw [h1] at ih
        cases h2 : evalList ft xs (view d) with
        | ok vs => rw [h2] at ih; obtain ⟨rfl, hys⟩ := ih; exact ⟨rfl, rfl, elems_of_top hys⟩
        | err x => rw [h2] at ih; exact ih.elim
        | panic s => rw [h2] at ih; exact ih.elim
      | err x => rw [h1] at ih; cases h2 : evalList ft xs (view d) <;> rw [h2] at ih <;> first | exact ih.elim | exact ih
      | panic s => rw [h1] at ih; cases h2 : evalList ft xs (view d) <;> rw [h2] at ih <;> first | exact ih.elim | exact ih
  | .msHash kvs, hn, d, hd => by
    simp only [Nav] at hn
    have ih := evalTKVs_rel cap ft kvs hn d hd
    by_cases hnull : d = .null
    · subst hnull; exact ⟨rfl, top_null⟩
    · have hv : view d ≠ .null := fun e => hnull ((view_null_iff hd).mp e)
      rw [evalT_msHash cap kvs d hnull, eval_msHash ft kvs (view d) hv]
      cases h1 : evalTKVs cap kvs d with
      | ok ps =>
        rw [h1] at ih
        cases h2 : evalKVs ft kvs (view d) with
        | ok vs =>
          rw [h2] at ih
          obtain ⟨rfl, hps⟩ := ih
          refine ⟨?_, rfl, ?_⟩
          · simp only [view, viewKVs_foldl_insertT]; rfl
          · exact vals_of_top (foldl_insertT_top ps [] hps (fun _ h => by cases h))
        | err x => rw [h2] at ih; exact ih.elim
        | panic s => rw [h2] at ih; exact ih.elim
      | err x => rw [h1] at ih; cases h2 : evalKVs ft kvs (view d) <;> rw [h2] at ih <;> first | exact ih.elim | exact ih
      | panic s => rw [h1] at ih; cases h2 : evalKVs ft kvs (view d) <;> rw [h2] at ih <;> first | exact ih.elim | exact ih
  | .or l r, hn, d, hd => by
    simp only [Nav, Bool.and_eq_true] at hn
    have ih := evalT_rel cap ft l hn.1 d hd
    simp only [evalT, eval]
    refine rel_bind ih (fun t ht => ?_)
    rw [isFalse_view ht]
    split
    · exact evalT_rel cap ft r hn.2 d hd
    · exact ⟨rfl, ht⟩
  | .and l r, hn, d, hd => by
    simp only [Nav, Bool.and_eq_true] at hn
    have ih := evalT_rel cap ft l hn.1 d hd
    simp only [evalT, eval]
    refine rel_bind ih (fun t ht => ?_)
    rw [isFalse_view ht]
    split
    · exact ⟨rfl, ht⟩
    · exact evalT_rel cap ft r hn.2 d hd
  | .not e, hn, d, hd => by
    simp only [Nav] at hn
    have ih := evalT_rel cap ft e hn d hd
    simp only [evalT, eval]
    refine rel_bind ih (fun t ht => ?_)
    rw [isFalse_view ht]
    exact ⟨rfl, rfl, trivial⟩
  | .empty, hn, _, _ | .cmp _ _ _, hn, _, _ | .call _ _, hn, _, _ | .valueProj _ _, hn, _, _ => by simp [Nav] at hn
theorem evalTList_rel (cap : Bytes → Bytes) (ft : List FnEntry) : (xs : List (Node N)) → NavList cap xs = true → ∀ d, Top d →
    RelList (evalTList cap xs d) (evalList ft xs (view d))
  | [], _, _, _ => ⟨rfl, fun _ h => by cases h⟩
  | x :: rest, hn, d, hd => by
    simp only [NavList, Bool.and_eq_true] at hn
    have h1 := evalT_rel cap ft x hn.1 d hd
    have ih := evalTList_rel cap ft rest hn.2 d hd
    simp only [evalTList, evalList]
    cases hx : evalT cap x d with
    | ok t =>
      rw [hx] at h1
      cases hv : eval ft x (view d) with
      | ok v =>
        rw [hv] at h1
        obtain ⟨rfl, ht⟩ := h1
        cases hl : evalTList cap rest d with
        | ok ts =>
          rw [hl] at ih
          cases hr : evalList ft rest (view d) with
          | ok vs =>
            rw [hr] at ih
            obtain ⟨rfl, hts⟩ := ih
            refine ⟨rfl, ?_⟩
            intro y hy
            rcases List.mem_cons.mp hy with rfl | h'
            · exact ht
            · exact hts y h'
          | err e => rw [hr] at ih; exact ih.elim
          | panic s => rw [hr] at ih; exact ih.elim
        | err e => rw [hl] at ih; cases hr : evalList ft rest (view d) <;> rw [hr] at ih <;> first | exact ih.elim | exact ih
        | panic s => rw [hl] at ih; cases hr : evalList ft rest (view d) <;> rw [hr] at ih <;> first | exact ih.elim | exact ih
      | err e => rw [hv] at h1; exact h1.elim
      | panic s => rw [hv] at h1; exact h1.elim
    | err e => rw [hx] at h1; cases hv : eval ft x (view d) <;> rw [hv] at h1 <;> first | exact h1.elim | exact h1
    | panic s => rw [hx] at h1; cases hv : eval ft x (view d) <;> rw [hv] at h1 <;> first | exact h1.elim | exact h1
theorem evalTKVs_rel (cap : Bytes → Bytes) (ft : List FnEntry) : (kvs : List (Bytes × Node N)) → NavKVs cap kvs = true → ∀ d, Top d →
    RelKVs (evalTKVs cap kvs d) (evalKVs ft kvs (view d))
  | [], _, _, _ => ⟨rfl, fun _ h => by cases h⟩
  | (k, x) :: rest, hn, d, hd => by
    simp only [NavKVs, Bool.and_eq_true] at hn
    have h1 := evalT_rel cap ft x hn.1 d hd
    have ih := evalTKVs_rel cap ft rest hn.2 d hd
    simp only [evalTKVs, evalKVs]
    cases hx : evalT cap x d with
    | ok t =>
      rw [hx] at h1
      cases hv : eval ft x (view d) with
      | ok v =>
        rw [hv] at h1
        obtain ⟨rfl, ht⟩ := h1
        cases hl : evalTKVs cap rest d with
        | ok ts =>
          rw [hl] at ih
          cases hr : evalKVs ft rest (view d) with
          | ok vs =>
            rw [hr] at ih
            obtain ⟨rfl, hts⟩ := ih
            refine ⟨rfl, ?_⟩
            intro y hy
            rcases List.mem_cons.mp hy with rfl | h'
            · exact ht
            · exact hts y h'
          | err e => rw [hr] at ih; exact ih.elim
          | panic s => rw [hr] at ih; exact ih.elim
        | err e => rw [hl] at ih; cases hr : evalKVs ft rest (view d) <;> rw [hr] at ih <;> first | exact ih.elim | exact ih
        | panic s => rw [hl] at ih; cases hr : evalKVs ft rest (view d) <;> rw [hr] at ih <;> first | exact ih.elim | exact ih
      | err e => rw [hv] at h1; exact h1.elim
      | panic s => rw [hv] at h1; exact h1.elim
    | err e => rw [hx] at h1; cases hv : eval ft x (view d) <;> rw [hv] at h1 <;> first | exact h1.elim | exact h1
    | panic s => rw [hx] at h1; cases hv : eval ft x (view d) <;> rw [hv] at h1 <;> first | exact h1.elim | exact h1
end

end Jmes.Typed
