/-
  Proofs.PipeCompose — `A | B` for ARBITRARY expressions: if the token lists `A` and `B` each parse
  (to `a` and `b`), then `A`, a pipe, `B` parses, to an AST that evaluates as `b` after `a`.

  The AST is not literally `Pipe a b` when `B` itself contains pipes at its top level
  (`A | B1 | B2` is read `(A | B1) | B2`, `B1 | B2` alone is `B1 | B2`): it is a re-association,
  and pipes compose associatively.  Uses Proofs/Context.lean (`R_moves`): inside `A | B` the phrase
  `A` is read as it is read alone, and `B` is read at level 1 instead of 0.
-/
import Proofs.Context
import Jmes.Interp
namespace Jmes.Parser
open Jmes Jmes.Spec Jmes.Interp
variable {N : Type} [NumOps N]

theorem loop_stops {c : Call N} {o : Out N} (h : R T c o) :
    ∀ k left p r p1, c = .loop k left p → o = .node r p1 → ∃ t rest, p1.after = t :: rest ∧ ¬ k < T.power t.ty := by
  induction h with
  | @stop rbp left p t rest hafter hnot =>
    intro k left' p' r p1 hc ho
    injection hc with h1 h2 h3; injection ho with h4 h5
    subst h1; subst h3; subst h5
    exact ⟨t, rest, hafter, hnot⟩
  | @step rbp left p t rest left' p1 o hafter hlt _ _ _ ih2 =>
    intro k left0 p0 r p2 hc ho
    injection hc with h1 h2 h3
    subst h1
    exact ih2 _ _ _ _ _ rfl ho
  | _ => intro k left p r p1 hc; cases hc

theorem expr_stops {k : Nat} {p p1 : PState} {r : Node N} (h : R T (.expr k p) (.node r p1)) :
    ∃ t rest, p1.after = t :: rest ∧ ¬ k < T.power t.ty := by
  cases h with
  | expr hafter hnud hloop => exact loop_stops hloop _ _ _ _ _ rfl rfl

theorem bind_assoc' {α β γ} (x : Res α) (f : α → Res β) (g : β → Res γ) : ((x >>= f) >>= g) = (x >>= fun v => f v >>= g) := by
  cases x <;> rfl

theorem eval_pipe (ft : List FnEntry) (a b : Node N) (d : Val N) : eval ft (.pipe a b) d = (eval ft a d >>= eval ft b) := by
  simp only [eval]
  cases eval ft a d <;> rfl

theorem pow_one_pipe {ty : TokType} (h0 : 0 < specPow ty) (h1 : specPow ty ≤ 1) : ty = .pipe := by
  cases ty <;> simp [specPow] at h0 h1 ⊢

section
variable {A B : Around} (hA : A.e.ty = .eof) (hAr : A.rest = [])

include hA hAr in
/-- the outermost loop of a phrase: when something follows that it does not stop at, it reads the
    phrase as before and then goes on -/
theorem loop0_resume (hB : followerOK B.e.ty = true) {c : Call N} {o : Out N} (h : R T c o) :
    ∀ left p a pEnd, c = .loop 0 left p → o = .node a pEnd → pEnd.after = A.e :: A.rest →
      ∀ n p', 1 ≤ n → CRel A B n p p' →
        ∃ pEnd', CRel A B n pEnd pEnd' ∧ ∀ o', R T (.loop 0 a pEnd') o' → R T (.loop 0 left p') o' := by
  induction h with
  | @stop rbp left p t rest hafter hnot =>
    intro left0 p0 a pEnd hc ho _ n p' _ hrel
    injection hc with h1 h2 h3; injection ho with h4 h5
    subst h2; subst h3; subst h4; subst h5
    exact ⟨p', hrel, fun o' ho' => ho'⟩
  | @step rbp left p t rest left' p1 o hafter hlt hled _ _ ih2 =>
    intro left0 p0 a pEnd hc ho hend n p' hn hrel
    injection hc with h1 h2 h3
    subst h1; subst h2; subst h3
    obtain ⟨r', ha', hadv⟩ := hrel.cons hA hafter (pow_pos_ne_eof (by rw [← T_power]; exact hlt))
    obtain ⟨p1', hp1, hR1⟩ := R_moves hA hB hAr hled (n + 1) p'.advance (by simp only [need]; omega) hadv trivial
    obtain ⟨pEnd', hrel', hres⟩ := ih2 _ _ _ _ rfl ho hend (n + 1) p1' (by omega) hp1
    exact ⟨pEnd', hrel'.mono (Nat.le_succ n), fun o' ho' => R.step ha' hlt hR1 (hres o' ho')⟩
  | _ => intro left p a pEnd hc; cases hc

include hA hAr in
/-- a chain of top-level pipes, replayed with another left operand that evaluates as `G` followed by the old one -/
theorem outer_chain (hB : B.e.ty = .eof) {c : Call N} {o : Out N} (h : R T c o) :
    ∀ M q b qEnd, c = .loop 0 M q → o = .node b qEnd → qEnd.after = A.e :: A.rest →
      (∃ t rest, q.after = t :: rest ∧ T.power t.ty ≤ 1) →
      ∀ n q', 1 ≤ n → CRel A B n q q' → ∀ (M' : Node N) (G : List FnEntry → Val N → Res (Val N)),
        (∀ ft d, eval ft M' d = (G ft d >>= eval ft M)) →
        ∃ X qEnd', R T (.loop 0 M' q') (.node X qEnd') ∧ CRel A B n qEnd qEnd' ∧
          ∀ ft d, eval ft X d = (G ft d >>= eval ft b) := by
  induction h with
  | @stop rbp left p t rest hafter hnot =>
    intro M q b qEnd hc ho _ _ n q' _ hrel M' G hM
    injection hc with h1 h2 h3; injection ho with h4 h5
    subst h1; subst h2; subst h3; subst h4; subst h5
    obtain ⟨t', r', ha', ht'⟩ := hrel.peek hafter
    refine ⟨M', q', R.stop ha' ?_, hrel, hM⟩
    rcases ht' with rfl | ⟨_, _, rfl⟩
    · exact hnot
    · rw [T_power, hB]; decide
  | @step rbp left p t rest left' p1 o hafter hlt hled hloop _ ih2 =>
    intro M q b qEnd hc ho hend hnext n q' hn hrel M' G hM
    injection hc with h1 h2 h3
    subst h1; subst h2; subst h3
    obtain ⟨t2, rest2, hafter2, hle⟩ := hnext
    rw [hafter] at hafter2; injection hafter2 with e1 e2; subst e1
    have hty : t.ty = .pipe := pow_one_pipe (by rw [← T_power]; exact hlt) (by rw [← T_power]; exact hle)
    rw [hty] at hled
    cases hled with
    | @ledPipe _ _ r _ hexpr =>
      obtain ⟨r', ha', hadv⟩ := hrel.cons hA hafter (by rw [hty]; decide)
      obtain ⟨p1', hp1, hR1⟩ := R_moves hA (by rw [hB]; rfl) hAr hexpr (n + 1) q'.advance (Nat.zero_le _) hadv
        (Or.inl (by rw [hB]; show (0 : Nat) ≤ 1; omega))
      obtain ⟨t3, rest3, hafter3, hnot3⟩ := expr_stops hexpr
      obtain ⟨X, qEnd', hRX, hrelX, hev⟩ := ih2 _ _ _ _ rfl ho hend ⟨t3, rest3, hafter3, by
        have : T.ledPipe = 1 := rfl
        rw [this] at hnot3; omega⟩ (n + 1) p1' (by omega) hp1 (.pipe M' r) G (fun ft d => by
          rw [eval_pipe, hM, bind_assoc']
          congr 1; funext v; exact (eval_pipe ft left r v).symm)
      refine ⟨X, qEnd', R.step ha' hlt ?_ hRX, hrelX.mono (Nat.le_succ n), hev⟩
      rw [hty]; exact R.ledPipe hR1
    | ledCmp hop _ => simp [Cmp.ofTok] at hop
  | _ => intro M q b qEnd hc; cases hc

include hA hAr in
/-- the outermost loop of `B`, replayed as the loop at level 1 inside `… | B` followed by the outer pipes -/
theorem pipe_chain (hB : B.e.ty = .eof) {c : Call N} {o : Out N} (h : R T c o) :
    ∀ left q b qEnd, c = .loop 0 left q → o = .node b qEnd → qEnd.after = A.e :: A.rest →
      ∀ n q', 1 ≤ n → CRel A B n q q' → ∀ L0 : Node N,
        ∃ r1 q1' X qEnd', R T (.loop 1 left q') (.node r1 q1') ∧ R T (.loop 0 (.pipe L0 r1) q1') (.node X qEnd') ∧
          CRel A B n qEnd qEnd' ∧ ∀ ft d, eval ft X d = (eval ft L0 d >>= eval ft b) := by
  -- when the next token has power ≤ 1 the inner loop stops at once and `outer_chain` does the rest
  have low : ∀ {left q b qEnd}, R T (.loop 0 left q) (.node b qEnd) → qEnd.after = A.e :: A.rest →
      ∀ {t rest}, q.after = t :: rest → T.power t.ty ≤ 1 → ∀ n q', 1 ≤ n → CRel A B n q q' → ∀ L0 : Node N,
        ∃ r1 q1' X qEnd', R T (.loop 1 left q') (.node r1 q1') ∧ R T (.loop 0 (.pipe L0 r1) q1') (.node X qEnd') ∧
          CRel A B n qEnd qEnd' ∧ ∀ ft d, eval ft X d = (eval ft L0 d >>= eval ft b) := by
    intro left q b qEnd hD hend t rest hafter hle n q' hn hrel L0
    obtain ⟨t', r', ha', ht'⟩ := hrel.peek hafter
    have hstop : R T (.loop 1 left q') (.node left q') := by
      refine R.stop ha' ?_
      rcases ht' with rfl | ⟨_, _, rfl⟩
      · omega
      · rw [T_power, hB]; decide
    obtain ⟨X, qEnd', hRX, hrelX, hev⟩ := outer_chain hA hAr hB hD _ _ _ _ rfl rfl hend ⟨t, rest, hafter, hle⟩ n q' hn hrel
      (.pipe L0 left) (fun ft d => eval ft L0 d) (fun ft d => eval_pipe ft L0 left d)
    exact ⟨left, q', X, qEnd', hstop, hRX, hrelX, hev⟩
  induction h with
  | @stop rbp left p t rest hafter hnot =>
    intro left0 q b qEnd hc ho hend n q' hn hrel L0
    injection hc with h1 h2 h3; injection ho with h4 h5
    subst h1; subst h2; subst h3; subst h4; subst h5
    exact low (R.stop hafter hnot) hend hafter (by omega) n q' hn hrel L0
  | @step rbp left p t rest left' p1 o hafter hlt hled hloop _ ih2 =>
    intro left0 q b qEnd hc ho hend n q' hn hrel L0
    injection hc with h1 h2 h3
    subst h1; subst h2; subst h3
    by_cases hle : T.power t.ty ≤ 1
    · subst ho
      exact low (R.step hafter hlt hled hloop) hend hafter hle n q' hn hrel L0
    · obtain ⟨r', ha', hadv⟩ := hrel.cons hA hafter (pow_pos_ne_eof (by rw [← T_power]; exact hlt))
      obtain ⟨p1', hp1, hR1⟩ := R_moves hA (by rw [hB]; rfl) hAr hled (n + 1) q'.advance (by simp only [need]; omega) hadv trivial
      obtain ⟨r1, q1', X, qEnd', hL1, hL0, hrelX, hev⟩ := ih2 _ _ _ _ rfl ho hend (n + 1) p1' (by omega) hp1 L0
      exact ⟨r1, q1', X, qEnd', R.step ha' (by omega) hR1 hL1, hL0, hrelX.mono (Nat.le_succ n), hev⟩
  | _ => intro left q b qEnd hc; cases hc

end

/-- **Pipe is sequential composition, for arbitrary expressions** (relational form): if `A` followed by
    end of input parses to `a` and `B` followed by end of input parses to `b`, then `A`, a pipe, `B`,
    end of input parses to an AST that evaluates, on every document, as `b` on the result of `a`. -/
theorem pipe_of_parses {As Bs : List Token} {eA eB pt : Token} {a b : Node N}
    (heA : eA.ty = .eof) (heB : eB.ty = .eof) (hpt : pt.ty = .pipe)
    (hPA : R T (.expr 0 ⟨[], As ++ [eA]⟩) (.node a ⟨As.reverse, [eA]⟩))
    (hPB : R T (.expr 0 ⟨[], Bs ++ [eB]⟩) (.node b ⟨Bs.reverse, [eB]⟩)) :
    ∃ X, R T (.expr 0 ⟨[], As ++ pt :: (Bs ++ [eB])⟩) (.node X ⟨(As ++ pt :: Bs).reverse, [eB]⟩) ∧
      ∀ ft d, eval ft X d = (eval ft a d >>= eval ft b) := by
  -- surroundings of A: alone, and inside `A | B`
  let SA : Around := ⟨[], eA, []⟩
  let SA' : Around := ⟨[], pt, Bs ++ [eB]⟩
  -- surroundings of B: alone, and inside `A | B`
  let SB : Around := ⟨[], eB, []⟩
  let SB' : Around := ⟨pt :: As.reverse, eB, []⟩
  cases hPA with
  | @expr _ _ tokA restA leftA pA1 _ hafterA hnudA hloopA =>
  cases hPB with
  | @expr _ _ tokB restB leftB pB1 _ hafterB hnudB hloopB =>
  -- the A side
  have hrelA : CRel SA SA' 0 ⟨[], As ++ [eA]⟩ ⟨[], As ++ pt :: (Bs ++ [eB])⟩ := ⟨[], As, Nat.le_refl _, rfl, rfl, rfl, rfl⟩
  obtain ⟨rA', haA', hadvA⟩ := hrelA.cons (A := SA) heA hafterA (nud_not_eof hnudA)
  obtain ⟨pA1', hpA1, hRnudA⟩ := R_moves (A := SA) (B := SA') heA (by show followerOK pt.ty = true; rw [hpt]; rfl) rfl hnudA 1 _ (Nat.le_refl _) hadvA trivial
  obtain ⟨pEndA', hrelEndA, hresume⟩ := loop0_resume (A := SA) (B := SA') heA rfl (by show followerOK pt.ty = true; rw [hpt]; rfl) hloopA _ _ _ _ rfl rfl rfl 1 pA1'
    (Nat.le_refl _) hpA1
  -- the state reached at the end of A inside `A | B`
  obtain ⟨Y, X0, _, hb1, hb2, ha1, ha2⟩ := hrelEndA
  have hX0 : X0 = [] := by
    have : ([eA] : List Token) = X0 ++ eA :: [] := ha1
    cases X0 with
    | nil => rfl
    | cons x xs => simp at this
  subst hX0
  simp only [List.nil_append, List.append_nil] at hb1 hb2 ha1 ha2
  have hpEndA' : pEndA' = ⟨As.reverse, pt :: (Bs ++ [eB])⟩ := by
    cases pEndA' with
    | mk b' a' => simp only at hb2 ha2; rw [hb2, ha2, ← hb1]
  -- the B side, started right after the pipe
  have hrelB : CRel SB SB' 0 ⟨[], Bs ++ [eB]⟩ ⟨pt :: As.reverse, Bs ++ [eB]⟩ := ⟨[], Bs, Nat.le_refl _, rfl, rfl, rfl, rfl⟩
  obtain ⟨rB', haB', hadvB⟩ := hrelB.cons (A := SB) heB hafterB (nud_not_eof hnudB)
  obtain ⟨pB1', hpB1, hRnudB⟩ := R_moves (A := SB) (B := SB') heB (by show followerOK eB.ty = true; rw [heB]; rfl) rfl hnudB 1 _ (Nat.le_refl _) hadvB trivial
  obtain ⟨r1, q1', X, qEnd', hL1, hL0, hrelEndB, hev⟩ := pipe_chain (A := SB) (B := SB') heB rfl heB hloopB _ _ _ _ rfl rfl rfl 1 pB1'
    (Nat.le_refl _) hpB1 a
  obtain ⟨Y2, X2, _, hc1, hc2, hd1, hd2⟩ := hrelEndB
  have hX2 : X2 = [] := by
    have : ([eB] : List Token) = X2 ++ eB :: [] := hd1
    cases X2 with
    | nil => rfl
    | cons x xs => simp at this
  subst hX2
  simp only [List.nil_append, List.append_nil] at hc1 hc2 hd1 hd2
  have hqEnd' : qEnd' = ⟨(As ++ pt :: Bs).reverse, [eB]⟩ := by
    have hY : Y2 = Bs.reverse := by simpa [SB] using hc1.symm
    subst hY
    cases qEnd' with
    | mk b' a' =>
      simp only at hc2 hd2
      rw [hc2, hd2]
      simp [SB', List.reverse_append]
  refine ⟨X, ?_, hev⟩
  rw [← hqEnd']
  refine R.expr haA' hRnudA (hresume _ ?_)
  rw [hpEndA']
  refine R.step (p := ⟨As.reverse, pt :: (Bs ++ [eB])⟩) rfl (by rw [T_power, hpt]; decide) ?_ hL0
  rw [hpt]
  exact R.ledPipe (R.expr (p := ⟨pt :: As.reverse, Bs ++ [eB]⟩) haB' hRnudB hL1)

end Jmes.Parser
