/-
  Proofs.FunctionsSafe — every call that passes the type check of a
  specification signature runs its handler without a panic.
-/
import Proofs.Functions
namespace Jmes.Fn
variable {N : Type} [NumOps N]
open JpType

/-- Peel a one-argument call: the argument is a value of one of the listed constructors. -/
macro "one_arg" h:ident : tactic =>
  `(tactic| (cases ‹Arg _› with
    | ref f => simp [typeCheck, typeOk, toArrayNum, toArrayStr] at $h:ident
    | val v => cases v <;> simp [typeCheck, typeOk, toArrayNum, toArrayStr] at $h:ident <;> try rfl))

theorem np_abs (a : Arg N) (h : typeCheck (one [number]) a = true) : (handle .abs false [a]).isPanic = false := by
  cases a with
  | ref f => simp [typeCheck, typeOk] at h
  | val v => cases v <;> simp [typeCheck, typeOk] at h; rfl

theorem np_ceil (a : Arg N) (h : typeCheck (one [number]) a = true) : (handle .ceil false [a]).isPanic = false := by
  cases a with
  | ref f => simp [typeCheck, typeOk] at h
  | val v => cases v <;> simp [typeCheck, typeOk] at h; rfl

theorem np_floor (a : Arg N) (h : typeCheck (one [number]) a = true) : (handle .floor false [a]).isPanic = false := by
  cases a with
  | ref f => simp [typeCheck, typeOk] at h
  | val v => cases v <;> simp [typeCheck, typeOk] at h; rfl

theorem np_avg (a : Arg N) (h : typeCheck (one [arrayNumber]) a = true) : (handle .avg false [a]).isPanic = false := by
  cases a with
  | ref f => simp [typeCheck, typeOk, toArrayNum] at h
  | val v =>
    cases v <;> simp [typeCheck, typeOk, toArrayNum] at h
    rename_i xs
    simp only [handle, Bool.false_eq_true, if_false]
    split
    · rfl
    · have := avgLoop_np (NumOps.ofNat 0) xs h
      cases hl : avgLoop (NumOps.ofNat 0) xs <;> simp_all [Res.isPanic]

theorem np_sum (a : Arg N) : (handle .sum false [a]).isPanic = false := rfl
theorem np_max (a : Arg N) : (handle .max false [a]).isPanic = false := by
  simp only [handle, Bool.false_eq_true, if_false]
  cases toArrayNum a with
  | some xs => cases xs <;> rfl
  | none => simp only []; cases toArrayStr a with
    | some xs => cases xs <;> rfl
    | none => rfl
theorem np_min (a : Arg N) : (handle .min false [a]).isPanic = false := by
  simp only [handle, Bool.false_eq_true, if_false]
  cases toArrayNum a with
  | some xs => cases xs <;> rfl
  | none => simp only []; cases toArrayStr a with
    | some xs => cases xs <;> rfl
    | none => rfl
theorem np_sort (a : Arg N) : (handle .sort false [a]).isPanic = false := by
  simp only [handle, Bool.false_eq_true, if_false]
  cases toArrayNum a <;> rfl

theorem np_length (a : Arg N) (h : typeCheck (one [string, array, object]) a = true) : (handle .length false [a]).isPanic = false := by
  cases a with
  | ref f => simp [typeCheck, typeOk] at h
  | val v => cases v <;> simp [typeCheck, typeOk] at h <;> rfl

theorem np_keys (a : Arg N) (h : typeCheck (one [object]) a = true) : (handle .keys false [a]).isPanic = false := by
  cases a with
  | ref f => simp [typeCheck, typeOk] at h
  | val v => cases v <;> simp [typeCheck, typeOk] at h; rfl

theorem np_values (a : Arg N) (h : typeCheck (one [object]) a = true) : (handle .values false [a]).isPanic = false := by
  cases a with
  | ref f => simp [typeCheck, typeOk] at h
  | val v => cases v <;> simp [typeCheck, typeOk] at h; rfl

theorem np_reverse (a : Arg N) (h : typeCheck (one [array, string]) a = true) : (handle .reverse false [a]).isPanic = false := by
  cases a with
  | ref f => simp [typeCheck, typeOk] at h
  | val v => cases v <;> simp [typeCheck, typeOk] at h <;> rfl

theorem np_any1 (hd : Handler) (hh : hd = .type ∨ hd = .toArray ∨ hd = .toNumber ∨ hd = .toString)
    (a : Arg N) (h : typeCheck (one [any]) a = true) : (handle hd false [a]).isPanic = false := by
  cases a with
  | ref f => simp [typeCheck, typeOk] at h
  | val v =>
    rcases hh with rfl | rfl | rfl | rfl
    · cases v <;> rfl
    · cases v <;> rfl
    · cases v <;> try rfl
      rename_i s
      simp only [handle, Bool.false_eq_true, if_false]
      cases (NumOps.parse s : Option N) with
      | none => rfl
      | some n => simp only []; split <;> rfl
    · cases v <;> try rfl
      all_goals (simp only [handle, Bool.false_eq_true, if_false]; split <;> rfl)

theorem np_str2 (hd : Handler) (hh : hd = .startsWith ∨ hd = .endsWith) (a c : Arg N)
    (h1 : typeCheck (one [string]) a = true) (h2 : typeCheck (one [string]) c = true) :
    (handle hd false [a, c]).isPanic = false := by
  cases a with
  | ref f => simp [typeCheck, typeOk] at h1
  | val v =>
    cases c with
    | ref f => simp [typeCheck, typeOk] at h2
    | val w =>
      cases v <;> simp [typeCheck, typeOk] at h1
      cases w <;> simp [typeCheck, typeOk] at h2
      rcases hh with rfl | rfl <;> rfl

theorem np_contains (a c : Arg N) (h1 : typeCheck (one [array, string]) a = true) (h2 : typeCheck (one [any]) c = true) :
    (handle .contains false [a, c]).isPanic = false := by
  cases a with
  | ref f => simp [typeCheck, typeOk] at h1
  | val v =>
    cases c with
    | ref f => simp [typeCheck, typeOk] at h2
    | val w => cases v <;> simp [typeCheck, typeOk] at h1 <;> cases w <;> rfl

theorem np_join (a c : Arg N) (h1 : typeCheck (one [string]) a = true) (h2 : typeCheck (one [arrayString]) c = true) :
    (handle .join false [a, c]).isPanic = false := by
  cases a with
  | ref f => simp [typeCheck, typeOk] at h1
  | val v =>
    cases v <;> simp [typeCheck, typeOk] at h1
    cases c with
    | ref f => simp [typeCheck, typeOk, toArrayStr] at h2
    | val w =>
      cases w <;> simp [typeCheck, typeOk, toArrayStr] at h2
      rename_i sep xs
      simp only [handle, Bool.false_eq_true, if_false]
      have := joinLoop_np sep xs h2
      cases hl : joinLoop sep xs <;> simp_all [Res.isPanic]

theorem np_map (a c : Arg N) (h1 : typeCheck (one [expref]) a = true) (h2 : typeCheck (one [array]) c = true)
    (hs : RefsSafe [a, c]) : (handle .map true [a, c]).isPanic = false := by
  cases a with
  | val v => cases v <;> simp [typeCheck, typeOk] at h1
  | ref f =>
    cases c with
    | ref g => simp [typeCheck, typeOk] at h2
    | val w =>
      cases w <;> simp [typeCheck, typeOk] at h2
      rename_i xs
      simp only [handle, Bool.not_true, Bool.false_eq_true, if_false]
      have := mapLoop_np f (hs f (by simp)) xs
      cases hl : mapLoop f xs <;> simp_all [Res.isPanic]

theorem np_by (hd : Handler) (hh : hd = .maxBy ∨ hd = .minBy ∨ hd = .sortBy) (a c : Arg N)
    (h1 : typeCheck (one [array]) a = true) (h2 : typeCheck (one [expref]) c = true)
    (hs : RefsSafe [a, c]) : (handle hd true [a, c]).isPanic = false := by
  cases c with
  | val v => cases v <;> simp [typeCheck, typeOk] at h2
  | ref f =>
    cases a with
    | ref g => simp [typeCheck, typeOk] at h1
    | val w =>
      cases w <;> simp [typeCheck, typeOk] at h1
      rename_i xs
      have hf := hs f (by simp)
      rcases hh with rfl | rfl | rfl
      · exact extremeBy_np f hf true xs
      · exact extremeBy_np f hf false xs
      · exact sortBy_np f hf xs

theorem np_merge (a : Arg N) (as : List (Arg N)) (h1 : typeCheck (many [object]) a = true)
    (h2 : checkVariadic (many [object]) [] as = true) : (handle .merge false (a :: as)).isPanic = false := by
  have : checkVariadic (many [object]) [] (a :: as) = true := by simp [checkVariadic, h1, h2]
  exact mergeLoop_np (many [object]) rfl [] (a :: as) this

theorem np_notNull (a : Arg N) (as : List (Arg N)) (h1 : typeCheck (many [any]) a = true)
    (h2 : checkVariadic (many [any]) [] as = true) : (handle .notNull false (a :: as)).isPanic = false := by
  have hall : ∀ x ∈ a :: as, ∃ v, x = Arg.val v := by
    have : checkVariadic (many [any]) [] (a :: as) = true := by simp [checkVariadic, h1, h2]
    generalize a :: as = l at this
    induction l with
    | nil => intro x hx; cases hx
    | cons y ys ih =>
      simp only [checkVariadic, Bool.and_eq_true] at this
      intro x hx
      rcases List.mem_cons.mp hx with rfl | hx
      · cases x with
        | val v => exact ⟨v, rfl⟩
        | ref f => simp [typeCheck, typeOk] at this
      · exact ih this.2 x hx
  simp only [handle, Bool.false_eq_true, if_false]
  cases hf : List.find? (fun a => match a with | Arg.val Val.null => false | _ => true) (a :: as) with
  | none => rfl
  | some x =>
    obtain ⟨v, rfl⟩ := hall x (List.mem_of_find?_eq_some hf)
    rfl

end Jmes.Fn

namespace Jmes.Fn
variable {N : Type} [NumOps N]
open JpType

theorem resolveArgs_np (e : FnEntry) (args : List (Arg N)) : (resolveArgs e args).isPanic = false := by
  unfold resolveArgs
  cases e.args.getLast? with
  | none => rfl
  | some last =>
    simp only []
    split <;> split <;> (try split) <;> rfl

/-- Every handler of the specification's table is safe behind its type check. -/
theorem spec_handle_np (e : FnEntry) (he : e ∈ Spec.functionTable) (args : List (Arg N))
    (hr : resolveArgs e args = .ok ()) (hs : RefsSafe args) :
    (handle e.handler e.hasExpRef args).isPanic = false := by
  simp only [Spec.functionTable, List.mem_cons, List.not_mem_nil, or_false] at he
  rcases he with rfl | rfl | rfl | rfl | rfl | rfl | rfl | rfl | rfl | rfl | rfl | rfl | rfl | rfl | rfl | rfl | rfl | rfl | rfl | rfl | rfl | rfl | rfl | rfl | rfl | rfl
  · obtain ⟨a, rfl, h⟩ := resolve1 _ [number] rfl args hr; exact np_abs a h
  · obtain ⟨a, rfl, h⟩ := resolve1 _ [arrayNumber] rfl args hr; exact np_avg a h
  · obtain ⟨a, rfl, h⟩ := resolve1 _ [number] rfl args hr; exact np_ceil a h
  · obtain ⟨a, c, rfl, h1, h2⟩ := resolve2 _ [array, string] [any] rfl args hr; exact np_contains a c h1 h2
  · obtain ⟨a, c, rfl, h1, h2⟩ := resolve2 _ [string] [string] rfl args hr; exact np_str2 _ (Or.inr rfl) a c h1 h2
  · obtain ⟨a, rfl, h⟩ := resolve1 _ [number] rfl args hr; exact np_floor a h
  · obtain ⟨a, c, rfl, h1, h2⟩ := resolve2 _ [string] [arrayString] rfl args hr; exact np_join a c h1 h2
  · obtain ⟨a, rfl, h⟩ := resolve1 _ [object] rfl args hr; exact np_keys a h
  · obtain ⟨a, rfl, h⟩ := resolve1 _ [string, array, object] rfl args hr; exact np_length a h
  · obtain ⟨a, c, rfl, h1, h2⟩ := resolve2 _ [expref] [array] rfl args hr; exact np_map a c h1 h2 hs
  · obtain ⟨a, rfl, _⟩ := resolve1 _ [arrayNumber, arrayString] rfl args hr; exact np_max a
  · obtain ⟨a, c, rfl, h1, h2⟩ := resolve2 _ [array] [expref] rfl args hr; exact np_by _ (Or.inl rfl) a c h1 h2 hs
  · obtain ⟨a, as, rfl, h1, h2⟩ := resolveMany _ [object] rfl args hr; exact np_merge a as h1 h2
  · obtain ⟨a, rfl, _⟩ := resolve1 _ [arrayNumber, arrayString] rfl args hr; exact np_min a
  · obtain ⟨a, c, rfl, h1, h2⟩ := resolve2 _ [array] [expref] rfl args hr; exact np_by _ (Or.inr (Or.inl rfl)) a c h1 h2 hs
  · obtain ⟨a, as, rfl, h1, h2⟩ := resolveMany _ [any] rfl args hr; exact np_notNull a as h1 h2
  · obtain ⟨a, rfl, h⟩ := resolve1 _ [array, string] rfl args hr; exact np_reverse a h
  · obtain ⟨a, rfl, _⟩ := resolve1 _ [arrayNumber, arrayString] rfl args hr; exact np_sort a
  · obtain ⟨a, c, rfl, h1, h2⟩ := resolve2 _ [array] [expref] rfl args hr; exact np_by _ (Or.inr (Or.inr rfl)) a c h1 h2 hs
  · obtain ⟨a, c, rfl, h1, h2⟩ := resolve2 _ [string] [string] rfl args hr; exact np_str2 _ (Or.inl rfl) a c h1 h2
  · obtain ⟨a, rfl, _⟩ := resolve1 _ [arrayNumber] rfl args hr; exact np_sum a
  · obtain ⟨a, rfl, h⟩ := resolve1 _ [any] rfl args hr; exact np_any1 _ (Or.inr (Or.inl rfl)) a h
  · obtain ⟨a, rfl, h⟩ := resolve1 _ [any] rfl args hr; exact np_any1 _ (Or.inr (Or.inr (Or.inl rfl))) a h
  · obtain ⟨a, rfl, h⟩ := resolve1 _ [any] rfl args hr; exact np_any1 _ (Or.inr (Or.inr (Or.inr rfl))) a h
  · obtain ⟨a, rfl, h⟩ := resolve1 _ [any] rfl args hr; exact np_any1 _ (Or.inl rfl) a h
  · obtain ⟨a, rfl, h⟩ := resolve1 _ [object] rfl args hr; exact np_values a h

/-- `CallFunction` with the specification's table never panics, whatever the
    name and the arguments (values or expression references). -/
theorem spec_call_np (name : Bytes) (args : List (Arg N)) (hs : RefsSafe args) :
    (callFunction Spec.functionTable name args).isPanic = false := by
  unfold callFunction
  cases hf : List.find? (fun e => keyBytes e.key = name) Spec.functionTable with
  | none => rfl
  | some e =>
    simp only []
    have hm := List.mem_of_find?_eq_some hf
    have hnp := resolveArgs_np e args
    cases hr : resolveArgs e args with
    | ok u => cases u; exact spec_handle_np e hm args hr hs
    | err er => rfl
    | panic p => rw [hr] at hnp; exact absurd hnp (by simp [Res.isPanic])

end Jmes.Fn
