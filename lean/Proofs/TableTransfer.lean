/-
  Proofs.TableTransfer — two binding-power tables that make the same
  decisions (`SameDecisions`) give the same parser: every parse function
  returns the same outcome and the same cursor.  `TableOK` (decided on the
  table regenerated from /repo on every run) implies `SameDecisions` with the
  specification's table, so a renumbering that keeps the order keeps every
  parser theorem, and any other change breaks `generated_table_ok`.
-/
import Jmes.Parser
namespace Jmes.Parser
variable {N : Type} [NumOps N]

/-- Right binding powers `a` (for table `t`) and `b` (for table `s`) that make the Pratt loop continue on the same tokens. -/
def RB (t s : ParserTable) (a b : Nat) : Prop := ∀ ty, a < t.power ty ↔ b < s.power ty

structure SameDecisions (t s : ParserTable) : Prop where
  stop : ∀ ty, t.power ty < t.projStop ↔ s.power ty < s.projStop
  top : RB t s t.top s.top
  ledDotSub : RB t s t.ledDotSub s.ledDotSub
  ledDotStar : RB t s t.ledDotStar s.ledDotStar
  ledPipe : RB t s t.ledPipe s.ledPipe
  ledOr : RB t s t.ledOr s.ledOr
  ledAnd : RB t s t.ledAnd s.ledAnd
  ledArg : RB t s t.ledArg s.ledArg
  ledArgExpref : RB t s t.ledArgExpref s.ledArgExpref
  ledFlatten : RB t s t.ledFlatten s.ledFlatten
  ledCmp : ∀ ty op, Cmp.ofTok ty = some op → RB t s ((t.ledCmp.lookup ty).getD 0) ((s.ledCmp.lookup ty).getD 0)
  ledBracketStar : RB t s t.ledBracketStar s.ledBracketStar
  nudStar : RB t s t.nudStar s.nudStar
  nudFlatten : RB t s t.nudFlatten s.nudFlatten
  nudBracketStar : RB t s t.nudBracketStar s.nudBracketStar
  nudNot : RB t s t.nudNot s.nudNot
  nudParen : RB t s t.nudParen s.nudParen
  msList : RB t s t.msList s.msList
  msHash : RB t s t.msHash s.msHash
  sliceProj : RB t s t.sliceProj s.sliceProj
  filterCond : RB t s t.filterCond s.filterCond
  filterRhs : RB t s t.filterRhs s.filterRhs

section
variable (N) (t s : ParserTable)

structure Agree (fuel : Nat) : Prop where
  expr : ∀ a b p, RB t s a b → parseExpression (N := N) t fuel a p = parseExpression s fuel b p
  loop : ∀ a b (l : Node N) p, RB t s a b → ledLoop t fuel a l p = ledLoop s fuel b l p
  nud : ∀ tok p, nud (N := N) t fuel tok p = nud s fuel tok p
  led : ∀ ty (n : Node N) p, led t fuel ty n p = led s fuel ty n p
  args : ∀ p, parseArgs (N := N) t fuel p = parseArgs s fuel p
  pis : ∀ (l r : Node N) p, projectIfSlice t fuel l r p = projectIfSlice s fuel l r p
  filter : ∀ (n : Node N) p, parseFilter t fuel n p = parseFilter s fuel n p
  dot : ∀ a b p, RB t s a b → parseDotRHS (N := N) t fuel a p = parseDotRHS s fuel b p
  proj : ∀ a b p, RB t s a b → parseProjectionRHS (N := N) t fuel a p = parseProjectionRHS s fuel b p
  msl : ∀ p (acc : List (Node N)), parseMultiSelectList t fuel p acc = parseMultiSelectList s fuel p acc
  msh : ∀ p (acc : List (Bytes × Node N)), parseMultiSelectHash t fuel p acc = parseMultiSelectHash s fuel p acc
end

variable {t s : ParserTable}

theorem agree_zero : Agree N t s 0 := by
  constructor <;> intros <;>
    simp only [parseExpression, ledLoop, nud, led, parseArgs, projectIfSlice, parseFilter, parseDotRHS,
      parseProjectionRHS, parseMultiSelectList, parseMultiSelectHash]

theorem agree_succ (h : SameDecisions t s) {fuel : Nat} (ih : Agree N t s fuel) : Agree N t s (fuel + 1) := by
  constructor
  · -- parseExpression
    intro a b p hab
    simp only [parseExpression, ih.nud, ih.loop a b _ _ hab]
  · -- ledLoop
    intro a b l p hab
    simp only [ledLoop, ih.led]
    cases hc : p.cur with
    | ok cur =>
      simp only [bind, Res.bind]
      have : (a < t.power cur) = (b < s.power cur) := propext (hab cur)
      simp only [this]
      split
      · cases led s fuel cur l p.advance with
        | ok r => exact ih.loop a b _ _ hab
        | err e => rfl
        | panic x => rfl
      · rfl
    | err e => rfl
    | panic x => rfl
  · -- nud
    intro tok p
    simp only [nud]
    split <;> try rfl
    · cases p.cur <;> simp only [bind, Res.bind] <;> try rfl
      split
      · rfl
      · rw [ih.proj _ _ p h.nudStar]
    · exact ih.filter _ _
    · exact ih.msh _ _
    · simp only [bind, Res.bind]; rw [ih.proj _ _ p h.nudFlatten]
    · cases p.cur <;> simp only [bind, Res.bind] <;> try rfl
      split
      · cases parseIndexExpression (N := N) p <;> simp only [] <;> try rfl
        exact ih.pis _ _ _
      · simp only [ih.msl]
        cases (if _ = TokType.star then _ else _ : Res Bool) <;> simp only [] <;> try rfl
        split
        · rw [ih.proj _ _ _ h.nudBracketStar]
        · rfl
    · simp only [bind, Res.bind]; rw [ih.expr _ _ p h.nudNot]
    · simp only [bind, Res.bind]; rw [ih.expr _ _ p h.nudParen]
  · -- led
    intro ty n p
    unfold led
    split
    · cases p.cur <;> simp only [bind, Res.bind] <;> try rfl
      split
      · rw [ih.dot _ _ p h.ledDotSub]
      · rw [ih.proj _ _ _ h.ledDotStar]
    · simp only [bind, Res.bind]; rw [ih.expr _ _ p h.ledPipe]
    · simp only [bind, Res.bind]; rw [ih.expr _ _ p h.ledOr]
    · simp only [bind, Res.bind]; rw [ih.expr _ _ p h.ledAnd]
    · simp only [ih.args]
    · exact ih.filter _ _
    · simp only [bind, Res.bind]; rw [ih.proj _ _ p h.ledFlatten]
    · cases p.cur <;> simp only [bind, Res.bind] <;> try rfl
      split
      · cases parseIndexExpression (N := N) p <;> simp only [] <;> try rfl
        exact ih.pis _ _ _
      · cases p.expect .star <;> simp only [] <;> try rfl
        rename_i p1
        cases p1.expect .rbracket <;> simp only [] <;> try rfl
        rw [ih.proj _ _ _ h.ledBracketStar]
    · split
      · rename_i op hop
        simp only [bind, Res.bind]; rw [ih.expr _ _ p (h.ledCmp _ op hop)]
      · rfl
  · -- parseArgs
    intro p
    simp only [parseArgs, ih.expr _ _ _ h.ledArg, ih.expr _ _ _ h.ledArgExpref, ih.args]
  · -- projectIfSlice
    intro l r p
    simp only [projectIfSlice]
    split
    · simp only [bind, Res.bind]; rw [ih.proj _ _ p h.sliceProj]
    · rfl
  · -- parseFilter
    intro n p
    simp only [parseFilter, ih.expr _ _ p h.filterCond, bind, Res.bind]
    cases parseExpression (N := N) s fuel s.filterCond p <;> simp only [] <;> try rfl
    rename_i r
    cases r.2.expect .rbracket <;> simp only [] <;> try rfl
    rename_i p2
    cases p2.cur <;> simp only [] <;> try rfl
    split
    · rfl
    · rw [ih.proj _ _ _ h.filterRhs]
  · -- parseDotRHS
    intro a b p hab
    simp only [parseDotRHS, ih.expr a b p hab, ih.msl, ih.msh]
  · -- parseProjectionRHS
    intro a b p hab
    simp only [parseProjectionRHS]
    cases hc : p.cur with
    | ok cur =>
      simp only [bind, Res.bind]
      have : (t.power cur < t.projStop) = (s.power cur < s.projStop) := propext (h.stop cur)
      simp only [this, ih.expr a b p hab, ih.dot a b _ hab]
    | err e => rfl
    | panic x => rfl
  · -- parseMultiSelectList
    intro p acc
    simp only [parseMultiSelectList, ih.expr _ _ p h.msList, ih.msl]
  · -- parseMultiSelectHash
    intro p acc
    simp only [parseMultiSelectHash, bind, Res.bind]
    cases p.curTok <;> simp only [] <;> try rfl
    split
    · cases p.advance.expect .colon <;> simp only [] <;> try rfl
      rw [ih.expr _ _ _ h.msHash]
      simp only [ih.msh]
    · rfl

theorem agree_all (h : SameDecisions t s) : ∀ fuel, Agree N t s fuel
  | 0 => agree_zero
  | fuel + 1 => agree_succ h (agree_all h fuel)

/-- Tables that make the same decisions parse identically. -/
theorem parseTokens_congr (h : SameDecisions t s) (toks : List Token) :
    parseTokens (N := N) t toks = parseTokens s toks := by
  unfold parseTokens
  rw [(agree_all (N := N) h (fuelFor toks.length)).expr _ _ _ h.top]

theorem parseWith_congr (h : SameDecisions t s) (lt : Lexer.Tables) (expr : Bytes) :
    parseWith (N := N) lt t expr = parseWith lt s expr := by
  unfold parseWith
  simp only [parseTokens_congr h]

end Jmes.Parser
