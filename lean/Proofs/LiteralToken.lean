/-
  Proofs.LiteralToken — backtick literals, for every JSON value: the JSON text of a
  value (`encode`, the model of `json.Marshal`), with every backtick written
  `` \` ``, placed between backticks, is read by the lexer as ONE literal token
  whose value is that JSON text.

  The scanner (`consumeUntil`) skips the byte after a backslash, so what has to be
  shown is that in JSON text a backslash is always followed by an ASCII byte that
  is not a backtick (it only occurs inside strings, as one of the escapes
  `\" \\ \b \f \n \r \t \uXXXX`), that multi-byte runes are well formed
  (strings are `ValidUtf8`), and that everything else is plain ASCII (`LUnits`).
  The number text is a parameter (`NumPlain`: digits, sign, point, exponent —
  proved for the integer instance, assumed for the ported float formatter).
-/
import Proofs.QuotedIdent
import Proofs.RawString
import Proofs.JsonValue
import Proofs.IntCodec
namespace Jmes.Lexer
open Jmes.Utf8 Jmes.Json

/-- JSON text as the backtick scanner will see it after `` ` `` has been written `` \` ``: plain ASCII
    bytes other than the backslash (the backtick included), a backslash followed by an ASCII byte that
    is not a backtick, or a well-formed multi-byte rune. -/
inductive LUnits : Bytes → Prop where
  | nil : LUnits []
  | plain (c : UInt8) (rest : Bytes) : c < 0x80 → c ≠ 0x5C → LUnits rest → LUnits (c :: rest)
  | esc (d : UInt8) (rest : Bytes) : d < 0x80 → d ≠ 0x60 → LUnits rest → LUnits (0x5C :: d :: rest)
  | multi (c : UInt8) (cs : Bytes) : 1 < (decodeRune (c :: cs)).2 → 0x80 ≤ (decodeRune (c :: cs)).1 →
      LUnits ((c :: cs).drop (decodeRune (c :: cs)).2) → LUnits (c :: cs)

theorem lunits_append {a b : Bytes} (ha : LUnits a) (hb : LUnits b) : LUnits (a ++ b) := by
  induction ha with
  | nil => exact hb
  | plain c rest h1 h3 _ ih => exact LUnits.plain c _ h1 h3 ih
  | esc d rest hd hne _ ih => exact LUnits.esc d _ hd hne ih
  | multi c cs hw hge _ ih =>
    have hle := width_le c cs
    have hdec : decodeRune (c :: cs ++ b) = decodeRune (c :: cs) := by
      have := decode_take c cs ((c :: cs).drop (decodeRune (c :: cs)).2 ++ b) hw
      rw [← List.append_assoc, List.take_append_drop] at this
      exact this
    refine LUnits.multi c (cs ++ b) (by rw [show c :: (cs ++ b) = c :: cs ++ b from rfl, hdec]; exact hw)
      (by rw [show c :: (cs ++ b) = c :: cs ++ b from rfl, hdec]; exact hge) ?_
    rw [show c :: (cs ++ b) = c :: cs ++ b from rfl, hdec, List.drop_append_of_le_length hle]
    exact ih

theorem lunits_plain {s : Bytes} (h : ∀ c ∈ s, c < 0x80 ∧ c ≠ 0x5C) : LUnits s := by
  induction s with
  | nil => exact .nil
  | cons c cs ih =>
    exact .plain c cs (h c (by simp)).1 (h c (by simp)).2 (ih (fun x hx => h x (by simp [hx])))

theorem hexDigit_plain' : ∀ n : Fin 16, hexDigit n.val < 0x80 ∧ hexDigit n.val ≠ 0x5C := by
  decide +kernel

theorem lunits_escOut (c : UInt8) (hc : c < 0x80) : LUnits (escOut c) := by
  rcases esc_class c hc with h | h | h
  · rcases h with rfl | rfl | rfl | rfl | rfl | rfl | rfl <;>
      exact LUnits.esc _ [] (by decide) (by decide) LUnits.nil
  · rw [escOut_u c h]
    obtain ⟨n1, n2⟩ := nibbles c
    obtain ⟨a1, a3⟩ := hexDigit_plain' ⟨c.toNat >>> 4, n1⟩
    obtain ⟨b1, b3⟩ := hexDigit_plain' ⟨c.toNat &&& 0xF, n2⟩
    exact LUnits.esc 0x75 _ (by decide) (by decide) (LUnits.plain 0x30 _ (by decide) (by decide)
      (LUnits.plain 0x30 _ (by decide) (by decide) (LUnits.plain _ _ a1 a3 (LUnits.plain _ _ b1 b3 LUnits.nil))))
  · obtain ⟨he, _, _, h3⟩ := h
    rw [he]
    exact LUnits.plain c [] hc h3 LUnits.nil

theorem lunits_escMulti (c : UInt8) (rest : Bytes) (hw : 1 < (decodeRune (c :: rest)).2) : LUnits (escMulti c rest) := by
  unfold escMulti
  split
  · exact LUnits.esc 0x75 _ (by decide) (by decide) (lunits_plain (s := [0x32, 0x30, 0x32, 0x38]) (by decide))
  · split
    · exact LUnits.esc 0x75 _ (by decide) (by decide) (lunits_plain (s := [0x32, 0x30, 0x32, 0x39]) (by decide))
    · obtain ⟨_, hge⟩ := encode_decode c rest hw
      have hle := width_le c rest
      obtain ⟨tl, htl⟩ : ∃ tl, (c :: rest).take (decodeRune (c :: rest)).2 = c :: tl := by
        cases hh : (decodeRune (c :: rest)).2 with
        | zero => omega
        | succ n => exact ⟨rest.take n, by simp⟩
      have hdt := decode_take c rest [] hw
      rw [List.append_nil, htl] at hdt
      rw [htl]
      refine LUnits.multi c tl (by rw [hdt]; exact hw) (by rw [hdt]; exact hge) ?_
      rw [hdt, ← htl, List.drop_take_self]
      exact LUnits.nil

theorem lunits_escape {s : Bytes} (hv : ValidUtf8 s) : ∀ fuelE, s.length ≤ fuelE → LUnits (escapeAux fuelE s) := by
  induction hv with
  | nil => intro fuelE _; cases fuelE <;> exact LUnits.nil
  | ascii c rest hc _ ih =>
    intro fuelE he
    cases fuelE with
    | zero => simp at he
    | succ fe =>
      rw [escapeAux_ascii fe c rest hc]
      exact lunits_append (lunits_escOut c hc) (ih fe (by simp at he; omega))
  | multi c rest hw _ ih =>
    intro fuelE he
    cases fuelE with
    | zero => simp at he
    | succ fe =>
      rw [escapeAux_multi fe c rest hw]
      exact lunits_append (lunits_escMulti c rest hw) (ih fe (by simp only [List.length_drop, List.length_cons] at he ⊢; omega))

theorem lunits_string {s : Bytes} (hv : ValidUtf8 s) : LUnits (encodeString s) := by
  unfold encodeString
  exact LUnits.plain 0x22 _ (by decide) (by decide)
    (lunits_append (lunits_escape hv s.length (Nat.le_refl _)) (lunits_plain (s := [0x22]) (by decide)))

/-! ### writing `` ` `` as `` \` `` turns JSON text into content the backtick scanner reads to the end -/

theorem nonascii_ne_bt {x : UInt8} (h : ¬ x < 0x80) : x ≠ 0x60 := by
  revert h; revert x; apply forall_uint8'; decide +kernel

theorem btSpell_cons_ne (c : UInt8) (cs : Bytes) (h : c ≠ 0x60) : btSpell (c :: cs) = c :: btSpell cs := by
  simp [btSpell, h]

theorem btSpell_take_nonascii : ∀ (n : Nat) (cs : Bytes), (∀ x ∈ cs.take n, ¬ x < 0x80) →
    btSpell cs = cs.take n ++ btSpell (cs.drop n)
  | 0, cs, _ => by simp
  | n + 1, [], _ => by simp [btSpell]
  | n + 1, c :: cs, h => by
    have hc := h c (by simp)
    rw [btSpell_cons_ne c cs (nonascii_ne_bt hc)]
    simp only [List.take_succ_cons, List.drop_succ_cons, List.cons_append]
    rw [btSpell_take_nonascii n cs (fun x hx => h x (by simp [hx]))]

theorem units_btSpell {t : Bytes} (h : LUnits t) : Units 0x60 (btSpell t) := by
  induction h with
  | nil => exact Units.nil
  | plain c rest hc h5 _ ih =>
    by_cases hb : c = 0x60
    · subst hb
      simp only [btSpell, if_true]
      exact Units.esc 0x60 _ (by decide) ih
    · rw [btSpell_cons_ne c rest hb]
      exact Units.plain c _ hc hb h5 ih
  | esc d rest hd hne _ ih =>
    rw [btSpell_cons_ne 0x5C _ (by decide), btSpell_cons_ne d rest hne]
    exact Units.esc d _ hd ih
  | multi c cs hw hge _ ih =>
    have hle := width_le c cs
    have hna : ∀ x ∈ (c :: cs).take (decodeRune (c :: cs)).2, ¬ x < 0x80 := by
      have hc : ¬ c < 0x80 := multi_not_ascii c cs hw
      rcases decode_cases c cs hc with h' | ⟨_, hrest⟩
      · rw [h'] at hw; omega
      · intro x hx
        cases hh : (decodeRune (c :: cs)).2 with
        | zero => omega
        | succ n =>
          rw [hh] at hx hrest
          simp only [List.take_succ_cons, List.mem_cons] at hx
          rcases hx with rfl | hx
          · exact hc
          · exact hrest x (by simpa using hx)
    rw [btSpell_take_nonascii _ _ hna]
    obtain ⟨tl, htl⟩ : ∃ tl, (c :: cs).take (decodeRune (c :: cs)).2 = c :: tl := by
      cases hh : (decodeRune (c :: cs)).2 with
      | zero => omega
      | succ n => exact ⟨cs.take n, by simp⟩
    have hlen : ((c :: cs).take (decodeRune (c :: cs)).2).length = (decodeRune (c :: cs)).2 := List.length_take_of_le hle
    have hdt := decode_take c cs (btSpell ((c :: cs).drop (decodeRune (c :: cs)).2)) hw
    have hdrop : ((c :: cs).take (decodeRune (c :: cs)).2 ++ btSpell ((c :: cs).drop (decodeRune (c :: cs)).2)).drop
        (decodeRune (c :: cs)).2 = btSpell ((c :: cs).drop (decodeRune (c :: cs)).2) := List.drop_left' hlen
    rw [htl] at hdt hdrop ⊢
    simp only [List.cons_append] at hdt hdrop ⊢
    refine Units.multi c _ (by rw [hdt]; exact hw) (by rw [hdt]; exact hge) ?_
    rw [hdt, hdrop]
    exact ih


/-! ### the JSON text of a value is such content -/

variable {N : Type} [NumOps N]

/-- the text of a finite number is plain ASCII without backslashes (digits, sign, point, exponent) -/
def NumPlain (N : Type) [NumOps N] : Prop :=
  ∀ n : N, NumOps.isFinite n = true → ∀ c ∈ NumOps.format n, c < 0x80 ∧ c ≠ 0x5C

theorem lunits_intercalate : ∀ (l : List Bytes), (∀ x ∈ l, LUnits x) → LUnits (intercalate [0x2C] l)
  | [], _ => LUnits.nil
  | [x], h => h x (by simp)
  | x :: y :: rest, h => by
    simp only [intercalate]
    exact lunits_append (lunits_append (h x (by simp)) (lunits_plain (s := [0x2C]) (by decide)))
      (lunits_intercalate (y :: rest) (fun z hz => h z (by simp [hz])))

mutual
theorem lunits_encode (hP : NumPlain N) : (v : Val N) → okV v → LUnits (encode v)
  | .null, _ => lunits_plain (s := [0x6E, 0x75, 0x6C, 0x6C]) (by decide)
  | .bool true, _ => lunits_plain (s := [0x74, 0x72, 0x75, 0x65]) (by decide)
  | .bool false, _ => lunits_plain (s := [0x66, 0x61, 0x6C, 0x73, 0x65]) (by decide)
  | .num n, h => by simp only [encode]; exact lunits_plain (hP n h)
  | .str s, h => by simp only [encode]; exact lunits_string h
  | .arr xs, h => by
    simp only [encode]
    exact LUnits.plain 0x5B _ (by decide) (by decide)
      (lunits_append (lunits_intercalate _ (lunits_encodeList hP xs h)) (lunits_plain (s := [0x5D]) (by decide)))
  | .obj kvs, h => by
    simp only [encode]
    exact LUnits.plain 0x7B _ (by decide) (by decide)
      (lunits_append (lunits_intercalate _ (lunits_encodeKVs hP kvs h.2)) (lunits_plain (s := [0x7D]) (by decide)))
theorem lunits_encodeList (hP : NumPlain N) : (xs : List (Val N)) → okList xs → ∀ x ∈ encodeList xs, LUnits x
  | [], _ => by intro x hx; simp [encodeList] at hx
  | v :: vs, h => by
    intro x hx
    simp only [encodeList, List.mem_cons] at hx
    rcases hx with rfl | hx
    · exact lunits_encode hP v h.1
    · exact lunits_encodeList hP vs h.2 x hx
theorem lunits_encodeKVs (hP : NumPlain N) : (kvs : List (Bytes × Val N)) → okKVs kvs → ∀ x ∈ encodeKVs kvs, LUnits x
  | [], _ => by intro x hx; simp [encodeKVs] at hx
  | (k, v) :: rest, h => by
    intro x hx
    simp only [encodeKVs, List.mem_cons] at hx
    rcases hx with rfl | hx
    · exact lunits_append (lunits_string h.1) (LUnits.plain 0x3A _ (by decide) (by decide) (lunits_encode hP v h.2.1))
    · exact lunits_encodeKVs hP rest h.2.2 x hx
end

/-- **Literal tokens, for every JSON value**: `` ` `` + the JSON text of `v` with every backtick
    escaped + `` ` `` spells the literal token whose value is the JSON text of `v`. -/
theorem spell_literal (hP : NumPlain N) (v : Val N) (hv : okV v) :
    Spell .jsonLiteral (encode v) (0x60 :: (btSpell (encode v) ++ [0x60])) :=
  Spell.lit (encode v) (units_btSpell (lunits_encode hP v hv))

end Jmes.Lexer

namespace Jmes
open Jmes.Lexer

theorem isDig_plain : ∀ c : UInt8, isDig c = true → c < 0x80 ∧ c ≠ 0x5C := by
  apply Jmes.Utf8.forall_uint8'; decide +kernel

/-- The integer instance writes plain text. -/
theorem intNumPlain : NumPlain Int := by
  intro i _ c hc
  have hd := (natToDec_spec i.natAbs).1
  change c ∈ intFormat i at hc
  unfold intFormat at hc
  split at hc
  · rcases List.mem_cons.mp hc with rfl | h
    · decide
    · exact isDig_plain c (hd c h)
  · exact isDig_plain c (hd c hc)

end Jmes
