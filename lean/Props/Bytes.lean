/-
  Props.Bytes — the byte-level link shared by C01, C03, C04, C14, C15: the
  character tables regenerated from /repo classify ASCII as the lexer theorems
  assume (`generated_tables_ascii`, decide), hence a rendering of tokens — each
  token in any of its spellings, any white space between them — compiles to
  what the parser makes of those tokens.
-/
import Props.Tables
import Proofs.Bytes
import Proofs.ApiGlue
namespace Jmes.Props
open Jmes Jmes.Parser Jmes.Lexer

theorem generated_tables_ascii : TablesAsciiB Model.lexTables = true := by decide +kernel

theorem generated_lex_safe : Lexer.TablesSafe Model.lexTables := by
  refine ⟨by decide, ?_⟩
  intro kv hkv
  simp only [Model.lexTables, Generated.basicTokens] at hkv
  simp only [List.mem_cons, List.not_mem_nil, or_false] at hkv
  rcases hkv with rfl | rfl | rfl | rfl | rfl | rfl | rfl | rfl | rfl | rfl <;> simp

variable {N : Type} [NumOps N]

/-- If `s` renders tokens that /repo's parser turns into `ast`, `Compile(s)` returns `ast`. -/
theorem compile_rendered {toks : List Token} {keys : List (TokType × Bytes)} {s : Bytes} {ast : Node N}
    (hk : KeysOf toks keys) (hr : Rendered keys s)
    (hp : parseTokens Generated.table (toks ++ [eofTok 0]) = .ok ast) : Api.compile Model.cfg s = .ok ast := by
  have hsd := sameDecisions_of_tableOK Generated.table Spec.table generated_table_ok spec_table_ok
  rw [parseTokens_congr hsd] at hp
  rw [Api.compile_eq_parseWith]
  show parseWith Model.lexTables Generated.table s = .ok ast
  rw [parseWith_congr hsd]
  exact parseWith_rendered (tablesAscii_of_bool generated_tables_ascii) generated_lex_safe hk hr hp

/-- Two renderings of the same tokens (different white space, different spellings of the
    same token) compile to the same AST. -/
theorem compile_same_tokens {keys : List (TokType × Bytes)} {s1 s2 : Bytes} {ast : Node N}
    (h1 : Rendered keys s1) (h2 : Rendered keys s2) (hp : Api.compile Model.cfg s1 = .ok ast) :
    Api.compile Model.cfg s2 = .ok ast := by
  have hsd := sameDecisions_of_tableOK Generated.table Spec.table generated_table_ok spec_table_ok
  rw [Api.compile_eq_parseWith] at hp ⊢
  change parseWith Model.lexTables Generated.table s1 = .ok ast at hp
  show parseWith Model.lexTables Generated.table s2 = .ok ast
  rw [parseWith_congr hsd] at hp ⊢
  exact parseWith_same_tokens (tablesAscii_of_bool generated_tables_ascii) generated_lex_safe h1 h2 hp

end Jmes.Props
