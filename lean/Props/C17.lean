/-
  Props.C17 — compile failures are reported consistently and with a usable
  location (DESIGN.md §7, C17).
-/
import Props.Tables
import Proofs.ApiGlue
namespace Jmes.Props
open Jmes Jmes.Api

theorem C17_generated_table_ok : TableOK Generated.table = true := generated_table_ok
theorem C17_generated_sigs_ok : SigsOK Generated.functionTable Spec.functionTable = true := generated_sigs_ok
theorem C17_generated_lex_ok : LexTablesOK Model.lexTables Spec.lexTables = true := generated_lex_ok

variable {N : Type} [NumOps N]

theorem C17_lex_tables_safe : Lexer.TablesSafe Model.lexTables := by
  refine ⟨by decide, ?_⟩
  intro kv hkv
  simp only [Model.lexTables, Generated.basicTokens] at hkv
  simp only [List.mem_cons, List.not_mem_nil, or_false] at hkv
  rcases hkv with rfl | rfl | rfl | rfl | rfl | rfl | rfl | rfl | rfl | rfl <;> simp

/-- Every syntax error `Compile` reports — from any of the failure sites of
    the lexer and of the parser, for any byte string — carries a byte offset
    inside the expression: 0 ≤ offset ≤ len(expression).  (Offsets are computed
    in ℤ as in the Go code, e.g. `currentPos - 1`, so `0 ≤` is a real fact.) -/
theorem C17_syntax_offset_in_range (expr : Bytes) (off : Int)
    (h : (compile Model.cfg expr : Res (Node N)) = .err (.syntax off)) : 0 ≤ off ∧ off ≤ (expr.length : Int) := by
  rw [compile_eq_parseWith] at h
  have := Parser.parseWith_ok (N := N) (tbl := Generated.table) Model.lexTables C17_lex_tables_safe (by decide) expr
  rw [show Model.cfg.lex = Model.lexTables from rfl, show Model.cfg.tbl = Generated.table from rfl] at h
  rw [h] at this
  exact this

/-- The tokens of a successfully lexed expression lie inside it and end with
    tEOF at len(expression). -/
theorem C17_token_positions (expr : Bytes) (toks : List Token) (h : Lexer.tokenize Model.lexTables expr = .ok toks) :
    (∃ pre, toks = pre ++ [⟨.eof, [], expr.length⟩]) ∧ ∀ t ∈ toks, t.pos ≤ expr.length := by
  have := Lexer.tokenize_ok Model.lexTables C17_lex_tables_safe expr
  rw [h] at this
  obtain ⟨⟨pre, hp, _⟩, hpos⟩ := this
  exact ⟨⟨pre, hp⟩, hpos⟩

/-- The caret rendering: the expression, a newline, `offset` spaces, a caret —
    well defined for every offset the theorem above allows. -/
theorem C17_highlight (expr : Bytes) (off : Nat) :
    highlight expr off = expr ++ [0x0A] ++ List.replicate off 0x20 ++ [0x5E] ∧
    (highlight expr off).length = expr.length + off + 2 := by
  simp [highlight]; omega

/-- Compile returns either an expression or an error, never both, never
    neither; MustCompile panics exactly when Compile fails and otherwise returns
    what Compile returns. -/
theorem C17_compile_contract (expr : Bytes) :
    (∃ ast, (compile Model.cfg expr : Res (Node N)) = .ok ast) ∨ (∃ e, (compile Model.cfg expr : Res (Node N)) = .err e) := by
  rw [compile_eq_parseWith]
  have := Parser.parseWith_ok (N := N) (tbl := Generated.table) Model.lexTables C17_lex_tables_safe (by decide) expr
  rw [show Model.cfg.lex = Model.lexTables from rfl, show Model.cfg.tbl = Generated.table from rfl]
  cases h : (Parser.parseWith Model.lexTables Generated.table expr : Res (Node N)) with
  | ok e => exact Or.inl ⟨e, rfl⟩
  | err e => exact Or.inr ⟨e, rfl⟩
  | panic s => rw [h] at this; exact this.elim

theorem C17_must_compile (cfg : Config) (expr : Bytes) :
    ((mustCompile cfg expr : Res (Node N)).isPanic = true ↔ ¬ ∃ ast, (compile cfg expr : Res (Node N)) = .ok ast) ∧
    (∀ ast, (compile cfg expr : Res (Node N)) = .ok ast → mustCompile cfg expr = .ok ast) := by
  unfold mustCompile
  cases h : (compile cfg expr : Res (Node N)) with
  | ok ast => simp [Res.isPanic]
  | err e => simp [Res.isPanic]
  | panic s => simp [Res.isPanic]

/-! Non-vacuity: a lexer error, a parser error at end of input, an error at an invalid UTF-8 byte. -/
def errOffset : Res (Node Int) → Option Int
  | .err (.syntax off) => some off
  | _ => none
example : errOffset (compile Model.cfg [0x61, 0x2E]) = some 2 := by decide +kernel
example : errOffset (compile Model.cfg [0x61, 0x20, 0x23]) = some 2 := by decide +kernel
example : errOffset (compile Model.cfg [0x61, 0xFF]) = some 1 := by decide +kernel

end Jmes.Props
