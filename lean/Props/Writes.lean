/-
  Props.Writes — the obligation on the write-site facts regenerated from /repo
  (tools/writesites, go/ssa): every instruction reachable from the public entry
  points that writes memory writes to an object the call itself created
  (`fresh`) or to one of its per-call objects (`callLocal`) — never to a
  parameter (the caller's document), to the receiver (the shared compiled
  expression, interpreter, function table) or to package-level state.
-/
import Jmes.GeneratedWrites
namespace Jmes.Props
open Jmes.GeneratedWrites

def WritesOK (ws : List WriteSite) : Bool :=
  ws.all fun w => w.origin == .fresh || w.origin == .callLocal

theorem generated_writes_ok : WritesOK writeSites = true := by decide +kernel

/-- The write sites that are not private to the call (empty on a healthy tree);
    the check prints them when the obligation fails. -/
def offending (ws : List WriteSite) : List WriteSite :=
  ws.filter fun w => !(w.origin == .fresh || w.origin == .callLocal)

end Jmes.Props
