/-
  Props.Tables — proof obligations on the facts regenerated from /repo
  (Jmes/Generated.lean).  They are re-checked on every run; a change of a
  binding power, of a constant passed to a parse function, of a signature or
  of a character table that is not behaviour-preserving makes one of the
  `by decide` below fail.  A harmless renumbering (same order) keeps them.
-/
import Jmes.Model
import Proofs.Sigs
import Spec.Tables
namespace Jmes.Props
open Jmes TokType

def cmpToks : List TokType := [eq, ne, lt, lte, gt, gte]
def terminatorToks : List TokType :=
  [eof, uident, qident, rbracket, rparen, comma, rbrace, number, current, expref, colon, unknown, jsonLiteral, stringLiteral]

/-- The order facts the JMESPath precedence rules need, and that every
    constant handed to a parse function is the power the rules prescribe. -/
def TableOK (t : ParserTable) : Bool :=
  let p := t.power
  terminatorToks.all (fun k => p k == 0)
  && decide (0 < p pipe) && decide (p pipe < p or) && decide (p or < p and) && decide (p and < p eq)
  && cmpToks.all (fun k => p k == p eq)
  && decide (p eq < p flatten) && decide (p flatten < t.projStop) && decide (t.projStop ≤ p star)
  && decide (p star < p filter) && decide (p filter < p dot) && decide (p dot < p not)
  && decide (p not < p lbrace) && decide (p lbrace < p lbracket) && decide (p lbracket < p lparen)
  && t.ledPipe == p pipe && t.ledOr == p or && t.ledAnd == p and
  && cmpToks.all (fun k => t.ledCmp.lookup k == some (p eq))
  && t.ledFlatten == p flatten && t.ledDotSub == p dot && t.ledDotStar == p star
  && t.ledBracketStar == p star && t.nudStar == p star && t.nudFlatten == p flatten
  && t.nudBracketStar == p star && t.nudNot == p not && t.sliceProj == p star && t.filterRhs == p filter
  && t.nudParen == 0 && t.msList == 0 && t.msHash == 0 && t.filterCond == 0 && t.top == 0
  && t.ledArg == 0 && t.ledArgExpref == 0

theorem spec_table_ok : TableOK Spec.table = true := by decide
theorem generated_table_ok : TableOK Generated.table = true := by decide

theorem generated_sigs_ok : SigsOK Generated.functionTable Spec.functionTable = true := by decide +kernel

/-- Character classes agree with the specification's on every code point
    below 256 and on end of input (the guards `r >= 128` / shift counts ≥ 64
    make everything above behave like 255: see `Proofs.Lexer`). -/
def LexTablesOK (g s : Lexer.Tables) : Bool :=
  (List.range 256).all (fun r =>
    Lexer.identStart g.startBits r == Lexer.identStart s.startBits r
    && (match Lexer.identTrail g.trailBits r, Lexer.identTrail s.trailBits r with
        | .ok a, .ok c => a == c
        | _, _ => false)
    && Lexer.lookupNat r g.basic == Lexer.lookupNat r s.basic
    && g.white.contains r == s.white.contains r)
  && Lexer.identStart g.startBits (2 ^ 64 - 1) == false
  && g.basic.all (fun kv => decide (kv.1 < 256)) && g.white.all (fun r => decide (r < 256))

theorem generated_lex_ok : LexTablesOK Model.lexTables Spec.lexTables = true := by decide +kernel

end Jmes.Props
