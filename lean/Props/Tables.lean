/-
  Props.Tables — proof obligations on the facts regenerated from /repo
  (Jmes/Generated.lean).  They are re-checked on every run; a change of a
  binding power, of a constant passed to a parse function, of a signature or
  of a character table that is not behaviour-preserving makes one of the
  `by decide` below fail.  A harmless renumbering (same order) keeps them.
-/
import Jmes.Model
import Proofs.Sigs
import Proofs.TableOK
import Spec.Tables
namespace Jmes.Props
open Jmes TokType

theorem spec_table_ok : TableOK Spec.table = true := by decide
theorem generated_table_ok : TableOK Generated.table = true := by decide

theorem generated_sigs_ok : SigsOK Generated.functionTable Spec.functionTable = true := by decide +kernel

/-- Character classes agree with the specification's on every code point
    below 256 and on end of input (the guards `r >= 128` / shift counts ≥ 64
    make everything above behave like 255: see `Proofs.Lexer`). -/
def LexTablesOK (g s : Lexer.Tables) : Bool :=
  (List.range 256).all (fun r =>
    Lexer.identStart g.startBits r == Lexer.identStart s.startBits r
    && (match Lexer.identTrail g.trailBits r, Lexer.identTrail s.trailBits r with
        | .ok a, .ok c => a == c
        | _, _ => false)
    && Lexer.lookupNat r g.basic == Lexer.lookupNat r s.basic
    && g.white.contains r == s.white.contains r)
  && Lexer.identStart g.startBits (2 ^ 64 - 1) == false
  && g.basic.all (fun kv => decide (kv.1 < 256)) && g.white.all (fun r => decide (r < 256))

theorem generated_lex_ok : LexTablesOK Model.lexTables Spec.lexTables = true := by decide +kernel

end Jmes.Props
