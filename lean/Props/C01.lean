/-
  Props.C01 — core expression evaluation conforms to the JMESPath
  specification (DESIGN.md §7, C01).  `Spec.den` is the specification's
  total meaning of the core fragment; `toNode` is the AST the parser builds for
  it; the theorem says `Execute` computes `den`, never failing, on every
  document.
-/
import Props.Tables
import Spec.Semantics
import Jmes.Interp
namespace Jmes.Props
open Jmes Jmes.Interp Jmes.Spec

theorem C01_generated_table_ok : TableOK Generated.table = true := generated_table_ok
theorem C01_generated_sigs_ok : SigsOK Generated.functionTable Spec.functionTable = true := generated_sigs_ok
theorem C01_generated_lex_ok : LexTablesOK Model.lexTables Spec.lexTables = true := generated_lex_ok

variable {N : Type} [NumOps N]

mutual
/-- The AST of a core expression. -/
def toNode : Core N → Node N
  | .field k => .field k
  | .index i => .index i
  | .sub a b => .sub (toNode a) (toNode b)
  | .idx a i => .indexExpr (toNode a) (.index i)
  | .literal v => .literal v
  | .current => .current
  | .pipe a b => .pipe (toNode a) (toNode b)
  | .list xs => .msList (toNodes xs)
  | .hash kvs => .msHash (toNodeKVs kvs)
def toNodes : List (Core N) → List (Node N)
  | [] => []
  | x :: xs => toNode x :: toNodes xs
def toNodeKVs : List (Bytes × Core N) → List (Bytes × Node N)
  | [] => []
  | (k, x) :: xs => (k, toNode x) :: toNodeKVs xs
end

omit [NumOps N] in
/-- The interpreter's index arithmetic is the specification's. -/
theorem indexArr_eq_elemAt (xs : List (Val N)) (i : Int) : indexArr xs i = elemAt xs i := by
  unfold indexArr elemAt
  by_cases h0 : 0 ≤ i
  · have : ¬ i < 0 := by omega
    simp only [this, if_false, h0, if_true]
    by_cases hl : i < xs.length
    · simp [hl, h0]
    · have : xs.length ≤ i.toNat := by omega
      simp [hl, List.getD_eq_getElem?_getD, List.getElem?_eq_none this]
  · have hn : i < 0 := by omega
    simp only [hn, if_true, h0, if_false]
    by_cases hl : -(xs.length : Int) ≤ i
    · have h1 : i + xs.length < xs.length := by omega
      have h2 : i + (xs.length : Int) ≥ 0 := by omega
      simp [hl, h1, h2]
    · have : ¬ (i + (xs.length : Int) ≥ 0) := by omega
      simp [hl, this]

mutual
/-- Conformance: on every document, the core fragment evaluates — without
    error — to the value the specification assigns. -/
theorem C01_core_conformance (ft : List FnEntry) : ∀ (c : Core N) (d : Val N), eval ft (toNode c) d = .ok (den c d)
  | .field k, d => by cases d <;> simp [toNode, eval, den, fieldOf]
  | .index i, d => by cases d <;> simp [toNode, eval, den, indexOf, indexArr_eq_elemAt]
  | .sub a b, d => by
    simp only [toNode, eval, C01_core_conformance ft a d, den]
    exact C01_core_conformance ft b _
  | .idx a i, d => by
    simp only [toNode, eval, C01_core_conformance ft a d, den]
    cases den a d <;> simp [eval, indexOf, indexArr_eq_elemAt]
  | .literal v, d => by simp [toNode, eval, den]
  | .current, d => by simp [toNode, eval, den]
  | .pipe a b, d => by
    simp only [toNode, eval, C01_core_conformance ft a d, den]
    exact C01_core_conformance ft b _
  | .list xs, d => by
    cases d <;> simp [toNode, eval, den, C01_list ft xs]
  | .hash kvs, d => by
    cases d <;> simp [toNode, eval, den, C01_hash ft kvs]
theorem C01_list (ft : List FnEntry) : ∀ (xs : List (Core N)) (d : Val N), evalList ft (toNodes xs) d = .ok (denList xs d)
  | [], _ => rfl
  | x :: xs, d => by simp [toNodes, evalList, denList, C01_core_conformance ft x d, C01_list ft xs d]
theorem C01_hash (ft : List FnEntry) : ∀ (kvs : List (Bytes × Core N)) (d : Val N),
    evalKVs ft (toNodeKVs kvs) d = .ok (denKVs kvs d)
  | [], _ => rfl
  | (k, x) :: xs, d => by simp [toNodeKVs, evalKVs, denKVs, C01_core_conformance ft x d, C01_hash ft xs d]
end

/-! The cases the property names, as consequences of the specification's
    definitions (so they are facts about `den`, carried to `Execute` by the
    theorem above). -/

omit [NumOps N] in
theorem C01_missing_key_is_null (k : Bytes) (kvs : List (Bytes × Val N)) (h : Val.lookup k kvs = none) :
    den (.field k) (.obj kvs) = (.null : Val N) := by simp [den, fieldOf, h]

omit [NumOps N] in
theorem C01_field_of_non_object_is_null (k : Bytes) (d : Val N) (h : ∀ kvs, d ≠ .obj kvs) :
    den (.field k) d = .null := by
  cases d <;> simp [den, fieldOf]
  exact absurd rfl (h _)

omit [NumOps N] in
theorem C01_out_of_range_index_is_null (xs : List (Val N)) (i : Int) (h : (xs.length : Int) ≤ i ∨ i < -(xs.length : Int)) :
    den (.index i) (.arr xs) = .null := by
  simp only [den, indexOf, elemAt]
  rcases h with h | h
  · have h0 : 0 ≤ i := by omega
    have : xs.length ≤ i.toNat := by omega
    simp [h0, List.getD_eq_getElem?_getD, List.getElem?_eq_none this]
  · have h0 : ¬ 0 ≤ i := by omega
    have h1 : ¬ -(xs.length : Int) ≤ i := by omega
    simp [h0, h1]

omit [NumOps N] in
theorem C01_negative_index_counts_from_end (xs : List (Val N)) (k : Nat) (hk : 0 < k) (hl : k ≤ xs.length) :
    den (.index (-(k : Int))) (.arr xs) = xs.getD (xs.length - k) .null := by
  simp only [den, indexOf, elemAt]
  have h0 : ¬ (0 : Int) ≤ -(k : Int) := by omega
  have h1 : -(xs.length : Int) ≤ -(k : Int) := by omega
  have : (-(k : Int) + xs.length).toNat = xs.length - k := by omega
  simp [h1, this]
  intro hk0; omega

omit [NumOps N] in
theorem C01_multiselect_on_null_is_null (xs : List (Core N)) (kvs : List (Bytes × Core N)) :
    den (.list xs) (.null : Val N) = .null ∧ den (.hash kvs) (.null : Val N) = .null := by
  simp [den]

/-- Non-vacuity: a negative index on a multi-select result, a field access on
    a string, a pipe after a null, the empty quoted key. -/
example : den (N := Int) (.idx (.list [.field [0x61], .literal (.num 7)]) (-1)) (.obj [([0x61], .num 1)]) = .num 7 := by
  simp [den, denList, indexOf, elemAt, fieldOf, Val.lookup]
example : den (N := Int) (.sub (.field [0x73]) (.field [])) (.obj [([0x73], .str [0x78])]) = .null := by
  simp [den, fieldOf, Val.lookup]
example : den (N := Int) (.pipe (.field [0x6D]) (.literal (.num 1))) (.obj []) = .num 1 := by
  simp [den]

end Jmes.Props
