/-
  Props.C01 — core expression evaluation conforms to the JMESPath
  specification (DESIGN.md §7, C01).  `Spec.den` is the specification's
  total meaning of the core fragment; `toNode` is the AST the parser builds for
  it; the theorem says `Execute` computes `den`, never failing, on every
  document.
-/
import Proofs.GenIndex
import Props.Tables
import Spec.Semantics
import Jmes.Interp
import Proofs.Printer
import Props.Bytes
namespace Jmes.Props
open Jmes Jmes.Interp Jmes.Spec

theorem C01_generated_table_ok : TableOK Generated.table = true := generated_table_ok
theorem C01_generated_sigs_ok : SigsOK Generated.functionTable Spec.functionTable = true := generated_sigs_ok
theorem C01_generated_lex_ok : LexTablesOK Model.lexTables Spec.lexTables = true := generated_lex_ok

variable {N : Type} [NumOps N]

mutual
/-- The AST of a core expression. -/
def toNode : Core N → Node N
  | .field k => .field k
  | .index i => .indexExpr .identity (.index i)
  | .sub a b => .sub (toNode a) (toNode b)
  | .idx a i => .indexExpr (toNode a) (.index i)
  | .literal v => .literal v
  | .current => .current
  | .pipe a b => .pipe (toNode a) (toNode b)
  | .list xs => .msList (toNodes xs)
  | .hash kvs => .msHash (toNodeKVs kvs)
def toNodes : List (Core N) → List (Node N)
  | [] => []
  | x :: xs => toNode x :: toNodes xs
def toNodeKVs : List (Bytes × Core N) → List (Bytes × Node N)
  | [] => []
  | (k, x) :: xs => (k, toNode x) :: toNodeKVs xs
end

omit [NumOps N] in
/-- The interpreter's index arithmetic is the specification's. -/
theorem indexArr_eq_elemAt (xs : List (Val N)) (i : Int) : indexArr xs i = elemAt xs i := by
  unfold indexArr elemAt
  by_cases h0 : 0 ≤ i
  · have : ¬ i < 0 := by omega
    simp only [this, if_false, h0, if_true]
    by_cases hl : i < xs.length
    · simp [hl, h0]
    · have : xs.length ≤ i.toNat := by omega
      simp [hl, List.getD_eq_getElem?_getD, List.getElem?_eq_none this]
  · have hn : i < 0 := by omega
    simp only [hn, if_true, h0, if_false]
    by_cases hl : -(xs.length : Int) ≤ i
    · have h1 : i + xs.length < xs.length := by omega
      have h2 : i + (xs.length : Int) ≥ 0 := by omega
      simp [hl, h1, h2]
    · have : ¬ (i + (xs.length : Int) ≥ 0) := by omega
      simp [hl, this]

/-- ON THE CODE AS WRITTEN: `GenSlice.indexSel` is the translation (tools/gotolean, on every run) of the
    index clause of `Execute` in interpreter.go — the statements under `case ASTIndex:` for a `[]interface{}`.
    For every length of a Go slice and every int64 index, reading the position it selects is the specification's
    `elemAt` (negative indices count from the end, out of range is null). -/
theorem C01_translated_index_clause (xs : List (Val N)) (i : Int) (hlen : (xs.length : Int) ≤ 9223372036854775807)
    (hi : -9223372036854775808 ≤ i ∧ i ≤ 9223372036854775807) :
    (match GenSlice.indexSel xs.length i with
      | some k => xs.getD k.toNat .null
      | none => .null) = elemAt xs i := by
  exact (gen_index_is_indexArr xs i hlen hi).symm.trans (indexArr_eq_elemAt xs i)

example : GenSlice.indexSel 3 (-1) = some 2 ∧ GenSlice.indexSel 3 3 = none ∧ GenSlice.indexSel 3 (-4) = none ∧ GenSlice.indexSel 0 0 = none := by decide

mutual
/-- Conformance: on every document, the core fragment evaluates — without
    error — to the value the specification assigns. -/
theorem C01_core_conformance (ft : List FnEntry) : ∀ (c : Core N) (d : Val N), eval ft (toNode c) d = .ok (den c d)
  | .field k, d => by cases d <;> simp [toNode, eval, den, fieldOf]
  | .index i, d => by cases d <;> simp [toNode, eval, den, indexOf, indexArr_eq_elemAt]
  | .sub a b, d => by
    simp only [toNode, eval, C01_core_conformance ft a d, den]
    exact C01_core_conformance ft b _
  | .idx a i, d => by
    simp only [toNode, eval, C01_core_conformance ft a d, den]
    cases den a d <;> simp [eval, indexOf, indexArr_eq_elemAt]
  | .literal v, d => by simp [toNode, eval, den]
  | .current, d => by simp [toNode, eval, den]
  | .pipe a b, d => by
    simp only [toNode, eval, C01_core_conformance ft a d, den]
    exact C01_core_conformance ft b _
  | .list xs, d => by
    cases d <;> simp [toNode, eval, den, C01_list ft xs]
  | .hash kvs, d => by
    cases d <;> simp [toNode, eval, den, C01_hash ft kvs]
theorem C01_list (ft : List FnEntry) : ∀ (xs : List (Core N)) (d : Val N), evalList ft (toNodes xs) d = .ok (denList xs d)
  | [], _ => rfl
  | x :: xs, d => by simp [toNodes, evalList, denList, C01_core_conformance ft x d, C01_list ft xs d]
theorem C01_hash (ft : List FnEntry) : ∀ (kvs : List (Bytes × Core N)) (d : Val N),
    evalKVs ft (toNodeKVs kvs) d = .ok (denKVs kvs d)
  | [], _ => rfl
  | (k, x) :: xs, d => by simp [toNodeKVs, evalKVs, denKVs, C01_core_conformance ft x d, C01_hash ft xs d]
end

/-! The cases the property names, as consequences of the specification's
    definitions (so they are facts about `den`, carried to `Execute` by the
    theorem above). -/

omit [NumOps N] in
theorem C01_missing_key_is_null (k : Bytes) (kvs : List (Bytes × Val N)) (h : Val.lookup k kvs = none) :
    den (.field k) (.obj kvs) = (.null : Val N) := by simp [den, fieldOf, h]

omit [NumOps N] in
theorem C01_field_of_non_object_is_null (k : Bytes) (d : Val N) (h : ∀ kvs, d ≠ .obj kvs) :
    den (.field k) d = .null := by
  cases d <;> simp [den, fieldOf]
  exact absurd rfl (h _)

omit [NumOps N] in
theorem C01_out_of_range_index_is_null (xs : List (Val N)) (i : Int) (h : (xs.length : Int) ≤ i ∨ i < -(xs.length : Int)) :
    den (.index i) (.arr xs) = .null := by
  simp only [den, indexOf, elemAt]
  rcases h with h | h
  · have h0 : 0 ≤ i := by omega
    have : xs.length ≤ i.toNat := by omega
    simp [h0, List.getD_eq_getElem?_getD, List.getElem?_eq_none this]
  · have h0 : ¬ 0 ≤ i := by omega
    have h1 : ¬ -(xs.length : Int) ≤ i := by omega
    simp [h0, h1]

omit [NumOps N] in
theorem C01_negative_index_counts_from_end (xs : List (Val N)) (k : Nat) (hk : 0 < k) (hl : k ≤ xs.length) :
    den (.index (-(k : Int))) (.arr xs) = xs.getD (xs.length - k) .null := by
  simp only [den, indexOf, elemAt]
  have h0 : ¬ (0 : Int) ≤ -(k : Int) := by omega
  have h1 : -(xs.length : Int) ≤ -(k : Int) := by omega
  have : (-(k : Int) + xs.length).toNat = xs.length - k := by omega
  simp [h1, this]
  intro hk0; omega

omit [NumOps N] in
theorem C01_multiselect_on_null_is_null (xs : List (Core N)) (kvs : List (Bytes × Core N)) :
    den (.list xs) (.null : Val N) = .null ∧ den (.hash kvs) (.null : Val N) = .null := by
  simp [den]

/-- Non-vacuity: a negative index on a multi-select result, a field access on
    a string, a pipe after a null, the empty quoted key. -/
example : den (N := Int) (.idx (.list [.field [0x61], .literal (.num 7)]) (-1)) (.obj [([0x61], .num 1)]) = .num 7 := by
  simp [den, denList, indexOf, elemAt, fieldOf, Val.lookup]
example : den (N := Int) (.sub (.field [0x73]) (.field [])) (.obj [([0x73], .str [0x78])]) = .null := by
  simp [den, fieldOf, Val.lookup]
example : den (N := Int) (.pipe (.field [0x6D]) (.literal (.num 1))) (.obj []) = .num 1 := by
  simp [den]

/-! ### End to end: from the written expression to the specified value

`Spec.PE` is the concrete syntax (Spec/Printer.lean); its core part maps to
`Core` by `coreOf`.  For every core expression written by the printer — with
any explicit parentheses — the parser of /repo (regenerated table) yields the
AST whose evaluation is the specification's value. -/

open Jmes.Spec Jmes.Parser

mutual
/-- the core part of the concrete syntax -/
def isCore : PE N → Bool
  | .ident _ | .quoted _ | .raw _ | .lit _ _ | .current | .idx0 _ _ => true
  | .idx l _ _ => isCore l
  | .sub l r => isCore l && isCore r
  | .bin .pipe l r => isCore l && isCore r
  | .list x xs => isCore x && isCoreList xs
  | .hash _ _ v kvs => isCore v && isCoreKVs kvs
  | .paren e => isCore e
  | _ => false
def isCoreList : List (PE N) → Bool
  | [] => true
  | x :: xs => isCore x && isCoreList xs
def isCoreKVs : List (Bool × Bytes × PE N) → Bool
  | [] => true
  | (_, _, v) :: rest => isCore v && isCoreKVs rest
end

mutual
def coreOf : PE N → Core N
  | .ident n => .field n
  | .quoted n => .field n
  | .raw s => .literal (.str s)
  | .lit _ v => .literal v
  | .current => .current
  | .idx0 _ i => .index i
  | .idx l _ i => .idx (coreOf l) i
  | .sub l r => .sub (coreOf l) (coreOf r)
  | .bin _ l r => .pipe (coreOf l) (coreOf r)
  | .list x xs => .list (coreOf x :: coreOfList xs)
  | .hash _ k v kvs => .hash ((k, coreOf v) :: coreOfKVs kvs)
  | .paren e => coreOf e
  | _ => .current
def coreOfList : List (PE N) → List (Core N)
  | [] => []
  | x :: xs => coreOf x :: coreOfList xs
def coreOfKVs : List (Bool × Bytes × PE N) → List (Bytes × Core N)
  | [] => []
  | (_, k, v) :: rest => (k, coreOf v) :: coreOfKVs rest
end

section
omit [NumOps N]
mutual
theorem node_coreOf : (e : PE N) → isCore e = true → node e = toNode (coreOf e)
  | .ident _, _ | .quoted _, _ | .raw _, _ | .lit _ _, _ | .current, _ | .idx0 _ _, _ => by simp [node, coreOf, toNode]
  | .idx l _ _, h => by
    simp only [isCore] at h
    simp [node, coreOf, toNode, node_coreOf l h]
  | .sub l r, h => by
    simp only [isCore, Bool.and_eq_true] at h
    simp [node, coreOf, toNode, node_coreOf l h.1, node_coreOf r h.2]
  | .bin op l r, h => by
    cases op with
    | pipe =>
      simp only [isCore, Bool.and_eq_true] at h
      simp [node, coreOf, toNode, BinOp.node, node_coreOf l h.1, node_coreOf r h.2]
    | or => simp [isCore] at h
    | and => simp [isCore] at h
    | cmp c => simp [isCore] at h
  | .list x xs, h => by
    simp only [isCore, Bool.and_eq_true] at h
    simp [node, coreOf, toNode, toNodes, node_coreOf x h.1, nodeList_coreOf xs h.2]
  | .hash _ k v kvs, h => by
    simp only [isCore, Bool.and_eq_true] at h
    simp [node, coreOf, toNode, toNodeKVs, node_coreOf v h.1, nodeKVs_coreOf kvs h.2]
  | .paren e, h => by
    simp only [isCore] at h
    simp [node, coreOf, node_coreOf e h]
  | .not _, h | .call _ _, h | .star0 _, h | .dstar _ _, h | .bstar0 _, h | .bstar _ _, h | .flat0 _, h | .flat _ _, h
  | .slice0 _ _, h | .slice _ _ _, h | .filt0 _ _, h | .filt _ _ _, h => by simp [isCore] at h
theorem nodeList_coreOf : (xs : List (PE N)) → isCoreList xs = true → nodeList xs = toNodes (coreOfList xs)
  | [], _ => rfl
  | x :: xs, h => by
    simp only [isCoreList, Bool.and_eq_true] at h
    simp [nodeList, coreOfList, toNodes, node_coreOf x h.1, nodeList_coreOf xs h.2]
theorem nodeKVs_coreOf : (kvs : List (Bool × Bytes × PE N)) → isCoreKVs kvs = true → nodeKVs kvs = toNodeKVs (coreOfKVs kvs)
  | [], _ => rfl
  | (_, k, v) :: rest, h => by
    simp only [isCoreKVs, Bool.and_eq_true] at h
    simp [nodeKVs, coreOfKVs, toNodeKVs, node_coreOf v h.1, nodeKVs_coreOf rest h.2]
end
end

/-- **End to end.**  A core expression written by the printer (minimal
    parentheses plus any explicit ones) is parsed by /repo's parser into an AST
    that evaluates, on every document and without error, to the value the
    specification assigns to it. -/
theorem C01_printed_core_evaluates_to_den (ft : List FnEntry) (e : PE N) (hc : isCore e = true) (hw : Parser.wf e) (d : Val N) :
    (parseTokens Generated.table (ppE e ++ [eofTok 0]) >>= fun ast => eval ft ast d) = .ok (den (coreOf e) d) := by
  rw [parseTokens_congr (sameDecisions_of_tableOK Generated.table Spec.table generated_table_ok spec_table_ok),
    round_trip_spec e hw]
  show eval ft (node e) d = _
  rw [node_coreOf e hc]
  exact C01_core_conformance ft _ d

open Jmes.Lexer in
/-- **End to end from bytes.**  Any rendering (any white space) of a printed core
    expression: `Search` returns the specification's value. -/
theorem C01_written_core_evaluates_to_den (e : PE N) (hc : isCore e = true) (hw : Parser.wf e)
    (keys : List (TokType × Bytes)) (s : Bytes) (hk : KeysOf (ppE e) keys) (hr : Rendered keys s) (d : Val N) :
    Api.search Model.cfg s d = .ok (den (coreOf e) d) := by
  have hcomp : (Api.compile Model.cfg s : Res (Node N)) = .ok (node e) := by
    refine compile_rendered hk hr ?_
    rw [parseTokens_congr (sameDecisions_of_tableOK Generated.table Spec.table generated_table_ok spec_table_ok)]
    exact round_trip_spec e hw
  simp only [Api.search, hcomp]
  rw [node_coreOf e hc]
  exact C01_core_conformance _ _ d

/-- **Every expression, however it is written**: if the bytes compile to the AST of a core term `c`
    — the image of `toNode`: identifiers, sub-expressions, indices, literals, raw strings, `@`, pipes,
    multi-select lists and hashes — then `Search` returns exactly the value the specification assigns
    to `c`, on every document and without error.  (Which AST a given spelling compiles to is the
    subject of C03 and C04; this statement needs no assumption on the spelling.) -/
theorem C01_compiled_core_evaluates_to_den (s : Bytes) (c : Core N) (h : Api.compile Model.cfg s = .ok (toNode c)) (d : Val N) :
    Api.search Model.cfg s d = .ok (den c d) := by
  simp only [Api.search, h]
  exact C01_core_conformance _ c d

end Jmes.Props
