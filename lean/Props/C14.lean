/-
  Props.C14 — identifiers, raw strings and JSON literals denote exactly the
  written name/value (DESIGN.md §7, C14).  Proved here: the raw-string round
  trip, the delimiter scan on escaped content, the backtick un-escaping, and
  that the REGENERATED bit masks denote exactly [A-Za-z_] and [A-Za-z0-9_] for
  every code point.  The JSON string codec round trip and multi-byte content
  are validated by the `ident` / `jsoncodec` streams (see DESIGN.md).
-/
import Proofs.LiteralToken
import Props.Tables
import Proofs.LexerRoundTrip
import Props.Bytes
import Proofs.QuotedIdent
import Proofs.JsonValue
import Proofs.RawString
namespace Jmes.Props
open Jmes Jmes.Lexer

theorem C14_generated_table_ok : TableOK Generated.table = true := generated_table_ok
theorem C14_generated_sigs_ok : SigsOK Generated.functionTable Spec.functionTable = true := generated_sigs_ok
theorem C14_generated_lex_ok : LexTablesOK Model.lexTables Spec.lexTables = true := generated_lex_ok

/-- A raw string literal (with ' written as \') denotes exactly the string — every
    well-formed UTF-8 string that does not end with a backslash, every plane, backslashes
    included (also directly before a quote: `\'` is written `\\'`): scanning the spelling
    followed by the closing quote yields the string and leaves the rest of the expression.
    The condition is necessary (`C14_raw_string_trailing_backslash_is_unspellable`). -/
theorem C14_raw_string_round_trip (s rest : Bytes) (ha : Json.ValidUtf8 s) (hok : RawEndOK s) :
    rawBody (rawSpell s ++ 0x27 :: rest).length (rawSpell s ++ 0x27 :: rest) = some (s, rest) :=
  rawBody_rawSpell_utf8 ha rest _ hok (by simp)

/-- `RawEndOK s` says that the last byte of `s`, if there is one, is not a backslash. -/
theorem C14_raw_string_condition (s : Bytes) : RawEndOK s ↔ s.getLast? ≠ some 0x5C :=
  RawEndOK_iff_getLast? s

/-- A string that ends with a backslash cannot be written as a raw string: in the spelling of
    `s ++ "\\"` followed by the closing quote, the last backslash escapes that quote and the
    scanner runs off the end of the input (an unterminated literal) — for every byte string `s`
    and whatever the fuel; in particular the round trip fails. -/
theorem C14_raw_string_trailing_backslash_is_unspellable (s : Bytes) (fuel : Nat) :
    rawBody fuel (rawSpell (s ++ [0x5C]) ++ 0x27 :: []) = none :=
  rawBody_rawSpell_trailing_backslash fuel s

/-- … so the hypothesis of `C14_raw_string_round_trip` cannot be dropped: with the fuel used
    there, the spelling of a string that ends with a backslash is never read back as the string. -/
theorem C14_raw_string_trailing_backslash_no_round_trip (s : Bytes) :
    rawBody (rawSpell (s ++ [0x5C]) ++ 0x27 :: []).length (rawSpell (s ++ [0x5C]) ++ 0x27 :: [])
      ≠ some (s ++ [0x5C], []) := by
  rw [C14_raw_string_trailing_backslash_is_unspellable]; exact fun h => nomatch h

/-- Quoted identifiers and literals: the delimiter scan returns exactly the
    delimited text when it is made of units (plain bytes, or a backslash and the
    byte it escapes) — which is what JSON string escaping and the \` spelling produce. -/
theorem C14_delimited_text (endc : UInt8) (he : endc < 0x80) (hne : endc ≠ 0x5C) (body rest : Bytes)
    (hu : Units endc body) :
    consumeUntil endc.toNat (body ++ endc :: rest).length (body ++ endc :: rest) = some (body, rest) :=
  consumeUntil_units endc he hne body hu rest _ (by simp)

/-- The backtick literal: replacing \` by ` recovers the JSON text, whatever it is. -/
theorem C14_literal_unescape (jsonText : Bytes) : unescapeBacktick (btSpell jsonText) = jsonText :=
  unescapeBacktick_btSpell jsonText

def isAlphaUnderscore (r : Nat) : Bool := (0x41 ≤ r && r ≤ 0x5A) || (0x61 ≤ r && r ≤ 0x7A) || r == 0x5F
def isAlnumUnderscore (r : Nat) : Bool := isAlphaUnderscore r || (0x30 ≤ r && r ≤ 0x39)

theorem shl1_big (k : Nat) (h : 64 ≤ k) : shl1 k = 0 := by unfold shl1; simp; omega

/-- Outside 64..127 no code point (nor end of input, which `uint64(r)` turns
    into 2^64−1) passes the identifier-start test, whatever the mask: Go's shift
    semantics make `1 << k` vanish for k ≥ 64. -/
theorem identStart_range (bits r : Nat) (hr64 : r < 2 ^ 64) (h : identStart bits r = true) : 64 ≤ r ∧ r < 128 := by
  unfold identStart at h
  by_cases hr : 64 ≤ r ∧ r < 128
  · exact hr
  · have : shl1 (subWrap64 r) = 0 := by
      apply shl1_big
      unfold subWrap64
      by_cases h1 : r < 64
      · have : r + 2 ^ 64 - 64 < 2 ^ 64 := by omega
        rw [Nat.mod_eq_of_lt this]; omega
      · have h2 : 128 ≤ r := by omega
        have e : r + 2 ^ 64 - 64 = (r - 64) + 2 ^ 64 := by omega
        have h4 : r - 64 < 2 ^ 64 := by omega
        rw [e, Nat.add_mod_right, Nat.mod_eq_of_lt h4]; omega
    rw [this] at h
    simp at h

/-- The REGENERATED start mask denotes exactly [A-Za-z_] — on every rune and on end of input. -/
theorem C14_identifier_start (r : Nat) (hr64 : r < 2 ^ 64) :
    identStart Generated.identifierStartBits r = isAlphaUnderscore r := by
  by_cases hr : 64 ≤ r ∧ r < 128
  · have : ∀ k, k < 64 → identStart Generated.identifierStartBits (64 + k) = isAlphaUnderscore (64 + k) := by decide +kernel
    have := this (r - 64) (by omega)
    rwa [show 64 + (r - 64) = r by omega] at this
  · have h1 : identStart Generated.identifierStartBits r = false := by
      cases h : identStart Generated.identifierStartBits r
      · rfl
      · exact absurd (identStart_range _ r hr64 h) hr
    rw [h1]
    unfold isAlphaUnderscore
    symm
    simp only [Bool.or_eq_false_iff, Bool.and_eq_false_iff, decide_eq_false_iff_not, beq_eq_false_iff_ne]
    omega

/-- The REGENERATED trailing mask denotes exactly [A-Za-z0-9_]: the scanner
    continues on exactly those runes (and never indexes the table out of range). -/
theorem C14_identifier_trailing (r : Nat) :
    identTrail Generated.identifierTrailingBits r = .ok (isAlnumUnderscore r) := by
  by_cases hr : r < 128
  · have : ∀ k, k < 128 → (match identTrail Generated.identifierTrailingBits k with
        | .ok bv => bv == isAlnumUnderscore k
        | _ => false) = true := by decide +kernel
    have := this r hr
    cases h : identTrail Generated.identifierTrailingBits r with
    | ok bv => rw [h] at this; simp at this; rw [this]
    | err e => rw [h] at this; simp at this
    | panic p => rw [h] at this; simp at this
  · have : identTrail Generated.identifierTrailingBits r = .ok false := by
      unfold identTrail; simp; omega
    rw [this]
    congr 1
    unfold isAlnumUnderscore isAlphaUnderscore
    symm
    simp only [Bool.or_eq_false_iff, Bool.and_eq_false_iff, decide_eq_false_iff_not, beq_eq_false_iff_ne]
    omega

/-- White space between tokens is skipped: the four white-space characters of
    the language, and only they, produce no token. -/
theorem C14_white_space (r : Nat) : Generated.whiteSpace.contains r = (r == 0x20 || r == 0x09 || r == 0x0A || r == 0x0D) := by
  -- stated up to the order in which the source (or the exhaustive probe) lists the four characters
  have hp : Generated.whiteSpace.Perm [0x20, 0x09, 0x0A, 0x0D] := by decide
  rw [hp.contains_eq]
  simp only [List.contains_cons, List.contains_nil, Bool.or_false, Bool.or_assoc]

/-! Non-vacuity. -/
example : RawOK [0x61, 0x5C, 0x62, 0x27, 0x63] ∧ Ascii [0x61, 0x5C, 0x62, 0x27, 0x63] := by
  refine ⟨by simp [RawOK], ?_⟩
  intro c hc; simp at hc; rcases hc with rfl | rfl | rfl | rfl | rfl <;> decide
example : RawEndOK [0x61, 0x5C, 0x62, 0x27, 0x63] := RawOK.toEnd (by simp [RawOK])
example : rawSpell [0x61, 0x5C, 0x62, 0x27, 0x63] = [0x61, 0x5C, 0x62, 0x5C, 0x27, 0x63] := by decide
/-- A backslash directly before a quote (`a\'b`): `RawEndOK` holds, `RawOK` does not; the
    spelling is `a\\'b` and the scanner reads it back as the string, leaving what follows. -/
example : RawEndOK [0x61, 0x5C, 0x27, 0x62] ∧ ¬ RawOK [0x61, 0x5C, 0x27, 0x62] := by
  refine ⟨by simp [RawEndOK], by simp [RawOK]⟩
example : rawSpell [0x61, 0x5C, 0x27, 0x62] = [0x61, 0x5C, 0x5C, 0x27, 0x62] := by decide
example : rawBody (rawSpell [0x61, 0x5C, 0x27, 0x62] ++ 0x27 :: [0x2E, 0x78]).length
    (rawSpell [0x61, 0x5C, 0x27, 0x62] ++ 0x27 :: [0x2E, 0x78]) = some ([0x61, 0x5C, 0x27, 0x62], [0x2E, 0x78]) := by decide
example : Json.ValidUtf8 [0x61, 0x5C, 0x27, 0x62] :=
  .ascii _ _ (by decide) (.ascii _ _ (by decide) (.ascii _ _ (by decide) (.ascii _ _ (by decide) .nil)))
/-- the string `\'` alone, and the trailing backslash that cannot be written -/
example : rawBody 4 (rawSpell [0x5C, 0x27] ++ [0x27]) = some ([0x5C, 0x27], []) := by decide
example : ¬ RawEndOK [0x61, 0x5C] := by simp [RawEndOK]
example : rawBody 4 (rawSpell [0x61, 0x5C] ++ [0x27]) = none := by decide
example : Units 0x22 [0x61, 0x5C, 0x22, 0x5C, 0x5C] :=
  .plain _ _ (by decide) (by decide) (by decide) (.esc _ _ (by decide) (.esc _ _ (by decide) .nil))

/-! ### tokens are read back as written, white space between them is insignificant -/

open Jmes.Lexer in
/-- The lexer of /repo (regenerated character tables) returns exactly the
    tokens a byte string renders — identifiers `[A-Za-z_][A-Za-z0-9_]*`,
    numbers, operators, raw strings `'…'` (value = the string written, `\'` for
    a quote), literals (value = the JSON text, `` \` `` for a backtick), quoted
    identifiers (value = the JSON-decoded name) — whatever white space
    separates them. -/
theorem C14_tokens_read_back (keys : List (TokType × Bytes)) (s : Bytes) (hr : Rendered keys s) :
    ∃ lexed, Lexer.tokenize Model.lexTables s = .ok (lexed ++ [⟨.eof, [], s.length⟩]) ∧ lexed.map keyOf = keys :=
  tokenize_rendered (tablesAscii_of_bool generated_tables_ascii) hr

open Jmes.Lexer in
theorem C14_white_space_insignificant {N : Type} [NumOps N] (keys : List (TokType × Bytes)) (s1 s2 : Bytes) (ast : Node N)
    (h1 : Rendered keys s1) (h2 : Rendered keys s2) (hp : Api.compile Model.cfg s1 = .ok ast) :
    Api.compile Model.cfg s2 = .ok ast :=
  compile_same_tokens h1 h2 hp

/-! ### quoted identifiers, for every Unicode string -/

open Jmes.Lexer Jmes.Json in
/-- For every well-formed UTF-8 string `s`, the quoted identifier spelled with
    JSON string escaping (`"` + `json.Marshal` body of `s` + `"`) is read by
    /repo's lexer as the token (quoted identifier, value `s`) — every plane,
    control characters, quotes, backslashes, `<`, `>`, `&`, U+2028/9 included. -/
theorem C14_quoted_identifier_token (s : Bytes) (hv : ValidUtf8 s) :
    ∃ pos, Lexer.tokenize Model.lexTables (0x22 :: (escape s ++ [0x22])) =
      .ok [⟨.qident, s, pos⟩, ⟨.eof, [], (0x22 :: (escape s ++ [0x22])).length⟩] := by
  have hr : Rendered [(.qident, s)] ([] ++ ((0x22 :: (escape s ++ [0x22])) ++ [])) :=
    Rendered.cons [] .qident s _ [] [] (by simp) (spell_quoted s hv) (Rendered.nil [] (by simp)) trivial
  simp only [List.nil_append, List.append_nil] at hr
  obtain ⟨lexed, hl, hk⟩ := tokenize_rendered (tablesAscii_of_bool generated_tables_ascii) hr
  cases lexed with
  | nil => simp at hk
  | cons t ts =>
    cases ts with
    | cons u us => simp at hk
    | nil =>
      simp only [List.map_cons, List.map_nil, List.cons.injEq, keyOf, Prod.mk.injEq, and_true] at hk
      obtain ⟨t1, t2, t3⟩ := t
      simp only at hk
      obtain ⟨rfl, rfl⟩ := hk
      exact ⟨t3, hl⟩

open Jmes.Lexer Jmes.Json Jmes.Spec in
/-- … and selects exactly the key `s`: the expression compiles to `Field s`, whose
    evaluation on an object is the member named `s` (null when there is none). -/
theorem C14_quoted_identifier_selects_key {N : Type} [NumOps N] (s : Bytes) (hv : ValidUtf8 s)
    (kvs : List (Bytes × Val N)) :
    Api.search Model.cfg (0x22 :: (escape s ++ [0x22])) (.obj kvs) = .ok ((Val.lookup s kvs).getD .null) := by
  have hr : Rendered [(.qident, s)] ([] ++ ((0x22 :: (escape s ++ [0x22])) ++ [])) :=
    Rendered.cons [] .qident s _ [] [] (by simp) (spell_quoted s hv) (Rendered.nil [] (by simp)) trivial
  simp only [List.nil_append, List.append_nil] at hr
  have hk : Parser.KeysOf (ppE (PE.quoted s : PE N)) [(.qident, s)] := by
    simp only [ppE]
    exact Parser.KeysOf.cons rfl (fun _ => rfl) Parser.KeysOf.nil
  have hcomp : (Api.compile Model.cfg (0x22 :: (escape s ++ [0x22])) : Res (Node N)) = .ok (.field s) := by
    refine compile_rendered hk hr ?_
    rw [Parser.parseTokens_congr (sameDecisions_of_tableOK Generated.table Spec.table generated_table_ok spec_table_ok)]
    exact Parser.round_trip_spec (PE.quoted s) trivial
  simp only [Api.search, hcomp, Interp.eval]

/-! ### literals -/

open Jmes.Json in
/-- For every JSON value `v` (finite numbers, well-formed UTF-8, ascending keys),
    the text `json.Marshal` writes for `v` decodes to exactly `v` — so the
    backtick literal spelled as that text (with `` ` `` written `` \` ``,
    `C14_literal_unescape`) denotes exactly `v`.  Conditional on `NumCodec`
    (the number text codec is ported, not verified). -/
theorem C14_literal_text_denotes_value {N : Type} [NumOps N] (hN : NumCodec N) (v : Val N) (hv : okV v) (hd : depthV v ≤ maxDepth) :
    (Json.decode (unescapeBacktick (btSpell (encode v))) : Option (Val N)) = some v := by
  rw [unescapeBacktick_btSpell]
  exact decode_encode hN v hv hd

open Jmes.Lexer Jmes.Json Jmes.Spec in
/-- … and as an expression, for every well-formed UTF-8 string `s` that does not end with a
    backslash: `'` + the spelling of `s` + `'` compiles to the literal `s`
    (so `Search` returns exactly `s`, whatever the document). -/
theorem C14_raw_string_denotes {N : Type} [NumOps N] (s : Bytes) (hv : ValidUtf8 s) (hok : RawEndOK s) (d : Val N) :
    Api.search Model.cfg (0x27 :: (rawSpell s ++ [0x27])) d = .ok (.str s) := by
  have hr : Rendered [(.stringLiteral, s)] ([] ++ ((0x27 :: (rawSpell s ++ [0x27])) ++ [])) :=
    Rendered.cons [] .stringLiteral s _ [] [] (by simp) (Spell.raw s hv hok) (Rendered.nil [] (by simp)) trivial
  simp only [List.nil_append, List.append_nil] at hr
  have hk : Parser.KeysOf (ppE (PE.raw s : PE N)) [(.stringLiteral, s)] := by
    simp only [ppE]
    exact Parser.KeysOf.cons rfl (fun _ => rfl) Parser.KeysOf.nil
  have hcomp : (Api.compile Model.cfg (0x27 :: (rawSpell s ++ [0x27])) : Res (Node N)) = .ok (.literal (.str s)) := by
    refine compile_rendered hk hr ?_
    rw [Parser.parseTokens_congr (sameDecisions_of_tableOK Generated.table Spec.table generated_table_ok spec_table_ok)]
    exact Parser.round_trip_spec (PE.raw s) trivial
  simp only [Api.search, hcomp, Interp.eval]

open Jmes.Lexer Jmes.Json Jmes.Spec in
/-- **Backtick literals, end to end, for every JSON value** (finite numbers, well-formed UTF-8,
    ascending keys, nesting within the decoder's limit): the expression `` ` `` + JSON text of `v`
    with `` ` `` written `` \` `` + `` ` `` compiles to the literal `v`, so `Search` returns exactly
    `v` on every document.  Conditional on the number-text contract (`NumCodec`: the text reads
    back; `NumPlain`: it is plain ASCII) — both proved for the integer instance
    (`C14_literal_contract_satisfiable`), assumed for the ported float formatter. -/
theorem C14_literal_denotes {N : Type} [NumOps N] (hN : NumCodec N) (hP : NumPlain N) (v : Val N) (hv : okV v)
    (hd : depthV v ≤ maxDepth) (d : Val N) :
    Api.search Model.cfg (0x60 :: (btSpell (encode v) ++ [0x60])) d = .ok v := by
  have hr : Rendered [(.jsonLiteral, encode v)] ([] ++ ((0x60 :: (btSpell (encode v) ++ [0x60])) ++ [])) :=
    Rendered.cons [] .jsonLiteral (encode v) _ [] [] (by simp) (spell_literal hP v hv) (Rendered.nil [] (by simp)) trivial
  simp only [List.nil_append, List.append_nil] at hr
  have hk : Parser.KeysOf (ppE (PE.lit (encode v) v : PE N)) [(.jsonLiteral, encode v)] := by
    simp only [ppE]
    exact Parser.KeysOf.cons rfl (fun _ => rfl) Parser.KeysOf.nil
  have hcomp : (Api.compile Model.cfg (0x60 :: (btSpell (encode v) ++ [0x60])) : Res (Node N)) = .ok (.literal v) := by
    refine compile_rendered hk hr ?_
    rw [Parser.parseTokens_congr (sameDecisions_of_tableOK Generated.table Spec.table generated_table_ok spec_table_ok)]
    exact Parser.round_trip_spec (PE.lit (encode v) v) (decode_encode hN v hv hd)
  simp only [Api.search, hcomp, Interp.eval]

/-- The two number-text hypotheses are satisfiable together (integer instance). -/
theorem C14_literal_contract_satisfiable : Json.NumCodec Int ∧ Lexer.NumPlain Int := ⟨intNumCodec, intNumPlain⟩

end Jmes.Props
