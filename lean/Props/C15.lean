/-
  Props.C15 — pipe is sequential composition and sub-expressions are
  referentially transparent (DESIGN.md §7, C15).
-/
import Proofs.PipeCompose
import Props.C04
import Props.Tables
import Jmes.Interp
import Proofs.Printer
namespace Jmes.Props
open Jmes Jmes.Interp

theorem C15_generated_table_ok : TableOK Generated.table = true := generated_table_ok
theorem C15_generated_sigs_ok : SigsOK Generated.functionTable Spec.functionTable = true := generated_sigs_ok
theorem C15_generated_lex_ok : LexTablesOK Model.lexTables Spec.lexTables = true := generated_lex_ok

variable {N : Type} [NumOps N]

/-- `A | B` on `d` is `B` on the result of `A` on `d`; it is an error (or a
    panic) exactly when one of the two steps is. -/
theorem C15_pipe_is_composition (ft : List FnEntry) (a b : Node N) (d : Val N) :
    eval ft (.pipe a b) d = (eval ft a d >>= fun v => eval ft b v) := by
  simp only [eval]
  cases eval ft a d <;> rfl

theorem C15_pipe_value (ft : List FnEntry) (a b : Node N) (d v : Val N) (h : eval ft a d = .ok v) :
    eval ft (.pipe a b) d = eval ft b v := by
  simp only [eval, h]

theorem C15_pipe_error_iff (ft : List FnEntry) (a b : Node N) (d : Val N) :
    (∃ e, eval ft (.pipe a b) d = .err e) ↔
      (∃ e, eval ft a d = .err e) ∨ (∃ v e, eval ft a d = .ok v ∧ eval ft b v = .err e) := by
  simp only [eval]
  cases h : eval ft a d with
  | ok v => simp
  | err e => simp
  | panic p => simp

/-- One-hole contexts whose hole is evaluated against the root document. -/
inductive Ctx (N : Type) where
  | hole
  | cmpL (op : Cmp) (c : Ctx N) (r : Node N)
  | cmpR (op : Cmp) (l : Node N) (c : Ctx N)
  | orL (c : Ctx N) (r : Node N)
  | orR (l : Node N) (c : Ctx N)
  | andL (c : Ctx N) (r : Node N)
  | andR (l : Node N) (c : Ctx N)
  | not (c : Ctx N)
  | pipeL (c : Ctx N) (r : Node N)
  | subL (c : Ctx N) (r : Node N)
  | indexExprL (c : Ctx N) (r : Node N)
  | projL (c : Ctx N) (r : Node N)
  | valueProjL (c : Ctx N) (r : Node N)
  | filterL (c : Ctx N) (r cond : Node N)
  | flatten (c : Ctx N)
  | listAt (pre : List (Node N)) (c : Ctx N) (post : List (Node N))
  | hashAt (pre : List (Bytes × Node N)) (k : Bytes) (c : Ctx N) (post : List (Bytes × Node N))
  | argAt (name : Bytes) (pre : List (Bool × Node N)) (c : Ctx N) (post : List (Bool × Node N))

def Ctx.fill : Ctx N → Node N → Node N
  | .hole, e => e
  | .cmpL op c r, e => .cmp op (c.fill e) r
  | .cmpR op l c, e => .cmp op l (c.fill e)
  | .orL c r, e => .or (c.fill e) r
  | .orR l c, e => .or l (c.fill e)
  | .andL c r, e => .and (c.fill e) r
  | .andR l c, e => .and l (c.fill e)
  | .not c, e => .not (c.fill e)
  | .pipeL c r, e => .pipe (c.fill e) r
  | .subL c r, e => .sub (c.fill e) r
  | .indexExprL c r, e => .indexExpr (c.fill e) r
  | .projL c r, e => .proj (c.fill e) r
  | .valueProjL c r, e => .valueProj (c.fill e) r
  | .filterL c r cond, e => .filterProj (c.fill e) r cond
  | .flatten c, e => .flatten (c.fill e)
  | .listAt pre c post, e => .msList (pre ++ c.fill e :: post)
  | .hashAt pre k c post, e => .msHash (pre ++ (k, c.fill e) :: post)
  | .argAt name pre c post, e => .call name (pre ++ (false, c.fill e) :: post)

theorem evalList_congr (ft : List FnEntry) (pre post : List (Node N)) (x y : Node N) (d : Val N)
    (h : eval ft x d = eval ft y d) : evalList ft (pre ++ x :: post) d = evalList ft (pre ++ y :: post) d := by
  induction pre with
  | nil => simp only [List.nil_append, evalList, h]
  | cons p ps ih => simp only [List.cons_append, evalList, ih]

theorem evalKVs_congr (ft : List FnEntry) (pre post : List (Bytes × Node N)) (k : Bytes) (x y : Node N) (d : Val N)
    (h : eval ft x d = eval ft y d) : evalKVs ft (pre ++ (k, x) :: post) d = evalKVs ft (pre ++ (k, y) :: post) d := by
  induction pre with
  | nil => simp only [List.nil_append, evalKVs, h]
  | cons p ps ih => obtain ⟨pk, pv⟩ := p; simp only [List.cons_append, evalKVs, ih]

theorem evalArgs_congr (ft : List FnEntry) (pre post : List (Bool × Node N)) (x y : Node N) (d : Val N)
    (h : eval ft x d = eval ft y d) :
    evalArgs ft (pre ++ (false, x) :: post) d = evalArgs ft (pre ++ (false, y) :: post) d := by
  induction pre with
  | nil => simp only [List.nil_append, evalArgs, h]
  | cons p ps ih =>
    obtain ⟨pb, pv⟩ := p
    cases pb <;> simp only [List.cons_append, evalArgs, ih]

/-- Referential transparency: two sub-expressions with the same outcome on the
    root document are interchangeable in every root context … -/
theorem C15_context_congruence (ft : List FnEntry) (c : Ctx N) (e e' : Node N) (d : Val N)
    (h : eval ft e d = eval ft e' d) : eval ft (c.fill e) d = eval ft (c.fill e') d := by
  induction c with
  | hole => exact h
  | cmpL op c r ih => simp only [Ctx.fill, eval, ih]
  | cmpR op l c ih => simp only [Ctx.fill, eval, ih]
  | orL c r ih => simp only [Ctx.fill, eval, ih]
  | orR l c ih => simp only [Ctx.fill, eval, ih]
  | andL c r ih => simp only [Ctx.fill, eval, ih]
  | andR l c ih => simp only [Ctx.fill, eval, ih]
  | not c ih => simp only [Ctx.fill, eval, ih]
  | pipeL c r ih => simp only [Ctx.fill, eval, ih]
  | subL c r ih => simp only [Ctx.fill, eval, ih]
  | indexExprL c r ih => simp only [Ctx.fill, eval, ih]
  | projL c r ih => simp only [Ctx.fill, eval, ih]
  | valueProjL c r ih => simp only [Ctx.fill, eval, ih]
  | filterL c r cond ih => simp only [Ctx.fill, eval, ih]
  | flatten c ih => simp only [Ctx.fill, eval, ih]
  | listAt pre c post ih => simp only [Ctx.fill, eval, evalList_congr ft pre post _ _ d ih]
  | hashAt pre k c post ih => simp only [Ctx.fill, eval, evalKVs_congr ft pre post k _ _ d ih]
  | argAt name pre c post ih => simp only [Ctx.fill, eval, evalArgs_congr ft pre post _ _ d ih]

/-- … in particular a sub-expression may be replaced by the literal of its value. -/
theorem C15_substitute_literal (ft : List FnEntry) (c : Ctx N) (e : Node N) (d v : Val N)
    (h : eval ft e d = .ok v) : eval ft (c.fill e) d = eval ft (c.fill (.literal v)) d :=
  C15_context_congruence ft c e (.literal v) d (by simp only [h, eval])

/-! ### the pipe splits the written expression

At token level: writing `A | B` — `A` any expression that does not itself end
in a looser construct (`rp ≥ 1`: always true), `B` any expression that binds
tighter than a pipe — yields the AST `Pipe(A, B)`; with the composition theorem
above, `search (A | B) d = search B (search A d)` for the written forms. -/

open Jmes.Spec Jmes.Parser in
theorem C15_written_pipe_is_pipe_node (l r : PE N) (hw : Parser.wf (.bin .pipe l r)) :
    parseTokens Generated.table (ppE (.bin .pipe l r) ++ [eofTok 0]) = .ok (.pipe (node l) (node r)) := by
  rw [parseTokens_congr (sameDecisions_of_tableOK Generated.table Spec.table generated_table_ok spec_table_ok),
    round_trip_spec _ hw]
  rfl

omit [NumOps N] in
open Jmes.Spec Jmes.Parser in
/-- … and when neither side needs parentheses the written form is literally `A`, `|`, `B`. -/
theorem C15_written_pipe_tokens (l r : PE N) (hl : ¬ l.rp < 1) (hr : ¬ r.level ≤ 1) :
    ppE (.bin .pipe l r) = ppE l ++ tk .pipe :: ppE r := by
  simp [ppE, BinOp.pow, BinOp.tok, hl, hr]

open Jmes.Spec Jmes.Parser in
/-- End to end for the written pipe: evaluate the parse of `A | B` = evaluate `B` on the value of `A`. -/
theorem C15_written_pipe_composes (ft : List FnEntry) (l r : PE N) (hw : Parser.wf (.bin .pipe l r)) (d : Val N) :
    (parseTokens Generated.table (ppE (.bin .pipe l r) ++ [eofTok 0]) >>= fun ast => eval ft ast d) =
      (match eval ft (node l) d with
       | .ok v => eval ft (node r) v
       | e => e) := by
  rw [C15_written_pipe_is_pipe_node l r hw]
  rfl

/-! ### `A | B` for arbitrary expressions -/

section AnyExpressions
open Jmes.Parser Jmes.Spec

/-- what `parseTokens` consumed: everything up to the end-of-input token -/
theorem parse_consumes_all {As : List Token} {eA : Token} {a : Node N} (heA : eA.ty = .eof) (hnA : ∀ t ∈ As, t.ty ≠ .eof)
    (h : parseTokens Spec.table (As ++ [eA]) = .ok a) :
    Parser.R Spec.table (.expr 0 ⟨[], As ++ [eA]⟩) (.node a ⟨As.reverse, [eA]⟩) := by
  obtain ⟨p1, t, rest, hR, hafter, ht⟩ := Parser.parseTokens_ok_iff_R Spec.table _ a h
  have hs := Parser.R_grammatical Spec.table hR
  simp only [Parser.Sound] at hs
  obtain ⟨seg, hseg, _, _⟩ := hs
  have he := hseg.after
  rw [hafter] at he
  obtain ⟨rfl, rfl⟩ := eof_last he.symm hnA ht
  have ht' : t = eA := by simpa using he.symm
  subst ht'
  have : p1 = ⟨seg.reverse, [t]⟩ := by
    cases p1 with
    | mk b' a' => simp only at hafter; rw [hafter]; simpa using hseg.before
  rw [this] at hR
  exact hR

/-- **Pipe is sequential composition, for ARBITRARY expressions** (token level, table regenerated from
    /repo): if `A` compiles to `a` and `B` compiles to `b`, then `A | B` compiles, and on every document it
    evaluates to `b` applied to the result of `a` — an error (or a panic) exactly when one of the two
    steps is.  (The AST is `Pipe a b` up to the re-association of `B`'s own top-level pipes:
    `A | B1 | B2` is read `(A | B1) | B2`.)  No restriction to printed forms. -/
theorem C15_pipe_of_any_expressions (As Bs : List Token) (eA eB pt : Token) (a b : Node N) (total : Nat)
    (heA : eA.ty = .eof) (heB : eB.ty = .eof) (hpt : pt.ty = .pipe)
    (hnA : ∀ t ∈ As, t.ty ≠ .eof) (hnB : ∀ t ∈ Bs, t.ty ≠ .eof)
    (hA : parseTokens Generated.table (As ++ [eA]) = .ok a) (hB : parseTokens Generated.table (Bs ++ [eB]) = .ok b)
    (htoks : Lexer.TokensOK total (As ++ pt :: (Bs ++ [eB]))) :
    ∃ X, parseTokens Generated.table (As ++ pt :: (Bs ++ [eB])) = .ok X ∧
      ∀ (ft : List FnEntry) (d : Val N), eval ft X d = (eval ft a d >>= fun v => eval ft b v) := by
  have hsd := sameDecisions_of_tableOK Generated.table Spec.table generated_table_ok spec_table_ok
  rw [parseTokens_congr hsd] at hA hB ⊢
  obtain ⟨X, hR, hev⟩ := Parser.pipe_of_parses heA heB hpt (parse_consumes_all heA hnA hA) (parse_consumes_all heB hnB hB)
  exact ⟨X, Parser.parseTokens_of_R hR ⟨eB, [], rfl, heB⟩ htoks, hev⟩

/-- Non-vacuity: the hypotheses of `C15_pipe_of_any_expressions` are met by `a[*].b` and `c || d`
    (whose parses come from the printer theorem). -/
example : ∃ X, parseTokens (N := Int) Generated.table
      ([tk .uident (b "a"), tk .lbracket, tk .star, tk .rbracket, tk .dot, tk .uident (b "b")] ++ tk .pipe ::
        ([tk .uident (b "c"), tk .or, tk .uident (b "d")] ++ [eofTok 0])) = .ok X ∧
      ∀ (ft : List FnEntry) (d : Val Int), eval ft X d =
        (eval ft (.proj (.field (b "a")) (.field (b "b"))) d >>= fun v => eval ft (.or (.field (b "c")) (.field (b "d"))) v) := by
  have hsd := sameDecisions_of_tableOK Generated.table Spec.table generated_table_ok spec_table_ok
  have hA : parseTokens (N := Int) Generated.table
      ([tk .uident (b "a"), tk .lbracket, tk .star, tk .rbracket, tk .dot, tk .uident (b "b")] ++ [eofTok 0]) =
      .ok (.proj (.field (b "a")) (.field (b "b"))) := by
    have hw : Parser.wf (.bstar (.ident (b "a")) (.dot (.ident (b "b"))) : PE Int) := by
      simp [Parser.wf, Parser.wfRhs, dotOK, first, PE.isListOrHash, PE.level, PE.rp]
    have := round_trip_spec (N := Int) _ hw
    rw [parseTokens_congr hsd]
    simpa [ppE, ppRhs, PE.rp, Rhs.rp, PE.isListOrHash, node, nodeRhs] using this
  have hB : parseTokens (N := Int) Generated.table ([tk .uident (b "c"), tk .or, tk .uident (b "d")] ++ [eofTok 0]) =
      .ok (.or (.field (b "c")) (.field (b "d"))) := by
    have hw : Parser.wf (.bin .or (.ident (b "c")) (.ident (b "d")) : PE Int) := by simp [Parser.wf]
    have := round_trip_spec (N := Int) _ hw
    rw [parseTokens_congr hsd]
    simpa [ppE, PE.rp, PE.level, node, BinOp.pow, BinOp.tok, BinOp.node] using this
  refine C15_pipe_of_any_expressions _ _ (eofTok 0) (eofTok 0) (tk .pipe) _ _ 0 rfl rfl rfl ?_ ?_ hA hB ?_
  · intro t ht; simp at ht; rcases ht with rfl | rfl | rfl | rfl | rfl | rfl <;> simp [tk]
  · intro t ht; simp at ht; rcases ht with rfl | rfl | rfl <;> simp [tk]
  · refine ⟨⟨[tk .uident (b "a"), tk .lbracket, tk .star, tk .rbracket, tk .dot, tk .uident (b "b"), tk .pipe,
        tk .uident (b "c"), tk .or, tk .uident (b "d")], rfl, ?_⟩, ?_⟩
    · intro t ht; simp at ht; rcases ht with rfl | rfl | rfl | rfl | rfl | rfl | rfl | rfl | rfl | rfl <;> simp [tk]
    · intro t ht; simp at ht; rcases ht with rfl | rfl | rfl | rfl | rfl | rfl | rfl | rfl | rfl | rfl | rfl <;> simp [tk, eofTok]

end AnyExpressions

end Jmes.Props
