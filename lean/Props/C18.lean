/-
  Props.C18 — Go structs, pointers and typed slices navigate like their JSON
  form (DESIGN.md §7, C18).

  `Jmes/Typed.lean` models the reflection paths of interpreter.go / util.go
  (`fieldFromStruct`, `interfaceOf`, the `…WithReflection` loops, `isFalse`'s
  reflection cases) as `evalT` on typed values `TVal`; `view` is a document's
  JSON form.  The theorem: for every navigational expression (field access,
  indexing, slicing, flattening, list and filter projections, multi-select,
  `||`, `&&`, `!`, pipes, literals — nested without bound) and every well-formed
  typed document, evaluation on the typed document and evaluation on its JSON
  form succeed or fail together and the results have the same JSON form; nil
  pointers are null.  Field names are those `cap` (the capitalisation of
  `fieldFromStruct`) leaves alone; `C18_struct_lookup_capitalises` says the
  other spellings of a name reach the same field.

  Decided on the implementation only (not modelled): that no built-in function
  panics on typed slices (`typedCall` stream), comparators on typed values.
-/
import Props.Tables
import Proofs.Typed
namespace Jmes.Props
open Jmes Jmes.Typed Jmes.Interp

theorem C18_generated_table_ok : TableOK Generated.table = true := generated_table_ok
theorem C18_generated_sigs_ok : SigsOK Generated.functionTable Spec.functionTable = true := generated_sigs_ok
theorem C18_generated_lex_ok : LexTablesOK Model.lexTables Spec.lexTables = true := generated_lex_ok

variable {N : Type} [NumOps N]

/-- **Typed = generic.**  Same outcome (value, error or — never — panic), and
    the typed result's JSON form is the generic result. -/
theorem C18_typed_equals_generic (cap : Bytes → Bytes) (ft : List FnEntry) (e : Node N) (hnav : Nav cap e = true)
    (d : TVal N) (hd : Top d) :
    (match evalT cap e d with
     | .ok r => eval ft e (view d) = .ok (view r)
     | .err x => eval ft e (view d) = .err x
     | .panic s => eval ft e (view d) = .panic s) := by
  have h := evalT_rel cap ft e hnav d hd
  cases ht : evalT cap e d with
  | ok r =>
    rw [ht] at h
    cases hv : eval ft e (view d) with
    | ok v => rw [hv] at h; simp only; rw [h.1]
    | err x => rw [hv] at h; exact h.elim
    | panic s => rw [hv] at h; exact h.elim
  | err x =>
    rw [ht] at h
    cases hv : eval ft e (view d) with
    | ok v => rw [hv] at h; exact h.elim
    | err y => rw [hv] at h; simp only; rw [h]
    | panic s => rw [hv] at h; exact h.elim
  | panic s =>
    rw [ht] at h
    cases hv : eval ft e (view d) with
    | ok v => rw [hv] at h; exact h.elim
    | err y => rw [hv] at h; exact h.elim
    | panic s' => rw [hv] at h; simp only; rw [h]

/-- The result of a navigation never is a typed nil pointer and stays well formed. -/
theorem C18_results_are_well_formed (cap : Bytes → Bytes) (ft : List FnEntry) (e : Node N) (hnav : Nav cap e = true)
    (d : TVal N) (hd : Top d) (r : TVal N) (hr : evalT cap e d = .ok r) : Top r := by
  have h := evalT_rel cap ft e hnav d hd
  rw [hr] at h
  cases hv : eval ft e (view d) with
  | ok v => rw [hv] at h; exact h.2
  | err x => rw [hv] at h; exact h.elim
  | panic s => rw [hv] at h; exact h.elim

/-- `fieldFromStruct` matches a name after capitalising it: a key and its
    capitalised spelling reach the same struct field (`cap` idempotent). -/
theorem C18_struct_lookup_capitalises (cap : Bytes → Bytes) (hidem : ∀ k, cap (cap k) = cap k) (k : Bytes)
    (fs : List (Bytes × TVal N)) :
    fieldT cap k (.struct fs) = fieldT cap (cap k) (.struct fs) ∧
    fieldT cap k (.ptr (.struct fs)) = fieldT cap (cap k) (.ptr (.struct fs)) := by
  simp [fieldT, hidem]

/-- A nil pointer behaves as null: as a struct field, as a slice element, and as a document. -/
theorem C18_nil_pointer_is_null (cap : Bytes → Bytes) (k : Bytes) (rest : List (Bytes × TVal N)) (xs : List (TVal N)) :
    fieldT cap k (.struct ((cap k, .nilptr) :: rest)) = (.null : TVal N) ∧
    indexT 0 (.slice (.nilptr :: xs)) = (.null : TVal N) ∧
    fieldT cap k (.nilptr : TVal N) = .null ∧ isFalseT (.nilptr : TVal N) = true := by
  refine ⟨?_, ?_, rfl, rfl⟩
  · simp [fieldT, fieldOfStruct, lookupT, interfaceOf]
  · simp [indexT, interfaceOf]

/-- the hypotheses are satisfiable by a document with every typed shape
    (fields `A`: a slice of pointers with a nil one, `B`: a nil pointer, `C`: a slice of strings) -/
example : Top (.struct [([0x41], .slice [.ptr (.struct [([0x49], (.num 1 : TVal Int))]), .nilptr]),
    ([0x42], .nilptr), ([0x43], .slice [.str [0x74]])] : TVal Int) := by
  refine ⟨rfl, by decide, by decide, ?_⟩
  simp [WFTFields, WFT, WFTSlice, isStruct]

end Jmes.Props
